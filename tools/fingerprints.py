#!/venv/bin/python
"""fingerprints.py [--write] [--repo DIR]: a fingerprint (sha256 of the normalised AST) of every Python source of the
repository the properties are anchored in.

`--write` records them in /verif/source_fingerprints.json (done once per accepted state of /repo: the pinned commit plus
the `fix:` commits).  ./check compares the current tree with the record: when a file a property is anchored in has
changed, the check does not alarm -- a change is not a violation -- but it works harder: the correspondence runs with
four times as many cases and the failing-input search with its enlarged budget, as after a broken proof.  Comments and
formatting do not change the fingerprint; any change of the code does."""
import ast
import glob
import hashlib
import json
import os
import sys

VERIF = os.path.dirname(os.path.dirname(os.path.abspath(__file__)))
FILE = os.path.join(VERIF, 'source_fingerprints.json')
PATTERNS = ['src/DHLLDV/*.py', 'src/Wilson/*.py', 'DHLLDV_viewer/*.py']


def strip_docstrings(tree):
    for node in ast.walk(tree):
        if isinstance(node, (ast.FunctionDef, ast.ClassDef, ast.AsyncFunctionDef, ast.Module)):
            b = node.body
            if b and isinstance(b[0], ast.Expr) and isinstance(getattr(b[0], 'value', None), ast.Constant) and isinstance(b[0].value.value, str):
                node.body = b[1:] or [ast.Pass()]
    return tree


def current(repo):
    out = {}
    for pat in PATTERNS:
        for f in sorted(glob.glob(os.path.join(repo, pat))):
            rel = os.path.relpath(f, repo)
            try:
                tree = strip_docstrings(ast.parse(open(f).read()))
                out[rel] = hashlib.sha256(ast.dump(tree, include_attributes=False).encode()).hexdigest()
            except SyntaxError as e:
                out[rel] = 'syntax-error:' + str(e)[:80]
    return out


def changed(repo, files):
    """the subset of `files` (repo-relative) whose fingerprint differs from the record (or that are not recorded)"""
    if not os.path.exists(FILE):
        return []
    whole = json.load(open(FILE))
    if whole.get('python') != sys.version_info[:2].__repr__():     # ast.dump differs between Python versions
        return []
    rec = whole['files']
    cur = current(repo)
    return sorted(f for f in files if cur.get(f) != rec.get(f))


if __name__ == '__main__':
    repo = '/repo'
    if '--repo' in sys.argv:
        repo = sys.argv[sys.argv.index('--repo') + 1]
    cur = current(repo)
    if '--write' in sys.argv:
        import subprocess
        head = subprocess.run(['git', '-C', repo, 'rev-parse', 'HEAD'], capture_output=True, text=True).stdout.strip()
        json.dump({'repo_head': head, 'python': sys.version_info[:2].__repr__(), 'files': cur}, open(FILE, 'w'), indent=1, sort_keys=True)
        print('written', FILE, len(cur), 'files at', head[:8])
    else:
        whole = json.load(open(FILE)) if os.path.exists(FILE) else {}
        rec = whole.get('files', {})
        if whole.get('python') != sys.version_info[:2].__repr__():
            print('recorded with another Python version: run with /venv/bin/python')
        for f in sorted(set(cur) | set(rec)):
            if cur.get(f) != rec.get(f):
                print('changed:', f)
