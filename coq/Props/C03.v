(* C03 -- gradient, excess gradient and pressure loss are mutually consistent.
   Statements only; proofs in Lemmas/LC03.v (regime models, regenerated from the Python) and
   Lemmas/LC03b.v (slurry-object tables and graded sand, hand models run against the code). *)
From Coq Require Import Reals List Bool.
From DHV Require Import NumOps RInst Fracs Graded SlurryCalc LC03 LC03b.
From DHV Require Constants Homogeneous Heterogeneous Stratified Framework WilsonStratified WilsonV50.
Import ListNotations.
Local Open Scope R_scope.

(* ---- every regime model:  im = Erhg * Rsd * Cv + il   and   dp = im * g * rhol ---- *)
Theorem C03_homogeneous : forall vls Dp d eps nu rhol rhos Cv : R,
  Homogeneous.homogeneous_head_loss RN vls Dp d eps nu rhol rhos Cv =
    Homogeneous.Erhg RN vls Dp d eps nu rhol rhos Cv true * Rsd rhol rhos * Cv + Homogeneous.fluid_head_loss RN vls Dp eps nu rhol
  /\ Homogeneous.homogeneous_pressure_loss RN vls Dp d eps nu rhol rhos Cv =
    Homogeneous.homogeneous_head_loss RN vls Dp d eps nu rhol rhos Cv * g * rhol.
Proof. intros; split; [apply LC03.ho_head|apply LC03.ho_pressure]. Qed.
Print Assumptions C03_homogeneous.

Theorem C03_heterogeneous : forall (vls Dp d eps nu rhol rhos Cv : R) (sf sq : bool),
  Heterogeneous.heterogeneous_head_loss RN vls Dp d eps nu rhol rhos Cv sf sq =
    Heterogeneous.Erhg RN vls Dp d eps nu rhol rhos Cv sf sq * Rsd rhol rhos * Cv + Homogeneous.fluid_head_loss RN vls Dp eps nu rhol
  /\ Heterogeneous.heterogeneous_pressure_loss RN vls Dp d eps nu rhol rhos Cv sf sq =
    Heterogeneous.heterogeneous_head_loss RN vls Dp d eps nu rhol rhos Cv sf sq * g * rhol.
Proof. intros; split; [apply LC03.he_head|apply LC03.he_pressure]. Qed.
Print Assumptions C03_heterogeneous.

Theorem C03_sliding_bed : forall vls Dp d eps nu rhol rhos Cv Cvb : R,
  Stratified.sliding_bed_head_loss RN vls Dp d eps nu rhol rhos Cv Cvb =
    Stratified.Erhg RN vls Dp d eps nu rhol rhos Cv * Rsd rhol rhos * Cv + Homogeneous.fluid_head_loss RN vls Dp eps nu rhol
  /\ Stratified.sliding_bed_pressure_loss RN vls Dp d eps nu rhol rhos Cv =
    Stratified.sliding_bed_head_loss RN vls Dp d eps nu rhol rhos Cv (Constants.Cvb RN) * g * rhol.
Proof. intros; split; [apply LC03.sb_head|apply LC03.sb_pressure]. Qed.
Print Assumptions C03_sliding_bed.

(* fixed bed: the code computes pressure -> head -> Erhg, so the relation needs the two divisions to be
   legal, which they are on the envelope (rhol >= 0.99, Rsd >= 0.94, Cv >= 0.02) *)
Theorem C03_fixed_bed : forall vls Dp d eps nu rhol rhos Cv : R,
  rhol <> 0 -> Rsd rhol rhos * Cv <> 0 ->
  Stratified.fb_head_loss RN vls Dp d eps nu rhol rhos Cv =
    Stratified.fb_Erhg RN vls Dp d eps nu rhol rhos Cv * Rsd rhol rhos * Cv + Homogeneous.fluid_head_loss RN vls Dp eps nu rhol
  /\ Stratified.fb_pressure_loss RN vls Dp d eps nu rhol rhos Cv =
    Stratified.fb_head_loss RN vls Dp d eps nu rhol rhos Cv * g * rhol.
Proof. intros; split; [apply LC03.fb_head|apply LC03.fb_pressure]; assumption. Qed.
Print Assumptions C03_fixed_bed.

Theorem C03_wilson_stratified : forall vls Dp d eps nu rhol rhos Cv musf Cvb : R,
  WilsonStratified.stratified_head_loss RN vls Dp d eps nu rhol rhos musf Cv Cvb =
    WilsonStratified.Erhg RN vls Dp d eps nu rhol rhos musf Cv Cvb * Rsd rhol rhos * Cv + Homogeneous.fluid_head_loss RN vls Dp eps nu rhol
  /\ WilsonStratified.stratified_pressure_loss RN vls Dp d eps nu rhol rhos musf Cv Cvb =
    WilsonStratified.stratified_head_loss RN vls Dp d eps nu rhol rhos musf Cv (nlit RN 6 10) * g * rhol.
Proof. intros; split; [apply LC03.ws_head|apply LC03.ws_pressure]. Qed.
Print Assumptions C03_wilson_stratified.

Theorem C03_wilson_V50 : forall (fuel : nat) (vls Dp d50 d85 eps nu rhol rhos Cv musf : R),
  WilsonV50.heterogeneous_head_loss RN fuel vls Dp d50 d85 eps nu rhol rhos Cv musf =
    WilsonV50.Erhg RN fuel vls Dp d50 d85 eps nu rhol rhos musf * Rsd rhol rhos * Cv + Homogeneous.fluid_head_loss RN vls Dp eps nu rhol
  /\ WilsonV50.heterogeneous_pressure_loss RN fuel vls Dp d50 d85 eps nu rhol rhos Cv musf =
    WilsonV50.heterogeneous_head_loss RN fuel vls Dp d50 d85 eps nu rhol rhos Cv musf * g * rhol.
Proof. intros; split; [apply LC03.v50_head|apply LC03.v50_pressure]. Qed.
Print Assumptions C03_wilson_V50.

Theorem C03_liquid : forall vls Dp eps nu rhol : R, Dp <> 0 ->
  Homogeneous.fluid_pressure_loss RN vls Dp eps nu rhol = Homogeneous.fluid_head_loss RN vls Dp eps nu rhol * g * rhol.
Proof. exact LC03.il_pressure. Qed.
Print Assumptions C03_liquid.

(* ---- the slurry object's tables: every key, every index ---- *)
Theorem C03_curves : forall (sf sq : bool) (p : sparams (T:=R)) (gs : gsd (T:=R)) (i : nat) (v : R),
  let c := generate_curves RN sf sq p gs in
  let dict := Framework.Cvs_Erhg_dict RN sf sq v (p_Dp p) (p_D50 p) (p_eps p) (p_nu p) (p_rhol p) (p_rhos p) (p_Cv p) in
  nth_error (c_vls c) i = Some v ->
  let e := c_Erhg c in let m := c_im c in
  let l := SlurryCalc.il RN p v in
  nth_error (ec_il e) i = Some l /\ nth_error (ic_il m) i = Some l /\
  nth_error (ec_Cvs_Erhg e) i = Some (sel6 dict) /\
  nth_error (ic_Cvs_im m) i = Some (sel6 dict * SlurryCalc.Rsd RN p * p_Cv p + l) /\
  nth_error (ec_FB e) i = Some (Framework.Erhg6_FB dict) /\
  nth_error (ic_FB m) i = Some (Framework.Erhg6_FB dict * SlurryCalc.Rsd RN p * p_Cv p + l) /\
  nth_error (ec_SB e) i = Some (Framework.Erhg6_SB dict) /\
  nth_error (ic_SB m) i = Some (Framework.Erhg6_SB dict * SlurryCalc.Rsd RN p * p_Cv p + l) /\
  nth_error (ec_He e) i = Some (Framework.Erhg6_He dict) /\
  nth_error (ic_He m) i = Some (Framework.Erhg6_He dict * SlurryCalc.Rsd RN p * p_Cv p + l) /\
  nth_error (ec_Ho e) i = Some (Framework.Erhg6_Ho dict) /\
  nth_error (ic_Ho m) i = Some (Framework.Erhg6_Ho dict * SlurryCalc.Rsd RN p * p_Cv p + l) /\
  nth_error (ic_ELM m) i = Some (l * rhom RN p) /\
  (exists x, nth_error (ec_Cvt_Erhg e) i = Some x /\ nth_error (ic_Cvt_im m) i = Some (x * SlurryCalc.Rsd RN p * p_Cv p + l)) /\
  (exists x, nth_error (ec_graded_Cvs e) i = Some x /\ nth_error (ic_graded_Cvs_im m) i = Some (x * SlurryCalc.Rsd RN p * p_Cv p + l)) /\
  nth_error (ec_graded_Cvt e) i = Some (SlurryCalc.Erhg RN sf sq p gs v) /\
  nth_error (ic_graded_Cvt_im m) i = Some (SlurryCalc.im RN sf sq p gs v).
Proof. intros sf sq p gs i v. exact (LC03b.curves_consistent sf sq p gs i v). Qed.
Print Assumptions C03_curves.

(* the tabulated speeds are (i+1)/10 for i < max_index, and there are max_index of them *)
Theorem C03_vls : forall (sf sq : bool) (p : sparams (T:=R)) (gs : gsd (T:=R)) (i : nat),
  (i < p_max_index p)%nat ->
  nth_error (c_vls (generate_curves RN sf sq p gs)) i = Some (IZR (Z.of_nat i + 1) / (IZR 10 / IZR 1))
  /\ length (c_vls (generate_curves RN sf sq p gs)) = p_max_index p.
Proof. intros; split; [apply LC03b.vls_nth; assumption|apply LC03b.vls_length]. Qed.
Print Assumptions C03_vls.

(* ---- graded sand, for spatial- (cvt = false) and delivered-concentration (cvt = true) input ---- *)
Theorem C03_graded : forall (sf sq cvt : bool) (vls Dp eps nu rhol rhos Cv X d0 : R) (rest : list (R * R)),
  0 < d0 -> all_truthy_pos rest -> sort_keys RN ((X, d0) :: rest) = (X, d0) :: rest ->
  Erhg_graded RN sf sq ((X, d0) :: rest) vls Dp eps nu rhol rhos Cv cvt false =
  graded_Erhg_spec sf sq cvt vls Dp eps nu rhol rhos Cv X d0 rest.
Proof. exact LC03b.graded_is_spec. Qed.
Print Assumptions C03_graded.

(* non-vacuity: a concrete three-fraction grading meets the premises *)
Example C03_graded_premises :
  0 < 1 / 10000 /\ all_truthy_pos [(5 / 10, 3 / 10000); (9 / 10, 1 / 1000)] /\
  sort_keys RN [(1 / 10, 1 / 10000); (5 / 10, 3 / 10000); (9 / 10, 1 / 1000)] =
    [(1 / 10, 1 / 10000); (5 / 10, 3 / 10000); (9 / 10, 1 / 1000)].
Proof. exact LC03b.graded_premises_example. Qed.
Print Assumptions C03_graded_premises.
