(* Proofs for C17: the viewer's slurry-tab state machine (Models/Viewer.v) over the reals, for ANY text formatting
   and parsing functions. *)
From Coq Require Import Reals List Bool String ZArith Lra Lia.
From DHV Require Import NumOps RInst Interp Fracs SlurryCalc SlurryState Viewer.
From DHV Require Tables Framework.
Import ListNotations.
Local Open Scope R_scope.

(* ---------- the fluid densities the slurry object can hold ---------- *)
Ltac reqb_step :=
  match goal with
  | |- context [Reqb ?a ?b] =>
    first [ replace (Reqb a b) with true by (symmetry; apply Reqb_true; lra)
          | replace (Reqb a b) with false by (symmetry; apply not_true_is_false; rewrite Reqb_true; lra) ]
  end.

Lemma fresh_density : snd (fluid_props RN false) = 99820 / 100000.
Proof.
  unfold fluid_props. cbn [snd]. unfold lookup_or_fail, lookup, Tables.water_density.
  cbn [find_exact]. toR. repeat reqb_step. reflexivity.
Qed.

Lemma rhol_range b : 0 < snd (fluid_props RN b) < 21 / 20.
Proof.
  destruct b.
  - unfold fluid_props. cbn [snd]. toR. lra.
  - rewrite fresh_density. lra.
Qed.

(* ---------- the slurry object: what each operation does to the parameters ---------- *)
Definition sp_after (p : sparams (T:=R)) (o : op (T:=R)) : sparams (T:=R) :=
  match o with
  | SetDp x => set_Dp p x | SetEps x => set_eps p x | SetFluid b => set_fluid p (fluid_props RN b)
  | SetD50 x => set_D50 p x | SetCv x => set_Cv p x | SetRhos x => set_rhos p x
  | SetRhom x => set_Cv p (Cv_of_rhom RN p x) | SetMaxIndex n => set_max_index p n | SetRhoi x => set_rhoi p x
  | _ => p
  end.

Lemma sp_ensure_gsd (s : state (T:=R)) : sp (ensure_gsd RN s) = sp s.
Proof. unfold ensure_gsd. destruct (gsd_dirty s); reflexivity. Qed.

Lemma sp_ensure_curves sf sq (s : state (T:=R)) : sp (ensure_curves RN sf sq s) = sp s.
Proof.
  unfold ensure_curves, do_gen_curves.
  destruct (s_curves s); [destruct (curves_dirty s)|]; cbn [sp]; rewrite ?sp_ensure_gsd; reflexivity.
Qed.

Lemma sp_step sf sq (s : state (T:=R)) o : sp (fst (step RN sf sq s o)) = sp_after (sp s) o.
Proof.
  destruct o; cbn [step fst sp_after with_p mark sp do_gen_gsd]; rewrite ?sp_ensure_gsd, ?sp_ensure_curves; reflexivity.
Qed.

Lemma salt_ensure_gsd (s : state (T:=R)) : salt (ensure_gsd RN s) = salt s.
Proof. unfold ensure_gsd. destruct (gsd_dirty s); reflexivity. Qed.

Section V.
Variables sf sq : bool.
Variables fmt3 fmt0 : R -> string.
Variable fmtZ : Z -> string.
Variable parse : string -> option R.

Notation vst := (vstate (T:=R)).
Notation Sdo := (Viewer.sdo RN sf sq).
Notation Rdx := (Viewer.rdx RN sf sq).
Notation Upd_inputs := (Viewer.update_inputs RN sf sq fmt3 fmtZ).
Notation Upd_slurries := (Viewer.update_slurries RN sf sq).
Notation Usd := (Viewer.update_source_data RN sf sq fmt3 fmtZ).
Notation Callback := (Viewer.callback RN sf sq fmt3 fmt0 fmtZ parse).
Notation Check := (Viewer.check_value RN parse).
Notation Fire := (Viewer.fire RN sf sq fmt3 fmt0 fmtZ parse).
Notation Par := (Viewer.par (T:=R)).

(* everything outside the selected slurry object and the text boxes *)
Definition shell (v : vst) := (diams (cur v), sel v, pipes v, us_units v, overflow v).

Lemma shell_eq (a b : vst) : shell a = shell b ->
  diams (cur a) = diams (cur b) /\ sel a = sel b /\ pipes a = pipes b /\ us_units a = us_units b /\ overflow a = overflow b.
Proof. unfold shell. intro H. inversion H. repeat split; reflexivity || assumption. Qed.

Lemma shell_with_text (v : vst) w s : shell (with_text v w s) = shell v /\ Par (with_text v w s) = Par v /\ radio (with_text v w s) = radio v.
Proof. destruct w; repeat split; reflexivity. Qed.

Lemma text_with_text (v : vst) w s : text (with_text v w s) w = s.
Proof. destruct w; reflexivity. Qed.

Lemma sdo_frame (v : vst) o : shell (Sdo v o) = shell v /\ Par (Sdo v o) = sp_after (Par v) o /\
  (forall w, text (Sdo v o) w = text v w) /\ radio (Sdo v o) = radio v.
Proof.
  unfold Viewer.sdo, with_slurry, shell, par, slurry. cbn [cur sl diams sel pipes us_units overflow radio].
  rewrite sp_step. repeat split; try (intro w; destruct w; reflexivity).
Qed.

Lemma rdx_frame (v : vst) f : shell (fst (Rdx v f)) = shell v /\ Par (fst (Rdx v f)) = Par v /\
  (forall w, text (fst (Rdx v f)) w = text v w) /\ radio (fst (Rdx v f)) = radio v.
Proof.
  unfold Viewer.rdx. destruct (step RN sf sq (slurry v) (ReadDx f)) as [s o] eqn:E.
  cbn [fst]. unfold with_slurry, shell, par, slurry. cbn [cur sl diams sel pipes us_units overflow radio].
  assert (sp s = sp (sl (cur v))) as ->.
  { change s with (fst (s, o)). rewrite <- E. rewrite sp_step. reflexivity. }
  repeat split; try (intro w; destruct w; reflexivity).
Qed.

Lemma update_inputs_frame (v : vst) : shell (Upd_inputs v) = shell v /\ Par (Upd_inputs v) = Par v.
Proof.
  unfold Viewer.update_inputs.
  destruct (Rdx v (f15 RN)) as [v1 d15] eqn:E1. destruct (Rdx v1 (f50 RN)) as [v2 d50] eqn:E2.
  destruct (Rdx v2 (f85 RN)) as [v3 d85] eqn:E3.
  pose proof (rdx_frame v (f15 RN)) as (A1 & B1 & _). rewrite E1 in A1, B1. cbn [fst] in A1, B1.
  pose proof (rdx_frame v1 (f50 RN)) as (A2 & B2 & _). rewrite E2 in A2, B2. cbn [fst] in A2, B2.
  pose proof (rdx_frame v2 (f85 RN)) as (A3 & B3 & _). rewrite E3 in A3, B3. cbn [fst] in A3, B3.
  split.
  - unfold shell in *. cbn [cur sel pipes us_units overflow]. congruence.
  - unfold par, slurry in *. cbn [cur]. congruence.
Qed.

(* list helpers *)
Lemma memb_in x l : memb RN x l = true <-> In x l.
Proof.
  unfold memb. rewrite existsb_exists. split.
  - intros (y & Hy & E). change (neqb RN y x) with (Reqb y x) in E. apply Reqb_true in E. subst. exact Hy.
  - intro H. exists x. split; [exact H|]. change (Reqb x x = true). apply Reqb_true. reflexivity.
Qed.

Lemma last_or_in (d : R) l : l <> [] -> In (last_or d l) l.
Proof.
  revert d. induction l as [|x r IH]; intros d H; [contradiction|].
  cbn [last_or]. destruct r as [|y r'].
  - left. reflexivity.
  - right. apply IH. discriminate.
Qed.

Lemma update_slurries_cases (v : vst) :
  (memb RN (p_Dp (Par v)) (diams (cur v)) = true /\ Upd_slurries v = v) \/
  (memb RN (p_Dp (Par v)) (diams (cur v)) = false /\ Upd_slurries v = Sdo v (SetDp (last_or (p_Dp (Par v)) (diams (cur v))))).
Proof. unfold Viewer.update_slurries. destruct (memb RN _ _); [left|right]; split; reflexivity. Qed.

(* ---------- the documented bounds as an invariant ---------- *)
Definition dOK (d : R) : Prop := 25 <= d * 1000 <= 1500.
Definition Bd (p : sparams (T:=R)) : Prop :=
  25 <= p_Dp p * 1000 <= 1500 /\ 3 / 2 <= p_rhos p <= 7 /\ p_Cv p <= 1 / 2 /\ 0 < p_rhol p < 21 / 20.
Definition Kpl (q : pl (T:=R)) : Prop := Bd (sp (sl q)) /\ In (p_Dp (sp (sl q))) (diams q) /\ Forall dOK (diams q).
Definition K (v : vst) : Prop := Kpl (cur v).

(* the model fields the callback of box w may change: everything else must stay *)
Definition same_except (w : widget) (p p' : sparams (T:=R)) : Prop :=
  p_eps p' = p_eps p /\ p_nu p' = p_nu p /\ p_rhol p' = p_rhol p /\ p_max_index p' = p_max_index p /\
  (w <> WDp -> p_Dp p' = p_Dp p) /\ (w <> WD50 -> p_D50 p' = p_D50 p) /\
  (w <> WCv -> w <> WRhom -> p_Cv p' = p_Cv p) /\ (w <> WRhos -> p_rhos p' = p_rhos p /\ p_rhoi p' = p_rhoi p).

(* how a later state is obtained from an earlier one: by operations on the selected slurry object, by text changes, by a
   refresh -- so that any invariant of those steps can be transported along a callback *)
Inductive reach : vst -> vst -> Prop :=
| r_refl v : reach v v
| r_sdo v o : reach v (Sdo v o)
| r_rdx v f : reach v (fst (Rdx v f))
| r_text v w s : reach v (with_text v w s)
| r_usd v : reach v (Usd v)
| r_upd v : reach v (Upd_slurries v)
| r_flag v b : reach v (mkV (cur v) (sel v) (pipes v) (tDp v) (tD15 v) (tD50 v) (tD85 v) (tRhos v) (tRhom v) (tCv v) (radio v) (us_units v) b)
| r_trans a b c : reach a b -> reach b c -> reach a c.

Definition Rel (w : widget) (v v' : vst) : Prop :=
  K v' /\ same_except w (Par v) (Par v') /\ diams (cur v') = diams (cur v) /\ sel v' = sel v /\ pipes v' = pipes v /\
  us_units v' = us_units v /\ (w <> WRhom -> 1 / 100 <= p_Cv (Par v) -> 1 / 100 <= p_Cv (Par v')) /\ reach v v'.

Lemma same_except_refl w p : same_except w p p.
Proof. unfold same_except. repeat split; reflexivity. Qed.

Ltac se_tac :=
  unfold same_except in *;
  cbn [sp_after set_Dp set_eps set_fluid set_D50 set_Cv set_rhos set_rhoi set_max_index p_eps p_nu p_rhol p_max_index p_Dp p_D50
       p_Cv p_rhos p_rhoi fst snd] in *;
  intuition (try congruence; try discriminate).

Ltac rel_split := unfold Rel; refine (conj _ (conj _ (conj _ (conj _ (conj _ (conj _ (conj _ _))))))).

Lemma rel_refl w v : K v -> Rel w v v.
Proof. intro H. rel_split; auto using same_except_refl, r_refl. Qed.

(* a step that leaves the parameters and the shell alone *)
Lemma rel_frame w (v v1 v2 : vst) : Rel w v v1 -> shell v2 = shell v1 -> Par v2 = Par v1 -> reach v1 v2 -> Rel w v v2.
Proof.
  intros (HK & HS & Hd & Hs & Hp & Hu & Hc & Hre) Hsh Hpar Hr. destruct (shell_eq _ _ Hsh) as (E1 & E2 & E3 & E4 & E5).
  unfold Rel. rewrite Hpar. rel_split; try congruence; try assumption; [|exact (r_trans _ _ _ Hre Hr)].
  unfold K, Kpl in *. unfold par, slurry in Hpar. rewrite Hpar, E1. exact HK.
Qed.

Lemma rel_read w (v v1 : vst) o : Rel w v v1 -> (forall p, sp_after p o = p) -> Rel w v (Sdo v1 o).
Proof.
  intros H Ho. destruct (sdo_frame v1 o) as (A & B & _). apply (rel_frame w v v1); auto using r_sdo. rewrite B. apply Ho.
Qed.

Lemma rel_rdx w (v v1 : vst) f : Rel w v v1 -> Rel w v (fst (Rdx v1 f)).
Proof. intro H. destruct (rdx_frame v1 f) as (A & B & _). apply (rel_frame w v v1); auto using r_rdx. Qed.

Lemma rel_text w (v v1 : vst) w' s : Rel w v v1 -> Rel w v (with_text v1 w' s).
Proof. intro H. destruct (shell_with_text v1 w' s) as (A & B & _). apply (rel_frame w v v1); auto using r_text. Qed.

Lemma K_in v : K v -> memb RN (p_Dp (Par v)) (diams (cur v)) = true.
Proof. intros (_ & H & _). apply memb_in. exact H. Qed.

Lemma usd_frame (v : vst) : K v -> shell (Usd v) = shell v /\ Par (Usd v) = Par v.
Proof.
  intro HK. unfold Viewer.update_source_data.
  set (v1 := Sdo v ReadCurves). set (v2 := Sdo v1 ReadGSD). set (v3 := Upd_inputs v2).
  destruct (sdo_frame v ReadCurves) as (A1 & B1 & _). destruct (sdo_frame v1 ReadGSD) as (A2 & B2 & _).
  destruct (update_inputs_frame v2) as (A3 & B3). fold v1 in A1, B1. fold v2 in A2, B2. fold v3 in A3, B3.
  cbn [sp_after] in B1, B2.
  assert (S3 : shell v3 = shell v) by congruence. assert (P3 : Par v3 = Par v) by congruence.
  destruct (update_slurries_cases v3) as [(M & E)|(M & E)].
  - rewrite E. split; assumption.
  - exfalso. pose proof (K_in v HK) as M'. rewrite P3 in M. destruct (shell_eq _ _ S3) as (E1 & _).
    rewrite E1 in M. congruence.
Qed.

Lemma rel_usd w (v v1 : vst) : Rel w v v1 -> Rel w v (Usd v1).
Proof. intro H. destruct (usd_frame v1) as (A & B); [apply H|]. apply (rel_frame w v v1); auto using r_usd. Qed.

Lemma rel_trans w (v v1 v2 : vst) : Rel w v v1 -> Rel w v1 v2 -> Rel w v v2.
Proof.
  intros (HK & HS & Hd & Hs & Hp & Hu & Hc & Hre) (HK' & HS' & Hd' & Hs' & Hp' & Hu' & Hc' & Hre').
  rel_split; try congruence; try assumption; [| |exact (r_trans _ _ _ Hre Hre')].
  - destruct HS as (a1 & a2 & a3 & a4 & a5 & a6 & a7 & a8). destruct HS' as (b1 & b2 & b3 & b4 & b5 & b6 & b7 & b8).
    unfold same_except. repeat split; try congruence.
    + intro n. rewrite (b5 n). auto.
    + intro n. rewrite (b6 n). auto.
    + intros n1 n2. rewrite (b7 n1 n2). auto.
    + destruct (b8 H) as (x & _). destruct (a8 H) as (y & _). congruence.
    + destruct (b8 H) as (_ & x). destruct (a8 H) as (_ & y). congruence.
  - intros n h. apply Hc'; auto.
Qed.

(* check_value: the two outcomes *)
Lemma check_cases (setv : widget -> string -> vst -> vst) (v : vst) w lo hi prev fmt :
  (exists x, parse (text v w) = Some x /\ lo <= x <= hi /\ Check setv v w lo hi prev fmt = (v, x)) \/
  ((parse (text v w) = None \/ exists x, parse (text v w) = Some x /\ ~ (lo <= x <= hi)) /\
   Check setv v w lo hi prev fmt = (setv w (fmt prev) v, prev)).
Proof.
  unfold Viewer.check_value. destruct (parse (text v w)) as [x|].
  - change (nleb RN lo x) with (Rleb lo x). change (nleb RN x hi) with (Rleb x hi).
    destruct (Rleb lo x) eqn:E1; [destruct (Rleb x hi) eqn:E2|]; cbn [andb].
    + left. exists x. apply Rleb_true in E1. apply Rleb_true in E2. repeat split; auto.
    + right. split; [|reflexivity]. right. exists x. split; [reflexivity|]. apply Rleb_false in E2. lra.
    + right. split; [|reflexivity]. right. exists x. split; [reflexivity|]. apply Rleb_false in E1. lra.
  - right. split; [left|]; reflexivity.
Qed.

(* ---------- the callbacks ---------- *)
Definition setv_of (fuel : nat) : widget -> string -> vst -> vst :=
  fun w' s v' => if String.eqb s (text v' w') then v' else Callback fuel w' (with_text v' w' s).

Definition k1000 : R := c1000 RN.
Lemma k1000_val : k1000 = 1000. Proof. reflexivity. Qed.

Lemma callback_Dp fuel (v : vst) : Callback (S fuel) WDp v =
  (let '(v1, x) := Check (setv_of fuel) v WDp (nint RN 25%Z) (nint RN 1500%Z) (p_Dp (Par v) * k1000) fmt0 in
   Usd (Upd_slurries (Sdo v1 (SetDp (x / k1000))))).
Proof. reflexivity. Qed.

Lemma callback_D15 fuel (v : vst) : Callback (S fuel) WD15 v =
  (let hi := p_D50 (Par v) * k1000 - nlit RN 1%Z 100%positive in
   let '(v0, d) := Rdx v (f15 RN) in
   let '(v1, x) := Check (setv_of fuel) v0 WD15 (nlit RN 4%Z 100%positive) hi (d * k1000) fmt3 in
   Usd (Sdo v1 (GenGSD (Some (p_D50 (Par v1) / (x / k1000))) None))).
Proof. reflexivity. Qed.

Lemma callback_D50 fuel (v : vst) : Callback (S fuel) WD50 v =
  (let '(va, d15) := Rdx v (f15 RN) in
   let lo := Rmax (d15 * k1000 + nlit RN 1%Z 100%positive) (dlim_mm RN (Par va)) in
   let '(vb, d85) := Rdx va (f85 RN) in
   let hi := Rmin (d85 * k1000 - nlit RN 1%Z 100%positive) (p_Dp (Par vb) * k1000 * nlit RN 25%Z 100%positive) in
   let '(v1, x) := Check (setv_of fuel) vb WD50 lo hi (p_D50 (Par vb) * k1000) fmt3 in
   Usd (Sdo (Sdo v1 (SetD50 (x / k1000))) (GenGSD None None))).
Proof. reflexivity. Qed.

Lemma callback_D85 fuel (v : vst) : Callback (S fuel) WD85 v =
  (let lo := p_D50 (Par v) * k1000 + nlit RN 1%Z 100%positive in
   let hi := p_Dp (Par v) * k1000 * nlit RN 50%Z 100%positive in
   let '(v0, d) := Rdx v (f85 RN) in
   let '(v1, x) := Check (setv_of fuel) v0 WD85 lo hi (d * k1000) fmt3 in
   Usd (Sdo v1 (GenGSD None (Some ((x / k1000) / p_D50 (Par v1)))))).
Proof. reflexivity. Qed.

Lemma callback_Rhos fuel (v : vst) : Callback (S fuel) WRhos v =
  (let p := Par v in
   let cvi := (p_rhoi p - p_rhol p) / (p_rhos p - p_rhol p) in
   let '(v1, x) := Check (setv_of fuel) v WRhos (nlit RN 15%Z 10%positive) (nlit RN 70%Z 10%positive) (p_rhos p) fmt3 in
   let v2 := Sdo v1 (SetRhos x) in
   let p2 := Par v2 in
   Usd (Sdo v2 (SetRhoi (cvi * (p_rhos p2 - p_rhol p2) + p_rhol p2)))).
Proof. reflexivity. Qed.

Lemma callback_Rhom fuel (v : vst) : Callback (S fuel) WRhom v =
  (let p := Par v in
   let hi := nlit RN 5%Z 10%positive * (p_rhos p - p_rhol p) + p_rhol p in
   let '(v1, x) := Check (setv_of fuel) v WRhom (nlit RN 105%Z 100%positive) hi (rhom RN p) fmt3 in
   Usd (Sdo v1 (SetRhom x))).
Proof. reflexivity. Qed.

Lemma callback_Cv fuel (v : vst) : Callback (S fuel) WCv v =
  (let '(v1, x) := Check (setv_of fuel) v WCv (nlit RN 1%Z 100%positive) (nlit RN 5%Z 10%positive) (p_Cv (Par v)) fmt3 in
   Usd (Sdo v1 (SetCv x))).
Proof. reflexivity. Qed.

Lemma rel_set w (v v1 : vst) o : Rel w v v1 -> Bd (sp_after (Par v1) o) -> p_Dp (sp_after (Par v1) o) = p_Dp (Par v1) ->
  same_except w (Par v) (sp_after (Par v1) o) ->
  (w <> WRhom -> 1 / 100 <= p_Cv (Par v) -> 1 / 100 <= p_Cv (sp_after (Par v1) o)) -> Rel w v (Sdo v1 o).
Proof.
  intros (HK & HS & Hd & Hs & Hp & Hu & Hc & Hre) HB HD HSE HC.
  destruct (sdo_frame v1 o) as (A & B & _). destruct (shell_eq _ _ A) as (E1 & E2 & E3 & E4 & E5).
  rel_split; [| rewrite B; exact HSE | congruence | congruence | congruence | congruence | rewrite B; exact HC | exact (r_trans _ _ _ Hre (r_sdo v1 o))].
  unfold K, Kpl. fold (slurry (Sdo v1 o)). fold (Par (Sdo v1 o)). rewrite B, E1.
  destruct HK as (_ & HI & HF). split; [exact HB|]. split; [|exact HF]. rewrite HD. exact HI.
Qed.

Lemma rel_dp (v v1 : vst) y : Rel WDp v v1 -> 25 <= y * 1000 <= 1500 -> Rel WDp v (Upd_slurries (Sdo v1 (SetDp y))).
Proof.
  intros (HK & HS & Hd & Hs & Hp & Hu & Hc & Hre) Hy.
  set (v2 := Sdo v1 (SetDp y)).
  destruct (sdo_frame v1 (SetDp y)) as (A & B & _). fold v2 in A, B. destruct (shell_eq _ _ A) as (E1 & E2 & E3 & E4 & E5).
  destruct HK as (HB & HI & HF). destruct HB as (b1 & b2 & b3 & b4).
  assert (NW : forall q, same_except WDp (Par v) (set_Dp (Par v1) q)).
  { intro q. clear - HS. se_tac. }
  destruct (update_slurries_cases v2) as [(M & E)|(M & E)]; rewrite E.
  - rel_split; [| rewrite B; apply NW | congruence | congruence | congruence | congruence | rewrite B; cbn [sp_after set_Dp p_Cv]; exact Hc | exact (r_trans _ _ _ Hre (r_sdo v1 (SetDp y)))].
    unfold K, Kpl. fold (slurry v2). fold (Par v2). rewrite E1. apply memb_in in M. split; [|split; assumption].
    rewrite B. cbn [sp_after]. unfold Bd. cbn [set_Dp p_Dp p_rhos p_Cv p_rhol]. fold (slurry v1). fold (Par v1). tauto.
  - set (y' := last_or (p_Dp (Par v2)) (diams (cur v2))).
    destruct (sdo_frame v2 (SetDp y')) as (A' & B' & _). destruct (shell_eq _ _ A') as (F1 & F2 & F3 & F4 & F5).
    assert (IN : In y' (diams (cur v1))).
    { rewrite <- E1. apply last_or_in. rewrite E1. intro Z. rewrite Z in HI. exact HI. }
    rel_split; [| | congruence | congruence | congruence | congruence | rewrite B', B; cbn [sp_after set_Dp p_Cv]; exact Hc | exact (r_trans _ _ _ (r_trans _ _ _ Hre (r_sdo v1 (SetDp y))) (r_sdo v2 (SetDp y')))].
    + unfold K, Kpl. fold (slurry (Sdo v2 (SetDp y'))). fold (Par (Sdo v2 (SetDp y'))). rewrite B', F1, E1.
      split; [|split; [exact IN|exact HF]].
      rewrite B. cbn [sp_after]. unfold Bd. cbn [set_Dp p_Dp p_rhos p_Cv p_rhol]. fold (slurry v1). fold (Par v1).
      rewrite Forall_forall in HF. specialize (HF y' IN). unfold dOK in HF. tauto.
    + rewrite B', B. specialize (NW y'). clear - NW. se_tac.
Qed.

Ltac lits := unfold k1000, c1000 in *; toR; repeat match goal with H : _ |- _ => progress (toR_in H) end.

(* the heart: whatever the text, whatever the re-entry, a box's callback keeps the documented bounds, changes only its
   own model fields, and leaves the rest of the session alone *)
Lemma usd_both w (v u : vst) : Rel w v u -> Rel w v (Usd u) /\ exists u', Usd u = Usd u' /\ Rel w v u'.
Proof. intro H. split; [apply rel_usd; exact H|]. exists u. split; [reflexivity|exact H]. Qed.

Lemma callback_rel2 : forall fuel w (v : vst), K v ->
  Rel w v (Callback fuel w v) /\ match fuel with O => True | S _ => exists u, Callback fuel w v = Usd u /\ Rel w v u end.
Proof.
  induction fuel as [|fuel IH]; intros w v HK.
  - split; [|exact I]. cbn [Viewer.callback]. rel_split; try reflexivity; [exact HK|apply same_except_refl|tauto|apply r_flag].
  - assert (SV : forall s (v1 : vst), Rel w v v1 -> Rel w v (setv_of fuel w s v1)).
    { intros s v1 H1. unfold setv_of. destruct (String.eqb s (text v1 w)); [exact H1|].
      eapply rel_trans; [apply rel_text; exact H1|]. refine (proj1 (IH _ _ _)).
      destruct (rel_text w v v1 w s H1) as (HK' & _). exact HK'. }
    pose proof (rel_refl w v HK) as R0.
    destruct w.
    + (* Dp *)
      rewrite callback_Dp.
      destruct (check_cases (setv_of fuel) v WDp (nint RN 25%Z) (nint RN 1500%Z) (p_Dp (Par v) * k1000) fmt0)
        as [(x & P & Rg & E)|(Hrej & E)]; rewrite E.
      * apply usd_both. apply rel_dp; [exact R0|]. lits. lra.
      * apply usd_both. apply rel_dp; [apply SV; exact R0|]. destruct HK as ((b1 & _) & _).
        fold (slurry v) in b1. fold (Par v) in b1. lits. lra.
    + (* D15 *)
      rewrite callback_D15. cbv zeta.
      destruct (Rdx v (f15 RN)) as [v0 d] eqn:E0.
      assert (R1 : Rel WD15 v v0). { change v0 with (fst (v0, d)). rewrite <- E0. apply rel_rdx. exact R0. }
      match goal with |- context [Check ?sv ?a ?b ?lo ?hi ?pr ?f] => destruct (check_cases sv a b lo hi pr f) as [(x & P & Rg & E)|(Hrej & E)]; rewrite E end.
      * apply usd_both. apply rel_read; [exact R1|reflexivity].
      * apply usd_both. apply rel_read; [apply SV; exact R1|reflexivity].
    + (* D50 *)
      rewrite callback_D50. cbv zeta.
      destruct (Rdx v (f15 RN)) as [va d15] eqn:Ea.
      assert (Ra : Rel WD50 v va). { change va with (fst (va, d15)). rewrite <- Ea. apply rel_rdx. exact R0. }
      destruct (Rdx va (f85 RN)) as [vb d85] eqn:Eb.
      assert (Rb : Rel WD50 v vb). { change vb with (fst (vb, d85)). rewrite <- Eb. apply rel_rdx. exact Ra. }
      match goal with |- context [Check ?sv ?a ?b ?lo ?hi ?pr ?f] => destruct (check_cases sv a b lo hi pr f) as [(x & P & Rg & E)|(Hrej & E)]; rewrite E end.
      * apply usd_both. apply rel_read; [|reflexivity].
        apply rel_set; [exact Rb| | reflexivity | |].
        -- destruct Rb as (((c1 & c2 & c3 & c4) & _) & _). fold (slurry vb) in c1, c2, c3, c4. fold (Par vb) in c1, c2, c3, c4.
           unfold Bd. cbn [sp_after set_D50 p_Dp p_rhos p_Cv p_rhol]. tauto.
        -- destruct Rb as (_ & HS & _). clear - HS. se_tac.
        -- destruct Rb as (_ & _ & _ & _ & _ & _ & Hc & _). cbn [sp_after set_D50 p_Cv]. exact Hc.
      * set (v1 := setv_of fuel WD50 _ vb). assert (R1 : Rel WD50 v v1) by (apply SV; exact Rb).
        apply usd_both. apply rel_read; [|reflexivity].
        apply rel_set; [exact R1| | reflexivity | |].
        -- destruct R1 as (((c1 & c2 & c3 & c4) & _) & _). fold (slurry v1) in c1, c2, c3, c4. fold (Par v1) in c1, c2, c3, c4.
           unfold Bd. cbn [sp_after set_D50 p_Dp p_rhos p_Cv p_rhol]. tauto.
        -- destruct R1 as (_ & HS & _). clear - HS. se_tac.
        -- destruct R1 as (_ & _ & _ & _ & _ & _ & Hc & _). cbn [sp_after set_D50 p_Cv]. exact Hc.
    + (* D85 *)
      rewrite callback_D85. cbv zeta.
      destruct (Rdx v (f85 RN)) as [v0 d] eqn:E0.
      assert (R1 : Rel WD85 v v0). { change v0 with (fst (v0, d)). rewrite <- E0. apply rel_rdx. exact R0. }
      match goal with |- context [Check ?sv ?a ?b ?lo ?hi ?pr ?f] => destruct (check_cases sv a b lo hi pr f) as [(x & P & Rg & E)|(Hrej & E)]; rewrite E end.
      * apply usd_both. apply rel_read; [exact R1|reflexivity].
      * apply usd_both. apply rel_read; [apply SV; exact R1|reflexivity].
    + (* rhos *)
      rewrite callback_Rhos. cbv zeta.
      match goal with |- context [Check ?sv ?a ?b ?lo ?hi ?pr ?f] => destruct (check_cases sv a b lo hi pr f) as [(x & P & Rg & E)|(Hrej & E)]; rewrite E end.
      * apply usd_both.
        assert (R2 : Rel WRhos v (Sdo v (SetRhos x))).
        { apply rel_set; [exact R0| | reflexivity | |].
          - destruct HK as ((c1 & c2 & c3 & c4) & _). fold (slurry v) in c1, c2, c3, c4. fold (Par v) in c1, c2, c3, c4.
            unfold Bd. cbn [sp_after set_rhos p_Dp p_rhos p_Cv p_rhol]. lits. lra.
          - se_tac.
          - intros _ h. exact h. }
        apply rel_set; [exact R2| | reflexivity | |].
        -- destruct R2 as (((c1 & c2 & c3 & c4) & _) & _). unfold Bd. cbn [sp_after set_rhoi p_Dp p_rhos p_Cv p_rhol]. tauto.
        -- destruct R2 as (_ & HS & _). clear - HS. se_tac.
        -- destruct R2 as (_ & _ & _ & _ & _ & _ & Hc & _). cbn [sp_after set_rhoi p_Cv]. exact Hc.
      * set (v1 := setv_of fuel WRhos _ v). assert (R1 : Rel WRhos v v1) by (apply SV; exact R0).
        apply usd_both.
        assert (R2 : Rel WRhos v (Sdo v1 (SetRhos (p_rhos (Par v))))).
        { apply rel_set; [exact R1| | reflexivity | |].
          - destruct R1 as (((c1 & c2 & c3 & c4) & _) & _). fold (slurry v1) in c1, c2, c3, c4. fold (Par v1) in c1, c2, c3, c4.
            destruct HK as ((_ & d2 & _) & _). fold (slurry v) in d2. fold (Par v) in d2.
            unfold Bd. cbn [sp_after set_rhos p_Dp p_rhos p_Cv p_rhol]. tauto.
          - destruct R1 as (_ & HS & _). clear - HS. se_tac.
          - destruct R1 as (_ & _ & _ & _ & _ & _ & Hc & _). cbn [sp_after set_rhos p_Cv]. exact Hc. }
        apply rel_set; [exact R2| | reflexivity | |].
        -- destruct R2 as (((c1 & c2 & c3 & c4) & _) & _). unfold Bd. cbn [sp_after set_rhoi p_Dp p_rhos p_Cv p_rhol]. tauto.
        -- destruct R2 as (_ & HS & _). clear - HS. se_tac.
        -- destruct R2 as (_ & _ & _ & _ & _ & _ & Hc & _). cbn [sp_after set_rhoi p_Cv]. exact Hc.
    + (* rhom *)
      rewrite callback_Rhom. cbv zeta.
      destruct HK as ((k1 & k2 & k3 & k4) & kI & kF). fold (slurry v) in k1, k2, k3, k4. fold (Par v) in k1, k2, k3, k4.
      assert (HK : K v) by (unfold K, Kpl, Bd; fold (slurry v); fold (Par v); tauto).
      match goal with |- context [Check ?sv ?a ?b ?lo ?hi ?pr ?f] => destruct (check_cases sv a b lo hi pr f) as [(x & P & Rg & E)|(Hrej & E)]; rewrite E end.
      * apply usd_both. apply rel_set; [exact R0| | reflexivity | |].
        -- cbn [sp_after]. unfold Bd, Cv_of_rhom. cbn [set_Cv p_Dp p_rhos p_Cv p_rhol]. lits.
           repeat split; try lra.
           apply Rmult_le_reg_r with (p_rhos (Par v) - p_rhol (Par v)); [lra|].
           replace ((x - p_rhol (Par v)) / (p_rhos (Par v) - p_rhol (Par v)) * (p_rhos (Par v) - p_rhol (Par v)))
             with (x - p_rhol (Par v)) by (field; lra). lra.
        -- se_tac.
        -- intro n. exfalso. apply n. reflexivity.
      * set (v1 := setv_of fuel WRhom _ v). assert (R1 : Rel WRhom v v1) by (apply SV; exact R0).
        apply usd_both. apply rel_set; [exact R1| | reflexivity | |].
        -- destruct R1 as (((c1 & c2 & c3 & c4) & _) & HS & _). fold (slurry v1) in c1, c2, c3, c4. fold (Par v1) in c1, c2, c3, c4.
           assert (e1 : p_rhos (Par v1) = p_rhos (Par v)) by (clear - HS; se_tac).
           assert (e2 : p_rhol (Par v1) = p_rhol (Par v)) by (clear - HS; se_tac).
           cbn [sp_after]. unfold Bd, Cv_of_rhom, rhom. cbn [set_Cv p_Dp p_rhos p_Cv p_rhol]. lits. rewrite e1, e2 in *.
           repeat split; try lra.
           replace ((p_Cv (Par v) * (p_rhos (Par v) - p_rhol (Par v)) + p_rhol (Par v) - p_rhol (Par v)) / (p_rhos (Par v) - p_rhol (Par v)))
             with (p_Cv (Par v)) by (field; lra). lra.
        -- destruct R1 as (_ & HS & _). clear - HS. se_tac.
        -- intro n. exfalso. apply n. reflexivity.
    + (* Cv *)
      rewrite callback_Cv.
      destruct HK as ((k1 & k2 & k3 & k4) & kI & kF). fold (slurry v) in k1, k2, k3, k4. fold (Par v) in k1, k2, k3, k4.
      assert (HK : K v) by (unfold K, Kpl, Bd; fold (slurry v); fold (Par v); tauto).
      match goal with |- context [Check ?sv ?a ?b ?lo ?hi ?pr ?f] => destruct (check_cases sv a b lo hi pr f) as [(x & P & Rg & E)|(Hrej & E)]; rewrite E end.
      * apply usd_both. apply rel_set; [exact R0| | reflexivity | |].
        -- unfold Bd. cbn [sp_after set_Cv p_Dp p_rhos p_Cv p_rhol]. lits. repeat split; lra.
        -- se_tac.
        -- intros _ _. cbn [sp_after set_Cv p_Cv]. lits. lra.
      * set (v1 := setv_of fuel WCv _ v). assert (R1 : Rel WCv v v1) by (apply SV; exact R0).
        apply usd_both. apply rel_set; [exact R1| | reflexivity | |].
        -- destruct R1 as (((c1 & c2 & c3 & c4) & _) & _). fold (slurry v1) in c1, c2, c3, c4. fold (Par v1) in c1, c2, c3, c4.
           unfold Bd. cbn [sp_after set_Cv p_Dp p_rhos p_Cv p_rhol]. tauto.
        -- destruct R1 as (_ & HS & _). clear - HS. se_tac.
        -- intros _ h. cbn [sp_after set_Cv p_Cv]. exact h.
Qed.

Lemma callback_rel fuel w (v : vst) : K v -> Rel w v (Callback fuel w v).
Proof. intro H. exact (proj1 (callback_rel2 fuel w v H)). Qed.

Lemma callback_usd fuel w (v : vst) : K v -> exists u, Callback (S fuel) w v = Usd u /\ Rel w v u.
Proof. intro H. exact (proj2 (callback_rel2 (S fuel) w v H)). Qed.


(* ---------- every event ---------- *)
Notation Set_value := (Viewer.set_value RN sf sq fmt3 fmt0 fmtZ parse).
Notation D50_adjust := (Viewer.d50_adjust RN sf sq fmt3 fmtZ).

Lemma set_value_rel w s (v : vst) : K v -> Rel w v (Set_value w s v).
Proof.
  intro HK. unfold Viewer.set_value. destruct (String.eqb s (text v w)); [apply rel_refl; exact HK|].
  eapply rel_trans; [apply rel_text; apply rel_refl; exact HK|]. apply callback_rel.
  destruct (rel_text w v v w s (rel_refl w v HK)) as (HK' & _). exact HK'.
Qed.

Lemma d50_adjust_rel delta (v : vst) : K v -> Rel WD50 v (D50_adjust v delta).
Proof.
  intro HK. pose proof (rel_refl WD50 v HK) as R0. unfold Viewer.d50_adjust.
  match goal with |- context [if ?c then _ else _] => destruct c end; [|exact R0].
  set (v1 := Sdo v (SetD50 _)).
  assert (R1 : Rel WD50 v v1).
  { apply rel_set; [exact R0| | reflexivity | |].
    - destruct HK as ((c1 & c2 & c3 & c4) & _). fold (slurry v) in c1, c2, c3, c4. fold (Par v) in c1, c2, c3, c4.
      unfold Bd. cbn [sp_after set_D50 p_Dp p_rhos p_Cv p_rhol]. tauto.
    - se_tac.
    - intros _ h. exact h. }
  destruct (Rdx v1 (f50 RN)) as [v2 d50] eqn:E2.
  assert (R2 : Rel WD50 v v2). { change v2 with (fst (v2, d50)). rewrite <- E2. apply rel_rdx. exact R1. }
  destruct (Rdx v2 (f15 RN)) as [v3 d15] eqn:E3.
  assert (R3 : Rel WD50 v v3). { change v3 with (fst (v3, d15)). rewrite <- E3. apply rel_rdx. exact R2. }
  apply rel_usd. apply rel_read; [exact R3|reflexivity].
Qed.

Definition G (v : vst) : Prop := K v /\ Forall Kpl (pipes v).
Definition CvLo (q : pl (T:=R)) : Prop := 1 / 100 <= p_Cv (sp (sl q)).
Definition CvLoAll (v : vst) : Prop := CvLo (cur v) /\ Forall CvLo (pipes v).

Lemma rel_G w (v v' : vst) : G v -> Rel w v v' -> G v'.
Proof. intros (_ & HF) (HK & _ & _ & _ & Hp & _). split; [exact HK|]. rewrite Hp. exact HF. Qed.

Lemma rel_CvLo w (v v' : vst) : w <> WRhom -> CvLoAll v -> Rel w v v' -> CvLoAll v'.
Proof.
  intros n (H1 & HF) (_ & _ & _ & _ & Hp & _ & Hc & _). split; [|rewrite Hp; exact HF].
  unfold CvLo. fold (slurry v'). fold (Par v'). apply Hc; [exact n|exact H1].
Qed.

Lemma Forall_set_nth {A} (P : A -> Prop) k x l : P x -> Forall P l -> Forall P (set_nth k x l).
Proof.
  intros Hx. revert k. induction l as [|y r IH]; intros k Hl; [destruct k; constructor|].
  inversion Hl as [|? ? Hy Hr]; subst. destruct k; cbn [set_nth]; constructor; auto.
Qed.

Lemma Forall_nth_or {A} (P : A -> Prop) k l d : P d -> Forall P l -> P (nth k l d).
Proof.
  intros Hd Hl. revert k. induction Hl as [|y r Hy Hr IH]; intro k; destruct k; cbn [nth]; auto.
Qed.

Lemma usd_K (v : vst) : K v -> K (Usd v) /\ pipes (Usd v) = pipes v /\ Par (Usd v) = Par v.
Proof.
  intro HK. destruct (rel_usd WCv v v (rel_refl WCv v HK)) as (HK' & _ & _ & _ & Hp & _).
  destruct (usd_frame v HK) as (_ & B). auto.
Qed.

Theorem fire_G (v : vst) e : G v -> G (Fire v e).
Proof.
  intros HG. pose proof HG as (HK & HF). destruct e as [w s| | | | | | |b|u|k]; cbn [Viewer.fire].
  - eapply rel_G; [exact HG|apply set_value_rel; exact HK].
  - eapply rel_G; [exact HG|apply set_value_rel; exact HK].
  - eapply rel_G; [exact HG|apply set_value_rel; exact HK].
  - eapply rel_G; [exact HG|apply d50_adjust_rel; exact HK].
  - eapply rel_G; [exact HG|apply d50_adjust_rel; exact HK].
  - eapply rel_G; [exact HG|apply set_value_rel; exact HK].
  - eapply rel_G; [exact HG|apply set_value_rel; exact HK].
  - destruct (Bool.eqb b (radio v)); [exact HG|].
    set (v0 := mkV _ _ _ _ _ _ _ _ _ _ b _ _).
    assert (K0 : K v0) by exact HK.
    set (v1 := Sdo v0 (SetFluid b)).
    destruct (sdo_frame v0 (SetFluid b)) as (A & B & _). fold v1 in A, B. destruct (shell_eq _ _ A) as (E1 & E2 & E3 & _).
    assert (K1 : K v1).
    { unfold K, Kpl. fold (slurry v1). fold (Par v1). rewrite B, E1.
      destruct K0 as ((c1 & c2 & c3 & c4) & cI & cF). fold (slurry v0) in c1, c2, c3, c4, cI. fold (Par v0) in c1, c2, c3, c4, cI.
      cbn [sp_after]. unfold Bd. cbn [set_fluid p_Dp p_rhos p_Cv p_rhol]. pose proof (rhol_range b). tauto. }
    destruct (usd_K v1 K1) as (K2 & P2 & _). split; [exact K2|]. rewrite P2, E3. exact HF.
  - set (v0 := mkV _ _ _ _ _ _ _ _ _ _ _ u _).
    assert (K0 : K v0) by exact HK.
    destruct (update_slurries_cases v0) as [(M & E)|(M & E)].
    + rewrite E. exact HG.
    + exfalso. rewrite (K_in v0 K0) in M. discriminate.
  - set (saved := set_nth (sel v) (cur v) (pipes v)).
    assert (FS : Forall Kpl saved) by (apply Forall_set_nth; assumption).
    set (v0 := mkV (nth k saved (cur v)) k saved _ _ _ _ _ _ _ _ _ _).
    assert (K0 : K v0) by (unfold K, v0; cbn [cur]; apply Forall_nth_or; [exact HK|exact FS]).
    destruct (usd_K v0 K0) as (K2 & P2 & _). split; [exact K2|]. rewrite P2. exact FS.
Qed.

Theorem run_G : forall es (v : vst), G v -> Forall G (Viewer.run_events RN sf sq fmt3 fmt0 fmtZ parse v es).
Proof.
  induction es as [|e r IH]; intros v HG; cbn [Viewer.run_events]; [constructor|].
  constructor; [apply fire_G; exact HG|]. apply IH. apply fire_G. exact HG.
Qed.

(* ---------- one shape for the seven callbacks: read, validate, apply ---------- *)
Definition pre (w : widget) (v : vst) : vst * (R * R) * R :=
  match w with
  | WDp => (v, (nint RN 25%Z, nint RN 1500%Z), p_Dp (Par v) * k1000)
  | WD15 => let hi := p_D50 (Par v) * k1000 - nlit RN 1%Z 100%positive in
            let '(v0, d) := Rdx v (f15 RN) in (v0, (nlit RN 4%Z 100%positive, hi), d * k1000)
  | WD50 => let '(va, d15) := Rdx v (f15 RN) in
            let lo := Rmax (d15 * k1000 + nlit RN 1%Z 100%positive) (dlim_mm RN (Par va)) in
            let '(vb, d85) := Rdx va (f85 RN) in
            let hi := Rmin (d85 * k1000 - nlit RN 1%Z 100%positive) (p_Dp (Par vb) * k1000 * nlit RN 25%Z 100%positive) in
            (vb, (lo, hi), p_D50 (Par vb) * k1000)
  | WD85 => let lo := p_D50 (Par v) * k1000 + nlit RN 1%Z 100%positive in
            let hi := p_Dp (Par v) * k1000 * nlit RN 50%Z 100%positive in
            let '(v0, d) := Rdx v (f85 RN) in (v0, (lo, hi), d * k1000)
  | WRhos => (v, (nlit RN 15%Z 10%positive, nlit RN 70%Z 10%positive), p_rhos (Par v))
  | WRhom => let p := Par v in
             (v, (nlit RN 105%Z 100%positive, nlit RN 5%Z 10%positive * (p_rhos p - p_rhol p) + p_rhol p), rhom RN p)
  | WCv => (v, (nlit RN 1%Z 100%positive, nlit RN 5%Z 10%positive), p_Cv (Par v))
  end.

Definition fmt_of (w : widget) : R -> string := match w with WDp => fmt0 | _ => fmt3 end.

(* [v] is the state in which the callback started (update_rhos computes Cvi there), [v1] the state after validation *)
Definition post (w : widget) (v v1 : vst) (x : R) : vst :=
  match w with
  | WDp => Usd (Upd_slurries (Sdo v1 (SetDp (x / k1000))))
  | WD15 => Usd (Sdo v1 (GenGSD (Some (p_D50 (Par v1) / (x / k1000))) None))
  | WD50 => Usd (Sdo (Sdo v1 (SetD50 (x / k1000))) (GenGSD None None))
  | WD85 => Usd (Sdo v1 (GenGSD None (Some ((x / k1000) / p_D50 (Par v1)))))
  | WRhos => let p := Par v in
             let cvi := (p_rhoi p - p_rhol p) / (p_rhos p - p_rhol p) in
             let v2 := Sdo v1 (SetRhos x) in
             let p2 := Par v2 in
             Usd (Sdo v2 (SetRhoi (cvi * (p_rhos p2 - p_rhol p2) + p_rhol p2)))
  | WRhom => Usd (Sdo v1 (SetRhom x))
  | WCv => Usd (Sdo v1 (SetCv x))
  end.

Lemma callback_eq fuel w (v : vst) : Callback (S fuel) w v =
  (let '(v0, (lo, hi), prev) := pre w v in
   let '(v1, x) := Check (setv_of fuel) v0 w lo hi prev (fmt_of w) in post w v v1 x).
Proof.
  destruct w; unfold pre, post, fmt_of.
  - rewrite callback_Dp. reflexivity.
  - rewrite callback_D15. cbv zeta. destruct (Rdx v (f15 RN)) as [v0 d]. reflexivity.
  - rewrite callback_D50. cbv zeta. destruct (Rdx v (f15 RN)) as [va d15]. destruct (Rdx va (f85 RN)) as [vb d85]. reflexivity.
  - rewrite callback_D85. cbv zeta. destruct (Rdx v (f85 RN)) as [v0 d]. reflexivity.
  - rewrite callback_Rhos. reflexivity.
  - rewrite callback_Rhom. reflexivity.
  - rewrite callback_Cv. reflexivity.
Qed.

(* reads: the first one regenerates a dirty grading, after that they change nothing *)
Definition clean (v : vst) : Prop := gsd_dirty (slurry v) = false.

Lemma with_slurry_same (v : vst) : with_slurry v (slurry v) = v.
Proof. destruct v as [[d s] ? ? ? ? ? ? ? ? ? ? ? ?]. reflexivity. Qed.

Lemma ensure_gsd_clean (s : state (T:=R)) : gsd_dirty (ensure_gsd RN s) = false.
Proof. unfold ensure_gsd. destruct (gsd_dirty s) eqn:E; [reflexivity|exact E]. Qed.

Lemma rdx_spec (v : vst) f :
  Rdx v f = (with_slurry v (ensure_gsd RN (slurry v)), get_dx RN (s_gsd (ensure_gsd RN (slurry v))) f).
Proof. reflexivity. Qed.

Lemma rdx_clean (v : vst) f : clean (fst (Rdx v f)).
Proof. rewrite rdx_spec. cbn [fst]. unfold clean, slurry, with_slurry. cbn [cur sl]. apply ensure_gsd_clean. Qed.

Lemma rdx_of_clean (v : vst) f : clean v -> Rdx v f = (v, get_dx RN (s_gsd (slurry v)) f).
Proof.
  intro H. rewrite rdx_spec. unfold clean in H. unfold ensure_gsd. rewrite H. rewrite with_slurry_same. try reflexivity.
Qed.

Lemma clean_with_text (v : vst) w s : clean v -> clean (with_text v w s).
Proof. unfold clean. destruct w; exact (fun h => h). Qed.

Lemma slurry_with_text (v : vst) w s : slurry (with_text v w s) = slurry v.
Proof. destruct w; reflexivity. Qed.

Lemma pre_frame w (v : vst) : let '(v0, _, _) := pre w v in
  shell v0 = shell v /\ Par v0 = Par v /\ (forall w', text v0 w' = text v w') /\ radio v0 = radio v.
Proof.
  destruct w; unfold pre; cbv zeta; try (repeat split; reflexivity).
  - pose proof (rdx_frame v (f15 RN)) as H. destruct (Rdx v (f15 RN)) as [v0 d]. exact H.
  - pose proof (rdx_frame v (f15 RN)) as H. destruct (Rdx v (f15 RN)) as [va d15]. cbn [fst] in H.
    pose proof (rdx_frame va (f85 RN)) as H'. destruct (Rdx va (f85 RN)) as [vb d85]. cbn [fst] in H'.
    destruct H as (a1 & a2 & a3 & a4). destruct H' as (b1 & b2 & b3 & b4).
    repeat split; try congruence; try (rewrite b3; apply a3).
  - pose proof (rdx_frame v (f85 RN)) as H. destruct (Rdx v (f85 RN)) as [v0 d]. exact H.
Qed.

(* validating again in the state the first validation left (only the box's text differing) reads the same bounds
   and the same previous value, and changes nothing *)
Lemma pre_idem w (v : vst) s : let '(v0, b, prev) := pre w v in pre w (with_text v0 w s) = (with_text v0 w s, b, prev).
Proof.
  destruct w; unfold pre; cbv zeta; try reflexivity.
  - pose proof (rdx_clean v (f15 RN)) as C. pose proof (rdx_frame v (f15 RN)) as (_ & P & _).
    rewrite rdx_spec in *. cbn [fst] in *.
    set (v0 := with_slurry v (ensure_gsd RN (slurry v))) in *.
    rewrite (rdx_of_clean (with_text v0 WD15 s) (f15 RN) (clean_with_text v0 WD15 s C)).
    rewrite slurry_with_text. destruct (shell_with_text v0 WD15 s) as (_ & P' & _). rewrite P', P. reflexivity.
  - pose proof (rdx_clean v (f15 RN)) as C. pose proof (rdx_frame v (f15 RN)) as (_ & P & _).
    rewrite (rdx_spec v) in *. cbn [fst] in *.
    set (va := with_slurry v (ensure_gsd RN (slurry v))) in *.
    rewrite (rdx_of_clean va (f85 RN) C).
    rewrite (rdx_of_clean (with_text va WD50 s) (f15 RN) (clean_with_text va WD50 s C)).
    rewrite (rdx_of_clean (with_text va WD50 s) (f85 RN) (clean_with_text va WD50 s C)).
    rewrite slurry_with_text. destruct (shell_with_text va WD50 s) as (_ & P' & _). rewrite P'.
    assert (E : slurry va = ensure_gsd RN (slurry v)) by reflexivity. rewrite E. reflexivity.
  - pose proof (rdx_clean v (f85 RN)) as C. pose proof (rdx_frame v (f85 RN)) as (_ & P & _).
    rewrite rdx_spec in *. cbn [fst] in *.
    set (v0 := with_slurry v (ensure_gsd RN (slurry v))) in *.
    rewrite (rdx_of_clean (with_text v0 WD85 s) (f85 RN) (clean_with_text v0 WD85 s C)).
    rewrite slurry_with_text. destruct (shell_with_text v0 WD85 s) as (_ & P' & _). rewrite P', P. reflexivity.
Qed.

(* ---------- re-entry is one level deep: the fuel is never exhausted ---------- *)
Lemma usd_shell (v : vst) : shell (Usd v) = shell v.
Proof.
  unfold Viewer.update_source_data.
  set (v1 := Sdo v ReadCurves). set (v2 := Sdo v1 ReadGSD). set (v3 := Upd_inputs v2).
  destruct (sdo_frame v ReadCurves) as (A1 & _). destruct (sdo_frame v1 ReadGSD) as (A2 & _).
  destruct (update_inputs_frame v2) as (A3 & _). fold v1 in A1. fold v2 in A2. fold v3 in A3.
  destruct (update_slurries_cases v3) as [(_ & E)|(_ & E)]; rewrite E.
  - congruence.
  - destruct (sdo_frame v3 (SetDp (last_or (p_Dp (Par v3)) (diams (cur v3))))) as (A4 & _). congruence.
Qed.

Lemma post_shell w (v v1 : vst) x : shell (post w v v1 x) = shell v1.
Proof.
  destruct w; unfold post; cbv zeta; rewrite usd_shell.
  - destruct (update_slurries_cases (Sdo v1 (SetDp (x / k1000)))) as [(_ & E)|(_ & E)]; rewrite E.
    + apply sdo_frame.
    + match goal with |- shell (Sdo ?a ?o) = _ => destruct (sdo_frame a o) as (A & _); rewrite A end. apply sdo_frame.
  - apply sdo_frame.
  - match goal with |- shell (Sdo ?a ?o) = _ => destruct (sdo_frame a o) as (A & _); rewrite A end. apply sdo_frame.
  - apply sdo_frame.
  - match goal with |- shell (Sdo ?a ?o) = _ => destruct (sdo_frame a o) as (A & _); rewrite A end. apply sdo_frame.
  - apply sdo_frame.
  - apply sdo_frame.
Qed.

Lemma overflow_of_shell (a b : vst) : shell a = shell b -> overflow a = overflow b.
Proof. intro H. destruct (shell_eq _ _ H) as (_ & _ & _ & _ & E). exact E. Qed.

Theorem no_overflow fuel w (v : vst) : overflow (Callback (S (S fuel)) w v) = overflow v.
Proof.
  rewrite callback_eq. pose proof (pre_frame w v) as PF. pose proof (pre_idem w v) as PI.
  destruct (pre w v) as [[v0 [lo hi]] prev]. destruct PF as (S0 & _).
  destruct (check_cases (setv_of (S fuel)) v0 w lo hi prev (fmt_of w)) as [(x & _ & _ & E)|(_ & E)]; rewrite E.
  - rewrite (overflow_of_shell _ _ (post_shell w v v0 x)). apply overflow_of_shell. exact S0.
  - rewrite (overflow_of_shell _ _ (post_shell w v _ prev)).
    unfold setv_of at 1. destruct (String.eqb (fmt_of w prev) (text v0 w)); [apply overflow_of_shell; exact S0|].
    set (v0' := with_text v0 w (fmt_of w prev)).
    specialize (PI (fmt_of w prev)). fold v0' in PI.
    rewrite callback_eq. rewrite PI.
    assert (S1 : shell v0' = shell v) by (destruct (shell_with_text v0 w (fmt_of w prev)) as (A & _); unfold v0'; congruence).
    destruct (check_cases (setv_of fuel) v0' w lo hi prev (fmt_of w)) as [(x & _ & _ & E')|(_ & E')]; rewrite E'.
    + rewrite (overflow_of_shell _ _ (post_shell w v0' v0' x)). apply overflow_of_shell. exact S1.
    + rewrite (overflow_of_shell _ _ (post_shell w v0' _ prev)).
      assert (T : text v0' w = fmt_of w prev) by apply text_with_text.
      unfold setv_of. rewrite T. rewrite String.eqb_refl. apply overflow_of_shell. exact S1.
Qed.

Theorem fire_no_overflow (v : vst) e : overflow (Fire v e) = overflow v.
Proof.
  assert (SV : forall w s, overflow (Set_value w s v) = overflow v).
  { intros w s. unfold Viewer.set_value. destruct (String.eqb s (text v w)); [reflexivity|].
    unfold fuel0. rewrite no_overflow. destruct (shell_with_text v w s) as (A & _). apply overflow_of_shell. exact A. }
  assert (DA : forall d, overflow (D50_adjust v d) = overflow v).
  { intro d. unfold Viewer.d50_adjust. match goal with |- context [if ?c then _ else _] => destruct c end; [|reflexivity].
    destruct (Rdx (Sdo v (SetD50 _)) (f50 RN)) as [v2 d50] eqn:E2. destruct (Rdx v2 (f15 RN)) as [v3 d15] eqn:E3.
    rewrite (overflow_of_shell _ _ (usd_shell _)).
    match goal with |- overflow (Sdo ?a ?o) = _ => destruct (sdo_frame a o) as (A & _); rewrite (overflow_of_shell _ _ A) end.
    pose proof (rdx_frame v2 (f15 RN)) as (A3 & _). rewrite E3 in A3. cbn [fst] in A3.
    match type of E2 with Rdx ?a _ = _ => pose proof (rdx_frame a (f50 RN)) as (A2 & _); rewrite E2 in A2; cbn [fst] in A2 end.
    rewrite (overflow_of_shell _ _ A3), (overflow_of_shell _ _ A2). apply overflow_of_shell. apply sdo_frame. }
  destruct e as [w s| | | | | | |b|u|k]; cbn [Viewer.fire]; auto.
  - destruct (Bool.eqb b (radio v)); [reflexivity|]. rewrite (overflow_of_shell _ _ (usd_shell _)).
    match goal with |- overflow (Sdo ?a ?o) = _ => destruct (sdo_frame a o) as (A & _); rewrite (overflow_of_shell _ _ A) end. reflexivity.
  - match goal with |- overflow (Upd_slurries ?a) = _ => destruct (update_slurries_cases a) as [(_ & E)|(_ & E)]; rewrite E end; [reflexivity|].
    match goal with |- overflow (Sdo ?a ?o) = _ => destruct (sdo_frame a o) as (A & _); rewrite (overflow_of_shell _ _ A) end. reflexivity.
  - rewrite (overflow_of_shell _ _ (usd_shell _)). reflexivity.
Qed.

(* ---------- the boxes show the model ---------- *)
Definition shown (v : vst) : Prop :=
  let p := Par v in let g := s_gsd (slurry v) in
  clean v /\
  tDp v = fmtZ (Rtrunc (p_Dp p * 1000)) /\
  tD15 v = fmt3 (get_dx RN g (15 / 100) * 1000) /\ tD50 v = fmt3 (get_dx RN g (50 / 100) * 1000) /\
  tD85 v = fmt3 (get_dx RN g (85 / 100) * 1000) /\
  tRhos v = fmt3 (p_rhos p) /\ tRhom v = fmt3 (p_Cv p * (p_rhos p - p_rhol p) + p_rhol p) /\ tCv v = fmt3 (p_Cv p) /\
  radio v = salt (slurry v).

Lemma upd_inputs_shown (v : vst) : shown (Upd_inputs v).
Proof.
  unfold Viewer.update_inputs. rewrite (rdx_spec v).
  set (v1 := with_slurry v (ensure_gsd RN (slurry v))).
  assert (C : clean v1) by (unfold clean, v1, slurry, with_slurry; cbn [cur sl]; apply ensure_gsd_clean).
  rewrite (rdx_of_clean v1 (f50 RN) C). rewrite (rdx_of_clean v1 (f85 RN) C).
  unfold shown, clean, par, slurry. cbn [cur sl tDp tD15 tD50 tD85 tRhos tRhom tCv radio].
  repeat split; try reflexivity. exact C.
Qed.

Lemma shown_usd (v : vst) : K v -> shown (Usd v).
Proof.
  intro HK. unfold Viewer.update_source_data.
  set (v2 := Sdo (Sdo v ReadCurves) ReadGSD).
  assert (R2 : Rel WCv v v2) by (apply rel_read; [apply rel_read; [apply rel_refl; exact HK|reflexivity]|reflexivity]).
  destruct R2 as (K2 & _).
  destruct (update_inputs_frame v2) as (A3 & B3).
  destruct (update_slurries_cases (Upd_inputs v2)) as [(_ & E)|(M & E)].
  - rewrite E. apply upd_inputs_shown.
  - exfalso. rewrite B3 in M. destruct (shell_eq _ _ A3) as (E1 & _). rewrite E1 in M. rewrite (K_in v2 K2) in M. discriminate.
Qed.

Lemma d50_adjust_usd delta (v : vst) : K v -> D50_adjust v delta = v \/ exists u, D50_adjust v delta = Usd u /\ Rel WD50 v u.
Proof.
  intro HK. pose proof (rel_refl WD50 v HK) as R0. unfold Viewer.d50_adjust.
  match goal with |- context [if ?c then _ else _] => destruct c end; [right|left; reflexivity].
  set (v1 := Sdo v (SetD50 _)).
  assert (R1 : Rel WD50 v v1).
  { apply rel_set; [exact R0| | reflexivity | |].
    - destruct HK as ((c1 & c2 & c3 & c4) & _). fold (slurry v) in c1, c2, c3, c4. fold (Par v) in c1, c2, c3, c4.
      unfold Bd. cbn [sp_after set_D50 p_Dp p_rhos p_Cv p_rhol]. tauto.
    - se_tac.
    - intros _ h. exact h. }
  destruct (Rdx v1 (f50 RN)) as [v2 d50] eqn:E2.
  assert (R2 : Rel WD50 v v2). { change v2 with (fst (v2, d50)). rewrite <- E2. apply rel_rdx. exact R1. }
  destruct (Rdx v2 (f15 RN)) as [v3 d15] eqn:E3.
  assert (R3 : Rel WD50 v v3). { change v3 with (fst (v3, d15)). rewrite <- E3. apply rel_rdx. exact R2. }
  eexists. split; [reflexivity|]. eapply rel_read; [exact R3|reflexivity].
Qed.

Theorem fire_shown (v : vst) e : G v -> shown v -> shown (Fire v e).
Proof.
  intros (HK & HF) HS.
  assert (SV : forall w s, shown (Set_value w s v)).
  { intros w s. unfold Viewer.set_value. destruct (String.eqb s (text v w)); [exact HS|].
    unfold fuel0. destruct (callback_usd 3 w (with_text v w s)) as (u & E & (Ku & _)).
    - destruct (rel_text w v v w s (rel_refl w v HK)) as (HK' & _). exact HK'.
    - rewrite E. apply shown_usd. exact Ku. }
  assert (DA : forall d, shown (D50_adjust v d)).
  { intro d. destruct (d50_adjust_usd d v HK) as [E|(u & E & (Ku & _))]; rewrite E; [exact HS|apply shown_usd; exact Ku]. }
  destruct e as [w s| | | | | | |b|u|k]; cbn [Viewer.fire]; auto.
  - destruct (Bool.eqb b (radio v)); [exact HS|]. apply shown_usd.
    match goal with |- K (Sdo ?a (SetFluid b)) => set (v0 := a) end.
    assert (K0 : K v0) by exact HK.
    destruct (sdo_frame v0 (SetFluid b)) as (A & B & _). destruct (shell_eq _ _ A) as (E1 & _).
    unfold K, Kpl. fold (slurry (Sdo v0 (SetFluid b))). fold (Par (Sdo v0 (SetFluid b))). rewrite B, E1.
    destruct K0 as ((c1 & c2 & c3 & c4) & cI & cF). fold (slurry v0) in c1, c2, c3, c4, cI. fold (Par v0) in c1, c2, c3, c4, cI.
    cbn [sp_after]. unfold Bd. cbn [set_fluid p_Dp p_rhos p_Cv p_rhol]. pose proof (rhol_range b). tauto.
  - match goal with |- shown (Upd_slurries ?a) => set (v0 := a) end.
    assert (K0 : K v0) by exact HK.
    destruct (update_slurries_cases v0) as [(M & E)|(M & E)].
    + rewrite E. exact HS.
    + exfalso. rewrite (K_in v0 K0) in M. discriminate.
  - apply shown_usd. unfold K. cbn [cur]. apply Forall_nth_or; [exact HK|]. apply Forall_set_nth; assumption.
Qed.

(* ---------- what an entry does to the model ---------- *)
Lemma sp_ext (p q : sparams (T:=R)) :
  p_Dp p = p_Dp q -> p_eps p = p_eps q -> p_nu p = p_nu q -> p_rhol p = p_rhol q -> p_D50 p = p_D50 q -> p_Cv p = p_Cv q ->
  p_rhos p = p_rhos q -> p_rhoi p = p_rhoi q -> p_max_index p = p_max_index q -> p = q.
Proof. destruct p, q. cbn. intros. subst. reflexivity. Qed.

(* the parameters after an accepted entry x in box w *)
Definition put (w : widget) (p : sparams (T:=R)) (x : R) (ds : list R) : sparams (T:=R) :=
  match w with
  | WDp => set_Dp p (if memb RN (x / 1000) ds then x / 1000 else last_or (x / 1000) ds)
  | WD15 | WD85 => p
  | WD50 => set_D50 p (x / 1000)
  | WRhos => set_rhoi (set_rhos p x) ((p_rhoi p - p_rhol p) / (p_rhos p - p_rhol p) * (x - p_rhol p) + p_rhol p)
  | WRhom => set_Cv p ((x - p_rhol p) / (p_rhos p - p_rhol p))
  | WCv => set_Cv p x
  end.

Lemma usd_par (v : vst) : memb RN (p_Dp (Par v)) (diams (cur v)) = true -> Par (Usd v) = Par v.
Proof.
  intro M. unfold Viewer.update_source_data.
  set (v2 := Sdo (Sdo v ReadCurves) ReadGSD).
  destruct (sdo_frame v ReadCurves) as (A1 & B1 & _). destruct (sdo_frame (Sdo v ReadCurves) ReadGSD) as (A2 & B2 & _).
  destruct (update_inputs_frame v2) as (A3 & B3). cbn [sp_after] in B1, B2. fold v2 in A2, B2.
  destruct (shell_eq _ _ A1) as (E1 & _). destruct (shell_eq _ _ A2) as (E2 & _). destruct (shell_eq _ _ A3) as (E3 & _).
  destruct (update_slurries_cases (Upd_inputs v2)) as [(_ & E)|(M' & E)]; rewrite E; [congruence|].
  exfalso. rewrite B3, B2, B1, E3, E2, E1 in M'. congruence.
Qed.

(* the callback's effect on the parameters, from the state [v1] validation left and the value [x] it returned *)
Lemma par_post w (v v1 : vst) x : K v1 ->
  Par (post w v v1 x) =
  match w with
  | WRhos => set_rhoi (set_rhos (Par v1) x)
               ((p_rhoi (Par v) - p_rhol (Par v)) / (p_rhos (Par v) - p_rhol (Par v)) * (x - p_rhol (Par v1)) + p_rhol (Par v1))
  | WRhom => set_Cv (Par v1) ((x - p_rhol (Par v1)) / (p_rhos (Par v1) - p_rhol (Par v1)))
  | _ => put w (Par v1) x (diams (cur v1))
  end.
Proof.
  intros HK. pose proof (K_in v1 HK) as M. destruct HK as (_ & HI & _).
  destruct w; unfold post, put; cbv zeta.
  - (* Dp *)
    set (v2 := Sdo v1 (SetDp (x / k1000))).
    destruct (sdo_frame v1 (SetDp (x / k1000))) as (A & B & _). fold v2 in A, B. destruct (shell_eq _ _ A) as (E1 & _).
    cbn [sp_after] in B.
    destruct (update_slurries_cases v2) as [(M2 & E)|(M2 & E)]; rewrite E.
    + rewrite usd_par by exact M2. rewrite B. rewrite B, E1 in M2. cbn [set_Dp p_Dp] in M2.
      unfold k1000, c1000 in *. toR. toR_in M2. rewrite M2. reflexivity.
    + set (y' := last_or (p_Dp (Par v2)) (diams (cur v2))).
      destruct (sdo_frame v2 (SetDp y')) as (A' & B' & _). destruct (shell_eq _ _ A') as (F1 & _). cbn [sp_after] in B'.
      rewrite usd_par.
      * rewrite B', B. unfold y'. rewrite B, E1 in *. cbn [set_Dp p_Dp] in *.
        unfold k1000, c1000 in *. toR. toR_in M2. rewrite M2. reflexivity.
      * rewrite B', F1. cbn [set_Dp p_Dp]. apply memb_in. unfold y'. apply last_or_in. rewrite E1. intro Z. rewrite Z in HI. exact HI.
  - rewrite usd_par; [apply sdo_frame|]. destruct (sdo_frame v1 (GenGSD (Some (p_D50 (Par v1) / (x / k1000))) None)) as (A & B & _).
    destruct (shell_eq _ _ A) as (E1 & _). rewrite B, E1. exact M.
  - set (v2 := Sdo v1 (SetD50 (x / k1000))).
    destruct (sdo_frame v1 (SetD50 (x / k1000))) as (A & B & _). fold v2 in A, B. destruct (shell_eq _ _ A) as (E1 & _).
    destruct (sdo_frame v2 (GenGSD None None)) as (A' & B' & _). destruct (shell_eq _ _ A') as (F1 & _).
    cbn [sp_after] in B, B'.
    rewrite usd_par; [rewrite B', B; unfold k1000, c1000; toR; reflexivity|].
    rewrite B', B, F1, E1. exact M.
  - rewrite usd_par; [apply sdo_frame|].
    destruct (sdo_frame v1 (GenGSD None (Some (x / k1000 / p_D50 (Par v1))))) as (A & B & _).
    destruct (shell_eq _ _ A) as (E1 & _). rewrite B, E1. exact M.
  - set (v2 := Sdo v1 (SetRhos x)).
    destruct (sdo_frame v1 (SetRhos x)) as (A & B & _). fold v2 in A, B. destruct (shell_eq _ _ A) as (E1 & _).
    match goal with |- Par (Usd (Sdo v2 ?o)) = _ => destruct (sdo_frame v2 o) as (A' & B' & _); destruct (shell_eq _ _ A') as (F1 & _);
      rewrite usd_par; [rewrite B'|rewrite B', F1] end; cbn [sp_after] in *; rewrite B.
    + reflexivity.
    + rewrite E1. exact M.
  - rewrite usd_par; [destruct (sdo_frame v1 (SetRhom x)) as (_ & B & _); rewrite B; reflexivity|].
    destruct (sdo_frame v1 (SetRhom x)) as (A & B & _). destruct (shell_eq _ _ A) as (E1 & _). rewrite B, E1. exact M.
  - rewrite usd_par; [destruct (sdo_frame v1 (SetCv x)) as (_ & B & _); rewrite B; reflexivity|].
    destruct (sdo_frame v1 (SetCv x)) as (A & B & _). destruct (shell_eq _ _ A) as (E1 & _). rewrite B, E1. exact M.
Qed.

Lemma K_frame (v v0 : vst) : K v -> shell v0 = shell v -> Par v0 = Par v -> K v0.
Proof.
  intros HK A B. destruct (shell_eq _ _ A) as (E1 & _). unfold K, Kpl in *. fold (slurry v0). fold (Par v0). rewrite B, E1. exact HK.
Qed.

Lemma setv_rel fuel w s (v0 : vst) : K v0 -> Rel w v0 (setv_of fuel w s v0).
Proof.
  intro HK. unfold setv_of. destruct (String.eqb s (text v0 w)); [apply rel_refl; exact HK|].
  eapply rel_trans; [apply rel_text; apply rel_refl; exact HK|]. apply callback_rel.
  destruct (rel_text w v0 v0 w s (rel_refl w v0 HK)) as (HK' & _). exact HK'.
Qed.

(* an accepted entry becomes the model's value -- and nothing else changes *)
Theorem entry_accept fuel w (v : vst) x : K v -> let '(_, (lo, hi), _) := pre w v in
  parse (text v w) = Some x -> lo <= x <= hi -> Par (Callback (S fuel) w v) = put w (Par v) x (diams (cur v)).
Proof.
  intro HK. rewrite callback_eq. pose proof (pre_frame w v) as PF.
  destruct (pre w v) as [[v0 [lo hi]] prev]. destruct PF as (S0 & P0 & T0 & _).
  intros HP HR. rewrite <- (T0 w) in HP.
  destruct (check_cases (setv_of fuel) v0 w lo hi prev (fmt_of w)) as [(x' & P' & _ & E)|([N|(x' & P' & NR)] & _)].
  - rewrite HP in P'. injection P' as <-. rewrite E.
    rewrite par_post by (apply (K_frame v v0); assumption).
    destruct (shell_eq _ _ S0) as (E1 & _). destruct w; unfold put; rewrite ?P0, ?E1; reflexivity.
  - congruence.
  - rewrite HP in P'. injection P' as <-. contradiction.
Qed.

(* a rejected entry (not a number, or outside the box's range) leaves the model as it was *)
Theorem entry_reject fuel w (v : vst) : K v -> let '(_, (lo, hi), _) := pre w v in
  (parse (text v w) = None \/ exists x, parse (text v w) = Some x /\ ~ (lo <= x <= hi)) -> Par (Callback (S fuel) w v) = Par v.
Proof.
  intro HK. rewrite callback_eq. pose proof (pre_frame w v) as PF.
  assert (PV : forall v0 b prev, pre w v = (v0, b, prev) ->
     prev = match w with WDp => p_Dp (Par v) * 1000 | WD50 => p_D50 (Par v) * 1000 | WRhos => p_rhos (Par v)
                       | WRhom => p_Cv (Par v) * (p_rhos (Par v) - p_rhol (Par v)) + p_rhol (Par v) | WCv => p_Cv (Par v) | _ => prev end).
  { intros v0 b prev. destruct w; unfold pre; cbv zeta; try (intro H; injection H; intros; subst; reflexivity).
    pose proof (rdx_frame v (f15 RN)) as (_ & Pa & _). destruct (Rdx v (f15 RN)) as [va d15]. cbn [fst] in Pa.
    pose proof (rdx_frame va (f85 RN)) as (_ & Pb & _). destruct (Rdx va (f85 RN)) as [vb d85]. cbn [fst] in Pb.
    intro H. injection H. intros. subst. rewrite Pb, Pa. reflexivity. }
  destruct (pre w v) as [[v0 [lo hi]] prev]. destruct PF as (S0 & P0 & T0 & _). specialize (PV v0 (lo, hi) prev eq_refl).
  intros HR.
  assert (K0 : K v0) by (apply (K_frame v v0); assumption).
  destruct (check_cases (setv_of fuel) v0 w lo hi prev (fmt_of w)) as [(x' & P' & R' & _)|(_ & E)].
  - exfalso. rewrite (T0 w) in P'. destruct HR as [N|(x & P & NR)]; [congruence|]. rewrite P in P'. injection P' as <-. contradiction.
  - rewrite E. set (v1 := setv_of fuel w (fmt_of w prev) v0).
    destruct (setv_rel fuel w (fmt_of w prev) v0 K0) as (K1 & HS & Hd & _). fold v1 in K1, HS, Hd.
    rewrite par_post by exact K1. rewrite P0 in HS.
    destruct HK as ((k1 & k2 & k3 & k4) & kI & kF). fold (slurry v) in k1, k2, k3, k4, kI. fold (Par v) in k1, k2, k3, k4, kI.
    destruct (shell_eq _ _ S0) as (E1 & _).
    destruct w; unfold put; try subst prev.
    + (* Dp *) replace (p_Dp (Par v) * 1000 / 1000) with (p_Dp (Par v)) by (field).
      rewrite Hd, E1. rewrite (proj2 (memb_in _ _) kI). apply sp_ext; clear - HS; se_tac.
    + apply sp_ext; clear - HS; se_tac.
    + replace (p_D50 (Par v) * 1000 / 1000) with (p_D50 (Par v)) by field. apply sp_ext; clear - HS; se_tac.
    + apply sp_ext; clear - HS; se_tac.
    + assert (e3 : p_rhol (Par v1) = p_rhol (Par v)) by (clear - HS; se_tac).
      rewrite e3.
      replace ((p_rhoi (Par v) - p_rhol (Par v)) / (p_rhos (Par v) - p_rhol (Par v)) * (p_rhos (Par v) - p_rhol (Par v)) + p_rhol (Par v))
        with (p_rhoi (Par v)) by (field; lra).
      apply sp_ext; clear - HS; se_tac.
    + assert (e3 : p_rhol (Par v1) = p_rhol (Par v)) by (clear - HS; se_tac).
      assert (e4 : p_rhos (Par v1) = p_rhos (Par v)) by (clear - HS; se_tac).
      rewrite e3, e4.
      replace ((p_Cv (Par v) * (p_rhos (Par v) - p_rhol (Par v)) + p_rhol (Par v) - p_rhol (Par v)) / (p_rhos (Par v) - p_rhol (Par v)))
        with (p_Cv (Par v)) by (field; lra).
      apply sp_ext; clear - HS; se_tac.
    + apply sp_ext; clear - HS; se_tac.
Qed.

(* ---------- the lower Cv bound: kept by everything except a mixture-density entry ---------- *)
Lemma CvLo_cv (a b : vst) : p_Cv (Par b) = p_Cv (Par a) -> CvLo (cur a) -> CvLo (cur b).
Proof. unfold CvLo, par, slurry. intros E H. rewrite E. exact H. Qed.

Lemma CvLo_par (a b : vst) : Par b = Par a -> CvLo (cur a) -> CvLo (cur b).
Proof. intro E. apply CvLo_cv. rewrite E. reflexivity. Qed.

Lemma pipes_usd (a : vst) : pipes (Usd a) = pipes a.
Proof. destruct (shell_eq _ _ (usd_shell a)) as (_ & _ & E & _). exact E. Qed.

Theorem fire_CvLo (v : vst) e : G v -> CvLoAll v -> (forall s, e <> EText WRhom s) -> CvLoAll (Fire v e).
Proof.
  intros HG HL NE. pose proof HG as (HK & HF). pose proof HL as (L1 & LF).
  destruct e as [w s| | | | | | |b|u|k]; cbn [Viewer.fire].
  - apply (rel_CvLo w v); [intro Z; subst w; exact (NE s eq_refl)|exact HL|apply set_value_rel; exact HK].
  - apply (rel_CvLo WDp v); [discriminate|exact HL|apply set_value_rel; exact HK].
  - apply (rel_CvLo WDp v); [discriminate|exact HL|apply set_value_rel; exact HK].
  - apply (rel_CvLo WD50 v); [discriminate|exact HL|apply d50_adjust_rel; exact HK].
  - apply (rel_CvLo WD50 v); [discriminate|exact HL|apply d50_adjust_rel; exact HK].
  - apply (rel_CvLo WCv v); [discriminate|exact HL|apply set_value_rel; exact HK].
  - apply (rel_CvLo WCv v); [discriminate|exact HL|apply set_value_rel; exact HK].
  - destruct (Bool.eqb b (radio v)); [exact HL|].
    match goal with |- CvLoAll (Usd (Sdo ?a (SetFluid b))) => set (v0 := a) end.
    destruct (sdo_frame v0 (SetFluid b)) as (A & B & _). destruct (shell_eq _ _ A) as (E1 & _ & E3 & _).
    assert (M : memb RN (p_Dp (Par (Sdo v0 (SetFluid b)))) (diams (cur (Sdo v0 (SetFluid b)))) = true).
    { rewrite B, E1. cbn [sp_after set_fluid p_Dp]. exact (K_in v HK). }
    split.
    + apply (CvLo_par (Sdo v0 (SetFluid b))); [apply usd_par; exact M|].
      apply (CvLo_cv v); [rewrite B; reflexivity|exact L1].
    + rewrite pipes_usd, E3. exact LF.
  - match goal with |- CvLoAll (Upd_slurries ?a) => set (v0 := a) end.
    assert (K0 : K v0) by exact HK.
    destruct (update_slurries_cases v0) as [(M & E)|(M & E)].
    + rewrite E. exact HL.
    + exfalso. rewrite (K_in v0 K0) in M. discriminate.
  - set (saved := set_nth (sel v) (cur v) (pipes v)).
    assert (FS : Forall CvLo saved) by (apply Forall_set_nth; assumption).
    assert (FK : Forall Kpl saved) by (apply Forall_set_nth; assumption).
    match goal with |- CvLoAll (Usd ?a) => set (v0 := a) end.
    assert (K0 : K v0) by (unfold K, v0; cbn [cur]; apply Forall_nth_or; [exact HK|exact FK]).
    split.
    + apply (CvLo_par v0); [apply usd_par; exact (K_in v0 K0)|].
      unfold v0. cbn [cur]. apply (Forall_nth_or CvLo); [exact L1|exact FS].
    + rewrite pipes_usd. exact FS.
Qed.

(* the one way below Cv = 0.01: an accepted mixture density x gives Cv = (x - rhol)/(rhos - rhol), which is at least
   0.01 exactly when x >= rhol + (rhos - rhol)/100 *)
Theorem rhom_entry_Cv fuel (v : vst) x : K v -> parse (text v WRhom) = Some x ->
  105 / 100 <= x <= 5 / 10 * (p_rhos (Par v) - p_rhol (Par v)) + p_rhol (Par v) ->
  let c := p_Cv (Par (Callback (S fuel) WRhom v)) in
  c = (x - p_rhol (Par v)) / (p_rhos (Par v) - p_rhol (Par v)) /\
  (1 / 100 <= c <-> p_rhol (Par v) + (p_rhos (Par v) - p_rhol (Par v)) / 100 <= x).
Proof.
  intros HK HP HR. pose proof (entry_accept fuel WRhom v x HK) as EA. unfold pre in EA. specialize (EA HP).
  assert (E : Par (Callback (S fuel) WRhom v) = put WRhom (Par v) x (diams (cur v))) by (apply EA; lits; lra).
  cbv zeta. rewrite E. unfold put. cbn [set_Cv p_Cv]. split; [reflexivity|].
  destruct HK as ((_ & k2 & _ & k4) & _). fold (slurry v) in k2, k4. fold (Par v) in k2, k4.
  set (d := p_rhos (Par v) - p_rhol (Par v)). assert (D : 0 < d) by (unfold d; lra).
  split; intro H.
  - apply (Rmult_le_compat_r d) in H; [|lra]. unfold Rdiv in H. rewrite (Rmult_assoc (x - _)), Rinv_l in H by lra. lra.
  - apply Rmult_le_reg_r with d; [exact D|]. unfold Rdiv. rewrite (Rmult_assoc (x - _)), Rinv_l by lra. lra.
Qed.

(* the initial state: what main.py builds at import shows the model *)
Lemma start_shown (ps : list (pl (T:=R))) k p0 : shown (Viewer.start RN sf sq fmt3 fmtZ ps k p0).
Proof. unfold Viewer.start. apply upd_inputs_shown. Qed.

End V.

(* the readable content of the invariant *)
Lemma G_meaning (v : vstate (T:=R)) : G v ->
  let p := par v in
  25 <= p_Dp p * 1000 <= 1500 /\ 3 / 2 <= p_rhos p <= 7 /\ p_Cv p <= 1 / 2 /\ In (p_Dp p) (diams (cur v)).
Proof. intros (((a & b & c & _) & d & _) & _). cbv zeta. unfold par, slurry. tauto. Qed.

(* non-vacuity: the state the shipped test pipeline starts in (Dp 0.5 m in sections of 0.6 and 0.5 m, salt water,
   D50 1 mm, Cv 0.175) satisfies the invariant *)
Example G_example : exists v : vstate (T:=R), G v /\ CvLoAll v.
Proof.
  set (q := mkPl [6 / 10; 5 / 10] (init RN (5 / 10) (1 / 1000) true (175 / 1000) 100)).
  exists (mkV q 0%nat [q] EmptyString EmptyString EmptyString EmptyString EmptyString EmptyString EmptyString true false false).
  assert (KQ : Kpl q).
  { unfold Kpl, q. cbn [sl diams init sp p_Dp p_rhos p_Cv p_rhol]. split; [|split].
    - unfold Bd. cbn [p_Dp p_rhos p_Cv p_rhol]. pose proof (rhol_range true). toR. lra.
    - right. left. reflexivity.
    - constructor; [unfold dOK; lra|constructor; [unfold dOK; lra|constructor]]. }
  assert (LQ : CvLo q) by (unfold CvLo, q; cbn [sl init sp p_Cv]; lra).
  split; [split; [exact KQ|constructor; [exact KQ|constructor]]|split; [exact LQ|constructor; [exact LQ|constructor]]].
Qed.
