(* Settling velocity of the regenerated model (Ruby & Zanke terminal velocity, Richardson & Zaki hindered settling):
   defined, positive, monotone.  Shared by C02 (finiteness) and C04 (ordering). *)
From Coq Require Import Reals Lra Lia.
From Interval Require Import Tactic.
From DHV Require Import NumOps RInst.
From DHV Require Constants Heterogeneous HeterogeneousOk.
Local Open Scope R_scope.

Definition K26 : R := 26 / 100.
Definition gr : R := 980665 / 100000.

(* vt = (10 nu / d) (sqrt(1 + Rsd g d^3 / (100 nu^2)) - 1) *)
Definition Aterm (d Rsd nu : R) : R := Rsd * gr * d ^ 3 / (100 * nu ^ 2).

Lemma vt_formula d Rsd nu K : Heterogeneous.vt_ruby RN d Rsd nu K = 10 * nu / d * (Rpower (1 + Aterm d Rsd nu) (5 / 10) - 1).
Proof. unfold Heterogeneous.vt_ruby, Aterm, gr, Constants.gravity. toR. reflexivity. Qed.

Lemma Aterm_pos d Rsd nu : 0 < d -> 0 < Rsd -> 0 < nu -> 0 < Aterm d Rsd nu.
Proof.
  intros. unfold Aterm, gr. apply Rdiv_lt_0_compat.
  - apply Rmult_lt_0_compat; [apply Rmult_lt_0_compat; lra|apply pow_lt; assumption].
  - apply Rmult_lt_0_compat; [lra|apply pow_lt; assumption].
Qed.

Lemma Rpower_half x : 0 < x -> Rpower x (5 / 10) = sqrt x.
Proof. intro H. replace (5 / 10) with (/ 2) by lra. apply Rpower_sqrt. exact H. Qed.

Lemma sqrt_gt_1 x : 1 < x -> 1 < sqrt x.
Proof. intro H. rewrite <- sqrt_1 at 1. apply sqrt_lt_1; lra. Qed.

Lemma vt_ok d Rsd nu K : 0 < d -> 0 < Rsd -> 0 < nu -> HeterogeneousOk.vt_ruby_ok d Rsd nu K.
Proof.
  intros Hd HR Hn. pose proof (Aterm_pos d Rsd nu Hd HR Hn) as HA.
  unfold HeterogeneousOk.vt_ruby_ok. split; [lra|]. cbv zeta. split.
  - toR. assert (0 < nu ^ 2) by (apply pow_lt; lra). lra.
  - unfold Aterm, gr in HA. unfold Constants.gravity. toR. lra.
Qed.

Lemma vt_pos d Rsd nu K : 0 < d -> 0 < Rsd -> 0 < nu -> 0 < Heterogeneous.vt_ruby RN d Rsd nu K.
Proof.
  intros Hd HR Hn. pose proof (Aterm_pos d Rsd nu Hd HR Hn) as HA. rewrite vt_formula. rewrite Rpower_half by lra.
  pose proof (sqrt_gt_1 (1 + Aterm d Rsd nu)). apply Rmult_lt_0_compat; [apply Rdiv_lt_0_compat; lra|lra].
Qed.

(* rises with the relative submerged density *)
Lemma vt_increasing_Rsd d Rsd1 Rsd2 nu K : 0 < d -> 0 < nu -> 0 < Rsd1 < Rsd2 ->
  Heterogeneous.vt_ruby RN d Rsd1 nu K < Heterogeneous.vt_ruby RN d Rsd2 nu K.
Proof.
  intros Hd Hn HR. rewrite !vt_formula.
  pose proof (Aterm_pos d Rsd1 nu Hd (proj1 HR) Hn) as A1.
  assert (A12 : Aterm d Rsd1 nu < Aterm d Rsd2 nu).
  { unfold Aterm, Rdiv. apply Rmult_lt_compat_r; [apply Rinv_0_lt_compat; apply Rmult_lt_0_compat; [lra|apply pow_lt; lra]|].
    apply Rmult_lt_compat_r; [apply pow_lt; lra|]. unfold gr. lra. }
  rewrite !Rpower_half by lra. apply Rmult_lt_compat_l; [apply Rdiv_lt_0_compat; lra|].
  assert (sqrt (1 + Aterm d Rsd1 nu) < sqrt (1 + Aterm d Rsd2 nu)) by (apply sqrt_lt_1; lra). lra.
Qed.

(* rises with the grain size: (sqrt(1 + k d^3) - 1)/d = k d^2 / (sqrt(1 + k d^3) + 1), and d1^2 s2 < d2^2 s1 *)
Lemma vt_increasing_d d1 d2 Rsd nu K : 0 < d1 < d2 -> 0 < Rsd -> 0 < nu ->
  Heterogeneous.vt_ruby RN d1 Rsd nu K < Heterogeneous.vt_ruby RN d2 Rsd nu K.
Proof.
  intros Hd HR Hn. rewrite !vt_formula.
  set (k := Rsd * gr / (100 * nu ^ 2)).
  assert (Hk : 0 < k). { unfold k, gr. apply Rdiv_lt_0_compat; [lra|]. apply Rmult_lt_0_compat; [lra|apply pow_lt; lra]. }
  assert (E : forall d, Aterm d Rsd nu = k * d ^ 3) by (intro d; unfold Aterm, k; field; lra).
  rewrite !E. assert (P1 : 0 < k * d1 ^ 3) by (apply Rmult_lt_0_compat; [lra|apply pow_lt; lra]).
  assert (P2 : 0 < k * d2 ^ 3) by (apply Rmult_lt_0_compat; [lra|apply pow_lt; lra]).
  rewrite !Rpower_half by lra.
  set (s1 := sqrt (1 + k * d1 ^ 3)). set (s2 := sqrt (1 + k * d2 ^ 3)).
  assert (S1 : 1 < s1) by (apply sqrt_gt_1; lra). assert (S2 : 1 < s2) by (apply sqrt_gt_1; lra).
  assert (Q1 : s1 * s1 = 1 + k * d1 ^ 3) by (apply sqrt_sqrt; lra).
  assert (Q2 : s2 * s2 = 1 + k * d2 ^ 3) by (apply sqrt_sqrt; lra).
  (* d1^2 s2 < d2^2 s1, by comparing squares *)
  assert (X : d1 ^ 2 * s2 < d2 ^ 2 * s1).
  { apply Rsqr_incrst_0; [|apply Rmult_le_pos; [apply pow_le; lra|lra]|apply Rmult_le_pos; [apply pow_le; lra|lra]].
    unfold Rsqr. replace (d1 ^ 2 * s2 * (d1 ^ 2 * s2)) with (d1 ^ 4 * (s2 * s2)) by ring.
    replace (d2 ^ 2 * s1 * (d2 ^ 2 * s1)) with (d2 ^ 4 * (s1 * s1)) by ring. rewrite Q1, Q2.
    assert (D2 : d1 * d1 < d2 * d2) by nra.
    assert (D4 : d1 ^ 4 < d2 ^ 4).
    { replace (d1 ^ 4) with ((d1 * d1) * (d1 * d1)) by ring. replace (d2 ^ 4) with ((d2 * d2) * (d2 * d2)) by ring. nra. }
    assert (M : d1 ^ 4 * d2 ^ 3 < d2 ^ 4 * d1 ^ 3).
    { replace (d1 ^ 4 * d2 ^ 3) with (d1 * (d1 ^ 3 * d2 ^ 3)) by ring. replace (d2 ^ 4 * d1 ^ 3) with (d2 * (d1 ^ 3 * d2 ^ 3)) by ring.
      apply Rmult_lt_compat_r; [apply Rmult_lt_0_compat; apply pow_lt; lra|lra]. }
    nra. }
  (* (s - 1)/d = k d^2/(s + 1) *)
  assert (F : forall d s, 0 < d -> 1 < s -> s * s = 1 + k * d ^ 3 -> 10 * nu / d * (s - 1) = 10 * nu * k * (d ^ 2 / (s + 1))).
  { intros d s h1 h2 h3. assert (s - 1 = k * d ^ 3 / (s + 1)) as ->. { field_simplify_eq; [|lra]. nra. } field. lra. }
  rewrite (F d1 s1), (F d2 s2) by (lra || assumption).
  apply Rmult_lt_compat_l; [apply Rmult_lt_0_compat; lra|].
  apply (Rmult_lt_reg_r ((s1 + 1) * (s2 + 1))); [apply Rmult_lt_0_compat; lra|].
  replace (d1 ^ 2 / (s1 + 1) * ((s1 + 1) * (s2 + 1))) with (d1 ^ 2 * s2 + d1 ^ 2) by (field; lra).
  replace (d2 ^ 2 / (s2 + 1) * ((s1 + 1) * (s2 + 1))) with (d2 ^ 2 * s1 + d2 ^ 2) by (field; lra).
  assert (d1 ^ 2 < d2 ^ 2) by nra. lra.
Qed.

(* ---------- Richardson & Zaki ---------- *)
Definition betaRZ (Rep : R) : R := (47 / 10 + 41 / 100 * Rpower Rep (75 / 100)) / (1 / 1 + 175 / 1000 * Rpower Rep (75 / 100)).

Lemma beta_range Rep : 234 / 100 < betaRZ Rep < 47 / 10.
Proof.
  unfold betaRZ. set (x := Rpower Rep (75 / 100)). assert (Hx : 0 < x) by (unfold x, Rpower; apply exp_pos).
  set (D := 1 / 1 + 175 / 1000 * x). set (Nn := 47 / 10 + 41 / 100 * x).
  assert (HD : 0 < D) by (unfold D; lra).
  split; apply (Rmult_lt_reg_r D); try exact HD; replace (Nn / D * D) with Nn by (field; lra); unfold Nn, D; lra.
Qed.

Lemma vth_formula d Rsd nu Cvs K : Heterogeneous.vth_RZ RN d Rsd nu Cvs K =
  Heterogeneous.vt_ruby RN d Rsd nu K26 * Rpower (1 - Cvs) (betaRZ (Heterogeneous.vt_ruby RN d Rsd nu K26 * d / nu)).
Proof. unfold Heterogeneous.vth_RZ, betaRZ, K26. toR. reflexivity. Qed.

Lemma Rpower_lt_1 a b : 0 < a < 1 -> 0 < b -> Rpower a b < 1.
Proof.
  intros Ha Hb. unfold Rpower. rewrite <- exp_0. apply exp_increasing.
  assert (ln a < 0) by (rewrite <- ln_1; apply ln_increasing; lra).
  replace 0 with (b * 0) by ring. apply Rmult_lt_compat_l; assumption.
Qed.

(* hindered settling: positive, below the free value, falling with concentration *)
Lemma vth_facts d Rsd nu K Cvs : 0 < d -> 0 < Rsd -> 0 < nu -> 0 < Cvs < 1 ->
  0 < Heterogeneous.vth_RZ RN d Rsd nu Cvs K < Heterogeneous.vt_ruby RN d Rsd nu K26.
Proof.
  intros Hd HR Hn HC. rewrite vth_formula. pose proof (vt_pos d Rsd nu K26 Hd HR Hn) as V.
  set (b := betaRZ _). assert (Hb : 0 < b) by (pose proof (beta_range (Heterogeneous.vt_ruby RN d Rsd nu K26 * d / nu)); unfold b; lra).
  assert (P : 0 < Rpower (1 - Cvs) b) by (unfold Rpower; apply exp_pos).
  assert (Q : Rpower (1 - Cvs) b < 1) by (apply Rpower_lt_1; lra).
  split; [apply Rmult_lt_0_compat; assumption|]. rewrite <- (Rmult_1_r (Heterogeneous.vt_ruby RN d Rsd nu K26)) at 2.
  apply Rmult_lt_compat_l; assumption.
Qed.

Lemma vth_decreasing_Cvs d Rsd nu K Cvs1 Cvs2 : 0 < d -> 0 < Rsd -> 0 < nu -> 0 < Cvs1 < Cvs2 -> Cvs2 < 1 ->
  Heterogeneous.vth_RZ RN d Rsd nu Cvs2 K < Heterogeneous.vth_RZ RN d Rsd nu Cvs1 K.
Proof.
  intros Hd HR Hn HC H2. rewrite !vth_formula. pose proof (vt_pos d Rsd nu K26 Hd HR Hn) as V.
  set (b := betaRZ _). assert (Hb : 0 < b) by (pose proof (beta_range (Heterogeneous.vt_ruby RN d Rsd nu K26 * d / nu)); unfold b; lra).
  apply Rmult_lt_compat_l; [exact V|]. apply Rlt_Rpower_l; lra.
Qed.

Lemma Rep_pos d Rsd nu : 0 < d -> 0 < Rsd -> 0 < nu -> 0 < Heterogeneous.vt_ruby RN d Rsd nu K26 * d / nu.
Proof. intros Hd HR Hn. pose proof (vt_pos d Rsd nu K26 Hd HR Hn). apply Rdiv_lt_0_compat; [apply Rmult_lt_0_compat|]; assumption. Qed.

Lemma vth_ok d Rsd nu K Cvs : 0 < d -> 0 < Rsd -> 0 < nu -> Cvs < 1 -> HeterogeneousOk.vth_RZ_ok d Rsd nu Cvs K.
Proof.
  intros Hd HR Hn HC. pose proof (Rep_pos d Rsd nu Hd HR Hn) as RP. unfold K26 in RP.
  unfold HeterogeneousOk.vth_RZ_ok. split; [apply vt_ok; assumption|]. cbv zeta. toR.
  assert (X : 0 < Rpower (Heterogeneous.vt_ruby RN d Rsd nu (26 / 100) * d / nu) (75 / 100)) by (unfold Rpower; apply exp_pos).
  repeat split; try assumption; lra.
Qed.

(* the hindered-settling gradient: its base 1 - Cvs/KC stays positive because KC = 0.175 (1 + beta) > 0.58 *)
Lemma Shr_ok vls Dp d eps nu rhol rhos Cvs : 0 < vls -> 0 < d -> 0 < nu -> 0 < rhol < rhos -> 0 <= Cvs <= 58 / 100 ->
  HeterogeneousOk.Shr_ok vls Dp d eps nu rhol rhos Cvs.
Proof.
  intros Hv Hd Hn Hr HC. set (Rsd := (rhos - rhol) / rhol). assert (HR : 0 < Rsd) by (unfold Rsd; apply Rdiv_lt_0_compat; lra).
  pose proof (Rep_pos d Rsd nu Hd HR Hn) as RP. unfold K26 in RP.
  pose proof (beta_range (Heterogeneous.vt_ruby RN d Rsd nu (26 / 100) * d / nu)) as B. unfold betaRZ in B.
  unfold HeterogeneousOk.Shr_ok. split; [lra|]. cbv zeta. toR. fold Rsd.
  split; [apply vt_ok; assumption|]. split; [lra|]. split; [exact RP|]. split; [exact RP|].
  set (x := Rpower (Heterogeneous.vt_ruby RN d Rsd nu (26 / 100) * d / nu) (75 / 100)) in *.
  assert (X : 0 < x) by (unfold x, Rpower; apply exp_pos).
  split; [lra|].
  set (beta := (47 / 10 + 41 / 100 * x) / (1 / 1 + 175 / 1000 * x)) in *.
  set (KC := 175 / 1000 * (1 + beta)). assert (HK : 58 / 100 < KC) by (unfold KC; lra).
  split; [|lra]. split; [lra|].
  assert (Cvs / KC < 1). { apply (Rmult_lt_reg_r KC); [lra|]. unfold Rdiv. rewrite Rmult_assoc, Rinv_l by lra. lra. }
  apply Rlt_le_trans with (1 - Cvs / KC); [lra|apply Rmax_l].
Qed.
