(* Fracs: hand-written executable model of DHLLDV_framework.create_fracs, Slurry.get_dx and
   Slurry.generate_GSD.  A grading (Python dict fraction -> diameter) is an association list.
   Tied to the code by tools/harness/corr_fracs.py (whole dict, bit-exact).  No proofs here. *)
From Coq Require Import ZArith List Bool.
From DHV Require Import NumOps Interp.
From DHV Require Framework.
Import ListNotations.

Section Fracs.
Context {T : Type} (N : NumOps T).

Definition gsd := list (T * T).

(* Python truthiness of a float:  `if f:`  *)
Definition truthy (f : T) : bool := negb (neqb N f (nint N 0%Z)).

(* dict semantics: assignment to an existing key overwrites in place, a new key is appended *)
Fixpoint dict_set (l : gsd) (k v : T) : gsd :=
  match l with
  | [] => [(k, v)]
  | (k', v') :: r => if neqb N k' k then (k', v) :: r else (k', v') :: dict_set r k v
  end.

(* sorted(d.keys()) : insertion sort on the key, stable *)
Fixpoint insert_sorted (p : T * T) (l : gsd) : gsd :=
  match l with
  | [] => [p]
  | q :: r => if nltb N (fst p) (fst q) then p :: q :: r else q :: insert_sorted p r
  end.
Definition sort_keys (l : gsd) : gsd := fold_left (fun acc p => insert_sorted p acc) l [].

Definition log10_interp (dlow dnext flow fnext fthis : T) : T :=
  (* log10(dnext) - (log10(dnext) - log10(dlow)) * (fnext - fthis) / (fnext - flow) *)
  nsub N (nlog10 N dnext)
    (ndiv N (nmul N (nsub N (nlog10 N dnext) (nlog10 N dlow)) (nsub N fnext fthis)) (nsub N fnext flow)).

Definition pow10 (x : T) : T := npow N (nint N 10%Z) x.

(* the first loop: discard input points below the pseudo-liquid limit.
   state = (flow, dlow, fnext, dnext, remaining iterator, points_left) *)
Fixpoint skip (dmin flow dlow fnext dnext : T) (rest : gsd) (pl : Z) : T * T * T * T * gsd * Z :=
  if nltb N dnext dmin then
    match rest with
    | [] => (flow, dlow, fnext, dnext, [], pl)
    | (ft, dt) :: rest' =>
      if truthy ft then skip dmin fnext dnext ft dt rest' (pl - 1)%Z
      else (flow, dlow, fnext, dnext, rest', pl)     (* break; the iterator has consumed the point *)
    end
  else (flow, dlow, fnext, dnext, rest, pl).

(* the inner `for i in range(1, between_points+1)` : fthis accumulates frac_size *)
Fixpoint inner (n : nat) (fthis frac_size dlow dnext flow fnext : T) (acc : gsd) : gsd :=
  match n with
  | O => acc
  | S n' =>
    let fthis := nadd N fthis frac_size in
    let logdthis := log10_interp dlow dnext flow fnext fthis in
    inner n' fthis frac_size dlow dnext flow fnext (dict_set acc fthis (pow10 logdthis))
  end.

(* the second loop `while fnext:` over the remaining input points; returns the new dict and the
   last frac_size *)
Fixpoint main (flow dlow : T) (pts : gsd) (bp : Z) (acc : gsd) (fs : T) : gsd * T :=
  match pts with
  | [] => (acc, fs)
  | (fnext, dnext) :: rest =>
    if truthy fnext then
      let frac_size := ndiv N (nsub N fnext flow) (nint N (bp + 1)%Z) in
      let acc := inner (Z.to_nat bp) flow frac_size dlow dnext flow fnext acc in
      let acc := dict_set acc fnext dnext in
      main fnext dnext rest bp acc frac_size
    else (acc, fs)
  end.

Definition last2 (l : gsd) : option ((T * T) * (T * T)) :=
  match rev l with
  | b :: a :: _ => Some (a, b)
  | _ => None
  end.

(* everything after the first loop: locate the start (X, dmin), subdivide, extrapolate the top point *)
Definition create_fracs_tail (dmin flow dlow fnext dnext : T) (rest : gsd) (points_left num_fracs : Z) : gsd :=
    let X := nsub N fnext (ndiv N (nmul N (nsub N (nlog10 N dnext) (nlog10 N dmin)) (nsub N fnext flow))
                                  (nsub N (nlog10 N dnext) (nlog10 N dlow))) in
    let '(new, dmin, X) :=
      if nltb N (nint N 0%Z) X then ([(X, dmin)], dmin, X)
      else
        let logd0 := nsub N (nlog10 N dnext)
                       (ndiv N (nmul N (nsub N (nlog10 N dnext) (nlog10 N dlow)) (nsub N fnext (nlit N 0%Z 10%positive)))
                               (nsub N fnext flow)) in
        ([], pow10 logd0, nint N 0%Z) in
    let num_divs := (num_fracs - points_left - 1)%Z in
    (* max(-(-num_divs // points_left), 0): the ceiling of num_divs / points_left, floored at 0 (Python integer arithmetic) *)
    let between_points := Z.max (- ((- num_divs) / points_left)) 0 in
    let '(new, frac_size) := main X dmin ((fnext, dnext) :: rest) between_points new (nint N 0%Z) in
    match last2 (sort_keys new) with
    | Some ((flow, dlow), (fnext, dnext)) =>
      let fthis := nmin N (nadd N fnext frac_size) (nlit N 999%Z 1000%positive) in
      let logdthis := log10_interp dlow dnext flow fnext fthis in
      sort_keys (dict_set new fthis (pow10 logdthis))
    | None => []
    end.

Definition create_fracs (g : gsd) (Dp nu rhol rhos : T) (num_fracs : Z) : gsd :=
  match sort_keys g with
  | (flow, dlow) :: (fnext, dnext) :: rest =>
    let points_left := (Z.of_nat (length g) - 1)%Z in
    let dmin := Framework.pseudo_dlim N Dp nu rhol rhos in
    let '(flow, dlow, fnext, dnext, rest, points_left) := skip dmin flow dlow fnext dnext rest points_left in
    create_fracs_tail dmin flow dlow fnext dnext rest points_left num_fracs
  | _ => []
  end.

(* Slurry.get_dx on a generated grading *)
Definition get_dx (g : gsd) (frac : T) : T :=
  if orb (nleb N frac (nint N 0%Z)) (nleb N (nlit N 10%Z 10%positive) frac) then nfail N E_ValueError
  else match find_exact N g frac with
       | Some d => d
       | None =>
         let logs := map (fun p : T * T => (fst p, nlog10 N (snd p))) (sort_keys g) in
         pow10 (lookup_or_fail N logs true true (nlit N 1%Z 1000%positive) frac)
       end.

(* Slurry.generate_GSD: a ratio of None / 0 means "keep the ratio of the current grading" *)
Definition generate_GSD (old : gsd) (D50 Dp nu rhol rhos : T) (r15 r85 : option T) : gsd :=
  let r85v := match r85 with
              | Some r => if truthy r then r else ndiv N (get_dx old (nlit N 85%Z 100%positive)) (get_dx old (nlit N 5%Z 10%positive))
              | None => ndiv N (get_dx old (nlit N 85%Z 100%positive)) (get_dx old (nlit N 5%Z 10%positive))
              end in
  let r15v := match r15 with
              | Some r => if truthy r then r else ndiv N (get_dx old (nlit N 5%Z 10%positive)) (get_dx old (nlit N 15%Z 100%positive))
              | None => ndiv N (get_dx old (nlit N 5%Z 10%positive)) (get_dx old (nlit N 15%Z 100%positive))
              end in
  let temp := [(nlit N 15%Z 100%positive, ndiv N D50 r15v);
               (nlit N 50%Z 100%positive, D50);
               (nlit N 85%Z 100%positive, nmul N D50 r85v)] in
  create_fracs temp Dp nu rhol rhos 10%Z.

End Fracs.
