(* C02 -- public results are finite real numbers on the engineering envelope.
   Statements only; proofs in Lemmas/LIl.v, LSettle.v, LC02.v.  "Finite real, no exception" is read on the regenerated
   model as the generated side-condition predicate f_ok of each function (every division has a non-zero divisor, every
   logarithm and fractional power a positive argument, every table lookup a key in range): Gen/*Ok.v, regenerated from
   the source together with the model.  Proved here: the leaf models are defined on the envelope, and on the
   delivered-concentration path of coarse grains the derived spatial concentration stays strictly inside (Cvt, Cvb).
   Proved here: EVERY model on the spatial-concentration path -- liquid, homogeneous, heterogeneous (both switch
   settings), fixed bed, sliding bed -- and hence Cvs_Erhg, its detailed result and Cvs_regime are defined on the whole
   envelope; on the delivered-concentration path of coarse grains the derived spatial concentration stays strictly inside
   (Cvt, Cvb).  The LDV loops, the Cvt path of finer grains, graded sand and the curve tables are decided on the real
   code by the search; see the partial clauses. *)
From Coq Require Import Reals Lra.
From DHV Require Import NumOps RInst LIl LSettle LC02 LDefined LFb LLdv.
From DHV Require Constants Homogeneous HomogeneousOk Heterogeneous HeterogeneousOk Stratified StratifiedOk Framework FrameworkOk.
Local Open Scope R_scope.

(* the carrier-liquid gradient is defined everywhere on the liquid side of the envelope (turbulent branch, both
   logarithm arguments positive, squared logarithm non-zero) and is positive *)
Theorem C02_liquid_gradient : forall vls Dp eps nu rhol : R, liqE vls Dp eps nu ->
  HomogeneousOk.fluid_head_loss_ok vls Dp eps nu rhol /\ 0 < Homogeneous.fluid_head_loss RN vls Dp eps nu rhol.
Proof. intros. split; [apply LIl.il_ok|apply LIl.il_pos]; assumption. Qed.
Print Assumptions C02_liquid_gradient.

(* terminal and hindered settling velocity are defined and positive for every grain, density and viscosity *)
Theorem C02_settling : forall d Rsd nu K Cvs : R, 0 < d -> 0 < Rsd -> 0 < nu -> 0 < Cvs < 1 ->
  HeterogeneousOk.vt_ruby_ok d Rsd nu K /\ 0 < Heterogeneous.vt_ruby RN d Rsd nu K /\
  HeterogeneousOk.vth_RZ_ok d Rsd nu Cvs K /\ 0 < Heterogeneous.vth_RZ RN d Rsd nu Cvs K.
Proof.
  intros d Rsd nu K Cvs Hd HR Hn HC. split; [apply LSettle.vt_ok; assumption|]. split; [apply LSettle.vt_pos; assumption|].
  split; [apply LSettle.vth_ok; try assumption; apply HC|]. apply (LSettle.vth_facts d Rsd nu K Cvs); assumption.
Qed.
Print Assumptions C02_settling.

(* the hindered-settling term of the heterogeneous model: the Richardson-Zaki exponent lies in (2.34, 4.7), so
   KC = 0.175 (1 + beta) > 0.58 and the base 1 - Cvs/KC of the fractional power is positive for every spatial
   concentration up to 0.58 -- the whole envelope (Cvs <= 0.45) with room to spare *)
Theorem C02_Shr_defined : forall vls Dp d eps nu rhol rhos Cvs : R,
  0 < vls -> 0 < d -> 0 < nu -> 0 < rhol < rhos -> 0 <= Cvs <= 58 / 100 -> HeterogeneousOk.Shr_ok vls Dp d eps nu rhol rhos Cvs.
Proof. exact LSettle.Shr_ok. Qed.
Print Assumptions C02_Shr_defined.

Theorem C02_beta_range : forall Rep : R, 234 / 100 < betaRZ Rep < 47 / 10.
Proof. exact LSettle.beta_range. Qed.
Print Assumptions C02_beta_range.

(* delivered-concentration path, coarse grains (d/Dp >= 4 * particle_ratio = 0.06, where the sliding-flow weight of
   Eqn 8.12-10 is 0): the slip ratio is the three-layer-model slip, strictly between 0 and 1 - Cvt/Cvb, hence the derived
   spatial concentration lies strictly between Cvt and Cvb and the bed-angle table is read strictly inside its range *)
Theorem C02_coarse_Cvt_path : forall vls Dp d eps nu rhol rhos Cvt : R,
  0 < Dp -> 4 * (15 / 1000) * Dp <= d -> 0 < Cvt < Constants.Cvb RN ->
  let Xi := Framework.slip_ratio RN vls Dp d eps nu rhol rhos Cvt in
  0 < Xi < 1 - Cvt / Constants.Cvb RN /\
  Cvt < Framework.Cvs_from_Cvt RN vls Dp d eps nu rhol rhos Cvt < Constants.Cvb RN.
Proof. exact LC02.coarse_Cvs_inside. Qed.
Print Assumptions C02_coarse_Cvt_path.

(* the whole spatial-concentration path: on the engineering envelope (liquid side liqE, grain up to Dp/4, rhol 0.99..1.03,
   rhos 2..4, Cvs 0.02..0.45) the selected gradient, its detailed result and the regime name are defined for both settings
   of both module switches: the liquid gradient, the fixed-bed force balance (bed half-angle inside the table, every
   perimeter / area / hydraulic diameter positive, all three friction-factor logarithm arguments strictly inside (0, 1)),
   the sliding bed, the heterogeneous and the homogeneous model *)
Theorem C02_Cvs_path_defined : forall (sf sq : bool) (vls Dp d eps nu rhol rhos Cvs : R), LFb.inE vls Dp d eps nu rhol rhos Cvs ->
  FrameworkOk.Cvs_Erhg_ok sf sq vls Dp d eps nu rhol rhos Cvs /\
  FrameworkOk.Cvs_Erhg_dict_ok sf sq vls Dp d eps nu rhol rhos Cvs /\
  FrameworkOk.Cvs_regime_ok sf sq vls Dp d eps nu rhol rhos Cvs.
Proof. exact LFb.Cvs_path_ok. Qed.
Print Assumptions C02_Cvs_path_defined.

Theorem C02_fixed_bed_defined : forall vls Dp d eps nu rhol rhos Cvs : R,
  liqE vls Dp eps nu -> 0 < d <= Dp / 4 -> 0 < rhol < rhos -> 2 / 100 <= Cvs <= 45 / 100 ->
  StratifiedOk.fb_Erhg_ok vls Dp d eps nu rhol rhos Cvs.
Proof. exact LFb.fb_Erhg_ok. Qed.
Print Assumptions C02_fixed_bed_defined.

(* the bed half-angle read from the table for a bed fraction Cvs/Cvb in [1/30, 3/4] lies in (0.45, 2.05) rad *)
Theorem C02_bed_angle_range : forall Cvs : R, 2 / 100 <= Cvs <= 45 / 100 ->
  45 / 100 < Stratified.beta RN Cvs < 205 / 100 /\ StratifiedOk.beta_ok Cvs.
Proof. exact LFb.beta_val. Qed.
Print Assumptions C02_bed_angle_range.

Theorem C02_homogeneous_defined : forall (vls Dp d eps nu rhol rhos Cvs : R) (sf : bool),
  liqE vls Dp eps nu -> solE Dp d rhol rhos Cvs -> HomogeneousOk.Erhg_ok vls Dp d eps nu rhol rhos Cvs sf.
Proof. exact LDefined.ho_ok. Qed.
Print Assumptions C02_homogeneous_defined.

Theorem C02_heterogeneous_defined : forall (vls Dp d eps nu rhol rhos Cvs : R) (sf sq : bool),
  liqE vls Dp eps nu -> solE Dp d rhol rhos Cvs -> HeterogeneousOk.Erhg_ok vls Dp d eps nu rhol rhos Cvs sf sq.
Proof. exact LDefined.he_ok. Qed.
Print Assumptions C02_heterogeneous_defined.

(* the limit deposit velocity (four fixed-step loops, any iteration budget) is defined: every iterate is a positive line
   speed with a defined, positive friction factor; every fractional power has a positive base *)
Theorem C02_LDV_defined : forall (vls Dp d eps nu rhol rhos Cvs : R) (max_steps : nat),
  1 / 10 <= Dp <= 12 / 10 -> 0 <= eps <= 1 / 10000 -> 0 < nu -> 0 < d -> 0 < rhol < rhos -> 0 < Cvs <= 58 / 100 ->
  FrameworkOk.LDV_ok vls Dp d eps nu rhol rhos Cvs max_steps.
Proof. exact LLdv.LDV_ok. Qed.
Print Assumptions C02_LDV_defined.

(* the envelope is not empty: the repository's default slurry at 3 m/s *)
Theorem C02_nonvacuous : LFb.inE 3 (762 / 1000) (1 / 1000) (45 / 1000000) (10508 / 10000000000) (10248103 / 10000000) (265 / 100) (175 / 1000).
Proof. unfold LFb.inE, liqE. repeat split; lra. Qed.
Print Assumptions C02_nonvacuous.
