(* SwameeJain: facts about the friction factor  lambda(Re, Dp, eps) = 1.325 / ln(eps/(3.7 Dp) + 5.75/Re^0.9)^2
   of the regenerated model Homogeneous.swamee_jain_ff, on the turbulent branch (Re > 2320).
   Derivative-free: everything follows from monotonicity of ln / Rpower and  ln t < t - 1. *)
From Coq Require Import Reals Lra.
From Interval Require Import Tactic.
From DHV Require Import NumOps RInst.
From DHV Require Constants Homogeneous.
Local Open Scope R_scope.

Definition c2 (Re : R) : R := 575 / 100 / Rpower Re (9 / 10).
Definition Lu (c1 Re : R) : R := - ln (c1 + c2 Re).

Lemma sj_turbulent Re Dp eps : 2320 < Re ->
  Homogeneous.swamee_jain_ff RN Re Dp eps = 1325 / 1000 / (Lu (eps / (37 / 10 * Dp)) Re) ^ 2.
Proof.
  intro H. unfold Homogeneous.swamee_jain_ff. toR. unfold Rleb. destruct (Rle_dec Re 2320) as [A|A]; [lra|].
  cbv zeta. unfold Lu, c2. f_equal. ring.
Qed.
Lemma sj_laminar Re Dp eps : Re <= 2320 -> Homogeneous.swamee_jain_ff RN Re Dp eps = 64 / 1 / Re.
Proof. intro H. unfold Homogeneous.swamee_jain_ff. toR. unfold Rleb. destruct (Rle_dec Re 2320) as [A|A]; [reflexivity|lra]. Qed.

Lemma ln_div x y : 0 < x -> 0 < y -> ln (x / y) = ln x - ln y.
Proof. intros. unfold Rdiv. rewrite ln_mult by (try assumption; apply Rinv_0_lt_compat; assumption). rewrite ln_Rinv by assumption. ring. Qed.

Lemma ln_le a b : 0 < a -> a <= b -> ln a <= ln b.
Proof. intros Ha [L|E]; [left; apply ln_increasing; assumption|rewrite E; lra]. Qed.

Lemma sq_gt a x : 0 <= a -> a < x -> a * a < x * x.
Proof. intros. assert (0 < (x - a) * (x + a)) by (apply Rmult_lt_0_compat; lra). lra. Qed.

Lemma c2_pos Re : 0 < c2 Re.
Proof. unfold c2. apply Rdiv_lt_0_compat; [lra|]. unfold Rpower. apply exp_pos. Qed.

Lemma ln_c2 Re : ln (c2 Re) = ln (575 / 100) - 9 / 10 * ln Re.
Proof.
  unfold c2. rewrite ln_div by (try lra; unfold Rpower; apply exp_pos). unfold Rpower. rewrite ln_exp. reflexivity.
Qed.

Lemma c2_decreasing Re1 Re2 : 0 < Re1 < Re2 -> c2 Re2 < c2 Re1.
Proof.
  intro H. unfold c2, Rdiv. apply Rmult_lt_compat_l; [lra|].
  apply Rinv_lt_contravar; [apply Rmult_lt_0_compat; unfold Rpower; apply exp_pos|].
  apply Rlt_Rpower_l; lra.
Qed.

Lemma c2_at_2320 Re : 2320 <= Re -> c2 Re <= 54 / 10000.
Proof.
  intro H. destruct (Req_EM_T Re 2320) as [->|N].
  - unfold c2. interval.
  - apply Rle_trans with (c2 2320); [left; apply c2_decreasing; lra|unfold c2; interval].
Qed.

Section Fixed_c1.
Variable c1 : R.
Hypothesis Hc1 : 0 <= c1 <= 3 / 10.

Lemma u_range Re : 2320 <= Re -> 0 < c1 + c2 Re <= 3054 / 10000.
Proof. intro H. pose proof (c2_pos Re). pose proof (c2_at_2320 Re H). lra. Qed.

Lemma Lu_big Re : 2320 <= Re -> 9 / 10 < Lu c1 Re.
Proof.
  intro H. destruct (u_range Re H) as [U0 U1]. unfold Lu.
  pose proof (ln_le _ _ U0 U1).
  assert (ln (3054 / 10000) < - (9 / 10)) by interval. lra.
Qed.

Lemma Lu_increasing Re1 Re2 : 2320 <= Re1 < Re2 -> Lu c1 Re1 < Lu c1 Re2.
Proof.
  intro H. unfold Lu. apply Ropp_lt_contravar. apply ln_increasing.
  - destruct (u_range Re2) as [U _]; lra.
  - pose proof (c2_decreasing Re1 Re2). lra.
Qed.

(* the key inequality: L = -ln u grows more slowly than Re *)
Lemma Lu_ratio Re1 Re2 : 2320 <= Re1 < Re2 -> Lu c1 Re2 * Re1 < Lu c1 Re1 * Re2.
Proof.
  intro H. set (t := Re2 / Re1).
  assert (Ht : 1 < t).
  { unfold t. apply (Rmult_lt_reg_r Re1); [lra|]. unfold Rdiv. rewrite Rmult_assoc, Rinv_l by lra. lra. }
  destruct (u_range Re1) as [U1 _]; [lra|]. destruct (u_range Re2) as [U2 _]; [lra|].
  pose proof (c2_pos Re1) as P1. pose proof (c2_pos Re2) as P2. pose proof (c2_decreasing Re1 Re2) as CD.
  (* L2 - L1 = ln(u1/u2) <= ln(c2_1/c2_2) = 0.9 ln t *)
  assert (D : Lu c1 Re2 - Lu c1 Re1 <= 9 / 10 * ln t).
  { unfold Lu. replace (- ln (c1 + c2 Re2) - - ln (c1 + c2 Re1)) with (ln (c1 + c2 Re1) - ln (c1 + c2 Re2)) by ring.
    rewrite <- ln_div by assumption.
    assert (R1 : (c1 + c2 Re1) / (c1 + c2 Re2) <= c2 Re1 / c2 Re2).
    { apply (Rmult_le_reg_r (c1 + c2 Re2)); [lra|]. unfold Rdiv at 1. rewrite Rmult_assoc, Rinv_l by lra.
      apply (Rmult_le_reg_r (c2 Re2)); [lra|].
      replace (c2 Re1 / c2 Re2 * (c1 + c2 Re2) * c2 Re2) with (c2 Re1 * (c1 + c2 Re2)) by (field; lra).
      assert (c1 * c2 Re2 <= c1 * c2 Re1) by (apply Rmult_le_compat_l; lra). lra. }
    assert (P : 0 < (c1 + c2 Re1) / (c1 + c2 Re2)) by (apply Rdiv_lt_0_compat; assumption).
    pose proof (ln_le _ _ P R1) as LL.
    rewrite (ln_div (c2 Re1) (c2 Re2)) in LL by assumption. rewrite !ln_c2 in LL.
    unfold t. rewrite (ln_div Re2 Re1) by lra. lra. }
  assert (Lt : ln t < t - 1).
  { assert (N : ln t <> 0) by (assert (0 < ln t) by (rewrite <- ln_1; apply ln_increasing; lra); lra).
    pose proof (exp_ineq1 (ln t) N) as E. rewrite exp_ln in E by lra. lra. }
  assert (B1 : 9 / 10 < Lu c1 Re1) by (apply Lu_big; lra).
  assert (G : Lu c1 Re2 < Lu c1 Re1 * t) by nra.
  unfold t in G. apply (Rmult_lt_reg_r (/ Re1)); [apply Rinv_0_lt_compat; lra|].
  rewrite (Rmult_assoc _ Re1), Rinv_r by lra. unfold Rdiv in G. rewrite Rmult_assoc. lra.
Qed.

(* lambda on the turbulent branch, as a function of Re for fixed relative roughness *)
Definition lam (Re : R) : R := 1325 / 1000 / (Lu c1 Re) ^ 2.

Lemma lam_pos Re : 2320 <= Re -> 0 < lam Re.
Proof. intro H. unfold lam. pose proof (Lu_big Re H). apply Rdiv_lt_0_compat; [lra|]. replace (Lu c1 Re ^ 2) with (Lu c1 Re * Lu c1 Re) by ring. pose proof (sq_gt (9 / 10) (Lu c1 Re)). lra. Qed.

Lemma lam_upper Re : 2320 <= Re -> lam Re < 1325 / 1000 / (81 / 100).
Proof.
  intro H. unfold lam. pose proof (Lu_big Re H). unfold Rdiv. apply Rmult_lt_compat_l; [lra|].
  replace (Lu c1 Re ^ 2) with (Lu c1 Re * Lu c1 Re) by ring.
  pose proof (sq_gt (9 / 10) (Lu c1 Re)). apply Rinv_lt_contravar; lra.
Qed.

Lemma lam_decreasing Re1 Re2 : 2320 <= Re1 < Re2 -> lam Re2 < lam Re1.
Proof.
  intro H. unfold lam. assert (9 / 10 < Lu c1 Re1) by (apply Lu_big; lra). pose proof (Lu_increasing Re1 Re2 H).
  unfold Rdiv. apply Rmult_lt_compat_l; [lra|].
  replace (Lu c1 Re1 ^ 2) with (Lu c1 Re1 * Lu c1 Re1) by ring. replace (Lu c1 Re2 ^ 2) with (Lu c1 Re2 * Lu c1 Re2) by ring.
  pose proof (sq_gt (Lu c1 Re1) (Lu c1 Re2)). pose proof (sq_gt (9 / 10) (Lu c1 Re1)).
  apply Rinv_lt_contravar; [apply Rmult_lt_0_compat; lra|lra].
Qed.

(* lambda * Re^2 increases with Re  (=> the liquid gradient rises with line speed) *)
Lemma lam_Re2_increasing Re1 Re2 : 2320 <= Re1 < Re2 -> lam Re1 * Re1 ^ 2 < lam Re2 * Re2 ^ 2.
Proof.
  intro H. unfold lam. pose proof (Lu_ratio Re1 Re2 H) as K.
  assert (P1 : 9 / 10 < Lu c1 Re1) by (apply Lu_big; lra). assert (P2 : 9 / 10 < Lu c1 Re2) by (apply Lu_big; lra).
  set (L1 := Lu c1 Re1) in *. set (L2 := Lu c1 Re2) in *.
  assert (Q : Re1 / L1 < Re2 / L2).
  { apply (Rmult_lt_reg_r (L1 * L2)); [nra|]. replace (Re1 / L1 * (L1 * L2)) with (L2 * Re1) by (field; lra).
    replace (Re2 / L2 * (L1 * L2)) with (L1 * Re2) by (field; lra). exact K. }
  replace (1325 / 1000 / L1 ^ 2 * Re1 ^ 2) with (1325 / 1000 * (Re1 / L1) ^ 2) by (field; lra).
  replace (1325 / 1000 / L2 ^ 2 * Re2 ^ 2) with (1325 / 1000 * (Re2 / L2) ^ 2) by (field; lra).
  assert (0 < Re1 / L1) by (apply Rdiv_lt_0_compat; lra). nra.
Qed.

(* lambda falls more slowly than 1/Re^2:  lam(Re1)/lam(Re2) < (Re2/Re1)^2 *)
Lemma lam_ratio Re1 Re2 : 2320 <= Re1 < Re2 -> lam Re1 / lam Re2 < (Re2 / Re1) ^ 2.
Proof.
  intro H. pose proof (lam_Re2_increasing Re1 Re2 H) as K.
  assert (0 < lam Re2) by (apply lam_pos; lra).
  apply (Rmult_lt_reg_r (lam Re2 * Re1 ^ 2)); [apply Rmult_lt_0_compat; [lra|nra]|].
  replace (lam Re1 / lam Re2 * (lam Re2 * Re1 ^ 2)) with (lam Re1 * Re1 ^ 2) by (field; lra).
  replace ((Re2 / Re1) ^ 2 * (lam Re2 * Re1 ^ 2)) with (lam Re2 * Re2 ^ 2) by (field; lra). exact K.
Qed.
End Fixed_c1.

(* lambda also falls when the relative roughness falls (larger pipe) *)
Lemma Lu_c1_monotone c1 c1' Re : 0 <= c1' <= c1 -> c1 <= 3 / 10 -> 2320 <= Re -> Lu c1 Re <= Lu c1' Re.
Proof.
  intros H1 H2 HR. unfold Lu. apply Ropp_le_contravar.
  pose proof (c2_pos Re). apply ln_le; lra.
Qed.
