from ._core import Figure


def figure(*a, **k):
    return Figure(*a, **k)
