(* C20, the V50 iteration of Wilson_V50.py: it terminates on the envelope, its result does not depend on the fuel of
   the model, and the result satisfies the implicit friction-factor equation within 0.1 %.
   The iteration ff <- lambda(Re(w50 sqrt(8/ff) cosh(60 d50/Dp))) is a MONOTONE map of [0.01, 0.036] into itself
   (turbulent branch of Swamee-Jain, steel roughness), so the iterates move in one direction; the loop stops when two
   consecutive iterates fall into the same 1e-4 bin; a monotone bounded sequence can change bin only finitely often. *)
From Coq Require Import Reals Lra Lia ZArith Bool.
From Interval Require Import Tactic.
From DHV Require Import NumOps RInst SwameeJain LIl LSettle LWS LC20.
From DHV Require Constants Homogeneous Heterogeneous WilsonV50.
Local Open Scope R_scope.

(* ---------- truncation to four digits ---------- *)
Definition bin (x : R) : Z := Rtrunc (x * 10000).

Lemma Int_part_mono x y : x <= y -> (Int_part x <= Int_part y)%Z.
Proof.
  intro H. pose proof (base_Int_part x) as [A1 A2]. pose proof (base_Int_part y) as [B1 B2].
  assert (K : IZR (Int_part x) < IZR (Int_part y + 1)) by (rewrite plus_IZR; lra).
  apply lt_IZR in K. lia.
Qed.

Lemma bin_mono x y : 0 <= x -> x <= y -> (bin x <= bin y)%Z.
Proof.
  intros H0 H. unfold bin, Rtrunc.
  destruct (Rle_dec 0 (x * 10000)) as [_|N]; [|exfalso; apply N; lra].
  destruct (Rle_dec 0 (y * 10000)) as [_|N]; [|exfalso; apply N; lra].
  apply Int_part_mono. lra.
Qed.

Lemma bin_nonneg x : 0 <= x -> (0 <= bin x)%Z.
Proof.
  intro H. unfold bin, Rtrunc. destruct (Rle_dec 0 (x * 10000)) as [_|N]; [|exfalso; apply N; lra].
  pose proof (base_Int_part (x * 10000)) as [A1 A2].
  assert (K : IZR (-1) < IZR (Int_part (x * 10000))) by lra. apply lt_IZR in K. lia.
Qed.

(* ---------- a monotone self-map iterated until two consecutive values share a bin ---------- *)
Section Iter.
Variable g : R -> R.
Variables lo hi : R.
Hypothesis Hlo : 0 <= lo.
Hypothesis g_range : forall x, lo <= x <= hi -> lo <= g x <= hi.
Hypothesis g_mono : forall x y, lo <= x -> x <= y -> y <= hi -> g x <= g y.

Fixpoint loop (fuel : nat) (a b : R) : option (R * R) :=
  match fuel with
  | O => None
  | S f => if negb (Z.eqb (bin b) (bin a)) then loop f b (g b) else Some (a, b)
  end.

Lemma loop_inc : forall n fuel a, (Z.to_nat (bin hi - bin a) <= n)%nat -> (n < fuel)%nat -> lo <= a -> a <= g a -> a <= hi ->
  exists a', loop fuel a (g a) = Some (a', g a') /\ lo <= a' <= hi.
Proof.
  induction n as [|n IH]; intros fuel a Hm Hf H1 H2 H3; (destruct fuel as [|fuel]; [lia|]); cbn [loop];
    pose proof (g_range a (conj H1 H3)) as [G1 G2];
    assert (B1 : (bin a <= bin (g a))%Z) by (apply bin_mono; lra);
    assert (B2 : (bin (g a) <= bin hi)%Z) by (apply bin_mono; lra);
    destruct (Z.eqb (bin (g a)) (bin a)) eqn:E; cbn [negb].
  - exists a. split; [reflexivity|lra].
  - exfalso. apply Z.eqb_neq in E. lia.
  - exists a. split; [reflexivity|lra].
  - apply Z.eqb_neq in E. apply (IH fuel (g a)); [lia|lia|lra| |lra].
    apply g_mono; lra.
Qed.

Lemma loop_dec : forall n fuel a, (Z.to_nat (bin a) <= n)%nat -> (n < fuel)%nat -> lo <= a -> g a <= a -> a <= hi ->
  exists a', loop fuel a (g a) = Some (a', g a') /\ lo <= a' <= hi.
Proof.
  induction n as [|n IH]; intros fuel a Hm Hf H1 H2 H3; (destruct fuel as [|fuel]; [lia|]); cbn [loop];
    pose proof (g_range a (conj H1 H3)) as [G1 G2];
    assert (B1 : (bin (g a) <= bin a)%Z) by (apply bin_mono; lra);
    assert (B2 : (0 <= bin (g a))%Z) by (apply bin_nonneg; lra);
    destruct (Z.eqb (bin (g a)) (bin a)) eqn:E; cbn [negb].
  - exists a. split; [reflexivity|lra].
  - exfalso. apply Z.eqb_neq in E. lia.
  - exists a. split; [reflexivity|lra].
  - apply Z.eqb_neq in E. apply (IH fuel (g a)); [lia|lia|lra| |lra].
    apply g_mono; lra.
Qed.

Theorem loop_terminates a fuel : lo <= a <= hi -> (Z.to_nat (bin hi) < fuel)%nat ->
  exists a', loop fuel a (g a) = Some (a', g a') /\ lo <= a' <= hi.
Proof.
  intros [H1 H3] Hf. assert (Ba : (0 <= bin a)%Z) by (apply bin_nonneg; lra).
  assert (Bh : (bin a <= bin hi)%Z) by (apply bin_mono; lra).
  destruct (Rle_dec a (g a)) as [L|L].
  - apply (loop_inc (Z.to_nat (bin hi))); [lia|exact Hf|exact H1|exact L|exact H3].
  - apply (loop_dec (Z.to_nat (bin hi))); [lia|exact Hf|exact H1|lra|exact H3].
Qed.

(* more fuel changes nothing *)
Lemma loop_more : forall fuel a b r, loop fuel a b = Some r -> forall fuel', (fuel <= fuel')%nat -> loop fuel' a b = Some r.
Proof.
  induction fuel as [|fuel IH]; intros a b r H fuel' Hf; [discriminate H|].
  destruct fuel' as [|fuel']; [lia|]. cbn [loop] in *. destruct (negb (Z.eqb (bin b) (bin a))); [|exact H].
  apply (IH _ _ _ H). lia.
Qed.

Lemma loop_exit : forall fuel a b a' b', loop fuel a b = Some (a', b') -> bin b' = bin a'.
Proof.
  induction fuel as [|fuel IH]; intros a b a' b' H; [discriminate H|].
  cbn [loop] in H. destruct (Z.eqb (bin b) (bin a)) eqn:E; cbn [negb] in H.
  - injection H as <- <-. apply Z.eqb_eq in E. exact E.
  - exact (IH _ _ _ _ H).
Qed.
End Iter.

(* ---------- analytic facts ---------- *)
Lemma cosh_ge_1 x : 1 <= cosh x.
Proof.
  unfold cosh. rewrite exp_Ropp. pose proof (exp_pos x) as P. set (e := exp x) in *.
  assert (Q : 0 < / e) by (apply Rinv_0_lt_compat; exact P). assert (I : e * / e = 1) by (apply Rinv_r; lra).
  set (i := / e) in *. assert (0 <= (e - i) * (e - i)) by (apply Rle_0_sqr || nra). nra.
Qed.

Lemma ln_le_sub1 t : 0 < t -> ln t <= t - 1.
Proof.
  intro H. destruct (Req_EM_T (ln t) 0) as [E|N].
  - assert (t = 1) by (apply ln_inv; [lra|lra|rewrite ln_1; exact E]). subst t. rewrite ln_1. lra.
  - pose proof (exp_ineq1 (ln t) N) as E. rewrite exp_ln in E by lra. lra.
Qed.

Lemma ln_sqrt x : 0 < x -> ln (sqrt x) = / 2 * ln x.
Proof.
  intro H. assert (P : 0 < sqrt x) by (apply sqrt_lt_R0; exact H).
  assert (E : ln x = ln (sqrt x) + ln (sqrt x)) by (rewrite <- ln_mult by assumption; rewrite sqrt_sqrt by lra; reflexivity).
  lra.
Qed.

Lemma ln_diff a b : 0 < b <= a -> 0 <= ln a - ln b <= (a - b) / b.
Proof.
  intros [Hb H]. split.
  - pose proof (ln_le b a Hb H). lra.
  - rewrite <- ln_div by lra. pose proof (ln_le_sub1 (a / b)) as K.
    assert (0 < a / b) by (apply Rdiv_lt_0_compat; lra). replace ((a - b) / b) with (a / b - 1) by (field; lra). auto.
Qed.

(* L = -ln(c1 + c2(Re)) grows at most like 0.9 ln Re *)
Lemma Lu_diff c1 Re1 Re2 : 0 <= c1 <= 3 / 10 -> 2320 <= Re1 <= Re2 ->
  0 <= Lu c1 Re2 - Lu c1 Re1 <= 9 / 10 * (ln Re2 - ln Re1).
Proof.
  intros Hc [H1 H2]. destruct (Req_EM_T Re1 Re2) as [->|N]; [lra|].
  assert (H : 2320 <= Re1 < Re2) by lra.
  destruct (u_range c1 Hc Re1) as [U1 _]; [lra|]. destruct (u_range c1 Hc Re2) as [U2 _]; [lra|].
  pose proof (c2_pos Re1) as P1. pose proof (c2_pos Re2) as P2. pose proof (c2_decreasing Re1 Re2) as CD.
  split; [pose proof (Lu_increasing c1 Hc Re1 Re2 H); lra|].
  unfold Lu. replace (- ln (c1 + c2 Re2) - - ln (c1 + c2 Re1)) with (ln (c1 + c2 Re1) - ln (c1 + c2 Re2)) by ring.
  rewrite <- ln_div by assumption.
  assert (R1 : (c1 + c2 Re1) / (c1 + c2 Re2) <= c2 Re1 / c2 Re2).
  { apply (Rmult_le_reg_r (c1 + c2 Re2)); [lra|]. unfold Rdiv at 1. rewrite Rmult_assoc, Rinv_l by lra.
    apply (Rmult_le_reg_r (c2 Re2)); [lra|].
    replace (c2 Re1 / c2 Re2 * (c1 + c2 Re2) * c2 Re2) with (c2 Re1 * (c1 + c2 Re2)) by (field; lra).
    assert (c1 * c2 Re2 <= c1 * c2 Re1) by (apply Rmult_le_compat_l; lra). lra. }
  assert (P : 0 < (c1 + c2 Re1) / (c1 + c2 Re2)) by (apply Rdiv_lt_0_compat; assumption).
  pose proof (ln_le _ _ P R1) as LL.
  rewrite (ln_div (c2 Re1) (c2 Re2)) in LL by assumption. rewrite !ln_c2 in LL. lra.
Qed.

(* ---------- the particle-associated velocity w has a positive floor on the envelope ---------- *)
Lemma w_lower d nu rhol rhos : 0 < d -> 8 / 10000000 <= nu <= 14 / 10000000 -> 99 / 100 <= rhol <= 103 / 100 -> 2 <= rhos <= 4 ->
  5 / 100 <= WilsonV50.w RN d nu rhol rhos.
Proof.
  intros Hd Hn Hl Hs. unfold WilsonV50.w. cbv zeta. toR. unfold Constants.gravity. toR.
  set (Rsd := (rhos - rhol) / rhol).
  assert (HR : 94 / 100 <= Rsd).
  { unfold Rsd. apply (Rmult_le_reg_r rhol); [lra|]. unfold Rdiv at 2. rewrite Rmult_assoc, Rinv_l by lra. lra. }
  pose proof (vt_pos d Rsd nu (26 / 100) Hd) as V. specialize (V ltac:(lra) ltac:(lra)).
  assert (X : 73 / 10000000 <= Rsd * (980665 / 100000) * nu) by nra.
  pose proof (Rpower_mono_base (73 / 10000000) (Rsd * (980665 / 100000) * nu) (10 / 10 / (30 / 10))) as M.
  specialize (M ltac:(lra) ltac:(lra)).
  assert (I : 19 / 1000 <= Rpower (73 / 10000000) (10 / 10 / (30 / 10))) by interval.
  lra.
Qed.

(* ---------- the friction-factor map of V50 ---------- *)
Section V50.
Variables w50 Dp d50 nu eps : R.
Hypothesis Hw : 5 / 100 <= w50.
Hypothesis HDp : 1 / 10 <= Dp <= 12 / 10.
Hypothesis Hnu : 8 / 10000000 <= nu <= 14 / 10000000.
Hypothesis Heps : 45 / 1000000 <= eps <= 1 / 10000.

Definition vof (ff : R) : R := v50_of w50 Dp d50 ff.
Definition reof (ff : R) : R := Homogeneous.pipe_reynolds_number RN (vof ff) Dp nu.
Definition gV (ff : R) : R := Homogeneous.swamee_jain_ff RN (reof ff) Dp eps.
Definition flo : R := 1 / 100.
Definition fhi : R := 36 / 1000.
Definition c1v : R := eps / (37 / 10 * Dp).
Definition Kc : R := w50 * cosh (60 * d50 / Dp) * Dp / nu.

Lemma Kc_big : 3500 <= Kc.
Proof.
  unfold Kc. pose proof (cosh_ge_1 (60 * d50 / Dp)) as C. set (c := cosh _) in *.
  apply (Rmult_le_reg_r nu); [lra|]. replace (w50 * c * Dp / nu * nu) with (w50 * c * Dp) by (field; lra).
  assert (5 / 100 <= w50 * c) by nra. assert (5 / 1000 <= w50 * c * Dp) by nra. nra.
Qed.

Lemma reof_eq ff : reof ff = Kc * sqrt (8 / ff).
Proof. unfold reof, vof, v50_of, Kc. rewrite Re_of_eq. unfold Re_of. field. lra. Qed.

Lemma sqrt8_mono x y : 0 < x <= y -> sqrt (8 / y) <= sqrt (8 / x).
Proof.
  intros [Hx H]. apply sqrt_le_1_alt. unfold Rdiv. apply Rmult_le_compat_l; [lra|]. apply Rinv_le_contravar; lra.
Qed.

Lemma reof_big ff : 0 < ff <= fhi -> 50000 <= reof ff.
Proof.
  intros [H0 H]. rewrite reof_eq. pose proof Kc_big. pose proof (sqrt8_mono ff fhi (conj H0 H)) as S.
  assert (149 / 10 <= sqrt (8 / fhi)) by (unfold fhi; interval). nra.
Qed.

Lemma reof_mono x y : 0 < x <= y -> reof y <= reof x.
Proof. intro H. rewrite !reof_eq. pose proof Kc_big. pose proof (sqrt8_mono x y H). nra. Qed.

Lemma c1v_range : 0 <= c1v <= 3 / 10.
Proof.
  unfold c1v. split.
  - apply Rmult_le_pos; [lra|]. left. apply Rinv_0_lt_compat. lra.
  - apply (Rmult_le_reg_r (37 / 10 * Dp)); [lra|]. replace (eps / (37 / 10 * Dp) * (37 / 10 * Dp)) with eps by (field; lra). nra.
Qed.

Lemma c1v_lower : 45 / 1000000 / (37 / 10 * (12 / 10)) <= c1v.
Proof.
  unfold c1v. apply (Rmult_le_reg_r (37 / 10 * Dp)); [lra|]. replace (eps / (37 / 10 * Dp) * (37 / 10 * Dp)) with eps by (field; lra).
  assert (45 / 1000000 / (37 / 10 * (12 / 10)) * (37 / 10 * Dp) <= 45 / 1000000) by nra. lra.
Qed.

Lemma gV_lam ff : 0 < ff <= fhi -> gV ff = lam c1v (reof ff).
Proof. intro H. pose proof (reof_big ff H). unfold gV. rewrite sj_turbulent by lra. reflexivity. Qed.

Lemma Lu_upper Re : 2320 <= Re -> Lu c1v Re <= 115 / 10.
Proof.
  intro H. unfold Lu. pose proof (c2_pos Re). pose proof c1v_lower as L.
  assert (P : 0 < 45 / 1000000 / (37 / 10 * (12 / 10))) by lra.
  pose proof (ln_le _ (c1v + c2 Re) P ltac:(lra)) as K.
  assert (- ln (45 / 1000000 / (37 / 10 * (12 / 10))) <= 115 / 10) by interval. lra.
Qed.

Lemma c1v_upper : c1v <= 28 / 100000.
Proof.
  unfold c1v. apply (Rmult_le_reg_r (37 / 10 * Dp)); [lra|]. replace (eps / (37 / 10 * Dp) * (37 / 10 * Dp)) with eps by (field; lra). nra.
Qed.

Lemma Lu_lower Re : 50000 <= Re -> 7 <= Lu c1v Re.
Proof.
  intro H. unfold Lu. pose proof (c2_pos Re) as P. pose proof c1v_upper as U. pose proof c1v_range as [C0 _].
  assert (C2 : c2 Re <= 34 / 100000).
  { destruct (Req_EM_T Re 50000) as [->|N]; [unfold c2; interval|].
    apply Rle_trans with (c2 50000); [left; apply c2_decreasing; lra|unfold c2; interval]. }
  pose proof (ln_le (c1v + c2 Re) (62 / 100000) ltac:(lra) ltac:(lra)) as K.
  assert (ln (62 / 100000) <= - 7) by interval. lra.
Qed.

Lemma gV_range ff : flo <= ff <= fhi -> flo <= gV ff <= fhi.
Proof.
  unfold flo. intros [H0 H]. rewrite gV_lam by lra. pose proof (reof_big ff ltac:(lra)) as RB.
  unfold lam, fhi. pose proof (Lu_lower (reof ff) ltac:(lra)) as L1. pose proof (Lu_upper (reof ff) ltac:(lra)) as L2.
  set (L := Lu c1v (reof ff)) in *.
  split; (apply (Rmult_le_reg_r (L ^ 2)); [nra|]; replace (1325 / 1000 / L ^ 2 * L ^ 2) with (1325 / 1000) by (field; lra); nra).
Qed.

Lemma gV_mono x y : flo <= x -> x <= y -> y <= fhi -> gV x <= gV y.
Proof.
  unfold flo. intros H0 H1 H2. rewrite !gV_lam by lra.
  pose proof (reof_mono x y ltac:(lra)) as M. pose proof (reof_big y ltac:(lra)) as B.
  destruct (Req_EM_T (reof y) (reof x)) as [->|N]; [lra|].
  left. apply (lam_decreasing c1v c1v_range). lra.
Qed.

(* the generated loop is the abstract loop *)
Lemma loop_sim : forall fuel a b,
  WilsonV50.V50_loop1 RN fuel w50 Dp d50 nu eps a (vof a) (reof a) b =
  match loop gV fuel a b with Some (a', b') => Some (a', vof a', reof a', b') | None => None end.
Proof.
  induction fuel as [|fuel IH]; intros a b; cbn [WilsonV50.V50_loop1 loop]; [reflexivity|]. toR.
  change (Rtrunc (b * 10000)) with (bin b). change (Rtrunc (a * 10000)) with (bin a).
  destruct (negb (Z.eqb (bin b) (bin a))); [|reflexivity]. cbv zeta. exact (IH b (gV b)).
Qed.

Definition ff0 : R := 12 / 1000.

Theorem V50_loop_terminates fuel : (Z.to_nat (bin fhi) < fuel)%nat ->
  exists a', WilsonV50.V50_loop1 RN fuel w50 Dp d50 nu eps ff0 (vof ff0) (reof ff0) (gV ff0) = Some (a', vof a', reof a', gV a') /\
             flo <= a' <= fhi /\ bin (gV a') = bin a'.
Proof.
  intro Hf. assert (R0 : flo <= ff0 <= fhi) by (unfold flo, ff0, fhi; lra).
  destruct (loop_terminates gV flo fhi ltac:(unfold flo; lra) gV_range gV_mono ff0 fuel R0 Hf) as (a' & E & Ra).
  exists a'. rewrite loop_sim, E. split; [reflexivity|]. split; [exact Ra|]. exact (loop_exit gV _ _ _ _ _ E).
Qed.

(* accuracy at the exit: V = vof (gV a), F(V) = vof (gV (gV a)) *)
Lemma sqrt8_lam Re : 2320 <= Re -> sqrt (8 / lam c1v Re) = Lu c1v Re * sqrt (8 / (1325 / 1000)).
Proof.
  intro H. pose proof (Lu_big c1v c1v_range Re H) as L. unfold lam. set (Lv := Lu c1v Re) in *.
  replace (8 / (1325 / 1000 / Lv ^ 2)) with (Lv * Lv * (8 / (1325 / 1000))) by (field; lra).
  rewrite sqrt_mult_alt by nra. rewrite sqrt_square by lra. reflexivity.
Qed.

Theorem V50_exit_accuracy a : flo <= a <= fhi -> bin (gV a) = bin a ->
  let V := vof (gV a) in let F := vof (gV (gV a)) in 0 < F /\ Rabs (V - F) <= 1 / 1000 * F.
Proof.
  intros Ra Hb. cbv zeta. pose proof (gV_range a Ra) as RA. pose proof (gV_range (gV a) RA) as RB.
  unfold flo in *. set (A := gV a) in *.
  assert (D : Rabs (A - a) < 1 / 10000) by (apply Rtrunc_close; [lra|lra|exact Hb]).
  pose proof (reof_big a ltac:(lra)) as B1. pose proof (reof_big A ltac:(lra)) as B2.
  (* both friction factors as lam of their Reynolds numbers *)
  assert (EA : A = lam c1v (reof a)) by (apply gV_lam; lra).
  assert (EB : gV A = lam c1v (reof A)) by (apply gV_lam; lra).
  set (s := sqrt (8 / (1325 / 1000))). assert (Hs : 0 < s) by (unfold s; apply sqrt_lt_R0; lra).
  set (La := Lu c1v (reof a)). set (LA := Lu c1v (reof A)).
  assert (SA : sqrt (8 / A) = La * s) by (rewrite EA; apply sqrt8_lam; lra).
  assert (SB : sqrt (8 / gV A) = LA * s) by (rewrite EB; apply sqrt8_lam; lra).
  unfold vof, v50_of. rewrite SA, SB.
  assert (PA : 7 <= LA) by (apply Lu_lower; lra).
  assert (Pa : 7 <= La) by (apply Lu_lower; lra).
  pose proof (cosh_ge_1 (60 * d50 / Dp)) as C. set (c := cosh _) in *.
  (* |La - LA| <= 0.9 |ln Re_A - ln Re_a| = 0.45 |ln a - ln A| < 0.45 * 0.01 *)
  assert (LR : forall x, 0 < x -> ln (reof x) = ln Kc + / 2 * (ln 8 - ln x)).
  { intros x Hx. rewrite reof_eq. pose proof Kc_big. assert (0 < 8 / x) by (apply Rdiv_lt_0_compat; lra).
    rewrite ln_mult by (try lra; apply sqrt_lt_R0; lra). rewrite ln_sqrt by lra. rewrite ln_div by lra. lra. }
  assert (G : Rabs (La - LA) < 45 / 10000).
  { destruct (Rle_dec a A) as [O|O].
    - (* a <= A: Re_A <= Re_a *)
      pose proof (reof_mono a A ltac:(lra)) as M.
      pose proof (Lu_diff c1v (reof A) (reof a) c1v_range ltac:(lra)) as [G1 G2].
      rewrite (LR a), (LR A) in G2 by lra. pose proof (ln_diff A a ltac:(lra)) as [N1 N2].
      assert ((A - a) / a < 1 / 100).
      { apply (Rmult_lt_reg_r a); [lra|]. unfold Rdiv at 1. rewrite Rmult_assoc, Rinv_l by lra.
        apply Rabs_def2 in D. nra. }
      fold La LA in G1, G2. apply Rabs_def1; lra.
    - pose proof (reof_mono A a ltac:(lra)) as M.
      pose proof (Lu_diff c1v (reof a) (reof A) c1v_range ltac:(lra)) as [G1 G2].
      rewrite (LR a), (LR A) in G2 by lra. pose proof (ln_diff a A ltac:(lra)) as [N1 N2].
      assert ((a - A) / A < 1 / 100).
      { apply (Rmult_lt_reg_r A); [lra|]. unfold Rdiv at 1. rewrite Rmult_assoc, Rinv_l by lra.
        apply Rabs_def2 in D. nra. }
      fold La LA in G1, G2. apply Rabs_def1; lra. }
  assert (Pk : 0 < w50 * s * c) by (apply Rmult_lt_0_compat; [apply Rmult_lt_0_compat; lra|lra]).
  split; [replace (w50 * (LA * s) * c) with (LA * (w50 * s * c)) by ring; apply Rmult_lt_0_compat; lra|].
  replace (w50 * (La * s) * c - w50 * (LA * s) * c) with ((La - LA) * (w50 * s * c)) by ring.
  rewrite Rabs_mult, (Rabs_right (w50 * s * c)) by lra.
  replace (1 / 1000 * (w50 * (LA * s) * c)) with (1 / 1000 * LA * (w50 * s * c)) by ring.
  apply Rmult_le_compat_r; [lra|]. lra.
Qed.
End V50.

(* ---------- the statements for Wilson_V50.V50 on the envelope ---------- *)
Definition v50E (Dp d50 eps nu rhol rhos : R) : Prop :=
  1 / 10 <= Dp <= 12 / 10 /\ 0 < d50 /\ 45 / 1000000 <= eps <= 1 / 10000 /\ 8 / 10000000 <= nu <= 14 / 10000000 /\
  99 / 100 <= rhol <= 103 / 100 /\ 2 <= rhos <= 4.

Lemma bin_fhi : bin fhi = 360%Z.
Proof.
  unfold bin, Rtrunc, fhi. destruct (Rle_dec 0 (36 / 1000 * 10000)) as [_|N]; [|exfalso; apply N; lra].
  unfold Int_part. rewrite <- (tech_up (36 / 1000 * 10000) 361); [reflexivity|lra|lra].
Qed.

(* the correspondence runs the model with fuel 400 *)
Definition Nfuel : nat := 360.

Section Final.
Variables Dp d50 d85 eps nu rhol rhos : R.
Hypothesis HE : v50E Dp d50 eps nu rhol rhos.
Let w50 := WilsonV50.w RN d50 nu rhol rhos.

Lemma HE_w : 5 / 100 <= w50.
Proof. destruct HE as (_ & Hd & _ & Hn & Hl & Hs). apply w_lower; assumption. Qed.

Notation start_loop fuel :=
  (WilsonV50.V50_loop1 RN fuel w50 Dp d50 nu eps ff0 (v50_of w50 Dp d50 ff0)
     (Homogeneous.pipe_reynolds_number RN (v50_of w50 Dp d50 ff0) Dp nu)
     (Homogeneous.swamee_jain_ff RN (Homogeneous.pipe_reynolds_number RN (v50_of w50 Dp d50 ff0) Dp nu) Dp eps)).

(* the loop ends within 361 passes, on a pair (ff, lambda(ff)) sharing its first four digits *)
Theorem V50_terminates fuel : (Nfuel < fuel)%nat ->
  exists a, start_loop fuel = Some (a, vof w50 Dp d50 a, reof w50 Dp d50 nu a, gV w50 Dp d50 nu eps a) /\
            1 / 100 <= a <= fhi /\ bin (gV w50 Dp d50 nu eps a) = bin a.
Proof.
  intro Hf. destruct HE as (HD & Hd & He & Hn & Hl & Hs).
  apply (V50_loop_terminates w50 Dp d50 nu eps HE_w HD Hn He fuel). rewrite bin_fhi. exact Hf.
Qed.

(* with enough fuel the model's V50 is the value of the real (unfuelled) loop: more fuel changes nothing *)
Theorem V50_fuel_independent f1 f2 : (Nfuel < f1)%nat -> (Nfuel < f2)%nat ->
  WilsonV50.V50 RN f1 Dp d50 d85 eps nu rhol rhos = WilsonV50.V50 RN f2 Dp d50 d85 eps nu rhol rhos.
Proof.
  intros H1 H2. destruct HE as (HD & Hd & He & Hn & Hl & Hs).
  assert (K : forall f, (Nfuel < f)%nat -> loop (gV w50 Dp d50 nu eps) f ff0 (gV w50 Dp d50 nu eps ff0) =
                                       loop (gV w50 Dp d50 nu eps) (S Nfuel) ff0 (gV w50 Dp d50 nu eps ff0)).
  { intros f Hf. assert (R0 : flo <= ff0 <= fhi) by (unfold flo, ff0, fhi; lra).
    destruct (loop_terminates (gV w50 Dp d50 nu eps) flo fhi ltac:(unfold flo; lra)
                (gV_range w50 Dp d50 nu eps HE_w HD Hn He) (gV_mono w50 Dp d50 nu eps HE_w HD Hn He) ff0 (S Nfuel) R0) as (a & E & _).
    { rewrite bin_fhi. unfold Nfuel. lia. }
    rewrite E. apply (loop_more _ _ _ _ _ E). lia. }
  unfold WilsonV50.V50. cbv zeta. toR. fold w50.
  change (w50 * sqrt (8 / (12 / 1000)) * cosh (60 * d50 / Dp)) with (vof w50 Dp d50 ff0).
  change (Homogeneous.pipe_reynolds_number RN (vof w50 Dp d50 ff0) Dp nu) with (reof w50 Dp d50 nu ff0).
  change (Homogeneous.swamee_jain_ff RN (reof w50 Dp d50 nu ff0) Dp eps) with (gV w50 Dp d50 nu eps ff0).
  change (12 / 1000) with ff0.
  rewrite !loop_sim, (K f1 H1), (K f2 H2). reflexivity.
Qed.

(* the returned V50 satisfies V = w sqrt(8 / lambda(Re(V))) cosh(60 d50 / Dp) within 0.1 % *)
Theorem V50_equation fuel : (Nfuel < fuel)%nat ->
  let V := WilsonV50.V50 RN fuel Dp d50 d85 eps nu rhol rhos in
  let F := w50 * sqrt (8 / Homogeneous.swamee_jain_ff RN (Homogeneous.pipe_reynolds_number RN V Dp nu) Dp eps) * cosh (60 * d50 / Dp) in
  0 < V /\ 0 < F /\ Rabs (V - F) <= 1 / 1000 * F.
Proof.
  intro Hf. destruct (V50_terminates fuel Hf) as (a & E & Ra & Hb). destruct HE as (HD & Hd & He & Hn & Hl & Hs).
  assert (EV : WilsonV50.V50 RN fuel Dp d50 d85 eps nu rhol rhos = vof w50 Dp d50 (gV w50 Dp d50 nu eps a)).
  { unfold WilsonV50.V50. cbv zeta. toR. fold w50. unfold ff0, v50_of in E. toR_in E. rewrite E. reflexivity. }
  cbv zeta. rewrite EV.
  destruct (V50_exit_accuracy w50 Dp d50 nu eps HE_w HD Hn He a Ra Hb) as (PF & ACC).
  pose proof (gV_range w50 Dp d50 nu eps HE_w HD Hn He a Ra) as [G1 G2]. unfold flo in G1.
  split; [|split; [exact PF|exact ACC]].
  unfold vof, v50_of. pose proof HE_w. pose proof (cosh_ge_1 (60 * d50 / Dp)).
  assert (0 < sqrt (8 / gV w50 Dp d50 nu eps a)) by (apply sqrt_lt_R0; apply Rdiv_lt_0_compat; lra).
  apply Rmult_lt_0_compat; [apply Rmult_lt_0_compat; lra|lra].
Qed.
End Final.
