#!/venv/bin/python
"""corr_pipeline.py: correspondence of Models/Pipeline.v with PipeObj.Pipeline.calc_system_head, hydraulic_gradient
and the aggregate properties.  Slurry.im / Slurry.il / Pump.point / Pipeline.qimin are replaced on BOTH sides by the
same cheap closed forms, so the accumulation logic is compared in isolation, bit for bit."""
import argparse
import random
import sys

from common import Driver, Stats, check_repo_import, hx, py_outcome, seed, write_json
from corr_slurry import compare
import pipeline_gen as pg


def main():
    ap = argparse.ArgumentParser()
    ap.add_argument('--out', required=True)
    ap.add_argument('--n', type=int, default=200)
    a = ap.parse_args()
    check_repo_import()
    from DHLLDV import PipeObj, PumpObj, SlurryObj
    import ExamplePumps
    rng = random.Random(seed())
    st = Stats()
    st.ulp = 0
    # patch the oracles
    orig = (SlurryObj.Slurry.im, SlurryObj.Slurry.il, PumpObj.Pump.point, PipeObj.Pipeline.qimin)
    SlurryObj.Slurry.im = lambda self, v: pg.synthetic_im(self.Dp, v)
    SlurryObj.Slurry.il = lambda self, v: pg.synthetic_il(self.Dp, v)
    PumpObj.Pump.point = lambda self, Q, water=False: (Q, pg.synthetic_point(self._vid, Q, water, self.slurry.rhol, self.slurry.rhom), 0.0, 1.0)
    QIMIN = 0.37
    PipeObj.Pipeline.qimin = lambda self, flow_list, precision=0.02: QIMIN
    reqs, expect = [], []
    dist = {}
    try:
        for i in range(a.n):
            secs = pg.gen_sections(rng)
            s = SlurryObj.Slurry(Dp=secs[-1][1], D50=rng.choice([0.3e-3, 1e-3]), Cv=rng.uniform(0.05, 0.4), max_index=5)
            pl = pg.build_real(secs, s, PipeObj, PumpObj, ExamplePumps.Ladder_Pump)
            rhol, rhom = s.rhol, s.rhom
            base = [hx(QIMIN), hx(rhol), hx(rhom)] + pg.encode_sections(secs)
            vq = rng.uniform(0.5, 8.0)
            Q = PipeObj.Pipe(diameter=secs[-1][1]).flow(vq)
            o = py_outcome(pl.calc_system_head, Q)
            reqs.append(('Pipeline.head', base + [hx(Q)]))
            expect.append(('head', {'sections': secs, 'Q': Q, 'rhol': rhol, 'rhom': rhom}, o if o[0] == 'err' else ('ok', [float(x) for x in o[1]])))
            for q in (Q, 0.0, -1.0):
                o = py_outcome(pl.hydraulic_gradient, q)
                reqs.append(('Pipeline.hg', base + [hx(q)]))
                enc = o if o[0] == 'err' else ('ok', ['@loc', str(len(o[1][0]))] + [float(x) for x in o[1][0]] +
                                                      ['@head', str(len(o[1][1]))] + [float(x) for x in o[1][1]] +
                                                      ['@elev', str(len(o[1][2]))] + [float(x) for x in o[1][2]])
                expect.append(('hg', {'sections': secs, 'Q': q}, enc))
            o = py_outcome(lambda: [float(pl.total_length), float(pl.total_K), float(pl.total_lift), str(pl.num_pipesections), str(pl.num_pumps)])
            reqs.append(('Pipeline.totals', base + [hx(Q)]))
            expect.append(('totals', {'sections': secs}, o))
            k = f"{len(secs)} sections, {sum(1 for x in secs if x[0] == 'U')} pumps, entrance={secs[0][2] == 0.0}"
            dist[k] = dist.get(k, 0) + 1
    finally:
        SlurryObj.Slurry.im, SlurryObj.Slurry.il, PumpObj.Pump.point, PipeObj.Pipeline.qimin = orig
    replies = Driver().batch(reqs)
    for (kind, inp, o), rep in zip(expect, replies):
        st.evaluations += 1
        key = repr((kind, inp))
        st.distinct.add(key)
        if o[0] == 'err':
            st.err_kinds[o[1]] = st.err_kinds.get(o[1], 0) + 1
            if rep[0] == 'err':
                st.agree_err += 1
            else:
                st.disagree.append({'kind': kind, 'input': inp, 'python': o, 'model': rep[1][:8]})
            continue
        if rep[0] != 'ok':
            st.disagree.append({'kind': kind, 'input': inp, 'python': 'ok', 'model': rep})
            continue
        c = compare(o[1], rep[1])
        if c == 'exact':
            st.agree += 1
            st.nontrivial.add(key)
        elif c == 'ulp':
            st.ulp += 1
            st.nontrivial.add(key)
        else:
            st.disagree.append({'kind': kind, 'input': inp, 'python': [x.hex() if isinstance(x, float) else x for x in o[1]][:16], 'model': rep[1][:16]})
        if len(st.samples) < 3 and st.evaluations % 101 == 1:
            st.samples.append({'kind': kind, 'input': inp})
    res = {'ok': not st.disagree, 'evaluations': st.evaluations, 'agree_bit_exact': st.agree, 'agree_on_error': st.agree_err,
           'ulp_level_differences': st.ulp, 'distinct': len(st.distinct), 'distinct_nontrivial': len(st.nontrivial),
           'disagreements': st.disagree[:8], 'n_disagreements': len(st.disagree), 'error_kinds': st.err_kinds,
           'distribution': dist, 'samples': st.samples, 'seed': seed(), 'wall_s': st.wall()}
    write_json(a.out, res)
    print(f"corr_pipeline: {st.evaluations} evaluations, {st.agree} bit-exact, {st.ulp} ulp-level, {st.agree_err} agree-on-error, {len(st.disagree)} disagreements")
    sys.exit(0 if not st.disagree else 1)


if __name__ == '__main__':
    main()
