#!/venv/bin/python
"""mutants.py [--verif DIR] [--only ID,...]: small hand-written property-breaking edits of the repository, each applied
in a scratch worktree, run through the baseline tests and through the check of the property it targets.

Complements the independently seeded changes under seeded/: these are single-token edits of the kind a refactoring
slip produces (a flipped comparison, a dropped factor, swapped arguments, an off-by-one).  Output: one line per mutant
-- tests (passed count), check result (VIOLATION / held), what broke.  Results are written to seeded/MUTANTS.md.

A mutant that the tests already catch is still run (it shows the check agrees), but is marked 'tests-fail'."""
import argparse
import json
import os
import re
import subprocess
import sys
import time

M = [
    # (id, property, file, old, new, what)
    ('m01', 'C01', 'src/DHLLDV/DHLLDV_framework.py', "if Erhg_obj['FB'] < Erhg_obj['SB']:", "if Erhg_obj['FB'] <= Erhg_obj['SB'] * 1.02:",
     'FB/SB comparison with a 2 % bias'),
    ('m02', 'C01', 'src/DHLLDV/DHLLDV_framework.py', "if Erhg_obj[regime] < Erhg_obj['Ho']:", "if Erhg_obj[regime] < 0.98 * Erhg_obj['Ho']:",
     'homogeneous floor applied only below 98 %'),
    ('m03', 'C03', 'src/DHLLDV/heterogeneous.py', "return heterogeneous_head_loss(vls, Dp,  d, epsilon, nu, rhol, rhos, Cvs, use_sf, use_sqrtcx)*gravity*rhol",
     "return heterogeneous_head_loss(vls, Dp,  d, epsilon, nu, rhol, rhos, Cvs, use_sf, use_sqrtcx)*gravity", 'rhol dropped from a pressure loss'),
    ('m04', 'C04', 'src/DHLLDV/heterogeneous.py', "return vt*(1-Cvs)**beta", "return vt*(1-Cvs)**-beta", 'sign of the Richardson-Zaki exponent'),
    ('m05', 'C04', 'src/DHLLDV/homogeneous.py', "if not use_sf or f < 1:", "if not use_sf or f < 1.2:", 'sliding-flow onset moved to f = 1.2 (jump)'),
    ('m06', 'C05', 'src/DHLLDV/DHLLDV_framework.py', "Xi_SBHeHo = max(Xi_SBHeHo, Xi_3LM)", "Xi_SBHeHo = min(Xi_SBHeHo, Xi_3LM)", 'floor of the slip ratio turned into a cap'),
    ('m07', 'C06', 'src/DHLLDV/DHLLDV_framework.py', "def LDV(vls, Dp,  d, epsilon, nu, rhol, rhos, Cvs, max_steps=10):", "def LDV(vls, Dp,  d, epsilon, nu, rhol, rhos, Cvs, max_steps=3):",
     'LDV iteration budget 10 -> 3'),
    ('m08', 'C07', 'src/DHLLDV/SlurryObj.py', None, None, 'Cv setter stops marking the curves dirty'),
    ('m09', 'C09', 'src/DHLLDV/PipeObj.py', None, None, 'fitting loss of the slurry uses the liquid density'),
    ('m10', 'C11', 'src/DHLLDV/PumpObj.py', None, None, 'power scaled with the square of the speed ratio'),
    ('m11', 'C12', 'src/DHLLDV/DHLLDV_framework.py', None, None, 'one interpolated point too many per interval'),
    ('m12', 'C13', 'src/DHLLDV/stratified.py', None, None, 'convergence tolerance of vls_FBSB loosened 100x'),
    ('m13', 'C14', 'src/DHLLDV/PipeObj.py', None, None, 'hydraulic-gradient lists in different orders'),
    ('m14', 'C15', 'DHLLDV_viewer/store_pump_excel.py', "valid_filename_chars = f'-_{string.ascii_letters}{string.digits}'", "valid_filename_chars = f'-_.{string.ascii_letters}{string.digits}'",
     'dots allowed in stored file names'),
    ('m15', 'C16', 'DHLLDV_viewer/load_pump_excel.py', None, None, 'a validator branch removed'),
    ('m16', 'C18', 'src/DHLLDV/DHLLDV_Utils.py', None, None, '< for <= in the upper tolerance test'),
    ('m17', 'C19', 'src/DHLLDV/stratified.py', "O1 = (pi - B) * Dp  # Eqn 8.4-2", "O1 = (pi - B) * Dp / 2", 'upper perimeter halved'),
    ('m18', 'C20', 'src/Wilson/Wilson_V50.py', None, None, 'grading exponent clamp 1.7 -> 2.0'),
    ('m19', 'C17', 'DHLLDV_viewer/main.py', "slurry.Cv = check_value(Cv_input, 0.01, 0.5, slurry.Cv, '0.3f')", "slurry.Cv = check_value(Cv_input, 0.01, 0.55, slurry.Cv, '0.3f')",
     'Cv box accepts up to 0.55'),
    ('m20', 'C17', 'DHLLDV_viewer/main.py', "    update_value_wo_callback(rhos_input, f\"{slurry.rhos:0.3f}\", 'value', update_rhos)\n", "", 'rhos box no longer refreshed'),
    ('m21', 'C02', 'src/DHLLDV/heterogeneous.py', "max(1 - Cvs / KC, 0)", "(1 - Cvs / KC)", 'hindered-settling guard removed again'),
    ('m22', 'C08', 'src/DHLLDV/DHLLDV_framework.py', None, None, 'lru_cache put back on Cvt_Erhg'),
    ('m23', 'C10', 'src/DHLLDV/PipeObj.py', None, None, 'operating point search started left of qimin'),
    ('m24', 'C03', 'src/DHLLDV/SlurryObj.py', None, None, 'one im curve built from the wrong Erhg key'),
    # ---- second batch ----
    ('m25', 'C01', 'src/DHLLDV/DHLLDV_framework.py', "            'SB': 'sliding bed',", "            'SB': 'heterogeneous',", 'regime name of SB reported as heterogeneous'),
    ('m26', 'C19', 'src/DHLLDV/stratified.py', "    A2 = Ap * Arel      # Eqn 8.4-6", "    A2 = Ap * Cvs      # Eqn 8.4-6", 'bed area from Cvs instead of Cvs/Cvb'),
    ('m27', 'C06', 'src/DHLLDV/DHLLDV_framework.py', "    FL = max(FL_ul, FL_ll)  # Eqn 8.11-13", "    FL = max(FL_ul, FL_ll) * (1 + 1e-4 * vls)  # Eqn 8.11-13", 'LDV depends (slightly) on its dummy argument'),
    ('m28', 'C16', 'DHLLDV_viewer/load_pump_excel.py', "        if fields['required'] and len(present) != 1:", "        if fields['required'] and len(present) < 1:", 'duplicated required sheets accepted'),
    ('m29', 'C03', 'src/DHLLDV/DHLLDV_framework.py', "    im_x = sum(f * imxi for f, imxi in zip(frac_list, ims)) / (1-X)", "    im_x = sum(f * imxi for f, imxi in zip(frac_list, ims))", 'graded im no longer divided by (1 - X)'),
    ('m30', 'C05', 'src/DHLLDV/DHLLDV_framework.py', '        if Erhg_obj["SB"] < Erhg_obj["He"]:', '        if Erhg_obj["SB"] > Erhg_obj["He"]:', 'FB remap picks the larger of SB and He'),
    ('m31', 'C10', 'src/DHLLDV/PipeObj.py', "        if imins[0] > imins[3]:\n            raise OperatingPointError('PipeObj.Pipeline.find_operating_point: Pump curve below system curve at qimin')",
     "        if imins[0] > imins[3]:\n            return qimin", 'qimin returned instead of OperatingPointError'),
    ('m32', 'C07', 'src/DHLLDV/SlurryObj.py', None, None, 'fluid setter stops marking the grading dirty'),
    ('m33', 'C20', 'src/Wilson/Wilson_Stratified.py', "    return min(Vs, Vsmx)", "    return Vs", 'Wilson deposit velocity no longer capped by its maximum'),
    ('m34', 'C17', 'DHLLDV_viewer/main.py', "            slurry.Dp * 1000 * 0.25:\n        slurry.D50 += delta / 1000", "            slurry.Dp * 1000 * 0.30:\n        slurry.D50 += delta / 1000", 'D50 up/down allowed to 0.30 Dp'),
    ('m35', 'C09', 'src/DHLLDV/PipeObj.py', "        Htot_m = Hfric_m + Hfit_m + Hz_m + Hv * self.slurry.rhom", "        Htot_m = Hfric_m + Hfit_m + Hz_m", 'exit velocity head dropped from the slurry system head'),
    ('m36', 'C14', 'src/DHLLDV/PipeObj.py', None, None, 'hydraulic gradient at Q <= 0 no longer uses qimin'),
    ('m37', 'C12', 'src/DHLLDV/DHLLDV_framework.py', "    fthis = min(fnext + frac_size, 0.999)", "    fthis = min(fnext + frac_size, 1.0)", 'top fraction allowed to reach 1.0'),
    ('m38', 'C13', 'src/DHLLDV/stratified.py', None, None, 'vls_FBSB starts from 0.2 m/s'),
    ('m39', 'C11', 'src/DHLLDV/PumpObj.py', "        Q0 = Q / (speed_ratio * impeller_ratio ** 2)  # Use affinity law for trimmed impeller, WACS 3rd Edition page 207", "        Q0 = Q / (speed_ratio * impeller_ratio)  # Use affinity law", 'impeller trim exponent 2 -> 1 in power_required'),
    ('m40', 'C15', 'DHLLDV_viewer/store_pump_excel.py', "            value = slurry.get_dx(float(range_name[2:])/100)*1000", "            value = slurry.get_dx(float(range_name[2:])/100)*1000 if range_name != 'd_85' else slurry.get_dx(0.84)*1000", 'D85 stored from the 84 % diameter'),
    ('m41', 'C18', 'src/DHLLDV/DHLLDV_Utils.py', None, None, 'interior interpolation uses the wrong upper neighbour'),
    ('m42', 'C02', 'src/DHLLDV/DHLLDV_framework.py', "    if vls == 0.0:\n        vls = 0.01", "    if vls == 0.0:\n        vls = 0.0", 'zero line speed no longer replaced in slip_ratio'),
    ('m43', 'C04', 'src/DHLLDV/heterogeneous.py', None, None, 'sqrtcx small-factor breakpoint 1.8 -> 1.6 on one side only'),
    ('m44', 'C08', 'src/DHLLDV/DHLLDV_framework.py', None, None, 'lru_cache put on Cvs_Erhg (switch-blind, aliased dict)'),
    ('m45', 'C10', 'src/DHLLDV/PipeObj.py', "            if result.converged and result.root >= qimin:", "            if result.converged:", 'a converged secant root left of qimin accepted again'),
    ('m46', 'C10', 'src/DHLLDV/PipeObj.py', "        except IndexError:\n            pass    # the unbracketed search", "        except KeyError:\n            pass    # the unbracketed search", 'IndexError of a wandering secant search escapes again'),
    ('m47', 'C10', 'src/DHLLDV/PipeObj.py', "            if head_tab < result.fun:", "            if head_tab > result.fun:", 'qimin: comparison with the best tabulated flow inverted'),
    ('m48', 'C10', 'src/DHLLDV/PipeObj.py', "        if root is None and _head_gap(flow_list[-1]) > 0:", "        if root is None and _head_gap(flow_list[-1]) < 0:", 'bracketed fallback asked on the wrong sign'),
]


def sh(cmd, **kw):
    return subprocess.run(cmd, shell=True, capture_output=True, text=True, **kw)


def find_edit(mid, path):
    """edits located by pattern rather than by exact text (robust to layout)"""
    s = open(path).read()
    if mid == 'm08':
        m = re.search(r"(@Cv\.setter\s+def Cv\(self, c\):\s+)self\.curves_dirty = True\n\s+", s)
        return (s[:m.start()] + m.group(1) + s[m.end():]) if m else None
    if mid == 'm09':
        m = re.search(r"Hfit_m \+= (.*)\n", s)
        if not m or 'rhom' not in m.group(1):
            return None
        return s[:m.start()] + "Hfit_m += " + m.group(1).replace('self.slurry.rhom', 'self.slurry.rhol').replace('rhom', 'rhol') + "\n" + s[m.end():]
    if mid == 'm10':
        m = re.search(r"speed_ratio\s*\*\*\s*3", s)
        return s[:m.start()] + "speed_ratio**2" + s[m.end():] if m else None
    if mid == 'm11':
        m = re.search(r"between_points = (max\([^\n#]*\))", s)
        return s[:m.start()] + "between_points = " + m.group(1) + " + 1" + s[m.end():] if m else None
    if mid == 'm12':
        m = re.search(r"def vls_FBSB\(([^)]*)e=([0-9.e/*musf-]+)", s)
        if not m:
            return None
        return s[:m.start(2)] + "(" + m.group(2) + ")*100" + s[m.end(2):]
    if mid == 'm13':
        m = re.search(r"\n(\s+)(loc_list|locs|x_list)\.reverse\(\)\n", s)
        return s[:m.start()] + "\n" + s[m.end():] if m else None
    if mid == 'm15':
        m = re.search(r"if not isinstance\(value, field_type\) and \(field_type == float and not isinstance\(value, int\)\):", s)
        return s[:m.start()] + "if False:" + s[m.end():] if m else None
    if mid == 'm16':
        m = re.search(r"key <= (max\(self\.keys\(\)\)|self\._sorted_keys\[-1\]|[a-z_\[\]\-1.()]+) ?\* ?\(1 ?\+ ?self\.tolerance\)", s)
        return s[:m.start()] + m.group(0).replace('key <=', 'key <', 1) + s[m.end():] if m else None
    if mid == 'm18':
        m = re.search(r"min\(1\.7, _M\)", s)
        return s[:m.start()] + "min(2.0, _M)" + s[m.end():] if m else None
    if mid == 'm22':
        m = re.search(r"\ndef Cvt_Erhg\(", s)
        return s[:m.start()] + "\n@functools.lru_cache(maxsize=200)" + s[m.start():] if m else None
    if mid == 'm23':
        m = re.search(r"x0=([A-Za-z_]+),", s)
        return s[:m.start()] + "x0=" + m.group(1) + "*0.5," + s[m.end():] if m else None
    if mid == 'm32':
        m = re.search(r"(@fluid\.setter\s+def fluid\(self, fluid\):\n(?:.*\n)*?)\s+self\.GSD_curves_dirty = True[^\n]*\n", s)
        return (s[:m.start()] + m.group(1) + s[m.end():]) if m else None
    if mid == 'm36':
        m = re.search(r"            Q = self\.qimin\(flow_list\)\n        temp_pl", s)
        return (s[:m.start()] + "            Q = flow_list[0]\n        temp_pl" + s[m.end():]) if m else None
    if mid == 'm38':
        m = re.search(r"\n(\s+)vls_fb = 1\b[^\n]*\n", s)
        return (s[:m.start()] + "\n" + m.group(1) + "vls_fb = 0.2\n" + s[m.end():]) if m else None
    if mid == 'm41':
        m = re.search(r"                x2 = keys\[index\]\n", s)
        return None if not m else (s[:m.start()] + "                x2 = keys[min(index + 1, len(keys) - 1)]\n" + s[m.end():])
    if mid == 'm43':
        m = re.search(r"gibert = small_factor \* \(gibert / small_factor\) \*\* 0\.75", s)
        return (s[:m.start()] + "gibert = 1.6 * (gibert / 1.6) ** 0.75" + s[m.end():]) if m else None
    if mid == 'm44':
        m = re.search(r"\ndef Cvs_Erhg\(", s)
        return s[:m.start()] + "\n@functools.lru_cache(maxsize=200)" + s[m.start():] if m else None
    if mid == 'm24':
        m = re.search(r"'Cvt_im': \[c\['Cvt_Erhg'\]", s)
        return s[:m.start()] + "'Cvt_im': [c['Cvs_Erhg']" + s[m.end():] if m else None
    return None


def main():
    ap = argparse.ArgumentParser()
    ap.add_argument('--verif', default=os.path.dirname(os.path.dirname(os.path.dirname(os.path.abspath(__file__)))))
    ap.add_argument('--only', default='')
    ap.add_argument('--out', default=None)
    a = ap.parse_args()
    only = set(filter(None, a.only.split(',')))
    rows = []
    for mid, pid, rel, old, new, what in M:
        if only and mid not in only:
            continue
        wt = f'/tmp/wt-mut-{mid}-{os.getpid()}'
        if sh(f'git -C /repo worktree add -q {wt} HEAD').returncode:
            print(mid, 'worktree failed')
            continue
        try:
            path = os.path.join(wt, rel)
            src = open(path).read()
            if old is not None:
                if old not in src:
                    rows.append((mid, pid, what, 'edit-not-applicable', '', '', 0))
                    print(f'[{mid} {pid}] edit not applicable: {what}')
                    continue
                out = src.replace(old, new, 1)
            else:
                out = find_edit(mid, path)
                if out is None or out == src:
                    rows.append((mid, pid, what, 'edit-not-applicable', '', '', 0))
                    print(f'[{mid} {pid}] edit not applicable: {what}')
                    continue
            open(path, 'w').write(out)
            t = sh(f'cd {wt} && PYTHONPATH={wt}/src:{wt}/DHLLDV_viewer /venv/bin/python -m pytest -q -p no:cacheprovider --timeout=900 '
                   f'--continue-on-collection-errors 2>&1 | tail -1').stdout.strip()
            m = re.search(r'(\d+) passed', t)
            passed = int(m.group(1)) if m else 0
            t0 = time.time()
            env = dict(os.environ, VERIF_REPO=wt)
            evp = os.path.join(a.verif, 'evidence', pid + '.json')
            saved = open(evp).read() if os.path.exists(evp) else None
            r = subprocess.run([os.path.join(a.verif, 'check'), pid, '--tier', 'quick'], cwd=a.verif, env=env, capture_output=True, text=True)
            if saved is not None:
                open(evp, 'w').write(saved)
            line = next((ln for ln in r.stdout.splitlines() if ln.startswith('VIOLATION')), r.stdout.strip().splitlines()[-1] if r.stdout.strip() else '?')
            broke, key = '', ''
            mm = re.search(r'replay=(\S+)', line)
            if mm and os.path.exists(mm.group(1)):
                d = json.load(open(mm.group(1)))
                bl = [(b[0] if isinstance(b, (list, tuple)) else str(b)[:20]) for b in d.get('broken', [])] + \
                     [b.get('what', '?') for b in d.get('no_longer_checks', [])]
                broke = ', '.join(sorted(set(bl))) or 'search only'
                key = str((d.get('violation') or {}).get('key') or d.get('kind'))
            verdict = 'VIOLATION' if line.startswith('VIOLATION') else 'held'
            if 'no-failing-input-found' in line:
                verdict = 'VIOLATION (no failing input found)'
            rows.append((mid, pid, what, verdict, broke, key, passed))
            print(f'[{mid} {pid}] {verdict:10s} tests={passed} broke={broke} key={key} ({round(time.time() - t0)} s): {what}')
        finally:
            sh(f'git -C /repo worktree remove --force {wt}')
    # restore the generated model to /repo
    for g in ('gen.py', 'gen_deps.py', 'gen_files.py', 'gen_units.py', 'gen_pumps.py'):
        sh(f'/venv/bin/python {a.verif}/tools/translate/{g} /repo {a.verif}/coq/Gen')
    if a.out:
        with open(a.out, 'w') as f:
            f.write('# Hand-written single-edit mutants against their checks\n\n')
            f.write('| id | property | edit | baseline tests passed (of 122) | check | what no longer checked | failing input (key) |\n|---|---|---|---|---|---|---|\n')
            for mid, pid, what, verdict, broke, key, passed in rows:
                f.write(f'| {mid} | {pid} | {what} | {passed} | {verdict} | {broke} | `{key}` |\n')
    caught = sum(1 for r in rows if r[3].startswith('VIOLATION'))
    applicable = sum(1 for r in rows if r[3] != 'edit-not-applicable')
    print(f'{caught} of {applicable} applicable mutants reported as VIOLATION')


if __name__ == '__main__':
    main()
