(* Proofs for C06: the limit deposit velocity ignores its dummy line-speed argument and is positive. *)
From Coq Require Import Reals List Bool Lra.
From DHV Require Import NumOps RInst.
From DHV Require Constants Homogeneous Heterogeneous Stratified Framework.
Import Framework.
Local Open Scope R_scope.

(* the vls parameter is overwritten before it is ever read *)
Lemma dummy v v' Dp d eps nu rhol rhos Cvs n :
  LDV RN v Dp d eps nu rhol rhos Cvs n = LDV RN v' Dp d eps nu rhol rhos Cvs n.
Proof. reflexivity. Qed.

Lemma Rpower_gt0 x y : 0 < Rpower x y.
Proof. unfold Rpower. apply exp_pos. Qed.

(* loop 1 (very small particles): the Durand factor it returns is positive *)
Lemma loop1_FL_pos : forall fuel Dp nu eps fbot Rsd vls Re lam FL v,
  0 < fbot -> 0 < FL ->
  0 < (let '(_, _, _, FL', _) := LDV_loop1 RN fuel Dp nu eps fbot Rsd vls Re lam FL v in FL').
Proof.
  induction fuel as [|fuel IH]; intros Dp nu eps fbot Rsd vls Re lam FL v Hf HFL.
  - cbn [LDV_loop1]. cbv zeta. exact HFL.
  - cbn [LDV_loop1]. cbv zeta. match goal with |- context [if ?c then _ else _] => destruct c end; [|exact HFL]. apply IH; [exact Hf|].
    toR. apply Rdiv_lt_0_compat; [|exact Hf].
    apply Rmult_lt_0_compat; [apply Rmult_lt_0_compat; [lra|apply Rpower_gt0]|apply Rpower_gt0].
Qed.

(* loop 3 (large particles) *)
Lemma loop3_FL_pos : forall fuel Dp nu eps alphap Cvr Cvs beta KC fbot vls Re lam FL v,
  0 < alphap -> 0 < FL ->
  0 < (let '(_, _, _, FL', _) := LDV_loop3 RN fuel Dp nu eps alphap Cvr Cvs beta KC fbot vls Re lam FL v in FL').
Proof.
  induction fuel as [|fuel IH]; intros Dp nu eps alphap Cvr Cvs beta KC fbot vls Re lam FL v Ha HFL.
  - cbn [LDV_loop3]. cbv zeta. exact HFL.
  - cbn [LDV_loop3]. cbv zeta. match goal with |- context [if ?c then _ else _] => destruct c end; [|exact HFL]. apply IH; [exact Ha|].
    toR. apply Rmult_lt_0_compat; [exact Ha|apply Rpower_gt0].
Qed.

Lemma blend_pos s r e : 0 < s -> 0 < r -> 0 < e <= 1 -> 0 < s * e + r * (1 - e).
Proof. intros. assert (0 < s * e) by (apply Rmult_lt_0_compat; lra). assert (0 <= r * (1 - e)) by (apply Rmult_le_pos; lra). lra. Qed.

(* LDV = max(FL_ul, FL_ll) * fbot with fbot a square root and FL_ul one of FL_r, FL_s, or a convex blend of both *)
Lemma positive v Dp d eps nu rhol rhos Cvs n : 0 <= d -> 0 < LDV RN v Dp d eps nu rhol rhos Cvs n.
Proof.
  intro Hd. unfold LDV. cbv zeta.
  (* name the four loop results *)
  match goal with |- context [LDV_loop1 RN n Dp nu eps ?fb ?rsd ?a ?b ?c ?fl ?e] =>
    pose proof (loop1_FL_pos n Dp nu eps fb rsd a b c fl e) as L1;
    assert (HFB : 0 < fb) by (toR; apply Rpower_gt0);
    assert (HFL0 : 0 < fl) by (toR; apply Rdiv_lt_0_compat; [|apply Rpower_gt0];
                               apply Rmult_lt_0_compat; [apply Rmult_lt_0_compat; [lra|apply Rpower_gt0]|apply Rpower_gt0]);
    specialize (L1 HFB HFL0); clear HFL0;
    remember (LDV_loop1 RN n Dp nu eps fb rsd a b c fl e) as R1 eqn:E1 in * end.
  destruct R1 as [[[[a1 b1] c1] FLvs] e1]. clear E1.
  match goal with |- context [LDV_loop2 RN n ?x1 ?x2 ?x3 ?x4 ?x5 ?x6 ?x7 ?x8 ?x9 ?x10 ?x11 ?x12 ?x13 ?x14] =>
    remember (LDV_loop2 RN n x1 x2 x3 x4 x5 x6 x7 x8 x9 x10 x11 x12 x13 x14) as R2 eqn:E2 in * end.
  destruct R2 as [[[[a2 b2] c2] FLss] e2]. clear E2.
  match goal with |- context [LDV_loop3 RN n ?x1 ?x2 ?x3 ?al ?x5 ?x6 ?x7 ?x8 ?x9 ?x10 ?x11 ?x12 ?fl ?x14] =>
    pose proof (loop3_FL_pos n x1 x2 x3 al x5 x6 x7 x8 x9 x10 x11 x12 fl x14) as L3;
    assert (HAL : 0 < al) by (toR; apply Rmult_lt_0_compat; [lra|apply Rpower_gt0]);
    assert (HFL0 : 0 < fl) by (toR; apply Rmult_lt_0_compat; [toR_in HAL; exact HAL|apply Rpower_gt0]);
    specialize (L3 HAL HFL0); clear HFL0;
    remember (LDV_loop3 RN n x1 x2 x3 al x5 x6 x7 x8 x9 x10 x11 x12 fl x14) as R3 eqn:E3 in * end.
  destruct R3 as [[[[a3 b3] c3] FLr] e3]. clear E3.
  match goal with |- context [LDV_loop4 RN n ?x1 ?x2 ?x3 ?x4 ?x5 ?x6 ?x7 ?x8 ?x9 ?x10 ?x11 ?x12 ?x13 ?x14 ?x15] =>
    remember (LDV_loop4 RN n x1 x2 x3 x4 x5 x6 x7 x8 x9 x10 x11 x12 x13 x14 x15) as R4 eqn:E4 in * end.
  destruct R4 as [[[[[[a4 b4] c4] A4] B4] C4] e4]. clear E4.
  rename L1 into P1. rename L3 into P3.
  toR. toR_in HFB. apply Rmult_lt_0_compat; [|exact HFB].
  eapply Rlt_le_trans; [|apply Rmax_l].
  cbv beta iota in P1, P3.
  assert (PS : 0 < Rmax FLvs FLss) by (eapply Rlt_le_trans; [exact P1|apply Rmax_l]).
  unfold Rltb, Rleb.
  destruct (Rlt_dec _ d); [exact P3|].
  destruct (Rle_dec (Rmax FLvs FLss) FLr); [exact PS|].
  apply blend_pos; [exact PS|exact P3|].
  split; [apply exp_pos|].
  apply Rle_trans with (exp 0); [|rewrite exp_0; lra].
  match goal with |- exp (?num / ?d0) <= _ => assert (HD0 : 0 < d0) by (apply Rmult_lt_0_compat; [lra|apply Rpower_gt0]); set (D0 := d0) in * end.
  assert (0 < / D0) by (apply Rinv_0_lt_compat; assumption).
  destruct (Req_EM_T d 0) as [->|Nd].
  - right. f_equal. unfold Rdiv. ring.
  - left. apply exp_increasing. unfold Rdiv. nra.
Qed.
