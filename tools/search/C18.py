#!/venv/bin/python
"""C18 failing-input search on the real interpDict: exact hit, straight-line interpolation between the
neighbouring keys, extension of the end segments only with extrapolation on or within the 0.1 % tolerance,
IndexError otherwise, item assignment refused; shipped water tables positive, viscosity decreasing."""
import math
import random
from scommon import Search, seed
from DHLLDV.DHLLDV_Utils import interpDict
from DHLLDV import DHLLDV_constants as K

S = Search('C18', 'random tables (2-12 keys, positive / negative / mixed / adjacent-float keys) x both flags x queries at, inside, '
                  'just outside (both sides of the tolerance) and far outside; shipped tables at nodes and on a 0.25 degree grid; '
                  'distinct = distinct (table, query)')
rng = random.Random(seed())


def line(x1, y1, x2, y2, k):
    return ((y2 - y1) / (x2 - x1)) * (k - x1) + y1


for i in range(S.budget):
    n = rng.randint(2, 12)
    sign = rng.choice(['pos', 'pos', 'any', 'neg'])
    keys = set()
    while len(keys) < n:
        x = rng.uniform(0.001, 100)
        keys.add(x if sign == 'pos' else (-x if sign == 'neg' else x - 50))
    keys = sorted(keys)
    vals = [rng.uniform(-10, 10) for _ in keys]
    xlo, xhi = rng.random() < 0.5, rng.random() < 0.5
    items = list(zip(keys, vals))
    rng.shuffle(items)
    d = interpDict(*items, extrapolate_low=xlo, extrapolate_high=xhi)
    where = {'keys': keys, 'vals': vals, 'xlo': xlo, 'xhi': xhi}
    lo, hi = keys[0], keys[-1]
    for k, v in zip(keys, vals):
        try:
            got_k = d[k]
        except Exception as e:      # a stored key must be found, whatever the extrapolation flags
            S.violation('C18:hit:raise', f'table[{k}] (a stored key) raised {type(e).__name__}: {e}', input=dict(where, q=k))
            continue
        if got_k != v:
            S.violation('C18:hit', f'table[{k}] = {got_k} but the stored value is {v}', input=dict(where, q=k))
    j = rng.randrange(n - 1)
    q = keys[j] + (keys[j + 1] - keys[j]) * rng.uniform(0.01, 0.99)
    if keys[j] < q < keys[j + 1]:
        want = line(keys[j], vals[j], keys[j + 1], vals[j + 1], q)
        try:
            got = d[q]
        except Exception as e:
            S.violation('C18:interior:raise', f'table[{q}] (between two stored keys) raised {type(e).__name__}: {e}', input=dict(where, q=q))
            continue
        if got != want and abs(got - want) > 1e-12 * max(abs(got), abs(want), 1e-300):
            S.violation('C18:interior', f'table[{q}] = {got}, straight line between neighbours gives {want}', input=where)
        if not (min(vals[j], vals[j + 1]) - 1e-9 <= got <= max(vals[j], vals[j + 1]) + 1e-9):
            S.violation('C18:interior-between', f'table[{q}] = {got} is not between the neighbouring values', input=where)
    for side, q, allowed in [
        ('high', hi + abs(hi) * 0.0005 + 0.0, xhi or (hi > 0)),
        ('high', hi * (1 + 0.001), xhi or (hi > 0)),                          # exactly ON the tolerance boundary: accepted
        ('high', math.nextafter(hi * (1 + 0.001), math.inf), xhi),             # one float beyond it
        ('low', lo * (1 - 0.001), xlo or (lo > 0)),
        ('low', math.nextafter(lo * (1 - 0.001), -math.inf), xlo),
        ('high', hi + abs(hi) * 0.002 + 1e-6, xhi),
        ('high', hi + 1000.0, xhi),
        ('low', lo - abs(lo) * 0.0005, xlo or (lo > 0)),
        ('low', lo - abs(lo) * 0.002 - 1e-6, xlo),
        ('low', lo - 1000.0, xlo),
    ]:
        if (side == 'high' and not q > hi) or (side == 'low' and not q < lo):
            continue
        if (side == 'high' and hi <= 0) or (side == 'low' and lo <= 0):
            # tolerance clause is stated for positive end keys only; with extrapolation on the segment must extend
            if not allowed:
                continue
        try:
            got = d[q]
            raised = False
        except IndexError:
            raised = True
        except Exception as e:
            S.violation('C18:exception', f'lookup raised {type(e).__name__}, not IndexError', input=dict(where, q=q))
            continue
        if allowed and raised:
            S.violation('C18:' + side, f'table[{q}] raised IndexError although extrapolation is on or the key is within 0.1 %', input=dict(where, q=q))
        elif not allowed and not raised:
            S.violation('C18:' + side, f'table[{q}] returned {got} although the key is out of range and extrapolation is off', input=dict(where, q=q))
        elif not raised:
            a, b = (n - 2, n - 1) if side == 'high' else (0, 1)
            want = line(keys[a], vals[a], keys[b], vals[b], q)
            if got != want and abs(got - want) > 1e-12 * max(abs(got), abs(want), 1e-300):
                S.violation('C18:' + side, f'table[{q}] = {got}, end segment extended gives {want}', input=dict(where, q=q))
    before = dict(d)
    try:
        d[keys[0]] = 1.0
        S.violation('C18:readonly', 'item assignment was accepted', input=where)
    except KeyError:
        if dict(d) != before:
            S.violation('C18:readonly', 'item assignment changed the table', input=where)
    S.count(repr(where), f'table:{sign}')
    if i == 0:
        S.sample(where)
for name in ('water_density', 'water_dynamic_viscosity', 'water_viscosity'):
    t = getattr(K, name)
    prev = None
    for q4 in range(0, 401):
        q = q4 / 4.0
        v = t[q]
        if not v > 0:
            S.violation('C18:shipped-positive', f'{name}[{q}] = {v} is not positive')
        if name == 'water_viscosity' and prev is not None and not v < prev:
            S.violation('C18:viscosity-decreasing', f'water_viscosity[{q}] = {v} is not below the value at {q - 0.25} ({prev})')
        prev = v
    S.count(name, 'shipped')
S.finish()
