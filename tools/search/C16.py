#!/venv/bin/python
"""C16 failing-input search on the real loader (fault enumeration): every single structural fault -- delete each sheet,
each defined name, each table column; duplicate each column; blank / stringify each numeric single-value cell; dangling
pump reference -- applied to the shipped example workbook and to workbooks produced by store_to_excel for generated
pipelines must raise InvalidExcelError; every well-formed workbook must load."""
import io
import os
import random
import shutil
import sys
import tempfile
import warnings
sys.path.insert(0, os.path.join(os.path.dirname(os.path.dirname(os.path.abspath(__file__))), 'harness'))
from scommon import Search, seed, REPO
import load_pump_excel as L
import store_pump_excel as St
import ExamplePumps
from DHLLDV import PipeObj, PumpObj, SlurryObj
from DHLLDV.DriverObj import Driver
from DHLLDV.DHLLDV_Utils import interpDict
import excel_gen as G
import excel_faults as F

S = Search('C16', 'exhaustive single faults (about 100-180 per workbook) on the shipped example and on stored generated pipelines; real files, '
                  'real openpyxl; distinct = distinct (workbook, fault)')
rng = random.Random(seed())
warnings.simplefilter('ignore')
mods = (PipeObj, PumpObj, SlurryObj, Driver, interpDict, ExamplePumps)
books = []
ex = os.path.join(REPO, 'DHLLDV_viewer', 'static', 'pipelines', 'Example_input.xlsx')
if os.path.exists(ex):
    books.append(('shipped example', open(ex, 'rb').read()))
build = os.path.join(os.path.dirname(os.path.dirname(os.path.dirname(os.path.abspath(__file__)))), 'build')
td = tempfile.mkdtemp(dir=build)
try:
    for i in range(max(1, S.budget // 150)):
        pl = G.gen_pipeline(rng, mods)
        fn = St.store_to_excel(pl, fname=f'c16_{i}', path=td)
        books.append((f'stored pipeline {i} ({len(pl.pipesections)} sections)', open(fn, 'rb').read()))
finally:
    shutil.rmtree(td, ignore_errors=True)
for label, data in books:
    o, d = F.outcome(F.reopen(data), L)
    if o != 'Ok':
        S.violation('C16:well-formed-rejected', f'{label}: the well-formed workbook does not load: {o} {d}', workbook=label)
        continue
    S.count((label, 'well-formed'), 'well-formed')
    for flabel, kind, fn in F.enumerate_faults(data, L.excel_requireds):
        wb = F.reopen(data)
        try:
            fn(wb)
        except Exception as e:
            S.count(None, 'fault-not-applicable')
            continue
        o, d = F.outcome(wb, L)
        if o == 'Ok':
            S.violation(f'C16:silent-load:{kind}', f'{label}: {flabel}: the malformed workbook loaded silently', workbook=label, fault=flabel)
        elif o != 'Invalid':
            S.violation(f'C16:foreign-exception:{kind}', f'{label}: {flabel}: raised {o[6:]} ({d}) instead of InvalidExcelError', workbook=label, fault=flabel)
        S.count((label, flabel), kind)
S.sample({'workbooks': [b[0] for b in books]})
S.finish()
