"""scommon.py: shared helpers for the failing-input searches (they run the REAL code)."""
import argparse
import os
import sys
import time

sys.path.insert(0, os.path.join(os.path.dirname(os.path.dirname(os.path.abspath(__file__))), 'harness'))
from common import *   # noqa: F401,F403  (sets sys.path to $VERIF_REPO/src first)
from common import check_repo_import, write_json, seed


class Search:
    def __init__(self, pid, rule):
        ap = argparse.ArgumentParser()
        ap.add_argument('--out', required=True)
        ap.add_argument('--budget', type=int, default=300)
        a = ap.parse_args()
        self.out, self.budget, self.pid, self.rule = a.out, a.budget, pid, rule
        self.t0 = time.time()
        self.violations = []
        self.evaluations = 0
        self.nontrivial = set()
        self.samples = []
        self.distribution = {}
        self.worst = {}
        check_repo_import()

    def count(self, key=None, bucket=None):
        self.evaluations += 1
        if key is not None:
            self.nontrivial.add(key)
        if bucket:
            self.distribution[bucket] = self.distribution.get(bucket, 0) + 1

    def violation(self, key, what, **detail):
        if len(self.violations) < 50:
            self.violations.append(dict(key=key, what=what, **detail))

    def sample(self, s):
        if len(self.samples) < 4:
            self.samples.append(s)

    def track_worst(self, name, value, where):
        if name not in self.worst or value > self.worst[name]['value']:
            self.worst[name] = {'value': value, 'where': where}

    def finish(self):
        write_json(self.out, {'property': self.pid, 'violations': self.violations, 'evaluations': self.evaluations,
                              'distinct_nontrivial': len(self.nontrivial), 'rule': self.rule,
                              'samples': self.samples, 'distribution': self.distribution, 'worst': self.worst,
                              'seed': seed(), 'wall_s': round(time.time() - self.t0, 2)})
        print(f'search {self.pid}: {self.evaluations} evaluations, {len(self.violations)} violations')
        sys.exit(1 if self.violations else 0)


def E_args(b, cv='Cv'):
    return (b['vls'], b['Dp'], b['d'], b['epsilon'], b['nu'], b['rhol'], b['rhos'], b[cv])


def raise_site(e):
    """(function name, source line) of the innermost frame of an exception -- identifies a call site"""
    import traceback
    tb = traceback.extract_tb(e.__traceback__)
    if not tb:
        return ('?', '?')
    fr = tb[-1]
    return (fr.name, (fr.line or '').strip())


def is_slip_pole(e):
    """the recorded finding: the exact zero of the denominator of Eqn 8.12-3 -- ZeroDivisionError raised by the
    assignment of Xi_fb inside DHLLDV_framework.slip_ratio, and by nothing else"""
    fn, line = raise_site(e)
    return isinstance(e, ZeroDivisionError) and fn == 'slip_ratio' and line.startswith('Xi_fb =')
