from .._core import Model


class FixedTicker(Model):
    pass
