"""behavioural double of bokeh for the verification of DHLLDV_viewer (see _core.py)"""
__version__ = '0-double'
