from .._core import FileInput
