(* Pipeline: hand-written executable model of PipeObj.Pipe / Pipeline.calc_system_head / hydraulic_gradient and
   the aggregate properties, with the slurry gradients and the pump heads as parameters (oracles):
     im d v, il d v : mixture / liquid gradient of the slurry copy kept for diameter d at velocity v
     point p Q w    : head of pump p at flow Q (w = true: water)
   Tied to the code by tools/harness/corr_pipeline.py, which substitutes the same cheap closed-form oracles on
   both sides (so the accumulation logic is compared in isolation, bit for bit) and, separately, the real ones.
   No proofs here. *)
From Coq Require Import ZArith List Bool.
From DHV Require Import NumOps.
From DHV Require Constants.
Import ListNotations.

Section Pipeline.
Context {T : Type} (N : NumOps T).

Inductive section : Type :=
| Pipe (diameter length total_K elev_change : T)
| PumpRef (id : nat).

Variable im : T -> T -> T.
Variable il : T -> T -> T.
Variable point : nat -> T -> bool -> T.
Variables rhol rhom : T.             (* self.slurry.rhol, self.slurry.rhom *)

(* Pipe.flow / Pipe.velocity *)
Definition flow (d v : T) : T := nmul N (nmul N v (npown N (ndiv N d (nint N 2%Z)) 2%nat)) (npi N).
Definition velocity (d Q : T) : T := ndiv N Q (nmul N (npown N (ndiv N d (nint N 2%Z)) 2%nat) (npi N)).

Record acc : Type := mkAcc {
  Hfit_m : T; Hfit_l : T; Hfric_m : T; Hfric_l : T; Hz_m : T; Hz_l : T; Hp_l : T; Hp_m : T;
  Hv : option T }.                  (* velocity head of the last pipe section seen *)

Definition step (Q : T) (a : acc) (s : section) : acc :=
  match s with
  | Pipe d len K dz =>
    let v := velocity d Q in
    let hv := ndiv N (npown N v 2%nat) (nmul N (nint N 2%Z) (Constants.gravity N)) in
    let fit_m := nadd N (Hfit_m a) (nmul N (nmul N K hv) rhom) in
    let fit_l := nadd N (Hfit_l a) (nmul N (nmul N K hv) rhol) in
    if nltb N (nint N 0%Z) len then
      mkAcc fit_m fit_l
            (nadd N (Hfric_m a) (nmul N (im d v) len)) (nadd N (Hfric_l a) (nmul N (il d v) len))
            (nadd N (Hz_m a) (nmul N dz rhom)) (nadd N (Hz_l a) (nmul N dz rhol))
            (Hp_l a) (Hp_m a) (Some hv)
    else mkAcc fit_m fit_l (Hfric_m a) (Hfric_l a) (Hz_m a) (Hz_l a) (Hp_l a) (Hp_m a) (Some hv)
  | PumpRef p =>
    mkAcc (Hfit_m a) (Hfit_l a) (Hfric_m a) (Hfric_l a) (Hz_m a) (Hz_l a)
          (nadd N (Hp_l a) (point p Q true)) (nadd N (Hp_m a) (point p Q false)) (Hv a)
  end.

(* suction submergence of a zero-length entrance *)
Definition initial (secs : list section) : acc :=
  let z := nint N 0%Z in
  let hz := match secs with
            | Pipe _ len _ dz :: _ => if neqb N len (nint N 0%Z) then nmul N dz rhol else z
            | _ => z
            end in
  mkAcc z z z z hz hz z z None.

(* (slurry system head, water system head, water pump head, slurry pump head) *)
Definition calc_system_head (secs : list section) (Q : T) : T * T * T * T :=
  let a := fold_left (step Q) secs (initial secs) in
  let hv := match Hv a with Some h => h | None => nfail N E_KeyError end in
  (nadd N (nadd N (nadd N (Hfric_m a) (Hfit_m a)) (Hz_m a)) (nmul N hv rhom),
   nadd N (nadd N (nadd N (Hfric_l a) (Hfit_l a)) (Hz_l a)) (nmul N hv rhol),
   Hp_l a, Hp_m a).

(* sum([p.length ...]) etc. over the pipe sections *)
Definition pipes_only (secs : list section) : list (T * T * T * T) :=
  flat_map (fun s => match s with Pipe d l k z => [(d, l, k, z)] | PumpRef _ => [] end) secs.
Definition total_length (secs : list section) : T := nsum N (map (fun q => snd (fst (fst q))) (pipes_only secs)).
Definition total_K (secs : list section) : T := nsum N (map (fun q => snd (fst q)) (pipes_only secs)).
Definition total_lift (secs : list section) : T := nsum N (map (fun q => snd q) (pipes_only secs)).
Definition num_pipesections (secs : list section) : nat := length (pipes_only secs).
Definition num_pumps (secs : list section) : nat := length secs - length (pipes_only secs).

(* hydraulic_gradient: for every non-empty prefix of the section list, (location, slurry head, elevation);
   then the inlet point; Q <= 0 means "at the minimum-friction flow" (qimin: oracle) *)
Fixpoint prefixes {A} (l : list A) : list (list A) :=
  match l with
  | [] => []
  | x :: r => [x] :: map (cons x) (prefixes r)
  end.

Definition hydraulic_gradient (qimin : T) (secs : list section) (Q : T) : list T * list T * list T :=
  let Q := if nleb N Q (nint N 0%Z) then qimin else Q in
  let ps := prefixes secs in
  let locs := map total_length ps in
  let elevs := map total_lift ps in
  let heads := map (fun p => let '(hm, _, _, hpm) := calc_system_head p Q in nsub N hpm hm) ps in
  match elevs with
  | e0 :: _ =>
    (nint N 0%Z :: locs,
     nmul N (nmul N e0 rhol) (nneg N (nint N 1%Z)) :: heads,
     e0 :: elevs)
  | [] => ([], [], [])
  end.

End Pipeline.
