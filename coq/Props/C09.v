(* C09 -- the pipeline system head is the sum of its parts and uses the current slurry.
   Statements only; proofs in Lemmas/LC09.v, LC09b.v.  Models: Pipeline.v (gradients and pump heads as parameters)
   and PipelineSlurry.v (the per-diameter slurry objects), hand-written, run against PipeObj.Pipeline. *)
From Coq Require Import Reals List Bool Permutation.
From DHV Require Import NumOps RInst Fracs SlurryCalc SlurryState Pipeline PipelineSlurry LC07 LC09 LC09b.
Import ListNotations.
Local Open Scope R_scope.

(* the four heads, for slurry and for water: sum over sections of gradient x length (positive-length sections),
   fitting losses K v^2/2g x density, static lift x density (positive-length sections), the suction submergence of
   a zero-length entrance, the exit velocity head; pump head = sum of the pumps' heads.  Tuple order:
   (slurry system, water system, water pumps, slurry pumps). *)
Theorem C09_sum : forall (im il : R -> R -> R) (point : nat -> R -> bool -> R) (rhol rhom : R)
                         (secs : list (section (T:=R))) (Q h : R),
  last_hv Q secs None = Some h ->
  calc_system_head RN im il point rhol rhom secs Q =
  (head_spec rhol im rhom secs Q h, head_spec rhol il rhol secs Q h, sumf (pumph point true Q) secs, sumf (pumph point false Q) secs).
Proof. exact LC09.system_head_sum. Qed.
Print Assumptions C09_sum.

(* splitting a positive-length section in two (lengths, K and lift preserved in sum) changes nothing *)
Theorem C09_split : forall (im il : R -> R -> R) (point : nat -> R -> bool -> R) (rhol rhom : R)
                           (l1 l2 : list (section (T:=R))) (d L K z L1 K1 z1 L2 K2 z2 Q : R),
  0 < L1 -> 0 < L2 -> L1 + L2 = L -> K1 + K2 = K -> z1 + z2 = z ->
  calc_system_head RN im il point rhol rhom (l1 ++ Pipe d L1 K1 z1 :: Pipe d L2 K2 z2 :: l2) Q =
  calc_system_head RN im il point rhol rhom (l1 ++ Pipe d L K z :: l2) Q.
Proof. exact LC09.split_invariant. Qed.
Print Assumptions C09_split.

(* reordering the interior sections (first section and the final pipe fixed) changes nothing *)
Theorem C09_permute : forall (im il : R -> R -> R) (point : nat -> R -> bool -> R) (rhol rhom : R)
                             (first : section (T:=R)) (mid mid' : list (section (T:=R))) (d L K z Q : R),
  Permutation mid mid' ->
  calc_system_head RN im il point rhol rhom (first :: mid ++ [Pipe d L K z]) Q =
  calc_system_head RN im il point rhol rhom (first :: mid' ++ [Pipe d L K z]) Q.
Proof. exact LC09.permute_invariant. Qed.
Print Assumptions C09_permute.

Theorem C09_flow_velocity : forall d x : R, d <> 0 -> velocity RN d (flow RN d x) = x /\ flow RN d (velocity RN d x) = x.
Proof. intros; split; [apply LC09.flow_velocity|apply LC09.velocity_flow]; assumption. Qed.
Print Assumptions C09_flow_velocity.

(* after update_slurries (run by the constructor, by Pipeline.Cv = c and by Pipeline.slurry = s) every pipe
   diameter has the pipeline slurry copied with Dp := that diameter ... *)
Theorem C09_update_covers : forall (sf sq : bool) (p : pl (T:=R)) (d : R), In d (diameters (secs p)) ->
  lookup_d RN (slurries (update_slurries RN sf sq p)) d = Some (set_dp RN sf sq (slurry p) d).
Proof. exact LC09b.update_covers. Qed.
Print Assumptions C09_update_covers.

(* ... so every section computes with the gradients of a freshly built slurry with the CURRENT parameters and
   that section's diameter (C07 applied to the copy; premise [valid] as in C07) *)
Theorem C09_sections_use_current_slurry : forall (sf sq : bool) (p : pl (T:=R)) (a : astate) (d v : R),
  Inv sf sq (slurry p) a -> valid a -> valid (astep a (SetDp d)) -> In d (diameters (secs p)) ->
  let a' := astep a (SetDp d) in
  let p' := update_slurries RN sf sq p in
  il_d RN sf sq p' d v = SlurryCalc.il RN (a_p a') v /\
  im_d RN sf sq p' d v = SlurryCalc.im RN sf sq (a_p a') (spec_gsd a') v.
Proof. exact LC09b.section_gradients. Qed.
Print Assumptions C09_sections_use_current_slurry.

(* and the pipeline slurry's own Dp is one of the section diameters (pipelines ending with a pipe section) *)
Theorem C09_slurry_Dp_in_pipeline : forall (sf sq : bool) (p : pl (T:=R)) (d : R),
  last_diameter (secs p) = Some d -> Dp_in_pipeline (update_slurries RN sf sq p).
Proof. exact LC09b.update_establishes. Qed.
Print Assumptions C09_slurry_Dp_in_pipeline.
