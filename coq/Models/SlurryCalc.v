(* SlurryCalc: hand-written executable model of what a SlurryObj.Slurry exposes, as pure functions
   of its parameters and its (generated) grading: vls_list, Erhg_curves, im_curves, LDV curves,
   pointwise il/Erhg/im, derived densities and concentrations.  Tied to the code by
   tools/harness/corr_slurry.py (every key, every index, bit-exact).  No proofs here. *)
From Coq Require Import ZArith List Bool.
From DHV Require Import NumOps Interp Fracs Graded.
From DHV Require Homogeneous Framework.
Import ListNotations.

Section SlurryCalc.
Context {T : Type} (N : NumOps T).

Record sparams : Type := mkSP {
  p_Dp : T; p_eps : T; p_nu : T; p_rhol : T; p_D50 : T; p_Cv : T; p_rhos : T; p_rhoi : T; p_max_index : nat }.

Definition Rsd (p : sparams) : T := ndiv N (nsub N (p_rhos p) (p_rhol p)) (p_rhol p).
Definition rhom (p : sparams) : T := nadd N (nmul N (p_Cv p) (nsub N (p_rhos p) (p_rhol p))) (p_rhol p).
Definition Cvi (p : sparams) : T := ndiv N (nsub N (rhom p) (p_rhol p)) (nsub N (p_rhoi p) (p_rhol p)).
(* the rhom setter: Cv := (Sm - rhol) / (rhos - rhol) *)
Definition Cv_of_rhom (p : sparams) (Sm : T) : T := ndiv N (nsub N Sm (p_rhol p)) (nsub N (p_rhos p) (p_rhol p)).

(* [(i + 1) / 10. for i in range(max_index)] *)
Definition vls_list (n : nat) : list T :=
  map (fun i => ndiv N (nint N (Z.of_nat i + 1)%Z) (nlit N 10%Z 1%positive)) (seq 0 n).

Definition il (p : sparams) (vls : T) : T :=
  Homogeneous.fluid_head_loss N vls (p_Dp p) (p_eps p) (p_nu p) (p_rhol p).
Definition Erhg (sf sq : bool) (p : sparams) (g : gsd (T:=T)) (vls : T) : T :=
  Erhg_graded N sf sq g vls (p_Dp p) (p_eps p) (p_nu p) (p_rhol p) (p_rhos p) (p_Cv p) true false.
Definition im (sf sq : bool) (p : sparams) (g : gsd (T:=T)) (vls : T) : T :=
  nadd N (nmul N (nmul N (Erhg sf sq p g vls) (Rsd p)) (p_Cv p)) (il p vls).

Definition sel6 (o : Framework.Erhg6 T) : T :=
  match Framework.Erhg6_regime o with
  | Framework.R_FB => Framework.Erhg6_FB o | Framework.R_SB => Framework.Erhg6_SB o
  | Framework.R_He => Framework.Erhg6_He o | Framework.R_Ho => Framework.Erhg6_Ho o end.

Record erhg_curves : Type := mkEC {
  ec_il : list T; ec_Cvs_Erhg : list T; ec_FB : list T; ec_SB : list T; ec_He : list T; ec_Ho : list T;
  ec_regime : list Framework.regime; ec_Cvs_from_Cvt : list T; ec_Cvt_Erhg : list T;
  ec_graded_Cvs : list T; ec_graded_Cvt : list T }.

Definition generate_Erhg_curves (sf sq : bool) (p : sparams) (g : gsd (T:=T)) (vl : list T) : erhg_curves :=
  let objs := map (fun v => Framework.Cvs_Erhg_dict N sf sq v (p_Dp p) (p_D50 p) (p_eps p) (p_nu p) (p_rhol p) (p_rhos p) (p_Cv p)) vl in
  mkEC (map (@Framework.Erhg6_il T) objs) (map sel6 objs)
       (map (@Framework.Erhg6_FB T) objs) (map (@Framework.Erhg6_SB T) objs)
       (map (@Framework.Erhg6_He T) objs) (map (@Framework.Erhg6_Ho T) objs)
       (map (@Framework.Erhg6_regime T) objs)
       (map (fun v => Framework.Cvs_from_Cvt N v (p_Dp p) (p_D50 p) (p_eps p) (p_nu p) (p_rhol p) (p_rhos p) (p_Cv p)) vl)
       (map (fun v => Framework.Cvt_Erhg N sf sq v (p_Dp p) (p_D50 p) (p_eps p) (p_nu p) (p_rhol p) (p_rhos p) (p_Cv p)) vl)
       (map (fun v => Erhg_graded N sf sq g v (p_Dp p) (p_eps p) (p_nu p) (p_rhol p) (p_rhos p) (p_Cv p) false false) vl)
       (map (fun v => Erhg_graded N sf sq g v (p_Dp p) (p_eps p) (p_nu p) (p_rhol p) (p_rhos p) (p_Cv p) true false) vl).

Record im_curves : Type := mkIC {
  ic_il : list T; ic_Cvs_im : list T; ic_FB : list T; ic_SB : list T; ic_He : list T; ic_ELM : list T;
  ic_Ho : list T; ic_Cvt_im : list T; ic_graded_Cvs_im : list T; ic_graded_Cvt_im : list T }.

(* c[key][i] * Rsd * Cv + il_list[i]  for i in range(max_index) *)
Fixpoint to_im_ (rsd cv : T) (es ils : list T) (n : nat) : list T :=
  match n, es, ils with
  | S n', e :: es', i :: ils' => nadd N (nmul N (nmul N e rsd) cv) i :: to_im_ rsd cv es' ils' n'
  | _, _, _ => []
  end.
Definition to_im (p : sparams) (es ils : list T) (n : nat) : list T := to_im_ (Rsd p) (p_Cv p) es ils n.

Definition generate_im_curves (p : sparams) (c : erhg_curves) : im_curves :=
  let n := p_max_index p in
  let ils := ec_il c in
  mkIC ils (to_im p (ec_Cvs_Erhg c) ils n) (to_im p (ec_FB c) ils n) (to_im p (ec_SB c) ils n)
       (to_im p (ec_He c) ils n) (map (fun i => nmul N i (rhom p)) (firstn n ils))
       (to_im p (ec_Ho c) ils n) (to_im p (ec_Cvt_Erhg c) ils n)
       (to_im p (ec_graded_Cvs c) ils n) (to_im p (ec_graded_Cvt c) ils n).

Record ldv_curves : Type := mkLC { lc_Cv : list T; lc_vls : list T; lc_il : list T; lc_Erhg : list T; lc_im : list T }.

Definition generate_LDV_curves (sf sq : bool) (p : sparams) (d : T) : ldv_curves :=
  let Cvs := map (fun i => ndiv N (nint N (Z.of_nat i + 1)%Z) (nlit N 100%Z 1%positive)) (seq 0 50) in
  let vs := map (fun c => Framework.LDV N (nint N 1%Z) (p_Dp p) d (p_eps p) (p_nu p) (p_rhol p) (p_rhos p) c 10%nat) Cvs in
  let ils := map (fun v => il p v) vs in
  let es := map (fun vc => Framework.Cvs_Erhg N sf sq (fst vc) (p_Dp p) d (p_eps p) (p_nu p) (p_rhol p) (p_rhos p) (snd vc))
                (combine vs Cvs) in
  let ims := map (fun q => nadd N (nmul N (nmul N (fst (fst q)) (Rsd p)) (snd (fst q))) (snd q))
                 (combine (combine es Cvs) ils) in
  mkLC Cvs vs ils es ims.

Record curves : Type := mkCurves {
  c_vls : list T; c_Erhg : erhg_curves; c_im : im_curves; c_LDV : ldv_curves; c_LDV85 : ldv_curves }.

(* Slurry.generate_curves, given the (fresh) grading *)
Definition generate_curves (sf sq : bool) (p : sparams) (g : gsd (T:=T)) : curves :=
  let vl := vls_list (p_max_index p) in
  let ec := generate_Erhg_curves sf sq p g vl in
  mkCurves vl ec (generate_im_curves p ec)
           (generate_LDV_curves sf sq p (get_dx N g (nlit N 5%Z 10%positive)))
           (generate_LDV_curves sf sq p (get_dx N g (nlit N 85%Z 100%positive))).

(* Slurry.Dmean: sum([get_dx(frac/10) for frac in range(1, 11, 2)])/5 *)
Definition Dmean (g : gsd (T:=T)) : T :=
  ndiv N (nsum N (map (fun k => get_dx N g (ndiv N (nint N k) (nint N 10%Z))) [1; 3; 5; 7; 9]%Z)) (nint N 5%Z).

End SlurryCalc.
