(* Proofs for C12 (third part): the discretisation as a whole -- everything after the skip loop. *)
From Coq Require Import Reals List Bool Lra Lia Arith ZArith Sorted.
From DHV Require Import NumOps RInst Interp Fracs LCommon LC18 LC12 LC12b.
Import ListNotations.
Local Open Scope R_scope.

Lemma both_increasing_app_inv (l1 l2 : gsdR) : both_increasing (l1 ++ l2) ->
  both_increasing l1 /\ both_increasing l2 /\ (forall p q, In p l1 -> In q l2 -> inc2 p q).
Proof.
  induction l1 as [|a l1 IH]; cbn [app]; intro H.
  - split; [constructor|]. split; [exact H|]. intros p q [].
  - inversion H as [|x y Hs Hf]; subst. destruct (IH Hs) as (A & B & C). apply Forall_app in Hf. destruct Hf as [F1 F2].
    split; [constructor; assumption|]. split; [exact B|].
    intros p q [<-|Hp] Hq; [rewrite Forall_forall in F2; apply F2; exact Hq|apply C; assumption].
Qed.

Lemma both_increasing_concat (l1 l2 : gsdR) : both_increasing l1 -> both_increasing l2 ->
  (forall p q, In p l1 -> In q l2 -> inc2 p q) -> both_increasing (l1 ++ l2).
Proof.
  induction l1 as [|a l1 IHl]; intros H1 H2 H; [exact H2|]. cbn [app]. inversion H1 as [|x y Hs Hf]; subst.
  constructor; [apply IHl; [exact Hs|exact H2|intros p q Hp Hq; apply H; [right; exact Hp|exact Hq]]|].
  apply Forall_app. split; [exact Hf|]. apply Forall_forall. intros q Hq. apply H; [left; reflexivity|exact Hq].
Qed.

(* frac_size returned by the second loop is positive *)
Lemma main_fs_pos : forall (pts : gsdR) n flow dlow (acc : gsdR) fs0, pts <> [] -> input_ok flow dlow pts ->
  0 < snd (main RN flow dlow pts (Z.of_nat n) acc fs0).
Proof.
  induction pts as [|[fnext dnext] rest IH]; intros n flow dlow acc fs0 NE Hok; [contradiction|].
  destruct Hok as (Hs & Hd0 & Hnz).
  inversion Hs as [|p l Hs' Hf]; subst. inversion Hf as [|q l' [Hf1 Hd1] Hf']; subst. cbn [fst snd] in *.
  inversion Hnz as [|q l' Hnz1 Hnz']; subst. cbn [fst] in Hnz1.
  cbn [main]. rewrite (truthy_R fnext Hnz1). cbv zeta. toR. rewrite IZR_S.
  assert (Hfs : 0 < (fnext - flow) / INR (S n)) by (apply Rdiv_lt_0_compat; [lra|apply lt_0_INR; lia]).
  destruct rest as [|r rest'].
  - cbn [main snd]. exact Hfs.
  - apply IH; [discriminate|]. split; [exact Hs'|split; [lra|exact Hnz']].
Qed.

Section Tail.
Variables (dmin flow dlow fnext dnext : R) (rest : gsdR) (pl nf : Z) (n : nat).
Hypothesis Hin : both_increasing ((flow, dlow) :: (fnext, dnext) :: rest).
Hypothesis Hdlow : 0 < dlow.
Hypothesis Hnz : Forall (fun p => fst p <> 0) ((fnext, dnext) :: rest).
Hypothesis Hdmin : 0 < dmin < dnext.
Hypothesis Hbp : Z.max (- ((- (nf - pl - 1)) / pl)) 0 = Z.of_nat n.
(* the last input fraction leaves room for the extrapolated top point *)
Hypothesis Htop : forall p, In p ((fnext, dnext) :: rest) -> fst p < 999 / 1000.
Hypothesis Hpos : 0 < fnext.

Let pts := (fnext, dnext) :: rest.
Let X := X_of dlow dnext flow fnext dmin.

Lemma flow_lt : flow < fnext /\ dlow < dnext.
Proof. inversion Hin as [|p l Hs Hf]; subst. inversion Hf as [|q l' [A B] _]; subst. cbn [fst snd] in *. split; lra. Qed.

Lemma X_lt_fnext : X < fnext.
Proof.
  destruct flow_lt as [Hf Hd]. unfold X, X_of.
  pose proof (Rlog10_increasing dlow dnext ltac:(lra)) as L1. pose proof (Rlog10_increasing dmin dnext Hdmin) as L2.
  assert (0 < (Rlog10 dnext - Rlog10 dmin) * (fnext - flow) / (Rlog10 dnext - Rlog10 dlow)).
  { apply Rdiv_lt_0_compat; [apply Rmult_lt_0_compat|]; lra. }
  lra.
Qed.

(* the effective start of the discretisation: (X, dmin) when X > 0, else fraction 0 at the extrapolated diameter *)
Definition start_f : R := if Rltb 0 X then X else 0.
Definition start_d : R :=
  if Rltb 0 X then dmin
  else pow10 RN (Rlog10 dnext - (Rlog10 dnext - Rlog10 dlow) * (fnext - 0 / 10) / (fnext - flow)).
Definition start_nodes : gsdR := if Rltb 0 X then [(X, dmin)] else [].

Lemma start_ok : input_ok start_f start_d pts.
Proof.
  destruct flow_lt as [Hf Hd]. unfold start_f, start_d, input_ok.
  inversion Hin as [|p l Hs _]; subst.
  destruct (Rltb 0 X) eqn:B.
  - apply Rltb_true in B. split; [|split; [lra|exact Hnz]].
    constructor; [exact Hs|]. pose proof X_lt_fnext.
    inversion Hs as [|p l Hs2 Hf2]; subst.
    constructor; [split; cbn [fst snd]; lra|]. eapply Forall_impl; [|exact Hf2]. intros q [A1 A2]. unfold inc2. cbn [fst snd] in *. split; lra.
  - set (L := Rlog10 dnext - (Rlog10 dnext - Rlog10 dlow) * (fnext - 0 / 10) / (fnext - flow)).
    assert (LL : L < Rlog10 dnext).
    { unfold L. pose proof (Rlog10_increasing dlow dnext ltac:(lra)).
      assert (0 < (Rlog10 dnext - Rlog10 dlow) * (fnext - 0 / 10) / (fnext - flow)).
      { apply Rdiv_lt_0_compat; [apply Rmult_lt_0_compat|]; lra. } lra. }
    assert (P : 0 < pow10 RN L) by (unfold pow10; toR; unfold Rpower; apply exp_pos).
    assert (Q : pow10 RN L < dnext) by (rewrite <- (pow10_log10 dnext) by lra; apply pow10_increasing; exact LL).
    split; [|split; [exact P|exact Hnz]].
    constructor; [exact Hs|]. inversion Hs as [|p l Hs2 Hf2]; subst.
    constructor; [split; cbn [fst snd]; lra|]. eapply Forall_impl; [|exact Hf2]. intros q [A1 A2]. unfold inc2. cbn [fst snd] in *. split; lra.
Qed.

Definition body : gsdR := start_nodes ++ all_nodes n start_f start_d pts.

Lemma body_increasing : both_increasing body.
Proof.
  destruct (all_nodes_increasing pts n start_f start_d start_ok) as [I1 I2].
  unfold body, start_nodes, start_f, start_d in *. destruct (Rltb 0 X); [|exact I1].
  apply both_increasing_concat; [repeat constructor|exact I1|].
  intros p q [<-|[]] Hq. destruct (I2 q Hq). split; cbn [fst snd]; lra.
Qed.

(* the tail of create_fracs: the body followed by one extrapolated top point *)
Lemma tail_shape : forall a b, last2 body = Some (a, b) ->
  let fs := snd (main RN start_f start_d pts (Z.of_nat n) start_nodes 0) in
  let fthis := Rmin (fst b + fs) (999 / 1000) in
  let top := (fthis, pow10 RN (log10_interp RN (snd a) (snd b) (fst a) (fst b) fthis)) in
  create_fracs_tail RN dmin flow dlow fnext dnext rest pl nf = body ++ [top] /\
  both_increasing (body ++ [top]) /\ fst b < fthis <= 999 / 1000.
Proof.
  intros a b HL. cbv zeta.
  assert (E : create_fracs_tail RN dmin flow dlow fnext dnext rest pl nf =
              (let '(new, frac_size) := main RN start_f start_d pts (Z.of_nat n) start_nodes 0 in
               match last2 (sort_keys RN new) with
               | Some ((fl, dl), (fn, dn)) =>
                 let fthis := Rmin (fn + frac_size) (999 / 1000) in
                 sort_keys RN (dict_set RN new fthis (pow10 RN (log10_interp RN dl dn fl fn fthis)))
               | None => []
               end)).
  { unfold create_fracs_tail. cbv zeta. toR. unfold start_f, start_d, start_nodes, X, X_of.
    rewrite Hbp.
    match goal with |- context [if Rltb ?z ?x then _ else _] => destruct (Rltb z x) end; reflexivity. }
  rewrite E. clear E.
  pose proof (main_spec pts n start_f start_d start_nodes 0 start_ok) as MS.
  assert (Hacc : forall p, In p start_nodes -> fst p <= start_f).
  { unfold start_nodes, start_f. destruct (Rltb 0 X); [intros p [<-|[]]; cbn [fst]; lra|intros p []]. }
  specialize (MS Hacc). fold body in MS.
  pose proof (main_fs_pos pts n start_f start_d start_nodes 0 ltac:(discriminate) start_ok) as FS.
  destruct (main RN start_f start_d pts (Z.of_nat n) start_nodes 0) as [new fsz] eqn:EM. cbn [fst snd] in *. subst new.
  pose proof body_increasing as BI.
  rewrite (sort_keys_increasing body (both_increasing_keys _ BI)). rewrite HL. destruct a as [fa da], b as [fb db]. cbn [fst snd].
  (* the last two nodes *)
  assert (D : exists l0, body = l0 ++ [(fa, da); (fb, db)]).
  { unfold last2 in HL. destruct (rev body) as [|b0 [|a0 r]] eqn:R; try discriminate HL. injection HL as <- <-.
    exists (rev r). rewrite <- (rev_involutive body), R. cbn [rev]. rewrite <- app_assoc. reflexivity. }
  destruct D as [l0 D].
  assert (Hb : fb < 999 / 1000).
  { assert (In (fb, db) body) by (rewrite D; apply in_or_app; right; right; left; reflexivity).
    unfold body in H. apply in_app_or in H. destruct H as [H|H].
    - unfold start_nodes in H. destruct (Rltb 0 X); [|destruct H]. destruct H as [H|[]]. injection H as <- _.
      pose proof X_lt_fnext. specialize (Htop (fnext, dnext) ltac:(left; reflexivity)). cbn [fst] in Htop. lra.
    - (* a node of the second loop: at most the last input fraction *)
      assert (G : forall (pts0 : gsdR) f0 d0 q, input_ok f0 d0 pts0 -> (forall p, In p pts0 -> fst p < 999 / 1000) ->
                  In q (all_nodes n f0 d0 pts0) -> fst q < 999 / 1000).
      { clear. induction pts0 as [|[fx dx] r IH]; intros f0 d0 q Hok Ht Hq; [inversion Hq|].
        cbn [all_nodes] in Hq. destruct Hok as (Hs & Hd0 & Hz).
        inversion Hs as [|p l Hs' Hf]; subst. inversion Hf as [|p' l' [A B] _]; subst. cbn [fst snd] in A, B.
        inversion Hz as [|p' l' Z1 Z2]; subst.
        apply in_app_or in Hq. destruct Hq as [Hq|Hq].
        - pose proof (interval_keys n f0 d0 fx dx q A Hq). specialize (Ht (fx, dx) ltac:(left; reflexivity)). cbn [fst] in Ht. lra.
        - apply (IH fx dx q); [split; [exact Hs'|split; [lra|exact Z2]]|intros p Hp; apply Ht; right; exact Hp|exact Hq]. }
      exact (G pts start_f start_d (fb, db) start_ok Htop H). }
  assert (Hab : fa < fb /\ da < db /\ 0 < da).
  { rewrite D in BI. destruct (both_increasing_app_inv _ _ BI) as (_ & B2 & _).
    inversion B2 as [|x y _ Hf]; subst. inversion Hf as [|x y [A1 A2] _]; subst. cbn [fst snd] in A1, A2.
    assert (In (fa, da) body) by (rewrite D; apply in_or_app; right; left; reflexivity).
    assert (0 < da).
    { destruct start_ok as (_ & P0 & _). unfold body in H. apply in_app_or in H. destruct H as [H|H].
      - unfold start_nodes in H. destruct (Rltb 0 X); [|destruct H]. destruct H as [H|[]]. injection H as _ <-. lra.
      - destruct (all_nodes_increasing pts n start_f start_d start_ok) as [_ I2]. destruct (I2 _ H). cbn [fst snd] in *. lra. }
    repeat split; assumption. }
  destruct Hab as (Hfab & Hdab & Hda).
  set (fthis := Rmin (fb + fsz) (999 / 1000)).
  assert (Hft : fb < fthis <= 999 / 1000).
  { unfold fthis, Rmin. destruct (Rle_dec (fb + fsz) (999 / 1000)); lra. }
  assert (KB : keys_below body fthis).
  { intros p Hp. rewrite D in Hp, BI. destruct (both_increasing_app_inv _ _ BI) as (_ & B2 & C).
    apply in_app_or in Hp. destruct Hp as [Hp|[<-|[<-|[]]]]; cbn [fst]; try lra.
    destruct (C p (fb, db) Hp ltac:(right; left; reflexivity)). cbn [fst snd] in *. lra. }
  rewrite (dict_set_new body fthis _ KB).
  assert (TI : both_increasing (body ++ [(fthis, pow10 RN (log10_interp RN da db fa fb fthis))])).
  { apply both_increasing_snoc; [exact BI|]. intros p Hp. split; [apply KB; exact Hp|].
    assert (Tb : db < pow10 RN (log10_interp RN da db fa fb fthis)).
    { rewrite <- (pow10_log10 db) at 1 by lra. apply pow10_increasing.
      rewrite <- (log10_interp_at_fnext da db fa fb) by lra. apply log10_interp_increasing; lra. }
    rewrite D in Hp, BI. destruct (both_increasing_app_inv _ _ BI) as (_ & B2 & C).
    apply in_app_or in Hp. destruct Hp as [Hp|[<-|[<-|[]]]]; cbn [snd]; try lra.
    destruct (C p (fb, db) Hp ltac:(right; left; reflexivity)). cbn [fst snd] in *. lra. }
  rewrite (sort_keys_increasing _ (both_increasing_keys _ TI)).
  split; [reflexivity|]. split; [exact TI|exact Hft].
Qed.

(* count: [the start point, when the distribution reaches the limit at a positive fraction] + (subdivisions + 1)
   per remaining input interval + the top point *)
Lemma body_length : length body = ((if Rltb 0 X then 1 else 0) + length pts * S n)%nat.
Proof. unfold body, start_nodes. rewrite app_length, all_nodes_length. destruct (Rltb 0 X); reflexivity. Qed.

(* every remaining input point is a node with its own diameter *)
Lemma body_contains p : In p pts -> In p body.
Proof. intro H. unfold body. apply in_or_app. right. apply all_nodes_contains. exact H. Qed.

(* when the log-linear distribution reaches dmin at a positive fraction the grading starts exactly there *)
Lemma body_starts_at_dmin : 0 < X -> exists r, body = (X, dmin) :: r /\
  pow10 RN (log10_interp RN dlow dnext flow fnext X) = dmin.
Proof.
  intro H. unfold body, start_nodes. rewrite (proj2 (Rltb_true 0 X) H). eexists. split; [reflexivity|].
  destruct flow_lt. apply X_reaches_dmin; lra.
Qed.
(* otherwise it starts at fraction 0 and every node is above dmin' > 0; never below the limit's replacement *)
Lemma body_all_above_start p : In p (all_nodes n start_f start_d pts) -> start_f < fst p /\ start_d < snd p.
Proof. destruct (all_nodes_increasing pts n start_f start_d start_ok) as [_ I2]. apply I2. Qed.
End Tail.

(* the subdivision count for the documented default of ten fractions: 3-point input (two intervals left) gives 4,
   a single interval left gives 8, three intervals left give 2 *)
Lemma Rtrunc_IZR z : (0 <= z)%Z -> Rtrunc (IZR z) = z.
Proof.
  intro H. unfold Rtrunc. destruct (Rle_dec 0 (IZR z)) as [_|N]; [|exfalso; apply N; apply IZR_le; exact H].
  unfold Int_part. rewrite <- (tech_up (IZR z) (z + 1)%Z); [lia| rewrite plus_IZR; lra | rewrite plus_IZR; lra].
Qed.

Lemma between_points_3 : Z.max (- ((- (10 - 2 - 1)) / 2)) 0 = Z.of_nat 4.
Proof. reflexivity. Qed.
Lemma between_points_1 : Z.max (- ((- (10 - 1 - 1)) / 1)) 0 = Z.of_nat 8.
Proof. reflexivity. Qed.
Lemma between_points_3pl : Z.max (- ((- (10 - 3 - 1)) / 3)) 0 = Z.of_nat 2.
Proof. reflexivity. Qed.
(* five or more points: the count is rounded UP (two interior nodes per interval for five points: 13 or 14 entries) *)
Lemma between_points_4pl : Z.max (- ((- (10 - 4 - 1)) / 4)) 0 = Z.of_nat 2.
Proof. reflexivity. Qed.

