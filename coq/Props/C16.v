(* C16 -- malformed workbooks are rejected with InvalidExcelError and nothing else.
   Statements only; proofs in Lemmas/LC16.v.  Model: Models/Excel.v (validate_excel and the loaders over an abstract
   workbook, every partial step carrying the exception class Python raises there), compared with the real loader on
   well-formed workbooks and on every single structural fault of them (outcome class and loaded data). *)
From Coq Require Import Reals List Bool String.
From DHV Require Import NumOps RInst Excel LC16.
Import ListNotations.
Local Open Scope string_scope.

(* a passed validation guarantees: exactly one pipeline and one slurry sheet; every sheet of a recognised type has every
   required named range in the required shape (text / number / table with each required column exactly once) *)
Theorem C16_validation_sound : forall wb : workbook (T:=R), validate wb = ROk tt ->
  count_type TPipeline wb = 1%nat /\ count_type TSlurry wb = 1%nat /\
  forall s t, In s wb -> types_of (s_title s) = [t] -> forall f, In f (fields t) -> field_ok s f.
Proof. exact LC16.validation_sound. Qed.
Print Assumptions C16_validation_sound.

(* fault: a required sheet is missing (or duplicated) *)
Theorem C16_missing_sheet : forall (wb : workbook (T:=R)) (t : stype),
  required t = true -> count_type t wb <> 1%nat -> validate wb = RInvalid.
Proof. exact LC16.missing_required_sheet. Qed.
Print Assumptions C16_missing_sheet.

(* faults on a single-value field: name missing; a blank or a text value in a numeric field; a range where a cell is expected *)
Theorem C16_bad_single_field : forall (s : sheet (T:=R)) (nm : string),
  (assoc nm (s_names s) = None -> validate_field s (nm, FStr) = RInvalid /\ validate_field s (nm, FFloat) = RInvalid) /\
  (forall rows, assoc nm (s_names s) = Some (Range rows) -> validate_field s (nm, FFloat) = RInvalid) /\
  (assoc nm (s_names s) = Some (Single CBlank) -> validate_field s (nm, FFloat) = RInvalid) /\
  (forall t, assoc nm (s_names s) = Some (Single (CStr t)) -> validate_field s (nm, FFloat) = RInvalid).
Proof. exact LC16.bad_single_field. Qed.
Print Assumptions C16_bad_single_field.

(* faults on a table: name missing; a required column missing or duplicated *)
Theorem C16_bad_table : forall (s : sheet (T:=R)) (nm : string) (cols : list (list string)),
  (assoc nm (s_names s) = None -> validate_field s (nm, FTable cols) = RInvalid) /\
  (forall h rows hd words, assoc nm (s_names s) = Some (Range (h :: rows)) -> header_of h = ROk hd -> In words cols ->
     List.length (filter (col_matches words) hd) <> 1%nat -> validate_field s (nm, FTable cols) = RInvalid).
Proof. exact LC16.bad_table. Qed.
Print Assumptions C16_bad_table.

(* no foreign exception from the field checks as long as table headers are text *)
Theorem C16_no_foreign_exception : forall (s : sheet (T:=R)) (t : stype) (f : string * ftype),
  headers_text s t -> In f (fields t) -> forall e, validate_field s f <> ROther e.
Proof. exact LC16.validate_field_no_other. Qed.
Print Assumptions C16_no_foreign_exception.

(* fault: the pipe table names a pump that has no tab *)
Theorem C16_dangling_pump : forall (pumps : list (string * apump (T:=R))) nm rest r nc dc lc kc zc,
  nth_cell r nc = CStr nm -> containsb "pump" (lower nm) = true ->
  assoc (remove_suffix "pump" (lower nm)) (rev pumps) = None ->
  pipe_rows (r :: rest) pumps nc dc lc kc zc = RInvalid.
Proof. exact LC16.dangling_pump. Qed.
Print Assumptions C16_dangling_pump.

(* after a passed validation the loader's reads of the validated fields cannot fail *)
Theorem C16_validated_reads_succeed : forall (wb : workbook (T:=R)) s t nm,
  validate wb = ROk tt -> In s wb -> types_of (s_title s) = [t] ->
  (In (nm, FFloat) (fields t) -> exists x, fnum s nm = ROk x) /\
  (In (nm, FStr) (fields t) -> exists str, fstr s nm = ROk str).
Proof. exact LC16.validated_reads_succeed. Qed.
Print Assumptions C16_validated_reads_succeed.
