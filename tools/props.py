"""props.py: per-property configuration of ./check"""

GENERATORS = ['gen.py', 'gen_deps.py', 'gen_files.py', 'gen_units.py', 'gen_pumps.py']
CORE_GENERATORS = ['gen.py', 'gen_deps.py', 'gen_files.py', 'gen_units.py']     # gen_pumps.py feeds C11 only

PROPS = {
    'C01': dict(
        own_files=['Lemmas/LC01.v', 'Props/C01.v'],
        corr=[dict(script='corr_gen.py', n=250,
                   args=['Framework.Cvs_Erhg', 'Framework.Cvs_Erhg_dict', 'Framework.Cvs_regime', 'Stratified.fb_Erhg',
                         'Stratified.Erhg', 'Heterogeneous.Erhg', 'Homogeneous.Erhg', 'Homogeneous.fluid_head_loss'])],
        search='C01.py', budget_quick=150, budget_thorough=5000,
        partial=[],
        level_text='Proof: for all real inputs and both switch settings the regenerated model of Cvs_Erhg returns max(min(FB,SB,He),Ho), '
                   'the reported regime attains it, its long name is the documented one, and every component of the detailed result is the '
                   'standalone sub-model applied to the same arguments (C01_components, C01_value, C01_attains, C01_name). The quantifier '
                   '(all of E, all 75 weak orderings, both switches) is covered by universal quantification over R.',
        level_note='Model regenerated from the Python by tools/translate on every run and executed bit-exactly against the real functions; '
                   'theorems are over exact reals (binary64 rounding not modelled; the selection law itself is order-theoretic and holds for any NaN-free total order).',
    ),
    'C07': dict(
        own_files=['Lemmas/LC07.v', 'Props/C07.v'],
        corr=[dict(script='corr_slurry_state.py', n=60, n_thorough=600),
              dict(script='corr_slurry.py', n=25, n_thorough=300, args=['--parts', 'regen,getdx,curves,point,scalars'])],
        search='C07.py', budget_quick=120, budget_thorough=3000, budget_broken=3000,
        own_files_extra=['Lemmas/LC07b.v', 'Lemmas/LC12e.v'],
        partial=[],
        level_text='Proof (refinement, induction over the operation list): in the executable state-machine model of SlurryObj.Slurry '
                   '(parameters, both dirty flags, cached grading and curves; 15 operations) every read of every reachable state returns '
                   'exactly what the abstract state (current parameters + grading ratios) determines, i.e. what a freshly built object '
                   'returns, and histories with the same final abstract state are indistinguishable (C07_no_stale, C07_step, C07_init, '
                   'C07_no_trace). Unbounded in history length. The ratio-recovery premise [valid] is itself proved (C07_ratio_recovery, from the C12 theorems about ' 
                   'create_fracs) for grading ratios above 1 and D50 above the pseudo-liquid limit, giving C07_no_stale_physical with physical premises only.',
        level_note='The state machine is hand-written (coq/Models/SlurryState.v over the hand models Fracs/Graded/SlurryCalc and the generated '
                   'numeric model) and is tied to the code by running operation sequences on a real Slurry and on the extracted model, '
                   'comparing both dirty flags after every operation and every value read, bit for bit. A setter that stops raising a flag '
                   'makes the flags disagree; the search then compares the real object with a freshly built one.',
    ),
    'C03': dict(
        own_files=['Lemmas/LC03.v', 'Lemmas/LC03b.v', 'Props/C03.v'],
        corr=[dict(script='corr_gen.py', n=200, n_thorough=4000,
                   args=['Homogeneous.homogeneous_head_loss', 'Homogeneous.homogeneous_pressure_loss', 'Homogeneous.fluid_head_loss',
                         'Homogeneous.fluid_pressure_loss', 'Homogeneous.Erhg', 'Heterogeneous.heterogeneous_head_loss',
                         'Heterogeneous.heterogeneous_pressure_loss', 'Heterogeneous.Erhg', 'Stratified.sliding_bed_head_loss',
                         'Stratified.sliding_bed_pressure_loss', 'Stratified.fb_head_loss', 'Stratified.fb_pressure_loss', 'Stratified.fb_Erhg',
                         'WilsonStratified.stratified_head_loss', 'WilsonStratified.stratified_pressure_loss', 'WilsonStratified.Erhg',
                         'WilsonV50.heterogeneous_head_loss', 'WilsonV50.heterogeneous_pressure_loss', 'WilsonV50.Erhg']),
              dict(script='corr_slurry.py', n=24, n_thorough=300, args=['--parts', 'graded,curves,point,scalars'])],
        search='C03.py', budget_quick=200, budget_thorough=6000,
        partial=[],
        level_text='Proof: for every regime model (homogeneous, heterogeneous, sliding bed, fixed bed, Wilson stratified, Wilson V50) the regenerated '
                   'model satisfies im = Erhg*Rsd*Cv + il and dp = im*g*rhol for all reals (fixed bed under rhol <> 0, Rsd*Cv <> 0); in the model '
                   'of the Slurry tables every im curve equals its Erhg curve*Rsd*Cv + il at every index, ELM = il*rhom, and il()/Erhg()/im() '
                   'equal the tables at every tabulated speed; Erhg_graded equals an independently written specification (pseudo-liquid of Eqns '
                   '8.15-3..7, geometric-mean diameters, fraction-weighted sum / (1-X)) for Cvs and Cvt input.',
        level_note='Regime models are regenerated from the Python each run; the table and graded models are hand-written and compared bit for bit with '
                   'Slurry.generate_curves (all keys, all indices) and Erhg_graded(get_dict=True) on generated objects. Theorems over exact reals.',
    ),
    'C18': dict(
        own_files=['Lemmas/LC18.v', 'Lemmas/LC18b.v', 'Lemmas/LMono.v', 'Props/C18.v'],
        corr=[dict(script='corr_interp.py', n=150, n_thorough=3000)],
        search='C18.py', budget_quick=300, budget_thorough=10000,
        partial=[],
        level_text='Proof: for every table with strictly increasing keys (any length, sign, spacing) the lookup model returns the stored value at a key, '
                   'the straight line through the two neighbours strictly inside a segment (and that lies between the neighbouring values), extends an '
                   'end segment exactly when extrapolation is on or the key passes the tolerance test (read as "within 0.1 %" for positive end keys) and '
                   'is IndexError otherwise; assignment is refused. The shipped tables (regenerated from DHLLDV_constants.py) have increasing keys and '
                   'positive entries, and kinematic viscosity is strictly decreasing node to node and along every segment.',
        level_note='Num/Interp.v is hand-written and compared bit for bit (values and IndexError) with the real interpDict on random tables '
                   '(shuffled insertion order, adjacent-float keys, both flags) and on every shipped table at nodes and mid-points.',
    ),
    'C19': dict(
        own_files=['Lemmas/LC19.v', 'Props/C19.v'],
        corr=[dict(script='corr_gen.py', n=300, n_thorough=5000, args=['Stratified.beta', 'Stratified.perimeters', 'Stratified.areas']),
              dict(script='corr_interp.py', n=40, n_thorough=500)],
        search='C19.py', budget_quick=300, budget_thorough=6000,
        partial=[],
        level_text='Proof: A1+A2 = Ap, A2 = Ap*Cvs/Cvb, O1+O2 = Op = pi*Dp, O12 = Dp*sin(beta) for all reals (ring); each of the 33 regenerated '
                   'table rows reproduces the circular-segment area fraction within 1e-5 (33 interval goals, exhaustive); for EVERY real area '
                   'fraction in [0,1] (not a grid) the lookup succeeds and the interpolated half-angle reproduces it within 0.0075 (32 one-variable '
                   'interval goals with bisection + a general location lemma); rows increase in both columns from (0,0) to (1, pi +- 1e-7).',
        level_note='Table and functions regenerated from DHLLDV_constants.py / stratified.py each run (a typo in any row fails that row\'s goal); '
                   'interval arithmetic (Coq Interval 4.6) runs inside the kernel VM; exact reals, rounding not modelled.',
    ),
    'C20': dict(
        own_files=['Lemmas/LC20.v', 'Lemmas/SwameeJain.v', 'Lemmas/LIl.v', 'Lemmas/LHe.v', 'Lemmas/LWS.v', 'Lemmas/LV50.v', 'Props/C20.v'],
        corr=[dict(script='corr_gen.py', n=250, n_thorough=5000,
                   args=['WilsonStratified.Vsm_max', 'WilsonStratified.Vsm_max_f', 'WilsonStratified.Cvr_max', 'WilsonStratified.Vsm',
                         'WilsonStratified.Vsm_f', 'WilsonStratified.Erhg', 'WilsonStratified.stratified_head_loss', 'WilsonV50.w',
                         'WilsonV50.sigma', 'WilsonV50.M', 'WilsonV50.V50', 'WilsonV50.Erhg', 'WilsonV50.heterogeneous_head_loss'])],
        search='C20.py', budget_quick=400, budget_thorough=20000,
        partial=['C20 V50 termination and the 0.5 % reading of its fixed point are proved for steel roughness 0.045..0.1 mm (C20_V50_terminates, '
                 'C20_V50_fuel_independent, C20_V50_equation: 0.1 %); for a smoother pipe (eps < 0.045 mm) the lower bound 0.01 of the friction '
                 'factor, on which the proof rests, is not shown and the two clauses are searched only; the proof is over the reals: '
                 'that binary64 rounding cannot make two iterates alternate between two 1e-4 bins for ever is not covered (searched with a '
                 'wall-clock guard)',
                 'C20_ws_nonincreasing is proved for every liquid state of the envelope (there Re > 7000: turbulent branch of the friction factor); the '
                 'laminar branch (Re <= 2320) lies outside E and is not covered'],
        level_text='Proof (all reals, regenerated model): 0 <= Vsm <= Vsm_max with and without the friction-factor alternative; Vsm at Cvr_max equals '
                   'Vsm_max within 0.2 % on both branches of Eqn 6.20-36 (the defect repaired by the fix: commit made the second branch false); '
                   '0.05 <= Cvr_max <= 0.66; 0.25 <= M <= 1.7; the V50 loop terminates on the envelope (monotone friction-factor map on [0.01, 0.036]: '
                   'at most 360 bin changes; the result does not depend on the fuel) and its result satisfies V = F(V) within 0.1 %; '
                   'both gradients exceed the water gradient; neither excess gradient rises with line speed.',
        level_note='Model regenerated from the Python each run and executed bit-exactly against it (V50 with fuel 400).',
    ),
    'C05': dict(
        own_files=['Lemmas/LC05.v', 'Props/C05.v'],
        corr=[dict(script='corr_gen.py', n=300, n_thorough=6000,
                   args=['Framework.slip_ratio', 'Framework.Cvs_from_Cvt', 'Framework.Cvt_Erhg', 'Framework.Cvt_Erhg_dict', 'Framework.Cvt_regime',
                         'Framework.LDV', 'Stratified.vls_FBSB'])],
        search='C05.py', budget_quick=500, budget_thorough=30000,
        partial=['C05_upper: Xi <= 1 - Cvt/Cvb (hence Cvs <= Cvb) on E is not proved (the Xi_HeHo / transition-blend branches couple LDV, LSDV and '
                 'settling in eight dimensions); proved is its equivalence with Cvs <= Cvb; searched with corner- and low-speed-weighted sampling'],
        level_text='Proof (regenerated model, all reals): the delivered-concentration dict is the spatial-concentration dict at Cvs = Cvt/(1-Xi) divided '
                   'by (1-Xi) for every regime, carries the slip it used and the liquid gradient, never reports FB / "fixed bed" (the inner FB case '
                   'is remapped to the smaller of SB and He); for every input with 0 <= Dp and Cvt < Cvb the slip ratio is a convex blend that is '
                   'positive and not below the three-layer-model slip, itself strictly between 0 and 1-Cvt/Cvb, so Cvt < Cvs. The upper bound is partial.',
        level_note='Upper bound Xi <= 1 - Cvt/Cvb: search only. Known finding: exact binary64 zero of the Eqn 8.12-3 denominator (ZeroDivisionError) on a '
                   'measure-zero set.',
    ),
    'C08': dict(
        own_files=['Lemmas/LC08.v', 'Props/C08.v'],
        corr=[dict(script='corr_gen.py', n=150, n_thorough=3000,
                   args=['Homogeneous.pipe_reynolds_number', 'Homogeneous.swamee_jain_ff', 'Stratified.fb_pressure_loss', 'Stratified.fb_Erhg',
                         'Framework.slip_ratio', 'Framework.Cvt_Erhg', 'Framework.Cvt_Erhg_dict', 'Framework.Cvs_Erhg', 'Framework.Cvs_Erhg_dict'])],
        search='C08.py', budget_quick=150, budget_thorough=5000,
        partial=[],
        level_text='Proof: (generic, induction over the history) a memoised function whose result does not depend on the environment and whose '
                   'stored results cannot be mutated returns, for every history of calls / switch assignments / evictions, exactly what the '
                   'uncached function returns; (instance, by computation on the table regenerated from the source) no lru_cache-wrapped function '
                   'reads a mutable module global directly or through its callees and none returns a dict; the only mutable globals any modelled '
                   'function reads are use_sf and use_sqrtcx. Two boundary theorems show the model does exhibit both failure modes.',
        level_note='The dependency table is a static analysis of the Python source (decorators, call graph, Name loads shadowed by parameters, dict '
                   'returns) regenerated every run; dynamic features (getattr, globals()) are outside it and are covered only by the history '
                   'search on the real modules (calls x toggles x in-place mutation vs a fresh-cache reference).',
    ),
    'C06': dict(
        own_files=['Lemmas/LC06.v', 'Lemmas/LLdv.v', 'Props/C06.v'],
        corr=[dict(script='corr_gen.py', n=500, n_thorough=10000, args=['Framework.LDV', 'Homogeneous.swamee_jain_ff', 'Heterogeneous.vt_ruby'])],
        search='C06.py', budget_quick=600, budget_thorough=40000,
        partial=['C06_converged: that LDV(max_steps=10) is within 0.1 % of the fixed points of its four implicit equations on E is not proved (needs a '
                 'quantitative contraction bound sharper than the derivative-free elasticity bound of Lemmas/SwameeJain.v); it is searched against an '
                 'independent fixed-point solve written in the search script',
                 'C06_positive is proved for the real-number model, where a power of a non-positive base is a (positive) junk value; that the bases are '
                 'positive on E belongs to the finiteness obligation (C02)'],
        level_text='Proof (regenerated model, all reals, every iteration budget): LDV does not depend on its line-speed argument (the parameter is '
                   'overwritten before use; reflexivity) and LDV > 0 (induction over the counted loops: every Durand factor is a positive product of '
                   'powers; the upper limit is FL_r, FL_s or a convex blend). Convergence within 0.1 % is partial.',
        level_note='The four while-loops are translated as structural recursion on max_steps and compared bit-exactly with the Python for max_steps in '
                   '{0,1,3,10,20,50}. Convergence: search only, against an independent solver.',
    ),
    'C09': dict(
        own_files=['Lemmas/LC09.v', 'Lemmas/LC09b.v', 'Props/C09.v'],
        corr=[dict(script='corr_pipeline.py', n=120, n_thorough=3000), dict(script='corr_pipeline_slurry.py', n=30, n_thorough=400)],
        search='C09.py', budget_quick=60, budget_thorough=1500,
        partial=['C09_sections_use_current_slurry inherits the ratio-recovery premise [valid] of C07'],
        level_text='Proof: in the pipeline model the four heads equal the stated sums (friction gradient x length over positive-length sections, '
                   'fittings K v^2/2g x density over all pipe sections, lift x density, entrance submergence, exit velocity head; pump heads summed), '
                   'for all section lists and all gradient / pump functions; hence invariance under splitting a positive-length section and under '
                   'any permutation of interior sections; flow and velocity are inverse; after update_slurries every diameter has the pipeline '
                   'slurry with Dp := that diameter, which by C07 serves the gradients of a freshly built slurry, and the pipeline slurry Dp is a '
                   'section diameter.',
        level_note='Pipeline.v / PipelineSlurry.v are hand-written; compared bit for bit with Pipeline.calc_system_head, hydraulic_gradient, '
                   'update_slurries and the Cv / slurry setters on random pipelines and operation sequences (synthetic pump heads on both sides; '
                   'real slurries). The search recomputes the sum of parts with freshly built slurries and real pump points.',
    ),
    'C14': dict(
        own_files=['Lemmas/LC14.v', 'Lemmas/LC09b.v', 'Props/C14.v'],
        corr=[dict(script='corr_pipeline.py', n=120, n_thorough=3000), dict(script='corr_pipeline_slurry.py', n=30, n_thorough=400)],
        search='C14.py', budget_quick=40, budget_thorough=1000,
        partial=[],
        level_text='Proof: the grade-line model has n+1 points for n sections; point 0 is (0, -depth*rhol, depth); point k is the cumulative length and '
                   'lift of the first k sections with pressure = pump head - system head of the pipeline truncated there (the last = totals); a '
                   'non-positive flow means the minimum-friction flow; the state left behind equals the state before whenever the pipeline slurry '
                   'Dp is a section diameter (established by update_slurries), and the theorem C14_side_effect_without_invariant states exactly '
                   'what changes otherwise.',
        level_note='qimin (scipy bounded minimiser) is an oracle parameter of the model. Hand-written model compared bit for bit with the real '
                   'hydraulic_gradient (three lists) and with the state after the call.',
    ),
    'C11': dict(
        own_files=['Lemmas/LC11.v', 'Lemmas/LC11b.v', 'Lemmas/LC11c.v', 'Lemmas/LPumpShape.v', 'Lemmas/LPumpsShipped.v', 'Props/C11.v'],
        generators=GENERATORS, extra_sources=['DHLLDV_viewer/ExamplePumps.py'],
        corr=[dict(script='corr_pump.py', n=250, n_thorough=6000), dict(script='corr_pumpdata.py', n=1, n_thorough=1)],
        search='C11.py', budget_quick=400, budget_thorough=20000,
        partial=['C11 never above the set speed in torque and power mode: PROVED (C11_power/torque_limited_not_above_set) for every pump and flow '
                 'whose required power is positive, does not fall with speed and grows at most like n^4 relative to the available power on '
                 '(0, set speed] -- a premise on the elasticity of the QP curve, which the search samples on the shipped pumps and counts '
                 '(shape-premise:holds / fails in the distribution); where it fails the clause is searched only.  For the power-limited mode the '
                 'premise is DISCHARGED for every pump whose QP table has increasing positive powers with elasticity <= 3 at each segment start '
                 '(C11_power_limited_not_above_set_by_shape), and by computation on the regenerated data for the shipped Ladder_Pump and '
                 'Main_Pump at every flow, trim, speed, density and nameplate power (C11_shipped_pumps); Ladder_Pump600 and Main_Pump500 do '
                 'not have that shape (their tabulated power falls from shut-off to the first positive flow) and torque mode needs elasticity <= 2, '
                 'which the shipped curves exceed near their top end',
                 'C11 termination of the torque / power iteration: PROVED (C11_limited_search_terminates) under a strict shape premise -- ln of the '
                 'headroom ratio Pavail/P falls by at least delta and at most 4 - delta per unit of ln n on (0, set speed], the required power is '
                 'bounded and the floor n0 q(n0)^(1/delta) is above 1/60 Hz: the map is a contraction on the logarithmic scale; the search samples '
                 'the premise on the shipped pumps with delta = 1/2 (strict-premise:holds / fails); where it fails termination is searched with '
                 'a wall-clock guard only',
                 'curve mode relies on the bracketing root finder (scipy, oracle) answering inside its bracket'],
        level_text='Proof (model of PumpObj.Pump, all pumps / curves / modes): whatever point() returns, the flow is the requested flow, the head is '
                   'the affinity-law scaling QH[Q/(s t^2)] s^2 t^2 rho at the RETURNED speed and the power the scaling QP[Q/(s t^2)] s^3 t^5 rho; '
                   'the speed is the set speed when the mode is none or the driver can supply the power there; a speed returned by the torque / '
                   'power iteration through its loop test balances available and required power within 0.1 kW; the curve-mode result is the set '
                   'speed, a driver speed below it, or the bracketing root, hence never above the set speed; the torque / power iteration never leaves '
                   '(0, set speed] when the required power neither falls with speed nor outgrows n^4 relative to the available power, and it '
                   'terminates (through its loop test) when those bounds hold with a margin delta.',
        level_note='Hand-written model compared bit for bit with Pump.point / power_required / power_available on the shipped example pumps in '
                   'all four modes (driver-limited cases included; scipy root recorded and replayed as oracle); the harness also checks that '
                   'point() leaves the pump __dict__ unchanged.',
    ),
    'C10': dict(
        own_files=['Lemmas/LC10.v', 'Props/C10.v'],
        corr=[dict(script='corr_oppoint.py', n=400, n_thorough=10000), dict(script='corr_qimin.py', n=200, n_thorough=5000)],
        search='C10.py', budget_quick=50, budget_thorough=800, search_timeout=3400,
        partial=['C10 landing clause: PROVED after the repair of find_operating_point (C10_lands): whenever the pump head is at least the system head '
                 'at qimin and below it at the largest flow, a flow is returned -- the converged secant root at or right of qimin or, when the '
                 'unbracketed search cycled / wandered out of a table / landed left of qimin, the bracketing solver\'s root, accepted only when the '
                 'heads agree to 1e-6 relative (a jump across zero is rejected).  That scipy\'s bracketing solver answers inside its bracket at a '
                 'sign change is an oracle assumption; that the root returned is THE crossing when there are several is not claimed; both are '
                 'searched against an independent bisection on real pipelines',
                 'C10_qimin: PROVED after the repair (C10_qimin_not_above_tabulated): whatever scipy\'s two bounded minimisations return (oracles), '
                 'the flow reported has a head no higher than that at any tabulated flow at or above the lower bound of the search; the '
                 'model of qimin is compared bit for bit with the real method on synthetic multi-modal system curves',
                 'heads equal within 1e-6 relative: by construction for a bracketed root; for a secant root proved is |gap(b)| <= 1.48e-8 x '
                 '|secant slope| at the last evaluated flow'],
        level_text='Proof (model of find_operating_point with scipy\'s secant written out and the bracketing solver as an oracle, for every head-gap '
                   'function and every set of flows at which evaluating it raises IndexError): pump head below system head at qimin gives '
                   'OperatingPointError; a flow is returned only as a converged secant root at or right of qimin or as the bracketing solver\'s '
                   'answer with heads equal to 1e-6 relative; an IndexError raised inside the unbracketed search is swallowed; ValueError exactly '
                   'when the two starting flows coincide; the landing clause (a flow IS returned when the gap changes sign and the bracketing '
                   'solver finds a genuine root); a converged secant root is one secant update, at most 1.48e-8 away, from the last evaluated flow, '
                   'where the heads differ by at most 1.48e-8 times the local secant slope.',
        level_note='The model is compared bit for bit (outcome, root, every flow visited by the secant search) with the real find_operating_point on '
                   'recorded gap tables of twelve curve shapes, incl. kinked, jumping and finite-range (IndexError) pump curves; the bracketing '
                   'solver\'s answer is recorded and replayed as an oracle.',
    ),
    'C13': dict(
        own_files=['Lemmas/LC13.v', 'Props/C13.v'],
        corr=[dict(script='corr_gen.py', n=500, n_thorough=10000, args=['Stratified.vls_FBSB', 'Stratified.fb_Erhg', 'Stratified.fb_head_loss',
                                                                        'Stratified.fb_pressure_loss', 'Stratified.lambda1', 'Stratified.lambda12',
                                                                        'Stratified.lambda12_sf'])],
        search='C13.py', budget_quick=800, budget_thorough=40000,
        partial=['C13_converges: that the 20-step Newton search reports success (and a positive speed) for every input of E with Cvs <= 0.40 is not '
                 'proved; searched with the high-deposit-limit and the weak small-pipe corners over-weighted',
                 'C13_unique: uniqueness is proved GIVEN monotonicity of the fixed-bed excess gradient in line speed, which is C04\'s partial clause'],
        level_text='Proof (regenerated model, induction over the step budget): whenever vls_FBSB\'s search returns through its convergence test the '
                   'fixed-bed excess gradient at the returned speed is within e of musf -- 0.1 % for the default e = musf/1000 (checked to be the '
                   'default, with the default budget 20); the public value is that run\'s value; where the fixed-bed excess gradient rises at least at a rate m per m/s (premise), the returned '
                   'speed is within e/m of the one true crossing (C13_exit_near_crossing). Convergence on E and uniqueness are partial.',
        level_note='Loop translated as structural recursion on max_steps returning (value, converged); value compared bit-exactly with the Python for '
                   'max_steps in {0,1,3,10,20,50}.',
    ),
    'C12': dict(
        own_files=['Lemmas/LC12.v', 'Lemmas/LC12b.v', 'Lemmas/LC12c.v', 'Lemmas/LC12d.v', 'Lemmas/LC12e.v', 'Lemmas/LC12f.v', 'Lemmas/LC12g.v', 'Lemmas/LMono.v', 'Props/C12.v'],
        corr=[dict(script='corr_slurry.py', n=60, n_thorough=1500, args=['--parts', 'fracs,getdx,regen'])],
        search='C12.py', budget_quick=400, budget_thorough=20000,
        partial=['get_dx increasing over the whole of (0,1) is proved for every grading with increasing fractions and positive increasing '
                 'diameters (C12_get_dx_increasing) and, as a closed corollary, for every grading create_fracs builds from a D15/D50/D85 input '
                 'with D50 above the pseudo-liquid limit (C12_three_point_get_dx_increasing); for longer inputs it follows from C12_structure '
                 'in the same way but is not restated',
                 'the 4-point inputs are covered by the general theorem C12_structure + C12_skip (any number of points); a closed corollary like '
                 'C12_three_point is written only for the 3-point input'],
        level_text='Proof (model of create_fracs, any number of input points and subdivisions): after discarding points below the pseudo-liquid limit '
                   'the result is start point (iff the log-linear distribution reaches the limit at a positive fraction, and then exactly there) ++ n '
                   'interior nodes and the input point per remaining interval ++ one top point at most at 0.999; strictly increasing in fraction and '
                   'in diameter; count formula; every remaining input point is a node. For the D15/D50/D85 input with D50 above the limit: 12 or 11 '
                   'nodes, and get_dx returns exactly D15 (interpolated or extrapolated on the same log-linear line), D50 and D85. get_dx rejects '
                   'fractions outside (0,1) and returns node values at nodes; strictly between two tabulated fractions it stays strictly between the two '
                   'tabulated diameters (C12_get_dx_between_nodes; closed form C12_three_point_between: D15 < d(f) < D50 on (15 %, 50 %), '
                   'D50 < d(f) < D85 on (50 %, 85 %)).',
        level_note='Hand-written model compared bit for bit (whole dict) with create_fracs on 3-, 4- and 5-point inputs, with get_dx and generate_GSD.',
    ),
    'C15': dict(
        own_files=['Lemmas/LC15a.v', 'Lemmas/LC15b.v', 'Props/C15.v'],
        corr=[dict(script='corr_excel.py', n=4, n_thorough=40)],
        search='C15.py', budget_quick=12, budget_thorough=250,
        partial=['C15 whole-workbook round trip is a theorem about the abstract workbook (load (store p) = p, Models/ExcelStore.v and Excel.v); the step '
                 'from the abstract workbook to the bytes of the .xlsx file and back is openpyxl (an oracle): numbers pass through a 16-significant-'
                 'digit decimal representation, so on real files equality of stored numbers is up to that rounding; compared on generated '
                 'pipelines (objects field by field, heads at 1e-9)',
                 'C15 equivalence of the reloaded OBJECTS (Pipeline / Pump / Slurry instances rebuilt by the loader from the abstract data, '
                 'system and pump heads at any flow) is checked on the real code by the search, not proved; the grading part is proved '
                 '(C15_grading_roundtrip)',
                 'C15_roundtrip covers up to 40 pumps with the tab names store_to_excel uses (the name facts are checked by computation for '
                 'k = 1..40); for any naming scheme and any number of pumps it holds under the stated recognisability premises '
                 '(C15_roundtrip_any_naming)'],
        level_text='Proof: (file name, whitelist regenerated from the source) for every list of code points as pipeline name / requested name / time '
                   'stamp the stored base name is [A-Za-z0-9_-]* followed by ".xlsx", contains no path separator (so it is a direct child of the '
                   'requested folder) and a trailing ".xlsx" is not doubled; (grading) the three stored diameters D15/D50/D85 regenerate exactly '
                   'the same grading for every slurry with ratios above 1 and D50 above the pseudo-liquid limit, whatever the solids density; '
                   '(whole workbook) load (store p) = p for every well-formed abstract pipeline -- every section, pump curve row, driver and slurry '
                   'field -- for any numeric instance (decode (encode x) = x, induction over the section list).',
        level_note='The store model is compared cell by cell with the in-memory workbook the real store_to_excel builds (captured at save time); the '
                   'loader model with the real loader on stored files and on every single fault of them. xlsx number formatting and openpyxl are '
                   'trusted oracles.',
    ),
    'C16': dict(
        own_files=['Lemmas/LC16.v', 'Props/C16.v'],
        corr=[dict(script='corr_excel.py', n=4, n_thorough=40)],
        search='C16.py', budget_quick=450, budget_thorough=6000,
        partial=['C16 well-formed workbooks load: proved is that after a passed validation every read of a validated single-value field succeeds; '
                 'that the table cells are numeric / the curves non-empty is an extra premise outside the property\'s fault list and is not '
                 'discharged by validation (a blank cell INSIDE a table still escapes as TypeError, as the model and the real loader agree)'],
        level_text='Proof (model of validate_excel and the loaders with exception classes): a passed validation implies exactly one pipeline and '
                   'one slurry sheet and every required named range present in the required shape on every typed sheet; each listed fault -- '
                   'missing/duplicated required sheet, missing name, blank or text value in a numeric single-value field, missing or duplicated '
                   'table column, pump named in the pipe table without a tab -- yields InvalidExcelError and the field checks raise no foreign '
                   'exception when table headers are text.',
        level_note='Model compared with the real loader on every single fault of the shipped example and of stored generated pipelines (outcome '
                   'class incl. foreign exception classes, and every loaded field). The search enumerates the faults on real files.',
    ),
    'C17': dict(
        own_files=['Lemmas/LC17.v', 'Lemmas/LC17u.v', 'Lemmas/LC17b.v', 'Props/C17.v'],
        corr=[dict(script='corr_viewer.py', n=60, n_thorough=400)],
        search='C17.py', budget_quick=300, budget_thorough=6000,
        partial=['C17 no callback raises: proved for the bounded re-entry (a restored text re-enters its callback at most once); that the '
                 'library calls made by the callbacks and by the System tab (curve generation, operating point) do not raise is C02/C10 and is '
                 'observed on the real viewer by the event search, not proved here',
                 'C17 plotted data equal a fresh slurry: proved that after every event the cached tables are generate_curves of the current '
                 'parameters and the current stored grading (C17_plots_current, for the whole session and every saved pipeline); that the '
                 'stored grading equals the freshly built one is C07_fresh and the two are not composed into one statement; the search '
                 'compares every data source with a freshly built Slurry after every event',
                 'C17 System-tab displays and per-section slurries: the unit factors are proved (0.2 %), the Dp-reset rule is in the model; '
                 'the System tab\'s formatting of each display and the per-diameter copies (C09) are checked on the real viewer by the search',
                 'C17 NaN entries: over the reals there is no NaN; that "nan" is rejected is decided by the binary64 correspondence (the '
                 'model rejects it because both comparisons are false)',
                 'C17 Cv >= 0.01: holds for every event except a mixture-density entry, whose exact escape condition is a theorem '
                 '(C17_rhom_escape); the D15/D50/D85 geometric bounds (D85 <= Dp/2, D50 <= Dp/4, D15 >= 0.04 mm) are validated on entry but are '
                 'not invariants of the code (a later Dp or proportional D50 change can leave them) and are tracked, not proved'],
        level_text='Proof (state machine of the slurry tab and top bar over the reals, for any formatting and parsing functions): check_value '
                   'accept/reject; an accepted entry sets exactly its own model field(s), a rejected one leaves every parameter unchanged '
                   '(re-entrant callback included); for every event sequence 25 <= Dp*1000 <= 1500, 1.5 <= rhos <= 7, Cv <= 0.5 and Dp is a '
                   'section diameter in every pipeline; Cv >= 0.01 except through the mixture-density box (exact condition proved); after every '
                   'event every box shows the formatted model value and the cached curve tables are those of the current parameters and grading '
                   '(cache coherence is an invariant of every saved pipeline); a restored text re-enters its callback at most once; US unit factors '
                   'within 0.2 % of the exact conversions, SI factors exact.',
        level_note='Model compared bit-exactly (parameters, D15/D85, fluid, radio button and the text of all seven boxes) with the real main.py + '
                   'SystemTab.py under the bokeh double tools/fakebokeh on event sequences (singles, pairs, random depth 15). The search runs '
                   'the real viewer and checks every clause of the property after every event.',
    ),
    'C02': dict(
        own_files=['Lemmas/SwameeJain.v', 'Lemmas/LIl.v', 'Lemmas/LSettle.v', 'Lemmas/LDefined.v', 'Lemmas/LFb.v', 'Lemmas/LLdv.v', 'Lemmas/LC02.v', 'Props/C02.v'],
        corr=[dict(script='corr_gen.py', n=250, n_thorough=6000,
                   args=['Homogeneous.fluid_head_loss', 'Homogeneous.Erhg', 'Heterogeneous.vt_ruby', 'Heterogeneous.vth_RZ', 'Heterogeneous.Shr',
                         'Heterogeneous.Srs', 'Heterogeneous.Erhg', 'Stratified.fb_Erhg', 'Stratified.vls_FBSB', 'Framework.Cvs_Erhg',
                         'Framework.LDV', 'Framework.slip_ratio', 'Framework.Cvs_from_Cvt', 'Framework.Cvt_Erhg', 'Framework.pseudo_dlim']),
              dict(script='corr_slurry.py', n=12, n_thorough=200, args=['--parts', 'curves,graded'])],
        search='C02.py', budget_quick=300, budget_thorough=20000,
        partial=['C02 vls_FBSB (Newton loop): its side-condition predicate needs a non-zero finite-difference slope of the fixed-bed excess '
                 'gradient at every iterate (C04: FB rising, unproved); decided on the real code by the search (every public call on '
                 'envelope points, corners over-weighted)',
                 'C02 delivered-concentration path in general: proved for coarse grains (d/Dp >= 0.06, where the sliding-flow weight is 0): '
                 'Cvt < Cvs < Cvb; for finer grains Cvs <= Cvb is the unproved upper half of C05; the exact zero of the Eqn 8.12-3 denominator '
                 'is a recorded finding',
                 'C02 graded sand and the Slurry curve tables: compositions of the above over the pseudo-liquid (whose viscosity can leave the '
                 'envelope range); searched (every number of every table of random Slurry objects), not proved'],
        level_text='Proof (regenerated model + its generated side-condition predicates): on the whole envelope the spatial-concentration path is '
                   'defined -- Cvs_Erhg, its detailed result and Cvs_regime, i.e. the liquid gradient (turbulent branch, Re > 7000), the fixed-bed '
                   'force balance (bed half-angle in (0.45, 2.05) from the table accuracy theorem of C19, every perimeter / area / hydraulic '
                   'diameter positive, all three friction-factor logarithm arguments strictly inside (0,1)), the sliding bed, the heterogeneous '
                   'model (Richardson-Zaki exponent in (2.34, 4.7) hence KC > 0.58 > Cvs; sqrtcx positive on every branch) and the homogeneous '
                   'model, for both settings of both switches; settling velocities defined and positive; for coarse grains on the '
                   'delivered-concentration path Cvt < Cvs < Cvb strictly; LDV is defined for every iteration budget (every iterate of its four '
                   'loops positive, friction factor defined on the laminar and the turbulent branch). vls_FBSB, the Cvt path of finer grains, '
                   'graded sand and the curve tables are partial (searched).',
        level_note='The side-condition predicates f_ok are emitted by the translator next to each function (non-zero divisors, positive log / power '
                   'arguments, in-range table keys). Model executed bit-exactly against the real functions, including inputs on which both raise. '
                   'Known finding: the exact zero of the Eqn 8.12-3 denominator (ZeroDivisionError), identified by its call site.',
    ),
    'C04': dict(
        own_files=['Lemmas/SwameeJain.v', 'Lemmas/LIl.v', 'Lemmas/LSettle.v', 'Lemmas/LHe.v', 'Lemmas/LHo.v', 'Lemmas/LDefined.v', 'Lemmas/LC01.v', 'Lemmas/LC05.v', 'Props/C04.v'],
        corr=[dict(script='corr_gen.py', n=250, n_thorough=6000,
                   args=['Homogeneous.fluid_head_loss', 'Homogeneous.Erhg', 'Heterogeneous.vt_ruby', 'Heterogeneous.vth_RZ', 'Heterogeneous.Erhg',
                         'Heterogeneous.sqrtcx', 'Stratified.fb_Erhg', 'Framework.Cvs_Erhg', 'Framework.Cvs_Erhg_dict', 'Framework.Cvt_Erhg'])],
        search='C04.py', budget_quick=400, budget_thorough=20000,
        partial=['C04 fixed-bed excess gradient rises with line speed: not proved (difference of two increasing functions; thin-bed corner); '
                 'searched with +1 % neighbour pairs',
                 'C04 selected Erhg never negative for delivered-concentration input: proved under Xi < 1, which is the unproved upper half of C05 '
                 '(C04_delivered_nonneg_partial); searched',
                 'C04 homogeneous bounds are proved for steel roughness (eps <= 4.5e-5 m, as the property states); for rougher pipes lambda can '
                 'exceed 8/225 and the lower bound is not claimed',
                 'C04 quantitative no-jump clause (1e-7 relative input change -> < 1e-3 relative output change): proved is that the selection is '
                 '1-Lipschitz in the four model curves and that every branch threshold inside the models joins continuously; an elasticity '
                 'bound for the four curves themselves is not proved; searched with 1e-7 pairs at random points, on thresholds and across '
                 'every curve crossing located by bisection'],
        level_text='Proof (regenerated model, exact reals): on the envelope the carrier-liquid gradient is positive, strictly rises with line speed '
                   'and strictly falls with pipe diameter (Swamee-Jain: lambda*Re^2 increasing, lambda decreasing in Re and in relative roughness); '
                   'Ruby-Zanke settling velocity strictly rises with grain size and with density; hindered settling is positive, below the free '
                   'value and strictly falls with concentration; the heterogeneous excess gradient strictly falls with line speed for both '
                   'settings of both switches and is positive; the homogeneous excess gradient (Eqn 8.7-8) lies between 0 and the liquid '
                   'gradient (lambda <= 8/225 on the envelope with steel roughness makes the Talmon term sb <= 1 + Rsd Cvs); the selected '
                   'gradient is max(min(FB,SB,He),Ho), a 1-Lipschitz selection, and is never negative for spatial-concentration input; the '
                   'sliding-flow blend and both sqrtcx breakpoints join without a jump.',
        level_note='Model regenerated from the Python on every run and executed bit-exactly against the real functions. The search compares '
                   'neighbouring inputs on the real code, including pairs straddling every crossing of two regime curves.',
    ),
}
