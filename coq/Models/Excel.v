(* Excel: hand-written executable model of DHLLDV_viewer/load_pump_excel.py (validate_excel, the loaders) and of
   store_pump_excel.py's workbook layout, over an ABSTRACT workbook = what openpyxl exposes: an ordered list of
   sheets, each with a title and worksheet-scope defined names pointing at a single cell or at a rectangular range.
   Every partial step of the loader carries the exception class the Python raises there; the outcome of a load is
   Ok data | Invalid (InvalidExcelError) | Other class.
   Tied to the code by tools/harness/corr_excel.py (abstract workbooks are materialised with openpyxl and run through
   the real loader; real store_to_excel output is read back into the abstract form).  No proofs here. *)
From Coq Require Import ZArith List Bool String Ascii.
From DHV Require Import NumOps.
Import ListNotations.
Local Open Scope string_scope.

(* ---- the little string library the loader needs (ASCII lower-casing, substring test, removesuffix) ---- *)
Definition lower_ascii (a : ascii) : ascii :=
  let n := nat_of_ascii a in if andb (Nat.leb 65 n) (Nat.leb n 90) then ascii_of_nat (n + 32) else a.
Fixpoint lower (s : string) : string := match s with EmptyString => EmptyString | String a r => String (lower_ascii a) (lower r) end.
Fixpoint prefixb (p s : string) : bool :=
  match p, s with
  | EmptyString, _ => true
  | String a p', String b s' => andb (Ascii.eqb a b) (prefixb p' s')
  | _, _ => false
  end.
Fixpoint containsb (p s : string) : bool :=
  orb (prefixb p s) (match s with EmptyString => false | String _ s' => containsb p s' end).
Fixpoint rev_string (s : string) (acc : string) : string := match s with EmptyString => acc | String a r => rev_string r (String a acc) end.
Definition remove_suffix (suf s : string) : string :=
  let rs := rev_string s EmptyString in let rf := rev_string suf EmptyString in
  if prefixb rf rs then rev_string (substring (String.length suf) (String.length s - String.length suf) rs) EmptyString else s.

Section Excel.
Context {T : Type} (N : NumOps T).

Inductive cell : Type := CNum (x : T) | CStr (s : string) | CBlank.
Inductive dname : Type := Single (c : cell) | Range (rows : list (list cell)).
Record sheet : Type := mkSheet { s_title : string; s_names : list (string * dname) }.
Definition workbook := list sheet.

Inductive exn : Type := KeyError | AttributeError | TypeError | ValueError | StopIteration | IndexError | ZeroDivisionError.
Inductive res (A : Type) : Type := ROk (a : A) | RInvalid | ROther (e : exn).
Arguments ROk {A} _. Arguments RInvalid {A}. Arguments ROther {A} _.
Definition bind {A B} (r : res A) (f : A -> res B) : res B :=
  match r with ROk a => f a | RInvalid => RInvalid | ROther e => ROther e end.
Notation "'do' x <- r ; k" := (bind r (fun x => k)) (at level 200, x name, r at level 100, k at level 200).

(* ---- excel_requireds ---- *)
Inductive stype : Type := TPipeline | TSlurry | TPump | TDriver.
Definition stype_word (t : stype) : string := match t with TPipeline => "pipeline" | TSlurry => "slurry" | TPump => "pump" | TDriver => "driver" end.
Definition all_types : list stype := [TPipeline; TSlurry; TPump; TDriver].
Definition required (t : stype) : bool := match t with TPipeline | TSlurry => true | _ => false end.
Inductive ftype : Type := FStr | FFloat | FTable (cols : list (list string)).   (* a column is found by ALL its words *)
Definition fields (t : stype) : list (string * ftype) :=
  match t with
  | TPipeline => [("name", FStr); ("pipe_table", FTable [["name"]; ["dia"]; ["length"]; ["total"; "k"]; ["elev"; "change"]])]
  | TSlurry => [("name", FStr); ("pipe_dia", FFloat); ("d_15", FFloat); ("d_50", FFloat); ("d_85", FFloat); ("fluid", FStr);
                ("Cv", FFloat); ("rhos", FFloat); ("rhoi", FFloat)]
  | TPump => [("name", FStr); ("design_impeller", FFloat); ("suction_dia", FFloat); ("disch_dia", FFloat); ("design_speed", FFloat);
              ("limited", FStr); ("gear_ratio", FFloat); ("avail_power", FFloat);
              ("pump_curve", FTable [["flow"]; ["head"]; ["power"]])]
  | TDriver => [("name", FStr); ("power_curve", FTable [["speed"]; ["power"]])]
  end.

Definition types_of (title : string) : list stype := filter (fun t => containsb (stype_word t) (lower title)) all_types.

Fixpoint assoc {A} (k : string) (l : list (string * A)) : option A :=
  match l with [] => None | (k', v) :: r => if String.eqb k' k then Some v else assoc k r end.

(* get_range_value: wb[sheet].defined_names[name] -> KeyError; a range where a cell is expected -> AttributeError *)
Definition get_range_value (s : sheet) (name : string) : res cell :=
  match assoc name (s_names s) with
  | None => ROther KeyError
  | Some (Single c) => ROk c
  | Some (Range _) => ROther AttributeError
  end.

(* header cells are lower-cased: a non-string header cell -> AttributeError *)
Fixpoint header_of (row : list cell) : res (list string) :=
  match row with
  | [] => ROk []
  | CStr s :: r => do t <- header_of r; ROk (lower s :: t)
  | _ :: r => ROther AttributeError
  end.
Definition col_matches (words : list string) (h : string) : bool := forallb (fun w => containsb w h) words.

Definition validate_field (s : sheet) (f : string * ftype) : res unit :=
  match snd f with
  | FStr =>
    match get_range_value s (fst f) with
    | ROk _ => ROk tt
    | ROther KeyError | ROther AttributeError => RInvalid       (* except (AttributeError, KeyError) *)
    | RInvalid => RInvalid | ROther e => ROther e
    end
  | FFloat =>
    match get_range_value s (fst f) with
    | ROk (CNum _) => ROk tt
    | ROk _ => RInvalid
    | ROther KeyError | ROther AttributeError => RInvalid
    | RInvalid => RInvalid | ROther e => ROther e
    end
  | FTable cols =>
    match assoc (fst f) (s_names s) with
    | None => RInvalid                                           (* except KeyError *)
    | Some (Single _) => ROther TypeError                        (* rows[0] on a Cell *)
    | Some (Range []) => ROther IndexError
    | Some (Range (h :: _)) =>
      do hd <- header_of h;
      if forallb (fun words => Nat.eqb (List.length (filter (col_matches words) hd)) 1) cols then ROk tt else RInvalid
    end
  end.

Fixpoint validate_fields (s : sheet) (fs : list (string * ftype)) : res unit :=
  match fs with [] => ROk tt | f :: r => do _ <- validate_field s f; validate_fields s r end.

Fixpoint validate_sheets (wb : workbook) : res unit :=
  match wb with
  | [] => ROk tt
  | s :: r => do _ <- (match types_of (s_title s) with [t] => validate_fields s (fields t) | _ => ROk tt end); validate_sheets r
  end.

Definition validate (wb : workbook) : res unit :=
  if forallb (fun t => orb (negb (required t))
                           (Nat.eqb (List.length (filter (fun s => containsb (stype_word t) (lower (s_title s))) wb)) 1)) all_types
  then validate_sheets wb else RInvalid.

(* ---- loaders ---- *)
Definition to_float (c : cell) : res T :=
  match c with CNum x => ROk x | CStr _ => ROther ValueError | CBlank => ROther TypeError end.
(* str(value): always succeeds; None -> "None" *)
Definition to_str (c : cell) : string := match c with CStr s => s | CBlank => "None" | CNum _ => "<number>" end.

Fixpoint find_col (words : list string) (hd : list string) (i : nat) : res nat :=
  match hd with
  | [] => ROther StopIteration
  | h :: r => if col_matches words h then ROk i else find_col words r (S i)
  end.
(* first-row header as the loaders read it: c.lower() on every cell (AttributeError on a non-string) *)
Definition nth_cell (row : list cell) (i : nat) : cell := nth i row CBlank.

Record apipe : Type := mkPipe { pp_name : string; pp_d : T; pp_L : T; pp_K : T; pp_z : T }.
Record apump : Type := mkPumpA {
  pu_name : string; pu_impeller : T; pu_suction : T; pu_disch : T; pu_speed : T; pu_limited : string; pu_gear : T; pu_avail : T;
  pu_curve : list (T * T * T);                  (* (flow, head, power) rows, in sheet order, all-zero rows dropped *)
  pu_driver : option (string * list (T * T)) }.
Inductive asec : Type := APipe (p : apipe) | APump (p : apump).
Record aslurry : Type := mkSlurryA { sl_name : string; sl_Dp : T; sl_d15 : T; sl_d50 : T; sl_d85 : T; sl_fluid : string;
                                     sl_Cv : T; sl_rhos : T; sl_rhoi : T }.
Record apipeline : Type := mkPipeline { pl_name : string; pl_secs : list asec; pl_slurry : aslurry }.

Definition fnum (s : sheet) (name : string) : res T := do c <- get_range_value s name; to_float c.
Definition fstr (s : sheet) (name : string) : res string := do c <- get_range_value s name; ROk (to_str c).

Definition table_rows (s : sheet) (name : string) : res (list (list cell)) :=
  match assoc name (s_names s) with
  | None => ROther KeyError
  | Some (Single _) => ROther TypeError
  | Some (Range rows) => ROk rows
  end.

Fixpoint driver_rows (rows : list (list cell)) (sc pc : nat) : res (list (T * T)) :=
  match rows with
  | [] => ROk []
  | r :: rest => do a <- to_float (nth_cell r sc); do b <- to_float (nth_cell r pc); do t <- driver_rows rest sc pc; ROk ((a, b) :: t)
  end.
Definition load_driver (s : sheet) : res (string * list (T * T)) :=
  do nm <- get_range_value s "name";
  do rows <- table_rows s "power_curve";
  match rows with
  | [] => ROther IndexError
  | h :: data =>
    do hd <- header_of h;
    do sc <- find_col ["speed"] hd 0;
    do pc <- find_col ["power"] hd 0;
    do cv <- driver_rows data sc pc;
    match cv with [] => ROther IndexError | _ => ROk (to_str nm, cv) end
  end.

Fixpoint pump_rows (rows : list (list cell)) (fc hc pc : nat) : res (list (T * T * T)) :=
  match rows with
  | [] => ROk []
  | r :: rest =>
    do q <- to_float (nth_cell r fc); do h <- to_float (nth_cell r hc); do p <- to_float (nth_cell r pc);
    do t <- pump_rows rest fc hc pc;
    if neqb N (nsum N [q; h; p]) (nint N 0%Z) then ROk t else ROk ((q, h, p) :: t)
  end.
Definition load_pump (s : sheet) (drv : option sheet) : res apump :=
  do nm <- fstr s "name";
  do di <- fnum s "design_impeller"; do sd <- fnum s "suction_dia"; do dd <- fnum s "disch_dia"; do ds <- fnum s "design_speed";
  do lim <- fstr s "limited"; do gr <- fnum s "gear_ratio"; do av <- fnum s "avail_power";
  do rows <- table_rows s "pump_curve";
  match rows with
  | [] => ROther IndexError
  | h :: data =>
    do hd <- header_of h;
    do fc <- find_col ["flow"] hd 0; do hc <- find_col ["head"] hd 0; do pc <- find_col ["power"] hd 0;
    do cv <- pump_rows data fc hc pc;
    match cv with
    | [] => ROther IndexError
    | _ =>
      do d <- (match drv with None => ROk None | Some ds' => do x <- load_driver ds'; ROk (Some x) end);
      ROk (mkPumpA nm di sd dd ds lim gr av cv d)
    end
  end.

Definition load_slurry (s : sheet) : res aslurry :=
  do nm <- fstr s "name"; do dp <- fnum s "pipe_dia"; do d15 <- fnum s "d_15"; do d50 <- fnum s "d_50"; do d85 <- fnum s "d_85";
  do fl <- fstr s "fluid"; do cv <- fnum s "Cv"; do rs <- fnum s "rhos"; do ri <- fnum s "rhoi";
  if neqb N d15 (nint N 0%Z) then ROther ZeroDivisionError
  else if neqb N d50 (nint N 0%Z) then ROther ZeroDivisionError
  else ROk (mkSlurryA nm dp d15 d50 d85 fl cv rs ri).

(* classification used by load_pipeline_from_workbook: first match in the order pipeline, pump, driver, slurry *)
Definition has (w : string) (s : sheet) : bool := containsb w (lower (s_title s)).
Definition pump_key (s : sheet) : string := remove_suffix "pump" (lower (s_title s)).
Definition driver_key (s : sheet) : string := remove_suffix "driver" (lower (s_title s)).

Definition is_pump_sheet (s : sheet) : bool := andb (negb (has "pipeline" s)) (has "pump" s).
Definition is_driver_sheet (s : sheet) : bool := andb (negb (has "pipeline" s)) (andb (negb (has "pump" s)) (has "driver" s)).
Definition is_slurry_sheet (s : sheet) : bool :=
  andb (negb (has "pipeline" s)) (andb (negb (has "pump" s)) (andb (negb (has "driver" s)) (has "slurry" s))).

(* dict semantics: a later sheet with the same key wins *)
Fixpoint last_with {A} (key : sheet -> string) (k : string) (l : list sheet) (pick : sheet -> A) (cur : option A) : option A :=
  match l with [] => cur | s :: r => last_with key k r pick (if String.eqb (key s) k then Some (pick s) else cur) end.

Fixpoint load_pumps (wb : workbook) (ps : list sheet) : res (list (string * apump)) :=
  match ps with
  | [] => ROk []
  | s :: r =>
    do p <- load_pump s (last_with driver_key (pump_key s) (filter is_driver_sheet wb) (fun x => x) None);
    do t <- load_pumps wb r; ROk ((pump_key s, p) :: t)
  end.

Fixpoint pipe_rows (rows : list (list cell)) (pumps : list (string * apump)) (nc dc lc kc zc : nat) : res (list asec) :=
  match rows with
  | [] => ROk []
  | r :: rest =>
    match nth_cell r nc with
    | CStr nm =>
      if containsb "pump" (lower nm) then
        match assoc (remove_suffix "pump" (lower nm)) (rev pumps) with
        | Some p => do t <- pipe_rows rest pumps nc dc lc kc zc; ROk (APump p :: t)
        | None => RInvalid                                     (* no such pump tab *)
        end
      else
        do d <- to_float (nth_cell r dc); do l <- to_float (nth_cell r lc); do k <- to_float (nth_cell r kc); do z <- to_float (nth_cell r zc);
        do t <- pipe_rows rest pumps nc dc lc kc zc; ROk (APipe (mkPipe nm d l k z) :: t)
    | _ => ROther AttributeError                               (* .lower() on a non-string name cell *)
    end
  end.

Definition load_raw (wb : workbook) : res apipeline :=
  (* the slurry and the pipeline name come from the LAST matching sheet; validation guarantees exactly one *)
  match last_with (fun _ => "") "" (filter (has "pipeline") wb) (fun x => x) None with
  | None => ROther IndexError       (* pipesheet_id False -> sheet 0: cannot happen after validation *)
  | Some ps =>
    do plname <- get_range_value ps "name";
    do slurry <- (match last_with (fun _ => "") "" (filter is_slurry_sheet wb) (fun x => x) None with
                  | Some ss => load_slurry ss
                  | None => ROther AttributeError end);
    do pumps <- load_pumps wb (filter is_pump_sheet wb);
    do rows <- table_rows ps "pipe_table";
    match rows with
    | [] => ROther IndexError
    | h :: data =>
      do hd <- header_of h;
      do nc <- find_col ["name"] hd 0; do dc <- find_col ["dia"] hd 0; do lc <- find_col ["length"] hd 0;
      do kc <- find_col ["total"; "k"] hd 0; do zc <- find_col ["elev"; "change"] hd 0;
      do secs <- pipe_rows data pumps nc dc lc kc zc;
      ROk (mkPipeline (to_str plname) secs slurry)
    end
  end.

Definition load (wb : workbook) : res apipeline := do _ <- validate wb; load_raw wb.

End Excel.

Arguments ROk {A} _.
Arguments RInvalid {A}.
Arguments ROther {A} _.
