(* Small facts shared by several proof files. *)
From Coq Require Import Reals List Bool Lra.
From DHV Require Import NumOps RInst Interp Fracs.
Import ListNotations.
Local Open Scope R_scope.

Lemma truthy_R r : r <> 0 -> truthy RN r = true.
Proof.
  intro H. unfold truthy. toR. unfold Reqb. destruct (Req_EM_T r (IZR 0)) as [E|E]; [contradiction|reflexivity].
Qed.
Lemma truthy_R0 : truthy RN 0 = false.
Proof. unfold truthy. toR. unfold Reqb. destruct (Req_EM_T 0 (IZR 0)) as [E|E]; [reflexivity|contradiction]. Qed.
