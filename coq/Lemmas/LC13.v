(* Proofs for C13: when the fixed-bed / sliding-bed search reports success, the returned speed is a crossing. *)
From Coq Require Import Reals List Bool Lra.
From DHV Require Import NumOps RInst.
From DHV Require Constants Homogeneous Stratified Framework.
Import Stratified.
Local Open Scope R_scope.

(* early return of the Newton loop: |fb_Erhg(v) - musf| < e *)
Lemma loop_exit : forall fuel Dp d eps nu rhol rhos Cvs e dv v0 v,
  vls_FBSB_loop1 RN fuel Dp d eps nu rhol rhos Cvs e dv v0 = (v, true) ->
  Rabs (fb_Erhg RN v Dp d eps nu rhol rhos Cvs - Constants.musf RN) < e.
Proof.
  induction fuel as [|fuel IH]; intros Dp d eps nu rhol rhos Cvs e dv v0 v H; [discriminate H|].
  cbn [vls_FBSB_loop1] in H. cbv zeta in H. toR_in H.
  destruct (Rltb (Rabs (fb_Erhg RN v0 Dp d eps nu rhol rhos Cvs - Constants.musf RN)) e) eqn:B.
  - injection H as <-. apply Rltb_true. exact B.
  - eapply IH. exact H.
Qed.

Lemma exit Dp d eps nu rhol rhos Cvs n e v :
  vls_FBSB_full RN Dp d eps nu rhol rhos Cvs n e = (v, true) ->
  Rabs (fb_Erhg RN v Dp d eps nu rhol rhos Cvs - Constants.musf RN) < e.
Proof. unfold vls_FBSB_full. cbv zeta. apply loop_exit. Qed.

(* with the default tolerance e = musf/1000 that is within 0.1 % of the sliding-friction coefficient *)
Lemma exit_default Dp d eps nu rhol rhos Cvs n v :
  vls_FBSB_full RN Dp d eps nu rhol rhos Cvs n (vls_FBSB_default_e RN) = (v, true) ->
  Rabs (fb_Erhg RN v Dp d eps nu rhol rhos Cvs - Constants.musf RN) < Constants.musf RN / 1000.
Proof.
  intro H. pose proof (exit _ _ _ _ _ _ _ _ _ _ H) as X.
  unfold vls_FBSB_default_e, Constants.musf in *. toR. toR_in X. lra.
Qed.

(* the value and the flag come from the same run *)
Lemma value_of_full Dp d eps nu rhol rhos Cvs n e :
  vls_FBSB RN Dp d eps nu rhol rhos Cvs n e = fst (vls_FBSB_full RN Dp d eps nu rhol rhos Cvs n e).
Proof. reflexivity. Qed.

(* uniqueness of the crossing follows from monotonicity: a strictly increasing function meets a level at most once *)
Lemma crossing_unique (f : R -> R) (c a b : R) :
  (forall x y, x < y -> f x < f y) -> f a = c -> f b = c -> a = b.
Proof.
  intros Hm Ha Hb. destruct (Rtotal_order a b) as [L|[E|G]]; [|exact E|].
  - pose proof (Hm a b L). lra.
  - pose proof (Hm b a G). lra.
Qed.

(* the documented budget and tolerance *)
Lemma defaults : vls_FBSB_default_max_steps RN = 20%nat /\ vls_FBSB_default_e RN = Constants.musf RN / 1000.
Proof. split; [reflexivity|]. unfold vls_FBSB_default_e, Constants.musf. toR. reflexivity. Qed.


(* how far the returned speed can be from the true crossing: where the fixed-bed excess gradient rises at least at
   the rate m per m/s, a speed that meets the exit test with tolerance e is within e/m of the crossing *)
Lemma near_crossing (f : R -> R) (c m e v x : R) :
  0 < m -> (forall a b, a < b -> m * (b - a) <= f b - f a) -> f x = c -> Rabs (f v - c) < e -> Rabs (v - x) < e / m.
Proof.
  intros Hm Hs Hx He. apply Rabs_def2 in He. destruct He as [He1 He2].
  assert (Q : forall t, m * t < e -> t < e / m).
  { intros t Ht. apply Rmult_lt_reg_l with m; [exact Hm|]. replace (m * (e / m)) with e by (field; lra). exact Ht. }
  apply Rabs_def1.
  - destruct (Rle_or_lt v x) as [L|G].
    + apply Rle_lt_trans with 0; [lra|]. apply Q. lra.
    + apply Q. pose proof (Hs x v G). lra.
  - destruct (Rle_or_lt x v) as [L|G].
    + assert (0 < e / m) by (apply Q; lra). lra.
    + assert (x - v < e / m) by (apply Q; pose proof (Hs v x G); lra). lra.
Qed.

Lemma exit_near_crossing Dp d eps nu rhol rhos Cvs n e v m x :
  0 < m ->
  (forall a b, a < b -> m * (b - a) <= fb_Erhg RN b Dp d eps nu rhol rhos Cvs - fb_Erhg RN a Dp d eps nu rhol rhos Cvs) ->
  fb_Erhg RN x Dp d eps nu rhol rhos Cvs = Constants.musf RN ->
  vls_FBSB_full RN Dp d eps nu rhol rhos Cvs n e = (v, true) ->
  Rabs (v - x) < e / m.
Proof.
  intros Hm Hs Hx H.
  apply (near_crossing (fun u => fb_Erhg RN u Dp d eps nu rhol rhos Cvs) (Constants.musf RN) m e v x Hm Hs Hx).
  exact (exit _ _ _ _ _ _ _ _ _ _ H).
Qed.

(* the rate premise is satisfiable (a straight line of slope 2 meets it with m = 2) *)
Lemma rate_premise_nonvacuous : exists (f : R -> R) (m : R), 0 < m /\ forall a b, a < b -> m * (b - a) <= f b - f a.
Proof. exists (fun u => 2 * u), 2. split; [lra|]. intros a b _. lra. Qed.
