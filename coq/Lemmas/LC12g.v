(* C12, faithfulness between the given points: the diameter-at-fraction lookup never leaves the two tabulated
   diameters that bracket the requested fraction, and stays strictly inside them for a fraction strictly between two
   tabulated fractions (corollary of get_dx_node and of the global monotonicity in LMono).  Closed form for the grading
   create_fracs builds from a D15/D50/D85 input: every fraction between 15 % and 85 % gets a diameter between D15 and
   D85, below D50 left of 50 % and above it to the right. *)
From Coq Require Import Reals List Lra Lia Sorted.
From DHV Require Import NumOps RInst Fracs LC12 LC12b LC12c LC12d LC12e LMono LC12f.
From DHV Require Framework.
Import ListNotations.
Local Open Scope R_scope.

Lemma get_dx_between_nodes (g : list (R * R)) (fa da fb db f : R) :
  both_increasing g -> Forall (fun p => 0 < snd p) g -> (2 <= length g)%nat ->
  In (fa, da) g -> In (fb, db) g -> 0 < fa -> fb < 1 -> fa < f < fb ->
  da < get_dx RN g f < db.
Proof.
  intros BI Pos Len Ia Ib Ha Hb Hf.
  pose proof (both_increasing_keys _ BI) as Inc.
  assert (Ea : get_dx RN g fa = da) by (apply (get_dx_node g fa da Inc Ia); lra).
  assert (Eb : get_dx RN g fb = db) by (apply (get_dx_node g fb db Inc Ib); lra).
  split; [rewrite <- Ea|rewrite <- Eb]; apply (get_dx_increasing g); try assumption; lra.
Qed.

Lemma three_point_between (d15 d50 d85 Dp nu rhol rhos : R) :
  0 < d15 < d50 /\ d50 < d85 -> 0 < Framework.pseudo_dlim RN Dp nu rhol rhos < d50 ->
  let res := create_fracs RN [(15 / 100, d15); (50 / 100, d50); (85 / 100, d85)] Dp nu rhol rhos 10 in
  forall f, (5 / 10 < f < 85 / 100 -> d50 < get_dx RN res f < d85) /\
            (15 / 100 < f < 5 / 10 -> d15 < get_dx RN res f < d50).
Proof.
  intros Hd Hm res f.
  destruct (three_point_get_dx_increasing d15 d50 d85 Dp nu rhol rhos Hd Hm) as [_ Mono]. fold res in Mono.
  pose proof (get_dx_15 d15 d50 d85 Dp nu rhol rhos Hd Hm) as E15.
  pose proof (get_dx_50 d15 d50 d85 Dp nu rhol rhos Hd Hm) as E50.
  pose proof (get_dx_85 d15 d50 d85 Dp nu rhol rhos Hd Hm) as E85.
  fold res in E15, E50, E85.
  split; intros Hf.
  - split; [rewrite <- E50|rewrite <- E85]; apply Mono; lra.
  - split; [rewrite <- E15|rewrite <- E50]; apply Mono; lra.
Qed.
