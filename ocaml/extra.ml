(* extra.ml: line-protocol entries for the hand-written models *)
open Fnum
let dispatch (name : string) (a : string array) : string =
  match name with
  | _ -> raise Not_found
