(* Proofs for C03 (regime models): im = Erhg * Rsd * Cv + il  and  dp = im * g * rhol. *)
From Coq Require Import Reals Lra.
From DHV Require Import NumOps RInst.
From DHV Require Constants Homogeneous Heterogeneous Stratified Framework WilsonStratified WilsonV50.
Local Open Scope R_scope.

Definition Rsd (rhol rhos : R) : R := (rhos - rhol) / rhol.
Definition g : R := Constants.gravity RN.

Lemma g_pos : 0 < g.
Proof. unfold g, Constants.gravity. toR. lra. Qed.

Section S.
Variables (vls Dp d eps nu rhol rhos Cv : R).

Lemma ho_head : Homogeneous.homogeneous_head_loss RN vls Dp d eps nu rhol rhos Cv =
  Homogeneous.Erhg RN vls Dp d eps nu rhol rhos Cv true * Rsd rhol rhos * Cv
  + Homogeneous.fluid_head_loss RN vls Dp eps nu rhol.
Proof. reflexivity. Qed.
Lemma ho_pressure : Homogeneous.homogeneous_pressure_loss RN vls Dp d eps nu rhol rhos Cv =
  Homogeneous.homogeneous_head_loss RN vls Dp d eps nu rhol rhos Cv * g * rhol.
Proof. reflexivity. Qed.

Lemma he_head (sf sq : bool) : Heterogeneous.heterogeneous_head_loss RN vls Dp d eps nu rhol rhos Cv sf sq =
  Heterogeneous.Erhg RN vls Dp d eps nu rhol rhos Cv sf sq * Rsd rhol rhos * Cv
  + Homogeneous.fluid_head_loss RN vls Dp eps nu rhol.
Proof. reflexivity. Qed.
Lemma he_pressure (sf sq : bool) : Heterogeneous.heterogeneous_pressure_loss RN vls Dp d eps nu rhol rhos Cv sf sq =
  Heterogeneous.heterogeneous_head_loss RN vls Dp d eps nu rhol rhos Cv sf sq * g * rhol.
Proof. reflexivity. Qed.

Lemma sb_head (Cvb : R) : Stratified.sliding_bed_head_loss RN vls Dp d eps nu rhol rhos Cv Cvb =
  Stratified.Erhg RN vls Dp d eps nu rhol rhos Cv * Rsd rhol rhos * Cv
  + Homogeneous.fluid_head_loss RN vls Dp eps nu rhol.
Proof. reflexivity. Qed.
Lemma sb_pressure : Stratified.sliding_bed_pressure_loss RN vls Dp d eps nu rhol rhos Cv =
  Stratified.sliding_bed_head_loss RN vls Dp d eps nu rhol rhos Cv (Constants.Cvb RN) * g * rhol.
Proof. reflexivity. Qed.

(* fixed bed: the code goes the other way (pressure -> head -> Erhg), so the relation needs the
   divisions to be legal: rhol <> 0 and Rsd * Cv <> 0 (both hold on E) *)
Lemma fb_pressure : rhol <> 0 ->
  Stratified.fb_pressure_loss RN vls Dp d eps nu rhol rhos Cv =
  Stratified.fb_head_loss RN vls Dp d eps nu rhol rhos Cv * g * rhol.
Proof.
  intro H. unfold Stratified.fb_head_loss. cbv zeta. fold g.
  set (p := Stratified.fb_pressure_loss _ _ _ _ _ _ _ _ _). toR.
  pose proof g_pos. field. split; lra.
Qed.
Lemma fb_head : Rsd rhol rhos * Cv <> 0 ->
  Stratified.fb_head_loss RN vls Dp d eps nu rhol rhos Cv =
  Stratified.fb_Erhg RN vls Dp d eps nu rhol rhos Cv * Rsd rhol rhos * Cv
  + Homogeneous.fluid_head_loss RN vls Dp eps nu rhol.
Proof.
  intro H. unfold Stratified.fb_Erhg. cbv zeta.
  set (im := Stratified.fb_head_loss _ _ _ _ _ _ _ _ _).
  set (il := Homogeneous.fluid_head_loss _ _ _ _ _ _). toR. fold (Rsd rhol rhos).
  field. split; intro Z; apply H; rewrite Z; ring.
Qed.

Lemma ws_head (musf Cvb : R) : WilsonStratified.stratified_head_loss RN vls Dp d eps nu rhol rhos musf Cv Cvb =
  WilsonStratified.Erhg RN vls Dp d eps nu rhol rhos musf Cv Cvb * Rsd rhol rhos * Cv
  + Homogeneous.fluid_head_loss RN vls Dp eps nu rhol.
Proof.
  unfold WilsonStratified.stratified_head_loss. cbv zeta.
  set (e := WilsonStratified.Erhg _ _ _ _ _ _ _ _ _ _ _).
  set (il := Homogeneous.fluid_head_loss _ _ _ _ _ _). toR. fold (Rsd rhol rhos). ring.
Qed.
Lemma ws_pressure (musf Cvb : R) : WilsonStratified.stratified_pressure_loss RN vls Dp d eps nu rhol rhos musf Cv Cvb =
  WilsonStratified.stratified_head_loss RN vls Dp d eps nu rhol rhos musf Cv (nlit RN 6 10) * g * rhol.
Proof. reflexivity. Qed.

Lemma v50_head (fuel : nat) (d85 musf : R) :
  WilsonV50.heterogeneous_head_loss RN fuel vls Dp d d85 eps nu rhol rhos Cv musf =
  WilsonV50.Erhg RN fuel vls Dp d d85 eps nu rhol rhos musf * Rsd rhol rhos * Cv
  + Homogeneous.fluid_head_loss RN vls Dp eps nu rhol.
Proof. reflexivity. Qed.
Lemma v50_pressure (fuel : nat) (d85 musf : R) :
  WilsonV50.heterogeneous_pressure_loss RN fuel vls Dp d d85 eps nu rhol rhos Cv musf =
  WilsonV50.heterogeneous_head_loss RN fuel vls Dp d d85 eps nu rhol rhos Cv musf * g * rhol.
Proof. reflexivity. Qed.

(* the liquid line: pressure loss = head loss * g * rhol *)
Lemma il_pressure : Dp <> 0 ->
  Homogeneous.fluid_pressure_loss RN vls Dp eps nu rhol =
  Homogeneous.fluid_head_loss RN vls Dp eps nu rhol * g * rhol.
Proof.
  intro H. unfold Homogeneous.fluid_pressure_loss, Homogeneous.fluid_head_loss. cbv zeta. fold g.
  set (l := Homogeneous.swamee_jain_ff _ _ _ _). toR. pose proof g_pos. field. split; lra.
Qed.
End S.
