(* ExcelStore: hand-written model of DHLLDV_viewer/store_pump_excel.py's workbook layout -- the abstract workbook
   store_to_excel writes for an abstract pipeline (the data the loader of Models/Excel.v reads back).
   Sheet order as written: documentation, pipeline, then per pump in section order its tab (and, for limited = 'curve',
   its driver tab), then slurry.  Pump tabs are named "Number<k>Pump", driver tabs "Number<k>Driver", k = 1, 2, ...
   Cells written as '' come back from a saved file as blank and are modelled as blank.
   Tied to the code by tools/harness/corr_excel.py (part 'store': the real store_to_excel output, re-read with openpyxl
   into the abstract form, is compared with this function's output).  No proofs here (see Lemmas/LC15b.v). *)
From Coq Require Import ZArith List Bool String Ascii.
From DHV Require Import NumOps Excel.
Import ListNotations.
Local Open Scope string_scope.

(* str(k) for a natural number *)
Definition digit (n : nat) : ascii := ascii_of_nat (48 + n).
Fixpoint nat_str_aux (fuel n : nat) (acc : string) : string :=
  match fuel with
  | O => acc
  | S f => let acc' := String (digit (Nat.modulo n 10)) acc in
           if Nat.leb n 9 then acc' else nat_str_aux f (Nat.div n 10) acc'
  end.
Definition nat_str (n : nat) : string := nat_str_aux (S n) n EmptyString.

Definition pump_title (k : nat) : string := "Number" ++ nat_str k ++ "Pump".
Definition driver_title (k : nat) : string := "Number" ++ nat_str k ++ "Driver".

Section Store.
Context {T : Type} (N : NumOps T).
Variables ptitle dtitle : nat -> string.      (* instantiated with pump_title / driver_title *)

Notation cellT := (cell (T:=T)).
Notation sheetT := (sheet (T:=T)).

Definition num (x : T) : cellT := CNum x.
Definition str (s : string) : cellT := CStr s.

Definition pipe_header : list cellT :=
  [str "Pipe Name"; str "Diameter (m)"; str "Length (m)"; str "Total K (-)"; str "Elev Change (m)"; str "Final Elev (m)"].
Definition pump_header : list cellT := [str "Flow m3/sec"; str "Head m"; str "Power kW"].
Definition driver_header : list cellT := [str "Speed Hz"; str "Power kW"].

Definition driver_sheet (k : nat) (d : string * list (T * T)) : sheetT :=
  mkSheet (dtitle k)
          [("name", Single (str (fst d)));
           ("power_curve", Range (driver_header :: map (fun sp => [num (fst sp); num (snd sp)]) (snd d)))].

Definition pump_sheets (k : nat) (p : apump (T:=T)) : list sheetT :=
  mkSheet (ptitle k)
          [("name", Single (str (pu_name p))); ("design_impeller", Single (num (pu_impeller p)));
           ("suction_dia", Single (num (pu_suction p))); ("disch_dia", Single (num (pu_disch p)));
           ("design_speed", Single (num (pu_speed p))); ("limited", Single (str (pu_limited p)));
           ("gear_ratio", Single (num (pu_gear p))); ("avail_power", Single (num (pu_avail p)));
           ("pump_curve", Range (pump_header :: map (fun r => [num (fst (fst r)); num (snd (fst r)); num (snd r)]) (pu_curve p)))]
  :: match pu_driver p with
     | Some d => if String.eqb (pu_limited p) "curve" then [driver_sheet k d] else []
     | None => []
     end.

(* write_pipesections_to_excel: the table rows and the pump / driver tabs created on the way *)
Fixpoint sec_rows (secs : list (asec (T:=T))) (elev : T) (k : nat) : list (list cellT) * list sheetT :=
  match secs with
  | [] => ([], [])
  | APipe p :: r =>
    let e := nadd N elev (pp_z p) in
    let '(rows, sh) := sec_rows r e k in
    ([str (pp_name p); num (pp_d p); num (pp_L p); num (pp_K p); num (pp_z p); num e] :: rows, sh)
  | APump p :: r =>
    let '(rows, sh) := sec_rows r elev (S k) in
    ([str (ptitle k); CBlank; CBlank; CBlank; CBlank; num elev] :: rows, (pump_sheets k p ++ sh)%list)
  end.

Definition slurry_sheet (s : aslurry (T:=T)) : sheetT :=
  mkSheet "slurry"
          [("name", Single (str (sl_name s))); ("pipe_dia", Single (num (sl_Dp s))); ("d_15", Single (num (sl_d15 s)));
           ("d_50", Single (num (sl_d50 s))); ("d_85", Single (num (sl_d85 s))); ("fluid", Single (str (sl_fluid s)));
           ("Cv", Single (num (sl_Cv s))); ("rhos", Single (num (sl_rhos s))); ("rhoi", Single (num (sl_rhoi s)))].

Definition store (p : apipeline (T:=T)) : workbook (T:=T) :=
  let '(rows, tabs) := sec_rows (pl_secs p) (nint N 0%Z) 1 in
  mkSheet "documentation" []
  :: mkSheet "pipeline" [("name", Single (str (pl_name p))); ("pipe_table", Range (pipe_header :: rows))]
  :: (tabs ++ [slurry_sheet (pl_slurry p)])%list.

End Store.
