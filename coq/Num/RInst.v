(* The real-number reading of NumOps: what the theorems are about. *)
From Coq Require Import Reals ZArith List.
From DHV Require Import NumOps.
Local Open Scope R_scope.

Definition Rltb (a b : R) : bool := if Rlt_dec a b then true else false.
Definition Rleb (a b : R) : bool := if Rle_dec a b then true else false.
Definition Reqb (a b : R) : bool := if Req_EM_T a b then true else false.
Definition Rtrunc (x : R) : Z :=
  if Rle_dec 0 x then Int_part x else Z.opp (Int_part (- x)).
Definition Rlog10 (x : R) : R := ln x / ln 10.
Definition Rsum (l : list R) : R := fold_left Rplus l 0.

Definition RN : NumOps R := {|
  nadd := Rplus; nsub := Rminus; nmul := Rmult; ndiv := Rdiv;
  nneg := Ropp; nabs := Rabs;
  npow := Rpower; npown := pow;
  nln := ln; nlog10 := Rlog10; nexp := exp; nsin := sin; ncosh := cosh; nsqrt := sqrt;
  npi := PI;
  nltb := Rltb; nleb := Rleb; neqb := Reqb;
  nmin := Rmin; nmax := Rmax;
  ntrunc := Rtrunc;
  nint := IZR;
  nlit := fun n d => IZR n / IZR (Zpos d);
  nsum := Rsum;
  nfail := fun _ => 0
|}.

Lemma Rltb_true a b : Rltb a b = true <-> a < b.
Proof. unfold Rltb; destruct (Rlt_dec a b); split; intros; auto; discriminate. Qed.
Lemma Rltb_false a b : Rltb a b = false <-> b <= a.
Proof. unfold Rltb; destruct (Rlt_dec a b); split; intros; auto; try discriminate.
  - exfalso; apply (Rlt_irrefl a); eapply Rlt_le_trans; eauto.
  - apply Rnot_lt_le; auto. Qed.
Lemma Rleb_true a b : Rleb a b = true <-> a <= b.
Proof. unfold Rleb; destruct (Rle_dec a b); split; intros; auto; discriminate. Qed.
Lemma Rleb_false a b : Rleb a b = false <-> b < a.
Proof. unfold Rleb; destruct (Rle_dec a b); split; intros; auto; try discriminate.
  - exfalso; apply (Rlt_irrefl a); eapply Rle_lt_trans; eauto.
  - apply Rnot_le_lt; auto. Qed.
Lemma Reqb_true a b : Reqb a b = true <-> a = b.
Proof. unfold Reqb; destruct (Req_EM_T a b); split; intros; auto; discriminate. Qed.

(* toR: expose a goal written against (… RN) as a plain expression over R *)
Ltac toR :=
  cbv beta iota delta [nadd nsub nmul ndiv nneg nabs npow npown nln nlog10 nexp nsin ncosh
                       nsqrt npi nltb nleb neqb nmin nmax ntrunc nint nlit nsum nfail RN].
Ltac toR_in H :=
  cbv beta iota delta [nadd nsub nmul ndiv nneg nabs npow npown nln nlog10 nexp nsin ncosh
                       nsqrt npi nltb nleb neqb nmin nmax ntrunc nint nlit nsum nfail RN] in H.
