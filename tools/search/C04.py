#!/venv/bin/python
"""C04 failing-input search on the real code: ordering, monotonicity and absence of jumps of the head-loss surface.

Streams: (1) random envelope points and threshold placements: signs and bounds (il > 0, 0 <= Erhg_ho <= il for the
homogeneous model proper, settling ordering, selected Erhg >= 0 for Cvs and Cvt input); (2) neighbour pairs (+1 % in
one input): il rises with vls and falls with Dp, He falls and FB rises with vls, vt rises with d and Rsd, vth falls
with Cvs; (3) jumps: a 1e-7 relative change of any one input of Cvs_Erhg changes it by < 1e-3 relative -- at random
points, ON every branch threshold (d/Dp = 0.015, sqrtcx breakpoints, sublayer cap) and ACROSS every crossing of two
regime curves (FB=SB, FB=He, SB=He, He=Ho, located by bisection on the real functions), where a selection error would
show; plus a scan along vls, d and Cvs for steps that dwarf their neighbours (a threshold that is not where it should be)."""
import math
import random
from scommon import Search, E_args, sample_E, threshold_points, seed
from DHLLDV import DHLLDV_framework as fw, homogeneous as ho, heterogeneous as he, stratified as st

S = Search('C04', 'random envelope points + threshold placements: signs/bounds; +1 % neighbour pairs: monotonicity of il, He, FB, vt, vth; '
                  '1e-7 neighbour pairs of Cvs_Erhg in every input at random points, on branch thresholds and across every crossing of '
                  'two regime curves located by bisection; distinct = distinct base point')
rng = random.Random(seed() * 13 + 4)
NAMES = ['vls', 'Dp', 'd', 'epsilon', 'nu', 'rhol', 'rhos', 'Cvs']
JUMP = 1e-3
STEP = 1e-7


def sw_set(sw):
    fw.use_sf, fw.use_sqrtcx = sw


def in_E(a):
    vls, Dp, d, eps, nu, rhol, rhos, Cv = a
    return 0.1 <= vls <= 10 and 0.1 <= Dp <= 1.2 and 5e-5 <= d <= 0.25 * Dp and 0.02 <= Cv <= 0.45


def signs(a, sw):
    vls, Dp, d, eps, nu, rhol, rhos, Cv = a
    Rsd = (rhos - rhol) / rhol
    il = ho.fluid_head_loss(vls, Dp, eps, nu, rhol)
    if not il > 0:
        S.violation('C04:il-sign', f'liquid gradient {il} not positive', input=list(a))
    eho = ho.Erhg(*a, use_sf=False)
    if not (0 <= eho <= il * (1 + 1e-12)):
        S.violation('C04:ho-bounds', f'homogeneous Erhg (Eqn 8.7-8, no sliding-flow blend) {eho} outside [0, il={il}]', input=list(a))
    S.track_worst('Erhg_ho/il', eho / il, list(a))
    vt = he.vt_ruby(d, Rsd, nu)
    vth = he.vth_RZ(d, Rsd, nu, Cv)
    if not (0 < vth < vt):
        S.violation('C04:settling-order', f'hindered settling {vth} not in (0, vt={vt})', input=list(a))
    for nm, f in (('Cvs_Erhg', fw.Cvs_Erhg), ('Cvt_Erhg', fw.Cvt_Erhg)):
        try:
            v = f(*a)
        except ZeroDivisionError:
            S.count(None, 'slip-pole')
            continue
        if not v >= 0:
            S.violation('C04:negative:' + nm, f'{nm} = {v} < 0', input=list(a), switches=list(sw))


def mono(a, sw):
    vls, Dp, d, eps, nu, rhol, rhos, Cv = a
    Rsd = (rhos - rhol) / rhol
    k = 1.01

    def chk(key, f, x0, x1, rising, what):
        y0, y1 = f(x0), f(x1)
        ok = (y1 > y0) if rising else (y1 < y0)
        if not ok:
            S.violation(key, f'{what}: f({x0}) = {y0}, f({x1}) = {y1}', input=list(a), switches=list(sw))
    if vls * k <= 10:
        chk('C04:il-vls', lambda v: ho.fluid_head_loss(v, Dp, eps, nu, rhol), vls, vls * k, True, 'il must rise with line speed')
        chk('C04:he-vls', lambda v: he.Erhg(v, Dp, d, eps, nu, rhol, rhos, Cv, use_sf=sw[0], use_sqrtcx=sw[1]), vls, vls * k, False,
            'heterogeneous Erhg must fall with line speed')
        chk('C04:fb-vls', lambda v: st.fb_Erhg(v, Dp, d, eps, nu, rhol, rhos, Cv), vls, vls * k, True, 'fixed-bed Erhg must rise with line speed')
    if Dp * k <= 1.2 and d <= 0.25 * Dp:
        chk('C04:il-Dp', lambda D: ho.fluid_head_loss(vls, D, eps, nu, rhol), Dp, Dp * k, False, 'il must fall with pipe diameter')
    chk('C04:vt-d', lambda x: he.vt_ruby(x, Rsd, nu), d, d * k, True, 'vt must rise with grain size')
    chk('C04:vt-Rsd', lambda x: he.vt_ruby(d, x, nu), Rsd, Rsd * k, True, 'vt must rise with density')
    if Cv * k < 1:
        chk('C04:vth-Cvs', lambda c: he.vth_RZ(d, Rsd, nu, c), Cv, Cv * k, False, 'hindered settling must fall with concentration')


def jump_pair(a, i, lo, hi, sw, where):
    """compare Cvs_Erhg at input i = lo and = hi (a relative distance <= STEP apart)"""
    b0, b1 = list(a), list(a)
    b0[i], b1[i] = lo, hi
    y0, y1 = fw.Cvs_Erhg(*b0), fw.Cvs_Erhg(*b1)
    rel = abs(y1 - y0) / max(abs(y0), abs(y1), 1e-300)
    S.track_worst('jump', rel, {'input': b0, 'var': NAMES[i], 'where': where})
    if rel >= JUMP:
        S.violation('C04:jump:' + where, f'Cvs_Erhg jumps by {rel:.3g} relative ({y0} -> {y1}) when {NAMES[i]} goes {lo!r} -> {hi!r}',
                    input=b0, switches=list(sw), var=NAMES[i])


def jumps_at(a, sw, where):
    for i in range(8):
        if i == 3:
            continue
        x = a[i]
        jump_pair(a, i, x * (1 - STEP / 2), x * (1 + STEP / 2), sw, where)


def bisect_crossing(g, lo, hi):
    """a sign change of g on [lo, hi] narrowed to a relative width < STEP/4; None if no sign change at the ends"""
    try:
        glo, ghi = g(lo), g(hi)
    except Exception:
        return None
    if not (glo == glo and ghi == ghi) or glo * ghi > 0:
        return None
    for _ in range(80):
        mid = 0.5 * (lo + hi)
        gm = g(mid)
        if gm * glo <= 0:
            hi, ghi = mid, gm
        else:
            lo, glo = mid, gm
        if (hi - lo) <= STEP / 4 * lo:
            break
    return lo, hi


def crossings(a, sw):
    """for each pair of regime curves look for a crossing along vls and along d, and test a pair straddling it"""
    vls, Dp, d, eps, nu, rhol, rhos, Cv = a

    def curves(v, dd):
        r = fw.Cvs_Erhg(v, Dp, dd, eps, nu, rhol, rhos, Cv, get_dict=True)
        return r
    pairs = [('FB', 'SB'), ('FB', 'He'), ('SB', 'He'), ('He', 'Ho'), ('FB', 'Ho'), ('SB', 'Ho')]
    for p, q in pairs:
        g = lambda v: (lambda r: r[p] - r[q])(curves(v, d))
        # scan a coarse grid for sign changes, refine each
        grid = [0.1 * (100 ** (k / 24)) for k in range(25)]
        vals = []
        for v in grid:
            try:
                vals.append(g(v))
            except Exception:
                vals.append(float('nan'))
        for k in range(24):
            if vals[k] == vals[k] and vals[k + 1] == vals[k + 1] and vals[k] * vals[k + 1] < 0:
                br = bisect_crossing(g, grid[k], grid[k + 1])
                if br:
                    jump_pair(a, 0, br[0], br[1], sw, f'crossing:{p}={q}:vls')
                    S.count(None, f'crossing:{p}={q}')


def scan_for_jumps(a, sw):
    """a branch threshold need not be where the search expects it: evaluate Cvs_Erhg on a fine geometric grid along each
    of vls, d, Dp and Cvs, look for a step that dwarfs its neighbours, narrow it by bisection on the step size and test
    the 1e-7 pair there"""
    ranges = {0: (0.1, 10.0), 2: (max(5e-5, 1e-4), 0.25 * a[1]), 7: (0.02, 0.45)}
    for i, (lo, hi) in ranges.items():
        if not lo < hi:
            continue
        npts = 240
        xs = [lo * (hi / lo) ** (k / (npts - 1)) for k in range(npts)]
        ys = []
        for x in xs:
            b = list(a)
            b[i] = x
            try:
                ys.append(fw.Cvs_Erhg(*b))
            except Exception:
                ys.append(float('nan'))
        steps = [abs(ys[k + 1] - ys[k]) / max(abs(ys[k]), abs(ys[k + 1]), 1e-300) for k in range(npts - 1)]
        finite = sorted(s for s in steps if s == s)
        if not finite:
            continue
        med = finite[len(finite) // 2]
        for k in range(npts - 1):
            s_ = steps[k]
            if not s_ == s_ or s_ < 5e-3:
                continue
            near = [steps[j] for j in (k - 2, k - 1, k + 1, k + 2) if 0 <= j < npts - 1 and steps[j] == steps[j]]
            if near and s_ < 8 * max(max(near), med):
                continue
            # narrow: keep the half that holds the larger change
            x0, x1 = xs[k], xs[k + 1]
            for _ in range(60):
                if (x1 - x0) <= STEP / 2 * x0:
                    break
                xm = (x0 * x1) ** 0.5
                b0, bm, b1 = list(a), list(a), list(a)
                b0[i], bm[i], b1[i] = x0, xm, x1
                y0, ym, y1 = fw.Cvs_Erhg(*b0), fw.Cvs_Erhg(*bm), fw.Cvs_Erhg(*b1)
                if abs(ym - y0) >= abs(y1 - ym):
                    x1 = xm
                else:
                    x0 = xm
            jump_pair(a, i, x0, x1, sw, 'scan:' + NAMES[i])
            S.count(None, 'scan-candidate')


def main():
    n = S.budget
    for i in range(n):
        b = sample_E(rng, corner=0.2)
        sw = (rng.random() < 0.7, rng.random() < 0.7)
        sw_set(sw)
        try:
            pts = [b] + threshold_points(rng, b)
            for j, q in enumerate(pts):
                a = E_args(q)
                if not in_E(a):
                    continue
                signs(a, sw)
                mono(a, sw)
                jumps_at(a, sw, 'random' if j == 0 else 'threshold')
                S.count(a, 'point' if j == 0 else 'threshold-point')
            if i % 3 == 0:
                crossings(E_args(b), sw)
            if i % 8 == 0:
                scan_for_jumps(E_args(b), sw)
            # the sqrtcx breakpoints: grains for which gibert = 1.8 resp. gibert = wilson, found along d
            if i % 5 == 0 and sw[1]:
                a = list(E_args(b))
                Rsd = (a[6] - a[5]) / a[5]

                def gib(dd):
                    vt = he.vt_ruby(dd, Rsd, a[4])
                    fr = vt / (9.80665 * dd) ** 0.5
                    return 1 / fr ** (10 / 9) - 1.8
                br = bisect_crossing(gib, 5e-5, 0.25 * a[1])
                if br:
                    jump_pair(a, 2, br[0], br[1], sw, 'sqrtcx-breakpoint')
                    S.count(None, 'sqrtcx-breakpoint')
        finally:
            sw_set((True, True))
        if i == 0:
            S.sample({'args': E_args(b), 'switches': sw})
    S.finish()


main()
