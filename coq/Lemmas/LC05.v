(* Proofs for C05: the slip ratio keeps the spatial concentration between delivered and bed concentration;
   structure of the delivered-concentration result. *)
From Coq Require Import Reals List Bool Lra String.
From DHV Require Import NumOps RInst LC01.
From DHV Require Constants Homogeneous Heterogeneous Stratified Framework.
Import Framework.
Local Open Scope R_scope.

Lemma Rpower_pos' x y : 0 < Rpower x y.
Proof. unfold Rpower. apply exp_pos. Qed.

(* ---------- structure ---------- *)
Section Structure.
Variables (sf sq : bool) (vls Dp d eps nu rhol rhos Cvt : R).
Let Xi := slip_ratio RN vls Dp d eps nu rhol rhos Cvt.
Let Cvs := Cvs_from_Cvt RN vls Dp d eps nu rhol rhos Cvt.
Let inner := Cvs_Erhg_dict RN sf sq vls Dp d eps nu rhol rhos Cvs.
Let r := Cvt_Erhg_dict RN sf sq vls Dp d eps nu rhol rhos Cvt.

Lemma Cvs_from_Cvt_eq : Cvs = 1 / (1 - Xi) * Cvt.
Proof. reflexivity. Qed.

(* every regime: the spatial-concentration result at the derived concentration, divided by (1 - slip);
   the slip it used is reported; the liquid gradient is passed through *)
Lemma dict_components :
  Erhg7_FB r = Erhg6_FB inner * 1 / (1 - Xi) /\ Erhg7_SB r = Erhg6_SB inner * 1 / (1 - Xi) /\
  Erhg7_He r = Erhg6_He inner * 1 / (1 - Xi) /\ Erhg7_Ho r = Erhg6_Ho inner * 1 / (1 - Xi) /\
  Erhg7_Xi r = Xi /\ Erhg7_il r = Erhg6_il inner.
Proof. repeat split; reflexivity. Qed.

(* never the fixed-bed regime: when the inner selection says FB the smaller of SB and He is reported *)
Lemma regime_rule :
  Erhg7_regime r =
  match Erhg6_regime inner with
  | R_FB => if Rltb (Erhg7_SB r) (Erhg7_He r) then R_SB else R_He
  | g => g
  end.
Proof.
  subst r inner Cvs Xi. unfold Cvt_Erhg_dict. cbv zeta. cbn [Erhg7_regime Erhg7_SB Erhg7_He mkErhg7].
  destruct (Erhg6_regime _); cbn [regime_eqb]; reflexivity.
Qed.

Lemma never_FB : Erhg7_regime r <> R_FB.
Proof.
  rewrite regime_rule. destruct (Erhg6_regime inner); try discriminate.
  destruct (Rltb _ _); discriminate.
Qed.

Lemma never_fixed_bed_name : Cvt_regime RN sf sq vls Dp d eps nu rhol rhos Cvt <> "fixed bed"%string.
Proof.
  unfold Cvt_regime. cbv zeta. fold r. pose proof never_FB as H.
  destruct (Erhg7_regime r); try discriminate. contradiction.
Qed.

Lemma value_is_selected :
  Cvt_Erhg RN sf sq vls Dp d eps nu rhol rhos Cvt =
  match Erhg7_regime r with R_FB => Erhg7_FB r | R_SB => Erhg7_SB r | R_He => Erhg7_He r | R_Ho => Erhg7_Ho r end.
Proof. reflexivity. Qed.
End Structure.

(* ---------- the slip ratio is a convex blend that never drops below the three-layer-model slip ---------- *)
Definition slip_shape (Cvr x : R) : Prop :=
  exists S L f e1 e2 : R,
    x = Rmax S L * f + L * (1 - f) /\ 0 <= f <= 1 /\ L = (1 - Cvr) * exp (e1 * e2) /\ e1 < 0 /\ 0 < e2.

Lemma slip_ratio_shape vls Dp d eps nu rhol rhos Cvt : 0 <= Dp ->
  slip_shape (Cvt / Constants.Cvb RN) (slip_ratio RN vls Dp d eps nu rhol rhos Cvt).
Proof.
  intro HD. unfold slip_ratio. cbv zeta. toR.
  match goal with |- slip_shape _ (Rmax ?s ?l * ?f + _ * _) => set (S0 := s); set (L := l); set (F := f) end.
  exists S0, L, F.
  subst L.
  match goal with |- context [(1 - ?c) * exp (?a * ?b)] => exists a, b end.
  split; [reflexivity|]. split.
  - subst F. unfold Rmin, Rmax. repeat (match goal with |- context [Rle_dec ?a ?b] => destruct (Rle_dec a b) end); lra.
  - split; [reflexivity|]. split.
    + unfold Constants.musf. toR.
      match goal with |- - (_ + _ + ?q ^ 2 + _) < 0 => pose proof (pow2_ge_0 q) end. lra.
    + repeat apply Rmult_lt_0_compat; apply Rpower_pos'.
Qed.

Lemma slip_lower Cvr x : Cvr < 1 -> slip_shape Cvr x -> 0 < x.
Proof.
  intros Hc (S & L & f & e1 & e2 & E & Hf & EL & H1 & H2).
  assert (PL : 0 < L) by (rewrite EL; apply Rmult_lt_0_compat; [lra|apply exp_pos]).
  assert (M : L <= Rmax S L) by apply Rmax_r.
  rewrite E. nra.
Qed.

(* the three-layer-model floor itself is strictly below 1 - Cvr *)
Lemma slip_floor Cvr x : Cvr < 1 -> slip_shape Cvr x ->
  exists L, 0 < L < 1 - Cvr /\ L <= x.
Proof.
  intros Hc (S & L & f & e1 & e2 & E & Hf & EL & H1 & H2).
  exists L. assert (X : exp (e1 * e2) < 1).
  { rewrite <- exp_0. apply exp_increasing. nra. }
  pose proof (exp_pos (e1 * e2)).
  assert (PL : 0 < L) by (rewrite EL; apply Rmult_lt_0_compat; lra).
  split; [split; [exact PL|rewrite EL; nra]|].
  assert (M : L <= Rmax S L) by apply Rmax_r. rewrite E. nra.
Qed.

(* consequence: the derived spatial concentration exceeds the delivered one whenever the slip is below 1 *)
Lemma Cvs_above_Cvt vls Dp d eps nu rhol rhos Cvt :
  0 <= Dp -> 0 < Cvt < Constants.Cvb RN -> slip_ratio RN vls Dp d eps nu rhol rhos Cvt < 1 ->
  Cvt < Cvs_from_Cvt RN vls Dp d eps nu rhol rhos Cvt.
Proof.
  intros HD HC HX. unfold Cvs_from_Cvt. cbv zeta. toR.
  assert (Hr : Cvt / Constants.Cvb RN < 1).
  { apply (Rmult_lt_reg_r (Constants.Cvb RN)); [lra|]. unfold Rdiv. rewrite Rmult_assoc, Rinv_l by lra. lra. }
  pose proof (slip_lower _ _ Hr (slip_ratio_shape vls Dp d eps nu rhol rhos Cvt HD)) as P.
  set (Xi := slip_ratio _ _ _ _ _ _ _ _ _) in *.
  assert (1 < 1 / (1 - Xi)).
  { apply (Rmult_lt_reg_r (1 - Xi)); [lra|]. unfold Rdiv. rewrite Rmult_assoc, Rinv_l by lra. lra. }
  nra.
Qed.

(* and Cvs <= Cvb is equivalent to the upper bound on the slip *)
Lemma Cvs_below_Cvb_iff Xi Cvt Cvb : 0 < Cvb -> 0 < Cvt -> Xi < 1 ->
  (1 / (1 - Xi) * Cvt <= Cvb <-> Xi <= 1 - Cvt / Cvb).
Proof.
  intros Hb Hc Hx. split; intro A.
  - assert (Cvt <= Cvb * (1 - Xi)).
    { apply (Rmult_le_reg_r (/ (1 - Xi))); [apply Rinv_0_lt_compat; lra|].
      rewrite (Rmult_assoc Cvb), Rinv_r by lra. unfold Rdiv in A. lra. }
    assert (Cvt / Cvb <= 1 - Xi).
    { apply (Rmult_le_reg_r Cvb); [lra|]. unfold Rdiv. rewrite Rmult_assoc, Rinv_l by lra. lra. }
    lra.
  - assert (Cvt / Cvb <= 1 - Xi) by lra.
    assert (Cvt <= (1 - Xi) * Cvb).
    { apply (Rmult_le_reg_r (/ Cvb)); [apply Rinv_0_lt_compat; lra|].
      rewrite (Rmult_assoc (1 - Xi)), Rinv_r by lra. unfold Rdiv in H. lra. }
    apply (Rmult_le_reg_r (1 - Xi)); [lra|].
    replace (1 / (1 - Xi) * Cvt * (1 - Xi)) with Cvt by (field; lra). lra.
Qed.
