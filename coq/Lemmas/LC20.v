(* Proofs for C20: the Wilson stratified and V50 models respect their own maxima, bounds and fixed points. *)
From Coq Require Import Reals List Bool Lra ZArith.
From Interval Require Import Tactic.
From DHV Require Import NumOps RInst.
From DHV Require Constants Homogeneous Heterogeneous WilsonStratified WilsonV50.
Local Open Scope R_scope.

Lemma Rpower_pos x y : 0 < Rpower x y.
Proof. unfold Rpower. apply exp_pos. Qed.

Lemma ln_neg x : 0 < x < 1 -> ln x < 0.
Proof. intros [H0 H1]. rewrite <- ln_1. apply ln_increasing; assumption. Qed.

(* x ^ (ln a / ln x) = a *)
Lemma Rpower_log_base x a : 0 < x -> x <> 1 -> 0 < a -> Rpower x (ln a / ln x) = a.
Proof.
  intros Hx Hx1 Ha. unfold Rpower.
  replace (ln a / ln x * ln x) with (ln a).
  - apply exp_ln; exact Ha.
  - field. intro E. apply Hx1. rewrite <- (exp_ln x Hx), E. apply exp_0.
Qed.

Import WilsonStratified.

(* ---- Wilson stratified ---- *)
Lemma Cvr_max_bounds Dp d rhol rhos : 5 / 100 <= Cvr_max RN Dp d rhol rhos <= 66 / 100.
Proof.
  unfold Cvr_max. cbv zeta. toR. set (x := _ * _ * _ * _).
  unfold Rmin, Rmax. destruct (Rle_dec (5 / 100) x); destruct (Rle_dec (66 / 100) _); lra.
Qed.

Lemma Vsm_max_pos Dp d rhol rhos musf : 0 < Vsm_max RN Dp d rhol rhos musf.
Proof.
  unfold Vsm_max. cbv zeta. toR.
  apply Rdiv_lt_0_compat.
  - repeat apply Rmult_lt_0_compat; try apply Rpower_pos; lra.
  - assert (0 <= (d * (1000 / 1)) ^ 2) by apply pow2_ge_0.
    assert (0 < 11 / 100 * Rpower Dp (7 / 10)) by (apply Rmult_lt_0_compat; [lra|apply Rpower_pos]). lra.
Qed.

Lemma Vsm_max_f_pos Dp d rhol rhos musf f : 0 < Vsm_max_f RN Dp d rhol rhos musf f.
Proof.
  unfold Vsm_max_f. cbv zeta.
  assert (P : 0 < Vsm_max RN Dp d rhol rhos musf) by apply Vsm_max_pos.
  unfold Vsm_max in P. cbv zeta in P. toR. toR_in P.
  destruct (negb (Reqb f 0)); [|exact P].
  unfold Rmin. destruct (Rle_dec _ _); [|exact P].
  apply Rmult_lt_0_compat; apply Rpower_pos.
Qed.

(* the shared shape of Vsm / Vsm_f: min(Vs, Vsmx) with Vs from Eqn 6.20-36 *)
Definition Vs_shape (Vsmx Cvrmx Cvr : R) : R :=
  if Rleb Cvrmx (33 / 100)
  then Vsmx * (675 / 100) * Rpower Cvr (ln (333 / 1000) / ln Cvrmx) * (1 - Rpower Cvr (ln (333 / 1000) / ln Cvrmx)) ^ 2
  else Vsmx * (675 / 100) * Rpower (1 - Cvr) (2 * (ln (666 / 1000) / ln (1 - Cvrmx)))
       * (1 - Rpower (1 - Cvr) (ln (666 / 1000) / ln (1 - Cvrmx))).

Lemma Vsm_shape Dp d rhol rhos musf Cv Cvb :
  Vsm RN Dp d rhol rhos musf Cv Cvb =
  Rmin (Vs_shape (Vsm_max RN Dp d rhol rhos musf) (Cvr_max RN Dp d rhol rhos) (Cv / Cvb)) (Vsm_max RN Dp d rhol rhos musf).
Proof. unfold Vsm, Vs_shape. cbv zeta. toR. destruct (Rleb _ _); reflexivity. Qed.
Lemma Vsm_f_shape Dp d rhol rhos musf Cv Cvb f :
  Vsm_f RN Dp d rhol rhos musf Cv Cvb f =
  Rmin (Vs_shape (Vsm_max_f RN Dp d rhol rhos musf f) (Cvr_max RN Dp d rhol rhos) (Cv / Cvb)) (Vsm_max_f RN Dp d rhol rhos musf f).
Proof. unfold Vsm_f, Vs_shape. cbv zeta. toR. destruct (Rleb _ _); reflexivity. Qed.

Lemma Vs_shape_nonneg Vsmx Cvrmx Cvr : 0 < Vsmx -> 5 / 100 <= Cvrmx <= 66 / 100 -> 0 < Cvr < 1 -> 0 <= Vs_shape Vsmx Cvrmx Cvr.
Proof.
  intros HV HC Hr. unfold Vs_shape. destruct (Rleb Cvrmx (33 / 100)) eqn:B.
  - apply Rmult_le_pos; [|apply pow2_ge_0].
    apply Rmult_le_pos; [apply Rmult_le_pos; lra|left; apply Rpower_pos].
  - apply Rleb_false in B.
    assert (Hb : 0 < ln (666 / 1000) / ln (1 - Cvrmx)).
    { assert (ln (666 / 1000) < 0) by (apply ln_neg; lra). assert (ln (1 - Cvrmx) < 0) by (apply ln_neg; lra).
      unfold Rdiv. rewrite <- (Rmult_opp_opp (ln (666 / 1000))).
      apply Rmult_lt_0_compat; [lra|]. rewrite <- Rinv_opp. apply Rinv_0_lt_compat; lra. }
    assert (Hp : Rpower (1 - Cvr) (ln (666 / 1000) / ln (1 - Cvrmx)) <= 1).
    { unfold Rpower. apply Rle_trans with (exp 0); [|rewrite exp_0; lra]. left. apply exp_increasing.
      assert (ln (1 - Cvr) < 0) by (apply ln_neg; lra).
      set (b := ln (666 / 1000) / ln (1 - Cvrmx)) in *. set (l := ln (1 - Cvr)) in *. nra. }
    apply Rmult_le_pos; [|lra].
    apply Rmult_le_pos; [apply Rmult_le_pos; lra|left; apply Rpower_pos].
Qed.

Lemma Vsm_range Dp d rhol rhos musf Cv Cvb : 0 < Cvb -> 0 < Cv < Cvb ->
  0 <= Vsm RN Dp d rhol rhos musf Cv Cvb <= Vsm_max RN Dp d rhol rhos musf.
Proof.
  intros Hb Hc. rewrite Vsm_shape. pose proof (Vsm_max_pos Dp d rhol rhos musf) as HV.
  assert (Hr : 0 < Cv / Cvb < 1).
  { split; [apply Rdiv_lt_0_compat; lra|]. apply (Rmult_lt_reg_r Cvb); [lra|]. unfold Rdiv. rewrite Rmult_assoc, Rinv_l by lra. lra. }
  pose proof (Vs_shape_nonneg _ _ _ HV (Cvr_max_bounds Dp d rhol rhos) Hr).
  unfold Rmin. destruct (Rle_dec _ _); lra.
Qed.
Lemma Vsm_f_range Dp d rhol rhos musf Cv Cvb f : 0 < Cvb -> 0 < Cv < Cvb ->
  0 <= Vsm_f RN Dp d rhol rhos musf Cv Cvb f <= Vsm_max_f RN Dp d rhol rhos musf f.
Proof.
  intros Hb Hc. rewrite Vsm_f_shape. pose proof (Vsm_max_f_pos Dp d rhol rhos musf f) as HV.
  assert (Hr : 0 < Cv / Cvb < 1).
  { split; [apply Rdiv_lt_0_compat; lra|]. apply (Rmult_lt_reg_r Cvb); [lra|]. unfold Rdiv. rewrite Rmult_assoc, Rinv_l by lra. lra. }
  pose proof (Vs_shape_nonneg _ _ _ HV (Cvr_max_bounds Dp d rhol rhos) Hr).
  unfold Rmin. destruct (Rle_dec _ _); lra.
Qed.

(* at the relative concentration the model reports as the location of the maximum, Vs is Vsmx (0.2 %) *)
Lemma Vs_shape_at_max Vsmx Cvrmx : 0 < Vsmx -> 5 / 100 <= Cvrmx <= 66 / 100 ->
  Rabs (Rmin (Vs_shape Vsmx Cvrmx Cvrmx) Vsmx - Vsmx) <= 2 / 1000 * Vsmx.
Proof.
  intros HV HC. unfold Vs_shape. destruct (Rleb Cvrmx (33 / 100)) eqn:B.
  - apply Rleb_true in B. rewrite Rpower_log_base by lra.
    set (X := Vsmx * (675 / 100) * (333 / 1000) * (1 - 333 / 1000) ^ 2).
    assert (A : 998 / 1000 * Vsmx <= X <= Vsmx) by (unfold X; cbn [pow]; lra).
    unfold Rmin. destruct (Rle_dec _ _); [rewrite Rabs_left1 by lra; lra|].
    replace (Vsmx - Vsmx) with 0 by ring. rewrite Rabs_R0. lra.
  - apply Rleb_false in B.
    assert (E1 : Rpower (1 - Cvrmx) (ln (666 / 1000) / ln (1 - Cvrmx)) = 666 / 1000) by (apply Rpower_log_base; lra).
    assert (E2 : Rpower (1 - Cvrmx) (2 * (ln (666 / 1000) / ln (1 - Cvrmx))) = (666 / 1000) * (666 / 1000)).
    { replace (2 * (ln (666 / 1000) / ln (1 - Cvrmx))) with (ln (666 / 1000) / ln (1 - Cvrmx) + ln (666 / 1000) / ln (1 - Cvrmx)) by ring.
      rewrite Rpower_plus, E1. reflexivity. }
    rewrite E1, E2.
    set (X := Vsmx * (675 / 100) * (666 / 1000 * (666 / 1000)) * (1 - 666 / 1000)).
    assert (A : 998 / 1000 * Vsmx <= X <= 1002 / 1000 * Vsmx) by (unfold X; lra).
    unfold Rmin. destruct (Rle_dec _ _); [rewrite Rabs_left1 by lra; lra|].
    replace (Vsmx - Vsmx) with 0 by ring. rewrite Rabs_R0. lra.
Qed.

Lemma Vsm_at_max Dp d rhol rhos musf Cvb : Cvb <> 0 ->
  let c := Cvr_max RN Dp d rhol rhos in
  let m := Vsm_max RN Dp d rhol rhos musf in
  Rabs (Vsm RN Dp d rhol rhos musf (c * Cvb) Cvb - m) <= 2 / 1000 * m.
Proof.
  intros Hb. cbv zeta. rewrite Vsm_shape.
  replace (Cvr_max RN Dp d rhol rhos * Cvb / Cvb) with (Cvr_max RN Dp d rhol rhos) by (field; exact Hb).
  apply Vs_shape_at_max; [apply Vsm_max_pos|apply Cvr_max_bounds].
Qed.

(* gradient exceeds the water gradient: Erhg > 0 *)
Lemma ws_Erhg_pos Vls Dp d eps nu rhol rhos musf Cvt Cvb : 0 < musf -> 0 < Erhg RN Vls Dp d eps nu rhol rhos musf Cvt Cvb.
Proof. intro H. unfold Erhg. cbv zeta. toR. apply Rmult_lt_0_compat; [lra|apply Rpower_pos]. Qed.

Lemma ws_exceeds_water vls Dp d eps nu rhol rhos musf Cvt Cvb : 0 < musf -> 0 < (rhos - rhol) / rhol * Cvt ->
  Homogeneous.fluid_head_loss RN vls Dp eps nu rhol < stratified_head_loss RN vls Dp d eps nu rhol rhos musf Cvt Cvb.
Proof.
  intros Hm Hr. unfold stratified_head_loss. cbv zeta.
  pose proof (ws_Erhg_pos vls Dp d eps nu rhol rhos musf Cvt Cvb Hm) as P.
  set (e := Erhg _ _ _ _ _ _ _ _ _ _ _) in *. set (il := Homogeneous.fluid_head_loss _ _ _ _ _ _). toR. nra.
Qed.

(* ---- Wilson V50 ---- *)
Import WilsonV50.

Lemma M_bounds Dp d50 d85 nu rhol rhos : 25 / 100 <= M RN Dp d50 d85 nu rhol rhos <= 17 / 10.
Proof.
  unfold M. cbv zeta. toR. set (x := Rpower _ _).
  unfold Rmax, Rmin. destruct (Rle_dec (17 / 10) x); destruct (Rle_dec (25 / 100) _); lra.
Qed.

Lemma v50_Erhg_pos fuel vls Dp d50 d85 eps nu rhol rhos musf : 0 < musf ->
  0 < WilsonV50.Erhg RN fuel vls Dp d50 d85 eps nu rhol rhos musf.
Proof. intro H. unfold WilsonV50.Erhg. cbv zeta. toR. apply Rmult_lt_0_compat; [lra|apply Rpower_pos]. Qed.

Lemma v50_exceeds_water fuel vls Dp d50 d85 eps nu rhol rhos Cvs musf : 0 < musf -> 0 < (rhos - rhol) / rhol * Cvs ->
  Homogeneous.fluid_head_loss RN vls Dp eps nu rhol < heterogeneous_head_loss RN fuel vls Dp d50 d85 eps nu rhol rhos Cvs musf.
Proof.
  intros Hm Hr. unfold heterogeneous_head_loss. cbv zeta.
  pose proof (v50_Erhg_pos fuel vls Dp d50 d85 eps nu rhol rhos musf Hm) as P.
  set (e := WilsonV50.Erhg _ _ _ _ _ _ _ _ _ _ _) in *. set (il := Homogeneous.fluid_head_loss _ _ _ _ _ _). toR. nra.
Qed.

(* the excess gradient does not rise with line speed (V50 does not depend on it; 0.25 <= M) *)
Lemma v50_Erhg_nonincreasing fuel v1 v2 Dp d50 d85 eps nu rhol rhos musf :
  0 < musf -> 0 < V50 RN fuel Dp d50 d85 eps nu rhol rhos -> 0 < v1 <= v2 ->
  WilsonV50.Erhg RN fuel v2 Dp d50 d85 eps nu rhol rhos musf <= WilsonV50.Erhg RN fuel v1 Dp d50 d85 eps nu rhol rhos musf.
Proof.
  intros Hm HV Hv. unfold WilsonV50.Erhg. cbv zeta.
  pose proof (M_bounds Dp d50 d85 nu rhol rhos) as HM.
  set (m := M _ _ _ _ _ _ _) in *. set (V := V50 _ _ _ _ _ _ _ _ _) in *. toR.
  apply Rmult_le_compat_l; [lra|].
  apply Rle_Rpower_l; [lra|].
  assert (0 < / v1) by (apply Rinv_0_lt_compat; lra). assert (0 < / v2) by (apply Rinv_0_lt_compat; lra).
  split; [unfold Rdiv; nra|].
  unfold Rdiv. apply Rmult_le_compat_l; [lra|]. apply Rinv_le_contravar; lra.
Qed.

(* the iteration for V50: when it returns, the 4-digit truncations of the last two friction factors agree and
   the returned state is one more application of the update *)
Definition v50_of (w50 Dp d50 ff : R) : R := w50 * sqrt (8 / ff) * cosh (60 * d50 / Dp).

Lemma V50_loop_exit : forall fuel w50 Dp d50 nu eps ffl v Re fft ffl' v' Re' fft',
  V50_loop1 RN fuel w50 Dp d50 nu eps ffl v Re fft = Some (ffl', v', Re', fft') ->
  fft = Homogeneous.swamee_jain_ff RN Re Dp eps -> Re = Homogeneous.pipe_reynolds_number RN v Dp nu -> v = v50_of w50 Dp d50 ffl ->
  Rtrunc (fft' * 10000) = Rtrunc (ffl' * 10000) /\
  fft' = Homogeneous.swamee_jain_ff RN Re' Dp eps /\ Re' = Homogeneous.pipe_reynolds_number RN v' Dp nu /\ v' = v50_of w50 Dp d50 ffl'.
Proof.
  induction fuel as [|fuel IH]; intros w50 Dp d50 nu eps ffl v Re fft ffl' v' Re' fft' H E1 E2 E3; [discriminate H|].
  cbn [V50_loop1] in H. toR_in H.
  destruct (Z.eqb (Rtrunc (fft * 10000)) (Rtrunc (ffl * 10000))) eqn:B; cbn [negb] in H.
  - injection H as <- <- <- <-. apply Z.eqb_eq in B. auto.
  - cbv zeta in H. eapply IH; [exact H|reflexivity|reflexivity|reflexivity].
Qed.

(* equal 4-digit truncations of two non-negative numbers: they differ by less than 1e-4 *)
Lemma Rtrunc_close x y : 0 <= x -> 0 <= y -> Rtrunc (x * 10000) = Rtrunc (y * 10000) -> Rabs (x - y) < 1 / 10000.
Proof.
  intros Hx Hy E. unfold Rtrunc in E.
  destruct (Rle_dec 0 (x * 10000)) as [_|N]; [|exfalso; apply N; nra].
  destruct (Rle_dec 0 (y * 10000)) as [_|N]; [|exfalso; apply N; nra].
  pose proof (base_Int_part (x * 10000)) as [A1 A2]. pose proof (base_Int_part (y * 10000)) as [B1 B2].
  rewrite E in A1, A2. apply Rabs_def1; lra.
Qed.

Lemma V50_result fuel Dp d50 d85 eps nu rhol rhos ffl' v' Re' fft' :
  let w50 := w RN d50 nu rhol rhos in
  let ff0 := 12 / 1000 in
  V50_loop1 RN fuel w50 Dp d50 nu eps ff0 (v50_of w50 Dp d50 ff0)
            (Homogeneous.pipe_reynolds_number RN (v50_of w50 Dp d50 ff0) Dp nu)
            (Homogeneous.swamee_jain_ff RN (Homogeneous.pipe_reynolds_number RN (v50_of w50 Dp d50 ff0) Dp nu) Dp eps)
    = Some (ffl', v', Re', fft') ->
  V50 RN fuel Dp d50 d85 eps nu rhol rhos = v50_of w50 Dp d50 fft' /\
  fft' = Homogeneous.swamee_jain_ff RN (Homogeneous.pipe_reynolds_number RN (v50_of w50 Dp d50 ffl') Dp nu) Dp eps /\
  (0 <= fft' -> 0 <= ffl' -> Rabs (fft' - ffl') < 1 / 10000).
Proof.
  cbv zeta. intro H.
  destruct (V50_loop_exit _ _ _ _ _ _ _ _ _ _ _ _ _ _ H eq_refl eq_refl eq_refl) as (T & F & R_ & V_).
  split; [|split].
  - unfold V50. cbv zeta. unfold v50_of in *. toR. toR_in H. rewrite H. reflexivity.
  - rewrite F, R_, V_. reflexivity.
  - intros P1 P2. apply Rtrunc_close; assumption.
Qed.
