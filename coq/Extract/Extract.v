(* Extraction of the executable models to OCaml: ExtrOcamlBasic only; Z, positive, nat,
   string stay the extracted Coq datatypes.  No Extract Constant / Extract Inductive of ours. *)
From Coq Require Extraction ExtrOcamlBasic.
From DHV Require NumOps Interp Constants Tables Homogeneous Heterogeneous Stratified Framework
  WilsonStratified WilsonV50 Fracs Graded SlurryCalc SlurryState Pipeline PipelineSlurry Pump OpPoint Excel ExcelStore FileName Viewer.
Extraction Language OCaml.
Set Extraction KeepSingleton.
Separate Extraction NumOps Interp Constants Tables Homogeneous Heterogeneous Stratified Framework
  WilsonStratified WilsonV50 Fracs Graded SlurryCalc SlurryState Pipeline PipelineSlurry Pump OpPoint Excel ExcelStore FileName Viewer.
