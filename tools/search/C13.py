#!/venv/bin/python
"""C13 failing-input search on the real code: vls_FBSB (default budget) is positive and is a line speed at which the
fixed-bed excess gradient equals musf within 1 %; the fixed-bed excess gradient increases with line speed around it."""
import math
import random
from scommon import Search, sample_E, seed
from DHLLDV import stratified as st
from DHLLDV.DHLLDV_constants import musf

S = Search('C13', 'random envelope points restricted to Cvs <= 0.40, corners over-weighted; large pipes + fine grains + dilute + dense solids '
                  '(high deposit limit, many Newton steps) and small pipes + light solids (the documented weak corner) emphasised; '
                  'distinct = distinct input point')
rng = random.Random(seed())
for i in range(S.budget):
    b = sample_E(rng, corner=0.3)
    b['Cv'] = min(b['Cv'], 0.40)
    r = rng.random()
    if r < 0.25:
        b['Dp'] = rng.uniform(0.8, 1.2); b['d'] = rng.uniform(1e-4, 5e-4); b['Cv'] = rng.uniform(0.02, 0.1); b['rhos'] = rng.uniform(3.0, 4.0)
    elif r < 0.4:
        b['Dp'] = rng.uniform(0.1, 0.2); b['rhos'] = rng.uniform(2.0, 2.4); b['d'] = min(b['d'], 0.25 * b['Dp'])
    a = (b['Dp'], b['d'], b['epsilon'], b['nu'], b['rhol'], b['rhos'], b['Cv'])
    try:
        v = st.vls_FBSB(*a)
        e = st.fb_Erhg(v, *a)
        e2 = st.fb_Erhg(v * 1.02, *a)
    except Exception as ex:
        S.violation('C13:exception', f'vls_FBSB / fb_Erhg raised {type(ex).__name__}: {ex}', input=a)
        continue
    if isinstance(v, complex) or not (math.isfinite(v) and v > 0):
        S.violation('C13:positive', f'vls_FBSB = {v} is not a positive real', input=a)
        continue
    rel = abs(e - musf) / musf
    S.track_worst('|fb_Erhg(v) - musf| / musf', rel, a)
    if rel > 0.01:
        S.violation('C13:crossing', f'at the returned speed {v} the fixed-bed excess gradient is {e}, {rel * 100:.2f} % from musf', input=a)
    if not e2 > e:
        S.violation('C13:increasing', f'fixed-bed excess gradient does not increase around the returned speed ({e} -> {e2})', input=a)
    S.count(a, 'ok')
    if i == 0:
        S.sample({'args': a, 'vls_FBSB': v, 'fb_Erhg': e})
S.finish()
