let out_regime (r : Framework.regime) : string =
  match r with Framework.R_FB -> "FB" | Framework.R_SB -> "SB" | Framework.R_He -> "He" | Framework.R_Ho -> "Ho"
