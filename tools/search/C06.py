#!/venv/bin/python
"""C06 failing-input search on the real code: LDV finite and positive, independent of its vls argument, and the
default-budget value within 0.1 % of an INDEPENDENT solution of the four implicit friction-factor equations
(Eqns 8.11-1, -3, -6, 8.10-11 solved here by 300 plain fixed-point steps + Eqns 8.11-4..13 re-implemented)."""
import math
import random
from scommon import Search, sample_E, seed
from DHLLDV import DHLLDV_framework as fw
from DHLLDV.homogeneous import swamee_jain_ff
from DHLLDV.heterogeneous import vt_ruby

S = Search('C06', 'random envelope points (corners over-weighted; small pipes, light and heavy solids, d/Dp around 0.015 and d around 2 mm '
                  'emphasised); LDV(default) vs an independent fixed-point solve, vs LDV with another vls argument; distinct = distinct point')
rng = random.Random(seed())
g = 9.80665


def fixed_point(f, v0):
    v = v0
    for _ in range(300):
        v = f(v)
    return v


def ldv_independent(Dp, d, eps, nu, rhol, rhos, Cvs):
    Rsd = (rhos - rhol) / rhol
    fbot = math.sqrt(2 * g * Rsd * Dp)
    lam = lambda v: swamee_jain_ff(v * Dp / nu, Dp, eps)
    v_vs = fixed_point(lambda v: 1.4 * (nu * Rsd * g) ** (1. / 3) * math.sqrt(8 / lam(v)), 1.0)
    alphap = 3.4 * (1.65 / Rsd) ** (2. / 9)
    vt = vt_ruby(d, Rsd, nu)
    Rep = vt * d / nu
    beta = (4.7 + 0.41 * Rep ** 0.75) / (1. + 0.175 * Rep ** 0.75)
    KC = 0.175 * (1 + beta)
    hs = (1 - Cvs / KC) ** beta
    v_ss = fixed_point(lambda v: alphap * (vt * Cvs * hs / (lam(v) * fbot)) ** (1. / 3) * fbot, 4.0)
    Cvr = (0.0065 if d <= 0.015 * Dp else 0.053 * math.sqrt(d / Dp)) / (2 * g * Rsd * Dp)
    v_r = fixed_point(lambda v: alphap * (hs * Cvs * math.sqrt(0.415 * 0.6 * math.pi / 8) * math.sqrt(Cvr) / lam(v)) ** (1. / 3) * fbot, 4.3)
    B = vt * hs / 0.415

    def low(v):
        C = ((8.5 ** 2 / lam(v)) * (vt / math.sqrt(g * d)) ** (10. / 3) * (nu * g) ** (2. / 3)) / 0.415
        return (B + math.sqrt(B * B + 4 * C)) / 2
    v_ll = fixed_point(low, 2.0)
    FL_vs, FL_ss, FL_r, FL_ll = v_vs / fbot, v_ss / fbot, v_r / fbot, v_ll / fbot
    FL_s = max(FL_vs, FL_ss)
    d0 = 0.0005 * math.sqrt(1.65 / Rsd)
    if d > 0.002:
        FL_ul = FL_r
    elif FL_s <= FL_r:
        FL_ul = FL_s
    else:
        FL_ul = FL_s * math.exp(-d / d0) + FL_r * (1 - math.exp(-d / d0))
    return max(FL_ul, FL_ll) * fbot


for i in range(S.budget):
    b = sample_E(rng, corner=0.25)
    r = rng.random()
    if r < 0.15:
        b['d'] = 0.015 * b['Dp'] * rng.choice([0.98, 1.0, 1.02])
    elif r < 0.3:
        b['d'] = min(0.25 * b['Dp'], 0.002 * rng.choice([0.9, 1.0, 1.1, 0.5]))
    elif r < 0.45:
        b['Dp'] = rng.uniform(0.1, 0.2)
        b['d'] = min(b['d'], 0.25 * b['Dp'])
    a = (b['Dp'], b['d'], b['epsilon'], b['nu'], b['rhol'], b['rhos'], b['Cv'])
    try:
        v = fw.LDV(1.0, *a)
        v2 = fw.LDV(rng.choice([0.0, 0.1, 7.0, -3.0, 1e6]), *a)
    except Exception as e:
        S.violation('C06:exception', f'LDV raised {type(e).__name__}: {e}', input=a)
        continue
    if isinstance(v, complex) or not (math.isfinite(v) and v > 0):
        S.violation('C06:positive', f'LDV = {v} is not a finite positive real', input=a)
        continue
    if v2 != v:
        S.violation('C06:dummy', f'LDV depends on its vls argument: {v} vs {v2}', input=a)
    try:
        ref = ldv_independent(*a)
    except Exception as e:
        S.count(None, 'reference-exception:' + type(e).__name__)
        continue
    err = abs(v / ref - 1)
    S.track_worst('|LDV/LDV_converged - 1|', err, a)
    if err > 1e-3:
        S.violation('C06:converged', f'LDV(default budget) = {v} but the converged solution is {ref} ({err * 100:.3f} % off)', input=a)
    S.count(a, 'large' if b['d'] > 0.015 * b['Dp'] else 'small')
    if i == 0:
        S.sample({'args': a, 'LDV': v, 'converged': ref})
S.finish()
