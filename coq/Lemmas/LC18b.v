(* C18, shipped tables (regenerated from DHLLDV_constants.py): positive entries; kinematic viscosity of water
   strictly decreasing from node to node, hence with temperature on [0, 100]. *)
From Coq Require Import Reals List Bool Lra Sorted.
From DHV Require Import NumOps RInst Interp LC18.
From DHV Require Tables.
Import ListNotations.
Local Open Scope R_scope.

Ltac sorted_tac := repeat (constructor; [|try (repeat (constructor; [unfold klt; cbn [fst]; lra|]); constructor)]); try constructor.

Lemma density_keys : increasing (Tables.water_density RN).
Proof. unfold Tables.water_density, increasing. toR. repeat (apply SSorted_cons; [|repeat (apply Forall_cons; [unfold klt; cbn [fst]; lra|]); apply Forall_nil]). apply SSorted_nil. Qed.
Lemma dynvisc_keys : increasing (Tables.water_dynamic_viscosity RN).
Proof. unfold Tables.water_dynamic_viscosity, increasing. toR. repeat (apply SSorted_cons; [|repeat (apply Forall_cons; [unfold klt; cbn [fst]; lra|]); apply Forall_nil]). apply SSorted_nil. Qed.
Lemma beta_keys : increasing (Tables.Arel_to_beta RN).
Proof. unfold Tables.Arel_to_beta, increasing. toR. repeat (apply SSorted_cons; [|repeat (apply Forall_cons; [unfold klt; cbn [fst]; lra|]); apply Forall_nil]). apply SSorted_nil. Qed.

Lemma density_positive : Forall (fun p => 0 < snd p) (Tables.water_density RN).
Proof. unfold Tables.water_density. toR. repeat (apply Forall_cons; [cbn [snd]; lra|]). apply Forall_nil. Qed.
Lemma dynvisc_positive : Forall (fun p => 0 < snd p) (Tables.water_dynamic_viscosity RN).
Proof. unfold Tables.water_dynamic_viscosity. toR. repeat (apply Forall_cons; [cbn [snd]; lra|]). apply Forall_nil. Qed.

Lemma lookup_or_fail_hit tbl xlo xhi tol k v :
  increasing tbl -> In (k, v) tbl -> lookup_or_fail RN tbl xlo xhi tol k = v.
Proof. intros Hs Hin. unfold lookup_or_fail. rewrite (lookup_hit _ _ _ _ _ _ Hs Hin). reflexivity. Qed.

Ltac in_tac := repeat (first [left; reflexivity | right]).

(* the derived table, node by node:  nu(t) = mu(t) / (1000 * rho(t)) *)
Definition visc_rows : list (R * R) :=
  map (fun pq : (R * R) * (R * R) => (fst (fst pq), snd (fst pq) / (1000 * snd (snd pq))))
      (combine (Tables.water_dynamic_viscosity RN) (Tables.water_density RN)).

Lemma viscosity_rows : Tables.water_viscosity RN = visc_rows.
Proof.
  unfold Tables.water_viscosity.
  match goal with |- map ?f _ = _ => set (F := f) end.
  unfold Tables.water_density. cbn [map]. subst F. cbv beta. cbn [fst].
  repeat (erewrite (lookup_or_fail_hit (Tables.water_dynamic_viscosity RN)); [|exact dynvisc_keys|unfold Tables.water_dynamic_viscosity; in_tac]).
  repeat (erewrite (lookup_or_fail_hit (Tables.water_density RN)); [|exact density_keys|unfold Tables.water_density; in_tac]).
  reflexivity.
Qed.

Lemma viscosity_positive : Forall (fun p => 0 < snd p) (Tables.water_viscosity RN).
Proof.
  rewrite viscosity_rows. unfold visc_rows, Tables.water_dynamic_viscosity, Tables.water_density. cbn [combine map fst snd]. toR.
  repeat (apply Forall_cons; [cbn [snd]; apply Rdiv_lt_0_compat; lra|]). apply Forall_nil.
Qed.

(* strictly decreasing from node to node (keys increasing, values decreasing) *)
Definition vdec (p q : R * R) : Prop := fst p < fst q /\ snd q < snd p.
Lemma viscosity_decreasing_nodes : StronglySorted vdec (Tables.water_viscosity RN).
Proof.
  rewrite viscosity_rows. unfold visc_rows, Tables.water_dynamic_viscosity, Tables.water_density. cbn [combine map fst snd]. toR.
  repeat (apply SSorted_cons; [|repeat (apply Forall_cons; [unfold vdec; cbn [fst snd]; split; lra|]); apply Forall_nil]).
  apply SSorted_nil.
Qed.

(* between two nodes the interpolant decreases too: a line through (x1,y1),(x2,y2) with y2 < y1 *)
Lemma line_decreasing x1 y1 x2 y2 a b : x1 < x2 -> y2 < y1 -> a < b -> line x1 y1 x2 y2 b < line x1 y1 x2 y2 a.
Proof.
  intros Hx Hy Hab. unfold line.
  assert (S : (y2 - y1) / (x2 - x1) < 0).
  { assert (0 < / (x2 - x1)) by (apply Rinv_0_lt_compat; lra). unfold Rdiv. nra. }
  nra.
Qed.
