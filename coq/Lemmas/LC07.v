(* Proofs for C07: the Slurry state machine never serves stale derived data.
   Refinement: the concrete state (parameters, two dirty flags, cached grading and curves) against
   the abstract state (parameters + the two grading ratios); every read of every reachable state
   returns what the abstract state determines, i.e. what a freshly built object would return. *)
From Coq Require Import Reals List Bool Lra.
From DHV Require Import NumOps RInst Interp Fracs Graded SlurryCalc SlurryState LCommon.
Import ListNotations.
Local Open Scope R_scope.

Section C07.
Variables sf sq : bool.

(* abstract state: what "a slurry object built directly with the same final parameters" is built from *)
Record astate : Type := mkA { a_p : sparams (T:=R); a_salt : bool; a_r15 : R; a_r85 : R }.

Definition spec_gsd (a : astate) : gsd (T:=R) :=
  let p := a_p a in
  generate_GSD RN [] (p_D50 p) (p_Dp p) (p_nu p) (p_rhol p) (p_rhos p) (Some (a_r15 a)) (Some (a_r85 a)).
Definition spec_curves (a : astate) : curves (T:=R) := generate_curves RN sf sq (a_p a) (spec_gsd a).

Definition r15_of (g : gsd (T:=R)) : R := ndiv RN (get_dx RN g (nlit RN 5 10)) (get_dx RN g (nlit RN 15 100)).
Definition r85_of (g : gsd (T:=R)) : R := ndiv RN (get_dx RN g (nlit RN 85 100)) (get_dx RN g (nlit RN 5 10)).

(* the grading ratios can be read back from a generated grading (C12: D50 and D85 are nodes, D15 is a
   node or lies on the first log-linear segment) -- a property of create_fracs, kept as the explicit
   premise [valid] of the theorems below *)
Definition recovers (a : astate) : Prop :=
  r15_of (spec_gsd a) = a_r15 a /\ r85_of (spec_gsd a) = a_r85 a.
Definition valid (a : astate) : Prop := a_r15 a <> 0 /\ a_r85 a <> 0 /\ recovers a.

Definition upd_ratio (cur : R) (o : option R) : R :=
  match o with Some r => if truthy RN r then r else cur | None => cur end.

Definition astep (a : astate) (o : op (T:=R)) : astate :=
  let p := a_p a in
  match o with
  | SetDp v => mkA (set_Dp p v) (a_salt a) (a_r15 a) (a_r85 a)
  | SetEps v => mkA (set_eps p v) (a_salt a) (a_r15 a) (a_r85 a)
  | SetFluid b => mkA (set_fluid p (fluid_props RN b)) b (a_r15 a) (a_r85 a)
  | SetD50 v => mkA (set_D50 p v) (a_salt a) (a_r15 a) (a_r85 a)
  | SetCv v => mkA (set_Cv p v) (a_salt a) (a_r15 a) (a_r85 a)
  | SetRhos v => mkA (set_rhos p v) (a_salt a) (a_r15 a) (a_r85 a)
  | SetRhom v => mkA (set_Cv p (Cv_of_rhom RN p v)) (a_salt a) (a_r15 a) (a_r85 a)
  | SetMaxIndex n => mkA (set_max_index p n) (a_salt a) (a_r15 a) (a_r85 a)
  | SetRhoi v => mkA (set_rhoi p v) (a_salt a) (a_r15 a) (a_r85 a)
  | GenGSD r15 r85 => mkA p (a_salt a) (upd_ratio (a_r15 a) r15) (upd_ratio (a_r85 a) r85)
  | _ => a
  end.

(* what a freshly built object returns for a read *)
Definition aout (a : astate) (o : op (T:=R)) : out (T:=R) :=
  match o with
  | ReadGSD => OGSD (spec_gsd a)
  | ReadDx f => ONum (get_dx RN (spec_gsd a) f)
  | ReadCurves => OCurves (spec_curves a)
  | ReadPoint v => OPoint (SlurryCalc.il RN (a_p a) v) (SlurryCalc.Erhg RN sf sq (a_p a) (spec_gsd a) v)
                          (SlurryCalc.im RN sf sq (a_p a) (spec_gsd a) v)
  | ReadScalars => OScalars (Rsd RN (a_p a)) (rhom RN (a_p a)) (Cvi RN (a_p a))
  | _ => ONone
  end.

(* the refinement invariant *)
Definition Inv (s : state (T:=R)) (a : astate) : Prop :=
  sp s = a_p a /\ salt s = a_salt a /\
  r15_of (s_gsd s) = a_r15 a /\ r85_of (s_gsd s) = a_r85 a /\
  (gsd_dirty s = false -> s_gsd s = spec_gsd a) /\
  (curves_dirty s = false -> gsd_dirty s = false /\ s_curves s = Some (spec_curves a)).

(* regenerating from a grading that still encodes the current ratios gives the fresh grading *)
Lemma gen_from_old g D50 Dp nu rhol rhos r15 r85 o15 o85 :
  r15_of g = r15 -> r85_of g = r85 ->
  generate_GSD RN g D50 Dp nu rhol rhos o15 o85 =
  generate_GSD RN [] D50 Dp nu rhol rhos (Some (upd_ratio r15 o15)) (Some (upd_ratio r85 o85)) \/
  upd_ratio r15 o15 = 0 \/ upd_ratio r85 o85 = 0.
Proof.
  intros H15 H85.
  destruct (Req_EM_T (upd_ratio r15 o15) 0) as [Z15|N15]; [right; left; exact Z15|].
  destruct (Req_EM_T (upd_ratio r85 o85) 0) as [Z85|N85]; [right; right; exact Z85|].
  left. unfold generate_GSD. rewrite (truthy_R _ N15), (truthy_R _ N85).
  fold (r15_of g) (r85_of g). rewrite H15, H85.
  destruct o15 as [x|]; destruct o85 as [y|]; cbn [upd_ratio] in *;
    repeat match goal with |- context [truthy RN ?z] => destruct (truthy RN z) end; reflexivity.
Qed.

Lemma do_gen_gsd_inv s a o15 o85 :
  Inv s a -> valid (astep a (GenGSD o15 o85)) ->
  let s' := do_gen_gsd RN s o15 o85 in
  Inv s' (astep a (GenGSD o15 o85)) /\ gsd_dirty s' = false.
Proof.
  intros (Hp & Hs & H15 & H85 & Hg & Hc) (N15 & N85 & R15 & R85). cbn [astep a_r15 a_r85] in *.
  assert (G : s_gsd (do_gen_gsd RN s o15 o85) = spec_gsd (astep a (GenGSD o15 o85))).
  { unfold do_gen_gsd, spec_gsd. cbn [s_gsd astep a_p a_r15 a_r85]. rewrite Hp.
    destruct (gen_from_old (s_gsd s) (p_D50 (a_p a)) (p_Dp (a_p a)) (p_nu (a_p a)) (p_rhol (a_p a))
                (p_rhos (a_p a)) _ _ o15 o85 H15 H85) as [E|[E|E]]; [exact E|contradiction|contradiction]. }
  cbv zeta. split; [|reflexivity].
  unfold Inv. rewrite G. cbn [do_gen_gsd sp salt gsd_dirty curves_dirty astep a_p a_salt a_r15 a_r85].
  repeat split; try assumption;
    match goal with H : true = false |- _ => discriminate H end.
Qed.

Lemma astep_none a : astep a (GenGSD None None) = a.
Proof. destruct a; reflexivity. Qed.

Lemma ensure_gsd_inv s a :
  Inv s a -> valid a ->
  let s' := ensure_gsd RN s in
  Inv s' a /\ gsd_dirty s' = false /\ s_gsd s' = spec_gsd a /\ sp s' = a_p a.
Proof.
  intros HI HV. unfold ensure_gsd. destruct (gsd_dirty s) eqn:D; cbv zeta.
  - pose proof (do_gen_gsd_inv s a None None HI) as H. rewrite astep_none in H. destruct (H HV) as [I' C'].
    split; [exact I'|]. split; [exact C'|]. split.
    + destruct I' as (_ & _ & _ & _ & Hg & _). apply Hg. exact C'.
    + destruct I' as (Hp & _). exact Hp.
  - pose proof HI as (Hp & Hs & H15 & H85 & Hg & Hc).
    split; [exact HI|]. split; [exact D|]. split; [apply Hg; exact D|exact Hp].
Qed.

(* one step: the value read is the fresh value and the invariant is kept *)
Ltac inv_open :=
  unfold Inv, mark, with_p;
  cbn [sp salt s_gsd gsd_dirty s_curves curves_dirty astep a_p a_salt a_r15 a_r85 orb fst snd].
Ltac six := split; [|split; [|split; [|split; [|split]]]].

(* a setter: [Inv] is kept when every flag that is NOT raised guards data the new parameters leave unchanged *)
Ltac setter HI :=
  let Hp := fresh "Hp" in let Hs := fresh "Hs" in let H15 := fresh "H15" in let H85 := fresh "H85" in
  let Hg := fresh "Hg" in let Hc := fresh "Hc" in let D := fresh "D" in let D1 := fresh "D1" in let E1 := fresh "E1" in
  destruct HI as (Hp & Hs & H15 & H85 & Hg & Hc);
  split; [reflexivity|]; inv_open; six;
  [ rewrite Hp; reflexivity
  | first [exact Hs | reflexivity]
  | exact H15
  | exact H85
  | first [ intro D; discriminate D
          | intro D; rewrite (Hg D); reflexivity ]
  | first [ intro D; discriminate D
          | intro D; destruct (Hc D) as [D1 E1]; split; [exact D1 | rewrite E1; reflexivity] ] ].

Lemma step_refines s a o :
  Inv s a -> valid a -> valid (astep a o) ->
  snd (step RN sf sq s o) = aout (astep a o) o /\ Inv (fst (step RN sf sq s o)) (astep a o).
Proof.
  intros HI HV HV'.
  destruct o; cbn [step astep aout fst snd].
  - setter HI.   (* Dp *)
  - setter HI.   (* eps *)
  - setter HI.   (* fluid *)
  - setter HI.   (* D50 *)
  - setter HI.   (* Cv *)
  - setter HI.   (* rhos *)
  - destruct HI as (Hp & Hs & H15 & H85 & Hg & Hc).   (* rhom: a Cv edit computed from the current parameters *)
    split; [reflexivity|]; inv_open; six;
    [ rewrite Hp; reflexivity | exact Hs | exact H15 | exact H85
    | intro D; rewrite (Hg D); reflexivity | intro D; discriminate D ].
  - setter HI.   (* max_index *)
  - setter HI.   (* rhoi: no flag; neither the grading nor the curves depend on it *)
  - (* generate_GSD *)
    split; [reflexivity|]. apply do_gen_gsd_inv; assumption.
  - (* read GSD *)
    destruct (ensure_gsd_inv s a HI HV) as (I' & C' & G' & P'). cbv zeta in *. rewrite G'. split; [reflexivity|exact I'].
  - (* read get_dx *)
    destruct (ensure_gsd_inv s a HI HV) as (I' & C' & G' & P'). cbv zeta in *. rewrite G'. split; [reflexivity|exact I'].
  - (* read curves *)
    unfold ensure_curves.
    assert (K : forall s0, Inv s0 a ->
              s_curves (do_gen_curves RN sf sq s0) = Some (spec_curves a) /\ Inv (do_gen_curves RN sf sq s0) a).
    { intros s0 I0. destruct (ensure_gsd_inv s0 a I0 HV) as (I' & C' & G' & P'). cbv zeta in *.
      unfold do_gen_curves. cbv zeta. set (s1 := ensure_gsd RN s0) in *.
      destruct I' as (Hp & Hs & H15 & H85 & Hg & Hc).
      unfold Inv. cbn [sp salt s_gsd gsd_dirty s_curves curves_dirty]. rewrite G', P'. split; [reflexivity|]. six;
      [ reflexivity | exact Hs | rewrite <- G'; exact H15 | rewrite <- G'; exact H85 | intros _; reflexivity
      | intros _; split; [exact C' | reflexivity] ]. }
    destruct (s_curves s) eqn:SC.
    + destruct (curves_dirty s) eqn:CD.
      * destruct (K s HI) as [E I']. rewrite E. split; [reflexivity|exact I'].
      * pose proof HI as (Hp & Hs & H15 & H85 & Hg & Hc). destruct (Hc CD) as [_ E].
        rewrite SC. rewrite SC in E. injection E as E. rewrite E. split; [reflexivity|exact HI].
    + destruct (K s HI) as [E I']. rewrite E. split; [reflexivity|exact I'].
  - (* read point *)
    destruct (ensure_gsd_inv s a HI HV) as (I' & C' & G' & P'). cbv zeta in *. rewrite G', P'. split; [reflexivity|exact I'].
  - (* read scalars *)
    pose proof HI as (Hp & Hs & H15 & H85 & Hg & Hc). rewrite Hp. split; [reflexivity|exact HI].
Qed.

(* all abstract states along a history are valid (every intermediate parameter set lies in E) *)
Fixpoint all_valid (a : astate) (ops : list (op (T:=R))) : Prop :=
  valid a /\ match ops with [] => True | o :: r => all_valid (astep a o) r end.

Fixpoint spec_outs (a : astate) (ops : list (op (T:=R))) : list (out (T:=R)) :=
  match ops with [] => [] | o :: r => aout (astep a o) o :: spec_outs (astep a o) r end.
Fixpoint afinal (a : astate) (ops : list (op (T:=R))) : astate :=
  match ops with [] => a | o :: r => afinal (astep a o) r end.

Theorem no_stale : forall ops s a,
  Inv s a -> all_valid a ops ->
  snd (run RN sf sq s ops) = spec_outs a ops /\ Inv (fst (run RN sf sq s ops)) (afinal a ops).
Proof.
  induction ops as [|o r IH]; intros s a HI HV.
  - split; [reflexivity|exact HI].
  - cbn [run spec_outs afinal]. destruct HV as [HV HVr]. cbn [all_valid] in HVr.
    assert (HV' : valid (astep a o)) by (destruct r; destruct HVr; assumption).
    destruct (step_refines s a o HI HV HV') as [E I'].
    destruct (step RN sf sq s o) as [s1 x] eqn:ST. cbn [fst snd] in *.
    destruct (IH s1 (astep a o) I' HVr) as [E2 I2].
    destruct (run RN sf sq s1 r) as [s2 xs] eqn:RN2. cbn [fst snd] in *.
    split; [rewrite E, E2; reflexivity|exact I2].
Qed.

(* the constructor establishes the invariant *)
Definition a_init (Dp D50 : R) (is_salt : bool) (Cv : R) (mi : nat) : astate :=
  mkA (sp (init RN Dp D50 is_salt Cv mi)) is_salt (nlit RN 20 10) (nlit RN 272 100).

Lemma init_inv Dp D50 is_salt Cv mi :
  valid (a_init Dp D50 is_salt Cv mi) -> Inv (init RN Dp D50 is_salt Cv mi) (a_init Dp D50 is_salt Cv mi).
Proof.
  intros (N15 & N85 & R15 & R85).
  unfold Inv, a_init. cbn [sp salt s_gsd gsd_dirty curves_dirty s_curves init a_p a_salt a_r15 a_r85].
  six; [ reflexivity | reflexivity | exact R15 | exact R85 | intros _; reflexivity | intro D; discriminate D ].
Qed.
End C07.

Lemma no_trace (sf sq : bool) (ops1 ops2 : list (op (T:=R))) (s1 s2 : state (T:=R)) (a1 a2 : astate) (o : op (T:=R)) :
  Inv sf sq s1 a1 -> Inv sf sq s2 a2 -> all_valid a1 ops1 -> all_valid a2 ops2 ->
  afinal a1 ops1 = afinal a2 ops2 -> valid (afinal a1 ops1) -> valid (astep (afinal a1 ops1) o) ->
  snd (step RN sf sq (fst (run RN sf sq s1 ops1)) o) = snd (step RN sf sq (fst (run RN sf sq s2 ops2)) o).
Proof.
  intros I1 I2 V1 V2 E VF VF'.
  destruct (no_stale sf sq ops1 s1 a1 I1 V1) as [_ J1].
  destruct (no_stale sf sq ops2 s2 a2 I2 V2) as [_ J2].
  destruct (step_refines sf sq _ _ o J1 VF VF') as [O1 _].
  rewrite <- E in J2.
  destruct (step_refines sf sq _ _ o J2 VF VF') as [O2 _].
  rewrite O1, O2. reflexivity.
Qed.
