#!/bin/bash
# mk.sh [targets]: refresh coq/_CoqProject + Makefile and run make (default: everything)
cd /verif/coq
(cat _CoqProject.base; ls Num/*.v Gen/*.v Models/*.v Lemmas/*.v Props/*.v 2>/dev/null) > _CoqProject.new
if ! cmp -s _CoqProject.new _CoqProject || [ ! -f Makefile ]; then mv _CoqProject.new _CoqProject; coq_makefile -f _CoqProject -o Makefile > /dev/null; else rm _CoqProject.new; fi
timeout ${MK_TIMEOUT:-3000} make -j16 "$@" 2>&1 | grep -v "^COQDEP\|^COQC\|^make\[" 
