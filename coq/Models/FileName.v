(* FileName: executable model of store_pump_excel.remove_disallowed_filename_chars and of the file-name handling of
   store_to_excel, over lists of Unicode code points.  The whitelist is GENERATED (Gen/FileChars.v).
   Tied to the code by tools/harness/corr_filename.py.  No proofs here. *)
From Coq Require Import ZArith List Bool.
From DHV Require Import FileChars.
Import ListNotations.
Local Open Scope Z_scope.

Definition mem (c : Z) (l : list Z) : bool := existsb (Z.eqb c) l.

(* str.replace(c, '_') for each c in replace_filename_chars, in order *)
Definition replace_one (r : Z) (s : list Z) : list Z := map (fun c => if Z.eqb c r then underscore else c) s.
Definition replace_all (s : list Z) : list Z := fold_left (fun acc r => replace_one r acc) replace_filename_chars s.

Definition clean (s ext : list Z) : list Z := filter (fun c => mem c valid_filename_chars) (replace_all s) ++ ext.

Definition ends_with (suffix s : list Z) : bool :=
  let n := length s in let m := length suffix in
  if Nat.ltb n m then false
  else if list_eq_dec Z.eq_dec (skipn (n - m) s) suffix then true else false.

(* base name chosen by store_to_excel(pipeline, fname): fname None -> pipeline name + '_' + timestamp *)
Definition stored_basename (fname : option (list Z)) (pipeline_name timestamp : list Z) : list Z :=
  match fname with
  | None => clean (pipeline_name ++ [underscore] ++ timestamp) extension
  | Some f => if ends_with extension f then clean (firstn (length f - 5) f) extension else clean f extension
  end.
