#!/venv/bin/python
"""C02 failing-input search on the real code: every public head-loss, regime, slip-ratio, limit-deposit-velocity and
graded-sand call on the engineering envelope, and the Slurry object's full curve generation, must return finite real
numbers (or regime names) and raise nothing.

Streams: (1) random envelope points, corners over-weighted, both module-switch settings, all uniform-sand functions;
(2) a dense coarse-side (d x Cv x vls) grid for the delivered-concentration path (where the derived spatial
concentration approaches the hindered-settling limit); (3) graded-sand calls on generated gradings; (4) Slurry objects
(Dp, fluid, rhos, Cv, D15 < D50 < D85 with ratios <= 6, D85 <= 0.5 Dp): every number in every curve table;
(5) the recorded exact zero of the Eqn 8.12-3 denominator (known finding, keyed by its call site)."""
import concurrent.futures as cf
import math
import multiprocessing as mp
import random
from scommon import Search, E_args, sample_E, threshold_points, seed, is_slip_pole
from DHLLDV import DHLLDV_framework as fw, homogeneous as ho, heterogeneous as he, stratified as st
from DHLLDV import SlurryObj
from DHLLDV.DHLLDV_constants import Cvb

S = Search('C02', 'all public uniform-sand calls on random envelope points (corners over-weighted, both switch settings), a dense '
                  'coarse-side (d x Cv x vls) grid for the Cvt path, graded-sand calls on generated gradings, full curve generation of '
                  'random Slurry objects (every number of every table); distinct = distinct input point / object')
rng = random.Random(seed() * 31 + 2)


def finite(x):
    if isinstance(x, bool):
        return True
    if isinstance(x, (int, float)):
        return math.isfinite(x)
    if isinstance(x, str):
        return True
    if isinstance(x, (tuple, list)):
        return all(finite(y) for y in x)
    if isinstance(x, dict):
        return all(finite(y) for y in x.values())
    return False      # complex, None, anything else


def uniform_calls(a, sw):
    vls, Dp, d, eps, nu, rhol, rhos, Cv = a
    Rsd = (rhos - rhol) / rhol
    yield 'homogeneous.fluid_head_loss', lambda: ho.fluid_head_loss(vls, Dp, eps, nu, rhol)
    yield 'homogeneous.fluid_pressure_loss', lambda: ho.fluid_pressure_loss(vls, Dp, eps, nu, rhol)
    yield 'homogeneous.Erhg', lambda: ho.Erhg(*a, use_sf=sw[0])
    yield 'homogeneous.homogeneous_head_loss', lambda: ho.homogeneous_head_loss(*a)
    yield 'homogeneous.homogeneous_pressure_loss', lambda: ho.homogeneous_pressure_loss(*a)
    yield 'homogeneous.limiting_particle', lambda: ho.limiting_particle(Dp, nu, rhol, rhos)
    yield 'heterogeneous.vt_ruby', lambda: he.vt_ruby(d, Rsd, nu)
    yield 'heterogeneous.vth_RZ', lambda: he.vth_RZ(d, Rsd, nu, Cv)
    yield 'heterogeneous.Shr', lambda: he.Shr(*a)
    yield 'heterogeneous.Srs', lambda: he.Srs(*a[:7], use_sqrtcx=sw[1])
    yield 'heterogeneous.Erhg', lambda: he.Erhg(*a, use_sf=sw[0], use_sqrtcx=sw[1])
    yield 'heterogeneous.heterogeneous_head_loss', lambda: he.heterogeneous_head_loss(*a, use_sf=sw[0], use_sqrtcx=sw[1])
    yield 'heterogeneous.heterogeneous_pressure_loss', lambda: he.heterogeneous_pressure_loss(*a, use_sf=sw[0], use_sqrtcx=sw[1])
    yield 'stratified.fb_Erhg', lambda: st.fb_Erhg(*a)
    yield 'stratified.fb_head_loss', lambda: st.fb_head_loss(*a)
    yield 'stratified.fb_pressure_loss', lambda: st.fb_pressure_loss(*a)
    yield 'stratified.vls_FBSB', lambda: st.vls_FBSB(*a[1:])
    yield 'stratified.Erhg', lambda: st.Erhg(*a)
    yield 'stratified.sliding_bed_head_loss', lambda: st.sliding_bed_head_loss(*a)
    yield 'stratified.sliding_bed_pressure_loss', lambda: st.sliding_bed_pressure_loss(*a)
    yield 'framework.Cvs_Erhg', lambda: fw.Cvs_Erhg(*a)
    yield 'framework.Cvs_Erhg(dict)', lambda: fw.Cvs_Erhg(*a, get_dict=True)
    yield 'framework.Cvs_regime', lambda: fw.Cvs_regime(*a)
    yield 'framework.LDV', lambda: fw.LDV(*a)
    yield 'framework.slip_ratio', lambda: fw.slip_ratio(*a)
    yield 'framework.Cvs_from_Cvt', lambda: fw.Cvs_from_Cvt(*a)
    yield 'framework.Cvt_Erhg', lambda: fw.Cvt_Erhg(*a)
    yield 'framework.Cvt_Erhg(dict)', lambda: fw.Cvt_Erhg(*a, get_dict=True)
    yield 'framework.Cvt_regime', lambda: fw.Cvt_regime(*a)
    yield 'framework.pseudo_dlim', lambda: fw.pseudo_dlim(Dp, nu, rhol, rhos)


def run_point(a, sw, only=None):
    fw.use_sf, fw.use_sqrtcx = sw
    try:
        for name, call in uniform_calls(a, sw):
            if only and not name.startswith(only):
                continue
            try:
                r = call()
            except ZeroDivisionError as e:
                if is_slip_pole(e):
                    S.violation('C02:slip-pole', f'{name} raised ZeroDivisionError: exact zero of the denominator of Eqn 8.12-3 (Xi_fb)',
                                input=list(a), switches=list(sw))
                else:
                    S.violation('C02:raise:' + name, f'{name} raised ZeroDivisionError: {e}', input=list(a), switches=list(sw))
                continue
            except Exception as e:
                S.violation('C02:raise:' + name, f'{name} raised {type(e).__name__}: {str(e)[:100]}', input=list(a), switches=list(sw))
                continue
            if not finite(r):
                S.violation('C02:nonfinite:' + name, f'{name} returned {str(r)[:120]}', input=list(a), switches=list(sw))
    finally:
        fw.use_sf, fw.use_sqrtcx = True, True


def grading(rng, b):
    """a grading inside the quantifier: D15 < D50 < D85, ratios <= 6, D85 <= 0.5 Dp"""
    d50 = b['d']
    r85 = min(rng.uniform(1.2, 6.0), 0.5 * b['Dp'] / d50)
    r15 = rng.uniform(1.2, 6.0)
    if r85 <= 1.05:
        return None
    return {0.15: d50 / r15, 0.5: d50, 0.85: d50 * r85}


def slurry_job(p):
    """runs in a worker: build the object, generate every curve, return the first offending entry"""
    try:
        s = SlurryObj.Slurry(Dp=p['Dp'], D50=p['D50'], fluid=p['fluid'], Cv=p['Cv'], max_index=100)
        s.rhos = p['rhos']
        s.generate_GSD(d15_ratio=p['r15'], d85_ratio=p['r85'])
        s.generate_curves()
        tables = {'vls': s.vls_list}
        for nm, dd in (('Erhg', s.Erhg_curves), ('im', s.im_curves), ('LDV', s.LDV_curves), ('LDV85', s.LDV85_curves)):
            for k, v in dd.items():
                tables[nm + '.' + k] = v
        count = 0
        for k, v in tables.items():
            for i, x in enumerate(v):
                count += 1
                if not finite(x):
                    return p, ('nonfinite', f'{k}[{i}] = {x!r}'), count
        return p, None, count
    except Exception as e:
        return p, ('pole' if is_slip_pole(e) else 'raise', f'{type(e).__name__}: {str(e)[:120]}'), 0


def main():
    n = S.budget
    # (1) random envelope points + threshold placements
    for i in range(n):
        b = sample_E(rng, corner=0.25)
        pts = [b] + (threshold_points(rng, b)[:2] if i % 10 == 0 else [])
        for q in pts:
            if not (0.1 <= q['vls'] <= 10.0):
                continue
            a = E_args(q)
            sw = (rng.random() < 0.7, rng.random() < 0.7)
            run_point(a, sw)
            S.count(a, 'uniform')
        if i == 0:
            S.sample({'args': E_args(b)})
    # (2) coarse-side grid for the Cvt path
    m = max(4, int(round((n / 2) ** (1 / 3))))
    for Dp in (0.1524, 0.5, 0.762, 1.2):
        nu, rhol = 1.0508e-6, 1.0248103
        for rhos in (2.0, 2.65, 4.0):
            for i in range(m):
                d = 0.25 * Dp * (0.02 ** (i / (m - 1))) if m > 1 else 0.25 * Dp
                for j in range(m):
                    Cv = 0.02 + (0.45 - 0.02) * j / (m - 1)
                    for k in range(m):
                        vls = 0.1 * (100 ** (k / (m - 1)))
                        a = (vls, Dp, d, 4.5e-5, nu, rhol, rhos, Cv)
                        run_point(a, (True, True), only='framework.C')
                        S.count(a, 'grid')
    # (3) graded sand
    for i in range(max(10, n // 4)):
        b = sample_E(rng, corner=0.2)
        g = grading(rng, b)
        if g is None:
            continue
        vls, Dp, d, eps, nu, rhol, rhos, Cv = E_args(b)
        for flag in (False, True):
            try:
                r = fw.Erhg_graded(g, vls, Dp, eps, nu, rhol, rhos, Cv, Cvt_eq_Cvs=flag)
                r2 = fw.Erhg_graded(g, vls, Dp, eps, nu, rhol, rhos, Cv, Cvt_eq_Cvs=flag, get_dict=True)
                fr = fw.create_fracs(g, Dp, nu, rhol, rhos)
            except ZeroDivisionError as e:
                S.violation('C02:slip-pole' if is_slip_pole(e) else 'C02:raise:Erhg_graded', f'Erhg_graded raised ZeroDivisionError: {e}',
                            input=[g, vls, Dp, eps, nu, rhol, rhos, Cv, flag])
                continue
            except Exception as e:
                S.violation('C02:raise:Erhg_graded', f'Erhg_graded(Cvt_eq_Cvs={flag}) raised {type(e).__name__}: {str(e)[:100]}',
                            input=[g, vls, Dp, eps, nu, rhol, rhos, Cv, flag])
                continue
            vals = [r, fr] + [v for k, v in r2.items() if not isinstance(v, (dict, list))] + [v for v in r2.values() if isinstance(v, (dict, list))]
            if not finite(vals):
                S.violation('C02:nonfinite:Erhg_graded', f'Erhg_graded(Cvt_eq_Cvs={flag}) returned a non-finite entry: {str(r)[:80]}',
                            input=[g, vls, Dp, eps, nu, rhol, rhos, Cv, flag])
        S.count(repr((g, vls, Dp)), 'graded')
    # (4) Slurry objects
    jobs = []
    for i in range(max(16, n // 12)):
        b = sample_E(rng, corner=0.3)
        fluid = rng.choice(['fresh', 'salt'])
        r85 = min(rng.uniform(1.2, 6.0), 0.5 * b['Dp'] / b['d'])
        if r85 <= 1.05:
            continue
        jobs.append(dict(Dp=b['Dp'], D50=b['d'], fluid=fluid, Cv=b['Cv'], rhos=b['rhos'], r15=rng.uniform(1.2, 6.0), r85=r85))
    # the coarse objects every one of which failed before the repair of (1 - Cvs/KC)**beta
    jobs += [dict(Dp=0.762, D50=d50, fluid='salt', Cv=cv, rhos=2.65, r15=2.0, r85=2.72) for d50 in (0.01, 0.03, 0.06) for cv in (0.1, 0.3, 0.45)]
    numbers = 0
    with cf.ProcessPoolExecutor(max_workers=16, mp_context=mp.get_context('fork')) as ex:
        for p, bad, cnt in ex.map(slurry_job, jobs, chunksize=2):
            numbers += cnt
            S.count(repr(sorted(p.items())), 'slurry-object')
            if bad:
                kind, what = bad
                key = 'C02:slip-pole' if kind == 'pole' else f'C02:curves:{kind}'
                S.violation(key, f'Slurry curve generation: {what}', input=p)
    S.distribution['curve_numbers_checked'] = numbers
    # (5) the recorded pole
    pole = (7.341116741723085, 0.6220277465574028, 0.0001296626597903499, 4.5e-05, 1.1944835015943532e-06, 1.0166564188449936,
            2.2852007058507358, 0.1811444315872467)
    run_point(pole, (True, True), only='framework.slip_ratio')
    S.count(pole, 'recorded-pole')
    S.finish()


main()
