(* Proofs for C02 (finite real results on the envelope): the leaf models are defined on E (their generated side-condition
   predicates hold), and the delivered-concentration path of coarse grains keeps the derived spatial concentration
   strictly below the bed concentration (so the bed-angle table is read inside its range). *)
From Coq Require Import Reals Lra.
From DHV Require Import NumOps RInst LC05 LIl LSettle.
From DHV Require Constants Framework.
Import Framework.
Local Open Scope R_scope.

(* For d/Dp >= 4 * particle_ratio the sliding-flow weight f of Eqn 8.12-10 is clamped to 0 and the slip ratio IS the
   three-layer-model slip  (1 - Cvr) exp(e1 e2)  with e1 < 0 < e2: *)
Lemma slip_coarse vls Dp d eps nu rhol rhos Cvt : 0 < Dp -> 4 * (15 / 1000) * Dp <= d ->
  exists e1 e2 : R, e1 < 0 /\ 0 < e2 /\
    slip_ratio RN vls Dp d eps nu rhol rhos Cvt = (1 - Cvt / Constants.Cvb RN) * exp (e1 * e2).
Proof.
  intros HD Hd.
  assert (Q0 : 4 * (15 / 1000) <= d / Dp).
  { apply (Rmult_le_reg_r Dp); [lra|]. replace (d / Dp * Dp) with d by (field; lra). lra. }
  assert (Q : 4 <= d / Dp / (15 / 1000)).
  { apply (Rmult_le_reg_r (15 / 1000)); [lra|]. replace (d / Dp / (15 / 1000) * (15 / 1000)) with (d / Dp) by (field; lra). exact Q0. }
  assert (HF0 : Rmin (Rmax (4 / 1 / (3 / 1) - 1 / 1 / (3 / 1) * (d / Dp) / (15 / 1000)) 0) 1 = 0).
  { assert (Q' : 4 / 1 / (3 / 1) - 1 / 1 / (3 / 1) * (d / Dp) / (15 / 1000) = 4 / 3 - 1 / 3 * (d / Dp / (15 / 1000))) by (field; lra).
    rewrite Q'. set (z := d / Dp / (15 / 1000)) in *. clearbody z. clear - Q.
    unfold Rmax. destruct (Rle_dec (4 / 3 - 1 / 3 * z) 0) as [A|A]; [|lra]. unfold Rmin. destruct (Rle_dec 0 1); lra. }
  unfold slip_ratio. cbv zeta. toR.
  match goal with |- exists _ _, _ /\ _ /\ Rmax ?s ?l * ?f + _ * _ = _ => set (S0 := s); set (L := l); set (F := f) end.
  assert (HF : F = 0).
  { subst F. unfold Constants.particle_ratio. toR. exact HF0. }
  rewrite HF. subst L.
  match goal with |- context [(1 - ?c) * exp (?a * ?b)] => exists a, b end.
  split; [|split].
  - unfold Constants.musf. toR. match goal with |- - (_ + _ + ?q ^ 2 + _) < 0 => pose proof (pow2_ge_0 q) end. lra.
  - repeat apply Rmult_lt_0_compat; apply Rpower_pos'.
  - ring.
Qed.

(* ... hence strictly between 0 and 1 - Cvt/Cvb, and the derived spatial concentration strictly between Cvt and Cvb *)
Theorem coarse_Cvs_inside vls Dp d eps nu rhol rhos Cvt : 0 < Dp -> 4 * (15 / 1000) * Dp <= d -> 0 < Cvt < Constants.Cvb RN ->
  let Xi := slip_ratio RN vls Dp d eps nu rhol rhos Cvt in
  0 < Xi < 1 - Cvt / Constants.Cvb RN /\
  Cvt < Cvs_from_Cvt RN vls Dp d eps nu rhol rhos Cvt < Constants.Cvb RN.
Proof.
  intros HD Hd HC. cbv zeta. destruct (slip_coarse vls Dp d eps nu rhol rhos Cvt HD Hd) as (e1 & e2 & H1 & H2 & E).
  assert (B : 0 < Constants.Cvb RN) by (unfold Constants.Cvb; toR; lra).
  assert (R1 : 0 < Cvt / Constants.Cvb RN < 1).
  { split; [apply Rdiv_lt_0_compat; lra|]. apply (Rmult_lt_reg_r (Constants.Cvb RN)); [exact B|].
    unfold Rdiv. rewrite Rmult_assoc, Rinv_l by lra. lra. }
  assert (X : 0 < exp (e1 * e2) < 1).
  { split; [apply exp_pos|]. rewrite <- exp_0. apply exp_increasing. nra. }
  assert (XI : 0 < slip_ratio RN vls Dp d eps nu rhol rhos Cvt < 1 - Cvt / Constants.Cvb RN).
  { rewrite E. split; [apply Rmult_lt_0_compat; lra|].
    rewrite <- (Rmult_1_r (1 - Cvt / Constants.Cvb RN)) at 2. apply Rmult_lt_compat_l; lra. }
  split; [exact XI|].
  pose proof (LC05.Cvs_from_Cvt_eq vls Dp d eps nu rhol rhos Cvt) as CE.
  set (Xi := slip_ratio RN vls Dp d eps nu rhol rhos Cvt) in *.
  assert (D : 0 < 1 - Xi) by lra.
  rewrite CE. split.
  - apply (Rmult_lt_reg_r (1 - Xi)); [exact D|].
    replace (1 / (1 - Xi) * Cvt * (1 - Xi)) with Cvt by (field; lra). nra.
  - apply (Rmult_lt_reg_r (1 - Xi)); [exact D|].
    replace (1 / (1 - Xi) * Cvt * (1 - Xi)) with Cvt by (field; lra).
    assert (Xi * Constants.Cvb RN < Constants.Cvb RN - Cvt).
    { replace (Constants.Cvb RN - Cvt) with ((1 - Cvt / Constants.Cvb RN) * Constants.Cvb RN) by (field; lra).
      apply Rmult_lt_compat_r; lra. }
    lra.
Qed.
