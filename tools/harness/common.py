"""common.py: shared pieces of the correspondence harness.

Runs under /venv/bin/python (which has scipy/openpyxl); the REAL implementation is imported from
$VERIF_REPO/src (default /repo/src), never from an installed copy.
"""
import json
import math
import os
import random
import struct
import subprocess
import sys
import time

VERIF = os.path.dirname(os.path.dirname(os.path.dirname(os.path.abspath(__file__))))
REPO = os.environ.get('VERIF_REPO', '/repo')
for p in (os.path.join(REPO, 'DHLLDV_viewer'), os.path.join(REPO, 'src')):
    if p in sys.path:
        sys.path.remove(p)
    sys.path.insert(0, p)
DRIVER = os.path.join(VERIF, 'build', 'ocaml', 'driver')
REPORT = os.path.join(VERIF, 'coq', 'Gen', 'report.json')


def seed():
    return int(os.environ.get('VERIF_SEED', '20260930'))


def tier():
    return os.environ.get('VERIF_TIER', 'quick')


def check_repo_import():
    import DHLLDV
    f = os.path.realpath(DHLLDV.__file__)
    if not f.startswith(os.path.realpath(REPO) + os.sep):
        raise SystemExit(f'harness: DHLLDV imported from {f}, not from {REPO}')


# ---------------------------------------------------------------------------------------------
# floats on the wire
# ---------------------------------------------------------------------------------------------
def hx(x):
    return float(x).hex()


def bits(x):
    return struct.unpack('<Q', struct.pack('<d', float(x)))[0]


def same_float(a, b):
    if math.isnan(a) and math.isnan(b):
        return True
    return bits(a) == bits(b)


def ulp_close(a, b, rel=1e-12):
    if same_float(a, b):
        return True
    if math.isnan(a) or math.isnan(b) or math.isinf(a) or math.isinf(b):
        return False
    return abs(a - b) <= rel * max(abs(a), abs(b))


class Driver:
    """the extracted Coq model, instantiated with OCaml floats"""

    def __init__(self):
        if not os.path.exists(DRIVER):
            raise SystemExit(f'harness: {DRIVER} missing (run setup)')
        self.p = subprocess.Popen([DRIVER], stdin=subprocess.PIPE, stdout=subprocess.PIPE, text=True, bufsize=1)

    def call(self, name, args):
        self.p.stdin.write(name + ' ' + ' '.join(args) + '\n')
        self.p.stdin.flush()
        line = self.p.stdout.readline()
        if not line:
            return ('err', 'DriverDied')
        toks = line.split()
        return (toks[0], toks[1:]) if toks[0] == 'ok' else ('err', toks[1] if len(toks) > 1 else '?')

    def batch(self, reqs):
        """reqs: list of (name, [arg strings]) -> list of replies (one process round trip)"""
        text = ''.join(n + ' ' + ' '.join(a) + '\n' for n, a in reqs)
        out = subprocess.run([DRIVER], input=text, capture_output=True, text=True).stdout.splitlines()
        res = []
        for line in out:
            toks = line.split()
            res.append((toks[0], toks[1:]) if toks and toks[0] == 'ok' else ('err', toks[1] if len(toks) > 1 else '?'))
        while len(res) < len(reqs):
            res.append(('err', 'DriverDied'))
        return res

    def close(self):
        try:
            self.p.stdin.close()
            self.p.wait(timeout=5)
        except Exception:
            self.p.kill()


# ---------------------------------------------------------------------------------------------
# the engineering envelope E
# ---------------------------------------------------------------------------------------------
STEEL = 4.5e-05


def pseudo_dlim(Dp, nu, rhol, rhos):
    return (0.03 * 9. * rhol * nu * Dp / (rhos * 7.5 * Dp ** 0.4)) ** 0.5


def sample_E(rng, corner=0.15):
    """one point (vls, Dp, d, eps, nu, rhol, rhos, Cv) of the envelope; `corner` = probability
    that each coordinate sits on an end of its range"""

    def u(lo, hi, log=False):
        r = rng.random()
        if r < corner / 2:
            return lo
        if r < corner:
            return hi
        if log:
            return math.exp(rng.uniform(math.log(lo), math.log(hi)))
        return rng.uniform(lo, hi)
    if rng.random() < 0.2:
        nu, rhol = rng.choice([(1.0508e-6, 1.0248103), (1.0050E-03 / (1000 * 0.99820), 0.99820)])
    else:
        nu, rhol = u(0.8e-6, 1.4e-6), u(0.99, 1.03)
    Dp = u(0.1, 1.2)
    rhos = u(2.0, 4.0)
    dlo = max(pseudo_dlim(Dp, nu, rhol, rhos) * 1.0000001, 5e-5)
    d = u(dlo, 0.25 * Dp, log=True)
    return dict(vls=u(0.1, 10.0), Dp=Dp, d=d, epsilon=STEEL, nu=nu, rhol=rhol, rhos=rhos, Cv=u(0.02, 0.45))


def threshold_points(rng, base):
    """variants of an envelope point placed on branch thresholds of the code"""
    out = []
    b = dict(base)
    b['d'] = 0.015 * b['Dp']           # sliding-flow onset f = 1 / LDV large-particle switch
    out.append(b)
    b = dict(base)
    b['d'] = 2. / 1000                 # drough
    if b['d'] <= 0.25 * b['Dp']:
        out.append(b)
    b = dict(base)
    b['vls'] = 2320 * b['nu'] / b['Dp'] * rng.choice([0.999, 1.0, 1.001])  # Re = 2320 (outside E: vls tiny)
    out.append(b)
    return out


# ---------------------------------------------------------------------------------------------
# calling the real implementation
# ---------------------------------------------------------------------------------------------
def py_outcome(fn, *args, **kw):
    """('ok', value) | ('err', class-name); complex results are an error token"""
    try:
        v = fn(*args, **kw)
    except TypeError as e:
        if 'complex' in str(e):
            return ('err', 'Complex')
        return ('err', 'TypeError')
    except Exception as e:   # noqa
        return ('err', type(e).__name__)
    if has_complex(v):
        return ('err', 'Complex')
    return ('ok', v)


def has_complex(v):
    if isinstance(v, complex):
        return True
    if isinstance(v, (list, tuple)):
        return any(has_complex(x) for x in v)
    if isinstance(v, dict):
        return any(has_complex(x) for x in v.values())
    return False


class Stats:
    def __init__(self):
        self.t0 = time.time()
        self.evaluations = 0
        self.agree = 0
        self.agree_err = 0
        self.ulp = 0
        self.disagree = []
        self.distinct = set()
        self.nontrivial = set()
        self.per_function = {}
        self.err_kinds = {}
        self.samples = []

    def wall(self):
        return round(time.time() - self.t0, 2)


def write_json(path, obj):
    tmp = path + '.tmp'
    with open(tmp, 'w') as fh:
        json.dump(obj, fh, indent=1, default=str)
    os.replace(tmp, path)
