(* C11 -- pump points obey the affinity laws and never exceed the driver or the set speed.
   Statements only; proofs in Lemmas/LC11.v.  Model: Models/Pump.v (hand-written; run bit-exactly against
   PumpObj.Pump.point on the shipped example pumps in all four limit modes). *)
From Coq Require Import Reals List Bool.
From DHV Require Import NumOps RInst Interp Pump LC11.
Import ListNotations.
Local Open Scope R_scope.

(* every outcome, every limit mode: the flow returned is the flow requested; head is the affinity-law scaling of
   the design QH curve at the RETURNED speed, the current trim and the pumped density; power is the required power
   at the returned speed, which is the affinity-law scaling of the QP curve *)
Theorem C11_affinity : forall (fuel : nat) (root : R) (p : pump (T:=R)) (Q : R) (w : bool) (Q' H P n : R),
  point RN fuel root p Q w = Some (Q', H, P, n) ->
  Q' = Q /\ H = H_aff p Q n w /\ P = power_required RN p Q n w /\ (n <> 0 -> P = P_aff p Q n w).
Proof.
  intros fuel root p Q w Q' H P n E. destruct (LC11.point_affinity fuel root p Q w Q' H P n E) as (A & B & C).
  repeat split; try assumption. intro Hn. rewrite C. apply LC11.power_required_affinity. exact Hn.
Qed.
Print Assumptions C11_affinity.

(* the returned speed equals the set speed whenever the limit mode is none or the driver can supply the required
   power there *)
Theorem C11_unlimited : forall (fuel : nat) (root : R) (p : pump (T:=R)) (Q : R) (w : bool),
  limited p = LNone \/ power_required RN p Q (current_speed p) w <= power_available RN p (current_speed p) ->
  exists H P, point RN fuel root p Q w = Some (Q, H, P, current_speed p).
Proof. exact LC11.point_unlimited. Qed.
Print Assumptions C11_unlimited.

(* torque- and power-limited searches: a speed returned through the loop test has |available - required| < 0.1 kW;
   the only other exits are "not limited" (the set speed) and the assertion n > 1/60 *)
Theorem C11_limited_exit : forall (fuel : nat) (p : pump (T:=R)) (Q : R) (w : bool) (r : R),
  (find_torque_limited_speed RN fuel p Q w = Some r ->
     r = current_speed p \/ -(1 / 10) < power_available RN p r - power_required RN p Q r w < 1 / 10 \/ r = nfail RN 5) /\
  (find_power_limited_speed RN fuel p Q w = Some r ->
     r = current_speed p \/ -(1 / 10) < avail_power p - power_required RN p Q r w < 1 / 10 \/ r = nfail RN 5).
Proof.
  intros fuel p Q w r. split; intro H.
  - destruct (LC11.torque_exit fuel p Q w r H) as [A|[A|A]]; [left; exact A|right; left; apply LC11.within_spec; exact A|right; right; exact A].
  - destruct (LC11.power_exit fuel p Q w r H) as [A|[A|A]]; [left; exact A|right; left; apply LC11.within_spec; exact A|right; right; exact A].
Qed.
Print Assumptions C11_limited_exit.

(* curve-limited search: the result is the set speed, a driver speed below it (the minimum when every speed is
   short of power) or the bracketing root; hence never above the set speed when the root finder answers inside
   its bracket *)
Theorem C11_curve_not_above_set : forall (root : R) (p : pump (T:=R)) (Q : R) (w : bool),
  (let r := find_curve_limited_speed RN root p Q w in
   r = current_speed p \/ In r (candidate_speeds RN p) \/ r = root) /\
  (root <= current_speed p -> find_curve_limited_speed RN root p Q w <= current_speed p).
Proof. intros. split; [apply LC11.curve_result|apply LC11.curve_not_above]. Qed.
Print Assumptions C11_curve_not_above_set.

(* torque- and power-limited searches never return a speed above the set speed (nor a negative one), whatever the
   fuel, for every pump and flow whose required power, on (0, set speed], is positive, does not fall with speed and
   grows at most like n^4 (power mode), resp. whose ratio to the available power does (torque mode: available power
   proportional to n, so P/n must not fall and P/n^5 must not rise).  The affinity law gives P ~ n^3 x QP(Q/n), so
   the premise is a statement about the elasticity of the QP curve only; the search checks it on the shipped pumps.
   Proof: the iterates stay between the mirror images of the balanced and of the over-loaded speeds; the two
   families of bounds meet at the balance point (least upper bound of the balanced speeds). *)
From DHV Require Import LC11b.
Local Open Scope R_scope.
Theorem C11_power_limited_not_above_set : forall (p : pump (T:=R)) (Q : R) (w : bool) (fuel : nat) (r : R),
  let n0 := current_speed p in let Pw := fun n => power_required RN p Q n w in
  0 < n0 -> 0 < avail_power p -> (forall n, 0 < n <= n0 -> 0 < Pw n) ->
  (forall a b, 0 < a -> a <= b -> b <= n0 -> Pw a <= Pw b) ->
  (forall a b, 0 < a -> a <= b -> b <= n0 -> Pw b * a ^ 4 <= Pw a * b ^ 4) ->
  find_power_limited_speed RN fuel p Q w = Some r -> 0 <= r <= n0.
Proof. exact LC11b.power_limited_not_above. Qed.
Print Assumptions C11_power_limited_not_above_set.

Theorem C11_torque_limited_not_above_set : forall (p : pump (T:=R)) (Q : R) (w : bool) (fuel : nat) (r : R),
  let n0 := current_speed p in let Pw := fun n => power_required RN p Q n w in let Pa := fun n => power_available RN p n in
  0 < n0 -> (forall n, 0 < n <= n0 -> 0 < Pw n /\ 0 < Pa n) ->
  (forall a b, 0 < a -> a <= b -> b <= n0 -> Pa b * Pw a <= Pa a * Pw b) ->
  (forall a b, 0 < a -> a <= b -> b <= n0 -> Pa a * Pw b * a ^ 4 <= Pa b * Pw a * b ^ 4) ->
  find_torque_limited_speed RN fuel p Q w = Some r -> 0 <= r <= n0.
Proof. exact LC11b.torque_limited_not_above. Qed.
Print Assumptions C11_torque_limited_not_above_set.
