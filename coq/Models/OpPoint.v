(* OpPoint: hand-written executable model of Pipeline.find_operating_point: the feasibility test at the
   minimum-friction flow, and scipy.optimize.root_scalar(f, x0=, x1=) = newton()'s secant branch
   (tol = 1.48e-8, rtol = 0, maxiter = 50, disp = False), written out.  The head gap is a parameter.
   Tied to the code by tools/harness/corr_oppoint.py (recorded gap tables; visited abscissae compared).  No proofs here. *)
From Coq Require Import ZArith List Bool.
From DHV Require Import NumOps.
Import ListNotations.

Section OpPoint.
Context {T : Type} (N : NumOps T).
Variable gap : T -> T.              (* q |-> slurry system head - slurry pump head *)

Definition tol : T := nlit N 148%Z 10000000000%positive.

(* one secant update, in whichever of the two algebraically equal forms scipy picks *)
Definition secant_step (p0 q0 p1 q1 : T) : T :=
  if nltb N (nabs N q0) (nabs N q1)
  then ndiv N (nadd N (nmul N (ndiv N (nneg N q0) q1) p1) p0) (nsub N (nint N 1%Z) (ndiv N q0 q1))
  else ndiv N (nadd N (nmul N (ndiv N (nneg N q1) q0) p0) p1) (nsub N (nint N 1%Z) (ndiv N q1 q0)).

(* returns (root estimate, converged, abscissae at which the gap was evaluated inside the loop) *)
Fixpoint secant_loop (fuel : nat) (p0 q0 p1 q1 : T) (visited : list T) : T * bool * list T :=
  match fuel with
  | O => (p1, false, visited)
  | S k =>
    if neqb N q1 q0 then (ndiv N (nadd N p1 p0) (nlit N 20%Z 10%positive), false, visited)
    else
      let p := secant_step p0 q0 p1 q1 in
      if nleb N (nabs N (nsub N p p1)) tol then (p, true, visited)
      else secant_loop k p1 q1 p (gap p) (visited ++ [p])
  end.

Definition secant (x0 x1 : T) : T * bool * list T :=
  let q0 := gap x0 in
  let q1 := gap x1 in
  if nltb N (nabs N q1) (nabs N q0) then secant_loop 50 x1 q1 x0 q0 [x0; x1]
  else secant_loop 50 x0 q0 x1 q1 [x0; x1].

Inductive outcome : Type := Ok (root : T) | OperatingPointError | ValueError.

(* hsys, hpump : slurry system head and slurry pump head at qimin (imins[0], imins[3]) *)
Definition find_operating_point (qimin qlast hsys hpump : T) : outcome * list T :=
  if nltb N hpump hsys then (OperatingPointError, [])
  else
    let x1 := ndiv N (nadd N qimin qlast) (nint N 2%Z) in
    if neqb N x1 qimin then (ValueError, [])
    else
      let '(r, conv, vis) := secant qimin x1 in
      (if conv then Ok r else OperatingPointError, vis).

End OpPoint.
