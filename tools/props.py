"""props.py: per-property configuration of ./check"""

GENERATORS = ['gen.py']

PROPS = {
    'C01': dict(
        own_files=['Lemmas/LC01.v', 'Props/C01.v'],
        corr=[dict(script='corr_gen.py', n=250,
                   args=['Framework.Cvs_Erhg', 'Framework.Cvs_Erhg_dict', 'Framework.Cvs_regime', 'Stratified.fb_Erhg',
                         'Stratified.Erhg', 'Heterogeneous.Erhg', 'Homogeneous.Erhg', 'Homogeneous.fluid_head_loss'])],
        search='C01.py', budget_quick=150, budget_thorough=5000,
        partial=[],
        level_text='Proof: for all real inputs and both switch settings the regenerated model of Cvs_Erhg returns max(min(FB,SB,He),Ho), '
                   'the reported regime attains it, its long name is the documented one, and every component of the detailed result is the '
                   'standalone sub-model applied to the same arguments (C01_components, C01_value, C01_attains, C01_name). The quantifier '
                   '(all of E, all 75 weak orderings, both switches) is covered by universal quantification over R.',
        level_note='Model regenerated from the Python by tools/translate on every run and executed bit-exactly against the real functions; '
                   'theorems are over exact reals (binary64 rounding not modelled; the selection law itself is order-theoretic and holds for any NaN-free total order).',
    ),
}
