#!/venv/bin/python
"""C15 failing-input search on the real code: store_to_excel followed by load yields an equivalent pipeline (names,
sections, pumps, curves, limit modes, drivers, gear ratios, slurry parameters and grading; heads equal 1e-9 at flows
inside the pump curves); the file is written inside the requested folder under a name of letters, digits, '-', '_'
plus '.xlsx' for any pipeline name / requested file name."""
import io
import os
import random
import shutil
import sys
import tempfile
import warnings
sys.path.insert(0, os.path.join(os.path.dirname(os.path.dirname(os.path.abspath(__file__))), 'harness'))
from scommon import Search, seed
import openpyxl
import load_pump_excel as L
import store_pump_excel as St
import ExamplePumps
from DHLLDV import PipeObj, PumpObj, SlurryObj
from DHLLDV.DriverObj import Driver
from DHLLDV.DHLLDV_Utils import interpDict
import excel_gen as G

S = Search('C15', 'generated pipelines in the documented workbook format (1-6 pipe sections, 0-3 pumps incl. the same pump listed twice and '
                  'different pumps sharing a name, all limit modes, driver curves, gear ratios, rhos incl. != 2.65) stored and re-loaded; '
                  'unicode pipeline names / requested file names for the file-name clause; distinct = distinct pipeline / string')
rng = random.Random(seed())
warnings.simplefilter('ignore')
mods = (PipeObj, PumpObj, SlurryObj, Driver, interpDict, ExamplePumps)
build = os.path.join(os.path.dirname(os.path.dirname(os.path.dirname(os.path.abspath(__file__)))), 'build')
td = tempfile.mkdtemp(dir=build)
ALPH = ['a', 'Z', '7', '-', '_', ' ', '.', '/', '\\', ':', '..', '~', 'é', '中', '\U0001F600', '\t', '\n', '"', '*', '?', '.xlsx', 'x']
SAFE = set('abcdefghijklmnopqrstuvwxyzABCDEFGHIJKLMNOPQRSTUVWXYZ0123456789-_')
try:
    for i in range(S.budget):
        pl = G.gen_pipeline(rng, mods)
        # two different pumps sharing one name
        pumps = [p for p in pl.pipesections if isinstance(p, PumpObj.Pump)]
        if len(pumps) >= 2 and pumps[0] is not pumps[1] and rng.random() < 0.5:
            pumps[1].name = pumps[0].name
        if rng.random() < 0.5:
            pl.name = ''.join(rng.choice(ALPH) for _ in range(rng.randint(1, 10))) or 'p'
        req = rng.choice([None, None, ''.join(rng.choice(ALPH) for _ in range(rng.randint(0, 10)))])
        where = {'pipeline_name': pl.name, 'requested_file': req, 'sections': [getattr(p, 'name', '?') for p in pl.pipesections],
                 'rhos': pl.slurry.rhos, 'D50': pl.slurry.D50}
        try:
            fn = St.store_to_excel(pl, fname=req, path=td)
        except Exception as e:
            S.violation('C15:store-exception', f'store_to_excel raised {type(e).__name__}: {e}', input=where)
            continue
        base = os.path.basename(fn)
        if os.path.dirname(os.path.abspath(fn)) != os.path.abspath(td) or not os.path.isfile(fn):
            S.violation('C15:outside-folder', f'file written to {fn}, not directly inside {td}', input=where)
        if not base.endswith('.xlsx') or base[:-5].endswith('.xlsx') and req and not req[:-5].endswith('.xlsx') and False:
            S.violation('C15:extension', f'file name {base!r} does not end with a single .xlsx', input=where)
        if any(c not in SAFE for c in base[:-5]):
            S.violation('C15:filename-chars', f'file name {base!r} contains characters outside letters, digits, - and _', input=where)
        try:
            # through a file object: openpyxl refuses by NAME a file whose name is just '.xlsx' (what an all-disallowed
            # requested name cleans to); the repository's loader takes a workbook, not a name
            with open(fn, 'rb') as fh:
                pl2 = L.load_pipeline_from_workbook(openpyxl.load_workbook(fh, data_only=True))
        except Exception as e:
            S.violation('C15:load-exception', f'loading the stored file raised {type(e).__name__}: {e}', input=where)
            continue
        finally:
            os.remove(fn)
        d = G.equivalent(pl, pl2, PipeObj, PumpObj)
        if d:
            S.violation('C15:roundtrip', f'reloaded pipeline differs: {d[:3]}', input=where)
            continue
        qmax = min([max(p.design_QH_curve.keys()) for p in pumps] or [3.0])
        for _ in range(2):
            Q = qmax * rng.uniform(0.2, 0.9)
            try:
                h1, h2 = pl.calc_system_head(Q), pl2.calc_system_head(Q)
            except Exception as e:
                S.count(None, 'head-exception:' + type(e).__name__)
                break
            if any(abs(x - y) > 1e-9 * max(abs(x), abs(y), 1e-9) for x, y in zip(h1, h2)):
                S.violation('C15:heads', f'heads differ after the round trip at Q={Q}: {h1} vs {h2}', input=where)
        S.count(repr(where), f'{len(pumps)} pumps')
        if i == 0:
            S.sample(where)
finally:
    shutil.rmtree(td, ignore_errors=True)
# the cleaning function alone, many strings
for i in range(S.budget * 40):
    s = ''.join(rng.choice(ALPH) for _ in range(rng.randint(0, 14)))
    out = St.remove_disallowed_filename_chars(s, '.xlsx')
    if not out.endswith('.xlsx') or any(c not in SAFE for c in out[:-5]):
        S.violation('C15:filename-chars', f'remove_disallowed_filename_chars({s!r}) = {out!r}', input={'string': s})
    S.count(('clean', s), 'clean')
S.finish()
