(* SlurryState: the SlurryObj.Slurry object as a state machine -- parameters, the two dirty flags
   and the lazily cached artefacts (grading, curves).  `step` follows the Python setters, getters and
   generators literally.  Hand-written; tied to the code by tools/harness/corr_slurry_state.py, which
   runs operation sequences on a real Slurry and on this model and compares flags and every value
   read.  No proofs here (see Lemmas/LC07.v). *)
From Coq Require Import ZArith List Bool.
From DHV Require Import NumOps Interp Fracs Graded SlurryCalc.
From DHV Require Tables.
Import ListNotations.

Section SlurryState.
Context {T : Type} (N : NumOps T).

Record state : Type := mkState {
  sp : sparams (T:=T);
  salt : bool;                       (* _fluid == 'salt' *)
  s_gsd : gsd (T:=T);                (* _GSD *)
  gsd_dirty : bool;                  (* GSD_curves_dirty *)
  s_curves : option (curves (T:=T)); (* _vls_list, _Erhg_curves, _im_curves, _LDV_curves, _LDV85_curves *)
  curves_dirty : bool }.

Inductive op : Type :=
| SetDp (v : T) | SetEps (v : T) | SetFluid (is_salt : bool) | SetD50 (v : T) | SetCv (v : T)
| SetRhos (v : T) | SetRhom (v : T) | SetMaxIndex (n : nat) | SetRhoi (v : T)
| GenGSD (r15 r85 : option T)
| ReadGSD | ReadDx (f : T) | ReadCurves | ReadPoint (v : T) | ReadScalars.

Inductive out : Type :=
| ONone | OGSD (g : gsd (T:=T)) | ONum (x : T) | OCurves (c : curves (T:=T)) | OPoint (il e im : T)
| OScalars (rsd rhom cvi : T).

Definition fluid_props (is_salt : bool) : T * T :=
  if is_salt then (nlit N 10508%Z 10000000000%positive, nlit N 10248103%Z 10000000%positive)
  else (lookup_or_fail N (Tables.water_viscosity N) Tables.water_viscosity_xlo Tables.water_viscosity_xhi
                       (Tables.water_viscosity_tol N) (nint N 20%Z),
        lookup_or_fail N (Tables.water_density N) Tables.water_density_xlo Tables.water_density_xhi
                       (Tables.water_density_tol N) (nint N 20%Z)).

Definition with_p (s : state) (p : sparams) : state :=
  mkState p (salt s) (s_gsd s) (gsd_dirty s) (s_curves s) (curves_dirty s).
Definition set_Dp p v := mkSP v (p_eps p) (p_nu p) (p_rhol p) (p_D50 p) (p_Cv p) (p_rhos p) (p_rhoi p) (p_max_index (T:=T) p).
Definition set_eps p v := mkSP (p_Dp p) v (p_nu p) (p_rhol p) (p_D50 p) (p_Cv p) (p_rhos p) (p_rhoi p) (p_max_index (T:=T) p).
Definition set_fluid p (nr : T * T) := mkSP (p_Dp p) (p_eps p) (fst nr) (snd nr) (p_D50 p) (p_Cv p) (p_rhos p) (p_rhoi p) (p_max_index (T:=T) p).
Definition set_D50 p v := mkSP (p_Dp p) (p_eps p) (p_nu p) (p_rhol p) v (p_Cv p) (p_rhos p) (p_rhoi p) (p_max_index (T:=T) p).
Definition set_Cv p v := mkSP (p_Dp p) (p_eps p) (p_nu p) (p_rhol p) (p_D50 p) v (p_rhos p) (p_rhoi p) (p_max_index (T:=T) p).
Definition set_rhos p v := mkSP (p_Dp p) (p_eps p) (p_nu p) (p_rhol p) (p_D50 p) (p_Cv p) v (p_rhoi p) (p_max_index (T:=T) p).
Definition set_rhoi p v := mkSP (p_Dp p) (p_eps p) (p_nu p) (p_rhol p) (p_D50 p) (p_Cv p) (p_rhos p) v (p_max_index (T:=T) p).
Definition set_max_index p n := mkSP (p_Dp p) (p_eps p) (p_nu p) (p_rhol p) (p_D50 p) (p_Cv p) (p_rhos p) (p_rhoi (T:=T) p) n.

(* Slurry.generate_GSD: clears the grading flag FIRST (so the get_dx calls that recover the current
   ratios read the old grading without recursing), stores the new grading, marks the curves dirty *)
Definition do_gen_gsd (s : state) (r15 r85 : option T) : state :=
  let p := sp s in
  mkState p (salt s) (generate_GSD N (s_gsd s) (p_D50 p) (p_Dp p) (p_nu p) (p_rhol p) (p_rhos p) r15 r85)
          false (s_curves s) true.

(* the GSD property / the check at the top of get_dx *)
Definition ensure_gsd (s : state) : state := if gsd_dirty s then do_gen_gsd s None None else s.

(* Slurry.generate_curves *)
Definition do_gen_curves (sf sq : bool) (s : state) : state :=
  let s := ensure_gsd s in
  mkState (sp s) (salt s) (s_gsd s) (gsd_dirty s) (Some (generate_curves N sf sq (sp s) (s_gsd s))) false.

Definition ensure_curves (sf sq : bool) (s : state) : state :=
  match s_curves s with
  | Some _ => if curves_dirty s then do_gen_curves sf sq s else s
  | None => do_gen_curves sf sq s
  end.

Definition mark (s : state) (g c : bool) : state :=
  mkState (sp s) (salt s) (s_gsd s) (orb g (gsd_dirty s)) (s_curves s) (orb c (curves_dirty s)).

Definition step (sf sq : bool) (s : state) (o : op) : state * out :=
  match o with
  | SetDp v => (with_p (mark s true true) (set_Dp (sp s) v), ONone)
  | SetEps v => (with_p (mark s false true) (set_eps (sp s) v), ONone)
  | SetFluid b =>
    let s1 := mark s true true in
    (mkState (set_fluid (sp s) (fluid_props b)) b (s_gsd s1) (gsd_dirty s1) (s_curves s1) (curves_dirty s1), ONone)
  | SetD50 v => (with_p (mark s true true) (set_D50 (sp s) v), ONone)
  | SetCv v => (with_p (mark s false true) (set_Cv (sp s) v), ONone)
  | SetRhos v => (with_p (mark s true true) (set_rhos (sp s) v), ONone)
  | SetRhom v => (with_p (mark s false true) (set_Cv (sp s) (Cv_of_rhom N (sp s) v)), ONone)
  | SetMaxIndex n => (with_p (mark s false true) (set_max_index (sp s) n), ONone)
  | SetRhoi v => (with_p s (set_rhoi (sp s) v), ONone)
  | GenGSD r15 r85 => (do_gen_gsd s r15 r85, ONone)
  | ReadGSD => let s := ensure_gsd s in (s, OGSD (s_gsd s))
  | ReadDx f => let s := ensure_gsd s in (s, ONum (get_dx N (s_gsd s) f))
  | ReadCurves =>
    let s := ensure_curves sf sq s in
    (s, match s_curves s with Some c => OCurves c | None => ONone end)
  | ReadPoint v =>
    (* il() reads no grading; Erhg() and im() go through the GSD property *)
    let s := ensure_gsd s in
    (s, OPoint (SlurryCalc.il N (sp s) v) (SlurryCalc.Erhg N sf sq (sp s) (s_gsd s) v)
               (SlurryCalc.im N sf sq (sp s) (s_gsd s) v))
  | ReadScalars => (s, OScalars (Rsd N (sp s)) (rhom N (sp s)) (Cvi N (sp s)))
  end.

(* Slurry.__init__(Dp, D50, fluid, Cv, max_index) *)
Definition init (Dp D50 : T) (is_salt : bool) (Cv : T) (max_index : nat) : state :=
  let nr := fluid_props is_salt in
  let p := mkSP Dp (nlit N 45%Z 1000000%positive) (fst nr) (snd nr) D50 Cv (nlit N 265%Z 100%positive)
                (nlit N 192%Z 100%positive) max_index in
  mkState p is_salt
          (generate_GSD N [] D50 Dp (fst nr) (snd nr) (nlit N 265%Z 100%positive)
                        (Some (nlit N 20%Z 10%positive)) (Some (nlit N 272%Z 100%positive)))
          false None true.

Fixpoint run (sf sq : bool) (s : state) (ops : list op) : state * list out :=
  match ops with
  | [] => (s, [])
  | o :: r => let '(s1, x) := step sf sq s o in let '(s2, xs) := run sf sq s1 r in (s2, x :: xs)
  end.

End SlurryState.
