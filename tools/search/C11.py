#!/venv/bin/python
"""C11 failing-input search on the real Pump.point: affinity scaling of head and power at the returned speed and the
pumped density, returned flow = requested flow, returned speed <= set speed and = set speed when the driver can supply
the power, |available - required| <= 0.1 kW at a reduced speed unless the driver's minimum speed was reached,
termination, and the pump left unchanged."""
import random
import signal
import sys, os
sys.path.insert(0, os.path.join(os.path.dirname(os.path.dirname(os.path.abspath(__file__))), 'harness'))
from scommon import Search, seed
from corr_pump import gen_pump
from DHLLDV import PumpObj, SlurryObj
from DHLLDV.DriverObj import Driver as Driver_
from DHLLDV.DHLLDV_Utils import interpDict
import ExamplePumps

S = Search('C11', 'each shipped example pump x {torque, power, curve, none} x flows 0.02-1.0 of the curve range x set speeds 0.6-1.0 x trims '
                  '0.8-1.0 x available power 0.3-1.5 nameplate x three driver-curve shapes (incl. one that falls steeply at low speed) x gear '
                  'ratios x water/slurry; distinct = distinct (pump configuration, flow)')
rng = random.Random(seed())


class TO(Exception):
    pass


def alarm(*a):
    raise TO()


signal.signal(signal.SIGALRM, alarm)
for i in range(S.budget):
    p, mode = gen_pump(rng, ExamplePumps, PumpObj, Driver_, interpDict, SlurryObj)
    qmax = max(p.design_QH_curve.keys())
    Q = qmax * rng.uniform(0.02, 1.0)
    water = rng.random() < 0.4
    where = {'pump': p.name, 'mode': mode, 'Q': Q, 'water': water, 'set_speed': p._current_speed, 'impeller': p._current_impeller,
             'avail_power': p.avail_power, 'gear_ratio': p.gear_ratio,
             'driver': dict(p.driver.design_power_curve) if mode == 'curve' else None}
    before = {k: (dict(v) if isinstance(v, dict) else v) for k, v in p.__dict__.items()}
    signal.alarm(5)
    try:
        Qr, H, P, n = p.point(Q, water)
    except TO:
        S.violation('C11:terminates', 'point() did not return within 5 s', input=where)
        continue
    except IndexError:
        S.count(None, 'out-of-table')      # a speed below the driver curve / a flow below the pump curve: C18 territory
        continue
    except Exception as e:
        S.violation('C11:exception', f'point() raised {type(e).__name__}: {e}', input=where)
        continue
    finally:
        signal.alarm(0)
    after = {k: (dict(v) if isinstance(v, dict) else v) for k, v in p.__dict__.items()}
    if before != after:
        S.violation('C11:pure', f'point() changed the pump: {[k for k in before if before[k] != after.get(k)]}', input=where)
    if Qr != Q:
        S.violation('C11:flow', f'returned flow {Qr} != requested {Q}', input=where)
    if n is None:
        S.violation('C11:speed-none', 'point() returned no speed', input=where)
        continue
    rho = p.slurry.rhol if water else p.slurry.rhom
    s_, t_ = n / p.design_speed, p._current_impeller / p.design_impeller
    try:
        Hw = p.design_QH_curve[Q / (s_ * t_ ** 2)] * s_ ** 2 * t_ ** 2 * rho
        Pw = p.design_QP_curve[Q / (s_ * t_ ** 2)] * s_ ** 3 * t_ ** 5 * rho
    except IndexError:
        S.count(None, 'out-of-table')
        continue
    if abs(H - Hw) > 1e-9 * abs(Hw) or abs(P - Pw) > 1e-9 * abs(Pw):
        S.violation('C11:affinity', f'(H, P) = ({H}, {P}) but the affinity scaling at the returned speed gives ({Hw}, {Pw})', input=where)
    if n > p._current_speed * (1 + 1e-12):
        S.violation('C11:above-set-speed', f'returned speed {n} exceeds the set speed {p._current_speed}', input=where)
    try:
        can = mode == 'None' or p.power_required(Q, p._current_speed, water) <= p.power_available(p._current_speed)
    except IndexError:
        can = None
    if can and n != p._current_speed:
        S.violation('C11:unlimited', f'driver can supply the power at the set speed but the returned speed is {n}', input=where)
    if can is False and mode != 'None':
        try:
            gap = p.power_available(n) - p.power_required(Q, n, water)
            at_min = mode == 'curve' and abs(n * p.gear_ratio - p.driver.minimum_speed) <= 1e-9 * p.driver.minimum_speed
            if abs(gap) > 0.1 and not at_min:
                S.violation('C11:balance', f'at the returned speed {n} available - required power = {gap} kW', input=where)
        except IndexError:
            pass
    # the shape premise of C11_power/torque_limited_not_above_set, sampled on 16 speeds of [0.15 n0, n0]: required power
    # positive, P/Pavail not falling with speed, (P/Pavail)/n^4 not rising -- counted, not a violation when it fails
    if mode in ('torque', 'power'):
        n0 = p._current_speed
        grid = [n0 * (0.15 ** (1 - k / 15)) for k in range(16)]
        try:
            ratio = [p.power_required(Q, x, water) / p.power_available(x) for x in grid]
            ok = all(r > 0 for r in ratio) and all(ratio[k] <= ratio[k + 1] * (1 + 1e-12) for k in range(15)) and \
                all(ratio[k + 1] / grid[k + 1] ** 4 <= ratio[k] / grid[k] ** 4 * (1 + 1e-12) for k in range(15))
            S.count(None, f'shape-premise:{mode}:' + ('holds' if ok else 'fails'))
            # the strict premise of C11_limited_search_terminates with delta = 1/2, on the same grid, for driver-limited cases
            if can is False:
                import math
                dl = 0.5
                lq = [-math.log(r) for r in ratio] if all(r > 0 for r in ratio) else None
                lx = [math.log(x) for x in grid]
                strict = lq is not None and all(-(4 - dl) * (lx[k + 1] - lx[k]) - 1e-12 <= lq[k + 1] - lq[k] <= -dl * (lx[k + 1] - lx[k]) + 1e-12
                                               for k in range(15))
                S.count(None, f'strict-premise:{mode}:' + ('holds' if strict else 'fails'))
            if ok and n > n0 * (1 + 1e-12):
                S.violation('C11:theorem-contradicted', f'shape premise holds on the grid but the returned speed {n} exceeds {n0}', input=where)
        except IndexError:
            S.count(None, 'shape-premise:out-of-table')
    S.count(repr(where), f"{mode}:{'reduced' if n != p._current_speed else 'set-speed'}")
    if i == 0:
        S.sample(where)
S.finish()
