(* The real-number reading of NumOps: what the theorems are about. *)
From Coq Require Import Reals ZArith List.
From DHV Require Import NumOps.
Local Open Scope R_scope.

Definition Rltb (a b : R) : bool := if Rlt_dec a b then true else false.
Definition Rleb (a b : R) : bool := if Rle_dec a b then true else false.
Definition Reqb (a b : R) : bool := if Req_EM_T a b then true else false.
Definition Rtrunc (x : R) : Z :=
  if Rle_dec 0 x then Int_part x else Z.opp (Int_part (- x)).
Definition Rlog10 (x : R) : R := ln x / ln 10.
Definition Rsum (l : list R) : R := fold_left Rplus l 0.

Definition RN : NumOps R := {|
  nadd := Rplus; nsub := Rminus; nmul := Rmult; ndiv := Rdiv;
  nneg := Ropp; nabs := Rabs;
  npow := Rpower; npown := pow;
  nln := ln; nlog10 := Rlog10; nexp := exp; nsin := sin; ncosh := cosh; nsqrt := sqrt;
  npi := PI;
  nltb := Rltb; nleb := Rleb; neqb := Reqb;
  nmin := Rmin; nmax := Rmax;
  ntrunc := Rtrunc;
  nint := IZR;
  nlit := fun n d => IZR n / IZR (Zpos d);
  nsum := Rsum;
  nfail := fun _ => 0
|}.

Lemma Rltb_true a b : Rltb a b = true <-> a < b.
Proof. unfold Rltb; destruct (Rlt_dec a b); split; intros; auto; discriminate. Qed.
Lemma Rltb_false a b : Rltb a b = false <-> b <= a.
Proof. unfold Rltb; destruct (Rlt_dec a b); split; intros; auto; try discriminate.
  - exfalso; apply (Rlt_irrefl a); eapply Rlt_le_trans; eauto.
  - apply Rnot_lt_le; auto. Qed.
Lemma Rleb_true a b : Rleb a b = true <-> a <= b.
Proof. unfold Rleb; destruct (Rle_dec a b); split; intros; auto; discriminate. Qed.
Lemma Rleb_false a b : Rleb a b = false <-> b < a.
Proof. unfold Rleb; destruct (Rle_dec a b); split; intros; auto; try discriminate.
  - exfalso; apply (Rlt_irrefl a); eapply Rle_lt_trans; eauto.
  - apply Rnot_le_lt; auto. Qed.
Lemma Reqb_true a b : Reqb a b = true <-> a = b.
Proof. unfold Reqb; destruct (Req_EM_T a b); split; intros; auto; discriminate. Qed.

(* toR: expose a goal written against (... RN) as a plain expression over R.  Only projections applied to RN are
   replaced; RN passed as an argument to a model function stays folded. *)
Ltac toR :=
  change (nadd RN) with Rplus; change (nsub RN) with Rminus; change (nmul RN) with Rmult; change (ndiv RN) with Rdiv;
  change (nneg RN) with Ropp; change (nabs RN) with Rabs; change (npow RN) with Rpower; change (npown RN) with pow;
  change (nln RN) with ln; change (nlog10 RN) with Rlog10; change (nexp RN) with exp; change (nsin RN) with sin;
  change (ncosh RN) with cosh; change (nsqrt RN) with sqrt; change (npi RN) with PI;
  change (nltb RN) with Rltb; change (nleb RN) with Rleb; change (neqb RN) with Reqb;
  change (nmin RN) with Rmin; change (nmax RN) with Rmax; change (ntrunc RN) with Rtrunc; change (nint RN) with IZR;
  change (nlit RN) with (fun n d => IZR n / IZR (Zpos d)); change (nsum RN) with Rsum; change (nfail RN) with (fun _ : nat => 0);
  cbv beta.
Ltac toR_in H :=
  change (nadd RN) with Rplus in H; change (nsub RN) with Rminus in H; change (nmul RN) with Rmult in H; change (ndiv RN) with Rdiv in H;
  change (nneg RN) with Ropp in H; change (nabs RN) with Rabs in H; change (npow RN) with Rpower in H; change (npown RN) with pow in H;
  change (nln RN) with ln in H; change (nlog10 RN) with Rlog10 in H; change (nexp RN) with exp in H; change (nsin RN) with sin in H;
  change (ncosh RN) with cosh in H; change (nsqrt RN) with sqrt in H; change (npi RN) with PI in H;
  change (nltb RN) with Rltb in H; change (nleb RN) with Rleb in H; change (neqb RN) with Reqb in H;
  change (nmin RN) with Rmin in H; change (nmax RN) with Rmax in H; change (ntrunc RN) with Rtrunc in H; change (nint RN) with IZR in H;
  change (nlit RN) with (fun n d => IZR n / IZR (Zpos d)) in H; change (nsum RN) with Rsum in H;
  change (nfail RN) with (fun _ : nat => 0) in H; cbv beta in H.
