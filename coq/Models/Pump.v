(* Pump: hand-written executable model of PumpObj.Pump (power_required, power_available, the three driver-limited
   speed searches, point) and DriverObj.Driver.power.  The two damped iterations run on explicit fuel; scipy's
   bracketing root finder (curve mode) is an oracle supplied as an argument.  Tied to the code by
   tools/harness/corr_pump.py.  No proofs here. *)
From Coq Require Import ZArith List Bool.
From DHV Require Import NumOps Interp.
Import ListNotations.

Section Pump.
Context {T : Type} (N : NumOps T).

Inductive limit : Type := LTorque | LPower | LCurve | LNone.

Record pump : Type := mkPump {
  design_speed : T; design_impeller : T;
  QH : list (T * T); QP : list (T * T);     (* design curves, sorted by flow; extrapolate_high is always on *)
  curves_xlo : bool;                        (* extrapolate_low (the Excel loader turns it on for curves not starting at 0) *)
  avail_power : T; limited : limit;
  driver_curve : list (T * T); gear_ratio : T;   (* Driver.design_power_curve (no extrapolation) *)
  current_speed : T; current_impeller : T; max_driver_speed : T;
  rhol : T; rhom : T }.                     (* self.slurry.rhol, self.slurry.rhom *)

Definition tol : T := nlit N 1%Z 1000%positive.
Definition qh (p : pump) (q : T) : T := lookup_or_fail N (QH p) (curves_xlo p) true tol q.
Definition qp (p : pump) (q : T) : T := lookup_or_fail N (QP p) (curves_xlo p) true tol q.
Definition driver_power (p : pump) (speed : T) : T := lookup_or_fail N (driver_curve p) false false tol speed.

Definition rho (p : pump) (water : bool) : T := if water then rhol p else rhom p.

Definition power_required (p : pump) (Q n : T) (water : bool) : T :=
  if neqb N n (nint N 0%Z) then nint N 0%Z
  else
    let sr := ndiv N n (design_speed p) in
    let ir := ndiv N (current_impeller p) (design_impeller p) in
    let Q0 := ndiv N Q (nmul N sr (npown N ir 2%nat)) in
    let P0 := qp p Q0 in
    nmul N (nmul N (nmul N P0 (npown N sr 3%nat)) (npown N ir 5%nat)) (rho p water).

(* max(self.design_QP_curve.values()) *)
Definition max_power (p : pump) : T :=
  match map snd (QP p) with
  | [] => nfail N E_ValueError
  | x :: r => fold_left (fun a b => nmax N a b) r x
  end.

Definition power_available (p : pump) (n : T) : T :=
  match limited p with
  | LTorque => ndiv N (nmul N (avail_power p) n) (max_driver_speed p)
  | LPower => avail_power p
  | LCurve => driver_power p (nmul N n (gear_ratio p))
  | LNone =>
    let sr := ndiv N n (max_driver_speed p) in
    let ir := ndiv N (current_impeller p) (design_impeller p) in
    nadd N (nmul N (nmul N (nmul N (max_power p) (npown N sr 3%nat)) (npown N ir 5%nat)) (rhom p)) (nint N 1%Z)
  end.

Definition within (x : T) : bool :=   (* -0.1 < x < 0.1 *)
  andb (nltb N (nneg N (nlit N 1%Z 10%positive)) x) (nltb N x (nlit N 1%Z 10%positive)).

(* while not (-0.1 < Pavail - P < 0.1): n *= (Pavail/P)**0.5; assert n > 1/60; P = ...; Pavail = ... *)
Fixpoint damped (fuel : nat) (p : pump) (Q : T) (water torque : bool) (n P Pavail : T) : option T :=
  match fuel with
  | O => None
  | S f =>
    if within (nsub N Pavail P) then Some n
    else
      let n' := nmul N n (npow N (ndiv N Pavail P) (nlit N 5%Z 10%positive)) in
      if nltb N (ndiv N (nint N 1%Z) (nint N 60%Z)) n' then
        let P' := power_required p Q n' water in
        let Pa' := if torque then power_available p n' else Pavail in
        damped f p Q water torque n' P' Pa'
      else Some (nfail N 5)          (* AssertionError *)
  end.

Definition find_torque_limited_speed (fuel : nat) (p : pump) (Q : T) (water : bool) : option T :=
  let n := current_speed p in
  let P := power_required p Q n water in
  let Pa := power_available p n in
  if nleb N P Pa then Some n else damped fuel p Q water true n P Pa.

Definition find_power_limited_speed (fuel : nat) (p : pump) (Q : T) (water : bool) : option T :=
  let n := current_speed p in
  let P := power_required p Q n water in
  let Pa := avail_power p in
  if nleb N P Pa then Some n else damped fuel p Q water false n P Pa.

Definition power_gap (p : pump) (Q : T) (water : bool) (n : T) : T :=
  nsub N (power_available p n) (power_required p Q n water).

(* scan of the driver speeds below the set speed, highest first: first speed with a non-negative gap *)
Fixpoint scan (p : pump) (Q : T) (water : bool) (n_high : T) (speeds : list T) : T * option T :=
  match speeds with
  | [] => (n_high, None)            (* StopIteration: the driver's minimum speed *)
  | n_low :: r => if nltb N (power_gap p Q water n_low) (nint N 0%Z) then scan p Q water n_low r else (n_high, Some n_low)
  end.

(* sorted(..., reverse=True) of the driver speeds referred to the pump shaft, below the set speed *)
Definition candidate_speeds (p : pump) : list T :=
  filter (fun s => nltb N s (current_speed p)) (rev (map (fun kv => ndiv N (fst kv) (gear_ratio p)) (driver_curve p))).

(* root : the value scipy.optimize.root_scalar(bracket=[n_low, n_high]) returned for this call (oracle) *)
Definition find_curve_limited_speed (root : T) (p : pump) (Q : T) (water : bool) : T :=
  let cur := current_speed p in
  if nleb N (nint N 0%Z) (power_gap p Q water cur) then cur
  else
    match candidate_speeds p with
    | [] =>
      (* n_low = next(speeds, n_high) = the set speed itself; its gap is negative; StopIteration *)
      cur
    | n_low :: r =>
      if nltb N (power_gap p Q water n_low) (nint N 0%Z) then
        match scan p Q water n_low r with
        | (n_high, None) => n_high
        | (_, Some _) => root
        end
      else root
    end.

(* Pump.point(Q, water) -> (Q, H, P, n) *)
Definition point (fuel : nat) (root : T) (p : pump) (Q : T) (water : bool) : option (T * T * T * T) :=
  let r := rho p water in
  let sr := ndiv N (current_speed p) (design_speed p) in
  let ir := ndiv N (current_impeller p) (design_impeller p) in
  let Q0 := ndiv N Q (nmul N sr (npown N ir 2%nat)) in
  let H0 := qh p Q0 in
  let H := nmul N (nmul N (nmul N H0 (npown N sr 2%nat)) (npown N ir 2%nat)) r in
  let P := power_required p Q (current_speed p) water in
  let unlimited := match limited p with LNone => true | _ => nleb N P (power_available p (current_speed p)) end in
  if unlimited then Some (Q, H, P, current_speed p)
  else
    let n_opt := match limited p with
                 | LTorque => find_torque_limited_speed fuel p Q water
                 | LPower => find_power_limited_speed fuel p Q water
                 | _ => Some (find_curve_limited_speed root p Q water)
                 end in
    match n_opt with
    | None => None
    | Some n_new =>
      let sr := ndiv N n_new (design_speed p) in
      let Q0 := ndiv N Q (nmul N sr (npown N ir 2%nat)) in
      let P := power_required p Q n_new water in
      let H0 := qh p Q0 in
      let H := nmul N (nmul N (nmul N H0 (npown N sr 2%nat)) (npown N ir 2%nat)) r in
      Some (Q, H, P, n_new)
    end.

End Pump.
