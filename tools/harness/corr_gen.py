#!/venv/bin/python
"""corr_gen.py: correspondence of the GENERATED models (coq/Gen) with the Python they came from.

usage: corr_gen.py --out <json> [--n N] Module.func [Module.func ...] | all

For every selected function: N generated argument tuples (70 % inside the envelope E, 20 % on
branch thresholds, 10 % malformed), the real Python function and the extracted model (OCaml
floats) are run on each, and results are compared bit for bit (error tokens by class).
"""
import argparse
import importlib
import json
import math
import random
import signal
import sys

from common import (Driver, REPORT, Stats, check_repo_import, has_complex, hx, py_outcome, same_float,
                    sample_E, seed, threshold_points, write_json)

COQMOD = {'DHLLDV_constants': 'Constants', 'homogeneous': 'Homogeneous', 'heterogeneous': 'Heterogeneous',
          'stratified': 'Stratified', 'DHLLDV_framework': 'Framework', 'Wilson_Stratified': 'WilsonStratified',
          'Wilson_V50': 'WilsonV50'}
PYMOD = {'DHLLDV_constants': 'DHLLDV.DHLLDV_constants', 'homogeneous': 'DHLLDV.homogeneous',
         'heterogeneous': 'DHLLDV.heterogeneous', 'stratified': 'DHLLDV.stratified',
         'DHLLDV_framework': 'DHLLDV.DHLLDV_framework', 'Wilson_Stratified': 'Wilson.Wilson_Stratified',
         'Wilson_V50': 'Wilson.Wilson_V50'}


UNKNOWN_PARAMS = set()


def vt_ruby(d, Rsd, nu):
    return 10 * nu / d * ((1 + (Rsd * 9.80665 * d ** 3) / (100 * nu ** 2)) ** 0.5 - 1)


def arg_value(pname, b, rng, fn_default):
    """value for a parameter, driven by its name"""
    Rsd = (b['rhos'] - b['rhol']) / b['rhol']
    if pname in ('vls', 'Vls'):
        return b['vls']
    if pname in ('Dp', 'd', 'epsilon', 'nu', 'rhol', 'rhos'):
        return b[pname]
    if pname == 'nu_l':
        return b['nu']
    if pname in ('Cvs', 'Cvt', 'Cv'):
        return b['Cv']
    if pname == 'Re':
        return b['vls'] * b['Dp'] / b['nu'] if b['nu'] else rng.choice([0.0, 2320.0, 1e5])
    if pname == 'X':
        return rng.uniform(0.0, 0.3)
    if pname == 'Stk':
        return 0.03
    if pname == 'Rsd':
        return Rsd
    if pname == 'K':
        return 0.26
    if pname == 'vt':
        try:
            v = vt_ruby(b['d'], Rsd, b['nu'])
            return v if isinstance(v, float) else 0.1
        except (ZeroDivisionError, OverflowError):
            return 0.1
    if pname == 'Dp_H':
        return b['Dp'] * rng.uniform(0.3, 1.0)
    if pname == 'v1':
        return b['vls'] * rng.uniform(1.0, 3.0)
    if pname == 'v2':
        return rng.choice([0.0, b['vls'] * rng.uniform(0.0, 0.5)])
    if pname == 'e':
        return rng.choice([0.415 / 1000, 0.415 / 100])
    if pname == 'musf':
        return rng.choice([0.31, 0.4, 0.415])
    if pname == 'f':
        return rng.uniform(0.008, 0.03)
    if pname == 'Cvb':
        return 0.6
    if pname == 'd50':
        return b['d']
    if pname == 'd85':
        return b['d'] * b.get('r85', 2.0)
    # a parameter this harness has no physical generator for (e.g. renamed in the source): a positive number spanning
    # several decades still exercises the function; the distribution records that the fallback was used
    UNKNOWN_PARAMS.add(pname)
    return math.exp(rng.uniform(math.log(1e-3), math.log(10.0)))


def malform(b, rng):
    b = dict(b)
    k = rng.choice(['vls0', 'Cvbig', 'dneg', 'Dp0', 'nu0', 'rhoeq', 'Cv0', 'dhuge'])
    if k == 'vls0':
        b['vls'] = 0.0
    elif k == 'Cvbig':
        b['Cv'] = rng.uniform(0.55, 0.95)
    elif k == 'dneg':
        b['d'] = -b['d']
    elif k == 'Dp0':
        b['Dp'] = 0.0
    elif k == 'nu0':
        b['nu'] = 0.0
    elif k == 'rhoeq':
        b['rhos'] = b['rhol']
    elif k == 'Cv0':
        b['Cv'] = 0.0
    elif k == 'dhuge':
        b['d'] = b['Dp'] * 2
    return b, k


def encode_py(ret_ty, v):
    """python value -> list of tokens in the driver's output format"""
    if ret_ty == 'num':
        return [float(v)]
    if ret_ty == 'str':
        return [v.replace(' ', '_')]
    if ret_ty == 'bool':
        return ['1' if v else '0']
    if isinstance(ret_ty, list) and ret_ty[0] == 'tuple':
        out = []
        for t, x in zip(ret_ty[1], v):
            out += encode_py(t, x)
        return out
    if isinstance(ret_ty, list) and ret_ty[0] == 'rec':
        keys = ['il', 'FB', 'SB', 'He', 'Ho', 'regime'] + (['Xi'] if ret_ty[1] == 'Erhg7' else [])
        if sorted(v.keys()) != sorted(keys):
            return ['KEYS:' + ','.join(sorted(v.keys()))]
        return [v[k] if k == 'regime' else float(v[k]) for k in keys]
    raise SystemExit(f'encode_py: {ret_ty}')


def tokens_equal(py_toks, ml_toks):
    if len(py_toks) != len(ml_toks):
        return False
    for p, m in zip(py_toks, ml_toks):
        if isinstance(p, float):
            try:
                mv = float.fromhex(m) if m not in ('nan', '-nan', 'inf', '-inf', 'infinity', '-infinity') else float(m.replace('-nan', 'nan'))
            except ValueError:
                return False
            if not same_float(p, mv):
                return False
        elif p != m:
            return False
    return True


class Timeout(Exception):
    pass


def _alarm(signum, frame):
    raise Timeout()


def main():
    ap = argparse.ArgumentParser()
    ap.add_argument('--out', required=True)
    ap.add_argument('--n', type=int, default=300)
    ap.add_argument('funcs', nargs='+')
    a = ap.parse_args()
    check_repo_import()
    rep = json.load(open(REPORT))
    rng = random.Random(seed())
    entries = []
    for mk, fs in rep['modules'].items():
        for f in fs:
            if f['status'] != 'translated':
                continue
            q = COQMOD[mk] + '.' + f['function']
            if 'all' in a.funcs or q in a.funcs:
                entries.append((mk, f, q))
    missing = [x for x in a.funcs if x != 'all' and x not in [e[2] for e in entries]]
    if missing:
        print('corr_gen: functions not in the generated model:', missing)
        write_json(a.out, {'ok': False, 'missing': missing, 'disagreements': [{'function': m, 'reason': 'not generated'} for m in missing], 'evaluations': 0})
        sys.exit(1)
    st = Stats()
    fw = importlib.import_module('DHLLDV.DHLLDV_framework')
    signal.signal(signal.SIGALRM, _alarm)
    reqs, expect = [], []
    for mk, f, q in entries:
        pm = importlib.import_module(PYMOD[mk])
        fn = getattr(pm, f['pyname'])
        pf = st.per_function.setdefault(q, {'cases': 0, 'ok': 0, 'err': 0, 'malformed': 0, 'threshold': 0})
        for i in range(a.n):
            b = sample_E(rng)
            b['r85'] = rng.uniform(1.05, 3.0)
            kind = 'E'
            r = rng.random()
            if r < 0.10:
                b, mk_kind = malform(b, rng)
                kind = 'malformed:' + mk_kind
                pf['malformed'] += 1
            elif r < 0.30:
                tp = threshold_points(rng, b)
                b = rng.choice(tp)
                b['r85'] = rng.uniform(1.05, 3.0)
                kind = 'threshold'
                pf['threshold'] += 1
            margs, pargs, pkw = [], [], {}
            sw = None
            for (cn, ty) in f['params']:
                pn = cn[2:] if cn.startswith('v_') else cn
                if cn == 'fuel':
                    margs.append('400')
                    continue
                if pn in ('use_sf', 'use_sqrtcx') and f['reads_switches'] and pn not in f['pyparams']:
                    v = rng.random() < 0.6
                    sw = sw or {}
                    sw[pn] = v
                    margs.append('1' if v else '0')
                    continue
                if ty == 'bool':
                    v = rng.random() < 0.6
                    margs.append('1' if v else '0')
                    pkw[pn] = v
                    continue
                if ty == 'nat':
                    v = rng.choice([10, 20, 0, 1, 3, 50]) if pn == 'max_steps' else 10
                    margs.append(str(v))
                    pkw[pn] = v
                    continue
                v = arg_value(pn, b, rng, None)
                margs.append(hx(v))
                pkw[pn] = float(v)
            for k, v in f['static'].items():
                if v is True or v is False:
                    pkw[k] = v
            if sw:
                fw.use_sf, fw.use_sqrtcx = sw['use_sf'], sw['use_sqrtcx']
                # the cache of Cvt_Erhg does not know about the switches (that is property C08):
                # clear it so this comparison sees the function of its arguments and switches
                if hasattr(fw.Cvt_Erhg, 'cache_clear'):
                    fw.Cvt_Erhg.cache_clear()
            signal.alarm(20)
            try:
                out = py_outcome(fn, **pkw)
            except Timeout:
                out = ('err', 'Timeout')
            finally:
                signal.alarm(0)
            fw.use_sf, fw.use_sqrtcx = True, True
            reqs.append((q, margs))
            expect.append((q, kind, pkw, out, f['ret']))
            pf['cases'] += 1
    replies = Driver().batch(reqs)
    for (q, kind, pkw, out, ret_ty), rep_ in zip(expect, replies):
        st.evaluations += 1
        key = (q, tuple(sorted((k, str(v)) for k, v in pkw.items())))
        st.distinct.add(key)
        pf = st.per_function[q]
        if out[0] == 'err':
            pf['err'] += 1
            st.err_kinds[out[1]] = st.err_kinds.get(out[1], 0) + 1
            # both sides must fail; the class is compared, except that OCaml evaluates call
            # arguments right-to-left, so when two operations of one expression both fail the
            # classes may legitimately differ: any error on both sides counts as agreement
            if rep_[0] == 'err':
                st.agree_err += 1
                if rep_[1] != out[1]:
                    pf.setdefault('err_class_diff', 0)
                    pf['err_class_diff'] += 1
            else:
                st.disagree.append({'function': q, 'kind': kind, 'args': pkw, 'python': out, 'model': rep_})
            continue
        pf['ok'] += 1
        toks = encode_py(ret_ty, out[1])
        if rep_[0] == 'ok' and tokens_equal(toks, rep_[1]):
            st.agree += 1
            if kind != 'malformed' and all((not isinstance(t, float)) or math.isfinite(t) for t in toks):
                st.nontrivial.add(key)
            if len(st.samples) < 6 and st.evaluations % 97 == 1:
                st.samples.append({'function': q, 'args': pkw, 'result': [t.hex() if isinstance(t, float) else t for t in toks]})
        else:
            st.disagree.append({'function': q, 'kind': kind, 'args': pkw,
                                'python': [t.hex() if isinstance(t, float) else t for t in toks], 'model': rep_})
    res = {'ok': not st.disagree, 'evaluations': st.evaluations, 'agree_bit_exact': st.agree,
           'agree_on_error': st.agree_err, 'distinct': len(st.distinct), 'distinct_nontrivial': len(st.nontrivial),
           'disagreements': st.disagree[:20], 'n_disagreements': len(st.disagree),
           'per_function': st.per_function, 'error_kinds': st.err_kinds, 'samples': st.samples,
           'seed': seed(), 'wall_s': st.wall()}
    res['unknown_parameters_fallback'] = sorted(UNKNOWN_PARAMS)
    write_json(a.out, res)
    print(f"corr_gen: {st.evaluations} evaluations over {len(entries)} functions, {st.agree} bit-exact, "
          f"{st.agree_err} agree-on-error, {len(st.disagree)} disagreements, {st.wall()} s")
    sys.exit(0 if not st.disagree else 1)


if __name__ == '__main__':
    main()
