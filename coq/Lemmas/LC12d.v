(* Proofs for C12 (fourth part): the first loop (discarding input points below the pseudo-liquid limit) and the
   3-point / 4-point inputs of the property's quantifier. *)
From Coq Require Import Reals List Bool Lra Lia Arith ZArith Sorted.
From DHV Require Import NumOps RInst Interp Fracs LCommon LC18 LC12 LC12b LC12c.
From DHV Require Framework.
Import ListNotations.
Local Open Scope R_scope.

(* the skip loop returns a suffix of the (sorted) input; it stops at the first point not below dmin, or at the end *)
Lemma skip_suffix : forall (rest : gsdR) dmin flow dlow fnext dnext pl,
  Forall (fun p => fst p <> 0) rest ->
  exists pre rest',
    skip RN dmin flow dlow fnext dnext rest pl =
      (fst (nth (length pre) ((flow, dlow) :: (fnext, dnext) :: rest) (0, 0)),
       snd (nth (length pre) ((flow, dlow) :: (fnext, dnext) :: rest) (0, 0)),
       fst (nth (S (length pre)) ((flow, dlow) :: (fnext, dnext) :: rest) (0, 0)),
       snd (nth (S (length pre)) ((flow, dlow) :: (fnext, dnext) :: rest) (0, 0)),
       rest', (pl - Z.of_nat (length pre))%Z) /\
    (flow, dlow) :: (fnext, dnext) :: rest =
      pre ++ nth (length pre) ((flow, dlow) :: (fnext, dnext) :: rest) (0, 0)
          :: nth (S (length pre)) ((flow, dlow) :: (fnext, dnext) :: rest) (0, 0) :: rest'.
Proof.
  induction rest as [|[ft dt] rest IH]; intros dmin flow dlow fnext dnext pl Hz.
  - exists [], []. cbn [skip length nth fst snd app]. destruct (nltb RN dnext dmin); rewrite Z.sub_0_r; split; reflexivity.
  - cbn [skip]. destruct (nltb RN dnext dmin).
    + inversion Hz as [|p l Hz1 Hz2]; subst. cbn [fst] in Hz1. rewrite (truthy_R ft Hz1).
      destruct (IH dmin fnext dnext ft dt (pl - 1)%Z Hz2) as (pre & rest' & E & D).
      exists ((flow, dlow) :: pre), rest'. cbn [length nth app]. split.
      * rewrite E. f_equal. lia.
      * f_equal. exact D.
    + exists [], ((ft, dt) :: rest). cbn [length nth fst snd app]. rewrite Z.sub_0_r. split; reflexivity.
Qed.

(* no input point below the limit: nothing is skipped *)
Lemma skip_none dmin flow dlow fnext dnext (rest : gsdR) pl : dmin <= dnext ->
  skip RN dmin flow dlow fnext dnext rest pl = (flow, dlow, fnext, dnext, rest, pl).
Proof. intro H. destruct rest as [|[ft dt] rest]; cbn [skip]; toR; rewrite (Rltb_f dnext dmin H); reflexivity. Qed.

(* one point below: the window moves up by one *)
Lemma skip_one dmin flow dlow fnext dnext ft dt (rest : gsdR) pl : dnext < dmin -> dmin <= dt -> ft <> 0 ->
  skip RN dmin flow dlow fnext dnext ((ft, dt) :: rest) pl = (fnext, dnext, ft, dt, rest, (pl - 1)%Z).
Proof.
  intros H1 H2 H3. cbn [skip]. toR. rewrite (Rltb_t dnext dmin H1), (truthy_R ft H3).
  apply skip_none. exact H2.
Qed.

(* a sorted dict: sorted(keys) is the identity *)
Lemma create_fracs_sorted (g : gsdR) Dp nu rhol rhos nf flow dlow fnext dnext rest :
  g = (flow, dlow) :: (fnext, dnext) :: rest -> both_increasing g ->
  create_fracs RN g Dp nu rhol rhos nf =
  (let '(fl, dl, fn, dn, r, pl) := skip RN (Framework.pseudo_dlim RN Dp nu rhol rhos) flow dlow fnext dnext rest (Z.of_nat (length g) - 1) in
   create_fracs_tail RN (Framework.pseudo_dlim RN Dp nu rhol rhos) fl dl fn dn r pl nf).
Proof.
  intros E H. unfold create_fracs. rewrite (sort_keys_increasing g (both_increasing_keys _ H)). rewrite E. reflexivity.
Qed.

(* ---- the D15/D50/D85 input of Slurry.generate_GSD, D50 above the pseudo-liquid limit ---- *)
Section ThreePoint.
Variables (d15 d50 d85 Dp nu rhol rhos : R).
Hypothesis Hd : 0 < d15 < d50 /\ d50 < d85.
Let dmin := Framework.pseudo_dlim RN Dp nu rhol rhos.
Hypothesis Hm : 0 < dmin < d50.
Let g3 : gsdR := [(15 / 100, d15); (50 / 100, d50); (85 / 100, d85)].

Lemma g3_increasing : both_increasing g3.
Proof. unfold g3. repeat (constructor; [|repeat (constructor; [unfold inc2; cbn [fst snd]; lra|]); constructor]). constructor. Qed.

Lemma three_point_tail :
  create_fracs RN g3 Dp nu rhol rhos 10 = create_fracs_tail RN dmin (15 / 100) d15 (50 / 100) d50 [(85 / 100, d85)] 2 10.
Proof.
  rewrite (create_fracs_sorted g3 Dp nu rhol rhos 10 _ _ _ _ _ eq_refl g3_increasing).
  fold dmin. rewrite skip_none by lra. reflexivity.
Qed.

(* the whole result: start point (when reached at a positive fraction), 4 interior nodes + the input point for each
   of the two intervals, and the extrapolated top point: 12 or 11 nodes, strictly increasing in both columns, D50
   and D85 among them with their own diameters, all fractions within [0, 0.999] *)
Lemma three_point_structure :
  let body := LC12c.body dmin (15 / 100) d15 (50 / 100) d50 [(85 / 100, d85)] 4 in
  forall a b, last2 body = Some (a, b) ->
  exists top, create_fracs RN g3 Dp nu rhol rhos 10 = body ++ [top] /\
    both_increasing (body ++ [top]) /\ fst b < fst top <= 999 / 1000 /\
    In (50 / 100, d50) body /\ In (85 / 100, d85) body /\
    length (body ++ [top]) = ((if Rltb 0 (X_of d15 d50 (15 / 100) (50 / 100) dmin) then 1 else 0) + 11)%nat.
Proof.
  cbv zeta. intros a b HL. rewrite three_point_tail.
  assert (Hin : both_increasing [(15 / 100, d15); (50 / 100, d50); (85 / 100, d85)]) by exact g3_increasing.
  assert (Hnz : Forall (fun p : R * R => fst p <> 0) [(50 / 100, d50); (85 / 100, d85)]) by (repeat constructor; cbn [fst]; lra).
  assert (Htop : forall p : R * R, In p [(50 / 100, d50); (85 / 100, d85)] -> fst p < 999 / 1000)
    by (intros p [<-|[<-|[]]]; cbn [fst]; lra).
  destruct (tail_shape dmin (15 / 100) d15 (50 / 100) d50 [(85 / 100, d85)] 2 10 4 Hin ltac:(lra) Hnz ltac:(lra)
              between_points_3 Htop ltac:(lra) a b HL) as (E & I & F).
  eexists. split; [exact E|]. split; [exact I|]. split; [exact F|].
  split; [apply body_contains; left; reflexivity|]. split; [apply body_contains; right; left; reflexivity|].
  rewrite app_length, body_length. cbn [length]. lia.
Qed.
End ThreePoint.
