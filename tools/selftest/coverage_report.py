#!/venv/bin/python
"""coverage_report.py [--props C01,C02,...] [--out docs/COVERAGE.md]

How much of /repo's code do the correspondence runs and the failing-input searches of the quick tier actually execute?

The theorems are about the model; what ties the model to /repo is (a) the translator, which reads every line of the
files it translates, and (b) the correspondence / search scripts, which only tie what they execute.  This tool runs
every registered correspondence script and every search script of the quick tier (same arguments as ./check) under
coverage.py (branch coverage, child processes included) and writes, per source file of /repo, the executed fraction and
the lines never executed -- the part of the code that is "modelled" only through the translator (for the regenerated
files) or not tied at all (for the hand-modelled ones).  It is a measurement of generator quality, not a check: nothing
in MANIFEST.json depends on it.  Scratch data go to a temporary directory that is removed at the end."""
import argparse
import json
import os
import shutil
import subprocess
import sys
import tempfile
import time

VERIF = os.path.dirname(os.path.dirname(os.path.dirname(os.path.abspath(__file__))))
sys.path.insert(0, os.path.join(VERIF, 'tools'))
import props as P  # noqa: E402

PY = '/venv/bin/python'
REPO = '/repo'
SOURCES = ['src/DHLLDV', 'src/Wilson', 'DHLLDV_viewer']


def main():
    ap = argparse.ArgumentParser()
    ap.add_argument('--props', default=','.join(sorted(P.PROPS)))
    ap.add_argument('--out', default=os.path.join(VERIF, 'docs', 'COVERAGE.md'))
    a = ap.parse_args()
    pids = [p for p in a.props.split(',') if p]
    work = tempfile.mkdtemp(prefix='dhv_cov_')
    rc = os.path.join(work, 'coveragerc')
    with open(rc, 'w') as f:
        f.write('[run]\nbranch = True\nparallel = True\nconcurrency = multiprocessing\npatch = _exit\n'
                f'data_file = {work}/.coverage\nsource =\n' + ''.join(f'    {REPO}/{s}\n' for s in SOURCES) +
                '[report]\nomit =\n    */tests/*\n    */test_*\n')
    # the environment ./check gives its scripts
    env = dict(os.environ, PYTHONHASHSEED='0', VERIF_REPO=REPO, PYTHONDONTWRITEBYTECODE='1',
               PYTHONPATH=os.path.join(REPO, 'src') + ':' + os.path.join(REPO, 'DHLLDV_viewer'),
               VERIF_SEED=os.environ.get('VERIF_SEED', '20260930'), VERIF_TIER='quick', COVERAGE_RCFILE=rc)
    runs = []
    t0 = time.time()
    for pid in pids:
        cfg = P.PROPS[pid]
        jobs = []
        for i, c in enumerate(cfg.get('corr', [])):
            outp = os.path.join(work, f'{pid}-corr{i}.json')
            jobs.append(('corr:' + c['script'], os.path.join(VERIF, 'tools', 'harness'),
                         [os.path.join(VERIF, 'tools', 'harness', c['script']), '--out', outp, '--n', str(c.get('n', 300))] + c.get('args', [])))
        if cfg.get('search'):
            outp = os.path.join(work, f'{pid}-search.json')
            jobs.append(('search:' + cfg['search'], os.path.join(VERIF, 'tools', 'search'),
                         [os.path.join(VERIF, 'tools', 'search', cfg['search']), '--out', outp, '--budget', str(cfg.get('budget_quick', 300))]))
        for name, cwd, cmd in jobs:
            t = time.time()
            r = subprocess.run([PY, '-m', 'coverage', 'run', '--rcfile', rc] + cmd, cwd=cwd, env=env, capture_output=True, text=True, timeout=7200)
            runs.append({'property': pid, 'job': name, 'rc': r.returncode, 'wall_s': round(time.time() - t, 1)})
            print(f'[{pid}] {name}: rc={r.returncode} {time.time() - t:.0f}s', flush=True)
            if r.returncode != 0:
                print(r.stdout[-600:], r.stderr[-600:])
    subprocess.run([PY, '-m', 'coverage', 'combine', '--rcfile', rc], cwd=work, env=env, capture_output=True, text=True)
    js = os.path.join(work, 'cov.json')
    r = subprocess.run([PY, '-m', 'coverage', 'json', '--rcfile', rc, '-o', js], cwd=work, env=env, capture_output=True, text=True)
    if not os.path.exists(js):
        print('coverage json failed', r.stdout, r.stderr)
        shutil.rmtree(work, ignore_errors=True)
        sys.exit(1)
    cov = json.load(open(js))
    rows = []
    for fn, d in sorted(cov['files'].items()):
        s = d['summary']
        rows.append((os.path.relpath(fn, REPO), s['num_statements'], s['covered_lines'], s.get('num_branches', 0), s.get('covered_branches', 0),
                     d['missing_lines']))
    os.makedirs(os.path.dirname(a.out), exist_ok=True)
    how = {'src/DHLLDV/DHLLDV_constants.py': 'regenerated', 'src/DHLLDV/homogeneous.py': 'regenerated', 'src/DHLLDV/heterogeneous.py': 'regenerated',
           'src/DHLLDV/stratified.py': 'regenerated', 'src/DHLLDV/DHLLDV_framework.py': 'regenerated', 'src/Wilson/Wilson_Stratified.py': 'regenerated',
           'src/Wilson/Wilson_V50.py': 'regenerated', 'DHLLDV_viewer/unit_conv.py': 'regenerated (Gen/Units.v)',
           'src/DHLLDV/DHLLDV_Utils.py': 'hand model Num/Interp.v', 'src/DHLLDV/SlurryObj.py': 'hand models Fracs.v, SlurryCalc.v, SlurryState.v, Graded.v',
           'src/DHLLDV/PipeObj.py': 'hand models Pipeline.v, PipelineSlurry.v, OpPoint.v', 'src/DHLLDV/PumpObj.py': 'hand model Pump.v',
           'src/DHLLDV/DriverObj.py': 'hand model Pump.v (driver curve)', 'DHLLDV_viewer/main.py': 'hand model Viewer.v',
           'DHLLDV_viewer/SystemTab.py': 'hand model Viewer.v (Dp reset, units); displays searched', 'DHLLDV_viewer/load_pump_excel.py': 'hand model Excel.v',
           'DHLLDV_viewer/store_pump_excel.py': 'hand models ExcelStore.v, FileName.v (+ Gen/FileChars.v)', 'DHLLDV_viewer/ExamplePumps.py': 'data (pumps used by C09-C11, C14-C16)'}
    with open(a.out, 'w') as f:
        f.write('# What the quick-tier correspondence and search runs execute of /repo\n\n')
        f.write('Generated by `tools/selftest/coverage_report.py` (coverage.py, branch mode, child processes included) on the unchanged tree; '
                f'properties: {", ".join(pids)}; seed {env["VERIF_SEED"]}; total {time.time() - t0:.0f} s.  A measurement of generator quality, not a check.\n\n')
        f.write('| file | tie to the model | statements | executed | branches | executed | lines never executed |\n|---|---|---|---|---|---|---|\n')
        for rel, ns, cs, nb, cb, miss in rows:
            def ranges(ls):
                out, i = [], 0
                while i < len(ls):
                    j = i
                    while j + 1 < len(ls) and ls[j + 1] == ls[j] + 1:
                        j += 1
                    out.append(str(ls[i]) if i == j else f'{ls[i]}-{ls[j]}')
                    i = j + 1
                return ', '.join(out)
            f.write(f'| {rel} | {how.get(rel, "-")} | {ns} | {cs} ({100 * cs / max(ns, 1):.0f} %) | {nb} | {cb} ({100 * cb / max(nb, 1):.0f} %) | {ranges(miss) or "-"} |\n')
        f.write('\n## runs\n\n| property | job | exit | wall s |\n|---|---|---|---|\n')
        for r_ in runs:
            f.write(f"| {r_['property']} | {r_['job']} | {r_['rc']} | {r_['wall_s']} |\n")
    shutil.rmtree(work, ignore_errors=True)
    print('written', a.out)


if __name__ == '__main__':
    main()
