(* PipelineSlurry: the Pipeline object together with its slurry objects -- update_slurries (one shallow copy of
   the pipeline slurry per distinct pipe diameter, with Dp assigned), the Cv / slurry setters, the system head
   computed from the per-diameter slurries, and the state left behind by hydraulic_gradient (whose temporary
   Pipeline runs update_slurries on the SHARED slurry object).  Hand-written over Models/SlurryState.v and
   Models/Pipeline.v; tied to the code by tools/harness/corr_pipeline_slurry.py.  No proofs here. *)
From Coq Require Import ZArith List Bool.
From DHV Require Import NumOps Interp Fracs Graded SlurryCalc SlurryState Pipeline.
Import ListNotations.

Section PS.
Context {T : Type} (N : NumOps T).
Variables sf sq : bool.
Variable point : nat -> T -> bool -> T -> T -> T.   (* pump id, Q, water, rhol, rhom -> head *)

Record pl : Type := mkPl {
  secs : list (section (T:=T));
  slurry : state (T:=T);                (* self._slurry *)
  slurries : list (T * state (T:=T)) }. (* self.slurries : diameter -> copy *)

Fixpoint lookup_d (m : list (T * state (T:=T))) (d : T) : option (state (T:=T)) :=
  match m with
  | [] => None
  | (d', s) :: r => if neqb N d' d then Some s else lookup_d r d
  end.
Definition mem_d (m : list (T * state (T:=T))) (d : T) : bool := match lookup_d m d with Some _ => true | None => false end.

Definition set_dp (s : state (T:=T)) (d : T) : state (T:=T) := fst (SlurryState.step N sf sq s (SetDp d)).

(* for p in pipesections: a Pipe whose diameter has no entry yet gets copy(slurry) with Dp := diameter *)
Fixpoint build (sl : state (T:=T)) (l : list (section (T:=T))) (acc : list (T * state (T:=T))) : list (T * state (T:=T)) :=
  match l with
  | [] => acc
  | Pipe d _ _ _ :: r => if mem_d acc d then build sl r acc else build sl r (acc ++ [(d, set_dp sl d)])
  | PumpRef _ :: r => build sl r acc
  end.

Definition last_diameter (l : list (section (T:=T))) : option T :=
  match rev l with Pipe d _ _ _ :: _ => Some d | _ => None end.

(* if the pipeline slurry's own Dp is not a pipeline diameter it is set to the last section's diameter *)
Definition fix_dp (sl : state (T:=T)) (l : list (section (T:=T))) (m : list (T * state (T:=T))) : state (T:=T) :=
  if mem_d m (p_Dp (sp sl)) then sl
  else match last_diameter l with Some d => set_dp sl d | None => sl end.

Definition update_slurries (p : pl) : pl :=
  let m := build (slurry p) (secs p) [] in
  mkPl (secs p) (fix_dp (slurry p) (secs p) m) m.

(* Pipeline(name, pipe_list, slurry) *)
Definition make (l : list (section (T:=T))) (sl : state (T:=T)) : pl := update_slurries (mkPl l sl []).
(* Pipeline.Cv = c ;  Pipeline.slurry = s *)
Definition set_Cv_pl (p : pl) (c : T) : pl :=
  update_slurries (mkPl (secs p) (fst (SlurryState.step N sf sq (slurry p) (SetCv c))) (slurries p)).
Definition set_slurry_pl (p : pl) (s : state (T:=T)) : pl := update_slurries (mkPl (secs p) s (slurries p)).

(* the gradients a section of diameter d sees: those of ITS slurry copy *)
Definition point_of (s : state (T:=T)) (v : T) : T * T :=
  match snd (SlurryState.step N sf sq s (ReadPoint v)) with
  | OPoint i _ m => (i, m)
  | _ => (nfail N E_KeyError, nfail N E_KeyError)
  end.
Definition im_d (p : pl) (d v : T) : T :=
  match lookup_d (slurries p) d with Some s => snd (point_of s v) | None => nfail N E_KeyError end.
Definition il_d (p : pl) (d v : T) : T :=
  match lookup_d (slurries p) d with Some s => fst (point_of s v) | None => nfail N E_KeyError end.

Definition system_head (p : pl) (Q : T) : T * T * T * T :=
  let rl := p_rhol (sp (slurry p)) in
  let rm := rhom N (sp (slurry p)) in
  calc_system_head N (im_d p) (il_d p) (fun i q w => point i q w rl rm) rl rm (secs p) Q.

(* what hydraulic_gradient leaves behind: its temporary Pipeline(pipe_list=copies, slurry=self.slurry) runs
   update_slurries, whose last statement may reassign the Dp of the SHARED slurry object; sections and the
   per-diameter copies of self are not touched *)
Definition after_hydraulic_gradient (p : pl) : pl :=
  mkPl (secs p) (fix_dp (slurry p) (secs p) (build (slurry p) (secs p) [])) (slurries p).

End PS.
