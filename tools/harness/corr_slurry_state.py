#!/venv/bin/python
"""corr_slurry_state.py: correspondence of Models/SlurryState.v with the real SlurryObj.Slurry on
operation sequences (setters, generate_GSD, reads): the two dirty flags after every operation and
every value read are compared (bit-exact expected; < 1e-12 relative counted as ulp-level).

usage: corr_slurry_state.py --out <json> --n N     (N random sequences; plus exhaustive depth 2)
"""
import argparse
import itertools
import random
import sys

from common import Driver, Stats, check_repo_import, py_outcome, seed, write_json
import slurry_ops as so
from corr_slurry import compare


def main():
    ap = argparse.ArgumentParser()
    ap.add_argument('--out', required=True)
    ap.add_argument('--n', type=int, default=60)
    ap.add_argument('--depth', type=int, default=10)
    a = ap.parse_args()
    check_repo_import()
    from DHLLDV import SlurryObj
    rng = random.Random(seed())
    st = Stats()
    st.ulp = 0
    seqs = []
    inits = [dict(Dp=0.762, D50=1.0e-3, fluid='salt', Cv=0.175, max_index=6),
             dict(Dp=0.5, D50=0.5e-3, fluid='fresh', Cv=0.25, max_index=4)]
    # exhaustive: every ordered pair of setters from the alphabet, each followed by all reads
    alpha = so.alphabet()
    pairs = list(itertools.product(alpha, repeat=2))
    rng.shuffle(pairs)
    npairs = len(pairs) if a.n >= 400 else min(len(pairs), max(40, a.n))
    for (o1, o2) in pairs[:npairs]:
        seqs.append((inits[0], [o1, ('rGSD',), o2, ('rGSD',), ('rdx', 0.15), ('rpoint', 3.0), ('rscalars',)]))
    for i in range(a.n):
        init = dict(rng.choice(inits))
        seqs.append((init, so.random_ops(rng, rng.randint(3, a.depth))))
    # a few sequences that read the full curve tables
    for i in range(max(3, a.n // 10)):
        init = dict(rng.choice(inits))
        ops = so.random_ops(rng, rng.randint(2, 6), p_read=0.2) + [('rcurves',)] + so.random_ops(rng, 2, p_read=0.0) + [('rcurves',)]
        seqs.append((init, ops))
    reqs, expect = [], []
    nops = 0
    for init, ops in seqs:
        s = SlurryObj.Slurry(Dp=init['Dp'], D50=init['D50'], fluid=init['fluid'], Cv=init['Cv'], max_index=init['max_index'])
        toks = [so.flags(s)]
        err = None
        done = []
        for o in ops:
            r = py_outcome(so.apply_op, s, o)
            if r[0] == 'err':
                err = r[1]
                break
            done.append(o)
            toks += ['|'] + r[1] + [so.flags(s)]
        nops += len(done)
        # the model is run on the operations the real object completed (plus the failing one)
        run_ops = done + ([ops[len(done)]] if err else [])
        reqs.append(('Slurry.run', so.encode(init, run_ops)))
        expect.append((init, run_ops, toks, err))
    replies = Driver().batch(reqs)
    for (init, ops, toks, err), rep in zip(expect, replies):
        st.evaluations += 1
        key = repr((init, ops))
        st.distinct.add(key)
        if err:
            st.err_kinds[err] = st.err_kinds.get(err, 0) + 1
            if rep[0] == 'err':
                st.agree_err += 1
            else:
                st.disagree.append({'init': init, 'ops': ops, 'python_error': err, 'model': 'ok'})
            continue
        if rep[0] != 'ok':
            st.disagree.append({'init': init, 'ops': ops, 'python': 'ok', 'model': rep})
            continue
        c = compare(toks, rep[1])
        if c == 'exact':
            st.agree += 1
            st.nontrivial.add(key)
        elif c == 'ulp':
            st.ulp += 1
            st.nontrivial.add(key)
        else:
            first = next((j for j, (p, m) in enumerate(zip(toks, rep[1])) if compare([p], [m]) == 'diff'), None)
            st.disagree.append({'init': init, 'ops': ops, 'first_diff_token': first,
                                'python': [x.hex() if isinstance(x, float) else x for x in toks[max(0, (first or 0) - 3):(first or 0) + 3]],
                                'model': rep[1][max(0, (first or 0) - 3):(first or 0) + 3], 'len': [len(toks), len(rep[1])]})
        if len(st.samples) < 3 and st.evaluations % 37 == 1:
            st.samples.append({'init': init, 'ops': ops})
    res = {'ok': not st.disagree, 'evaluations': st.evaluations, 'operations': nops, 'agree_bit_exact': st.agree,
           'agree_on_error': st.agree_err, 'ulp_level_differences': st.ulp, 'distinct': len(st.distinct),
           'distinct_nontrivial': len(st.nontrivial), 'disagreements': st.disagree[:8], 'n_disagreements': len(st.disagree),
           'error_kinds': st.err_kinds, 'distribution': {'exhaustive_pairs': npairs, 'random_sequences': a.n, 'operations': nops},
           'samples': st.samples, 'seed': seed(), 'wall_s': st.wall()}
    write_json(a.out, res)
    print(f"corr_slurry_state: {st.evaluations} sequences ({nops} ops), {st.agree} bit-exact, {st.ulp} ulp-level, "
          f"{st.agree_err} agree-on-error, {len(st.disagree)} disagreements, {st.wall()} s")
    sys.exit(0 if not st.disagree else 1)


if __name__ == '__main__':
    main()
