From Coq Require Import Reals List.
From DHV Require Import NumOps RInst Interp.
Definition in_range (tbl : list (R * R)) (xlo xhi : bool) (tol k : R) : Prop :=
  lookup RN tbl xlo xhi tol k <> None.
