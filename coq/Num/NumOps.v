(* NumOps: the numeric signature over which every model of DHLLDV is written once.
   Read over R (Num/RInst.v) it carries the theorems; read over binary64
   (ocaml/driver.ml, not a Coq object) it is executed against the real Python. *)
From Coq Require Import ZArith List.

Record NumOps (T : Type) : Type := mkNumOps {
  nadd : T -> T -> T;
  nsub : T -> T -> T;
  nmul : T -> T -> T;
  ndiv : T -> T -> T;
  nneg : T -> T;
  nabs : T -> T;
  npow : T -> T -> T;        (* Python  x ** y  with a non-integer-literal exponent *)
  npown : T -> nat -> T;     (* Python  x ** n  with n a non-negative integer literal *)
  nln : T -> T;
  nlog10 : T -> T;
  nexp : T -> T;
  nsin : T -> T;
  ncosh : T -> T;
  nsqrt : T -> T;
  npi : T;
  nltb : T -> T -> bool;
  nleb : T -> T -> bool;
  neqb : T -> T -> bool;
  nmin : T -> T -> T;        (* Python min(a, b) *)
  nmax : T -> T -> T;        (* Python max(a, b) *)
  ntrunc : T -> Z;           (* Python int(x) *)
  nint : Z -> T;             (* integer literal / int -> float *)
  nlit : Z -> positive -> T; (* decimal literal n/d, d a power of ten: the exact source text *)
  nsum : list T -> T;        (* Python builtin sum() of a list *)
  nfail : nat -> T           (* raise: 1 IndexError 2 ValueError 3 KeyError ...; junk over R *)
}.

Arguments nadd {T} _ _ _. Arguments nsub {T} _ _ _. Arguments nmul {T} _ _ _.
Arguments ndiv {T} _ _ _. Arguments nneg {T} _ _. Arguments nabs {T} _ _.
Arguments npow {T} _ _ _. Arguments npown {T} _ _ _. Arguments nln {T} _ _.
Arguments nlog10 {T} _ _. Arguments nexp {T} _ _. Arguments nsin {T} _ _.
Arguments ncosh {T} _ _. Arguments nsqrt {T} _ _. Arguments npi {T} _.
Arguments nltb {T} _ _ _. Arguments nleb {T} _ _ _. Arguments neqb {T} _ _ _.
Arguments nmin {T} _ _ _. Arguments nmax {T} _ _ _. Arguments ntrunc {T} _ _.
Arguments nint {T} _ _. Arguments nlit {T} _ _ _. Arguments nsum {T} _ _.
Arguments nfail {T} _ _.

(* error codes used with nfail *)
Definition E_IndexError : nat := 1.
Definition E_ValueError : nat := 2.
Definition E_KeyError : nat := 3.
Definition E_StopIteration : nat := 4.
Definition E_Fuel : nat := 9.
