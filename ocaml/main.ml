(* main.ml: one request per input line "<function> <args...>", one reply per line:
   "ok <values...>" or "err <PythonExceptionClass>" *)
let () =
  try
    while true do
      let line = input_line stdin in
      let toks = Array.of_list (Stdlib.List.filter (fun s -> s <> "") (Stdlib.String.split_on_char ' ' line)) in
      if Array.length toks > 0 then begin
        let name = toks.(0) in
        let a = Array.sub toks 1 (Array.length toks - 1) in
        let reply =
          try "ok " ^ Dispatch.dispatch name a with
          | Fnum.Py e -> "err " ^ e
          | Stack_overflow -> "err StackOverflow"
          | Not_found -> "err UnknownFunction"
          | Invalid_argument m -> "err InvalidArgument:" ^ m
          | Failure m -> "err Failure:" ^ m
        in
        print_string reply; print_newline ()
      end
    done
  with End_of_file -> ()
