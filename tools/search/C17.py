#!/venv/bin/python
"""C17 failing-input search on the REAL viewer (DHLLDV_viewer/main.py + SystemTab.py under tools/fakebokeh).

Event sequences: every single event, pairs (all of them when the budget allows, a seeded sample otherwise), random
sequences of depth 15.  After EVERY event the oracle below checks the clauses of the property against the real
objects: no callback raised; accept / reject semantics of the text boxes; documented bounds; text boxes show the
model; plotted data equal a fresh Slurry's; unit displays; every section uses the edited slurry at its own diameter."""
import concurrent.futures as cf
import json
import os
import math
import multiprocessing as mp
import random
from scommon import Search, seed
import viewer_session as vs

S = Search('C17', 'event sequences on the real viewer modules under the bokeh double: all single events, pairs (exhaustive when '
                  'budget >= 600 s, else a seeded sample), random sequences of depth 15; after every event the oracle checks '
                  'no-raise, accept/reject semantics, bounds, text sync, plotted data vs a fresh Slurry, unit displays, '
                  'per-section slurries; distinct = distinct event sequence')

EXACT_US = {'len': 1 / 0.3048, 'dia': 12 / 0.3048, 'vol': (1 / 0.3048) ** 3 / 27, 'flow': 1000 / 3.785411784 * 60,
            'power': 1 / 0.74569987158227022, 'pressure': 9.804139 * 0.14503773773, 'rot speed': 60.0}
EXACT_SI = {'len': 1.0, 'dia': 1000.0, 'vol': 1.0, 'flow': 1.0, 'power': 1.0, 'pressure': 9.804139, 'rot speed': 60.0}
UNIT_TOL = 0.002

from viewer_events import VALID, INVALID, OTHER, COPY, NUDGE, random_event, sequences  # noqa: F401

DISPLAY = {'Dp_input': ('Dp', 1000.0, 1.0), 'D15_input': ('D15', 1000.0, 1e-3), 'D50_input': ('D50', 1000.0, 1e-3),
           'D85_input': ('D85', 1000.0, 1e-3), 'rhos_input': ('rhos', 1.0, 1e-3), 'rhom_input': ('rhom', 1.0, 1e-3),
           'Cv_input': ('Cv', 1.0, 1e-3), 'Rsd_input': ('Rsd', 1.0, 1e-3), 'Cvi_input': ('Cvi', 1.0, 1e-3),
           'fluid_density_label': ('rhol', 1.0, 1e-4)}


def num(x):
    return isinstance(x, float) and math.isfinite(x)


def close(a, b, rel=1e-9, abs_=1e-12):
    if isinstance(a, str) or isinstance(b, str):
        return a == b
    if a is None or b is None:
        return a is b
    return abs(a - b) <= abs_ + rel * max(abs(a), abs(b))


def parse(text):
    try:
        return float(text)
    except ValueError:
        return None


def in_envelope(p):
    return (0.1 <= p['Dp'] <= 1.2 and 2.0 <= p['rhos'] <= 4.0 and 0.02 <= p['Cv'] <= 0.45 and p['D50'] <= 0.25 * p['Dp']
            and p['D85'] <= 0.5 * p['Dp'] and p['D15'] >= 0.04e-3 * (1 - 1e-9))


def expected_range(w, prev, dlim_mm):
    p = prev['params']
    if w == 'Dp_input':
        return 25, 1500
    if w == 'rhos_input':
        return 1.5, 7.0
    if w == 'rhom_input':
        return 1.05, 0.5 * (p['rhos'] - p['rhol']) + p['rhol']
    if w == 'Cv_input':
        return 0.01, 0.5
    if w == 'D15_input':
        return 0.04, p['D50'] * 1000 - 0.01
    if w == 'D50_input':
        return max(p['D15'] * 1000 + 0.01, dlim_mm), min(p['D85'] * 1000 - 0.01, p['Dp'] * 1000 * 0.25)
    if w == 'D85_input':
        return p['D50'] * 1000 + 0.01, p['Dp'] * 1000 * 0.5
    raise KeyError(w)


def dlim_mm(p):
    from DHLLDV import DHLLDV_framework
    return DHLLDV_framework.pseudo_dlim(p['Dp'], p['nu'], p['rhol'], p['rhos']) * 1000


def diam_list(rec):
    return [s['diameter'] for s in rec['sections'] if s['kind'] == 'pipe']


def check_event(seq, i, prev, rec, V):
    """V(key, what, **detail) records a violation"""
    ev = tuple(rec['event'])
    where = dict(sequence=[list(e) for e in seq[:i + 1]])
    if rec['raised']:
        V('C17:raise:' + ev[0] + ':' + str(ev[1]), f'callback raised {rec["raised"]} on event {ev}', **where)
        return False
    if rec.get('observe_error'):
        V('C17:observe:' + str(ev[1]), f'reading the model after {ev} raised {rec["observe_error"]}', **where)
        return False
    p, q = prev['params'], rec['params']
    if not all(num(q[k]) for k in ('Dp', 'rhos', 'rhoi', 'Cv', 'D50', 'D15', 'D85', 'rhom')):
        V('C17:nonfinite', f'model parameter not a finite real after {ev}: {q}', **where)
        return False
    premise = in_envelope(p) and in_envelope(q)
    # -- accept / reject semantics
    ev = tuple(rec.get('resolved', ev))
    if ev[0] == 'text':
        w, text = ev[1], ev[2]
        name, scale, unit = DISPLAY[w]
        x = parse(text)
        lo, hi = expected_range(w, prev, dlim_mm(p))
        accepted = x is not None and lo <= x <= hi          # NaN fails both comparisons: rejected
        if text == rec['texts_before'][w]:
            accepted = None                                 # no change event: nothing fires
        if accepted is True:
            if w == 'Dp_input':
                want = x / 1000 if any(close(x / 1000, d, 1e-12) for d in diam_list(prev)) else diam_list(prev)[-1]
                if not close(q['Dp'], want, 1e-12):
                    V('C17:accept:Dp', f'accepted Dp entry {text}: model Dp {q["Dp"]} (expected {want})', **where)
            elif abs(q[name] * scale - x) > unit * (1 + 1e-9):
                V('C17:accept:' + name, f'accepted entry {text} in {w}: the model holds {q[name] * scale} (display unit {unit})', **where)
            S.count(None, 'accepted')
        elif accepted is False:
            changed = [k for k in q if not close(p[k], q[k], 1e-12)]
            if changed:
                V('C17:reject:model:' + w, f'rejected entry {text!r} in {w} changed the model: {[(k, p[k], q[k]) for k in changed]}', **where)
            before, after = parse(rec['texts_before'][w]), parse(rec['texts'][w])
            if after is None or before is None or abs(after - before) > unit * (1 + 1e-9):
                V('C17:reject:text:' + w, f'rejected entry {text!r} in {w}: text is {rec["texts"][w]!r}, was {rec["texts_before"][w]!r}', **where)
            S.count(None, 'rejected')
    # -- the D50 up/down buttons document their own limits (pseudo-liquid limit < D50 <= Dp/4, evaluated before the press)
    if ev[0] == 'click' and str(ev[1]).startswith('D50_') and not close(q['D50'], p['D50'], 1e-12):
        if not (dlim_mm(p) * (1 - 1e-12) < q['D50'] * 1000 <= 0.25 * p['Dp'] * 1000 * (1 + 1e-12)):
            V('C17:bounds:D50-button', f'after {ev}: the button moved D50 to {q["D50"] * 1000} mm, outside ({dlim_mm(p)}, {0.25 * p["Dp"] * 1000}] mm', **where)
    # -- bounds (for sessions inside the envelope)
    if premise:
        if not (25 <= q['Dp'] * 1000 <= 1500 and 1.5 <= q['rhos'] <= 7.0 and 0.01 <= q['Cv'] <= 0.5):
            V('C17:bounds:basic', f'after {ev}: Dp/rhos/Cv outside the documented ranges: {q}', **where)
        if not (q['D15'] < q['D50'] < q['D85']):
            V('C17:bounds:order', f'after {ev}: D15 < D50 < D85 fails: {q["D15"], q["D50"], q["D85"]}', **where)
    S.track_worst('D85/Dp', q['D85'] / q['Dp'], str(ev))
    S.track_worst('D50/Dp', q['D50'] / q['Dp'], str(ev))
    S.track_worst('0.04mm/D15', 0.04e-3 / q['D15'], str(ev))
    # -- text boxes show the model
    for w, (name, scale, unit) in DISPLAY.items():
        shown = parse(rec['texts'][w])
        if shown is None or abs(shown - q[name] * scale) > unit * (1 + 1e-9):
            V('C17:text:' + w, f'after {ev}: {w} shows {rec["texts"][w]!r} but the model holds {q[name] * scale}', **where)
    if rec['fluid_active'] != {'fresh': 0, 'salt': 1}[q['fluid']]:
        V('C17:text:fluid', f'after {ev}: fluid radio {rec["fluid_active"]} vs model {q["fluid"]}', **where)
    if 'sources' not in rec:
        return True
    # -- plotted data equal a fresh slurry's
    if 'fresh' in rec:
        for sname, data in rec['sources'].items():
            fr = rec['fresh'][sname]
            for k in data:
                a, b = data[k], fr.get(k)
                if b is None or len(a) != len(b) or not all(close(x, y) for x, y in zip(a, b)):
                    j = next((j for j, (x, y) in enumerate(zip(a, b or [])) if not close(x, y)), None)
                    V('C17:plot:' + sname, f'after {ev}: source {sname}[{k}] differs from a fresh Slurry with the same parameters '
                      f'(index {j}: {a[j] if j is not None else len(a)} vs {b[j] if j is not None and b else None})', **where)
                    break
    elif premise:
        S.count(None, 'fresh-error:' + rec.get('fresh_error', '?').split(':')[0])
    # -- sections use the edited slurry at their own diameter
    for sec in rec['sections']:
        sp = sec['params']
        # D15 / D85 are not parameters but read-backs of the grading generated AT THE SECTION'S DIAMETER: the reference is a
        # fresh Slurry at that diameter with the edited slurry's parameters and ratios (equal to the edited slurry's own
        # D15 / D85 whenever D50 is above the pseudo-liquid limit of that diameter)
        ref = dict(q)
        fdx = sec.get('fresh_dx') or {}
        if 'D15' in fdx:
            ref['D15'], ref['D85'] = fdx['D15'], fdx['D85']
        elif sec['kind'] == 'pipe':
            S.count(None, 'section-fresh-error')
        for k in ('fluid', 'nu', 'rhol', 'rhos', 'rhoi', 'Cv', 'D50', 'D15', 'D85', 'epsilon'):
            if k in ('D15', 'D85') and sec['kind'] == 'pipe' and 'D15' not in fdx:
                continue
            if not close(sp[k], ref[k]):
                V('C17:section:' + k, f'after {ev}: section {sec["name"]} uses {k}={sp[k]}, the edited slurry at that diameter has {ref[k]}', **where)
                break
        if sec['kind'] == 'pipe' and not close(sp['Dp'], sec['diameter'], 1e-12):
            V('C17:section:Dp', f'after {ev}: section {sec["name"]} (diameter {sec["diameter"]}) uses a slurry at Dp={sp["Dp"]}', **where)
    # -- unit displays
    us = rec['unit_label'].startswith('US')
    ex = EXACT_US if us else EXACT_SI
    tol = UNIT_TOL if us else 1e-12

    def shown_ok(text, si, kind, unit):
        v = parse(text)
        want = si * ex[kind]
        return v is not None and abs(v - want) <= unit * 0.5000001 + tol * abs(want)
    st = rec['sys_texts']
    tot = rec['totals']
    titles = dict((t.split(' (')[0], v) for t, v in st[:8])
    checks = [('Disch Dia', tot['disch_dia'], 'dia', 0.1), ('Length', tot['total_length'], 'len', 1.0),
              ('Discharge Elevation', tot['total_lift'], 'len', 0.1)]
    for title, si, kind, unit in checks:
        if title not in titles or not shown_ok(titles[title], si, kind, unit):
            V('C17:units:' + title, f'after {ev} ({rec["unit_label"]}): "{title}" shows {titles.get(title)!r} for SI value {si} '
              f'(exact factor {ex[kind]})', **where)
    # the per-pipe rows: untitled TextInputs in groups of 6 after the 6 header cells
    rows = [v for t, v in st if t == '']
    pipes = [s for s in rec['sections'] if s['kind'] == 'pipe']
    body = rows[6:]
    k = 0
    for s in pipes:
        while k < len(body) and not (k + 1 < len(body) and body[k + 1] == s['name']):
            k += 1
        if k + 5 >= len(body):
            V('C17:units:rows', f'after {ev}: no display row for pipe {s["name"]}', **where)
            break
        d_txt, l_txt, dz_txt = body[k + 2], body[k + 3], body[k + 5]
        if not (shown_ok(d_txt, s['diameter'], 'dia', 0.1) and shown_ok(l_txt, s['length'], 'len', 1.0)
                and shown_ok(dz_txt, s['dz'], 'len', 0.1)):
            V('C17:units:pipe', f'after {ev} ({rec["unit_label"]}): row of pipe {s["name"]} shows {d_txt, l_txt, dz_txt} for SI '
              f'{s["diameter"], s["length"], s["dz"]}', **where)
        k += 6
    pump_titles = [(t, v) for t, v in st if t.startswith(('Suction (In', 'Suction (mm', 'Discharge (In', 'Discharge (mm',
                                                           'Impeller', 'Power'))]
    pumps = [s for s in rec['sections'] if s['kind'] == 'pump']
    pi = 0
    for t, v in pump_titles:
        if t.startswith('Suction (In') or t.startswith('Suction (mm'):
            if pi < len(pumps) and not shown_ok(v, pumps[pi]['suction'], 'dia', 0.1):
                V('C17:units:pump', f'after {ev} ({rec["unit_label"]}): pump {pumps[pi]["name"]} suction shows {v!r} for {pumps[pi]["suction"]} m', **where)
        if t.startswith('Impeller'):
            if pi < len(pumps) and not shown_ok(v, pumps[pi]['impeller'], 'dia', 0.1):
                V('C17:units:pump', f'after {ev} ({rec["unit_label"]}): pump {pumps[pi]["name"]} impeller shows {v!r} for {pumps[pi]["impeller"]} m', **where)
            pi += 1
    # the System-tab curve source: v and Q columns against the slurry-tab velocity list
    if rec['sys_sources']:
        src = rec['sys_sources'][0]
        vl = rec['sources']['im']['v']
        area = math.pi * q['Dp'] ** 2 / 4
        if len(src.get('v', [])) != len(vl) or not all(abs(a - b * ex['len']) <= tol * abs(a) + 1e-12 for a, b in zip(src['v'], vl)):
            V('C17:units:v', f'after {ev} ({rec["unit_label"]}): System-tab velocity column is not the velocity list times the length factor', **where)
        elif not all(abs(a - b * area * ex['flow']) <= max(tol, 1e-9) * abs(a) + 1e-12 for a, b in zip(src['Q'], vl)):
            V('C17:units:Q', f'after {ev} ({rec["unit_label"]}): System-tab flow column is not v*A times the flow factor', **where)
    return True


def run_one(seq):
    recs = vs.run_sequence([('none',)] + list(seq), full_every=True)
    return seq, recs


def main():
    vs.load()
    keys = vs.setup_keys()
    rng = random.Random(seed() * 7919 + 17)
    seqs = sequences(rng, keys, S.budget >= 600, 150, 60 if S.budget >= 600 else 6)
    if os.environ.get('VERIF_C17_SEQS'):       # replay: only the recorded sequences
        seqs = [tuple(tuple(e) for e in q) for q in json.loads(os.environ['VERIF_C17_SEQS'])]
    ctx = mp.get_context('fork')
    with cf.ProcessPoolExecutor(max_workers=16, mp_context=ctx) as ex:
        for seq, recs in ex.map(run_one, seqs, chunksize=4):
            if recs and recs[0].get('raised'):
                S.violation('C17:initial', f'the viewer failed before any event: {recs[0]["raised"]}')
                break
            prev = recs[0]
            for i, rec in enumerate(recs[1:]):
                ok = check_event(seq, i, prev, rec, S.violation)
                S.count(None, 'event:' + str(rec['event'][0]))
                if not ok:
                    break
                prev = rec
            S.count(repr(seq), f'depth{len(seq)}')
            if len(S.samples) < 3:
                S.sample(dict(sequence=[list(e) for e in seq], final=recs[-1].get('params')))
            if len({v.get('key') for v in S.violations}) >= 3 or len(S.violations) >= 40:
                # enough failing sequences for a replay: do not spend the rest of the (enlarged) budget
                S.count(None, 'stopped-early-after-violations')
                ex.shutdown(wait=False, cancel_futures=True)
                break
    S.finish()


main()
