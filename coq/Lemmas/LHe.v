(* The heterogeneous excess gradient of the regenerated model falls with line speed (C04); its branch thresholds are
   free of jumps; the regime selection max(min(FB, SB, He), Ho) cannot create a jump. *)
From Coq Require Import Reals Lra.
From DHV Require Import NumOps RInst SwameeJain LIl LSettle.
From DHV Require Constants Homogeneous Heterogeneous.
Local Open Scope R_scope.

(* Shr = A / vls and Srs = B / (lambda vls^2) with A, B > 0 independent of the line speed *)
Definition ShrA (d nu rhol rhos Cvs : R) : R :=
  let Rsd := (rhos - rhol) / rhol in
  let vt := Heterogeneous.vt_ruby RN d Rsd nu (26 / 100) in
  let beta := betaRZ (vt * d / nu) in
  vt * Rpower (Rmax (1 - Cvs / (175 / 1000 * (1 + beta))) 0) beta.

Lemma Shr_formula vls Dp d eps nu rhol rhos Cvs :
  Heterogeneous.Shr RN vls Dp d eps nu rhol rhos Cvs = ShrA d nu rhol rhos Cvs / vls.
Proof. unfold Heterogeneous.Shr, ShrA, betaRZ. toR. reflexivity. Qed.

Lemma ShrA_pos d nu rhol rhos Cvs : 0 < d -> 0 < nu -> 0 < rhol < rhos -> 0 < ShrA d nu rhol rhos Cvs.
Proof.
  intros Hd Hn Hr. unfold ShrA. cbv zeta. apply Rmult_lt_0_compat.
  - apply vt_pos; try assumption. apply Rdiv_lt_0_compat; lra.
  - unfold Rpower. apply exp_pos.
Qed.

Definition SrsB (d nu rhol rhos : R) (sq : bool) : R :=
  let Rsd := (rhos - rhol) / rhol in
  let vt := Heterogeneous.vt_ruby RN d Rsd nu (26 / 100) in
  (85 / 10) ^ 2 *
  (if negb sq then Rpower (vt / Rpower (980665 / 100000 * d) (5 / 10)) (10 / 1 / (3 / 1))
   else Rpower (1 / Heterogeneous.sqrtcx RN vt d) (3 / 1)) *
  (Rpower (nu * (980665 / 100000)) (1 / 1 / (3 / 1))) ^ 2.

Lemma Srs_formula vls Dp d eps nu rhol rhos sq : vls <> 0 ->
  Homogeneous.swamee_jain_ff RN (Homogeneous.pipe_reynolds_number RN vls Dp nu) Dp eps <> 0 ->
  Heterogeneous.Srs RN vls Dp d eps nu rhol rhos sq =
  SrsB d nu rhol rhos sq / (Homogeneous.swamee_jain_ff RN (Homogeneous.pipe_reynolds_number RN vls Dp nu) Dp eps * vls ^ 2).
Proof.
  intros Hv Hl. unfold Heterogeneous.Srs, SrsB, Constants.gravity. cbv zeta. toR. destruct (negb sq); field; split; assumption.
Qed.

Lemma SrsB_pos d nu rhol rhos sq : 0 < SrsB d nu rhol rhos sq.
Proof.
  unfold SrsB. cbv zeta. apply Rmult_lt_0_compat; [apply Rmult_lt_0_compat|].
  - apply pow_lt. lra.
  - destruct (negb sq); unfold Rpower; apply exp_pos.
  - apply pow_lt. unfold Rpower. apply exp_pos.
Qed.

Lemma lambda_eq vls Dp eps nu : liqE vls Dp eps nu ->
  Homogeneous.swamee_jain_ff RN (Homogeneous.pipe_reynolds_number RN vls Dp nu) Dp eps = lam (c1_of eps Dp) (Re_of vls Dp nu).
Proof. intro H. pose proof (Re_big _ _ _ _ H). rewrite Re_of_eq. rewrite sj_turbulent by lra. reflexivity. Qed.

(* lambda vls^2 rises with the line speed *)
Lemma lam_v2_increasing vls1 vls2 Dp eps nu : liqE vls1 Dp eps nu -> liqE vls2 Dp eps nu -> vls1 < vls2 ->
  lam (c1_of eps Dp) (Re_of vls1 Dp nu) * vls1 ^ 2 < lam (c1_of eps Dp) (Re_of vls2 Dp nu) * vls2 ^ 2.
Proof.
  intros H1 H2 Hlt. pose proof (Re_big _ _ _ _ H1) as R1. pose proof (c1_range _ _ _ _ H1) as Hc.
  destruct H1 as (Hv1 & HD & He & Hn). destruct H2 as (Hv2 & _).
  assert (Rlt12 : Re_of vls1 Dp nu < Re_of vls2 Dp nu).
  { unfold Re_of, Rdiv. apply Rmult_lt_compat_r; [apply Rinv_0_lt_compat; lra|]. apply Rmult_lt_compat_r; lra. }
  pose proof (lam_Re2_increasing (c1_of eps Dp) Hc (Re_of vls1 Dp nu) (Re_of vls2 Dp nu)) as M.
  assert (M' : lam (c1_of eps Dp) (Re_of vls1 Dp nu) * Re_of vls1 Dp nu ^ 2 < lam (c1_of eps Dp) (Re_of vls2 Dp nu) * Re_of vls2 Dp nu ^ 2) by (apply M; lra).
  assert (E : forall v, lam (c1_of eps Dp) (Re_of v Dp nu) * v ^ 2 = lam (c1_of eps Dp) (Re_of v Dp nu) * Re_of v Dp nu ^ 2 * (nu / Dp) ^ 2).
  { intro v. unfold Re_of. field. lra. }
  rewrite (E vls1), (E vls2). apply Rmult_lt_compat_r; [|exact M']. apply pow_lt. apply Rdiv_lt_0_compat; lra.
Qed.

Theorem he_decreasing_vls (sf sq : bool) vls1 vls2 Dp d eps nu rhol rhos Cvs :
  liqE vls1 Dp eps nu -> liqE vls2 Dp eps nu -> vls1 < vls2 -> 0 < d -> 0 < rhol < rhos ->
  Heterogeneous.Erhg RN vls2 Dp d eps nu rhol rhos Cvs sf sq < Heterogeneous.Erhg RN vls1 Dp d eps nu rhol rhos Cvs sf sq.
Proof.
  intros H1 H2 Hlt Hd Hr.
  pose proof (lam_v2_increasing _ _ _ _ _ H1 H2 Hlt) as LV.
  pose proof (c1_range _ _ _ _ H1) as Hc. pose proof (Re_big _ _ _ _ H1) as R1. pose proof (Re_big _ _ _ _ H2) as R2.
  pose proof (lam_pos (c1_of eps Dp) Hc (Re_of vls1 Dp nu)) as P1. pose proof (lam_pos (c1_of eps Dp) Hc (Re_of vls2 Dp nu)) as P2.
  assert (P1' : 0 < lam (c1_of eps Dp) (Re_of vls1 Dp nu)) by (apply P1; lra).
  assert (P2' : 0 < lam (c1_of eps Dp) (Re_of vls2 Dp nu)) by (apply P2; lra).
  pose proof (lambda_eq _ _ _ _ H1) as L1. pose proof (lambda_eq _ _ _ _ H2) as L2.
  destruct H1 as (Hv1 & HD & He & Hn). destruct H2 as (Hv2 & _).
  assert (Hnu : 0 < nu) by lra.
  pose proof (ShrA_pos d nu rhol rhos Cvs Hd Hnu Hr) as A. pose proof (SrsB_pos d nu rhol rhos sq) as B.
  assert (V1 : 0 < vls1 ^ 2) by (apply pow_lt; lra). assert (V2 : 0 < vls2 ^ 2) by (apply pow_lt; lra).
  assert (S : Heterogeneous.Shr RN vls2 Dp d eps nu rhol rhos Cvs + Heterogeneous.Srs RN vls2 Dp d eps nu rhol rhos sq <
              Heterogeneous.Shr RN vls1 Dp d eps nu rhol rhos Cvs + Heterogeneous.Srs RN vls1 Dp d eps nu rhol rhos sq).
  { rewrite !Shr_formula. rewrite !Srs_formula by (rewrite ?L1, ?L2; lra). rewrite L1, L2.
    apply Rplus_lt_compat.
    - unfold Rdiv. apply Rmult_lt_compat_l; [exact A|]. apply Rinv_lt_contravar; [apply Rmult_lt_0_compat; lra|lra].
    - unfold Rdiv. apply Rmult_lt_compat_l; [exact B|]. apply Rinv_lt_contravar; [|exact LV].
      apply Rmult_lt_0_compat; apply Rmult_lt_0_compat; assumption. }
  unfold Heterogeneous.Erhg. cbv zeta. toR.
  set (f := d / (Constants.particle_ratio RN * Dp)).
  destruct (negb sf || Rltb f 1)%bool eqn:C; [exact S|].
  apply Bool.orb_false_iff in C. destruct C as (_ & C). apply Rltb_false in C.
  unfold Rdiv. apply Rmult_lt_compat_r; [apply Rinv_0_lt_compat; lra|]. lra.
Qed.

(* ---------- thresholds without jumps ---------- *)
(* sliding-flow onset f = 1, as written in both the homogeneous and the heterogeneous model *)
Lemma sf_blend_continuous X f mu : f = 1 -> (X + (f - 1) * mu) / f = X.
Proof. intros ->. field. Qed.

Lemma he_no_jump_at_sf_onset vls Dp d eps nu rhol rhos Cvs sq : d / (Constants.particle_ratio RN * Dp) = 1 ->
  Heterogeneous.Erhg RN vls Dp d eps nu rhol rhos Cvs true sq = Heterogeneous.Erhg RN vls Dp d eps nu rhol rhos Cvs false sq.
Proof.
  intro F. unfold Heterogeneous.Erhg. cbv zeta. toR. rewrite F. cbn [negb orb].
  replace (Rltb 1 1) with false by (symmetry; apply Rltb_false; lra). apply sf_blend_continuous. reflexivity.
Qed.

(* the two breakpoints of sqrtcx: at gibert = 1.8 and at gibert = wilson both branches agree *)
Lemma sqrtcx_break_small g : g = 18 / 10 -> 18 / 10 * Rpower (g / (18 / 10)) (75 / 100) = g.
Proof. intros ->. replace (18 / 10 / (18 / 10)) with 1 by field. unfold Rpower. rewrite ln_1, Rmult_0_r, exp_0. lra. Qed.

Lemma sqrtcx_break_wilson g w : g = w -> g * (6 / 10) + w * (1 - 6 / 10) = g.
Proof. intros ->. lra. Qed.

(* ---------- the regime selection is 1-Lipschitz in its four inputs ---------- *)
Definition select (FB SB He Ho : R) : R := Rmax (Rmin (Rmin FB SB) He) Ho.

Lemma Rabs_le_inv' x e : Rabs x <= e -> - e <= x <= e.
Proof. unfold Rabs. destruct (Rcase_abs x); intro; lra. Qed.

Lemma Rmin_lip a b a' b' e : Rabs (a - a') <= e -> Rabs (b - b') <= e -> Rabs (Rmin a b - Rmin a' b') <= e.
Proof.
  intros H1 H2. apply Rabs_le. apply Rabs_le_inv' in H1. apply Rabs_le_inv' in H2. unfold Rmin.
  destruct (Rle_dec a b), (Rle_dec a' b'); lra.
Qed.

Lemma Rmax_lip a b a' b' e : Rabs (a - a') <= e -> Rabs (b - b') <= e -> Rabs (Rmax a b - Rmax a' b') <= e.
Proof.
  intros H1 H2. apply Rabs_le. apply Rabs_le_inv' in H1. apply Rabs_le_inv' in H2. unfold Rmax.
  destruct (Rle_dec a b), (Rle_dec a' b'); lra.
Qed.

Theorem select_lipschitz a b c d a' b' c' d' e :
  Rabs (a - a') <= e -> Rabs (b - b') <= e -> Rabs (c - c') <= e -> Rabs (d - d') <= e ->
  Rabs (select a b c d - select a' b' c' d') <= e.
Proof. intros. unfold select. apply Rmax_lip; [apply Rmin_lip; [apply Rmin_lip|]|]; assumption. Qed.
