(* Proofs for C01: the reported regime and gradient follow the selection law
   max(min(FB, SB, He), Ho).  Stated over R for all inputs, hence all 75 weak orderings. *)
From Coq Require Import Reals Lra String.
From DHV Require Import NumOps RInst.
From DHV Require Homogeneous Heterogeneous Stratified Framework.
Import Framework.
Local Open Scope R_scope.

Definition sel6 (r : Erhg6 R) (g : regime) : R :=
  match g with R_FB => Erhg6_FB r | R_SB => Erhg6_SB r | R_He => Erhg6_He r | R_Ho => Erhg6_Ho r end.

Definition regime_name (g : regime) : string :=
  match g with R_FB => "fixed bed" | R_SB => "sliding bed" | R_He => "heterogeneous" | R_Ho => "homogeneous" end%string.

Definition regime_code (g : regime) : string :=
  match g with R_FB => "FB" | R_SB => "SB" | R_He => "He" | R_Ho => "Ho" end%string.

Section S.
Variables (sf sq : bool) (vls Dp d eps nu rhol rhos Cvs : R).
Let r := Cvs_Erhg_dict RN sf sq vls Dp d eps nu rhol rhos Cvs.

Lemma components :
  Erhg6_il r = Homogeneous.fluid_head_loss RN vls Dp eps nu rhol /\
  Erhg6_FB r = Stratified.fb_Erhg RN vls Dp d eps nu rhol rhos Cvs /\
  Erhg6_SB r = Stratified.Erhg RN vls Dp d eps nu rhol rhos Cvs /\
  Erhg6_He r = Heterogeneous.Erhg RN vls Dp d eps nu rhol rhos Cvs sf sq /\
  Erhg6_Ho r = Homogeneous.Erhg RN vls Dp d eps nu rhol rhos Cvs true.
Proof. repeat split; reflexivity. Qed.

Ltac cases :=
  unfold Rltb;
  repeat (match goal with |- context [Rlt_dec ?x ?y] => is_var x; is_var y; destruct (Rlt_dec x y); cbv beta iota end);
  unfold Rmax, Rmin;
  repeat (match goal with |- context [Rle_dec ?x ?y] => is_var x; is_var y; destruct (Rle_dec x y); cbv beta iota end);
  try reflexivity; try lra.

Lemma value :
  Cvs_Erhg RN sf sq vls Dp d eps nu rhol rhos Cvs =
  Rmax (Rmin (Rmin (Erhg6_FB r) (Erhg6_SB r)) (Erhg6_He r)) (Erhg6_Ho r).
Proof.
  subst r. unfold Cvs_Erhg, Cvs_Erhg_dict. cbv zeta. cbn [Erhg6_FB Erhg6_SB Erhg6_He Erhg6_Ho mkErhg6].
  set (a := Stratified.fb_Erhg _ _ _ _ _ _ _ _ _).
  set (b := Stratified.Erhg _ _ _ _ _ _ _ _ _).
  set (c := Heterogeneous.Erhg _ _ _ _ _ _ _ _ _ _ _).
  set (e := Homogeneous.Erhg _ _ _ _ _ _ _ _ _ _).
  toR. cases.
Qed.

Lemma attains :
  sel6 r (Erhg6_regime r) = Cvs_Erhg RN sf sq vls Dp d eps nu rhol rhos Cvs.
Proof.
  subst r. unfold sel6, Cvs_Erhg, Cvs_Erhg_dict. cbv zeta.
  cbn [Erhg6_FB Erhg6_SB Erhg6_He Erhg6_Ho Erhg6_regime mkErhg6]. reflexivity.
Qed.

Lemma name :
  Cvs_regime RN sf sq vls Dp d eps nu rhol rhos Cvs = regime_name (Erhg6_regime r).
Proof.
  subst r. unfold Cvs_regime, regime_name. cbv zeta.
  destruct (Erhg6_regime _); reflexivity.
Qed.
End S.

Lemma names_distinct : forall g h, regime_name g = regime_name h -> g = h.
Proof. intros [] []; simpl; intro H; try reflexivity; discriminate H. Qed.
