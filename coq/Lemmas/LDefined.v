(* C02: the homogeneous and the heterogeneous model are defined on the envelope (their generated side-condition
   predicates hold): no division by zero, every logarithm / fractional power has a positive argument. *)
From Coq Require Import Reals Lra.
From DHV Require Import NumOps RInst SwameeJain LIl LSettle.
From DHV Require Constants Homogeneous HomogeneousOk Heterogeneous HeterogeneousOk.
Local Open Scope R_scope.

(* the solids side of the envelope *)
Definition solE (Dp d rhol rhos Cvs : R) : Prop :=
  0 < d <= Dp / 4 /\ 99 / 100 <= rhol <= 103 / 100 /\ 2 <= rhos <= 4 /\ 0 < Cvs <= 58 / 100.

Lemma sj_ok vls Dp eps nu : liqE vls Dp eps nu ->
  HomogeneousOk.swamee_jain_ff_ok (Homogeneous.pipe_reynolds_number RN vls Dp nu) Dp eps.
Proof.
  intro H. pose proof (il_ok vls Dp eps nu 1 H) as (_ & K). cbv zeta in K. exact (proj1 K).
Qed.

Lemma lambda_pos vls Dp eps nu : liqE vls Dp eps nu ->
  0 < Homogeneous.swamee_jain_ff RN (Homogeneous.pipe_reynolds_number RN vls Dp nu) Dp eps.
Proof.
  intro H. pose proof (Re_big _ _ _ _ H). pose proof (c1_range _ _ _ _ H) as Hc. rewrite Re_of_eq, sj_turbulent by lra.
  apply (lam_pos (c1_of eps Dp) Hc). lra.
Qed.

Lemma Rpower_pos x y : 0 < Rpower x y.
Proof. unfold Rpower. apply exp_pos. Qed.

Lemma ho_ok vls Dp d eps nu rhol rhos Cvs sf : liqE vls Dp eps nu -> solE Dp d rhol rhos Cvs ->
  HomogeneousOk.Erhg_ok vls Dp d eps nu rhol rhos Cvs sf.
Proof.
  intros HL (Hd & Hrl & Hrs & HC). pose proof (lambda_pos _ _ _ _ HL) as LP. pose proof (sj_ok _ _ _ _ HL) as SJ.
  pose proof (il_ok vls Dp eps nu rhol HL) as IL. destruct HL as (Hv & HD & He & Hn).
  unfold HomogeneousOk.Erhg_ok, HomogeneousOk.pipe_reynolds_number_ok. split; [lra|]. cbv zeta. split; [exact SJ|].
  set (lam1 := Homogeneous.swamee_jain_ff RN (Homogeneous.pipe_reynolds_number RN vls Dp nu) Dp eps) in *.
  unfold Homogeneous.kvK, Homogeneous.Acv, Constants.particle_ratio. toR.
  assert (L8 : 0 < lam1 / 8) by (apply Rdiv_lt_0_compat; lra).
  assert (P : 0 < Rpower (lam1 / 8) (5 / 10)) by apply Rpower_pos.
  assert (RM : 1 <= (rhol + Cvs * (rhos - rhol)) / rhol).
  { apply (Rmult_le_reg_r rhol); [lra|]. replace ((rhol + Cvs * (rhos - rhol)) / rhol * rhol) with (rhol + Cvs * (rhos - rhol)) by (field; lra). nra. }
  assert (LN : 0 <= ln ((rhol + Cvs * (rhos - rhol)) / rhol)).
  { rewrite <- ln_1. destruct RM as [RM|RM]; [left; apply ln_increasing; lra|rewrite <- RM; lra]. }
  set (inner := 30 / 10 / (4 / 10) * ln ((rhol + Cvs * (rhos - rhol)) / rhol) * Rpower (lam1 / 8) (5 / 10) + 1).
  assert (IN : 1 <= inner).
  { unfold inner. assert (0 <= 30 / 10 / (4 / 10) * ln ((rhol + Cvs * (rhos - rhol)) / rhol) * Rpower (lam1 / 8) (5 / 10)).
    { apply Rmult_le_pos; [apply Rmult_le_pos; [lra|exact LN]|lra]. } lra. }
  assert (SB : 0 < inner ^ 2) by (apply pow_lt; lra).
  assert (RS : 0 < (rhos - rhol) / rhol) by (apply Rdiv_lt_0_compat; lra).
  assert (BT : (rhos - rhol) / rhol * Cvs * inner ^ 2 <> 0).
  { apply Rgt_not_eq. apply Rmult_lt_0_compat; [apply Rmult_lt_0_compat; lra|exact SB]. }
  split; [lra|]. split.
  - split; [split; [lra|exact L8]|]. apply Rgt_not_eq. apply Rmult_lt_0_compat; [apply Rmult_lt_0_compat; lra|lra].
  - split; [split; [split; [lra|split; [lra|lra]]|split; [lra|exact L8]]|].
    split; [exact IL|]. split; [lra|].
    destruct (negb sf || Rltb (d / (15 / 1000 * Dp)) 1)%bool; [exact BT|]. split; [exact BT|].
    apply Rgt_not_eq. apply Rdiv_lt_0_compat; lra.
Qed.

(* sqrtcx is positive: every branch is a positive combination *)
Lemma sqrtcx_pos vt d : 0 < Heterogeneous.sqrtcx RN vt d.
Proof.
  unfold Heterogeneous.sqrtcx. cbv zeta. toR.
  set (g0 := 1 / Rpower (vt / Rpower (Constants.gravity RN * d) (5 / 10)) (10 / 9)).
  assert (G0 : 0 < g0) by (unfold g0; apply Rdiv_lt_0_compat; [lra|apply Rpower_pos]).
  set (w := 226 / 1000 * Rpower (Constants.gravity RN / d) (1667 / 10000)).
  assert (W : 0 < w) by (unfold w; apply Rmult_lt_0_compat; [lra|apply Rpower_pos]).
  set (g1 := if Rltb (18 / 10) g0 then 18 / 10 * Rpower (g0 / (18 / 10)) (75 / 100) else g0).
  assert (G1 : 0 < g1) by (unfold g1; destruct (Rltb (18 / 10) g0); [apply Rmult_lt_0_compat; [lra|apply Rpower_pos]|exact G0]).
  destruct (Rltb g1 w); [|exact G1]. nra.
Qed.

Lemma sqrtcx_ok vt d : 0 < vt -> 0 < d -> HeterogeneousOk.sqrtcx_ok vt d.
Proof.
  intros Hv Hd. unfold HeterogeneousOk.sqrtcx_ok. cbv zeta. unfold Constants.gravity. toR.
  assert (GD : 0 < 980665 / 100000 * d) by (apply Rmult_lt_0_compat; lra).
  assert (P : 0 < Rpower (980665 / 100000 * d) (5 / 10)) by apply Rpower_pos.
  assert (F : 0 < vt / Rpower (980665 / 100000 * d) (5 / 10)) by (apply Rdiv_lt_0_compat; assumption).
  assert (P2 : 0 < Rpower (vt / Rpower (980665 / 100000 * d) (5 / 10)) (10 / 9)) by apply Rpower_pos.
  split; [split; [exact GD|lra]|]. split; [split; [lra|apply Rdiv_lt_0_compat; lra]|].
  split; [split; [split; [lra|exact F]|lra]|].
  destruct (Rltb (18 / 10) (1 / Rpower (vt / Rpower (980665 / 100000 * d) (5 / 10)) (10 / 9))); [|exact I].
  split; [lra|]. apply Rdiv_lt_0_compat; [apply Rdiv_lt_0_compat; lra|lra].
Qed.

Lemma Srs_ok vls Dp d eps nu rhol rhos sq : liqE vls Dp eps nu -> 0 < d -> 0 < rhol < rhos ->
  HeterogeneousOk.Srs_ok vls Dp d eps nu rhol rhos sq.
Proof.
  intros HL Hd Hr. pose proof (lambda_pos _ _ _ _ HL) as LP. pose proof (sj_ok _ _ _ _ HL) as SJ. destruct HL as (Hv & HD & He & Hn).
  set (Rsd := (rhos - rhol) / rhol). assert (HR : 0 < Rsd) by (unfold Rsd; apply Rdiv_lt_0_compat; lra).
  assert (Hnu : 0 < nu) by lra. pose proof (vt_pos d Rsd nu (26 / 100) Hd HR Hnu) as VT.
  unfold HeterogeneousOk.Srs_ok. split; [lra|]. cbv zeta. toR. fold Rsd.
  split; [apply vt_ok; assumption|]. split; [unfold HomogeneousOk.pipe_reynolds_number_ok; lra|]. split; [exact SJ|].
  set (lam1 := Homogeneous.swamee_jain_ff RN (Homogeneous.pipe_reynolds_number RN vls Dp nu) Dp eps) in *.
  unfold Constants.gravity. toR.
  assert (GD : 0 < 980665 / 100000 * d) by (apply Rmult_lt_0_compat; lra).
  assert (P : 0 < Rpower (980665 / 100000 * d) (5 / 10)) by apply Rpower_pos.
  assert (NG : 0 < nu * (980665 / 100000)) by (apply Rmult_lt_0_compat; lra).
  destruct (negb sq).
  - split; [split; [lra|]|split; [split; [lra|exact NG]|lra]].
    split; [split; [exact GD|lra]|]. split; [lra|]. apply Rdiv_lt_0_compat; assumption.
  - pose proof (sqrtcx_pos (Heterogeneous.vt_ruby RN d Rsd nu (26 / 100)) d) as SP.
    split; [split; [lra|]|split; [split; [lra|exact NG]|lra]].
    split; [split; [apply sqrtcx_ok; assumption|lra]|]. apply Rdiv_lt_0_compat; lra.
Qed.

Lemma he_ok vls Dp d eps nu rhol rhos Cvs sf sq : liqE vls Dp eps nu -> solE Dp d rhol rhos Cvs ->
  HeterogeneousOk.Erhg_ok vls Dp d eps nu rhol rhos Cvs sf sq.
Proof.
  intros HL (Hd & Hrl & Hrs & HC). pose proof HL as (Hv & HD & He & Hn).
  unfold HeterogeneousOk.Erhg_ok. split; [split|].
  - apply Shr_ok; lra.
  - apply Srs_ok; [exact HL|lra|lra].
  - cbv zeta. unfold Constants.particle_ratio. toR. split; [lra|].
    destruct (negb sf || Rltb (d / (15 / 1000 * Dp)) 1)%bool; [exact I|]. apply Rgt_not_eq. apply Rdiv_lt_0_compat; lra.
Qed.
