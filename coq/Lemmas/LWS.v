(* C20: the Wilson stratified excess gradient does not rise with line speed (on the liquid side of the envelope).
   Erhg = (musf/0.4) (0.55 Vsm_f(lambda(V)) / V)^0.25; Vsm_f is Vsmx(lambda) times a factor that does not depend on V, and
   Vsmx(lambda) = min((0.018/lambda)^0.13 G, c) grows at most like V^0.26 because lambda(V1)/lambda(V2) < (V2/V1)^2. *)
From Coq Require Import Reals Lra.
From DHV Require Import NumOps RInst SwameeJain LIl LHe LC20.
From DHV Require Constants Homogeneous WilsonStratified.
Import WilsonStratified.
Local Open Scope R_scope.

Lemma Rpower_mono_base a b c : 0 < a <= b -> 0 <= c -> Rpower a c <= Rpower b c.
Proof.
  intros (Ha & Hab) Hc. destruct Hab as [Hab| ->]; [|lra]. destruct Hc as [Hc| <-].
  - left. apply Rlt_Rpower_l; lra.
  - unfold Rpower. rewrite !Rmult_0_l. lra.
Qed.

Lemma Rpower_le_self r c : 1 <= r -> 0 <= c <= 1 -> Rpower r c <= r.
Proof.
  intros Hr Hc. rewrite <- (Rpower_1 r) at 2 by lra. destruct Hr as [Hr| <-].
  - apply Rle_Rpower; lra.
  - unfold Rpower. rewrite ln_1, !Rmult_0_r. lra.
Qed.

(* Vs_shape is linear in Vsmx *)
Definition Kshape (Cvrmx Cvr : R) : R := Vs_shape 1 Cvrmx Cvr.
Lemma Vs_shape_linear Vsmx Cvrmx Cvr : Vs_shape Vsmx Cvrmx Cvr = Vsmx * Kshape Cvrmx Cvr.
Proof. unfold Kshape, Vs_shape. destruct (Rleb Cvrmx (33 / 100)); ring. Qed.

Lemma Vsm_f_factor Dp d rhol rhos musf Cv Cvb f : 0 < Cvb -> 0 < Cv < Cvb ->
  Vsm_f RN Dp d rhol rhos musf Cv Cvb f =
  Vsm_max_f RN Dp d rhol rhos musf f * Rmin (Kshape (Cvr_max RN Dp d rhol rhos) (Cv / Cvb)) 1.
Proof.
  intros Hb Hc. rewrite Vsm_f_shape, Vs_shape_linear. pose proof (Vsm_max_f_pos Dp d rhol rhos musf f) as P.
  set (V := Vsm_max_f RN Dp d rhol rhos musf f) in *. set (K := Kshape _ _).
  unfold Rmin. destruct (Rle_dec (V * K) V), (Rle_dec K 1); try ring; exfalso; nra.
Qed.

Theorem ws_Erhg_nonincreasing V1 V2 Dp d eps nu rhol rhos musf Cvt Cvb :
  liqE V1 Dp eps nu -> liqE V2 Dp eps nu -> V1 <= V2 -> 0 < musf -> 0 < Cvt < 6 / 10 ->
  Erhg RN V2 Dp d eps nu rhol rhos musf Cvt Cvb <= Erhg RN V1 Dp d eps nu rhol rhos musf Cvt Cvb.
Proof.
  intros H1 H2 HV Hm Hc. destruct HV as [HV| ->]; [|lra].
  pose proof (Re_big _ _ _ _ H1) as R1. pose proof (Re_big _ _ _ _ H2) as R2. pose proof (c1_range _ _ _ _ H1) as Hc1.
  unfold Erhg. cbv zeta. rewrite (lambda_eq _ _ _ _ H1), (lambda_eq _ _ _ _ H2).
  set (l1 := lam (c1_of eps Dp) (Re_of V1 Dp nu)). set (l2 := lam (c1_of eps Dp) (Re_of V2 Dp nu)).
  assert (L1 : 0 < l1) by (apply lam_pos; [exact Hc1|lra]). assert (L2 : 0 < l2) by (apply lam_pos; [exact Hc1|lra]).
  destruct H1 as (Hv1 & HD & He & Hn). destruct H2 as (Hv2 & _).
  assert (RR : Re_of V1 Dp nu < Re_of V2 Dp nu).
  { unfold Re_of, Rdiv. apply Rmult_lt_compat_r; [apply Rinv_0_lt_compat; lra|]. apply Rmult_lt_compat_r; lra. }
  assert (LR : l1 / l2 < (V2 / V1) ^ 2).
  { replace (V2 / V1) with (Re_of V2 Dp nu / Re_of V1 Dp nu) by (unfold Re_of; field; lra). apply lam_ratio; [exact Hc1|lra]. }
  toR. rewrite !Vsm_f_factor by lra.
  set (kap := Rmin (Kshape (Cvr_max RN Dp d rhol rhos) (Cvt / (6 / 10))) 1).
  (* the result does not depend on Cvb: the model passes the literal 0.6 *)
  set (X1 := Vsm_max_f RN Dp d rhol rhos musf l1). set (X2 := Vsm_max_f RN Dp d rhol rhos musf l2).
  assert (Q : X2 / V2 <= X1 / V1).
  { unfold X1, X2, Vsm_max_f. cbv zeta. toR.
    replace (negb (Reqb l1 0)) with true by (symmetry; apply Bool.negb_true_iff; apply Bool.not_true_is_false; rewrite Reqb_true; lra).
    replace (negb (Reqb l2 0)) with true by (symmetry; apply Bool.negb_true_iff; apply Bool.not_true_is_false; rewrite Reqb_true; lra).
    set (c := 88 / 10 * Rpower (musf * ((rhos - rhol) / rhol) / (66 / 100)) (55 / 100) * Rpower Dp (7 / 10) * Rpower (d * (1000 / 1)) (175 / 100) / ((d * (1000 / 1)) ^ 2 + 11 / 100 * Rpower Dp (7 / 10))). set (G := Rpower (2 * Constants.gravity RN * Dp * (rhos - rhol)) (5 / 10)).
    assert (GP : 0 < G) by apply Rpower_pos.
    assert (CP : 0 < c).
    { pose proof (Vsm_max_pos Dp d rhol rhos musf) as P. unfold Vsm_max in P. cbv zeta in P. toR_in P. exact P. }
    set (a1 := Rpower (18 / 1000 / l1) (13 / 100) * G). set (a2 := Rpower (18 / 1000 / l2) (13 / 100) * G).
    assert (A1 : 0 < a1) by (apply Rmult_lt_0_compat; [apply Rpower_pos|exact GP]).
    assert (A21 : a2 / V2 <= a1 / V1).
    { (* a2 <= a1 * (V2/V1) *)
      assert (E : Rpower (18 / 1000 / l2) (13 / 100) = Rpower (18 / 1000 / l1) (13 / 100) * Rpower (l1 / l2) (13 / 100)).
      { rewrite Rpower_mult_distr by (apply Rdiv_lt_0_compat; lra). f_equal. field. lra. }
      assert (P : Rpower (l1 / l2) (13 / 100) <= V2 / V1).
      { assert (r1 : 1 <= V2 / V1). { apply (Rmult_le_reg_r V1); [lra|]. replace (V2 / V1 * V1) with V2 by (field; lra). lra. }
        apply Rle_trans with (Rpower ((V2 / V1) ^ 2) (13 / 100)).
        - apply Rpower_mono_base; [split; [apply Rdiv_lt_0_compat; lra|lra]|lra].
        - replace ((V2 / V1) ^ 2) with (Rpower (V2 / V1) 2) by (rewrite <- (Rpower_pow 2) by lra; reflexivity).
          rewrite Rpower_mult. apply Rpower_le_self; lra. }
      unfold a2. rewrite E. apply (Rmult_le_reg_r V2); [lra|].
      replace (Rpower (18 / 1000 / l1) (13 / 100) * Rpower (l1 / l2) (13 / 100) * G / V2 * V2)
        with (a1 * Rpower (l1 / l2) (13 / 100)) by (unfold a1; field; lra).
      replace (a1 / V1 * V2) with (a1 * (V2 / V1)) by (field; lra).
      apply Rmult_le_compat_l; lra. }
    assert (C21 : c / V2 <= c / V1).
    { unfold Rdiv. apply Rmult_le_compat_l; [lra|]. apply Rinv_le_contravar; lra. }
    assert (IV1 : 0 < / V1) by (apply Rinv_0_lt_compat; lra). assert (IV2 : 0 < / V2) by (apply Rinv_0_lt_compat; lra).
    unfold Rmin. destruct (Rle_dec a2 c), (Rle_dec a1 c); unfold Rdiv in *; nra. }
  assert (KP : 0 <= kap).
  { unfold kap. apply Rmin_glb; [|lra]. unfold Kshape. apply Vs_shape_nonneg; [lra|apply Cvr_max_bounds|].
    split; [apply Rdiv_lt_0_compat; lra|]. apply (Rmult_lt_reg_r (6 / 10)); [lra|]. replace (Cvt / (6 / 10) * (6 / 10)) with Cvt by field. lra. }
  assert (XP1 : 0 < X1) by apply Vsm_max_f_pos. assert (XP2 : 0 < X2) by apply Vsm_max_f_pos.
  assert (M4 : 0 < musf / (4 / 10)) by (apply Rdiv_lt_0_compat; lra).
  apply Rmult_le_compat_l; [lra|].
  destruct KP as [KP|KP].
  - apply Rpower_mono_base; [|lra]. split.
    + apply Rdiv_lt_0_compat; [|lra]. apply Rmult_lt_0_compat; [lra|]. apply Rmult_lt_0_compat; assumption.
    + replace (55 / 100 * (X2 * kap) / V2) with (55 / 100 * kap * (X2 / V2)) by (field; lra).
      replace (55 / 100 * (X1 * kap) / V1) with (55 / 100 * kap * (X1 / V1)) by (field; lra).
      apply Rmult_le_compat_l; [apply Rmult_le_pos; lra|exact Q].
  - rewrite <- KP. replace (55 / 100 * (X2 * 0) / V2) with 0 by (field; lra). replace (55 / 100 * (X1 * 0) / V1) with 0 by (field; lra). lra.
Qed.
