(* Proofs for C11: pump points obey the affinity laws and the driver / set-speed limits. *)
From Coq Require Import Reals List Bool Lra.
From DHV Require Import NumOps RInst Interp Pump.
Import ListNotations.
Local Open Scope R_scope.

Notation pmp := (pump (T:=R)).

Definition s_of (p : pmp) (n : R) : R := n / design_speed p.
Definition t_of (p : pmp) : R := current_impeller p / design_impeller p.

(* head and power as the affinity-law scalings of the design curves at speed n and the pumped density *)
Definition H_aff (p : pmp) (Q n : R) (w : bool) : R :=
  qh RN p (Q / (s_of p n * t_of p ^ 2)) * s_of p n ^ 2 * t_of p ^ 2 * rho p w.
Definition P_aff (p : pmp) (Q n : R) (w : bool) : R :=
  qp RN p (Q / (s_of p n * t_of p ^ 2)) * s_of p n ^ 3 * t_of p ^ 5 * rho p w.

Lemma power_required_affinity p Q n w : n <> 0 -> power_required RN p Q n w = P_aff p Q n w.
Proof.
  intro H. unfold power_required, P_aff, s_of, t_of. toR. unfold Reqb.
  destruct (Req_EM_T n (IZR 0)) as [E|_]; [contradiction|]. reflexivity.
Qed.
Lemma power_required_zero p Q w : power_required RN p Q 0 w = 0.
Proof. unfold power_required. toR. unfold Reqb. destruct (Req_EM_T 0 (IZR 0)) as [_|E]; [reflexivity|contradiction]. Qed.

(* every outcome of point: the requested flow, the affinity head at the returned speed, the required power at the
   returned speed *)
Lemma point_affinity fuel root p Q w Q' H P n :
  point RN fuel root p Q w = Some (Q', H, P, n) ->
  Q' = Q /\ H = H_aff p Q n w /\ P = power_required RN p Q n w.
Proof.
  unfold point. cbv zeta.
  destruct (match limited p with LNone => true | _ => nleb RN (power_required RN p Q (current_speed p) w) (power_available RN p (current_speed p)) end).
  - intro E. injection E as <- <- <- <-. repeat split; reflexivity.
  - destruct (match limited p with
              | LTorque => find_torque_limited_speed RN fuel p Q w
              | LPower => find_power_limited_speed RN fuel p Q w
              | _ => Some (find_curve_limited_speed RN root p Q w) end) as [n'|]; [|discriminate].
    intro E. injection E as <- <- <- <-. repeat split; reflexivity.
Qed.

(* not driver-limited: limit mode none, or the driver can supply the required power at the set speed *)
Lemma point_unlimited fuel root p Q w :
  limited p = LNone \/ power_required RN p Q (current_speed p) w <= power_available RN p (current_speed p) ->
  exists H P, point RN fuel root p Q w = Some (Q, H, P, current_speed p).
Proof.
  intro C. unfold point. cbv zeta.
  assert (E : (match limited p with LNone => true | _ => nleb RN (power_required RN p Q (current_speed p) w) (power_available RN p (current_speed p)) end) = true).
  { destruct C as [-> | C]; [reflexivity|]. destruct (limited p); try reflexivity; toR; apply Rleb_true; exact C. }
  rewrite E. eauto.
Qed.

(* the damped iterations (torque / constant power): when they return through the loop test the required and
   available power agree within 0.1 kW at the returned speed; the only other exit is the assertion n > 1/60 *)
Definition PA (p : pmp) (torque : bool) (n : R) : R := if torque then power_available RN p n else avail_power p.

Lemma damped_exit : forall fuel p Q w tq n P Pa r,
  damped RN fuel p Q w tq n P Pa = Some r ->
  P = power_required RN p Q n w -> Pa = PA p tq n ->
  within RN (PA p tq r - power_required RN p Q r w) = true \/ r = nfail RN 5.
Proof.
  induction fuel as [|fuel IH]; intros p Q w tq n P Pa r H EP EPa; [discriminate H|].
  cbn [damped] in H. toR_in H.
  destruct (within RN (Pa - P)) eqn:W.
  - injection H as <-. left. rewrite <- EPa, <- EP. exact W.
  - cbv zeta in H. destruct (Rltb (1 / 60) (n * Rpower (Pa / P) (5 / 10))) eqn:A.
    + eapply IH; [exact H|reflexivity|]. unfold PA. destruct tq; [reflexivity|]. rewrite EPa. reflexivity.
    + injection H as <-. right. reflexivity.
Qed.

Lemma torque_exit fuel p Q w r : find_torque_limited_speed RN fuel p Q w = Some r ->
  r = current_speed p \/ within RN (power_available RN p r - power_required RN p Q r w) = true \/ r = nfail RN 5.
Proof.
  unfold find_torque_limited_speed. cbv zeta. destruct (nleb RN _ _); intro H; [injection H as <-; left; reflexivity|].
  right. exact (damped_exit fuel p Q w true _ _ _ r H eq_refl eq_refl).
Qed.
Lemma power_exit fuel p Q w r : find_power_limited_speed RN fuel p Q w = Some r ->
  r = current_speed p \/ within RN (avail_power p - power_required RN p Q r w) = true \/ r = nfail RN 5.
Proof.
  unfold find_power_limited_speed. cbv zeta. destruct (nleb RN _ _); intro H; [injection H as <-; left; reflexivity|].
  right. exact (damped_exit fuel p Q w false _ _ _ r H eq_refl eq_refl).
Qed.

Lemma within_spec x : within RN x = true <-> -(1 / 10) < x < 1 / 10.
Proof.
  unfold within. toR. rewrite andb_true_iff, !Rltb_true. reflexivity.
Qed.

(* curve mode: the result is the set speed, a driver speed below it (the driver's minimum when every speed is
   short of power), or the bracketing root finder's answer *)
Lemma scan_result p Q w : forall speeds n_high r o, scan RN p Q w n_high speeds = (r, o) ->
  (r = n_high \/ In r speeds).
Proof.
  induction speeds as [|s speeds IH]; intros n_high r o H; cbn [scan] in H.
  - injection H as <- _. left. reflexivity.
  - destruct (nltb RN _ _).
    + destruct (IH s r o H) as [E|I]; [right; left; symmetry; exact E|right; right; exact I].
    + injection H as <- _. left. reflexivity.
Qed.

Lemma curve_result root p Q w :
  let r := find_curve_limited_speed RN root p Q w in
  r = current_speed p \/ In r (candidate_speeds RN p) \/ r = root.
Proof.
  cbv zeta. unfold find_curve_limited_speed. cbv zeta.
  destruct (nleb RN _ _); [left; reflexivity|].
  destruct (candidate_speeds RN p) as [|n_low r] eqn:C; [left; reflexivity|].
  destruct (nltb RN _ _); [|right; right; reflexivity].
  destruct (scan RN p Q w n_low r) as [n_high [x|]] eqn:S; [right; right; reflexivity|].
  destruct (scan_result p Q w r n_low n_high None S) as [E|I]; right; left; [left; symmetry; exact E|right; exact I].
Qed.

Lemma candidates_below p s : In s (candidate_speeds RN p) -> s < current_speed p.
Proof.
  unfold candidate_speeds. intro H. apply filter_In in H. destruct H as [_ H]. toR_in H. apply Rltb_true. exact H.
Qed.

(* never above the set speed in curve mode, provided the root finder answers inside its bracket (below the set speed) *)
Lemma curve_not_above root p Q w : root <= current_speed p -> find_curve_limited_speed RN root p Q w <= current_speed p.
Proof.
  intro HR. destruct (curve_result root p Q w) as [E|[I|E]].
  - rewrite E. lra.
  - left. apply candidates_below. exact I.
  - rewrite E. exact HR.
Qed.
