from .._core import (ColumnDataSource, TextInput, Button, RadioButtonGroup, Spacer, Div, TabPanel, Tabs, Dropdown, Range1d,
                     Anything, Model)


class HoverTool(Model):
    pass


class LinearAxis(Model):
    pass


class NumeralTickFormatter(Model):
    pass
