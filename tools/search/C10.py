#!/venv/bin/python
"""C10 failing-input search on the real code: random pipelines with 1-3 example pumps under each driver-limit mode and
graded slurries.  When pump head >= system head at qimin, < at the largest tabulated flow and an independent bisection
finds a genuine crossing (both bracket ends within tolerance of zero), find_operating_point must return it (heads equal
1e-6, system crossing from below); below at qimin -> OperatingPointError; never another exception; qimin no higher
(0.1 %) than the system head at any tabulated flow."""
import math
import random
import warnings
from scommon import Search, seed
import pl_common as pc
from pl_common import pg, PipeObj

S = Search('C10', 'random pipelines as in C09 with 1-3 example pumps x {torque, power, None} x slurries D50 0.1-3 mm; lengths (20 m - 18 km) and lifts drawn so '
                  'that roughly half of the systems have an intersection and short torque-limited lines make the head gap jump through zero; distinct = distinct system')
rng = random.Random(seed())
warnings.simplefilter('ignore')
import json
import os
# regression corpus: the real systems on which find_operating_point / qimin failed before their repairs run first
CORPUS = json.load(open(os.path.join(os.path.dirname(os.path.abspath(__file__)), 'corpus_C10.json')))
for i in range(len(CORPUS) + S.budget):
    if i < len(CORPUS):
        where = {k: v for k, v in CORPUS[i].items() if k != 'note'}
        where['sections'] = [tuple(x) for x in where['sections']]
        secs, sp, mode = where['sections'], where['slurry'], where['mode']
    elif rng.random() < 0.35:
        # the pipelines of C09's quantifier proper: mixed diameters, zero-length interior sections, pumps anywhere
        secs = pg.gen_sections(rng)
        while not 1 <= sum(1 for x in secs if x[0] == 'U') <= 3:
            secs = pg.gen_sections(rng)
        sp = pc.random_slurry_params(rng)
        sp['D50'] = math.exp(rng.uniform(math.log(1.2e-4), math.log(3e-3)))
        mode = rng.choice(['torque', 'power', 'None'])
        where = {'sections': secs, 'slurry': sp, 'mode': mode, 'generator': 'C09'}
    else:
        npipes = rng.randint(2, 5)
        d = rng.choice([0.5, 0.6, 0.762, 0.8636])
        secs = [('P', d * rng.choice([1.0, 1.13]), 0.0, 0.5, -rng.uniform(3, 12))]
        npumps = rng.randint(1, 3)
        # short lines too: there a torque limit makes the head gap JUMP through zero (no genuine intersection)
        total = rng.choice([rng.uniform(20, 200), rng.uniform(200, 1500), rng.uniform(1000, 6000) * npumps])
        for k in range(npipes - 1):
            if k < npumps:
                secs.append(('U', k))
            secs.append(('P', d, total / (npipes - 1), rng.uniform(0, 1.5), rng.uniform(-2, 4)))
        sp = pc.random_slurry_params(rng)
        sp['D50'] = math.exp(rng.uniform(math.log(1.2e-4), math.log(3e-3)))
        mode = rng.choice(['torque', 'power', 'None'])
        where = {'sections': secs, 'slurry': sp, 'mode': mode}
    try:
        pl = pc.make_pipeline(rng, secs, sp, limited=mode, record=where)
        flow_list = [PipeObj.Pipe(diameter=pl.slurry.Dp).flow(v) for v in pl.slurry.vls_list]
        qimin = pl.qimin(flow_list)
    except Exception as e:
        S.count(None, 'setup-exception:' + type(e).__name__)
        continue

    def gap(q):
        hm, _, _, pm = pl.calc_system_head(q)
        return hm - pm
    try:
        g0 = gap(qimin)
        glast = gap(flow_list[-1])
        hmin = pl.calc_system_head(qimin)[0]
        tab = [pl.calc_system_head(q)[0] for q in flow_list[4::8]]
    except Exception as e:
        S.count(None, 'head-exception:' + type(e).__name__)
        continue
    if hmin > min(tab) + 1e-3 * abs(min(tab)):      # 0.1 % of the magnitude: heads of short lines with a submerged entrance are negative
        S.violation('C10:qimin', f'system head at the reported minimum-friction flow {hmin} exceeds the head {min(tab)} at a tabulated flow', input=where)
    try:
        q = pl.find_operating_point(flow_list)
        outcome = 'ok'
    except PipeObj.OperatingPointError:
        outcome = 'OperatingPointError'
    except Exception as e:
        S.violation('C10:foreign-exception', f'find_operating_point raised {type(e).__name__}: {e}', input=where)
        continue
    if g0 > 0:
        if outcome != 'OperatingPointError':
            S.violation('C10:infeasible', 'pump head below system head at qimin but no OperatingPointError', input=where)
        S.count(repr(where), f'{mode}:below-at-qimin')
        continue
    if outcome == 'ok':
        hm, _, _, pm = pl.calc_system_head(q)
        if abs(hm - pm) > 1e-6 * max(abs(hm), abs(pm)):
            S.violation('C10:not-a-root', f'returned flow {q}: system head {hm} != pump head {pm}', input=where)
    # premise of the main clause: sign change and a genuine crossing found by bisection
    if g0 <= 0 and glast > 0:
        lo, hi = qimin, flow_list[-1]
        for _ in range(60):
            mid = (lo + hi) / 2
            if gap(mid) <= 0:
                lo = mid
            else:
                hi = mid
        scale = max(abs(pl.calc_system_head(lo)[0]), 1.0)
        meets = abs(gap(lo)) < 1e-6 * scale and abs(gap(hi)) < 1e-6 * scale
        if meets:
            if outcome != 'ok':
                S.violation('C10:missed-root', f'the curves meet at {lo} but OperatingPointError was raised', input=where)
            elif abs(q - lo) > 1e-5 * max(lo, 1e-9) and not (q > qimin and abs(gap(q)) < 1e-6 * scale and gap(q * 1.001) > gap(q * 0.999)):
                S.violation('C10:wrong-root', f'returned {q}, the stable intersection right of qimin is {lo}', input=where)
            S.count(repr(where), f'{mode}:meets:{outcome}')
        else:
            S.count(repr(where), f'{mode}:jump:{outcome}')
    else:
        S.count(repr(where), f'{mode}:no-sign-change:{outcome}')
    if i == 0:
        S.sample(where)
S.finish()
