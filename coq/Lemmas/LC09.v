(* Proofs for C09 / C14 on the pipeline model: the system head is the sum of its parts; splitting a section or
   permuting interior sections leaves it unchanged; the grade-line has the documented shape. *)
From Coq Require Import Reals List Bool Lra Permutation Arith Lia.
From DHV Require Import NumOps RInst Pipeline.
From DHV Require Constants.
Import ListNotations.
Local Open Scope R_scope.

Section P.
Variables (im il : R -> R -> R) (point : nat -> R -> bool -> R) (rhol rhom : R).

Notation sec := (section (T:=R)).
Notation csh := (calc_system_head RN im il point rhol rhom).

Definition vel (d Q : R) : R := velocity RN d Q.
Definition hv (d Q : R) : R := (vel d Q) ^ 2 / (2 * Constants.gravity RN).

Fixpoint sumf (f : sec -> R) (l : list sec) : R := match l with [] => 0 | s :: r => f s + sumf f r end.

Definition fric (grad : R -> R -> R) (Q : R) (s : sec) : R :=
  match s with Pipe d L _ _ => if Rltb 0 L then grad d (vel d Q) * L else 0 | PumpRef _ => 0 end.
Definition fit (rho Q : R) (s : sec) : R :=
  match s with Pipe d _ K _ => K * hv d Q * rho | PumpRef _ => 0 end.
Definition lift (rho : R) (s : sec) : R :=
  match s with Pipe _ L _ z => if Rltb 0 L then z * rho else 0 | PumpRef _ => 0 end.
Definition pumph (w : bool) (Q : R) (s : sec) : R :=
  match s with Pipe _ _ _ _ => 0 | PumpRef p => point p Q w end.
Definition entrance (secs : list sec) : R :=
  match secs with Pipe _ L _ z :: _ => if Reqb L 0 then z * rhol else 0 | _ => 0 end.
Fixpoint last_hv (Q : R) (secs : list sec) (cur : option R) : option R :=
  match secs with
  | [] => cur
  | Pipe d _ _ _ :: r => last_hv Q r (Some (hv d Q))
  | PumpRef _ :: r => last_hv Q r cur
  end.

Lemma sumf_app f l1 l2 : sumf f (l1 ++ l2) = sumf f l1 + sumf f l2.
Proof. induction l1 as [|s l1 IH]; cbn [app sumf]; [ring|rewrite IH; ring]. Qed.

Lemma sumf_perm f l1 l2 : Permutation l1 l2 -> sumf f l1 = sumf f l2.
Proof. induction 1; cbn [sumf]; lra. Qed.

(* the fold accumulates exactly the sums *)
Lemma fold_sums Q : forall secs a,
  fold_left (step RN im il point rhol rhom Q) secs a =
  mkAcc (Hfit_m a + sumf (fit rhom Q) secs) (Hfit_l a + sumf (fit rhol Q) secs)
        (Hfric_m a + sumf (fric im Q) secs) (Hfric_l a + sumf (fric il Q) secs)
        (Hz_m a + sumf (lift rhom) secs) (Hz_l a + sumf (lift rhol) secs)
        (Hp_l a + sumf (pumph true Q) secs) (Hp_m a + sumf (pumph false Q) secs)
        (last_hv Q secs (Hv a)).
Proof.
  induction secs as [|s secs IH]; intro a.
  - cbn [fold_left sumf last_hv]. destruct a; cbn. f_equal; ring.
  - cbn [fold_left]. rewrite IH. destruct s as [d L K z|p]; cbn [step sumf fit fric lift pumph last_hv].
    + unfold hv, vel. toR. change (Rltb (IZR 0) L) with (Rltb 0 L).
      destruct (Rltb 0 L); cbn [Hfit_m Hfit_l Hfric_m Hfric_l Hz_m Hz_l Hp_l Hp_m Hv]; f_equal; try ring; try reflexivity.
    + cbn [Hfit_m Hfit_l Hfric_m Hfric_l Hz_m Hz_l Hp_l Hp_m Hv]. toR. f_equal; try ring; try reflexivity.
Qed.

(* C09: the four heads as sums over the sections *)
Definition head_spec (grad : R -> R -> R) (rho : R) (secs : list sec) (Q : R) (exit_hv : R) : R :=
  sumf (fric grad Q) secs + sumf (fit rho Q) secs + (entrance secs + sumf (lift rho) secs) + exit_hv * rho.

Lemma system_head_sum secs Q h : last_hv Q secs None = Some h ->
  csh secs Q = (head_spec im rhom secs Q h, head_spec il rhol secs Q h, sumf (pumph true Q) secs, sumf (pumph false Q) secs).
Proof.
  intro Hl. unfold calc_system_head. cbv zeta. rewrite fold_sums.
  cbn [Hfit_m Hfit_l Hfric_m Hfric_l Hz_m Hz_l Hp_l Hp_m Hv].
  assert (E : Hz_m (initial RN rhol secs) = entrance secs /\ Hz_l (initial RN rhol secs) = entrance secs /\
              Hfit_m (initial RN rhol secs) = 0 /\ Hfit_l (initial RN rhol secs) = 0 /\
              Hfric_m (initial RN rhol secs) = 0 /\ Hfric_l (initial RN rhol secs) = 0 /\
              Hp_l (initial RN rhol secs) = 0 /\ Hp_m (initial RN rhol secs) = 0 /\ Hv (initial RN rhol secs) = None).
  { unfold initial, entrance. cbv zeta. cbn. toR. destruct secs as [|[d L K z|p] r]; cbn; repeat split; reflexivity. }
  destruct E as (E1 & E2 & E3 & E4 & E5 & E6 & E7 & E8 & E9).
  rewrite E1, E2, E3, E4, E5, E6, E7, E8, E9, Hl. unfold head_spec. toR. f_equal; [f_equal; [f_equal|]|]; ring.
Qed.

(* ---- splitting a positive-length section in two ---- *)
Lemma last_hv_app Q l1 l2 cur : last_hv Q (l1 ++ l2) cur = last_hv Q l2 (last_hv Q l1 cur).
Proof. revert cur; induction l1 as [|[d L K z|p] l1 IH]; intro cur; cbn [app last_hv]; auto. Qed.

Lemma split_invariant l1 l2 d L K z L1 K1 z1 L2 K2 z2 Q :
  0 < L1 -> 0 < L2 -> L1 + L2 = L -> K1 + K2 = K -> z1 + z2 = z ->
  csh (l1 ++ Pipe d L1 K1 z1 :: Pipe d L2 K2 z2 :: l2) Q = csh (l1 ++ Pipe d L K z :: l2) Q.
Proof.
  intros H1 H2 EL EK Ez.
  assert (HL : 0 < L) by lra.
  assert (exists h, last_hv Q (l1 ++ Pipe d L K z :: l2) None = Some h /\
                    last_hv Q (l1 ++ Pipe d L1 K1 z1 :: Pipe d L2 K2 z2 :: l2) None = Some h) as (h & A & B).
  { rewrite !last_hv_app. cbn [last_hv].
    assert (G : forall l c, exists h, last_hv Q l (Some c) = Some h).
    { induction l as [|[d' L' K' z'|p] l IH]; intro c; cbn [last_hv]; eauto. }
    destruct (G l2 (hv d Q)) as [h Hh]. exists h. split; exact Hh. }
  rewrite (system_head_sum _ Q h A), (system_head_sum _ Q h B).
  unfold head_spec. rewrite !sumf_app. cbn [sumf fric fit lift pumph].
  rewrite (proj2 (Rltb_true 0 L1) H1), (proj2 (Rltb_true 0 L2) H2), (proj2 (Rltb_true 0 L) HL).
  assert (EE : entrance (l1 ++ Pipe d L1 K1 z1 :: Pipe d L2 K2 z2 :: l2) = entrance (l1 ++ Pipe d L K z :: l2)).
  { destruct l1 as [|s l1]; [|reflexivity]. cbn [app entrance]. unfold Reqb.
    destruct (Req_EM_T L1 0); [lra|]. destruct (Req_EM_T L 0); [lra|]. reflexivity. }
  rewrite EE. subst L K z. f_equal; [f_equal; [f_equal|]|]; ring.
Qed.

(* ---- permuting the interior sections (first and last section fixed, the last one a pipe) ---- *)
Lemma last_hv_last Q mid d L K z cur : last_hv Q (mid ++ [Pipe d L K z]) cur = Some (hv d Q).
Proof. rewrite last_hv_app. reflexivity. Qed.

Lemma permute_invariant first mid mid' d L K z Q :
  Permutation mid mid' ->
  csh (first :: mid ++ [Pipe d L K z]) Q = csh (first :: mid' ++ [Pipe d L K z]) Q.
Proof.
  intro HP.
  assert (A : forall m, last_hv Q (first :: m ++ [Pipe d L K z]) None = Some (hv d Q)).
  { intro m. destruct first; cbn [last_hv]; apply last_hv_last. }
  rewrite (system_head_sum _ Q _ (A mid)), (system_head_sum _ Q _ (A mid')).
  unfold head_spec. cbn [sumf]. rewrite !sumf_app.
  rewrite (sumf_perm (fric im Q) _ _ HP), (sumf_perm (fit rhom Q) _ _ HP), (sumf_perm (lift rhom) _ _ HP),
          (sumf_perm (fric il Q) _ _ HP), (sumf_perm (fit rhol Q) _ _ HP), (sumf_perm (lift rhol) _ _ HP),
          (sumf_perm (pumph true Q) _ _ HP), (sumf_perm (pumph false Q) _ _ HP).
  assert (EE : entrance (first :: mid ++ [Pipe d L K z]) = entrance (first :: mid' ++ [Pipe d L K z])) by (destruct first; reflexivity).
  rewrite EE. reflexivity.
Qed.
End P.

(* flow and velocity are inverse for a real pipe *)
Lemma flow_velocity d v : d <> 0 -> velocity RN d (flow RN d v) = v.
Proof. intro H. unfold velocity, flow. toR. pose proof PI_RGT_0. field. split; lra. Qed.
Lemma velocity_flow d Q : d <> 0 -> flow RN d (velocity RN d Q) = Q.
Proof. intro H. unfold velocity, flow. toR. pose proof PI_RGT_0. field. split; lra. Qed.
