(* extra.ml: line-protocol entries for the hand-written models *)
open Fnum
open Datatypes

let pos = ref 0
let next (a : string array) : string = let s = a.(!pos) in incr pos; s
let get_num a = num (next a)
let get_bool a = boolean (next a)
let get_int a = int_of_string (next a)
let get_pairs a : (float * float) list =
  let k = get_int a in
  Stdlib.List.init k (fun _ -> let f = get_num a in let d = get_num a in (f, d))
let get_opt a : float option = let s = next a in if s = "None" then None else Some (num s)

let out_list (name : string) (l : float list) : string =
  "@" ^ name ^ " " ^ string_of_int (Stdlib.List.length l) ^
  Stdlib.String.concat "" (Stdlib.List.map (fun x -> " " ^ out_num x) l)
let out_pairs (name : string) (l : (float * float) list) : string =
  "@" ^ name ^ " " ^ string_of_int (Stdlib.List.length l) ^
  Stdlib.String.concat "" (Stdlib.List.map (fun (f, d) -> " " ^ out_num f ^ " " ^ out_num d) l)
let out_regimes (name : string) (l : Framework.regime list) : string =
  "@" ^ name ^ " " ^ string_of_int (Stdlib.List.length l) ^
  Stdlib.String.concat "" (Stdlib.List.map (fun r -> " " ^ Dispatch_regime.out_regime r) l)
let cat = Stdlib.String.concat " "

let get_params a : float SlurryCalc.sparams =
  let dp = get_num a in let eps = get_num a in let nu = get_num a in let rhol = get_num a in
  let d50 = get_num a in let cv = get_num a in let rhos = get_num a in let rhoi = get_num a in
  let mi = get_int a in
  { SlurryCalc.p_Dp = dp; p_eps = eps; p_nu = nu; p_rhol = rhol; p_D50 = d50; p_Cv = cv; p_rhos = rhos;
    p_rhoi = rhoi; p_max_index = nat_of_int mi }

let out_ldv name (c : float SlurryCalc.ldv_curves) =
  cat [out_list (name ^ ".Cv") c.SlurryCalc.lc_Cv; out_list (name ^ ".vls") c.SlurryCalc.lc_vls;
       out_list (name ^ ".il") c.SlurryCalc.lc_il; out_list (name ^ ".Erhg") c.SlurryCalc.lc_Erhg;
       out_list (name ^ ".im") c.SlurryCalc.lc_im]

let out_curves (c : float SlurryCalc.curves) : string =
    let e = c.SlurryCalc.c_Erhg and i = c.SlurryCalc.c_im in
    cat [out_list "vls" c.SlurryCalc.c_vls;
         out_list "E.il" e.SlurryCalc.ec_il; out_list "E.Cvs_Erhg" e.SlurryCalc.ec_Cvs_Erhg;
         out_list "E.FB" e.SlurryCalc.ec_FB; out_list "E.SB" e.SlurryCalc.ec_SB; out_list "E.He" e.SlurryCalc.ec_He;
         out_list "E.Ho" e.SlurryCalc.ec_Ho; out_regimes "E.Cvs_regime" e.SlurryCalc.ec_regime;
         out_list "E.Cvs_from_Cvt" e.SlurryCalc.ec_Cvs_from_Cvt; out_list "E.Cvt_Erhg" e.SlurryCalc.ec_Cvt_Erhg;
         out_list "E.graded_Cvs_Erhg" e.SlurryCalc.ec_graded_Cvs; out_list "E.graded_Cvt_Erhg" e.SlurryCalc.ec_graded_Cvt;
         out_list "I.il" i.SlurryCalc.ic_il; out_list "I.Cvs_im" i.SlurryCalc.ic_Cvs_im; out_list "I.FB" i.SlurryCalc.ic_FB;
         out_list "I.SB" i.SlurryCalc.ic_SB; out_list "I.He" i.SlurryCalc.ic_He; out_list "I.ELM" i.SlurryCalc.ic_ELM;
         out_list "I.Ho" i.SlurryCalc.ic_Ho; out_list "I.Cvt_im" i.SlurryCalc.ic_Cvt_im;
         out_list "I.graded_Cvs_im" i.SlurryCalc.ic_graded_Cvs_im; out_list "I.graded_Cvt_im" i.SlurryCalc.ic_graded_Cvt_im;
         out_ldv "LDV" c.SlurryCalc.c_LDV; out_ldv "LDV85" c.SlurryCalc.c_LDV85]

(* ---- Excel: abstract workbooks on the wire ---- *)
let coq_string (s : string) : String.string =
  let n = Stdlib.String.length s in
  let rec go i acc = if i < 0 then acc else
    let c = Char.code (Stdlib.String.get s i) in
    let b k = (c lsr k) land 1 = 1 in
    go (i - 1) (String.String (Ascii.Ascii (b 0, b 1, b 2, b 3, b 4, b 5, b 6, b 7), acc)) in
  go (n - 1) String.EmptyString
let unhex (h : string) : string =
  if h = "-" then "" else
  Stdlib.String.init (Stdlib.String.length h / 2) (fun i -> Char.chr (int_of_string ("0x" ^ Stdlib.String.sub h (2 * i) 2)))
let hex (s : string) : string =
  if s = "" then "-" else Stdlib.String.concat "" (Stdlib.List.init (Stdlib.String.length s) (fun i -> Printf.sprintf "%02x" (Char.code (Stdlib.String.get s i))))
let get_str a = coq_string (unhex (next a))
let get_cell a : float Excel.cell =
  match next a with
  | "N" -> Excel.CNum (get_num a)
  | "T" -> Excel.CStr (get_str a)
  | _ -> Excel.CBlank
let get_workbook a : float Excel.workbook =
  let ns = get_int a in
  Stdlib.List.init ns (fun _ ->
    let title = get_str a in
    let nn = get_int a in
    let names = Stdlib.List.init nn (fun _ ->
      let nm = get_str a in
      match next a with
      | "S" -> (nm, Excel.Single (get_cell a))
      | _ -> let nr = get_int a in let nc = get_int a in
             (nm, Excel.Range (Stdlib.List.init nr (fun _ -> Stdlib.List.init nc (fun _ -> get_cell a))))) in
    { Excel.s_title = title; s_names = names })
let exn_name (e : Excel.exn) = match e with
  | Excel.KeyError -> "KeyError" | Excel.AttributeError -> "AttributeError" | Excel.TypeError -> "TypeError"
  | Excel.ValueError -> "ValueError" | Excel.StopIteration -> "StopIteration" | Excel.IndexError -> "IndexError"
  | Excel.ZeroDivisionError -> "ZeroDivisionError"
let ostr (s : String.string) = "s:" ^ hex (ocaml_string s)
let dump_pipeline (p : float Excel.apipeline) : string =
  let secs = Stdlib.List.map (fun s -> match s with
    | Excel.APipe q -> cat ["PIPE"; ostr q.Excel.pp_name; out_num q.Excel.pp_d; out_num q.Excel.pp_L; out_num q.Excel.pp_K; out_num q.Excel.pp_z]
    | Excel.APump q ->
      let rows = Stdlib.List.sort compare (Stdlib.List.map (fun ((f, h), pw) -> (f, h, pw)) q.Excel.pu_curve) in
      let drv = (match q.Excel.pu_driver with
        | None -> "NODRIVER"
        | Some (nm, cv) -> cat (["DRIVER"; ostr nm; string_of_int (Stdlib.List.length cv)] @
                                Stdlib.List.concat_map (fun (x, y) -> [out_num x; out_num y]) (Stdlib.List.sort compare cv))) in
      cat (["PUMP"; ostr q.Excel.pu_name; out_num q.Excel.pu_impeller; out_num q.Excel.pu_suction; out_num q.Excel.pu_disch;
            out_num q.Excel.pu_speed; ostr q.Excel.pu_limited; out_num q.Excel.pu_gear; out_num q.Excel.pu_avail;
            string_of_int (Stdlib.List.length rows)] @ Stdlib.List.concat_map (fun (f, h, pw) -> [out_num f; out_num h; out_num pw]) rows @ [drv]))
    p.Excel.pl_secs in
  let s = p.Excel.pl_slurry in
  cat ([ostr p.Excel.pl_name; string_of_int (Stdlib.List.length secs)] @ secs @
       ["SLURRY"; ostr s.Excel.sl_name; out_num s.Excel.sl_Dp; out_num (s.Excel.sl_d50 /. 1000.0); ostr s.Excel.sl_fluid;
        out_num s.Excel.sl_Cv; out_num s.Excel.sl_rhos; out_num s.Excel.sl_rhoi;
        out_num (s.Excel.sl_d50 /. s.Excel.sl_d15); out_num (s.Excel.sl_d85 /. s.Excel.sl_d50)])

let dispatch (name : string) (a : string array) : string =
  pos := 0;
  match name with
  | "Interp.lookup" ->
    (* n k1 v1 .. kn vn xlo xhi tol key *)
    let g = get_pairs a in
    let xlo = get_bool a in let xhi = get_bool a in let tol = get_num a in let k = get_num a in
    (match Interp.lookup fN g xlo xhi tol k with Some v -> out_num v | None -> raise (Py "IndexError"))
  | "Interp.table" ->
    let name = next a in let k = get_num a in
    let look t xlo xhi tol = Interp.lookup_or_fail fN t xlo xhi tol k in
    out_num (match name with
      | "water_density" -> look (Tables.water_density fN) Tables.water_density_xlo Tables.water_density_xhi (Tables.water_density_tol fN)
      | "water_dynamic_viscosity" -> look (Tables.water_dynamic_viscosity fN) Tables.water_dynamic_viscosity_xlo Tables.water_dynamic_viscosity_xhi (Tables.water_dynamic_viscosity_tol fN)
      | "water_viscosity" -> look (Tables.water_viscosity fN) Tables.water_viscosity_xlo Tables.water_viscosity_xhi (Tables.water_viscosity_tol fN)
      | "Arel_to_beta" -> look (Tables.coq_Arel_to_beta fN) Tables.coq_Arel_to_beta_xlo Tables.coq_Arel_to_beta_xhi (Tables.coq_Arel_to_beta_tol fN)
      | _ -> raise Not_found)
  | "Pipeline.head" | "Pipeline.hg" | "Pipeline.totals" ->
    (* synthetic oracles, the same closed forms the harness patches into the real classes *)
    let qimin = get_num a in let rhol = get_num a in let rhom = get_num a in
    let im d v = 0.011 *. v *. v /. d +. 0.02 /. (v +. 0.1) +. 0.001 *. d in
    let il d v = 0.008 *. v *. v /. d in
    let point p q w = let k = Float.of_int (int_of_nat p) in (40.0 +. 3.0 *. k -. (2.0 +. k) *. q *. q) *. (if w then rhol else rhom) in
    let n = get_int a in
    let secs = Stdlib.List.init n (fun _ ->
      match next a with
      | "P" -> let d = get_num a in let l = get_num a in let k = get_num a in let z = get_num a in Pipeline.Pipe (d, l, k, z)
      | "U" -> Pipeline.PumpRef (nat_of_int (get_int a))
      | x -> failwith ("section " ^ x)) in
    let q = get_num a in
    (match name with
     | "Pipeline.head" ->
       let (((hm, hl), pl), pm) = Pipeline.calc_system_head fN im il point rhol rhom secs q in
       cat [out_num hm; out_num hl; out_num pl; out_num pm]
     | "Pipeline.hg" ->
       let ((locs, heads), elevs) = Pipeline.hydraulic_gradient fN im il point rhol rhom qimin secs q in
       cat [out_list "loc" locs; out_list "head" heads; out_list "elev" elevs]
     | _ ->
       cat [out_num (Pipeline.total_length fN secs); out_num (Pipeline.total_K fN secs); out_num (Pipeline.total_lift fN secs);
            string_of_int (int_of_nat (Pipeline.num_pipesections secs)); string_of_int (int_of_nat (Pipeline.num_pumps secs))])
  | "PL.run" ->
    (* Dp D50 salt Cv max_index | n sections | nops ops: cv x | slurry Dp D50 salt Cv mi | sD50 x | srhos x | sfluid b | sgen a b | head Q | hg *)
    let dp = get_num a in let d50 = get_num a in let is_salt = get_bool a in let cv = get_num a in let mi = get_int a in
    let n = get_int a in
    let secs = Stdlib.List.init n (fun _ ->
      match next a with
      | "P" -> let d = get_num a in let l = get_num a in let k = get_num a in let z = get_num a in Pipeline.Pipe (d, l, k, z)
      | "U" -> Pipeline.PumpRef (nat_of_int (get_int a))
      | x -> failwith ("section " ^ x)) in
    let point p q w rl rm = let k = Float.of_int (int_of_nat p) in (40.0 +. 3.0 *. k -. (2.0 +. k) *. q *. q) *. (if w then rl else rm) in
    let pl = ref (PipelineSlurry.make fN true true secs (SlurryState.init fN dp d50 is_salt cv (nat_of_int mi))) in
    let nops = get_int a in
    let buf = Buffer.create 1024 in
    let direct o = pl := { !pl with PipelineSlurry.slurry = fst (SlurryState.step fN true true (!pl).PipelineSlurry.slurry o) } in
    for _ = 1 to nops do
      (match next a with
       | "cv" -> pl := PipelineSlurry.set_Cv_pl fN true true !pl (get_num a)
       | "slurry" ->
         let dp = get_num a in let d50 = get_num a in let sl = get_bool a in let cv = get_num a in let mi = get_int a in
         pl := PipelineSlurry.set_slurry_pl fN true true !pl (SlurryState.init fN dp d50 sl cv (nat_of_int mi))
       | "sD50" -> direct (SlurryState.SetD50 (get_num a))
       | "srhos" -> direct (SlurryState.SetRhos (get_num a))
       | "sfluid" -> direct (SlurryState.SetFluid (get_bool a))
       | "sgen" -> let r15 = get_opt a in let r85 = get_opt a in direct (SlurryState.GenGSD (r15, r85))
       | "update" -> pl := PipelineSlurry.update_slurries fN true true !pl
       | "head" ->
         let q = get_num a in
         let (((hm, hl), pl_), pm) = PipelineSlurry.system_head fN true true point !pl q in
         Buffer.add_string buf (" | " ^ cat [out_num hm; out_num hl; out_num pl_; out_num pm])
       | "hg" -> pl := PipelineSlurry.after_hydraulic_gradient fN true true !pl
       | x -> failwith ("op " ^ x));
      Buffer.add_string buf (" D" ^ out_num (!pl).PipelineSlurry.slurry.SlurryState.sp.SlurryCalc.p_Dp
                             ^ " n" ^ string_of_int (Stdlib.List.length (!pl).PipelineSlurry.slurries))
    done;
    Buffer.contents buf
  | "Pump.point" | "Pump.power_required" | "Pump.power_available" ->
    let fuel = get_int a in let root = get_num a in
    let ds = get_num a in let di = get_num a in
    let qh = get_pairs a in let qp = get_pairs a in let xlo = get_bool a in
    let avail = get_num a in
    let lim = (match next a with "torque" -> Pump.LTorque | "power" -> Pump.LPower | "curve" -> Pump.LCurve | _ -> Pump.LNone) in
    let drv = get_pairs a in let gear = get_num a in
    let cs = get_num a in let ci = get_num a in let md = get_num a in
    let rl = get_num a in let rm = get_num a in
    let p = { Pump.design_speed = ds; design_impeller = di; coq_QH = qh; coq_QP = qp; curves_xlo = xlo; avail_power = avail;
              limited = lim; driver_curve = drv; gear_ratio = gear; current_speed = cs; current_impeller = ci;
              max_driver_speed = md; rhol = rl; rhom = rm } in
    let q = get_num a in
    (match name with
     | "Pump.point" ->
       let w = get_bool a in
       (match Pump.point fN (nat_of_int fuel) root p q w with
        | Some (((q', h), pw), n) -> cat [out_num q'; out_num h; out_num pw; out_num n]
        | None -> raise (Py "Fuel"))
     | "Pump.power_required" -> let n = get_num a in let w = get_bool a in out_num (Pump.power_required fN p q n w)
     | _ -> out_num (Pump.power_available fN p q))
  | "OpPoint.find" ->
    (* qimin qlast hsys hpump  n {q gap}  m {q at which the gap raises IndexError}  bconv broot hs_b hp_b *)
    let qimin = get_num a in let qlast = get_num a in let hsys = get_num a in let hpump = get_num a in
    let tbl = get_pairs a in
    let nr = get_int a in
    let bad = Stdlib.List.init nr (fun _ -> get_num a) in
    let bconv = get_bool a in let broot = get_num a in let hs_b = get_num a in let hp_b = get_num a in
    let gap q = (match Stdlib.List.find_opt (fun (x, _) -> x = q) tbl with Some (_, f) -> f | None -> raise (Py "Unvisited")) in
    let raises q = Stdlib.List.exists (fun x -> x = q) bad in
    let (o, vis) = OpPoint.find_operating_point fN gap raises qimin qlast hsys hpump bconv broot hs_b hp_b in
    (match o with
     | OpPoint.Ok r -> "root " ^ out_num r
     | OpPoint.OperatingPointError -> "OperatingPointError"
     | OpPoint.ValueError -> "ValueError"
     | OpPoint.IndexErr -> "IndexError") ^ " " ^ out_list "visited" vis
  | "OpPoint.qimin" ->
    (* n {flow}  m {q head}  rx rf fx ff *)
    let n = get_int a in
    let flows = Stdlib.List.init n (fun _ -> get_num a) in
    let tbl = get_pairs a in
    let rx = get_num a in let rf = get_num a in let fx = get_num a in let ff = get_num a in
    let head q = (match Stdlib.List.find_opt (fun (x, _) -> x = q) tbl with Some (_, f) -> f | None -> raise (Py "Unvisited")) in
    let (q, h) = OpPoint.qimin fN flows head rx rf fx ff in
    out_num q ^ " " ^ out_num h
  | "Excel.load" ->
    let wb = get_workbook a in
    (match Excel.load fN wb with
     | Excel.ROk p -> "loaded " ^ dump_pipeline p
     | Excel.RInvalid -> "invalid"
     | Excel.ROther e -> "other " ^ exn_name e)
  | "Excel.store" ->
    (* an abstract pipeline -> the abstract workbook store_to_excel writes; then load it back and say whether it is the same
       name nsec {PIPE name d L K z | PUMP name imp suc dis speed limited gear avail n {q h p} (NODRIVER | DRIVER name n {k v})}
       SLURRY name Dp d15 d50 d85 fluid Cv rhos rhoi *)
    let nm = get_str a in
    let ns = get_int a in
    let secs = Stdlib.List.init ns (fun _ ->
      match next a with
      | "PIPE" -> let n = get_str a in let d = get_num a in let l = get_num a in let k = get_num a in let z = get_num a in
        Excel.APipe { Excel.pp_name = n; pp_d = d; pp_L = l; pp_K = k; pp_z = z }
      | _ ->
        let n = get_str a in let imp = get_num a in let suc = get_num a in let dis = get_num a in let sp = get_num a in
        let lim = get_str a in let gear = get_num a in let av = get_num a in
        let nc = get_int a in
        let cv = Stdlib.List.init nc (fun _ -> let q = get_num a in let h = get_num a in let pw = get_num a in ((q, h), pw)) in
        let drv = (match next a with
          | "DRIVER" -> let dn = get_str a in let m = get_int a in
            Some (dn, Stdlib.List.init m (fun _ -> let k = get_num a in let v = get_num a in (k, v)))
          | _ -> None) in
        Excel.APump { Excel.pu_name = n; pu_impeller = imp; pu_suction = suc; pu_disch = dis; pu_speed = sp; pu_limited = lim;
                      pu_gear = gear; pu_avail = av; pu_curve = cv; pu_driver = drv }) in
    let _ = next a in
    let sn = get_str a in let dp = get_num a in let d15 = get_num a in let d50 = get_num a in let d85 = get_num a in
    let fl = get_str a in let cv = get_num a in let rs = get_num a in let ri = get_num a in
    let p = { Excel.pl_name = nm; pl_secs = secs;
              pl_slurry = { Excel.sl_name = sn; sl_Dp = dp; sl_d15 = d15; sl_d50 = d50; sl_d85 = d85; sl_fluid = fl; sl_Cv = cv;
                            sl_rhos = rs; sl_rhoi = ri } } in
    let wb = ExcelStore.store fN ExcelStore.pump_title ExcelStore.driver_title p in
    let cell c = match c with
      | Excel.CNum x -> ["N"; out_num x] | Excel.CStr t -> ["T"; hex (ocaml_string t)] | Excel.CBlank -> ["B"] in
    let sheet sh =
      [hex (ocaml_string sh.Excel.s_title); string_of_int (Stdlib.List.length sh.Excel.s_names)] @
      Stdlib.List.concat_map (fun (n, d) ->
        hex (ocaml_string n) ::
        (match d with
         | Excel.Single c -> "S" :: cell c
         | Excel.Range rows ->
           let ncol = Stdlib.List.fold_left (fun m r -> max m (Stdlib.List.length r)) 0 rows in
           ["R"; string_of_int (Stdlib.List.length rows); string_of_int ncol] @
           Stdlib.List.concat_map (fun r -> Stdlib.List.concat_map cell r) rows)) sh.Excel.s_names in
    let back = (match Excel.load fN wb with Excel.ROk q -> if q = p then "roundtrip-equal" else "roundtrip-differs"
                                          | Excel.RInvalid -> "roundtrip-invalid" | Excel.ROther e -> "roundtrip-" ^ exn_name e) in
    cat ([back; string_of_int (Stdlib.List.length wb)] @ Stdlib.List.concat_map sheet wb)
  | "File.clean" ->
    let n = get_int a in let s = Stdlib.List.init n (fun _ -> z_of_int (get_int a)) in
    let m = get_int a in let e = Stdlib.List.init m (fun _ -> z_of_int (get_int a)) in
    cat (Stdlib.List.map (fun z -> string_of_int (int_of_z z)) (FileName.clean s e))
  | "File.stored" ->
    let opt = next a in
    let rd () = let n = get_int a in Stdlib.List.init n (fun _ -> z_of_int (get_int a)) in
    let f = if opt = "none" then None else Some (rd ()) in
    let pl = rd () in let ts = rd () in
    cat (Stdlib.List.map (fun z -> string_of_int (int_of_z z)) (FileName.stored_basename f pl ts))
  | "Fracs.create_fracs" ->
    let g = get_pairs a in
    let dp = get_num a in let nu = get_num a in let rhol = get_num a in let rhos = get_num a in
    let nf = get_int a in
    out_pairs "GSD" (Fracs.create_fracs fN g dp nu rhol rhos (z_of_int nf))
  | "Fracs.get_dx" ->
    let g = get_pairs a in let f = get_num a in out_num (Fracs.get_dx fN g f)
  | "Fracs.generate_GSD" ->
    let g = get_pairs a in
    let d50 = get_num a in let dp = get_num a in let nu = get_num a in let rhol = get_num a in
    let rhos = get_num a in let r15 = get_opt a in let r85 = get_opt a in
    out_pairs "GSD" (Fracs.generate_GSD fN g d50 dp nu rhol rhos r15 r85)
  | "Graded.dict" ->
    let sf = get_bool a in let sq = get_bool a in
    let g = get_pairs a in
    let vls = get_num a in let dp = get_num a in let eps = get_num a in let nu = get_num a in
    let rhol = get_num a in let rhos = get_num a in let cv = get_num a in
    let cvt = get_bool a in let refrac = get_bool a in
    let r = Graded.coq_Erhg_graded_dict fN sf sq g vls dp eps nu rhol rhos cv cvt refrac in
    cat [out_list "ims" r.Graded.g_ims; out_num r.Graded.g_im_x; out_list "ds" r.Graded.g_ds;
         out_list "dxs" r.Graded.g_dxs; out_list "fracs" r.Graded.g_fracs; out_pairs "GSD" r.Graded.g_GSD;
         out_num r.Graded.g_dmin; out_num r.Graded.g_X; out_num r.Graded.g_mu_x; out_num r.Graded.g_nu_x;
         out_num r.Graded.g_rhox; out_num r.Graded.g_Rsd_x; out_num r.Graded.g_Cv_x; out_num r.Graded.g_Cv_r;
         out_num r.Graded.g_Erhg_x; out_num r.Graded.g_Erhg; out_num r.Graded.g_il]
  | "Slurry.curves" ->
    let sf = get_bool a in let sq = get_bool a in
    let p = get_params a in let g = get_pairs a in
    out_curves (SlurryCalc.generate_curves fN sf sq p g)
  | "Slurry.run" ->
    (* sf sq Dp D50 salt Cv max_index nops op... ; reply: per op "F<g><c>" then the value read *)
    let sf = get_bool a in let sq = get_bool a in
    let dp = get_num a in let d50 = get_num a in let is_salt = get_bool a in let cv = get_num a in
    let mi = get_int a in
    let s = ref (SlurryState.init fN dp d50 is_salt cv (nat_of_int mi)) in
    let nops = get_int a in
    let buf = Buffer.create 4096 in
    let flags st = "F" ^ out_bool st.SlurryState.gsd_dirty ^ out_bool st.SlurryState.curves_dirty in
    Buffer.add_string buf (flags !s);
    for _ = 1 to nops do
      let o = match next a with
        | "Dp" -> SlurryState.SetDp (get_num a) | "eps" -> SlurryState.SetEps (get_num a)
        | "fluid" -> SlurryState.SetFluid (get_bool a) | "D50" -> SlurryState.SetD50 (get_num a)
        | "Cv" -> SlurryState.SetCv (get_num a) | "rhos" -> SlurryState.SetRhos (get_num a)
        | "rhom" -> SlurryState.SetRhom (get_num a) | "max_index" -> SlurryState.SetMaxIndex (nat_of_int (get_int a))
        | "rhoi" -> SlurryState.SetRhoi (get_num a)
        | "gen" -> let r15 = get_opt a in let r85 = get_opt a in SlurryState.GenGSD (r15, r85)
        | "rGSD" -> SlurryState.ReadGSD | "rdx" -> SlurryState.ReadDx (get_num a)
        | "rcurves" -> SlurryState.ReadCurves | "rpoint" -> SlurryState.ReadPoint (get_num a)
        | "rscalars" -> SlurryState.ReadScalars
        | x -> failwith ("op " ^ x) in
      let (s1, r) = SlurryState.step fN sf sq !s o in
      s := s1;
      let txt = match r with
        | SlurryState.ONone -> ""
        | SlurryState.OGSD g -> out_pairs "GSD" g
        | SlurryState.ONum x -> out_num x
        | SlurryState.OCurves c -> out_curves c
        | SlurryState.OPoint (x, y, z) -> cat [out_num x; out_num y; out_num z]
        | SlurryState.OScalars (x, y, z) -> cat [out_num x; out_num y; out_num z] in
      Buffer.add_string buf (" | " ^ txt ^ " " ^ flags !s)
    done;
    Buffer.contents buf
  | "Slurry.point" ->
    let sf = get_bool a in let sq = get_bool a in
    let p = get_params a in let g = get_pairs a in let vls = get_num a in
    cat [out_num (SlurryCalc.il fN p vls); out_num (SlurryCalc.coq_Erhg fN sf sq p g vls); out_num (SlurryCalc.im fN sf sq p g vls)]
  | "Slurry.scalars" ->
    let p = get_params a in let g = get_pairs a in
    cat [out_num (SlurryCalc.coq_Rsd fN p); out_num (SlurryCalc.rhom fN p); out_num (SlurryCalc.coq_Cvi fN p);
         out_num (SlurryCalc.coq_Dmean fN g)]
  | "Viewer.run" ->
    (* sf sq npipes {ndiam diam.. params salt GSD gsd_dirty} sel ntexts {hex parsed|None} nevents events
       reply: the state after start and after every event:
         Dp rhos rhoi Cv D50 D15 D85 salt radio overflow tDp tD15 tD50 tD85 tRhos tRhom tCv   |  "raised <Exn>" (then stops) *)
    let sf = get_bool a in let sq = get_bool a in
    let np = get_int a in
    let pls = Stdlib.List.init np (fun _ ->
      let nd = get_int a in
      let ds = Stdlib.List.init nd (fun _ -> get_num a) in
      let p = get_params a in let is_salt = get_bool a in let g = get_pairs a in let dirty = get_bool a in
      let s = { SlurryState.sp = p; salt = is_salt; s_gsd = g; gsd_dirty = dirty; s_curves = None; curves_dirty = true } in
      { Viewer.diams = ds; sl = s }) in
    let sel = get_int a in
    let nt = get_int a in
    let table = Stdlib.List.init nt (fun _ -> let t = unhex (next a) in let v = get_opt a in (t, v)) in
    let parse (cs : String.string) : float option =
      let t = ocaml_string cs in
      match Stdlib.List.assoc_opt t table with
      | Some v -> v
      | None -> (try Some (float_of_string t) with _ -> None) in
    let pyfmt prec x =
      if Float.is_nan x then "nan" else Printf.sprintf "%.*f" prec x in
    let fmt3 x = coq_string (pyfmt 3 x) in
    let fmt0 x = coq_string (pyfmt 0 x) in
    let fmtZ z = coq_string (string_of_int (int_of_z z)) in
    let widget = function
      | "Dp_input" -> Viewer.WDp | "D15_input" -> Viewer.WD15 | "D50_input" -> Viewer.WD50 | "D85_input" -> Viewer.WD85
      | "rhos_input" -> Viewer.WRhos | "rhom_input" -> Viewer.WRhom | "Cv_input" -> Viewer.WCv
      | x -> failwith ("widget " ^ x) in
    let dump (v : float Viewer.vstate) : string =
      let p = Viewer.par v in
      let (v1, d15) = Viewer.rdx fN sf sq v (Viewer.f15 fN) in
      let (_, d85) = Viewer.rdx fN sf sq v1 (Viewer.f85 fN) in
      cat [out_num p.SlurryCalc.p_Dp; out_num p.SlurryCalc.p_rhos; out_num p.SlurryCalc.p_rhoi; out_num p.SlurryCalc.p_Cv;
           out_num p.SlurryCalc.p_D50; out_num d15; out_num d85; out_bool (Viewer.slurry v).SlurryState.salt;
           out_bool v.Viewer.radio; out_bool v.Viewer.overflow;
           ostr v.Viewer.tDp; ostr v.Viewer.tD15; ostr v.Viewer.tD50; ostr v.Viewer.tD85; ostr v.Viewer.tRhos;
           ostr v.Viewer.tRhom; ostr v.Viewer.tCv] in
    let buf = Buffer.create 4096 in
    let p0 = Stdlib.List.nth pls sel in
    let v = ref (Viewer.start fN sf sq fmt3 fmtZ pls (nat_of_int sel) p0) in
    Buffer.add_string buf (dump !v);
    let ne = get_int a in
    (try
      for _ = 1 to ne do
        let e = match next a with
          | "text" -> let w = widget (next a) in Viewer.EText (w, get_str a)
          | "DpUp" -> Viewer.EDpUp | "DpDown" -> Viewer.EDpDown | "D50Up" -> Viewer.ED50Up | "D50Down" -> Viewer.ED50Down
          | "CvUp" -> Viewer.ECvUp | "CvDown" -> Viewer.ECvDown
          | "fluid" -> Viewer.EFluid (get_bool a) | "units" -> Viewer.EUnits (get_bool a)
          | "pipeline" -> Viewer.EPipeline (nat_of_int (get_int a))
          | x -> failwith ("event " ^ x) in
        (match (try Ok (Viewer.fire fN sf sq fmt3 fmt0 fmtZ parse !v e) with Py m -> Error m) with
         | Ok v1 -> v := v1; Buffer.add_string buf (" | " ^ dump v1)
         | Error m -> Buffer.add_string buf (" | raised " ^ m); raise Exit)
      done
    with Exit -> ());
    Buffer.contents buf
  | _ -> raise Not_found
