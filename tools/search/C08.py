#!/venv/bin/python
"""C08 failing-input search on the real code: histories of calls to the public model functions interleaved with
toggles of use_sf / use_sqrtcx and in-place mutation of returned dicts/lists; every call is compared with the
same call in a fresh state (all lru caches cleared, same switch setting)."""
import copy
import importlib
import random
from scommon import Search, E_args, sample_E, seed
from DHLLDV import DHLLDV_framework as fw, homogeneous as ho, heterogeneous as he, stratified as st
from Wilson import Wilson_Stratified as ws, Wilson_V50 as wv

S = Search('C08', 'random histories (length 4-10) over a pool of argument tuples: call / toggle a switch / mutate a previously returned '
                  'dict or list; each call is compared with the same call after clearing every lru_cache; argument tuples are re-used within a '
                  'history so caches are hit; coarse grains (d >= 0.015 Dp) over-weighted because use_sf only matters there; distinct = distinct history')
rng = random.Random(seed())
MODS = [fw, ho, he, st, ws, wv]


def clear_all():
    for m in MODS:
        for n in dir(m):
            f = getattr(m, n)
            if hasattr(f, 'cache_clear'):
                f.cache_clear()


def funcs(a):
    vls, Dp, d, eps, nu, rhol, rhos, Cv = a
    return {
        'Cvs_Erhg': lambda: fw.Cvs_Erhg(*a), 'Cvs_Erhg_dict': lambda: fw.Cvs_Erhg(*a, get_dict=True), 'Cvs_regime': lambda: fw.Cvs_regime(*a),
        'Cvt_Erhg': lambda: fw.Cvt_Erhg(*a), 'Cvt_Erhg_dict': lambda: fw.Cvt_Erhg(*a, get_dict=True), 'Cvt_regime': lambda: fw.Cvt_regime(*a),
        'slip_ratio': lambda: fw.slip_ratio(*a), 'Cvs_from_Cvt': lambda: fw.Cvs_from_Cvt(*a), 'LDV': lambda: fw.LDV(*a),
        'fb_Erhg': lambda: st.fb_Erhg(*a), 'fb_pressure_loss': lambda: st.fb_pressure_loss(*a), 'vls_FBSB': lambda: st.vls_FBSB(*a[1:]),
        'he_Erhg': lambda: he.Erhg(*a), 'ho_Erhg': lambda: ho.Erhg(*a), 'il': lambda: ho.fluid_head_loss(vls, Dp, eps, nu, rhol),
        'swamee': lambda: ho.swamee_jain_ff(vls * Dp / nu, Dp, eps), 'perimeters': lambda: st.perimeters(Dp, Cv), 'areas': lambda: st.areas(Dp, Cv),
        'graded': lambda: fw.Erhg_graded({0.15: d / 2, 0.5: d, 0.85: d * 2}, vls, Dp, eps, nu, rhol, rhos, Cv, get_dict=True),
        'graded_cvt': lambda: fw.Erhg_graded({0.15: d / 2, 0.5: d, 0.85: d * 2}, vls, Dp, eps, nu, rhol, rhos, Cv, Cvt_eq_Cvs=True),
        'create_fracs': lambda: fw.create_fracs({0.15: d / 2, 0.5: d, 0.85: d * 2}, Dp, nu, rhol, rhos),
        'ws_Erhg': lambda: ws.Erhg(vls, Dp, d, eps, nu, rhol, rhos, 0.4, Cv), 'v50_Erhg': lambda: wv.Erhg(vls, Dp, d, d * 2, eps, nu, rhol, rhos, 0.4),
    }


def canon(v):
    if isinstance(v, dict):
        return {k: canon(x) for k, x in v.items()}
    if isinstance(v, (list, tuple)):
        return [canon(x) for x in v]
    return v


def mutate(obj):
    if isinstance(obj, dict) and obj:
        k = rng.choice(sorted(obj.keys(), key=str))
        obj[k] = 99.0 if not isinstance(obj[k], (list, dict)) else []
        return True
    if isinstance(obj, list) and obj:
        obj[0] = 99.0
        return True
    return False


def mutate_deep(obj):
    """spoil a returned container and the containers inside it"""
    done = False
    if isinstance(obj, dict):
        for v in list(obj.values()):
            if isinstance(v, (dict, list)):
                done = mutate_deep(v) or done
        if obj:
            k = sorted(obj.keys(), key=str)[-1]
            del obj[k]
            done = True
    elif isinstance(obj, list) and obj:
        obj[0] = 99.0
        done = True
    return done


# directed stream: a returned container belongs to the caller -- spoiling it must not change what the same call returns next
for i in range(max(3, S.budget // 25)):
    b = sample_E(rng)
    a = E_args(b)
    clear_all()
    fw.use_sf, fw.use_sqrtcx = True, True
    for n, f in sorted(funcs(a).items()):
        try:
            r1 = f()
        except Exception:
            continue
        if not isinstance(r1, (dict, list)):
            continue
        snap = copy.deepcopy(canon(r1))
        if not mutate_deep(r1):
            continue
        try:
            r2 = canon(f())
        except Exception as e:
            r2 = ('exc', type(e).__name__)
        if r2 != snap:
            S.violation(f'C08:aliased:{n}', f'{n} returned {str(r2)[:120]} after the caller edited the container returned by the previous identical call '
                        f'(first result {str(snap)[:120]})', history=[['call', n], ['spoil-returned'], ['call', n]], args=a, switches=(True, True))
        S.count(repr(('alias', n, a)), 'alias-probe')

for i in range(S.budget):
    pool = []
    for _ in range(2):
        b = sample_E(rng)
        if rng.random() < 0.6:
            b['d'] = min(0.25 * b['Dp'], max(b['d'], 0.015 * b['Dp'] * rng.uniform(1.0, 5.0)))
        pool.append(E_args(b))
    clear_all()
    fw.use_sf, fw.use_sqrtcx = True, True
    returned = []
    hist = []
    names = sorted(funcs(pool[0]).keys())
    bad = False
    try:
        for step in range(rng.randint(4, 10)):
            r = rng.random()
            if r < 0.25:
                which = rng.choice(['use_sf', 'use_sqrtcx'])
                setattr(fw, which, not getattr(fw, which))
                hist.append(('toggle', which, getattr(fw, which)))
            elif r < 0.4 and returned:
                if mutate(rng.choice(returned)):
                    hist.append(('mutate-returned',))
            else:
                a = rng.choice(pool)
                n = rng.choice(names if rng.random() < 0.5 else ['Cvs_Erhg', 'Cvs_Erhg_dict', 'Cvt_Erhg', 'Cvt_Erhg_dict', 'Cvs_regime', 'graded_cvt'])
                hist.append(('call', n, pool.index(a)))
                try:
                    got = funcs(a)[n]()
                except Exception as e:
                    got = ('exc', type(e).__name__)
                snapshot = copy.deepcopy(canon(got))
                if isinstance(got, (dict, list)):
                    returned.append(got)
                # reference: same call, same switches, fresh caches
                saved = (fw.use_sf, fw.use_sqrtcx)
                clear_all()
                try:
                    ref = canon(funcs(a)[n]())
                except Exception as e:
                    ref = ('exc', type(e).__name__)
                fw.use_sf, fw.use_sqrtcx = saved
                if snapshot != ref and not (isinstance(snapshot, (list, tuple)) and snapshot and snapshot[0] == 'exc'
                                        and isinstance(ref, (list, tuple)) and ref and ref[0] == 'exc'):
                    S.violation(f'C08:history:{n}', f'{n} returned {str(snapshot)[:120]} after the history but {str(ref)[:120]} in a fresh state',
                                history=[list(h) for h in hist], args=a, switches=saved)
                    bad = True
                    break
                # re-warm the caches with the same call so later steps can hit them (the reference run cleared them)
                try:
                    warm = funcs(a)[n]()
                    # the object a cache now holds (if any) is the re-warmed one: later mutations must be able to reach it
                    if isinstance(warm, (dict, list)):
                        returned.append(warm)
                        if isinstance(warm, dict):
                            returned.extend(v for v in warm.values() if isinstance(v, (dict, list)))
                except Exception:
                    pass
    finally:
        fw.use_sf, fw.use_sqrtcx = True, True
    S.count(repr(hist), 'history')
    if i == 0:
        S.sample({'history': [list(h) for h in hist], 'pool': pool})
clear_all()
S.finish()
