#!/venv/bin/python
"""C09 failing-input search on the real code: calc_system_head against the sum of its parts computed with freshly
built slurries (one per section diameter) and fresh pump points; invariance under splitting a section and permuting
interior sections; after Pipeline.Cv = c and Pipeline.slurry = s."""
import copy
import random
from scommon import Search, seed
import pl_common as pc
from pl_common import pg, PipeObj, close

S = Search('C09', 'random pipelines (2-8 pipe sections, d 0.4-0.9, L 0-3000 incl. zero-length first/interior sections, K 0-2, lift -15..10, '
                  '0-3 example pumps, half of them at 70-100 % speed and 85-100 % impeller) x random slurries (D50 0.12-3 mm, incl. fines cut by the pseudo-liquid limit) x flows for 0.5-8 m/s; '
                  'before and after replacing the pipeline-level Cv / slurry; split and permutation relations; distinct = distinct pipeline+flow')
rng = random.Random(seed())
NAMES = ['slurry system head', 'water system head', 'water pump head', 'slurry pump head']
for i in range(S.budget):
    secs = pg.gen_sections(rng)
    sp = pc.random_slurry_params(rng)
    try:
        rec = {}
        pl = pc.make_pipeline(rng, secs, sp, record=rec, offdesign=True)
        stage = 'constructed'
        r = rng.random()
        if r < 0.35:
            pl.Cv = rng.uniform(0.03, 0.4)
            stage = 'after Cv replaced'
        elif r < 0.6:
            sp = pc.random_slurry_params(rng)
            pl.slurry = pc.make_slurry(sp, rng.choice([0.5, 0.762, secs[-1][1]]))
            stage = 'after slurry replaced'
        Q = PipeObj.Pipe(diameter=secs[-1][1]).flow(rng.uniform(0.5, 8.0))
        got = pl.calc_system_head(Q)
        want = pc.sum_of_parts(pl, sp, Q)
    except Exception as e:
        S.count(None, 'exception:' + type(e).__name__)
        continue
    where = {'sections': secs, 'slurry': sp, 'Cv': pl.slurry.Cv, 'Q': Q, 'stage': stage, **rec}
    for n, g, w in zip(NAMES, got, want):
        if not close(g, w, 1e-8):
            S.violation('C09:sum:' + n, f'{stage}: {n} at Q={Q:.4f}: pipeline reports {g}, sum of parts gives {w}', input=where)
    # every per-diameter slurry carries its own diameter and the pipeline slurry's parameters
    for dia, sc in pl.slurries.items():
        if sc.Dp != dia or sc.Cv != pl.slurry.Cv or sc.D50 != pl.slurry.D50 or sc.rhos != pl.slurry.rhos or sc.fluid != pl.slurry.fluid:
            S.violation('C09:update_slurries', f'{stage}: slurry kept for diameter {dia} has Dp={sc.Dp}, Cv={sc.Cv}', input=where)
    if pl.slurry.Dp not in [p.diameter for p in pl.pipesections if isinstance(p, PipeObj.Pipe)]:
        S.violation('C09:slurry-Dp', f"{stage}: the pipeline slurry's Dp {pl.slurry.Dp} is not a section diameter", input=where)
    # split a positive-length section
    idx = [k for k, p in enumerate(pl.pipesections) if isinstance(p, PipeObj.Pipe) and p.length > 0]
    try:
        if idx:
            k = rng.choice(idx)
            p = pl.pipesections[k]
            f = rng.uniform(0.1, 0.9)
            a_ = PipeObj.Pipe(p.name + 'a', p.diameter, p.length * f, p.total_K * 0.3, p.elev_change * 0.6)
            b_ = PipeObj.Pipe(p.name + 'b', p.diameter, p.length - p.length * f, p.total_K - p.total_K * 0.3, p.elev_change - p.elev_change * 0.6)
            pl2 = PipeObj.Pipeline(pipe_list=pl.pipesections[:k] + [a_, b_] + pl.pipesections[k + 1:], slurry=copy.copy(pl.slurry))
            for n, g, w in zip(NAMES, pl2.calc_system_head(Q), got):
                if not close(g, w, 1e-9):
                    S.violation('C09:split:' + n, f'splitting section {k} changes the {n}: {w} -> {g}', input=where)
        if len(pl.pipesections) > 3:
            mid = pl.pipesections[1:-1]
            rng.shuffle(mid)
            pl3 = PipeObj.Pipeline(pipe_list=[pl.pipesections[0]] + mid + [pl.pipesections[-1]], slurry=copy.copy(pl.slurry))
            for n, g, w in zip(NAMES, pl3.calc_system_head(Q), got):
                if not close(g, w, 1e-9):
                    S.violation('C09:permute:' + n, f'reordering interior sections changes the {n}: {w} -> {g}', input=where)
    except Exception as e:
        S.count(None, 'exception:' + type(e).__name__)
    S.count(repr((secs, Q)), stage)
    if i == 0:
        S.sample(where)
S.finish()
