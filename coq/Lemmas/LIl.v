(* The carrier-liquid gradient il = lambda(Re, eps/Dp) * vls^2 / (2 g Dp) of the regenerated model on the engineering
   envelope: defined (no exception), positive, rising with line speed, falling with pipe diameter.  Shared by C02, C04. *)
From Coq Require Import Reals Lra.
From Interval Require Import Tactic.
From DHV Require Import NumOps RInst SwameeJain.
From DHV Require Constants Homogeneous HomogeneousOk.
Local Open Scope R_scope.

(* the liquid side of the envelope E (steel roughness 4.5e-5 m; any roughness up to 1e-4 m is covered) *)
Definition liqE (vls Dp eps nu : R) : Prop :=
  1 / 10 <= vls <= 10 /\ 1 / 10 <= Dp <= 12 / 10 /\ 0 <= eps <= 1 / 10000 /\ 8 / 10000000 <= nu <= 14 / 10000000.

Definition Re_of (vls Dp nu : R) : R := vls * Dp / nu.
Definition c1_of (eps Dp : R) : R := eps / (37 / 10 * Dp).

Lemma Re_of_eq vls Dp nu : Homogeneous.pipe_reynolds_number RN vls Dp nu = Re_of vls Dp nu.
Proof. reflexivity. Qed.

Lemma Re_big vls Dp eps nu : liqE vls Dp eps nu -> 7000 < Re_of vls Dp nu.
Proof. intros (Hv & HD & He & Hn). unfold Re_of. interval. Qed.

Lemma c1_range vls Dp eps nu : liqE vls Dp eps nu -> 0 <= c1_of eps Dp <= 3 / 10.
Proof.
  intros (Hv & HD & He & Hn). unfold c1_of. split.
  - apply Rmult_le_pos; [lra|]. left. apply Rinv_0_lt_compat. lra.
  - interval.
Qed.

Lemma il_formula vls Dp eps nu rhol : liqE vls Dp eps nu ->
  Homogeneous.fluid_head_loss RN vls Dp eps nu rhol =
  lam (c1_of eps Dp) (Re_of vls Dp nu) * vls ^ 2 / (2 * (980665 / 100000) * Dp).
Proof.
  intro H. pose proof (Re_big _ _ _ _ H). unfold Homogeneous.fluid_head_loss. cbv zeta. rewrite Re_of_eq.
  rewrite sj_turbulent by lra. unfold lam, c1_of, Constants.gravity. toR. reflexivity.
Qed.

Lemma il_ok vls Dp eps nu rhol : liqE vls Dp eps nu -> HomogeneousOk.fluid_head_loss_ok vls Dp eps nu rhol.
Proof.
  intro H. pose proof (Re_big _ _ _ _ H) as HR. pose proof (c1_range _ _ _ _ H) as Hc. destruct H as (Hv & HD & He & Hn).
  unfold HomogeneousOk.fluid_head_loss_ok, HomogeneousOk.pipe_reynolds_number_ok. split; [lra|]. cbv zeta. rewrite Re_of_eq. split.
  - unfold HomogeneousOk.swamee_jain_ff_ok. toR. unfold Rleb. destruct (Rle_dec (Re_of vls Dp nu) 2320) as [A|A]; [lra|].
    cbv zeta. split; [lra|]. split; [split; [lra|]|].
    + pose proof (exp_pos (9 / 10 * ln (Re_of vls Dp nu))). unfold Rpower. lra.
    + pose proof (u_range (c1_of eps Dp) Hc (Re_of vls Dp nu)) as U. unfold c1_of, c2 in U.
      assert (HR' : 2320 <= Re_of vls Dp nu) by lra. specialize (U HR'). split; [lra|].
      assert (L : ln (eps / (37 / 10 * Dp) + 575 / 100 / Rpower (Re_of vls Dp nu) (9 / 10)) < 0).
      { rewrite <- ln_1. apply ln_increasing; lra. }
      intro Z. apply Rmult_integral in Z. lra.
  - unfold Constants.gravity. toR. lra.
Qed.

Lemma il_pos vls Dp eps nu rhol : liqE vls Dp eps nu -> 0 < Homogeneous.fluid_head_loss RN vls Dp eps nu rhol.
Proof.
  intro H. rewrite il_formula by exact H. pose proof (Re_big _ _ _ _ H). pose proof (c1_range _ _ _ _ H) as Hc.
  pose proof (lam_pos (c1_of eps Dp) Hc (Re_of vls Dp nu)) as L. destruct H as (Hv & HD & He & Hn).
  apply Rdiv_lt_0_compat; [|lra]. apply Rmult_lt_0_compat; [apply L; lra|]. apply pow_lt. lra.
Qed.

(* rises with line speed *)
Lemma il_increasing_vls vls1 vls2 Dp eps nu rhol : liqE vls1 Dp eps nu -> liqE vls2 Dp eps nu -> vls1 < vls2 ->
  Homogeneous.fluid_head_loss RN vls1 Dp eps nu rhol < Homogeneous.fluid_head_loss RN vls2 Dp eps nu rhol.
Proof.
  intros H1 H2 Hlt. rewrite !il_formula by assumption.
  pose proof (Re_big _ _ _ _ H1) as R1. pose proof (c1_range _ _ _ _ H1) as Hc. destruct H1 as (Hv1 & HD & He & Hn). destruct H2 as (Hv2 & _).
  assert (Rlt12 : Re_of vls1 Dp nu < Re_of vls2 Dp nu).
  { unfold Re_of, Rdiv. apply Rmult_lt_compat_r; [apply Rinv_0_lt_compat; lra|]. apply Rmult_lt_compat_r; lra. }
  pose proof (lam_Re2_increasing (c1_of eps Dp) Hc (Re_of vls1 Dp nu) (Re_of vls2 Dp nu)) as M.
  assert (M' : lam (c1_of eps Dp) (Re_of vls1 Dp nu) * Re_of vls1 Dp nu ^ 2 < lam (c1_of eps Dp) (Re_of vls2 Dp nu) * Re_of vls2 Dp nu ^ 2) by (apply M; lra).
  assert (E : forall v, lam (c1_of eps Dp) (Re_of v Dp nu) * v ^ 2 / (2 * (980665 / 100000) * Dp) =
                        lam (c1_of eps Dp) (Re_of v Dp nu) * Re_of v Dp nu ^ 2 * ((nu / Dp) ^ 2 / (2 * (980665 / 100000) * Dp))).
  { intro v. unfold Re_of. field. lra. }
  rewrite (E vls1), (E vls2). apply Rmult_lt_compat_r; [|exact M'].
  apply Rdiv_lt_0_compat; [|lra]. apply pow_lt. apply Rdiv_lt_0_compat; lra.
Qed.

(* falls with pipe diameter *)
Lemma il_decreasing_Dp vls Dp1 Dp2 eps nu rhol : liqE vls Dp1 eps nu -> liqE vls Dp2 eps nu -> Dp1 < Dp2 ->
  Homogeneous.fluid_head_loss RN vls Dp2 eps nu rhol < Homogeneous.fluid_head_loss RN vls Dp1 eps nu rhol.
Proof.
  intros H1 H2 Hlt. rewrite !il_formula by assumption.
  pose proof (Re_big _ _ _ _ H1) as R1. pose proof (Re_big _ _ _ _ H2) as R2.
  pose proof (c1_range _ _ _ _ H1) as Hc1. pose proof (c1_range _ _ _ _ H2) as Hc2.
  destruct H1 as (Hv & HD1 & He & Hn). destruct H2 as (_ & HD2 & _).
  assert (Rlt12 : Re_of vls Dp1 nu < Re_of vls Dp2 nu).
  { unfold Re_of, Rdiv. apply Rmult_lt_compat_r; [apply Rinv_0_lt_compat; lra|]. apply Rmult_lt_compat_l; lra. }
  assert (C12 : c1_of eps Dp2 <= c1_of eps Dp1).
  { unfold c1_of, Rdiv. apply Rmult_le_compat_l; [lra|]. apply Rinv_le_contravar; lra. }
  (* lambda falls: smaller relative roughness, then larger Reynolds number *)
  assert (L2 : lam (c1_of eps Dp2) (Re_of vls Dp2 nu) <= lam (c1_of eps Dp1) (Re_of vls Dp2 nu)).
  { unfold lam. pose proof (Lu_c1_monotone (c1_of eps Dp1) (c1_of eps Dp2) (Re_of vls Dp2 nu)) as M.
    assert (M' : Lu (c1_of eps Dp1) (Re_of vls Dp2 nu) <= Lu (c1_of eps Dp2) (Re_of vls Dp2 nu)) by (apply M; lra).
    pose proof (Lu_big (c1_of eps Dp1) Hc1 (Re_of vls Dp2 nu)) as B. assert (B' : 9 / 10 < Lu (c1_of eps Dp1) (Re_of vls Dp2 nu)) by (apply B; lra).
    unfold Rdiv. apply Rmult_le_compat_l; [lra|]. apply Rinv_le_contravar.
    - apply pow_lt. lra.
    - apply pow_incr. lra. }
  assert (L1 : lam (c1_of eps Dp1) (Re_of vls Dp2 nu) < lam (c1_of eps Dp1) (Re_of vls Dp1 nu)).
  { apply lam_decreasing; [exact Hc1|lra]. }
  pose proof (lam_pos (c1_of eps Dp2) Hc2 (Re_of vls Dp2 nu)) as P2. assert (P2' : 0 < lam (c1_of eps Dp2) (Re_of vls Dp2 nu)) by (apply P2; lra).
  assert (V : 0 < vls ^ 2) by (apply pow_lt; lra).
  set (k1 := 2 * (980665 / 100000) * Dp1). set (k2 := 2 * (980665 / 100000) * Dp2).
  assert (K1 : 0 < k1) by (unfold k1; lra). assert (K12 : k1 < k2) by (unfold k1, k2; lra).
  set (l1 := lam (c1_of eps Dp1) (Re_of vls Dp1 nu)) in *. set (l2 := lam (c1_of eps Dp2) (Re_of vls Dp2 nu)) in *.
  assert (L12 : l2 <= l1) by lra. assert (P1 : 0 < l1) by lra.
  apply Rle_lt_trans with (l1 * vls ^ 2 / k2).
  - unfold Rdiv. apply Rmult_le_compat_r; [left; apply Rinv_0_lt_compat; lra|]. apply Rmult_le_compat_r; lra.
  - unfold Rdiv. apply Rmult_lt_compat_l; [apply Rmult_lt_0_compat; lra|]. apply Rinv_lt_contravar; [apply Rmult_lt_0_compat; lra|lra].
Qed.
