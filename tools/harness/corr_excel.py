#!/venv/bin/python
"""corr_excel.py: correspondence of Models/Excel.v (validate + loaders, with exception classes) and Models/FileName.v
with the real DHLLDV_viewer code.

 (a) real store_to_excel output (generated pipelines; plus the shipped example) is re-read with openpyxl and converted
     to the ABSTRACT workbook (titles, worksheet-scope defined names -> cell / range values);
 (b) the abstract workbook and every single structural fault of it are materialised again with openpyxl in memory and
     run through the real load_pipeline_from_workbook; the model loads the same abstract workbook; compared: outcome
     class (Ok / InvalidExcelError / other exception class) and, for Ok, every loaded field;
 (c) remove_disallowed_filename_chars and the name chosen by store_to_excel on unicode strings;
 (d) Models/ExcelStore.v: the in-memory workbook store_to_excel builds for a generated pipeline (captured at save time) is
     compared cell by cell, name by name, sheet by sheet with the model's store of the same abstract pipeline, and the
     model's load of its own store must give the pipeline back (the executable side of theorem C15_roundtrip)."""
import argparse
import copy
import os
import random
import sys
import tempfile
import warnings

from common import Driver, Stats, check_repo_import, hx, py_outcome, seed, write_json
from corr_slurry import compare


def hexs(s):
    return s.encode('utf-8').hex() if s else '-'


def cell_tok(v):
    if v is None or v == '':
        return ['B']
    if isinstance(v, bool):
        return ['N', hx(float(v))]
    if isinstance(v, (int, float)):
        return ['N', hx(float(v))]
    return ['T', hexs(str(v))]


def abstract_of(wb):
    """openpyxl workbook -> [(title, [(name, ('S', value) | ('R', rows))])]"""
    out = []
    for ws in wb.worksheets:
        names = []
        for nm, dn in ws.defined_names.items():
            addr = dn.attr_text.split('!')[1].replace('$', '')
            if ':' in addr:
                rows = [[c.value for c in row] for row in ws[addr]]
                names.append((nm, ('R', rows)))
            else:
                names.append((nm, ('S', ws[addr].value)))
        out.append((ws.title, names))
    return out


def encode_wb(awb):
    a = [str(len(awb))]
    for title, names in awb:
        a += [hexs(title), str(len(names))]
        for nm, (k, v) in names:
            a.append(hexs(nm))
            if k == 'S':
                a += ['S'] + cell_tok(v)
            else:
                ncol = max((len(r) for r in v), default=0)
                a += ['R', str(len(v)), str(ncol)]
                for r in v:
                    for c in (list(r) + [None] * ncol)[:ncol]:
                        a += cell_tok(c)
    return a


def materialise(awb):
    import openpyxl
    from openpyxl.workbook.defined_name import DefinedName
    from openpyxl.utils import get_column_letter, quote_sheetname
    wb = openpyxl.Workbook()
    wb.remove(wb.active)
    for title, names in awb:
        ws = wb.create_sheet(title)
        row = 1
        for nm, (k, v) in names:
            if k == 'S':
                ws.cell(row=row, column=2).value = v
                ref = f"{quote_sheetname(ws.title)}!$B${row}"
                row += 1
            else:
                ncol = max((len(r) for r in v), default=1)
                r0 = row
                for r in v:
                    for j, c in enumerate(r):
                        ws.cell(row=row, column=1 + j).value = c
                    row += 1
                if not v:
                    row += 1
                ref = f"{quote_sheetname(ws.title)}!$A${r0}:${get_column_letter(ncol)}${max(row - 1, r0)}"
                row += 1
            ws.defined_names.add(DefinedName(nm, attr_text=ref))
    return wb


def abstract_faults(awb, requireds, rng):
    """single faults on the abstract workbook: (label, faulted workbook)"""
    out = []

    def types(title):
        return [t for t in requireds if t in title.lower()]
    for i, (title, names) in enumerate(awb):
        ty = types(title)
        if len(ty) != 1:
            continue
        st = ty[0]
        if st in ('pipeline', 'slurry', 'pump'):
            out.append((f'delete sheet {title}', awb[:i] + awb[i + 1:]))
        if st in ('pipeline', 'slurry'):
            # a second sheet of a required type (its title also carries the type word): "exactly one" must be enforced
            out.append((f'duplicate sheet {title}', awb[:i + 1] + [(title + ' copy', names)] + awb[i + 1:]))
        for j, (nm, (k, v)) in enumerate(names):
            if nm not in requireds[st]:
                continue
            def with_name(new):
                nn = names[:j] + ([new] if new else []) + names[j + 1:]
                return awb[:i] + [(title, nn)] + awb[i + 1:]
            out.append((f'delete name {title}!{nm}', with_name(None)))
            ft = requireds[st][nm]
            if ft is float:
                out.append((f'blank {title}!{nm}', with_name((nm, ('S', None)))))
                out.append((f'stringify {title}!{nm}', with_name((nm, ('S', 'abc')))))
            if isinstance(ft, dict) and k == 'R' and v:
                header = v[0]
                for col_key in ft:
                    keys = col_key if isinstance(col_key, tuple) else (col_key,)
                    idx = [c for c, h in enumerate(header) if isinstance(h, str) and all(x in h.lower() for x in keys)]
                    if not idx:
                        continue
                    c0 = idx[0]
                    dropped = [list(r) for r in v]
                    dropped[0][c0] = 'zzz'
                    out.append((f'drop column {title}!{nm}[{col_key}]', with_name((nm, ('R', dropped)))))
                    dup = [list(r) + [r[c0]] for r in v]
                    out.append((f'duplicate column {title}!{nm}[{col_key}]', with_name((nm, ('R', dup)))))
                if st == 'pipeline':
                    nc = next((c for c, h in enumerate(header) if isinstance(h, str) and 'name' in h.lower()), 0)
                    for r_i in range(1, len(v)):
                        if isinstance(v[r_i][nc], str) and 'pump' in v[r_i][nc].lower():
                            dang = [list(r) for r in v]
                            dang[r_i][nc] = 'Number9Pump'
                            out.append((f'dangling pump row {r_i}', with_name((nm, ('R', dang)))))
                    # beyond the property's fault list (exercises the exception-class modelling): a blank table cell
                    if len(v) > 1 and rng.random() < 0.5:
                        bad = [list(r) for r in v]
                        bad[1][min(2, len(bad[1]) - 1)] = None
                        out.append((f'EXTRA blank table cell {title}!{nm}', with_name((nm, ('R', bad)))))
    return out


def wb_tokens(awb):
    """the abstract workbook as comparison tokens (numbers as floats)"""
    t = [str(len(awb))]
    for title, names in awb:
        t += [hexs(title), str(len(names))]
        for nm, (k, v) in names:
            t.append(hexs(nm))

            def cell(c):
                if c is None or c == '':
                    return ['B']
                if isinstance(c, (int, float)):
                    return ['N', float(c)]
                return ['T', hexs(str(c))]
            if k == 'S':
                t += ['S'] + cell(v)
            else:
                ncol = max((len(r) for r in v), default=0)
                t += ['R', str(len(v)), str(ncol)]
                for r in v:
                    for c in (list(r) + [None] * ncol)[:ncol]:
                        t += cell(c)
    return t


def pipeline_request(pl, PipeObj):
    """the abstract pipeline as the model's store sees it (what store_to_excel reads from the objects)"""
    a = [hexs(pl.name), str(len(pl.pipesections))]
    for p in pl.pipesections:
        if isinstance(p, PipeObj.Pipe):
            a += ['PIPE', hexs(p.name), hx(float(p.diameter)), hx(float(p.length)), hx(float(p.total_K)), hx(float(p.elev_change))]
        else:
            rows = list(zip(p.design_QH_curve.keys(), p.design_QH_curve.values(), p.design_QP_curve.values()))
            a += ['PUMP', hexs(p.name), hx(float(p.design_impeller)), hx(float(p.suction_dia)), hx(float(p.disch_dia)), hx(float(p.design_speed)),
                  hexs(p.limited), hx(float(p.gear_ratio)), hx(float(p.avail_power)), str(len(rows))]
            for q, h, pw in rows:
                a += [hx(float(q)), hx(float(h)), hx(float(pw))]
            if p.limited == 'curve' and p.driver is not None:
                cv = list(dict.items(p.driver.design_power_curve))
                a += ['DRIVER', hexs(p.driver.name), str(len(cv))]
                for k, v in cv:
                    a += [hx(float(k)), hx(float(v))]
            else:
                a.append('NODRIVER')
    s = pl.slurry
    a += ['SLURRY', hexs(s.name), hx(float(s.Dp)), hx(float(s.get_dx(0.15) * 1000)), hx(float(s.get_dx(0.5) * 1000)), hx(float(s.get_dx(0.85) * 1000)),
          hexs(s.fluid), hx(float(s.Cv)), hx(float(s.rhos)), hx(float(s.rhoi))]
    return a


def dump_real(pl, PipeObj, PumpObj):
    t = ['s:' + hexs(pl.name), str(len(pl.pipesections))]
    for p in pl.pipesections:
        if isinstance(p, PipeObj.Pipe):
            t += ['PIPE', 's:' + hexs(p.name), float(p.diameter), float(p.length), float(p.total_K), float(p.elev_change)]
        else:
            qh, qp = p.design_QH_curve, p.design_QP_curve
            rows = sorted((float(q), float(dict.__getitem__(qh, q)), float(dict.__getitem__(qp, q))) for q in qh.keys())
            t += ['PUMP', 's:' + hexs(p.name), float(p.design_impeller), float(p.suction_dia), float(p.disch_dia), float(p.design_speed),
                  's:' + hexs(p.limited), float(p.gear_ratio), float(p.avail_power), str(len(rows))]
            for r in rows:
                t += list(r)
            if p.driver is None:
                t.append('NODRIVER')
            else:
                cv = sorted((float(k), float(v)) for k, v in dict.items(p.driver.design_power_curve))
                t += ['DRIVER', 's:' + hexs(p.driver.name), str(len(cv))]
                for k, v in cv:
                    t += [k, v]
    s = pl.slurry
    t += ['SLURRY', 's:' + hexs(s.name), float(s.Dp), float(s.D50), 's:' + hexs(s.fluid), float(s.Cv), float(s.rhos), float(s.rhoi),
          float(s.get_dx(0.5) / s.get_dx(0.15)), float(s.get_dx(0.85) / s.get_dx(0.5))]
    return t


def main():
    ap = argparse.ArgumentParser()
    ap.add_argument('--out', required=True)
    ap.add_argument('--n', type=int, default=6)
    a = ap.parse_args()
    check_repo_import()
    warnings.simplefilter('ignore')
    import openpyxl
    import load_pump_excel as L
    import store_pump_excel as St
    import ExamplePumps
    from DHLLDV import PipeObj, PumpObj, SlurryObj
    from DHLLDV.DriverObj import Driver as Drv
    from DHLLDV.DHLLDV_Utils import interpDict
    import excel_gen as G
    rng = random.Random(seed())
    st = Stats()
    st.ulp = 0
    mods = (PipeObj, PumpObj, SlurryObj, Drv, interpDict, ExamplePumps)
    reqs, expect = [], []
    dist = {}
    bases = []
    ex = os.path.join(os.environ.get('VERIF_REPO', '/repo'), 'DHLLDV_viewer', 'static', 'pipelines', 'Example_input.xlsx')
    if os.path.exists(ex):
        bases.append(('example', abstract_of(openpyxl.load_workbook(ex, data_only=True))))
    captured = {}
    orig_save = openpyxl.Workbook.save

    def capture_save(self, fn):
        captured['wb'] = self
        return orig_save(self, fn)
    openpyxl.Workbook.save = capture_save
    store_cases = []
    with tempfile.TemporaryDirectory(dir=os.path.join(os.path.dirname(os.path.dirname(os.path.dirname(os.path.abspath(__file__)))), 'build')) as td:
        for i in range(a.n + 6 * max(1, a.n // 4)):
            pl = G.gen_pipeline(rng, mods)
            captured.clear()
            o = py_outcome(St.store_to_excel, pl, f'corr{i}', None, td)
            if o[0] == 'err':
                st.disagree.append({'what': 'store_to_excel raised', 'error': o[1]})
                continue
            if 'wb' in captured:
                store_cases.append((f'store{i}', pipeline_request(pl, PipeObj), ['roundtrip-equal'] + wb_tokens(abstract_of(captured['wb']))))
            if i < a.n:
                bases.append((f'stored{i}', abstract_of(openpyxl.load_workbook(o[1], data_only=True))))
    openpyxl.Workbook.save = orig_save
    for label, req, want in store_cases:
        reqs.append(('Excel.store', req))
        expect.append((label, 'model-store-vs-real-store', want))
        dist['store'] = dist.get('store', 0) + 1
    for label, awb in bases:
        variants = [('well-formed', awb)] + abstract_faults(awb, L.excel_requireds, rng)
        for flabel, fwb in variants:
            wb = materialise(fwb)
            try:
                pl = L.load_pipeline_from_workbook(wb)
                want = ['loaded'] + dump_real(pl, PipeObj, PumpObj)
            except L.InvalidExcelError:
                want = ['invalid']
            except Exception as e:
                want = ['other', type(e).__name__]
            reqs.append(('Excel.load', encode_wb(fwb)))
            expect.append((label, flabel, want))
            k = flabel.split(' ')[0] + ':' + want[0] + (':' + want[1] if want[0] == 'other' else '')
            dist[k] = dist.get(k, 0) + 1
    # (c) file names
    from store_pump_excel import remove_disallowed_filename_chars as clean
    alphabet = ['a', 'Z', '0', '-', '_', ' ', '.', '/', '\\', ':', 'é', '中', '\U0001F600', '\t', '..', 'x.xlsx', '.xlsx', '"', '*']
    nfile = 60 * max(1, a.n)
    for i in range(nfile):
        s = ''.join(rng.choice(alphabet) for _ in range(rng.randint(0, 12)))
        ext = rng.choice(['.xlsx', ''])
        cps = [ord(c) for c in s]
        reqs.append(('File.clean', [str(len(cps))] + [str(c) for c in cps] + [str(len(ext))] + [str(ord(c)) for c in ext]))
        expect.append(('filename', s, [str(ord(c)) for c in clean(s, ext)]))
        dist['clean'] = dist.get('clean', 0) + 1
    with tempfile.TemporaryDirectory(dir=os.path.join(os.path.dirname(os.path.dirname(os.path.dirname(os.path.abspath(__file__)))), 'build')) as td:
        pl = G.gen_pipeline(rng, mods)
        for i in range(min(12, 2 * a.n)):
            s = ''.join(rng.choice(alphabet) for _ in range(rng.randint(0, 10)))
            fn = St.store_to_excel(pl, fname=s, path=td)
            inside = os.path.dirname(os.path.abspath(fn)) == os.path.abspath(td)
            base = os.path.basename(fn)
            cps = [ord(c) for c in s]
            reqs.append(('File.stored', ['some', str(len(cps))] + [str(c) for c in cps] + ['0', '0']))
            expect.append(('stored-name', s, [str(ord(c)) for c in base] if inside else ['ESCAPED', fn]))
            dist['stored'] = dist.get('stored', 0) + 1
    replies = Driver().batch(reqs)
    for (label, flabel, want), rep in zip(expect, replies):
        st.evaluations += 1
        key = repr((label, flabel))
        st.distinct.add(key)
        got = rep[1] if rep[0] == 'ok' else ['driver-error', rep[1]]
        c = compare(want, got)
        if c == 'exact':
            st.agree += 1
            st.nontrivial.add(key)
        elif c == 'ulp':
            st.ulp += 1
            st.nontrivial.add(key)
        else:
            first = next((j for j, (p, m) in enumerate(zip(want, got)) if compare([p], [m]) == 'diff'), None)
            st.disagree.append({'base': label, 'case': flabel if isinstance(flabel, str) else repr(flabel), 'first_diff': first,
                                'python': [x.hex() if isinstance(x, float) else x for x in want[max(0, (first or 0) - 2):(first or 0) + 4]],
                                'model': got[max(0, (first or 0) - 2):(first or 0) + 4], 'len': [len(want), len(got)]})
        if len(st.samples) < 3 and st.evaluations % 151 == 1:
            st.samples.append({'base': label, 'case': flabel, 'outcome': want[:2]})
    res = {'ok': not st.disagree, 'evaluations': st.evaluations, 'agree_bit_exact': st.agree, 'agree_on_error': 0,
           'ulp_level_differences': st.ulp, 'distinct': len(st.distinct), 'distinct_nontrivial': len(st.nontrivial),
           'disagreements': st.disagree[:8], 'n_disagreements': len(st.disagree), 'distribution': dist, 'samples': st.samples,
           'seed': seed(), 'wall_s': st.wall()}
    write_json(a.out, res)
    print(f"corr_excel: {st.evaluations} evaluations, {st.agree} exact, {st.ulp} ulp-level, {len(st.disagree)} disagreements")
    sys.exit(0 if not st.disagree else 1)


if __name__ == '__main__':
    main()
