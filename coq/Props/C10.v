(* C10 -- the operating point is the stable pump/system intersection right of the minimum-friction flow.
   Statements only; proofs in Lemmas/LC10.v.  Model: Models/OpPoint.v = find_operating_point with scipy's secant
   iteration written out (compared bit for bit, incl. the visited flows, with the real method). *)
From Coq Require Import Reals List Bool.
From DHV Require Import NumOps RInst OpPoint LC10.
Import ListNotations.
Local Open Scope R_scope.

(* pump head below system head at the minimum-friction flow -> OperatingPointError *)
Theorem C10_infeasible : forall (gap : R -> R) (qimin qlast hsys hpump : R), hpump < hsys ->
  find_operating_point RN gap qimin qlast hsys hpump = (OperatingPointError, []).
Proof. exact LC10.infeasible. Qed.
Print Assumptions C10_infeasible.

(* in every case (every head-gap function): a root that the secant search reports as converged, or
   OperatingPointError; the single other outcome is scipy's ValueError when its two starting flows coincide, i.e.
   when the minimum-friction flow equals the largest tabulated flow.  (An exception raised while EVALUATING the
   head gap propagates; that is C02 / C18's domain.) *)
Theorem C10_outcomes : forall (gap : R -> R) (qimin qlast hsys hpump : R),
  (exists r vis, find_operating_point RN gap qimin qlast hsys hpump = (Ok r, vis) /\ hsys <= hpump /\
                 exists vis0, secant RN gap qimin ((qimin + qlast) / 2) = (r, true, vis0)) \/
  (exists vis, find_operating_point RN gap qimin qlast hsys hpump = (OperatingPointError, vis)) \/
  (find_operating_point RN gap qimin qlast hsys hpump = (ValueError, []) /\ (qimin + qlast) / 2 = qimin).
Proof. exact LC10.outcomes. Qed.
Print Assumptions C10_outcomes.

(* what "converged" gives: the root is one secant update from the last evaluated flow b, within 1.48e-8 of it *)
Theorem C10_converged : forall (gap : R -> R) (x0 x1 r : R) (vis : list R), secant RN gap x0 x1 = (r, true, vis) ->
  exists a b, r = secant_step RN a (gap a) b (gap b) /\ Rabs (r - b) <= 148 / 10000000000 /\ gap b <> gap a.
Proof. exact LC10.secant_converged. Qed.
Print Assumptions C10_converged.

(* ... so the heads at that flow differ by at most the step tolerance times the local secant slope *)
Theorem C10_residual : forall (gap : R -> R) (a b r : R), gap b <> gap a -> b <> a ->
  r = b - gap b * (b - a) / (gap b - gap a) -> Rabs (r - b) <= 148 / 10000000000 ->
  Rabs (gap b) <= 148 / 10000000000 * Rabs ((gap b - gap a) / (b - a)).
Proof. exact LC10.residual_bound. Qed.
Print Assumptions C10_residual.

Theorem C10_secant_step : forall a fa b fb : R, fb <> fa -> fa <> 0 \/ fb <> 0 ->
  secant_step RN a fa b fb = b - fb * (b - a) / (fb - fa).
Proof. exact LC10.secant_step_formula. Qed.
Print Assumptions C10_secant_step.
