#!/venv/bin/python
"""corr_interp.py: correspondence of Num/Interp.v with DHLLDV_Utils.interpDict: random tables of 2-12
distinct keys (any sign, any spacing, adjacent floats), both extrapolation flags, queries at / inside /
just outside / far outside the range; every shipped table at every key and mid-point; item assignment."""
import argparse
import math
import random
import sys

from common import Driver, Stats, check_repo_import, hx, py_outcome, same_float, seed, write_json


def main():
    ap = argparse.ArgumentParser()
    ap.add_argument('--out', required=True)
    ap.add_argument('--n', type=int, default=300)
    a = ap.parse_args()
    check_repo_import()
    from DHLLDV.DHLLDV_Utils import interpDict
    from DHLLDV import DHLLDV_constants as K
    rng = random.Random(seed())
    st = Stats()
    reqs, expect = [], []
    dist = {}

    def bump(b):
        dist[b] = dist.get(b, 0) + 1
    for i in range(a.n):
        n = rng.randint(2, 12)
        style = rng.choice(['pos', 'any', 'neg', 'tight', 'int'])
        keys = set()
        while len(keys) < n:
            if style == 'pos':
                keys.add(rng.uniform(0.001, 100))
            elif style == 'any':
                keys.add(rng.uniform(-50, 50))
            elif style == 'neg':
                keys.add(-rng.uniform(0.001, 100))
            elif style == 'int':
                keys.add(float(rng.randint(-5, 30)))
            else:
                base = rng.uniform(1, 2)
                keys.add(math.nextafter(base, 2) if rng.random() < 0.5 else base * (1 + rng.random() * 1e-9 * len(keys)))
        keys = sorted(keys)
        vals = [rng.uniform(-10, 10) for _ in keys]
        xlo, xhi = rng.random() < 0.5, rng.random() < 0.5
        items = list(zip(keys, vals))
        rng.shuffle(items)      # python sorts on every miss: insertion order must not matter
        d = interpDict(*items, extrapolate_low=xlo, extrapolate_high=xhi)
        lo, hi = keys[0], keys[-1]
        qs = [('hit', rng.choice(keys)), ('hit', lo), ('hit', hi)]
        j = rng.randrange(n - 1)
        qs.append(('interior', keys[j] + (keys[j + 1] - keys[j]) * rng.random()))
        qs.append(('interior', (keys[j] + keys[j + 1]) / 2))
        qs.append(('high-in-tol', hi + abs(hi) * 0.0005))
        qs.append(('high-edge', hi * (1 + 0.001)))
        qs.append(('high-out-tol', hi + abs(hi) * 0.002 + 1e-9))
        qs.append(('high-far', hi + 100 * (abs(hi) + 1)))
        qs.append(('low-in-tol', lo - abs(lo) * 0.0005))
        qs.append(('low-edge', lo * (1 - 0.001)))
        qs.append(('low-out-tol', lo - abs(lo) * 0.002 - 1e-9))
        qs.append(('low-far', lo - 100 * (abs(lo) + 1)))
        qs.append(('adjacent', math.nextafter(rng.choice(keys), math.inf)))
        for lab, q in qs:
            o = py_outcome(d.__getitem__, q)
            flat = [str(n)]
            for k_, v_ in zip(keys, vals):
                flat += [hx(k_), hx(v_)]
            reqs.append(('Interp.lookup', flat + ['1' if xlo else '0', '1' if xhi else '0', hx(0.001), hx(q)]))
            expect.append((lab, {'keys': keys, 'vals': vals, 'xlo': xlo, 'xhi': xhi, 'q': q}, o))
            bump(lab)
        # item assignment is refused and changes nothing
        before = dict(d)
        o = py_outcome(d.__setitem__, rng.choice(keys), 1.0)
        st.evaluations += 1
        if o != ('err', 'KeyError') or dict(d) != before:
            st.disagree.append({'function': 'setitem', 'python': o, 'model': 'KeyError, table unchanged'})
        else:
            st.agree_err += 1
        bump('setitem')
    for name in ('water_density', 'water_dynamic_viscosity', 'water_viscosity', 'Arel_to_beta'):
        t = getattr(K, name)
        ks = sorted(t.keys())
        qs = list(ks) + [(x + y) / 2 for x, y in zip(ks, ks[1:])] + [ks[-1] * 1.0005, ks[-1] * 1.01 + 1, ks[0] - 1.0]
        for q in qs:
            o = py_outcome(t.__getitem__, q)
            reqs.append(('Interp.table', [name, hx(q)]))
            expect.append(('shipped:' + name, {'table': name, 'q': q}, o))
            bump('shipped:' + name)
    replies = Driver().batch(reqs)
    for (lab, inp, o), rep in zip(expect, replies):
        st.evaluations += 1
        key = repr(inp)
        st.distinct.add(key)
        if o[0] == 'err':
            st.err_kinds[o[1]] = st.err_kinds.get(o[1], 0) + 1
            if rep[0] == 'err' and rep[1] == o[1]:
                st.agree_err += 1
                st.nontrivial.add(key)
            else:
                st.disagree.append({'function': 'lookup', 'case': lab, 'input': inp, 'python': o, 'model': rep})
            continue
        if rep[0] == 'ok' and same_float(float(o[1]), float.fromhex(rep[1][0])):
            st.agree += 1
            st.nontrivial.add(key)
            if len(st.samples) < 3 and st.evaluations % 211 == 1:
                st.samples.append({'case': lab, 'input': inp, 'value': o[1]})
        else:
            st.disagree.append({'function': 'lookup', 'case': lab, 'input': inp, 'python': float(o[1]).hex(), 'model': rep})
    res = {'ok': not st.disagree, 'evaluations': st.evaluations, 'agree_bit_exact': st.agree, 'agree_on_error': st.agree_err,
           'distinct': len(st.distinct), 'distinct_nontrivial': len(st.nontrivial), 'disagreements': st.disagree[:10],
           'n_disagreements': len(st.disagree), 'error_kinds': st.err_kinds, 'distribution': dist, 'samples': st.samples,
           'seed': seed(), 'wall_s': st.wall()}
    write_json(a.out, res)
    print(f"corr_interp: {st.evaluations} evaluations, {st.agree} bit-exact, {st.agree_err} agree-on-error, {len(st.disagree)} disagreements")
    sys.exit(0 if not st.disagree else 1)


if __name__ == '__main__':
    main()
