#!/bin/bash
# run_all.sh [tier]: every claimed check on the unchanged tree, sequentially; summary at the end
cd /verif
T=${1:-quick}
for p in $(python3 -c "import json; print(' '.join(c['property_id'] for c in json.load(open('MANIFEST.json'))['checks']))"); do
  s=$(date +%s); out=$(./check $p --tier $T 2>&1 | tail -3); rc=$?; e=$(( $(date +%s) - s ))
  echo "[$p rc=$rc ${e}s] $(echo "$out" | tail -1)"
done
