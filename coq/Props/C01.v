(* C01 -- Reported regime and gradient follow the DHLLDV selection law.
   Statements only; proofs are in Lemmas/LC01.v.  The model (DHV.Framework etc.) is
   regenerated from /repo's Python on every run. *)
From Coq Require Import Reals String.
From DHV Require Import NumOps RInst LC01.
From DHV Require Homogeneous Heterogeneous Stratified Framework.
Import Framework.
Local Open Scope R_scope.

(* each per-regime value in the detailed result is what the standalone regime model
   returns for the same slurry (He under the current setting of the two switches) *)
Theorem C01_components : forall (sf sq : bool) (vls Dp d eps nu rhol rhos Cvs : R),
  let r := Cvs_Erhg_dict RN sf sq vls Dp d eps nu rhol rhos Cvs in
  Erhg6_il r = Homogeneous.fluid_head_loss RN vls Dp eps nu rhol /\
  Erhg6_FB r = Stratified.fb_Erhg RN vls Dp d eps nu rhol rhos Cvs /\
  Erhg6_SB r = Stratified.Erhg RN vls Dp d eps nu rhol rhos Cvs /\
  Erhg6_He r = Heterogeneous.Erhg RN vls Dp d eps nu rhol rhos Cvs sf sq /\
  Erhg6_Ho r = Homogeneous.Erhg RN vls Dp d eps nu rhol rhos Cvs true.
Proof. exact LC01.components. Qed.
Print Assumptions C01_components.

(* the reported gradient is max(min(FB, SB, He), Ho): for all reals, so for every weak ordering *)
Theorem C01_value : forall (sf sq : bool) (vls Dp d eps nu rhol rhos Cvs : R),
  let r := Cvs_Erhg_dict RN sf sq vls Dp d eps nu rhol rhos Cvs in
  Cvs_Erhg RN sf sq vls Dp d eps nu rhol rhos Cvs =
  Rmax (Rmin (Rmin (Erhg6_FB r) (Erhg6_SB r)) (Erhg6_He r)) (Erhg6_Ho r).
Proof. exact LC01.value. Qed.
Print Assumptions C01_value.

(* the reported regime attains that value ... *)
Theorem C01_attains : forall (sf sq : bool) (vls Dp d eps nu rhol rhos Cvs : R),
  let r := Cvs_Erhg_dict RN sf sq vls Dp d eps nu rhol rhos Cvs in
  sel6 r (Erhg6_regime r) = Cvs_Erhg RN sf sq vls Dp d eps nu rhol rhos Cvs.
Proof. exact LC01.attains. Qed.
Print Assumptions C01_attains.

(* ... and the long name is the documented name of that regime code *)
Theorem C01_name : forall (sf sq : bool) (vls Dp d eps nu rhol rhos Cvs : R),
  let r := Cvs_Erhg_dict RN sf sq vls Dp d eps nu rhol rhos Cvs in
  Cvs_regime RN sf sq vls Dp d eps nu rhol rhos Cvs = regime_name (Erhg6_regime r).
Proof. exact LC01.name. Qed.
Print Assumptions C01_name.

Theorem C01_names_distinct : forall g h, regime_name g = regime_name h -> g = h.
Proof. exact LC01.names_distinct. Qed.
Print Assumptions C01_names_distinct.
