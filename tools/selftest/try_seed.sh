#!/bin/bash
# try_seed.sh <property> <dir with patch.diff demo.py>: confirm a seeded change (tests pass, demo fails with
# it and passes without) in a scratch worktree, then run ./check <property> against it.
set -u
P=$1; D=$2; WT=/tmp/wt-seed-$P-$$
git -C /repo worktree add -q $WT HEAD || exit 2
trap "git -C /repo worktree remove --force $WT" EXIT
git -C $WT apply "$D/patch.diff" || { echo "patch does not apply"; exit 2; }
echo "== tests"; (cd $WT && PYTHONPATH=$WT/src:$WT/DHLLDV_viewer /venv/bin/python -m pytest -q -p no:cacheprovider --timeout=900 --continue-on-collection-errors 2>&1 | tail -1)
echo "== demo on changed tree (expect 1)"; /venv/bin/python "$D/demo.py" $WT > /tmp/demo-$P.out 2>&1; echo "exit=$?"; tail -2 /tmp/demo-$P.out
echo "== demo on /repo (expect 0)"; /venv/bin/python "$D/demo.py" /repo > /dev/null 2>&1; echo "exit=$?"
echo "== check"; cd /verif && VERIF_REPO=$WT ./check $P --tier ${TIER:-quick}; echo "check exit=$?"
