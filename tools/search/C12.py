#!/venv/bin/python
"""C12 failing-input search on the real create_fracs / Slurry.get_dx: fractions strictly increasing within [0,1),
diameters strictly increasing, at least ten fractions, D50 and D85 (and D15 when above the limit) reproduced (by
log-linear interpolation where not a node), start at the pseudo-liquid limit whenever the log-linear distribution
reaches it at a positive fraction and never below; get_dx increasing, node values at nodes, rejects outside (0,1)."""
import math
import random
from scommon import Search, sample_E, seed, pseudo_dlim
from DHLLDV import DHLLDV_framework as fw, SlurryObj

S = Search('C12', 'random (Dp, fluid, rhos) in E x D15<D50<D85 with ratios in (1.02, 6], D50 from just above the limit to 0.25 Dp; raw 3-point and '
                  '4-point inputs (extra point at fraction 0 or 0.05, finer or coarser than the limit); distinct = distinct input')
rng = random.Random(seed())


def interp_log(g, f):
    ks = sorted(g)
    for a, b in zip(ks, ks[1:]):
        if a <= f <= b:
            return 10 ** (math.log10(g[a]) + (math.log10(g[b]) - math.log10(g[a])) * (f - a) / (b - a))
    a, b = ks[0], ks[1]
    return 10 ** (math.log10(g[a]) + (math.log10(g[b]) - math.log10(g[a])) * (f - a) / (b - a))


def check(inp, g, Dp, nu, rhol, rhos, where):
    dl = pseudo_dlim(Dp, nu, rhol, rhos)
    ks = sorted(g)
    if any(not b > a for a, b in zip(ks, ks[1:])) or ks[0] < 0 or ks[-1] >= 1 or ks[-1] > 0.999:
        S.violation('C12:fractions', f'fractions not strictly increasing within [0,1): {ks[:3]}..{ks[-2:]}', input=where)
    ds = [g[k] for k in ks]
    if any(not b > a for a, b in zip(ds, ds[1:])):
        S.violation('C12:diameters', 'diameters not strictly increasing', input=where)
    if len(g) < 10:
        S.violation('C12:count', f'only {len(g)} fractions (entries), ten requested', input=where)
    for f, d in inp.items():
        if f > 0 and d >= dl * (1 - 1e-12):
            got = g[f] if f in g else interp_log(g, f)
            if abs(got - d) > 1e-9 * d:
                S.violation('C12:reproduce', f'input point ({f}, {d}) is not reproduced: {got}', input=where)
    if ds[0] < dl * (1 - 1e-12):
        S.violation('C12:below-limit', f'first diameter {ds[0]} is below the pseudo-liquid limit {dl}', input=where)
    # where does the log-linear distribution through the two lowest points above the limit reach dl?
    pts = sorted(inp.items())
    j = 0
    while j + 2 < len(pts) and pts[j + 1][1] < dl:
        j += 1
    (fa, da), (fb, db) = pts[j], pts[j + 1]
    X = fb - (math.log10(db) - math.log10(dl)) * (fb - fa) / (math.log10(db) - math.log10(da))
    if X > 1e-12 and db > dl:
        if abs(ks[0] - X) > 1e-9 or abs(ds[0] - dl) > 1e-12 * dl:
            S.violation('C12:start', f'the distribution reaches the limit at fraction {X} but the grading starts at ({ks[0]}, {ds[0]})', input=where)


for i in range(S.budget):
    b = sample_E(rng)
    Dp, nu, rhol, rhos = b['Dp'], b['nu'], b['rhol'], b['rhos']
    dl = max(pseudo_dlim(Dp, nu, rhol, rhos), 5e-5)
    D50 = math.exp(rng.uniform(math.log(dl * 1.0001), math.log(0.25 * Dp)))
    r15, r85 = rng.uniform(1.02, 6.0), rng.uniform(1.02, 6.0)
    g3 = {0.15: D50 / r15, 0.5: D50, 0.85: D50 * r85}
    variants = [('3pt', g3)]
    for ef in (0, 0.05):
        g4 = dict(g3)
        g4[ef] = g3[0.15] / rng.uniform(1.1, 4.0) if rng.random() < 0.6 else dl * rng.uniform(0.3, 0.99)
        if g4[ef] < g3[0.15]:
            variants.append((f'4pt@{ef}', g4))
    # a longer tabulated distribution whose top given fraction is close to 1 (the extrapolated top node must stay below 1)
    g5 = dict(g3)
    g5[0.97] = g3[0.85] * rng.uniform(1.1, 1.5)
    g5[rng.choice([0.99, 0.995])] = g5[0.97] * rng.uniform(1.05, 1.4)
    variants.append(('5pt-top', g5))
    for lab, inp in variants:
        where = {'input': inp, 'Dp': Dp, 'nu': nu, 'rhol': rhol, 'rhos': rhos, 'kind': lab}
        try:
            g = fw.create_fracs(dict(inp), Dp, nu, rhol, rhos)
        except Exception as e:
            S.violation('C12:exception', f'create_fracs raised {type(e).__name__}: {e}', input=where)
            continue
        check(inp, g, Dp, nu, rhol, rhos, where)
        S.count(repr(sorted(where['input'].items())) + repr((Dp, rhos)), lab)
    # the lookup on a slurry object
    if i % 5 == 0:
        try:
            s = SlurryObj.Slurry(Dp=Dp, D50=D50, fluid=rng.choice(['salt', 'fresh']))
            s.rhos = rhos
            s.generate_GSD(r15, r85)
            fr = sorted(s.GSD)
            prev = None
            for f in [0.001, 0.01] + [k / 50 for k in range(1, 50)] + [0.995]:
                d = s.get_dx(f)
                if prev is not None and not d > prev:
                    S.violation('C12:get_dx-increasing', f'get_dx({f}) = {d} is not above the value at the previous fraction', input={'Dp': Dp, 'D50': D50, 'r15': r15, 'r85': r85})
                prev = d
            for k in fr[1:-1]:
                if s.get_dx(k) != s.GSD[k]:
                    S.violation('C12:get_dx-node', f'get_dx({k}) != tabulated diameter', input={'Dp': Dp, 'D50': D50})
            for bad in (0.0, 1.0, -0.1, 1.5):
                try:
                    s.get_dx(bad)
                    S.violation('C12:get_dx-rejects', f'get_dx({bad}) was accepted', input={'Dp': Dp, 'D50': D50})
                except ValueError:
                    pass
            S.count(('slurry', Dp, D50), 'get_dx')
        except Exception as e:
            S.count(None, 'exception:' + type(e).__name__)
    if i == 0:
        S.sample({'input': g3, 'Dp': Dp, 'rhos': rhos})
S.finish()
