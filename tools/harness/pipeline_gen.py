"""pipeline_gen.py: random pipelines in the quantifier of C09/C14 and their encodings."""
import copy
from common import hx


def gen_sections(rng, with_entrance=None):
    """2-8 pipe sections (d 0.4-0.9, L 0-3000, K 0-2, dz -15..+10), first and last are pipes, 0-3 pumps in between"""
    npipes = rng.randint(2, 8)
    dias = [round(rng.uniform(0.4, 0.9), 3) for _ in range(rng.randint(1, 3))]
    pipes = []
    for i in range(npipes):
        L = rng.choice([0.0, rng.uniform(1, 50), rng.uniform(50, 3000), rng.uniform(50, 3000)])
        pipes.append(['P', rng.choice(dias), L, rng.choice([0.0, rng.uniform(0, 2)]), rng.uniform(-15, 10)])
    if with_entrance is None:
        with_entrance = rng.random() < 0.6
    if with_entrance:
        pipes[0][2] = 0.0
        pipes[0][4] = -rng.uniform(2, 15)
    else:
        pipes[0][2] = rng.uniform(5, 200)
    if pipes[-1][2] == 0.0:
        pipes[-1][2] = rng.uniform(10, 500)
    secs = [pipes[0]]
    npumps = rng.randint(0, 3)
    slots = sorted(rng.randrange(1, npipes) for _ in range(npumps)) if npipes > 1 else []
    pid = 0
    for i in range(1, npipes):
        while slots and slots[0] == i:
            secs.append(['U', pid])
            pid += 1
            slots.pop(0)
        secs.append(pipes[i])
    return [tuple(s) for s in secs]


def encode_sections(secs):
    a = [str(len(secs))]
    for s in secs:
        if s[0] == 'P':
            a += ['P'] + [hx(x) for x in s[1:]]
        else:
            a += ['U', str(s[1])]
    return a


def synthetic_im(d, v):
    return 0.011 * v * v / d + 0.02 / (v + 0.1) + 0.001 * d


def synthetic_il(d, v):
    return 0.008 * v * v / d


def synthetic_point(pid, Q, water, rhol, rhom):
    k = float(pid)
    return (40.0 + 3.0 * k - (2.0 + k) * Q * Q) * (rhol if water else rhom)


def build_real(secs, slurry, PipeObj, PumpObj, template_pump):
    """the real Pipeline object for a section list; pumps are copies of a template with a _vid attribute"""
    lst = []
    for s in secs:
        if s[0] == 'P':
            lst.append(PipeObj.Pipe(f'pipe{len(lst)}', s[1], s[2], s[3], s[4]))
        else:
            p = copy.copy(template_pump)
            p._vid = s[1]
            p.name = f'pump{s[1]}'
            lst.append(p)
    return PipeObj.Pipeline(pipe_list=lst, slurry=slurry)
