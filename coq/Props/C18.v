(* C18 -- interpolating tables return exact piecewise-linear lookups.
   Statements only; proofs in Lemmas/LC18.v, LC18b.v.  Model: Num/Interp.v (hand-written, run against
   DHLLDV_Utils.interpDict on random tables); the shipped tables are regenerated from DHLLDV_constants.py. *)
From Coq Require Import Reals List Bool Sorted.
From DHV Require Import NumOps RInst Interp LC18 LC18b.
From DHV Require Tables.
Import ListNotations.
Local Open Scope R_scope.

(* a tabulated key returns its stored value (any n, any sign, any spacing) *)
Theorem C18_hit : forall tbl xlo xhi tol k v,
  increasing tbl -> In (k, v) tbl -> lookup RN tbl xlo xhi tol k = Some v.
Proof. exact LC18.lookup_hit. Qed.
Print Assumptions C18_hit.

(* strictly between two neighbouring keys: the straight line through the two neighbours *)
Theorem C18_interior : forall l1 x1 y1 x2 y2 l2 xlo xhi tol k,
  increasing (l1 ++ (x1, y1) :: (x2, y2) :: l2) -> x1 < k < x2 ->
  lookup RN (l1 ++ (x1, y1) :: (x2, y2) :: l2) xlo xhi tol k = Some ((y2 - y1) / (x2 - x1) * (k - x1) + y1).
Proof. exact LC18.lookup_interior. Qed.
Print Assumptions C18_interior.

Theorem C18_interior_between : forall x1 y1 x2 y2 k, x1 < x2 -> x1 <= k <= x2 ->
  Rmin y1 y2 <= (y2 - y1) / (x2 - x1) * (k - x1) + y1 <= Rmax y1 y2.
Proof. exact LC18.line_between. Qed.
Print Assumptions C18_interior_between.

(* above the range: the end segment is extended only when extrapolation is on or the key is within the
   tolerance of the top key; otherwise IndexError (None) *)
Theorem C18_high : forall l1 x1 y1 x2 y2 xlo xhi tol k,
  increasing (l1 ++ [(x1, y1); (x2, y2)]) -> x2 < k ->
  lookup RN (l1 ++ [(x1, y1); (x2, y2)]) xlo xhi tol k =
  if orb xhi (Rleb k (x2 * (1 + tol))) then Some ((y2 - y1) / (x2 - x1) * (k - x1) + y1) else None.
Proof. exact LC18.lookup_high. Qed.
Print Assumptions C18_high.

Theorem C18_low : forall x1 y1 x2 y2 l2 xlo xhi tol k,
  increasing ((x1, y1) :: (x2, y2) :: l2) -> k < x1 ->
  lookup RN ((x1, y1) :: (x2, y2) :: l2) xlo xhi tol k =
  if orb xlo (Rleb (x1 * (1 - tol)) k) then Some ((y2 - y1) / (x2 - x1) * (k - x1) + y1) else None.
Proof. exact LC18.lookup_low. Qed.
Print Assumptions C18_low.

(* for a positive end key the tolerance test reads "within 0.1 %" *)
Theorem C18_tolerance : forall x k, 0 < x ->
  (k <= x * (1 + 1 / 1000) <-> (k - x) / x <= 1 / 1000) /\ (x * (1 - 1 / 1000) <= k <-> (x - k) / x <= 1 / 1000).
Proof. intros; split; [apply LC18.tolerance_high|apply LC18.tolerance_low]; assumption. Qed.
Print Assumptions C18_tolerance.

Theorem C18_readonly : forall (tbl : list (R * R)) k v, setitem tbl k v = (tbl, Some E_KeyError).
Proof. exact LC18.setitem_refused. Qed.
Print Assumptions C18_readonly.

(* shipped tables *)
Theorem C18_shipped_positive :
  Forall (fun p => 0 < snd p) (Tables.water_density RN) /\
  Forall (fun p => 0 < snd p) (Tables.water_dynamic_viscosity RN) /\
  Forall (fun p => 0 < snd p) (Tables.water_viscosity RN).
Proof. exact (conj LC18b.density_positive (conj LC18b.dynvisc_positive LC18b.viscosity_positive)). Qed.
Print Assumptions C18_shipped_positive.

Theorem C18_shipped_keys :
  increasing (Tables.water_density RN) /\ increasing (Tables.water_dynamic_viscosity RN) /\ increasing (Tables.Arel_to_beta RN).
Proof. exact (conj LC18b.density_keys (conj LC18b.dynvisc_keys LC18b.beta_keys)). Qed.
Print Assumptions C18_shipped_keys.

(* water viscosity decreases with temperature: from node to node, and along every interpolating segment *)
Theorem C18_viscosity_decreasing :
  StronglySorted (fun p q : R * R => fst p < fst q /\ snd q < snd p) (Tables.water_viscosity RN) /\
  (forall x1 y1 x2 y2 a b, x1 < x2 -> y2 < y1 -> a < b ->
     (y2 - y1) / (x2 - x1) * (b - x1) + y1 < (y2 - y1) / (x2 - x1) * (a - x1) + y1).
Proof. exact (conj LC18b.viscosity_decreasing_nodes LC18b.line_decreasing). Qed.
Print Assumptions C18_viscosity_decreasing.

(* non-vacuity: a concrete table meets the premises of the interior clause *)
Example C18_example : increasing ([] ++ (1, 10) :: (2, 30) :: [(4, 20)]) /\ 1 < 3 / 2 < 2.
Proof. exact LC18.example_premises. Qed.
Print Assumptions C18_example.

(* global monotonicity: a table whose keys and values both increase, read with both extrapolation flags on, denotes a
   strictly increasing function on the whole real line (it is the piecewise-linear function through its rows) *)
From DHV Require Import LMono.
Theorem C18_monotone : forall (tbl : list (R * R)) (tol a b : R), rising tbl -> (2 <= length tbl)%nat -> a < b ->
  exists va vb, lookup RN tbl true true tol a = Some va /\ lookup RN tbl true true tol b = Some vb /\ va < vb.
Proof. exact LMono.lookup_increasing. Qed.
Print Assumptions C18_monotone.

Theorem C18_is_piecewise_linear : forall (tbl : list (R * R)) (tol k : R), increasing tbl -> (2 <= length tbl)%nat ->
  lookup RN tbl true true tol k = Some (pwl tbl k).
Proof. exact LMono.lookup_pwl. Qed.
Print Assumptions C18_is_piecewise_linear.
