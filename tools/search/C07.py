#!/venv/bin/python
"""C07 failing-input search on the real code: after any sequence of setter / generate_GSD calls and
reads, everything a Slurry exposes must equal what a freshly built Slurry with the same final
parameters (incl. the current D15/D50/D85 ratios) exposes.  Bounded-exhaustive over the setter
alphabet (depth 2 quick, 3 thorough), random to depth 12, and the per-diameter copies made by
Pipeline.update_slurries.  Tolerance 1e-9 relative (the recovered ratios pass through log10/pow)."""
import itertools
import random
from scommon import Search, seed
import slurry_ops as so
from DHLLDV import SlurryObj, PipeObj

S = Search('C07', 'operation sequences on a real Slurry: exhaustive over 20 setter/generate ops to depth 2 (3 when budget >= 3000), '
                  'random to depth 12, Pipeline.update_slurries copies; after the sequence every read (GSD, get_dx, point gradients, '
                  'scalars, and on a subset the full curve tables) is compared with a freshly built object; distinct = distinct sequence')
INIT = dict(Dp=0.762, D50=1.0e-3, fluid='salt', Cv=0.175, max_index=5)
REL = 1e-9


def rhol_of(fluid):
    return SlurryObj.Slurry(fluid=fluid).rhol


def check_against_fresh(s, ghost, ops, reads):
    f = ghost.build(SlurryObj)
    for r in reads:
        try:
            a = so.apply_op(s, r)
            b = so.apply_op(f, r)
        except Exception as e:   # finiteness / errors belong to C02, not to staleness
            S.count(None, 'exception:' + type(e).__name__)
            return
        ok, where = so.close_tokens(a, b, REL)
        if not ok:
            S.violation(f'C07:stale:{r[0]}', f'after {ops} the read {r} differs from a freshly built object (token {where})',
                        ops=[list(o) if isinstance(o, tuple) else o for o in ops], read=list(r),
                        observed=a[:8], required=b[:8])
            return


def run_seq(ops, reads, interleave=None):
    s = SlurryObj.Slurry(**INIT)
    g = so.Ghost(INIT)
    try:
        for i, o in enumerate(ops):
            so.apply_op(s, o)
            g.apply(o, rhol_of)
            if interleave and i in interleave:
                so.apply_op(s, interleave[i])
    except Exception as e:
        S.count(None, 'exception:' + type(e).__name__)
        return
    check_against_fresh(s, g, ops, reads)
    S.count(repr(ops), f'depth{len(ops)}')


alpha = so.alphabet()
LIGHT = [('rGSD',), ('rdx', 0.15), ('rdx', 0.85), ('rpoint', 3.0), ('rscalars',)]
depth = 3 if S.budget >= 3000 else 2
for d in range(1, depth + 1):
    for ops in itertools.product(alpha, repeat=d):
        run_seq(list(ops), LIGHT)
        # the same sequence with a read of the grading / curves in the middle (caches get filled)
        if d >= 2:
            run_seq(list(ops), LIGHT, interleave={0: ('rpoint', 2.0)})
rng = random.Random(seed())
for i in range(S.budget):
    ops = [o for o in so.random_ops(rng, rng.randint(2, 12), p_read=0.0)]
    inter = {j: rng.choice(so.READS) for j in range(len(ops)) if rng.random() < 0.4}
    reads = LIGHT + ([('rcurves',)] if i % 10 == 0 else [])
    run_seq(ops, reads, interleave=inter)
    if i == 0:
        S.sample({'ops': ops, 'interleaved_reads': {str(k): v for k, v in inter.items()}})
# copies made by Pipeline.update_slurries
for i in range(max(5, S.budget // 20)):
    # fine sands too: only when the pseudo-liquid limit cuts into the grading does it differ between diameters
    init = dict(INIT, D50=rng.choice([1.0e-3, 3.0e-4, 2.2e-4, 1.5e-4]))
    s = SlurryObj.Slurry(**init)
    d1, d2 = rng.choice([(0.5, 0.6), (0.762, 0.8636), (0.4, 0.9)])
    pl = PipeObj.Pipeline(pipe_list=[PipeObj.Pipe('a', d1, 0, 0.5, -5.0), PipeObj.Pipe('b', d2, 500, 1.0, 1.0),
                                     PipeObj.Pipe('c', d1, 300, 0.5, 1.0)], slurry=s)
    g = so.Ghost(dict(init, Dp=s.Dp))
    ops = so.random_ops(rng, rng.randint(0, 4), p_read=0.0)
    ops = [o for o in ops if o[0] not in ('Dp',)]
    try:
        for o in ops:
            so.apply_op(pl.slurry, o)
            g.apply(o, rhol_of)
        _ = pl.slurry.GSD
        # envelope: the grain size stays above the pseudo-liquid limit of every diameter involved (below it the
        # grading ratios cannot be read back from a stored grading: outside the property's quantifier)
        from DHLLDV import DHLLDV_framework as _fw
        ps = pl.slurry
        if any(ps.D50 <= 1.02 * _fw.pseudo_dlim(dd, ps.nu, ps.rhol, ps.rhos) for dd in (d1, d2, ps.Dp)):
            S.count(None, 'pipeline_copies:below-limit-skipped')
            continue
        if rng.random() < 0.5:
            pl.Cv = 0.22
            g.Cv = 0.22
        else:
            pl.slurry = pl.slurry
        # two passes over the copies, then the shared slurry itself: a read of one copy must not disturb another
        # (the copies are shallow: any container they share must never be mutated in place)
        for rnd in (1, 2):
            for dia, sc in pl.slurries.items():
                gd = so.Ghost(init)
                gd.__dict__.update(g.__dict__)
                gd.Dp = dia
                check_against_fresh(sc, gd, ops + [('update_slurries', dia, 'pass', rnd)], LIGHT)
        gm = so.Ghost(init)
        gm.__dict__.update(g.__dict__)
        gm.Dp = pl.slurry.Dp
        check_against_fresh(pl.slurry, gm, ops + [('update_slurries', 'shared slurry')], LIGHT)
    except Exception as e:
        S.count(None, 'exception:' + type(e).__name__)
        continue
    S.count(repr(('pl', ops, d1, d2)), 'pipeline_copies')
S.finish()
