#!/venv/bin/python
"""corr_slurry.py: correspondence of the hand-written grading / graded-sand / slurry-curve models
(coq/Models/Fracs.v, Graded.v, SlurryCalc.v) with the real DHLLDV_framework.create_fracs,
Erhg_graded and SlurryObj.Slurry.

usage: corr_slurry.py --out <json> --n N [--parts fracs,getdx,regen,graded,curves,point,scalars]

Agreement: bit-for-bit is expected and reported; for these hand-written models a difference below
1e-12 relative with no difference in any discrete output (list lengths, regimes, error class) is
counted separately as ulp_level_differences (DESIGN.md 3.5).  Anything else is a disagreement.
"""
import argparse
import math
import random
import sys

from common import (Driver, Stats, check_repo_import, hx, py_outcome, same_float, ulp_close, sample_E, seed,
                    pseudo_dlim, write_json)


def flat_pairs(d):
    out = [str(len(d))]
    for k in sorted(d):
        out += [hx(k), hx(d[k])]
    return out


def tok_list(name, l):
    return ['@' + name, str(len(l))] + [float(x) for x in l]


def tok_pairs(name, d):
    out = ['@' + name, str(len(d))]
    for k in sorted(d):
        out += [float(k), float(d[k])]
    return out


def compare(py_toks, ml_toks):
    """-> 'exact' | 'ulp' | 'diff'"""
    if len(py_toks) != len(ml_toks):
        return 'diff'
    res = 'exact'
    for p, m in zip(py_toks, ml_toks):
        if isinstance(p, float):
            try:
                mv = float.fromhex(m)
            except ValueError:
                try:
                    mv = float(m.replace('-nan', 'nan'))
                except ValueError:
                    return 'diff'
            if same_float(p, mv):
                continue
            if ulp_close(p, mv):
                res = 'ulp'
                continue
            return 'diff'
        if str(p) != m:
            return 'diff'
    return res


def gen_slurry_params(rng):
    b = sample_E(rng)
    Dp, nu, rhol, rhos = b['Dp'], b['nu'], b['rhol'], b['rhos']
    fluid = None
    if rng.random() < 0.5:
        fluid = rng.choice(['salt', 'fresh'])
    dl = max(pseudo_dlim(Dp, nu, rhol, rhos), 5e-5)
    D50 = math.exp(rng.uniform(math.log(dl * 1.001), math.log(0.25 * Dp)))
    r15 = rng.choice([rng.uniform(1.02, 6.0), rng.uniform(1.02, 1.5), 2.0])
    r85 = rng.choice([rng.uniform(1.02, 6.0), rng.uniform(1.02, 1.5), 2.72])
    r85 = min(r85, 0.5 * Dp / D50)
    if r85 <= 1.02:
        r85 = 1.05
    return dict(Dp=Dp, nu=nu, rhol=rhol, rhos=rhos, fluid=fluid, D50=D50, r15=r15, r85=r85, Cv=b['Cv'],
                eps=b['epsilon'], vls=b['vls'])


def main():
    ap = argparse.ArgumentParser()
    ap.add_argument('--out', required=True)
    ap.add_argument('--n', type=int, default=100)
    ap.add_argument('--parts', default='fracs,getdx,regen,graded,curves,point,scalars')
    a = ap.parse_args()
    parts = a.parts.split(',')
    check_repo_import()
    from DHLLDV import DHLLDV_framework as fw, SlurryObj
    rng = random.Random(seed())
    st = Stats()
    st.ulp = 0
    reqs, expect = [], []
    dist = {}

    def add(name, margs, out_fn, label, bucket):
        reqs.append((name, margs))
        expect.append((name, label, out_fn))
        dist[bucket] = dist.get(bucket, 0) + 1

    for i in range(a.n):
        g = gen_slurry_params(rng)
        Dp, nu, rhol, rhos, D50 = g['Dp'], g['nu'], g['rhol'], g['rhos'], g['D50']
        gsd3 = {0.15: D50 / g['r15'], 0.5: D50, 0.85: D50 * g['r85']}
        # ---- raw discretisation: 3-point, and 4-point with an extra point at 0 or 0.05
        if 'fracs' in parts:
            variants = [('3pt', gsd3)]
            extra_f = rng.choice([0, 0.05])
            lo = gsd3[0.15]
            extra_d = lo / rng.uniform(1.1, 4.0)
            g4 = dict(gsd3)
            g4[extra_f] = extra_d
            variants.append((f'4pt@{extra_f}', g4))
            if rng.random() < 0.3:
                g5 = dict(g4)
                g5[0.95] = gsd3[0.85] * rng.uniform(1.05, 1.5)
                variants.append(('5pt', g5))
            for lab, gs in variants:
                nf = 10
                o = py_outcome(fw.create_fracs, dict(gs), Dp, nu, rhol, rhos)
                add('Fracs.create_fracs', flat_pairs(gs) + [hx(Dp), hx(nu), hx(rhol), hx(rhos), str(nf)],
                    (lambda o=o: o if o[0] == 'err' else ('ok', tok_pairs('GSD', o[1]))),
                    {'gsd': gs, 'Dp': Dp, 'nu': nu, 'rhol': rhol, 'rhos': rhos}, 'create_fracs:' + lab)
        # ---- the slurry object
        s = SlurryObj.Slurry(Dp=Dp, D50=D50, fluid=g['fluid'] or 'salt', Cv=g['Cv'], max_index=rng.choice([100, 100, 30, 7]))
        if g['fluid'] is None:
            s.nu, s.rhol = nu, rhol
            s.Dp = Dp   # marks everything dirty again
        else:
            nu, rhol = s.nu, s.rhol
        s.rhos = rhos
        o = py_outcome(lambda: s.generate_GSD(g['r15'], g['r85']))
        if o[0] == 'err':
            continue
        GSD = dict(s.GSD)
        if 'getdx' in parts:
            for f in [0.15, 0.5, 0.85, rng.random(), sorted(GSD)[1], 0.0, 1.0, rng.uniform(0.001, 0.02), 0.9995]:
                o = py_outcome(s.get_dx, f)
                add('Fracs.get_dx', flat_pairs(GSD) + [hx(f)], (lambda o=o: o if o[0] == 'err' else ('ok', [float(o[1])])),
                    {'GSD': GSD, 'frac': f}, 'get_dx')
        if 'regen' in parts:
            for r15, r85 in [(None, None), (g['r15'] * 1.1, None), (None, 0), (1.5, 2.5)]:
                import copy
                s2 = copy.copy(s)
                o = py_outcome(lambda: (s2.generate_GSD(r15, r85), dict(s2._GSD))[1])
                add('Fracs.generate_GSD', flat_pairs(GSD) + [hx(D50), hx(Dp), hx(nu), hx(rhol), hx(rhos),
                                                               'None' if r15 is None else hx(r15), 'None' if r85 is None else hx(r85)],
                    (lambda o=o: o if o[0] == 'err' else ('ok', tok_pairs('GSD', o[1]))),
                    {'GSD': GSD, 'D50': D50, 'r15': r15, 'r85': r85}, 'generate_GSD')
        sw = (rng.random() < 0.7, rng.random() < 0.7)
        if 'graded' in parts:
            for cvt in (False, True):
                for refrac, gs in ((False, GSD), (True, gsd3)):
                    fw.use_sf, fw.use_sqrtcx = sw
                    o = py_outcome(fw.Erhg_graded, dict(gs), g['vls'], Dp, g['eps'], nu, rhol, rhos, g['Cv'],
                                   Cvt_eq_Cvs=cvt, num_fracs=(10 if refrac else None), get_dict=True)
                    fw.use_sf, fw.use_sqrtcx = True, True

                    def enc(o=o):
                        if o[0] == 'err':
                            return o
                        r = o[1]
                        return ('ok', tok_list('ims', r['ims']) + [float(r['im_x'])] + tok_list('ds', r['ds']) + tok_list('dxs', r['dxs'])
                                + tok_list('fracs', r['fracs']) + tok_pairs('GSD', r['GSD'])
                                + [float(r[k]) for k in ('dmin', 'X', 'mu_x', 'nu_x', 'rhox', 'Rsd_x', 'Cv_x', 'Cv_r', 'Erhg_x', 'Erhg', 'il')])
                    add('Graded.dict', ['1' if sw[0] else '0', '1' if sw[1] else '0'] + flat_pairs(gs)
                        + [hx(x) for x in (g['vls'], Dp, g['eps'], nu, rhol, rhos, g['Cv'])] + ['1' if cvt else '0', '1' if refrac else '0'],
                        enc, {'gsd': gs, 'vls': g['vls'], 'Dp': Dp, 'nu': nu, 'rhol': rhol, 'rhos': rhos, 'Cv': g['Cv'], 'cvt': cvt,
                              'refrac': refrac, 'switches': sw}, f'graded:cvt={cvt},refrac={refrac}')
        pargs = [hx(x) for x in (Dp, s.epsilon, nu, rhol, D50, g['Cv'], rhos, s.rhoi)] + [str(s.max_index)]
        if 'curves' in parts and i % 4 == 0:
            fw.use_sf, fw.use_sqrtcx = sw

            def get_curves():
                s.curves_dirty = True
                e, im, l1, l2 = s.Erhg_curves, s.im_curves, s.LDV_curves, s.LDV85_curves
                t = tok_list('vls', s.vls_list)
                for k in ('il', 'Cvs_Erhg', 'FB', 'SB', 'He', 'Ho'):
                    t += tok_list('E.' + k, e[k])
                t += ['@E.Cvs_regime', str(len(e['Cvs_regime']))] + list(e['Cvs_regime'])
                for k in ('Cvs_from_Cvt', 'Cvt_Erhg', 'graded_Cvs_Erhg', 'graded_Cvt_Erhg'):
                    t += tok_list('E.' + k, e[k])
                for k in ('il', 'Cvs_im', 'FB', 'SB', 'He', 'ELM', 'Ho', 'Cvt_im', 'graded_Cvs_im', 'graded_Cvt_im'):
                    t += tok_list('I.' + k, im[k])
                for nm, l in (('LDV', l1), ('LDV85', l2)):
                    for k, pk in (('Cv', 'Cv'), ('vls', 'vls'), ('il', 'il'), ('Erhg', 'Erhg'), ('im', 'im')):
                        t += tok_list(nm + '.' + k, l[pk])
                return t
            o = py_outcome(get_curves)
            fw.use_sf, fw.use_sqrtcx = True, True
            add('Slurry.curves', ['1' if sw[0] else '0', '1' if sw[1] else '0'] + pargs + flat_pairs(GSD),
                (lambda o=o: o), {'params': g, 'switches': sw, 'max_index': s.max_index}, 'curves')
        if 'point' in parts:
            for v in (g['vls'], 0.1, (rng.randrange(100) + 1) / 10.):
                o = py_outcome(lambda: [float(s.il(v)), float(s.Erhg(v)), float(s.im(v))])
                add('Slurry.point', ['1', '1'] + pargs + flat_pairs(GSD) + [hx(v)], (lambda o=o: o),
                    {'params': g, 'vls': v}, 'point')
        if 'scalars' in parts:
            o = py_outcome(lambda: [float(s.Rsd), float(s.rhom), float(s.Cvi), float(s.Dmean)])
            add('Slurry.scalars', pargs + flat_pairs(GSD), (lambda o=o: o), {'params': g}, 'scalars')

    replies = Driver().batch(reqs)
    for (name, label, out_fn), rep in zip(expect, replies):
        st.evaluations += 1
        o = out_fn()
        key = (name, repr(label))
        st.distinct.add(key)
        pf = st.per_function.setdefault(name, {'cases': 0, 'exact': 0, 'ulp': 0, 'err': 0})
        pf['cases'] += 1
        if o[0] == 'err':
            pf['err'] += 1
            st.err_kinds[o[1]] = st.err_kinds.get(o[1], 0) + 1
            if rep[0] == 'err':
                st.agree_err += 1
            else:
                st.disagree.append({'function': name, 'input': label, 'python': o, 'model': ['ok'] + rep[1][:6]})
            continue
        if rep[0] != 'ok':
            st.disagree.append({'function': name, 'input': label, 'python': 'ok', 'model': rep})
            continue
        c = compare(o[1], rep[1])
        if c == 'exact':
            st.agree += 1
            pf['exact'] += 1
            st.nontrivial.add(key)
        elif c == 'ulp':
            st.ulp += 1
            pf['ulp'] += 1
            st.nontrivial.add(key)
        else:
            # find the first differing token for the report
            first = next((j for j, (p, m) in enumerate(zip(o[1], rep[1]))
                          if (isinstance(p, float) and not (m.startswith('0x') or m.startswith('-0x')) ) or
                          (isinstance(p, float) and not ulp_close(p, float.fromhex(m))) or
                          (not isinstance(p, float) and str(p) != m)), None)
            st.disagree.append({'function': name, 'input': label, 'first_diff_token': first,
                                'python': [x.hex() if isinstance(x, float) else x for x in o[1][max(0, (first or 0) - 2):(first or 0) + 3]],
                                'model': rep[1][max(0, (first or 0) - 2):(first or 0) + 3], 'len': [len(o[1]), len(rep[1])]})
        if len(st.samples) < 4 and st.evaluations % 53 == 1:
            st.samples.append({'function': name, 'input': label})
    res = {'ok': not st.disagree, 'evaluations': st.evaluations, 'agree_bit_exact': st.agree, 'agree_on_error': st.agree_err,
           'ulp_level_differences': st.ulp, 'distinct': len(st.distinct), 'distinct_nontrivial': len(st.nontrivial),
           'disagreements': st.disagree[:10], 'n_disagreements': len(st.disagree), 'per_function': st.per_function,
           'error_kinds': st.err_kinds, 'distribution': dist, 'samples': st.samples, 'seed': seed(), 'wall_s': st.wall()}
    write_json(a.out, res)
    print(f"corr_slurry: {st.evaluations} evaluations, {st.agree} bit-exact, {st.ulp} ulp-level, {st.agree_err} agree-on-error, "
          f"{len(st.disagree)} disagreements, {st.wall()} s")
    sys.exit(0 if not st.disagree else 1)


if __name__ == '__main__':
    main()
