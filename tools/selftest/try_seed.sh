#!/bin/bash
# try_seed.sh <property> <dir with patch.diff demo.py>: confirm a seeded change (tests pass, demo fails with
# it and passes without) in a scratch worktree, then run ./check <property> against it.
set -u
P=$1; D=$2; WT=/tmp/wt-seed-$P-$$
git -C /repo worktree add -q $WT HEAD || exit 2
trap "git -C /repo worktree remove --force $WT" EXIT
git -C $WT apply "$D/patch.diff" || { echo "patch does not apply"; exit 2; }
echo "== tests"; (cd $WT && PYTHONPATH=$WT/src:$WT/DHLLDV_viewer /venv/bin/python -m pytest -q -p no:cacheprovider --timeout=900 --continue-on-collection-errors 2>&1 | tail -1)
echo "== demo on changed tree (expect 1)"; PYTHONPATH=$WT/src:$WT/DHLLDV_viewer /venv/bin/python "$D/demo.py" $WT > /tmp/demo-$P.out 2>&1; echo "exit=$?"; tail -2 /tmp/demo-$P.out
echo "== demo on /repo (expect 0)"; PYTHONPATH=/repo/src:/repo/DHLLDV_viewer /venv/bin/python "$D/demo.py" /repo > /dev/null 2>&1; echo "exit=$?"
echo "== check"; cd /verif; cp evidence/$P.json /tmp/evidence-$P-$$.json 2>/dev/null
VERIF_REPO=$WT ./check $P --tier ${TIER:-quick}; echo "check exit=$?"
cp evidence/$P.json /tmp/evidence-seed-$P.json 2>/dev/null; mv /tmp/evidence-$P-$$.json evidence/$P.json 2>/dev/null
# put the generated model back in step with /repo
for g in gen.py gen_deps.py gen_files.py gen_units.py gen_pumps.py; do /venv/bin/python tools/translate/$g /repo coq/Gen > /dev/null; done
