#!/usr/bin/env python3
"""mkmanifest.py: write MANIFEST.json from tools/props.py (keeps the two in step)."""
import json, os, sys
here = os.path.dirname(os.path.abspath(__file__))
sys.path.insert(0, here)
import props as P
verif = os.path.dirname(here)
ids = [json.loads(l)['id'] for l in open(os.path.join(verif, 'properties.jsonl'))]
checks, na = [], []
for pid in ids:
    c = P.PROPS.get(pid)
    if not c or c.get('not_applicable'):
        na.append({'property_id': pid, 'reason': (c or {}).get('not_applicable', 'not yet claimed: the model and theorems for this property are not built in this revision (see DESIGN.md section 5)')})
        continue
    checks.append({
        'property_id': pid,
        'quick_cmd': f'./check {pid} --tier quick',
        'thorough_cmd': f'./check {pid} --tier thorough',
        'evidence_file': f'/verif/evidence/{pid}.json',
        'replay_cmd_template': f'./check {pid} --replay {{path}}',
        'engine': 'coq-proof',
        'level_claimed': {'category': 'proof', 'text': c['level_text'], 'design_ref': c.get('design_ref', f'DESIGN.md section 5, {pid}')},
        'level_note': c['level_note'],
        'technique': c.get('technique', 'machine-checked proof in Coq 8.16.1 over a model regenerated from the Python source, tied by bit-exact differential execution of the extracted model'),
    })
m = {
    'version': 1,
    'setup_cmd': './setup.sh',
    'hooks': {'guard': 'DHLLDV_VERIF', 'enable': 'no source hooks are needed: checks import the unmodified package from /repo/src (and the viewer against tools/fakebokeh)',
              'baseline_off_cmd': 'cd /repo && /venv/bin/python -m pytest -ra -q -p no:cacheprovider --timeout=900 --continue-on-collection-errors',
              'source_commits': [], 'add_only': True},
    'engines': [{'name': 'coq-proof', 'path': '/verif/check', 'serves_properties': [c['property_id'] for c in checks],
                 'kind_free_text': 'Coq 8.16.1 theorems over a translator-regenerated model (coq/Gen) and hand models (coq/Models); OCaml extraction run bit-exactly against the real Python; failing-input search on the real code'}],
    'checks': checks,
    'not_applicable': na,
    'notes': 'See DESIGN.md. known_findings.json lists repaired (fixed:) and recorded defects.',
}
json.dump(m, open(os.path.join(verif, 'MANIFEST.json'), 'w'), indent=1)
print(f'{len(checks)} checks, {len(na)} not applicable')
