from ._core import Box


def column(*children, **kw):
    return Box(*children, **kw)


def row(*children, **kw):
    return Box(*children, **kw)
