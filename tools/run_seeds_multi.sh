#!/bin/bash
# run_seeds_multi.sh [seeds...]: every quick check on the unchanged tree for several VERIF_SEED values (false-alarm hunt)
cd /verif
for sd in "${@:-1 2 3}"; do
  for p in $(python3 -c "import json; print(' '.join(c['property_id'] for c in json.load(open('MANIFEST.json'))['checks']))"); do
    s=$(date +%s); out=$(VERIF_SEED=$sd ./check $p --tier quick 2>&1 | grep -v "^KNOWN-FINDING" | tail -1); e=$(( $(date +%s) - s ))
    echo "[seed $sd $p ${e}s] $out"
  done
done
