(* C04: the homogeneous excess gradient (Eqn 8.7-8, below the sliding-flow onset or with the sliding-flow blend switched
   off) lies between zero and the liquid gradient on the envelope with steel roughness.
   Upper bound: sb >= 1.  Lower bound: sb = (k ln(1+x) + 1)^2 <= 1 + x  with  x = Rsd Cvs  and
   k = (Acv/kvK) sqrt(lambda/8) <= 1/2, i.e. lambda <= 8/225 = 0.03556 -- true on the envelope with a 2 % margin
   (lambda <= 0.03474 at Re = 7142, eps/Dp = 4.5e-4). *)
From Coq Require Import Reals Lra.
From Interval Require Import Tactic.
From DHV Require Import NumOps RInst SwameeJain LIl LSettle LDefined.
From DHV Require Constants Homogeneous.
Local Open Scope R_scope.

Definition liqE_steel (vls Dp eps nu : R) : Prop := liqE vls Dp eps nu /\ eps <= 45 / 1000000.

Lemma Re_7142 vls Dp eps nu : liqE vls Dp eps nu -> 7142 <= Re_of vls Dp nu.
Proof.
  intros (Hv & HD & He & Hn). unfold Re_of. apply (Rmult_le_reg_r nu); [lra|].
  replace (vls * Dp / nu * nu) with (vls * Dp) by (field; lra). assert (1 / 100 <= vls * Dp) by nra. nra.
Qed.

Lemma c2_7142 Re : 7142 <= Re -> c2 Re <= 19556 / 10000000.
Proof.
  intro H. destruct (Req_EM_T Re 7142) as [->|N].
  - unfold c2. interval.
  - apply Rle_trans with (c2 7142); [left; apply c2_decreasing; lra|unfold c2; interval].
Qed.

Lemma lambda_small vls Dp eps nu : liqE_steel vls Dp eps nu ->
  Homogeneous.swamee_jain_ff RN (Homogeneous.pipe_reynolds_number RN vls Dp nu) Dp eps <= 8 / 225.
Proof.
  intros (HL & Hs). pose proof (Re_7142 _ _ _ _ HL) as R7. pose proof (c2_7142 _ R7) as C2. pose proof (c2_pos (Re_of vls Dp nu)) as C2p.
  rewrite Re_of_eq, sj_turbulent by lra. destruct HL as (Hv & HD & He & Hn).
  assert (C1 : 0 <= eps / (37 / 10 * Dp) <= 1217 / 10000000).
  { split; [apply Rmult_le_pos; [lra|left; apply Rinv_0_lt_compat; lra]|].
    apply (Rmult_le_reg_r (37 / 10 * Dp)); [lra|]. replace (eps / (37 / 10 * Dp) * (37 / 10 * Dp)) with eps by (field; lra). nra. }
  set (u := eps / (37 / 10 * Dp) + c2 (Re_of vls Dp nu)).
  assert (U : 0 < u <= 20773 / 10000000) by (unfold u; lra).
  assert (LU : 617 / 100 <= Lu (eps / (37 / 10 * Dp)) (Re_of vls Dp nu)).
  { unfold Lu. fold u. apply Rle_trans with (- ln (20773 / 10000000)); [interval|].
    apply Ropp_le_contravar. apply ln_le; lra. }
  set (L := Lu (eps / (37 / 10 * Dp)) (Re_of vls Dp nu)) in *.
  apply Rle_trans with (1325 / 1000 / ((617 / 100) ^ 2)); [|lra].
  unfold Rdiv. apply Rmult_le_compat_l; [lra|]. apply Rinv_le_contravar; [lra|]. apply pow_incr. lra.
Qed.

(* (k y + 1)^2 <= exp y  for y >= 0 and 0 <= k <= 1/2:  k y + 1 <= 1 + y/2 <= exp(y/2) *)
Lemma sq_below_exp k y : 0 <= y -> 0 <= k <= 1 / 2 -> (k * y + 1) ^ 2 <= exp y.
Proof.
  intros Hy Hk. replace (exp y) with (exp (y / 2) ^ 2) by (simpl; rewrite Rmult_1_r, <- exp_plus; f_equal; field).
  apply pow_incr. split; [nra|].
  apply Rle_trans with (1 + y / 2); [nra|].
  destruct (Req_EM_T y 0) as [->|N]; [replace (0 / 2) with 0 by field; rewrite exp_0; lra|].
  left. apply exp_ineq1. lra.
Qed.

Theorem ho_bounds vls Dp d eps nu rhol rhos Cvs (sf : bool) :
  liqE_steel vls Dp eps nu -> 0 < d -> 0 < rhol < rhos -> 0 < Cvs ->
  (sf = false \/ d / (Constants.particle_ratio RN * Dp) < 1) ->
  0 <= Homogeneous.Erhg RN vls Dp d eps nu rhol rhos Cvs sf <= Homogeneous.fluid_head_loss RN vls Dp eps nu rhol.
Proof.
  intros HS Hd Hr HC Hsf. pose proof HS as (HL & He45).
  pose proof (lambda_small _ _ _ _ HS) as LS. pose proof (lambda_pos _ _ _ _ HL) as LP. pose proof (il_pos vls Dp eps nu rhol HL) as IL.
  unfold Homogeneous.Erhg. cbv zeta.
  set (il := Homogeneous.fluid_head_loss RN vls Dp eps nu rhol) in *.
  set (lam1 := Homogeneous.swamee_jain_ff RN (Homogeneous.pipe_reynolds_number RN vls Dp nu) Dp eps) in *.
  unfold Homogeneous.Acv, Homogeneous.kvK. toR.
  assert (COND : (negb sf || Rltb (d / (Constants.particle_ratio RN * Dp)) 1)%bool = true).
  { destruct Hsf as [->|F]; [reflexivity|]. apply Bool.orb_true_iff. right. apply Rltb_true. exact F. }
  rewrite COND.
  (* sqrt(lambda/8) <= 1/15 *)
  set (s := Rpower (lam1 / 8) (5 / 10)).
  assert (S0 : 0 < s) by (unfold s, Rpower; apply exp_pos).
  assert (S1 : s <= 1 / 15).
  { unfold s. rewrite Rpower_half by lra. replace (1 / 15) with (sqrt (1 / 225)).
    - apply sqrt_le_1; lra.
    - replace (1 / 225) with ((1 / 15) * (1 / 15)) by field. apply sqrt_square. lra. }
  set (x := (rhos - rhol) / rhol * Cvs).
  assert (X0 : 0 < x) by (unfold x; apply Rmult_lt_0_compat; [apply Rdiv_lt_0_compat; lra|lra]).
  assert (RM : (rhol + Cvs * (rhos - rhol)) / rhol = 1 + x) by (unfold x; field; lra).
  rewrite RM.
  set (y := ln (1 + x)). assert (Y0 : 0 <= y) by (unfold y; rewrite <- ln_1; apply ln_le; lra).
  set (k := 30 / 10 / (4 / 10) * s).
  assert (K : 0 <= k <= 1 / 2) by (unfold k; split; nra).
  set (sb := (30 / 10 / (4 / 10) * y * s + 1) ^ 2).
  assert (SBk : sb = (k * y + 1) ^ 2) by (unfold sb, k; ring).
  assert (SB1 : 1 <= sb).
  { rewrite SBk. replace 1 with (1 ^ 2) at 1 by ring. apply pow_incr. split; [lra|]. assert (0 <= k * y) by (apply Rmult_le_pos; lra). lra. }
  assert (SB2 : sb <= 1 + x).
  { rewrite SBk. apply Rle_trans with (exp y); [apply sq_below_exp; assumption|]. unfold y. rewrite exp_ln by lra. lra. }
  (* t = top / bottom in [0, 1] *)
  set (t := (1 + x - sb) / (x * sb)).
  assert (B0 : 0 < x * sb) by (apply Rmult_lt_0_compat; lra).
  assert (T0 : 0 <= t) by (unfold t; apply Rmult_le_pos; [lra|left; apply Rinv_0_lt_compat; exact B0]).
  assert (T1 : t <= 1).
  { unfold t. apply (Rmult_le_reg_r (x * sb)); [exact B0|]. replace ((1 + x - sb) / (x * sb) * (x * sb)) with (1 + x - sb) by (field; lra). nra. }
  (* delta in (0, 1] *)
  set (dl := Rmin (116 / 10 * nu / (s * vls * d)) 1).
  assert (DL : 0 < dl <= 1).
  { unfold dl. destruct HL as (Hv & HD & He & Hn). split; [|apply Rmin_r].
    apply Rmin_glb_lt; [|lra]. apply Rdiv_lt_0_compat; [lra|]. apply Rmult_lt_0_compat; [apply Rmult_lt_0_compat; lra|lra]. }
  assert (F : 0 <= 1 - (1 - t) * (1 - dl) <= 1) by (split; nra).
  split; [apply Rmult_le_pos; lra|]. rewrite <- (Rmult_1_r il) at 2. apply Rmult_le_compat_l; lra.
Qed.

(* ---------- the selected excess gradient is never negative ---------- *)
From DHV Require Import LHe LC01 LC05.
From DHV Require Heterogeneous Stratified Framework.

Lemma ho_nonneg vls Dp d eps nu rhol rhos Cvs (sf : bool) :
  liqE_steel vls Dp eps nu -> 0 < d -> 0 < rhol < rhos -> 0 < Cvs ->
  0 <= Homogeneous.Erhg RN vls Dp d eps nu rhol rhos Cvs sf.
Proof.
  intros HS Hd Hr HC. pose proof HS as ((Hv & HD & He & Hn) & _).
  destruct (Rlt_dec (d / (Constants.particle_ratio RN * Dp)) 1) as [F|F].
  - apply (ho_bounds vls Dp d eps nu rhol rhos Cvs sf); auto.
  - destruct sf; [|apply (ho_bounds vls Dp d eps nu rhol rhos Cvs false); auto].
    pose proof (ho_bounds vls Dp d eps nu rhol rhos Cvs false HS Hd Hr HC (or_introl eq_refl)) as (X0 & _).
    assert (E : Homogeneous.Erhg RN vls Dp d eps nu rhol rhos Cvs true =
                (Homogeneous.Erhg RN vls Dp d eps nu rhol rhos Cvs false +
                 (d / (Constants.particle_ratio RN * Dp) - 1) * Constants.musf RN) / (d / (Constants.particle_ratio RN * Dp))).
    { unfold Homogeneous.Erhg. cbv zeta. toR. cbn [negb orb].
      replace (Rltb (d / (Constants.particle_ratio RN * Dp)) 1) with false by (symmetry; apply Rltb_false; lra). reflexivity. }
    rewrite E. set (f := d / (Constants.particle_ratio RN * Dp)) in *.
    assert (M : 0 < Constants.musf RN) by (unfold Constants.musf; toR; lra).
    apply Rmult_le_pos; [|left; apply Rinv_0_lt_compat; lra]. assert (0 <= (f - 1) * Constants.musf RN) by (apply Rmult_le_pos; lra). lra.
Qed.

Lemma he_pos (sf sq : bool) vls Dp d eps nu rhol rhos Cvs : liqE vls Dp eps nu -> 0 < d -> 0 < rhol < rhos ->
  0 < Heterogeneous.Erhg RN vls Dp d eps nu rhol rhos Cvs sf sq.
Proof.
  intros HL Hd Hr. pose proof (lambda_pos _ _ _ _ HL) as LP. pose proof HL as (Hv & HD & He & Hn).
  assert (Hnu : 0 < nu) by lra.
  pose proof (ShrA_pos d nu rhol rhos Cvs Hd Hnu Hr) as A. pose proof (SrsB_pos d nu rhol rhos sq) as B.
  assert (V2 : 0 < vls ^ 2) by (apply pow_lt; lra).
  assert (S : 0 < Heterogeneous.Shr RN vls Dp d eps nu rhol rhos Cvs + Heterogeneous.Srs RN vls Dp d eps nu rhol rhos sq).
  { rewrite Shr_formula. rewrite Srs_formula by lra. apply Rplus_lt_0_compat; apply Rdiv_lt_0_compat; try assumption; try lra.
    apply Rmult_lt_0_compat; assumption. }
  unfold Heterogeneous.Erhg. cbv zeta. toR. set (f := d / (Constants.particle_ratio RN * Dp)).
  destruct (negb sf || Rltb f 1)%bool eqn:C; [exact S|].
  apply Bool.orb_false_iff in C. destruct C as (_ & C). apply Rltb_false in C.
  assert (M : 0 < Constants.musf RN) by (unfold Constants.musf; toR; lra).
  apply Rdiv_lt_0_compat; [|lra]. assert (0 <= (f - 1) * Constants.musf RN) by (apply Rmult_le_pos; lra). lra.
Qed.

Theorem Cvs_nonneg (sf sq : bool) vls Dp d eps nu rhol rhos Cvs :
  liqE_steel vls Dp eps nu -> 0 < d -> 0 < rhol < rhos -> 0 < Cvs ->
  0 <= Framework.Cvs_Erhg RN sf sq vls Dp d eps nu rhol rhos Cvs.
Proof.
  intros HS Hd Hr HC. rewrite LC01.value. destruct (LC01.components sf sq vls Dp d eps nu rhol rhos Cvs) as (_ & _ & _ & _ & EH).
  rewrite EH. apply Rle_trans with (Homogeneous.Erhg RN vls Dp d eps nu rhol rhos Cvs true); [apply ho_nonneg; assumption|apply Rmax_r].
Qed.

Lemma sb_val vls Dp d eps nu rhol rhos Cvs : Stratified.Erhg RN vls Dp d eps nu rhol rhos Cvs = Constants.musf RN.
Proof. reflexivity. Qed.

(* delivered-concentration input: whenever the slip ratio is below 1 (C05) *)
Theorem Cvt_nonneg (sf sq : bool) vls Dp d eps nu rhol rhos Cvt :
  liqE_steel vls Dp eps nu -> 0 < d -> 0 < rhol < rhos -> 0 < Cvt ->
  Framework.slip_ratio RN vls Dp d eps nu rhol rhos Cvt < 1 ->
  0 <= Framework.Cvt_Erhg RN sf sq vls Dp d eps nu rhol rhos Cvt.
Proof.
  intros HS Hd Hr HC HX. pose proof HS as (HL & _).
  rewrite LC05.value_is_selected.
  pose proof (LC05.never_FB sf sq vls Dp d eps nu rhol rhos Cvt) as NF.
  destruct (LC05.dict_components sf sq vls Dp d eps nu rhol rhos Cvt) as (_ & ES & EHe & EHo & _).
  set (Xi := Framework.slip_ratio RN vls Dp d eps nu rhol rhos Cvt) in *.
  set (Cvs := Framework.Cvs_from_Cvt RN vls Dp d eps nu rhol rhos Cvt) in *.
  assert (D : 0 < 1 - Xi) by lra. assert (ID : 0 < 1 / (1 - Xi)) by (apply Rdiv_lt_0_compat; lra).
  assert (CS : 0 < Cvs).
  { unfold Cvs. rewrite (LC05.Cvs_from_Cvt_eq vls Dp d eps nu rhol rhos Cvt). fold Xi. apply Rmult_lt_0_compat; assumption. }
  destruct (LC01.components sf sq vls Dp d eps nu rhol rhos Cvs) as (_ & _ & CSB & CHe & CHo).
  assert (M : 0 < Constants.musf RN) by (unfold Constants.musf; toR; lra).
  destruct (Framework.Erhg7_regime _) eqn:R; [contradiction| | |].
  - rewrite ES, CSB, sb_val. unfold Rdiv. apply Rmult_le_pos; [lra|left; apply Rinv_0_lt_compat; exact D].
  - rewrite EHe, CHe. pose proof (he_pos sf sq vls Dp d eps nu rhol rhos Cvs HL Hd Hr).
    unfold Rdiv. apply Rmult_le_pos; [lra|left; apply Rinv_0_lt_compat; exact D].
  - rewrite EHo, CHo. pose proof (ho_nonneg vls Dp d eps nu rhol rhos Cvs true HS Hd Hr CS).
    unfold Rdiv. apply Rmult_le_pos; [lra|left; apply Rinv_0_lt_compat; exact D].
Qed.
