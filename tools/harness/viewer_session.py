"""viewer_session.py: drive the REAL DHLLDV_viewer (main.py + SystemTab.py) under the bokeh double in
tools/fakebokeh, one event sequence per forked child, and report what the property observes.

  V = load()                      import main once (in the parent); children are forked from it
  run_sequence(events) -> list of per-event records (in a forked child, so every sequence starts fresh)

An event is a tuple: ('text', widget, string) | ('click', button) | ('fluid', 0|1) | ('units', 'SI'|'US') |
('pipeline', key).  A record holds: raised (exception class or None), the model parameters, the widget texts,
digests / full data of the plotted sources, the per-section slurries, and the System-tab displays."""
import contextlib
import io
import json
import math
import os
import sys

HERE = os.path.dirname(os.path.abspath(__file__))
VERIF = os.path.dirname(os.path.dirname(HERE))
REPO = os.environ.get('VERIF_REPO', '/repo')

TEXT_WIDGETS = ['Dp_input', 'D15_input', 'D50_input', 'D85_input', 'rhos_input', 'rhom_input', 'Cv_input']
INFO_WIDGETS = ['roughness_label', 'fluid_viscosity_label', 'fluid_density_label', 'Rsd_input', 'Cvi_input']
BUTTONS = ['Dp_up_button', 'Dp_down_button', 'D50_up_button', 'D50_down_button', 'Cv_up_button', 'Cv_down_button']

_main = None


def load():
    global _main
    if _main is not None:
        return _main
    for p in (os.path.join(REPO, 'src'), os.path.join(REPO, 'DHLLDV_viewer'), os.path.join(VERIF, 'tools', 'fakebokeh')):
        if p in sys.path:
            sys.path.remove(p)
        sys.path.insert(0, p)
    with contextlib.redirect_stdout(io.StringIO()):
        import main
    assert os.path.realpath(main.__file__).startswith(os.path.realpath(REPO)), main.__file__
    import bokeh
    assert bokeh.__version__ == '0-double'
    _main = main
    return main


def documented_range(main, w):
    """the range each box documents, from the current model (the same formulas the search's oracle uses)"""
    from DHLLDV import DHLLDV_framework
    s = main.slurry
    if w == 'Dp_input':
        return 25.0, 1500.0
    if w == 'rhos_input':
        return 1.5, 7.0
    if w == 'rhom_input':
        return 1.05, 0.5 * (s.rhos - s.rhol) + s.rhol
    if w == 'Cv_input':
        return 0.01, 0.5
    if w == 'D15_input':
        return 0.04, s.D50 * 1000 - 0.01
    if w == 'D50_input':
        return (max(s.get_dx(0.15) * 1000 + 0.01, DHLLDV_framework.pseudo_dlim(s.Dp, s.nu, s.rhol, s.rhos) * 1000),
                min(s.get_dx(0.85) * 1000 - 0.01, s.Dp * 1000 * 0.25))
    if w == 'D85_input':
        return s.D50 * 1000 + 0.01, s.Dp * 1000 * 0.5
    raise KeyError(w)


def resolve(main, ev):
    """copy / nudge / edge events -> the concrete text event they stand for in the current state"""
    kind = ev[0]
    if kind == 'copy':        # one box is given the text another box shows
        return ('text', ev[2], getattr(main, ev[1]).value)
    if kind == 'nudge':       # a box is given its own value plus a small offset, to 4 decimals
        return ('text', ev[1], f"{float(getattr(main, ev[1]).value) + ev[2]:.4f}")
    if kind == 'edge':        # just inside / just outside one end of the box's documented range
        lo, hi = documented_range(main, ev[1])
        b = lo if ev[2] == 'lo' else hi
        return ('text', ev[1], f"{b * (1 + ev[3] * 2e-3):.6g}")
    return ev


def fire(main, ev):
    ev = resolve(main, ev)
    kind = ev[0]
    if kind == 'none':
        return
    if kind == 'text':
        getattr(main, ev[1]).value = ev[2]
    elif kind == 'click':
        getattr(main, ev[1]).click()
    elif kind == 'fluid':
        main.fluid_radio.active = ev[1]
    elif kind == 'units':
        main.unit_picker.click(ev[1])
    elif kind == 'pipeline':
        main.pipeline_dropdown.click(ev[1])
    else:
        raise ValueError(ev)


def fl(x):
    if isinstance(x, complex):
        return 'complex'
    try:
        x = float(x)
    except Exception:
        return repr(x)
    if math.isnan(x):
        return 'nan'
    if math.isinf(x):
        return 'inf' if x > 0 else '-inf'
    return x


def walk(node, out):
    """collect (title, value) of every TextInput below a layout node, depth-first"""
    from bokeh._core import TextInput, Box, TabPanel
    if isinstance(node, TextInput):
        out.append((node.title or '', node.value))
    elif isinstance(node, Box):
        for c in node.children:
            walk(c, out)
    elif isinstance(node, TabPanel):
        walk(node.child, out)


def figures(node, out):
    from bokeh._core import Figure, Box, TabPanel
    if isinstance(node, Figure):
        out.append(node)
    elif isinstance(node, Box):
        for c in node.children:
            figures(c, out)
    elif isinstance(node, TabPanel):
        figures(node.child, out)


def slurry_params(s):
    return dict(Dp=fl(s.Dp), fluid=s.fluid, nu=fl(s.nu), rhol=fl(s.rhol), rhos=fl(s.rhos), rhoi=fl(s.rhoi), Cv=fl(s.Cv),
                D50=fl(s.D50), D15=fl(s.get_dx(0.15)), D85=fl(s.get_dx(0.85)), rhom=fl(s.rhom), Rsd=fl(s.Rsd), Cvi=fl(s.Cvi),
                epsilon=fl(s.epsilon), max_index=s.max_index)


def fresh_dx(p, d):
    """D15 / D85 a FRESH Slurry reads back at diameter d with the edited slurry's parameters and grading ratios.  Inside
    the envelope (D50 above the pseudo-liquid limit of that diameter) these are the edited slurry's own D15 / D85; below
    the limit of a LARGER section diameter the grading legitimately starts at the limit and reads back differently."""
    try:
        from DHLLDV import SlurryObj
        f = SlurryObj.Slurry(Dp=d, D50=p['D50'], fluid=p['fluid'], Cv=p['Cv'], max_index=p['max_index'])
        f.epsilon = p['epsilon']
        f.rhos = p['rhos']
        f.rhoi = p['rhoi']
        f.generate_GSD(d15_ratio=p['D50'] / p['D15'], d85_ratio=p['D85'] / p['D50'])
        return dict(D15=fl(f.get_dx(0.15)), D85=fl(f.get_dx(0.85)))
    except Exception as e:
        return dict(error=type(e).__name__ + ': ' + str(e)[:120])


def observe(main, full=True):
    s = main.slurry
    pl = main.pipeline
    rec = dict(params=slurry_params(s))
    rec['texts'] = {w: getattr(main, w).value for w in TEXT_WIDGETS + INFO_WIDGETS}
    rec['Cvi_title'] = main.Cvi_input.title
    rec['fluid_active'] = main.fluid_radio.active
    rec['pipeline_label'] = main.pipeline_dropdown.label
    rec['unit_label'] = main.unit_picker.label
    rec['pipeline'] = pl.name
    rec['same_slurry'] = (pl.slurry is s)
    if full:
        rec['sources'] = {
            'im': {k: [fl(v) for v in vs] for k, vs in main.im_source.data.items()},
            'LDV50': {k: [fl(v) for v in vs] for k, vs in main.LDV50_source.data.items()},
            'LDV85': {k: [fl(v) for v in vs] for k, vs in main.LDV85_source.data.items()},
            'Erhg': {k: [fl(v) for v in vs] for k, vs in main.Erhg_source.data.items()},
            'GSD': {k: [fl(v) for v in vs] for k, vs in main.GSD_source.data.items()}}
        rec['sections'] = []
        for sec in pl.pipesections:
            d = getattr(sec, 'diameter', None)
            if d is None:
                rec['sections'].append(dict(kind='pump', name=sec.name, params=slurry_params(sec.slurry),
                                            suction=fl(sec.suction_dia), disch=fl(sec.disch_dia), impeller=fl(sec.design_impeller),
                                            avail_power=fl(sec.avail_power)))
            else:
                rec['sections'].append(dict(kind='pipe', name=sec.name, diameter=fl(d), length=fl(sec.length), K=fl(sec.total_K),
                                            dz=fl(sec.elev_change), params=slurry_params(pl.slurries[d]),
                                            fresh_dx=fresh_dx(rec['params'], d)))
        tab = []
        walk(main.sys_tab, tab)
        rec['sys_texts'] = tab
        figs = []
        figures(main.sys_tab, figs)
        rec['sys_sources'] = []
        for f in figs:
            seen = []
            for r in f.renderers:
                src = r.__dict__.get('source')
                if src is not None and not any(src is x for x in seen):
                    seen.append(src)
                    rec['sys_sources'].append({k: [fl(v) for v in vs] for k, vs in src.data.items()})
        rec['totals'] = dict(total_length=fl(pl.total_length), total_K=fl(pl.total_K), total_lift=fl(pl.total_lift),
                             total_power=fl(pl.total_power), disch_dia=fl(pl.pipesections[-1].diameter))
    return rec


def fresh_sources(main, p):
    """the curve data of a FRESH Slurry with the same parameters (and the current D15/D50/D85 ratios)"""
    from DHLLDV import SlurryObj
    f = SlurryObj.Slurry(Dp=p['Dp'], D50=p['D50'], fluid=p['fluid'], Cv=p['Cv'], max_index=p['max_index'])
    f.epsilon = p['epsilon']
    f.rhos = p['rhos']
    f.rhoi = p['rhoi']
    f.generate_GSD(d15_ratio=p['D50'] / p['D15'], d85_ratio=p['D85'] / p['D50'])
    pct = sorted(f.GSD.keys())
    return {
        'im': dict(v=f.vls_list, graded_Cvt_im=f.im_curves['graded_Cvt_im'], Cvs_im=f.im_curves['Cvs_im'],
                   Cvt_im=f.im_curves['Cvt_im'], il=f.im_curves['il'], regime=f.Erhg_curves['Cvs_regime']),
        'LDV50': dict(v=f.LDV_curves['vls'], im=f.LDV_curves['im'], il=f.LDV_curves['il'], Erhg=f.LDV_curves['Erhg'],
                      regime=f.LDV_curves['regime']),
        'LDV85': dict(v=f.LDV85_curves['vls'], im=f.LDV85_curves['im'], il=f.LDV85_curves['il'], Erhg=f.LDV85_curves['Erhg'],
                      regime=f.LDV85_curves['regime']),
        'Erhg': dict(il=f.Erhg_curves['il'], graded_Cvt=f.Erhg_curves['graded_Cvt_Erhg'], Cvs=f.Erhg_curves['Cvs_Erhg'],
                     Cvt=f.Erhg_curves['Cvt_Erhg'], regime=f.Erhg_curves['Cvs_regime']),
        'GSD': dict(p=pct, dia=[f.GSD[q] * 1000 for q in pct])}


def child(events, full_every, want_fresh, light=False):
    main = load()
    out = []
    sink = io.StringIO()
    for i, ev in enumerate(events):
        rec = dict(event=list(ev), raised=None)
        before = {w: getattr(main, w).value for w in TEXT_WIDGETS}
        try:
            with contextlib.redirect_stdout(sink):
                rev = resolve(main, ev)
            rec['resolved'] = list(rev)
        except BaseException as e:
            rec['raised'] = 'resolve:' + type(e).__name__ + ': ' + str(e)[:160]
            rec['texts_before'] = before
            out.append(rec)
            break
        try:
            with contextlib.redirect_stdout(sink):
                fire(main, rev)
        except BaseException as e:     # sys.exit from the stop button would be SystemExit
            rec['raised'] = type(e).__name__ + ': ' + str(e)[:160]
            rec['texts_before'] = before
            out.append(rec)
            break
        rec['texts_before'] = before
        try:
            with contextlib.redirect_stdout(sink):
                rec.update(observe(main, full=(not light) and (full_every or i == len(events) - 1)))
                if want_fresh and 'sources' in rec:
                    try:
                        fs = fresh_sources(main, rec['params'])
                        rec['fresh'] = {n: {k: [fl(v) for v in vs] for k, vs in d.items()} for n, d in fs.items()}
                    except Exception as e:
                        rec['fresh_error'] = type(e).__name__ + ': ' + str(e)[:120]
        except Exception as e:
            rec['observe_error'] = type(e).__name__ + ': ' + str(e)[:160]
        out.append(rec)
    return out


def run_sequence(events, full_every=False, want_fresh=True, light=False):
    """fork, run the events on the pristine module state, return the records"""
    load()
    r, w = os.pipe()
    pid = os.fork()
    if pid == 0:
        os.close(r)
        code = 0
        try:
            data = json.dumps(child(events, full_every, want_fresh, light))
        except BaseException as e:
            data = json.dumps([dict(event=None, raised='harness:' + type(e).__name__ + ': ' + str(e)[:200])])
            code = 3
        with os.fdopen(w, 'w') as f:
            f.write(data)
        os._exit(code)
    os.close(w)
    with os.fdopen(r) as f:
        data = f.read()
    os.waitpid(pid, 0)
    return json.loads(data)


def setup_keys():
    return list(load().SystemTab.setups.keys())


def setups_info():
    """what the model needs to start from the same state: per menu entry the Pipe diameters and the slurry's
    parameters, stored grading and grading-dirty flag (read without triggering a regeneration); the selected entry"""
    main = load()
    from DHLLDV.PipeObj import Pipe
    out = []
    for key, pl in main.SystemTab.setups.items():
        s = pl.slurry
        out.append(dict(key=key, selected=(pl is main.pipeline),
                        diams=[p.diameter for p in pl.pipesections if isinstance(p, Pipe)],
                        Dp=s.Dp, epsilon=s.epsilon, nu=s.nu, rhol=s.rhol, D50=s.D50, Cv=s.Cv, rhos=s.rhos, rhoi=s.rhoi,
                        max_index=s.max_index, salt=(s.fluid == 'salt'), gsd=list((s._GSD or {}).items()),
                        gsd_dirty=bool(s.GSD_curves_dirty)))
    return out


if __name__ == '__main__':
    import time
    t = time.time()
    load()
    print('import', round(time.time() - t, 2))
    t = time.time()
    recs = run_sequence([('text', 'Cv_input', '0.2'), ('click', 'Dp_up_button'), ('units', 'US'), ('text', 'D50_input', 'abc')])
    print('seq', round(time.time() - t, 2))
    for rcd in recs:
        print(rcd['event'], rcd['raised'], rcd.get('params'), rcd.get('texts'), rcd.get('observe_error'), rcd.get('fresh_error'))
    print(recs[-1]['sys_texts'][:12], len(recs[-1]['sys_sources']))
