(* OpPoint: hand-written executable model of Pipeline.find_operating_point (after the repairs 6233bcf, 73268bd): the feasibility
   test at the minimum-friction flow; scipy.optimize.root_scalar(f, x0=, x1=) = newton()'s secant branch
   (tol = 1.48e-8, rtol = 0, maxiter = 50, disp = False), written out, inside a try that swallows an IndexError raised
   by an evaluation of the head gap; its result is accepted when it converged at or right of the minimum-friction flow;
   otherwise, when the head gap is positive at the largest flow, the bracketing root_scalar(bracket=[qimin, qlast])
   -- an ORACLE here: its answer (converged flag, root) and the two heads at that root are parameters -- accepted only
   when the heads at its root agree to 1e-6 relative.  The head gap and the set of flows at which evaluating it raises
   IndexError are parameters.  Tied to the code by tools/harness/corr_oppoint.py (recorded gap tables; visited
   abscissae compared).  No proofs here. *)
From Coq Require Import ZArith List Bool.
From DHV Require Import NumOps.
Import ListNotations.

Section OpPoint.
Context {T : Type} (N : NumOps T).
Variable gap : T -> T.              (* q |-> slurry system head - slurry pump head *)
Variable raises : T -> bool.        (* evaluating the gap at q raises IndexError (q outside a pump / driver table) *)

Definition tol : T := nlit N 148%Z 10000000000%positive.

(* one secant update, in whichever of the two algebraically equal forms scipy picks *)
Definition secant_step (p0 q0 p1 q1 : T) : T :=
  if nltb N (nabs N q0) (nabs N q1)
  then ndiv N (nadd N (nmul N (ndiv N (nneg N q0) q1) p1) p0) (nsub N (nint N 1%Z) (ndiv N q0 q1))
  else ndiv N (nadd N (nmul N (ndiv N (nneg N q1) q0) p0) p1) (nsub N (nint N 1%Z) (ndiv N q1 q0)).

(* returns (Some (root estimate, converged) | None = IndexError, abscissae at which the gap was evaluated inside the loop) *)
Fixpoint secant_loop (fuel : nat) (p0 q0 p1 q1 : T) (visited : list T) : option (T * bool) * list T :=
  match fuel with
  | O => (Some (p1, false), visited)
  | S k =>
    if neqb N q1 q0 then (Some (ndiv N (nadd N p1 p0) (nlit N 20%Z 10%positive), false), visited)
    else
      let p := secant_step p0 q0 p1 q1 in
      if nleb N (nabs N (nsub N p p1)) tol then (Some (p, true), visited)
      else if raises p then (None, visited ++ [p])
      else secant_loop k p1 q1 p (gap p) (visited ++ [p])
  end.

Definition secant (x0 x1 : T) : option (T * bool) * list T :=
  if raises x0 then (None, [x0])
  else if raises x1 then (None, [x0; x1])
  else
    let q0 := gap x0 in
    let q1 := gap x1 in
    if nltb N (nabs N q1) (nabs N q0) then secant_loop 50 x1 q1 x0 q0 [x0; x1]
    else secant_loop 50 x0 q0 x1 q1 [x0; x1].

Inductive outcome : Type := Ok (root : T) | OperatingPointError | ValueError | IndexErr.

(* the root the unbracketed search is allowed to contribute *)
Definition accepted (qimin : T) (r : option (T * bool)) : option T :=
  match r with
  | Some (root, true) => if nleb N qimin root then Some root else None
  | _ => None
  end.

(* |hs - hp| <= 1e-6 max(|hs|, |hp|) *)
Definition heads_equal (hs hp : T) : bool :=
  nleb N (nabs N (nsub N hs hp)) (nmul N (nlit N 1%Z 1000000%positive) (nmax N (nabs N hs) (nabs N hp))).

(* hsys, hpump : slurry system head and slurry pump head at qimin (imins[0], imins[3]);
   bconv, broot : the answer of the bracketing solver; hs_b, hp_b : the two heads at broot *)
Definition find_operating_point (qimin qlast hsys hpump : T) (bconv : bool) (broot hs_b hp_b : T) : outcome * list T :=
  if nltb N hpump hsys then (OperatingPointError, [])
  else if nleb N qlast qimin then (OperatingPointError, [])      (* the minimum-friction flow is the largest flow (repair 73268bd) *)
  else
    let x1 := ndiv N (nadd N qimin qlast) (nint N 2%Z) in
    if neqb N x1 qimin then (ValueError, [])
    else
      let '(r, vis) := secant qimin x1 in
      match accepted qimin r with
      | Some root => (Ok root, vis)
      | None =>
        if raises qlast then (IndexErr, vis)
        else if nltb N (nint N 0%Z) (gap qlast) then
          (if andb bconv (heads_equal hs_b hp_b) then Ok broot else OperatingPointError, vis)
        else (OperatingPointError, vis)
      end.

(* ---- Pipeline.qimin (after the repair 4ea85a5): the bounded minimiser over the whole range (an oracle: rx = result.x,
   rf = result.fun), compared with the best TABULATED flow (Python's min over (head, flow) tuples: smallest head, then
   smallest flow); when a tabulated flow is better, a second bounded minimisation between its neighbours (oracle: fx,
   ff), kept only when it is at least as good.  Returns the flow and the system head the code saw at it. *)
Fixpoint lexmin (l : list (T * T)) : option (T * T) :=
  match l with
  | [] => None
  | (h, q) :: r =>
    match lexmin r with
    | None => Some (h, q)
    | Some (h', q') => if orb (nltb N h h') (andb (neqb N h h') (nleb N q q')) then Some (h, q) else Some (h', q')
    end
  end.

Fixpoint index_of (x : T) (l : list T) : nat :=
  match l with [] => 0 | y :: r => if neqb N y x then 0 else S (index_of x r) end.

Definition lower_bound (flows : list T) : T :=
  match flows with
  | f0 :: f1 :: _ => if nleb N f0 (nint N 0%Z) then nmul N f1 (nlit N 1%Z 10%positive) else nmul N f0 (nlit N 1%Z 10%positive)
  | f0 :: [] => nmul N f0 (nlit N 1%Z 10%positive)
  | [] => nint N 0%Z
  end.

Definition qimin (flows : list T) (head : T -> T) (rx rf fx ff : T) : T * T :=
  let lower := lower_bound flows in
  let tab := map (fun q => (head q, q)) (filter (fun q => nleb N lower q) flows) in
  match lexmin tab with
  | None => (rx, rf)
  | Some (ht, qt) =>
    if nltb N ht rf then
      let i := index_of qt flows in
      let qlo := nmax N (nth (i - 1) flows (nint N 0%Z)) lower in
      let qhi := nth (Nat.min (i + 1) (length flows - 1)) flows (nint N 0%Z) in
      if nltb N qlo qhi then (if nleb N ff ht then (fx, ff) else (qt, ht)) else (qt, ht)
    else (rx, rf)
  end.

End OpPoint.
