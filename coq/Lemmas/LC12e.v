(* Proofs for C12 (fifth part): the discretised grading reproduces D15 by log-linear interpolation (or extrapolation
   below its first node), D50 and D85 as nodes -- hence the two grading ratios can be read back from it, which is the
   premise [valid] of C07. *)
From Coq Require Import Reals List Bool Lra Lia Arith ZArith Sorted.
From DHV Require Import NumOps RInst Interp Fracs LCommon LC18 LC19 LC12 LC12b LC12c LC12d.
From DHV Require Framework.
Import ListNotations.
Local Open Scope R_scope.

(* ---- lookup on a table whose low end lies on a straight line ---- *)
Definition on_line (m c : R) (p : R * R) : Prop := snd p = m * fst p + c.

Lemma line_on_line m c x1 y1 x2 y2 q : x1 <> x2 -> y1 = m * x1 + c -> y2 = m * x2 + c -> line x1 y1 x2 y2 q = m * q + c.
Proof. intros H E1 E2. unfold line. subst. field. lra. Qed.

(* in an increasing table, a key K strictly above x1 is at or above the key that follows x1 *)
Lemma next_key_le l1 x1 y1 x2 y2 l2 K v :
  increasing (l1 ++ (x1, y1) :: (x2, y2) :: l2) -> In (K, v) (l1 ++ (x1, y1) :: (x2, y2) :: l2) -> x1 < K -> x2 <= K.
Proof.
  intros Hs Hin HK. apply in_app_or in Hin. destruct Hin as [Hin|[E|[E|Hin]]].
  - (* K in the prefix: below x1, contradiction *)
    exfalso. revert Hs Hin. induction l1 as [|a l1 IH]; intros Hs Hin; [inversion Hin|].
    cbn [app] in Hs. destruct Hin as [Ea|Hin].
    + subst a. pose proof (increasing_head _ _ Hs) as F. rewrite Forall_forall in F.
      assert (In (x1, y1) (l1 ++ (x1, y1) :: (x2, y2) :: l2)) by (apply in_or_app; right; left; reflexivity).
      specialize (F _ H). unfold klt in F. cbn [fst] in F. lra.
    + exact (IH (increasing_tail _ _ Hs) Hin).
  - injection E as E1 _. lra.
  - injection E as E1 _. lra.
  - assert (Hs2 : increasing ((x2, y2) :: l2)).
    { clear Hin HK. induction l1 as [|a l1 IH]; cbn [app] in Hs; [exact (increasing_tail _ _ Hs)|exact (IH (increasing_tail _ _ Hs))]. }
    pose proof (increasing_head _ _ Hs2) as F. rewrite Forall_forall in F. specialize (F _ Hin). unfold klt in F. cbn [fst] in F. lra.
Qed.

Lemma lookup_on_line (tbl : list (R * R)) m c K vK q tol :
  increasing tbl -> In (K, vK) tbl -> (forall p, In p tbl -> fst p <= K -> on_line m c p) ->
  (exists x1 y1 x2 y2 r, tbl = (x1, y1) :: (x2, y2) :: r /\ x2 <= K) ->
  q < K -> lookup RN tbl true true tol q = Some (m * q + c).
Proof.
  intros Hs HK Hl (x1 & y1 & x2 & y2 & r & E & H2K) Hq. subst tbl.
  assert (Hx12 : x1 < x2).
  { pose proof (increasing_head _ _ Hs) as F. inversion F as [|p l A _]; subst. exact A. }
  destruct (Rlt_le_dec q x1) as [Lo|Hi].
  - (* below the first key: the first segment is extended *)
    rewrite (lookup_low x1 y1 x2 y2 r true true tol q Hs Lo). cbn [orb]. f_equal.
    apply line_on_line; [lra| |].
    + apply (Hl (x1, y1)); [left; reflexivity|cbn [fst]; lra].
    + apply (Hl (x2, y2)); [right; left; reflexivity|cbn [fst]; lra].
  - assert (HlastK : q <= fst (last ((x1, y1) :: (x2, y2) :: r) (x1, y1))).
    { (* K is a key, so the last key is at least K *)
      assert (G : forall (l : list (R * R)) d, increasing l -> In (K, vK) l -> K <= fst (last l d)).
      { clear. intros l d Hs Hin.
        assert (G2 : forall (l : list (R * R)) d, increasing l -> forall p, In p l -> fst p <= fst (last l d)).
        { clear. induction l as [|a l IH]; intros d Hs p Hin; [inversion Hin|].
          destruct l as [|b l]; [destruct Hin as [E|[]]; subst; cbn [last]; lra|].
          change (last (a :: b :: l) d) with (last (b :: l) d).
          destruct Hin as [E|Hin]; [subst p|exact (IH d (increasing_tail _ _ Hs) p Hin)].
          pose proof (increasing_head _ _ Hs) as F. inversion F as [|q l0 A _]; subst. unfold klt in A.
          pose proof (IH d (increasing_tail _ _ Hs) b ltac:(left; reflexivity)). lra. }
        exact (G2 l d Hs (K, vK) Hin). }
      pose proof (G _ (x1, y1) Hs HK). lra. }
    destruct (locate ((x2, y2) :: r) x1 y1 q Hs (conj Hi HlastK)) as [[v Hin]|(l1 & a1 & b1 & a2 & b2 & l2 & D & Hk)].
    + rewrite (lookup_hit _ true true tol q v Hs Hin). f_equal.
      pose proof (Hl (q, v) Hin) as O. unfold on_line in O. cbn [fst snd] in O. apply O. lra.
    + rewrite D. rewrite D in Hs, HK, Hl.
      rewrite (lookup_interior l1 a1 b1 a2 b2 l2 true true tol q Hs Hk). f_equal.
      assert (a2 <= K) by (eapply next_key_le; [exact Hs|exact HK|lra]).
      apply line_on_line; [lra| |].
      * apply (Hl (a1, b1)); [apply in_or_app; right; left; reflexivity|cbn [fst]; lra].
      * apply (Hl (a2, b2)); [apply in_or_app; right; right; left; reflexivity|cbn [fst]; lra].
Qed.

(* ---- the first interval of the discretisation lies on the input's log-linear line ---- *)
Section FirstInterval.
Variables (dmin flow dlow fnext dnext : R) (rest : gsdR) (n : nat).
Hypothesis Hin : both_increasing ((flow, dlow) :: (fnext, dnext) :: rest).
Hypothesis Hdlow : 0 < dlow.
Hypothesis Hdmin : 0 < dmin < dnext.
Hypothesis Hpos : 0 < fnext.

(* the line through (flow, log dlow) and (fnext, log dnext) *)
Let m := (Rlog10 dnext - Rlog10 dlow) / (fnext - flow).
Let c := Rlog10 dnext - m * fnext.
Let X := X_of dlow dnext flow fnext dmin.
Let sf := start_f dmin flow dlow fnext dnext.
Let sd := start_d dmin flow dlow fnext dnext.

Lemma fl : flow < fnext /\ dlow < dnext.
Proof. inversion Hin as [|p l Hs Hf]; subst. inversion Hf as [|q l' [A B] _]; subst. cbn [fst snd] in *. split; lra. Qed.

Lemma start_on_line : Rlog10 sd = m * sf + c.
Proof.
  destruct fl as [Hf Hd]. pose proof (Rlog10_increasing dlow dnext ltac:(lra)) as L.
  unfold sd, sf, start_d, start_f. fold X. destruct (Rltb 0 X).
  - unfold c, m, X, X_of. field. split; lra.
  - assert (E : forall x, Rlog10 (pow10 RN x) = x).
    { intro x. unfold pow10, Rlog10. toR. unfold Rpower. rewrite ln_exp.
      assert (0 < ln 10) by (rewrite <- ln_1; apply ln_increasing; lra). field. lra. }
    rewrite E. unfold c, m. field. lra.
Qed.

Lemma sf_lt_fnext : sf < fnext.
Proof.
  unfold sf, start_f. destruct (Rltb 0 _) eqn:B; [|lra].
  apply (X_lt_fnext dmin flow dlow fnext dnext rest Hin Hdlow Hdmin).
Qed.

Lemma sd_pos : 0 < sd.
Proof.
  unfold sd, start_d. destruct (Rltb 0 _); [lra|]. unfold pow10. toR. unfold Rpower. apply exp_pos.
Qed.

(* the log-linear interpolation between the start point and the first remaining input point IS that line *)
Lemma first_interval_line f : log10_interp RN sd dnext sf fnext f = m * f + c.
Proof.
  unfold log10_interp. toR. rewrite start_on_line. pose proof sf_lt_fnext. destruct fl.
  pose proof (Rlog10_increasing dlow dnext ltac:(lra)). unfold c, m. field. split; lra.
Qed.
End FirstInterval.

Lemma find_exact_sound : forall (l : gsdR) k v, find_exact RN l k = Some v -> In (k, v) l.
Proof.
  induction l as [|[x y] l IH]; intros k v H; [discriminate H|].
  cbn [find_exact] in H. toR_in H. destruct (Reqb x k) eqn:B.
  - injection H as <-. apply Reqb_true in B. subst. left. reflexivity.
  - right. apply IH. exact H.
Qed.

Lemma Rlog10_pow10 x : Rlog10 (pow10 RN x) = x.
Proof.
  unfold pow10, Rlog10. toR. unfold Rpower. rewrite ln_exp.
  assert (0 < ln 10) by (rewrite <- ln_1; apply ln_increasing; lra). field. lra.
Qed.

Lemma Rlog10_inj a b : 0 < a -> 0 < b -> Rlog10 a = Rlog10 b -> a = b.
Proof.
  intros Ha Hb E. destruct (Rtotal_order a b) as [L|[Q|G]]; [|exact Q|].
  - pose proof (Rlog10_increasing a b ltac:(lra)). lra.
  - pose proof (Rlog10_increasing b a ltac:(lra)). lra.
Qed.

(* ---- D15 / D50 / D85 are reproduced by the three-point discretisation ---- *)
Section Reproduce.
Variables (d15 d50 d85 Dp nu rhol rhos : R).
Hypothesis Hd : 0 < d15 < d50 /\ d50 < d85.
Let dmin := Framework.pseudo_dlim RN Dp nu rhol rhos.
Hypothesis Hm : 0 < dmin < d50.
Let g3 : gsdR := [(15 / 100, d15); (50 / 100, d50); (85 / 100, d85)].
Let res := create_fracs RN g3 Dp nu rhol rhos 10.
Let bd := LC12c.body dmin (15 / 100) d15 (50 / 100) d50 [(85 / 100, d85)] 4.
Let sf := start_f dmin (15 / 100) d15 (50 / 100) d50.
Let sd := start_d dmin (15 / 100) d15 (50 / 100) d50.
Let m := (Rlog10 d50 - Rlog10 d15) / (50 / 100 - 15 / 100).
Let c := Rlog10 d50 - m * (50 / 100).

Lemma Hin3 : both_increasing [(15 / 100, d15); (50 / 100, d50); (85 / 100, d85)].
Proof. exact (g3_increasing d15 d50 d85 Hd). Qed.

Lemma body_has_two : exists a b, last2 bd = Some (a, b).
Proof.
  unfold last2. assert (L : (2 <= length bd)%nat).
  { unfold bd. rewrite (body_length dmin (15 / 100) d15 (50 / 100) d50 [(85 / 100, d85)] 4). cbn [length]. destruct (Rltb 0 _); lia. }
  rewrite <- rev_length in L. destruct (rev bd) as [|b [|a r]]; cbn [length] in L; try lia. eauto.
Qed.

Lemma res_shape : exists top, res = bd ++ [top] /\ both_increasing (bd ++ [top]) /\ 85 / 100 < fst top.
Proof.
  destruct body_has_two as (a & b & HL).
  destruct (three_point_structure d15 d50 d85 Dp nu rhol rhos Hd Hm a b HL) as (top & E & I & F & _ & I85 & _).
  exists top. split; [exact E|]. split; [exact I|].
  (* the top point is above every node of the body, in particular above 0.85 *)
  destruct (both_increasing_app_inv _ _ I) as (_ & _ & C).
  destruct (C (85 / 100, d85) top I85 ltac:(left; reflexivity)) as [A _]. exact A.
Qed.

(* the start point and the nodes of the first interval are on the line through (0.15, log d15), (0.5, log d50) *)
Lemma low_nodes_on_line p : In p bd -> fst p <= 50 / 100 -> Rlog10 (snd p) = m * fst p + c.
Proof.
  intros Hp Hk. unfold bd, LC12c.body in Hp. apply in_app_or in Hp. destruct Hp as [Hp|Hp].
  - unfold start_nodes in Hp.
    pose proof (start_on_line dmin (15 / 100) d15 (50 / 100) d50 [(85 / 100, d85)] Hin3 ltac:(lra)) as SL.
    unfold start_f, start_d in SL. destruct (Rltb 0 _); [|destruct Hp]. destruct Hp as [<-|[]]. cbn [fst snd]. exact SL.
  - cbn [all_nodes] in Hp. apply in_app_or in Hp. destruct Hp as [Hp|Hp].
    + unfold interval_nodes in Hp. apply in_app_or in Hp. destruct Hp as [Hp|[<-|[]]].
      * destruct (interior_is_node _ _ _ _ _ _ _ _ Hp) as [g ->]. cbn [node fst snd]. rewrite Rlog10_pow10.
        apply (first_interval_line dmin (15 / 100) d15 (50 / 100) d50 [(85 / 100, d85)] Hin3 ltac:(lra) ltac:(lra) ltac:(lra)).
      * cbn [fst snd]. unfold c. ring.
    + (* second interval: keys above 0.5 *)
      exfalso. rewrite app_nil_r in Hp. pose proof (interval_keys 4 (50 / 100) d50 (85 / 100) d85 p ltac:(lra) Hp). lra.
Qed.

Lemma line_at_15 : m * (15 / 100) + c = Rlog10 d15.
Proof. unfold c, m. field. Qed.

(* the table of (fraction, log10 diameter) that get_dx interpolates in *)
Definition logs (l : gsdR) : gsdR := map (fun p : R * R => (fst p, Rlog10 (snd p))) l.

Lemma logs_increasing (l : gsdR) : increasing l -> increasing (logs l).
Proof.
  induction 1 as [|p l Hs IH Hf]; cbn [logs map]; constructor; [exact IH|].
  apply Forall_forall. intros q Hq. apply in_map_iff in Hq. destruct Hq as (q0 & <- & Hq0).
  rewrite Forall_forall in Hf. exact (Hf q0 Hq0).
Qed.

Lemma get_dx_15 : get_dx RN res (15 / 100) = d15.
Proof.
  destruct res_shape as (top & E & I & Ftop).
  pose proof (both_increasing_keys _ I) as Ik.
  unfold get_dx. toR.
  replace (orb (Rleb (15 / 100) 0) (Rleb (10 / 10) (15 / 100))) with false
    by (symmetry; apply orb_false_iff; split; apply Rleb_false; lra).
  rewrite E.
  destruct (find_exact RN (bd ++ [top]) (15 / 100)) as [d|] eqn:FE.
  - (* 0.15 happens to be a node *)
    apply find_exact_sound in FE. apply in_app_or in FE. destruct FE as [Hb|[Et|[]]]; [|subst top; cbn [fst] in Ftop; lra].
    pose proof (low_nodes_on_line _ Hb ltac:(cbn [fst]; lra)) as O. cbn [fst snd] in O. rewrite line_at_15 in O.
    apply Rlog10_inj; [|lra|exact O].
    (* nodes are positive *)
    unfold bd, LC12c.body in Hb. apply in_app_or in Hb. destruct Hb as [Hb|Hb].
    + unfold start_nodes in Hb. destruct (Rltb 0 _); [|destruct Hb]. destruct Hb as [Hb|[]]. injection Hb as _ <-. lra.
    + pose proof (start_ok dmin (15 / 100) d15 (50 / 100) d50 [(85 / 100, d85)] Hin3 ltac:(lra)
                    ltac:(repeat constructor; cbn [fst]; lra) ltac:(lra) ltac:(lra)) as SO.
      destruct (all_nodes_increasing _ 4 _ _ SO) as [_ I2]. destruct (I2 _ Hb) as [_ B]. destruct SO as (_ & P & _). cbn [snd] in B. lra.
  - rewrite (sort_keys_increasing _ Ik).
    change (map (fun p : R * R => (fst p, Rlog10 (snd p))) (bd ++ [top])) with (logs (bd ++ [top])).
    unfold lookup_or_fail.
    rewrite (lookup_on_line (logs (bd ++ [top])) m c (50 / 100) (Rlog10 d50) (15 / 100)).
    + rewrite line_at_15. apply pow10_log10. lra.
    + apply logs_increasing. exact Ik.
    + unfold logs. apply in_map_iff. exists (50 / 100, d50). split; [reflexivity|].
      apply in_or_app. left. apply (body_contains dmin (15 / 100) d15 (50 / 100) d50 [(85 / 100, d85)] 4). left. reflexivity.
    + intros p Hp Hk. unfold logs in Hp. apply in_map_iff in Hp. destruct Hp as (p0 & <- & Hp0). unfold on_line. cbn [fst snd] in *.
      apply in_app_or in Hp0. destruct Hp0 as [Hb|[Et|[]]]; [apply low_nodes_on_line; assumption|subst p0; lra].
    + (* the first two entries are nodes of the first interval *)
      unfold bd, LC12c.body, start_nodes, logs. cbn [all_nodes interval_nodes interior app map].
      assert (FS : 0 < (50 / 100 - sf) / INR 5).
      { apply Rdiv_lt_0_compat; [|apply lt_0_INR; lia].
        pose proof (sf_lt_fnext dmin (15 / 100) d15 (50 / 100) d50 [(85 / 100, d85)] Hin3 ltac:(lra) ltac:(lra) ltac:(lra)). unfold sf. lra. }
      assert (B2 : sf + (50 / 100 - sf) / INR 5 + (50 / 100 - sf) / INR 5 <= 50 / 100).
      { replace (INR 5) with 5 by (cbn; lra). replace (INR 5) with 5 in FS by (cbn; lra). lra. }
      fold sf sd. destruct (Rltb 0 _); cbn [app map node fst snd]; do 5 eexists; (split; [reflexivity|]).
      * replace (INR 5) with 5 in * by (cbn; lra). lra.
      * exact B2.
    + lra.
Qed.

Lemma get_dx_50 : get_dx RN res (5 / 10) = d50.
Proof.
  destruct res_shape as (top & E & I & _). replace (5 / 10) with (50 / 100) by lra.
  apply get_dx_node; [rewrite E; exact (both_increasing_keys _ I)| |lra].
  rewrite E. apply in_or_app. left. apply (body_contains dmin (15 / 100) d15 (50 / 100) d50 [(85 / 100, d85)] 4). left. reflexivity.
Qed.

Lemma get_dx_85 : get_dx RN res (85 / 100) = d85.
Proof.
  destruct res_shape as (top & E & I & _).
  apply get_dx_node; [rewrite E; exact (both_increasing_keys _ I)| |lra].
  rewrite E. apply in_or_app. left. apply (body_contains dmin (15 / 100) d15 (50 / 100) d50 [(85 / 100, d85)] 4). right. left. reflexivity.
Qed.
End Reproduce.
