(* Proofs for C03 (slurry object tables and graded sand). *)
From Coq Require Import Reals List Bool Lra Arith.
From DHV Require Import NumOps RInst Interp Fracs Graded SlurryCalc LCommon.
From DHV Require Homogeneous Framework.
Import ListNotations.
Local Open Scope R_scope.

(* ---------- tabulated gradient curves against tabulated excess-gradient curves ---------- *)
Lemma to_im_nth_ rsd cv : forall n es ils i e l,
  (i < n)%nat -> nth_error es i = Some e -> nth_error ils i = Some l ->
  nth_error (to_im_ RN rsd cv es ils n) i = Some (e * rsd * cv + l).
Proof.
  induction n as [|n IH]; intros es ils i e l Hi He Hl; [inversion Hi|].
  destruct es as [|e0 es]; [destruct i; discriminate He|].
  destruct ils as [|l0 ils]; [destruct i; discriminate Hl|].
  destruct i as [|i]; cbn [to_im_ nth_error] in *.
  - injection He as <-. injection Hl as <-. reflexivity.
  - apply IH; [apply Nat.succ_lt_mono; exact Hi|exact He|exact Hl].
Qed.

Lemma to_im_nth p n es ils i e l :
  (i < n)%nat -> nth_error es i = Some e -> nth_error ils i = Some l ->
  nth_error (to_im RN p es ils n) i = Some (e * Rsd RN p * p_Cv p + l).
Proof. intros. unfold to_im. apply to_im_nth_; assumption. Qed.

Lemma nth_error_seq : forall len s i, (i < len)%nat -> nth_error (seq s len) i = Some (s + i)%nat.
Proof.
  induction len as [|len IH]; intros s i H; [inversion H|].
  destruct i as [|i]; cbn [seq nth_error]; [rewrite Nat.add_0_r; reflexivity|].
  rewrite IH by (apply Nat.succ_lt_mono; exact H). rewrite Nat.add_succ_r. reflexivity.
Qed.

Lemma nth_error_firstn {A} : forall n (l : list A) i, (i < n)%nat -> nth_error (firstn n l) i = nth_error l i.
Proof.
  induction n as [|n IH]; intros l i H; [inversion H|].
  destruct l as [|x l]; [reflexivity|]. destruct i as [|i]; [reflexivity|].
  cbn [firstn nth_error]. apply IH. apply Nat.succ_lt_mono; exact H.
Qed.

Section Curves.
Variables (sf sq : bool) (p : sparams (T:=R)) (g : gsd (T:=R)).
Let c := generate_curves RN sf sq p g.
Let n := p_max_index p.
Let dict v := Framework.Cvs_Erhg_dict RN sf sq v (p_Dp p) (p_D50 p) (p_eps p) (p_nu p) (p_rhol p) (p_rhos p) (p_Cv p).

(* the i-th tabulated speed is (i+1)/10, i < max_index *)
Lemma vls_nth i : (i < n)%nat -> nth_error (c_vls c) i = Some (IZR (Z.of_nat i + 1) / (IZR 10 / IZR 1)).
Proof.
  intro Hi. subst c. unfold generate_curves. cbn [c_vls]. unfold vls_list.
  erewrite map_nth_error; [|apply nth_error_seq; exact Hi]. reflexivity.
Qed.

Lemma vls_length : length (c_vls c) = n.
Proof. subst c. unfold generate_curves. cbn [c_vls]. unfold vls_list. rewrite map_length, seq_length. reflexivity. Qed.

(* point by point: gradient curve = excess-gradient curve * Rsd * Cv + liquid gradient, for every key;
   ELM = il * rhom; the pointwise methods agree with the tables *)
Lemma curves_consistent i v :
  nth_error (c_vls c) i = Some v ->
  let e := c_Erhg c in let m := c_im c in
  let k := Rsd RN p * p_Cv p in
  let l := SlurryCalc.il RN p v in
  nth_error (ec_il e) i = Some l /\ nth_error (ic_il m) i = Some l /\
  nth_error (ec_Cvs_Erhg e) i = Some (sel6 (dict v)) /\
  nth_error (ic_Cvs_im m) i = Some (sel6 (dict v) * Rsd RN p * p_Cv p + l) /\
  nth_error (ec_FB e) i = Some (Framework.Erhg6_FB (dict v)) /\
  nth_error (ic_FB m) i = Some (Framework.Erhg6_FB (dict v) * Rsd RN p * p_Cv p + l) /\
  nth_error (ec_SB e) i = Some (Framework.Erhg6_SB (dict v)) /\
  nth_error (ic_SB m) i = Some (Framework.Erhg6_SB (dict v) * Rsd RN p * p_Cv p + l) /\
  nth_error (ec_He e) i = Some (Framework.Erhg6_He (dict v)) /\
  nth_error (ic_He m) i = Some (Framework.Erhg6_He (dict v) * Rsd RN p * p_Cv p + l) /\
  nth_error (ec_Ho e) i = Some (Framework.Erhg6_Ho (dict v)) /\
  nth_error (ic_Ho m) i = Some (Framework.Erhg6_Ho (dict v) * Rsd RN p * p_Cv p + l) /\
  nth_error (ic_ELM m) i = Some (l * rhom RN p) /\
  (exists x, nth_error (ec_Cvt_Erhg e) i = Some x /\ nth_error (ic_Cvt_im m) i = Some (x * Rsd RN p * p_Cv p + l)) /\
  (exists x, nth_error (ec_graded_Cvs e) i = Some x /\ nth_error (ic_graded_Cvs_im m) i = Some (x * Rsd RN p * p_Cv p + l)) /\
  nth_error (ec_graded_Cvt e) i = Some (SlurryCalc.Erhg RN sf sq p g v) /\
  nth_error (ic_graded_Cvt_im m) i = Some (SlurryCalc.im RN sf sq p g v).
Proof.
  intro Hv. cbv zeta.
  assert (Hi : (i < n)%nat).
  { rewrite <- vls_length. apply nth_error_Some. rewrite Hv. discriminate. }
  subst c. unfold generate_curves in *. cbn [c_vls c_Erhg c_im] in *.
  set (vl := vls_list RN (p_max_index p)) in *.
  unfold generate_im_curves, generate_Erhg_curves.
  cbn [ec_il ec_Cvs_Erhg ec_FB ec_SB ec_He ec_Ho ec_Cvs_from_Cvt ec_Cvt_Erhg ec_graded_Cvs ec_graded_Cvt
       ic_il ic_Cvs_im ic_FB ic_SB ic_He ic_ELM ic_Ho ic_Cvt_im ic_graded_Cvs_im ic_graded_Cvt_im].
  fold n.
  assert (Hd : nth_error (map (fun v0 => Framework.Cvs_Erhg_dict RN sf sq v0 (p_Dp p) (p_D50 p) (p_eps p) (p_nu p)
                                   (p_rhol p) (p_rhos p) (p_Cv p)) vl) i = Some (dict v))
    by (apply map_nth_error; exact Hv).
  assert (Hil : nth_error (map (@Framework.Erhg6_il R) (map (fun v0 => Framework.Cvs_Erhg_dict RN sf sq v0 (p_Dp p) (p_D50 p)
                 (p_eps p) (p_nu p) (p_rhol p) (p_rhos p) (p_Cv p)) vl)) i = Some (SlurryCalc.il RN p v))
    by (erewrite map_nth_error; [|exact Hd]; reflexivity).
  repeat match goal with |- _ /\ _ => split end;
    try exact Hil;
    try (erewrite map_nth_error; [|exact Hd]; reflexivity);
    try (apply to_im_nth; [exact Hi| erewrite map_nth_error; [|exact Hd]; reflexivity | exact Hil]).
  - erewrite map_nth_error; [reflexivity|]. rewrite nth_error_firstn by exact Hi. exact Hil.
  - exists (Framework.Cvt_Erhg RN sf sq v (p_Dp p) (p_D50 p) (p_eps p) (p_nu p) (p_rhol p) (p_rhos p) (p_Cv p)).
    assert (E : nth_error (map (fun v0 => Framework.Cvt_Erhg RN sf sq v0 (p_Dp p) (p_D50 p) (p_eps p) (p_nu p) (p_rhol p)
                (p_rhos p) (p_Cv p)) vl) i = Some (Framework.Cvt_Erhg RN sf sq v (p_Dp p) (p_D50 p) (p_eps p) (p_nu p)
                (p_rhol p) (p_rhos p) (p_Cv p)))
      by (exact (map_nth_error (fun v0 => Framework.Cvt_Erhg RN sf sq v0 (p_Dp p) (p_D50 p) (p_eps p) (p_nu p) (p_rhol p)
                (p_rhos p) (p_Cv p)) i vl Hv)).
    split; [exact E|]. apply to_im_nth; [exact Hi|exact E|exact Hil].
  - exists (Erhg_graded RN sf sq g v (p_Dp p) (p_eps p) (p_nu p) (p_rhol p) (p_rhos p) (p_Cv p) false false).
    assert (E : nth_error (map (fun v0 => Erhg_graded RN sf sq g v0 (p_Dp p) (p_eps p) (p_nu p) (p_rhol p) (p_rhos p) (p_Cv p)
                false false) vl) i = Some (Erhg_graded RN sf sq g v (p_Dp p) (p_eps p) (p_nu p) (p_rhol p) (p_rhos p) (p_Cv p)
                false false))
      by (exact (map_nth_error (fun v0 => Erhg_graded RN sf sq g v0 (p_Dp p) (p_eps p) (p_nu p) (p_rhol p) (p_rhos p) (p_Cv p)
                false false) i vl Hv)).
    split; [exact E|]. apply to_im_nth; [exact Hi|exact E|exact Hil].
  - exact (map_nth_error (fun v0 => Erhg_graded RN sf sq g v0 (p_Dp p) (p_eps p) (p_nu p) (p_rhol p) (p_rhos p) (p_Cv p)
                true false) i vl Hv).
  - unfold SlurryCalc.im. apply to_im_nth; [exact Hi| |exact Hil].
    exact (map_nth_error (fun v0 => Erhg_graded RN sf sq g v0 (p_Dp p) (p_eps p) (p_nu p) (p_rhol p) (p_rhos p) (p_Cv p)
                true false) i vl Hv).
Qed.
End Curves.

(* ---------- graded sand: Erhg_graded against an independently written specification ---------- *)
Lemma Rsum_cons x l : Rsum (x :: l) = x + Rsum l.
Proof.
  unfold Rsum. cbn [fold_left]. rewrite Rplus_0_l.
  assert (G : forall l a, fold_left Rplus l a = a + fold_left Rplus l 0).
  { clear. induction l as [|y l IH]; intro a; cbn [fold_left]; [ring|].
    rewrite (IH (a + y)), (IH (0 + y)). ring. }
  apply G.
Qed.

Lemma ln10_pos : 0 < ln 10.
Proof. rewrite <- ln_1. apply ln_increasing; lra. Qed.

(* 10 ** ((log10 a + log10 b) / 2.0) is the geometric mean *)
Lemma geometric_mean a b : 0 < a -> 0 < b ->
  pow10 RN (ndiv RN (nadd RN (nlog10 RN a) (nlog10 RN b)) (nlit RN 20 10)) = sqrt (a * b).
Proof.
  intros Ha Hb. unfold pow10. toR. unfold Rlog10, Rpower.
  pose proof ln10_pos as L.
  replace ((ln a / ln 10 + ln b / ln 10) / (20 / 10) * ln 10) with (/ 2 * ln (a * b)).
  - rewrite <- Rpower_sqrt by (apply Rmult_lt_0_compat; assumption). unfold Rpower. reflexivity.
  - rewrite ln_mult by assumption. field. lra.
Qed.

Section GradedSpec.
Variables (sf sq cvt : bool) (vls Dp eps nu rhol rhos Cv : R).

(* mixture gradient of a uniform sand of diameter d at concentration Cv_r in the pseudo-liquid *)
Definition uniform_im (nu_x rhox Cv_r d : R) : R :=
  (if cvt then Framework.Cvt_Erhg RN sf sq vls Dp d eps nu_x rhox rhos Cv_r
   else Framework.Cvs_Erhg RN sf sq vls Dp d eps nu_x rhox rhos Cv_r) * ((rhos - rhox) / rhox) * Cv_r
  + Homogeneous.fluid_head_loss RN vls Dp eps nu_x rhox.

(* fraction-weighted sum over consecutive grading points, each at its geometric-mean diameter *)
Fixpoint wsum (nu_x rhox Cv_r flow dlow : R) (pts : list (R * R)) : R :=
  match pts with
  | [] => 0
  | (fnext, dnext) :: rest =>
    (fnext - flow) * uniform_im nu_x rhox Cv_r (sqrt (dlow * dnext)) + wsum nu_x rhox Cv_r fnext dnext rest
  end.

(* pseudo-liquid of Eqns 8.15-3 .. 8.15-7 for a fines fraction X *)
Definition rhox_spec (X : R) : R := rhol + rhol * (X * Cv * ((rhos - rhol) / rhol)) / (1 - Cv + Cv * X).
Definition Cvx_spec (X : R) : R := X * Cv / (1 - Cv + Cv * X).
Definition nux_spec (X : R) : R :=
  nu * rhol * (1 + 25 / 10 * Cvx_spec X + 1005 / 100 * (Cvx_spec X) ^ 2 + 273 / 100000 * exp (166 / 10 * Cvx_spec X))
  / rhox_spec X.

Definition graded_Erhg_spec (X d0 : R) (rest : list (R * R)) : R :=
  let rhox := rhox_spec X in
  let Cv_r := (1 - X) * Cv in
  let im_x := wsum (nux_spec X) rhox Cv_r X d0 rest / (1 - X) in
  (rhox * im_x / rhol - Homogeneous.fluid_head_loss RN vls Dp eps nu rhol) / ((rhos - rhol) / rhol * Cv).

Definition all_truthy_pos (pts : list (R * R)) : Prop :=
  Forall (fun q => fst q <> 0 /\ 0 < snd q) pts.

Lemma fraction_im nu_x rhox Cv_r flow dlow fnext dnext : 0 < dlow -> 0 < dnext ->
  fraction RN sf sq cvt vls Dp eps nu_x rhox rhos Cv_r ((rhos - rhox) / rhox) flow dlow fnext dnext =
  (sqrt (dlow * dnext), fnext - flow, uniform_im nu_x rhox Cv_r (sqrt (dlow * dnext))).
Proof.
  intros H1 H2. unfold fraction. cbv zeta. rewrite (geometric_mean _ _ H1 H2).
  unfold uniform_im. destruct cvt.
  - unfold Framework.Cvt_Erhg, Framework.Cvt_Erhg_dict. cbv zeta.
    cbn [Framework.Erhg7_regime Framework.Erhg7_FB Framework.Erhg7_SB Framework.Erhg7_He Framework.Erhg7_Ho
         Framework.Erhg7_il Framework.mkErhg7].
    unfold Framework.Cvs_Erhg_dict at 1. cbv zeta. cbn [Framework.Erhg6_il Framework.mkErhg6]. reflexivity.
  - unfold Framework.Cvs_Erhg, Framework.Cvs_Erhg_dict. cbv zeta.
    cbn [Framework.Erhg6_regime Framework.Erhg6_FB Framework.Erhg6_SB Framework.Erhg6_He Framework.Erhg6_Ho
         Framework.Erhg6_il Framework.mkErhg6]. reflexivity.
Qed.

Lemma fractions_sum nu_x rhox Cv_r : forall pts flow dlow, 0 < dlow -> all_truthy_pos pts ->
  Rsum (map (fun q : R * R * R * R => snd (fst q) * snd q)
            (fractions RN sf sq cvt vls Dp eps nu_x rhox rhos Cv_r ((rhos - rhox) / rhox) flow dlow pts))
  = wsum nu_x rhox Cv_r flow dlow pts.
Proof.
  induction pts as [|[fnext dnext] rest IH]; intros flow dlow Hd Hall; [reflexivity|].
  inversion Hall as [|q l [Hf Hp] Hrest]; subst. cbn [fst snd] in *.
  cbn [fractions wsum]. rewrite (truthy_R fnext Hf).
  rewrite (fraction_im _ _ _ _ _ _ _ Hd Hp). cbn [map fst snd]. rewrite Rsum_cons.
  rewrite (IH fnext dnext Hp Hrest). reflexivity.
Qed.

Lemma pseudo_liquid_spec X :
  pseudo_liquid RN X nu rhol rhos Cv =
  (rhox_spec X, Cvx_spec X, (1 - X) * Cv,
   nu * rhol * (1 + 25 / 10 * Cvx_spec X + 1005 / 100 * (Cvx_spec X) ^ 2 + 273 / 100000 * exp (166 / 10 * Cvx_spec X)),
   nux_spec X, (rhos - rhox_spec X) / rhox_spec X).
Proof. reflexivity. Qed.

(* the graded-sand excess gradient equals the pseudo-liquid-density-scaled, fraction-weighted sum
   (divided by one minus the fines fraction) of the uniform-sand gradients of its fractions, each at
   the geometric-mean diameter of the fraction, in the pseudo-liquid, at the residual concentration *)
Lemma graded_is_spec X d0 rest : 0 < d0 -> all_truthy_pos rest ->
  sort_keys RN ((X, d0) :: rest) = (X, d0) :: rest ->
  Erhg_graded RN sf sq ((X, d0) :: rest) vls Dp eps nu rhol rhos Cv cvt false = graded_Erhg_spec X d0 rest.
Proof.
  intros Hd Hall Hs. unfold Erhg_graded, Erhg_graded_dict. cbv zeta.
  rewrite Hs. rewrite pseudo_liquid_spec. cbn [g_Erhg].
  rewrite fractions_sum by assumption. unfold graded_Erhg_spec. cbv zeta. reflexivity.
Qed.
End GradedSpec.

Lemma graded_premises_example :
  0 < 1 / 10000 /\ all_truthy_pos [(5 / 10, 3 / 10000); (9 / 10, 1 / 1000)] /\
  sort_keys RN [(1 / 10, 1 / 10000); (5 / 10, 3 / 10000); (9 / 10, 1 / 1000)] =
    [(1 / 10, 1 / 10000); (5 / 10, 3 / 10000); (9 / 10, 1 / 1000)].
Proof.
  split; [lra|]. split.
  - repeat constructor; cbn [fst snd]; lra.
  - unfold sort_keys. cbn [fold_left insert_sorted fst]. toR. unfold Rltb.
    repeat (match goal with |- context [Rlt_dec ?a ?b] => destruct (Rlt_dec a b); try lra end; cbn [insert_sorted fst]; toR; unfold Rltb).
    reflexivity.
Qed.
