#!/venv/bin/python
"""C19 failing-input search on the real code: areas, perimeters, bed width, and the tabulated half-angle against
the circular-segment area fraction at all nodes (1e-5) and on a 1e-5 grid of Cvs/Cvb in [0,1] (0.0075)."""
import math
import random
from scommon import Search, seed
from DHLLDV import stratified as st
from DHLLDV.DHLLDV_constants import Arel_to_beta, Cvb

S = Search('C19', 'all table nodes (exhaustive); Cvs/Cvb on a grid of step 1e-5 (subsampled by budget in the quick tier); '
                  'areas/perimeters for random Dp in [0.1, 1.2]; distinct = distinct grid point')
rng = random.Random(seed())
seg = lambda b: (b - math.sin(b) * math.cos(b)) / math.pi
keys = sorted(Arel_to_beta.keys())
prev = None
for k in keys:
    b = Arel_to_beta[k]
    if abs(seg(b) - k) > 1e-5:
        S.violation('C19:node', f'node ({k}, {b}): segment area fraction {seg(b)} differs by more than 1e-5', input={'Arel': k})
    if prev is not None and not (k > prev[0] and b > prev[1]):
        S.violation('C19:monotone', f'rows ({prev}) -> ({k}, {b}) are not increasing in both columns')
    prev = (k, b)
    S.count(('node', k), 'node')
if keys[0] != 0 or Arel_to_beta[keys[0]] != 0 or keys[-1] != 1 or abs(Arel_to_beta[keys[-1]] - math.pi) >= 1e-7:
    S.violation('C19:ends', 'table does not run from (0, 0) to (1, pi +- 1e-7)')
step = 1 if S.budget >= 5000 else max(1, 100000 // (S.budget * 20))
worst = 0.0
prevb = -1.0
for n in range(0, 100001, step):
    x = n / 100000.0
    Cvs = x * Cvb
    try:
        b = st.beta(Cvs)
    except Exception as e:
        S.violation('C19:lookup', f'beta({Cvs}) raised {type(e).__name__}', input={'Cvs': Cvs})
        continue
    err = abs(seg(b) - Cvs / Cvb)
    worst = max(worst, err)
    if err > 0.0075:
        S.violation('C19:between', f'Cvs/Cvb={x}: beta={b}, segment area fraction {seg(b)} is off by {err} > 0.0075', input={'Cvs': Cvs})
    if not b >= prevb:
        S.violation('C19:monotone', f'beta decreases at Cvs/Cvb={x}', input={'Cvs': Cvs})
    prevb = b
    S.count(('grid', n), 'grid')
S.track_worst('segment error', worst, 'grid')
for i in range(max(20, S.budget // 5)):
    Dp = rng.uniform(0.1, 1.2)
    Cvs = rng.uniform(0.0, Cvb)
    Ap, A1, A2 = st.areas(Dp, Cvs)
    Op, O1, O12, O2 = st.perimeters(Dp, Cvs)
    B = st.beta(Cvs)
    tol = 1e-12
    if abs(A1 + A2 - Ap) > tol * Ap or abs(A2 - Ap * Cvs / Cvb) > tol * Ap or abs(Ap - math.pi * Dp * Dp / 4) > tol * Ap:
        S.violation('C19:areas', 'bed area + free area != pipe area (or bed area != Ap*Cvs/Cvb)', input={'Dp': Dp, 'Cvs': Cvs})
    if abs(O1 + O2 - Op) > tol * Op or abs(Op - math.pi * Dp) > tol * Op or abs(O12 - Dp * math.sin(B)) > tol * Dp:
        S.violation('C19:perimeters', 'perimeters do not sum to the circumference or bed width != Dp sin(beta)', input={'Dp': Dp, 'Cvs': Cvs})
    if abs(O1 - (math.pi - B) * Dp) > tol * Op or abs(O2 - B * Dp) > tol * Op:
        S.violation('C19:arcs', f'free-wall arc {O1} != (pi - beta) Dp = {(math.pi - B) * Dp} or bed arc {O2} != beta Dp', input={'Dp': Dp, 'Cvs': Cvs})
    S.count(('geom', Dp, Cvs), 'geometry')
S.sample({'Dp': Dp, 'Cvs': Cvs, 'areas': [Ap, A1, A2], 'perimeters': [Op, O1, O12, O2]})
S.finish()
