(* Proofs for C10: decision logic of find_operating_point and what a converged secant search guarantees. *)
From Coq Require Import Reals List Bool Lra.
From DHV Require Import NumOps RInst OpPoint.
Import ListNotations.
Local Open Scope R_scope.

Section S.
Variable gap : R -> R.
Notation fop := (find_operating_point RN gap).

Definition tolR : R := 148 / 10000000000.

(* pump head below system head at the minimum-friction flow: OperatingPointError, nothing is searched *)
Lemma infeasible qimin qlast hsys hpump : hpump < hsys -> fop qimin qlast hsys hpump = (OperatingPointError, []).
Proof. intro H. unfold find_operating_point. toR. rewrite (proj2 (Rltb_true hpump hsys) H). reflexivity. Qed.

(* the only outcomes: a root reported as converged, OperatingPointError, or ValueError exactly when the two starting
   flows coincide (qimin equal to the largest tabulated flow) *)
Lemma outcomes qimin qlast hsys hpump :
  (exists r vis, fop qimin qlast hsys hpump = (Ok r, vis) /\ hsys <= hpump /\
                 exists vis0, secant RN gap qimin ((qimin + qlast) / 2) = (r, true, vis0)) \/
  (exists vis, fop qimin qlast hsys hpump = (OperatingPointError, vis)) \/
  (fop qimin qlast hsys hpump = (ValueError, []) /\ (qimin + qlast) / 2 = qimin).
Proof.
  unfold find_operating_point. toR. destruct (Rltb hpump hsys) eqn:B; [right; left; eauto|].
  apply Rltb_false in B. cbv zeta.
  destruct (Reqb ((qimin + qlast) / 2) qimin) eqn:E; [right; right; split; [reflexivity|apply Reqb_true; exact E]|].
  destruct (secant RN gap qimin ((qimin + qlast) / 2)) as [[r conv] vis] eqn:S.
  destruct conv; [left|right; left; eauto].
  exists r, vis. split; [reflexivity|]. split; [exact B|eauto].
Qed.

(* a converged search: the reported root is one secant update from the last evaluated flow b, no further than the
   step tolerance from it, with distinct gap values at the two points it was computed from *)
Lemma loop_converged : forall fuel p0 q0 p1 q1 vis r vis',
  secant_loop RN gap fuel p0 q0 p1 q1 vis = (r, true, vis') -> q0 = gap p0 -> q1 = gap p1 ->
  exists a b, r = secant_step RN a (gap a) b (gap b) /\ Rabs (r - b) <= tolR /\ gap b <> gap a.
Proof.
  induction fuel as [|fuel IH]; intros p0 q0 p1 q1 vis r vis' H E0 E1; [discriminate H|].
  cbn [secant_loop] in H. toR_in H. destruct (Reqb q1 q0) eqn:Q; [discriminate H|].
  cbv zeta in H. destruct (Rleb (Rabs (secant_step RN p0 q0 p1 q1 - p1)) (tol RN)) eqn:C.
  - injection H as <- _. exists p0, p1. rewrite <- E0, <- E1. split; [reflexivity|]. split.
    + apply Rleb_true in C. unfold tol in C. toR_in C. exact C.
    + intro A. unfold Reqb in Q. destruct (Req_EM_T q1 q0) as [_|N]; [discriminate Q|]. apply N. exact A.
  - eapply IH; [exact H|exact E1|reflexivity].
Qed.

Lemma secant_converged x0 x1 r vis : secant RN gap x0 x1 = (r, true, vis) ->
  exists a b, r = secant_step RN a (gap a) b (gap b) /\ Rabs (r - b) <= tolR /\ gap b <> gap a.
Proof.
  unfold secant. cbv zeta. destruct (nltb RN _ _); intro H; eapply loop_converged; try exact H; reflexivity.
Qed.

(* the secant update written the textbook way *)
Lemma secant_step_formula a fa b fb : fb <> fa -> fa <> 0 \/ fb <> 0 ->
  secant_step RN a fa b fb = b - fb * (b - a) / (fb - fa).
Proof.
  intros Hd Hz. unfold secant_step. toR.
  assert (D : fb - fa <> 0) by (intro Z; apply Hd; lra).
  destruct (Rltb (Rabs fa) (Rabs fb)) eqn:B.
  - assert (Hb : fb <> 0) by (intro Z; subst; apply Rltb_true in B; rewrite Rabs_R0 in B; pose proof (Rabs_pos fa); lra).
    field. repeat split; try assumption; intro Z; apply Hd; lra.
  - assert (Ha : fa <> 0).
    { intro Z; subst. apply Rltb_false in B. rewrite Rabs_R0 in B. pose proof (Rabs_pos fb).
      destruct Hz as [Hz|Hz]; [apply Hz; reflexivity|]. pose proof (Rabs_pos_lt fb Hz). lra. }
    field. repeat split; try assumption; intro Z; apply Hd; lra.
Qed.

(* hence at the last evaluated flow b the two heads differ by at most tolerance x |secant slope| *)
Lemma residual_bound a b r : gap b <> gap a -> b <> a ->
  r = b - gap b * (b - a) / (gap b - gap a) -> Rabs (r - b) <= tolR ->
  Rabs (gap b) <= tolR * Rabs ((gap b - gap a) / (b - a)).
Proof.
  intros Hd Hab E HT. set (fa := gap a) in *. set (fb := gap b) in *.
  assert (X : r - b = - (fb * ((b - a) / (fb - fa)))) by (rewrite E; field; lra).
  rewrite X, Rabs_Ropp, Rabs_mult in HT.
  assert (P : 0 < Rabs ((fb - fa) / (b - a))).
  { apply Rabs_pos_lt. unfold Rdiv. apply Rmult_integral_contrapositive_currified; [lra|apply Rinv_neq_0_compat; lra]. }
  assert (I : Rabs ((b - a) / (fb - fa)) * Rabs ((fb - fa) / (b - a)) = 1).
  { rewrite <- Rabs_mult. replace ((b - a) / (fb - fa) * ((fb - fa) / (b - a))) with 1 by (field; lra). apply Rabs_R1. }
  assert (Rabs fb = Rabs fb * Rabs ((b - a) / (fb - fa)) * Rabs ((fb - fa) / (b - a))) by (rewrite Rmult_assoc, I; ring).
  rewrite H. apply Rmult_le_compat_r; [lra|exact HT].
Qed.
End S.
