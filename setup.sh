#!/bin/bash
# setup.sh: build the whole development once from files on disk (offline): regenerate the model from
# /repo, compile every .v (full .vo), extract and compile the OCaml driver.
set -u
cd "$(dirname "$0")"
mkdir -p build/run evidence replays coq/Gen
REPO="${VERIF_REPO:-/repo}"
for g in gen.py gen_deps.py gen_files.py gen_units.py gen_pumps.py; do /venv/bin/python tools/translate/$g "$REPO" coq/Gen || echo "setup: generator $g failed (checks will report it)"; done
cd coq
(cat _CoqProject.base; ls Num/*.v Gen/*.v Models/*.v Lemmas/*.v Props/*.v 2>/dev/null) > _CoqProject
coq_makefile -f _CoqProject -o Makefile > /dev/null
timeout 7000 make -j"$(nproc)" -k > ../build/setup-make.log 2>&1 || echo "setup: make reported errors (see build/setup-make.log); checks will report them"
cd ..
echo "setup done"
