"""viewer_events.py: the event alphabet and random event generator shared by the C17 correspondence and search."""
TEXT_WIDGETS = ['Dp_input', 'D15_input', 'D50_input', 'D85_input', 'rhos_input', 'rhom_input', 'Cv_input']
BUTTONS = ['Dp_up_button', 'Dp_down_button', 'D50_up_button', 'D50_down_button', 'Cv_up_button', 'Cv_down_button']

VALID = [('text', 'Dp_input', '600'), ('text', 'Dp_input', '762'), ('text', 'Dp_input', '500'),
         ('text', 'D15_input', '0.3'), ('text', 'D50_input', '0.8'), ('text', 'D50_input', '2.0'), ('text', 'D85_input', '3.5'),
         ('text', 'rhos_input', '2.4'), ('text', 'rhos_input', '3.2'), ('text', 'rhom_input', '1.25'), ('text', 'rhom_input', '1.5'),
         ('text', 'Cv_input', '0.1'), ('text', 'Cv_input', '0.3')]
INVALID = [('text', 'Dp_input', '10'), ('text', 'Dp_input', '2000'), ('text', 'Dp_input', 'abc'), ('text', 'Dp_input', 'nan'),
           ('text', 'Dp_input', ''), ('text', 'D15_input', '0.01'), ('text', 'D15_input', '5'), ('text', 'D15_input', 'x'),
           ('text', 'D50_input', '0.05'), ('text', 'D50_input', '300'), ('text', 'D50_input', 'inf'), ('text', 'D85_input', '0.1'),
           ('text', 'D85_input', '1e9'), ('text', 'D85_input', 'nan'), ('text', 'rhos_input', '1.0'), ('text', 'rhos_input', '9'),
           ('text', 'rhos_input', 'NaN'), ('text', 'rhom_input', '1.0'), ('text', 'rhom_input', '3'), ('text', 'rhom_input', 'nan'),
           ('text', 'Cv_input', '0.005'), ('text', 'Cv_input', '0.7'), ('text', 'Cv_input', '-0.1'), ('text', 'Cv_input', 'NaN')]
OTHER = [('click', b) for b in BUTTONS] + [('fluid', 0), ('fluid', 1), ('units', 'US'), ('units', 'SI')]
# boundary entries: one box is given the text another box currently shows (D15 = D50, D85 = D50, D50 = D15, D50 = D85)
COPY = [('copy', 'D50_input', 'D15_input'), ('copy', 'D50_input', 'D85_input'), ('copy', 'D15_input', 'D50_input'),
        ('copy', 'D85_input', 'D50_input')]
# entries a hair away from what a box shows (the rounded text of a DERIVED box then does not change)
NUDGE = [('nudge', 'rhom_input', 0.0004), ('nudge', 'Cv_input', 0.0004), ('nudge', 'D50_input', 0.0004), ('nudge', 'rhos_input', -0.0004)]


# entries just inside (accepted) and just outside (rejected) each end of every box's documented range
EDGES = [('edge', w, side, sign) for w in TEXT_WIDGETS for side in ('lo', 'hi') for sign in (-1, 1)]


def random_event(rng, keys):
    r = rng.random()
    if r < 0.04:
        return rng.choice(COPY)
    if r < 0.14:
        return rng.choice(EDGES)
    if r < 0.18:
        return rng.choice(NUDGE)
    if r < 0.5:
        w = rng.choice(TEXT_WIDGETS)
        rng2 = rng.random()
        if rng2 < 0.12:
            return ('text', w, rng.choice(['abc', 'nan', '', 'inf', '-1', '1e400', '1,5', '0x10', ' 0.3 ']))
        lo, hi = {'Dp_input': (100, 1200), 'D15_input': (0.05, 2.0), 'D50_input': (0.08, 6.0), 'D85_input': (0.2, 30.0),
                  'rhos_input': (2.0, 4.0), 'rhom_input': (1.07, 1.9), 'Cv_input': (0.02, 0.45)}[w]
        if rng2 < 0.3:       # deliberately out of the widget's range
            x = rng.choice([lo / 20, hi * 20])
        else:
            x = rng.uniform(lo, hi)
        if w == 'Dp_input' and rng.random() < 0.6:
            return ('text', w, rng.choice(['500', '600', '762', '850', '860']))
        return ('text', w, f'{x:.4g}')
    if r < 0.8:
        return ('click', rng.choice(BUTTONS))
    if r < 0.88:
        return ('fluid', rng.randint(0, 1))
    if r < 0.95:
        return ('units', rng.choice(['SI', 'US']))
    return ('pipeline', rng.choice(keys))



# hand-made histories that walk a parameter to the end of its range and then press the button that would leave it
SCENARIOS = [
    (('edge', 'D85_input', 'hi', -1), ('edge', 'D50_input', 'hi', -1)) + (('click', 'D50_up_button'),) * 4,
    (('text', 'Cv_input', '0.499'),) + (('click', 'Cv_up_button'),) * 2,
    (('text', 'Cv_input', '0.012'),) + (('click', 'Cv_down_button'),) * 2,
    (('edge', 'D50_input', 'lo', 1),) + (('click', 'D50_down_button'),) * 2,
    (('edge', 'D15_input', 'lo', 1),) + (('click', 'D50_down_button'),) * 3,
    (('text', 'Dp_input', '600'), ('click', 'Dp_down_button'), ('click', 'Dp_up_button'), ('click', 'Dp_up_button')),
    # corpus: D50 just above the pseudo-liquid limit of the slurry's own diameter but below the limit of the larger
    # pipeline sections (found by the thorough tier, 2026-10-01: an over-strict oracle, see DESIGN.md 0.5)
    (('edge', 'D15_input', 'lo', 1), ('edge', 'D50_input', 'lo', 1)),
    (('edge', 'D15_input', 'lo', 1), ('edge', 'D50_input', 'lo', 1), ('text', 'Dp_input', '600'), ('click', 'D50_down_button')),
]


def sequences(rng, keys, exhaustive_pairs, n_pairs, n_random, depth=15):
    events = VALID + INVALID + OTHER + COPY + NUDGE + EDGES + [('pipeline', k) for k in keys]
    seqs = [(e,) for e in events] + list(SCENARIOS)
    pairs = [(a, b) for a in events for b in events]
    if exhaustive_pairs:
        seqs += pairs
    else:
        seqs += rng.sample(pairs, min(n_pairs, len(pairs)))
        # always keep pairs in which a validation follows an edit that moves its bounds
        seqs += [(a, b) for a in VALID[:3] + VALID[7:9] for b in INVALID[5:14:3]]
    for _ in range(n_random):
        seqs.append(tuple(random_event(rng, keys) for _ in range(depth)))
    return seqs
