(* C11 for pumps whose QP curve has a benign shape, in particular every shipped pump: the power-limited speed search
   never leaves (0, set speed], for EVERY flow, trim, set speed, density and nameplate power.
   Shape (segs_ok): keys start at a non-negative flow and increase, powers are positive and increase, and on every
   segment the elasticity of the power with respect to the flow is at most 3 at the segment's left end
   ((y1 - y0) x0 <= 3 y0 (x1 - x0)); it then stays at most 3 on the whole segment and, for the last one, on its
   extrapolation.  Consequence (pwl_cubic): P0(x)/x^3 does not increase; with the affinity law P = P0(Q/(s t^2)) s^3 t^5 rho
   this is "required power does not fall with speed", and P0 increasing is "it grows at most like n^4" -- the premises of
   LC11b.power_limited_not_above. *)
From Coq Require Import Reals Lra Lia List Bool Sorted Relations.
From DHV Require Import NumOps RInst Interp Pump LC18 LMono LC11 LC11b.
Import ListNotations.
Local Open Scope R_scope.

Fixpoint segs_ok (tbl : list (R * R)) : Prop :=
  match tbl with
  | (x0, y0) :: (((x1, y1) :: _) as tl) =>
      0 <= x0 /\ 0 < y0 /\ x0 < x1 /\ y0 < y1 /\ (y1 - y0) * x0 <= 3 * y0 * (x1 - x0) /\ segs_ok tl
  | _ => True
  end.

Lemma segs_ok_tail p tl : segs_ok (p :: tl) -> segs_ok tl.
Proof. destruct p as [x0 y0]. destruct tl as [|[x1 y1] r]; [intros _; exact I|]. cbn [segs_ok]. tauto. Qed.

Lemma vlt_trans : forall a b c : R * R, vlt a b -> vlt b c -> vlt a c.
Proof. intros a b c [A1 A2] [B1 B2]. split; lra. Qed.

Lemma segs_ok_rising : forall tbl, segs_ok tbl -> rising tbl.
Proof.
  intros tbl H. apply Sorted_StronglySorted; [exact vlt_trans|].
  induction tbl as [|[x0 y0] tl IH]; [constructor|].
  constructor; [apply IH; eapply segs_ok_tail; exact H|].
  destruct tl as [|[x1 y1] r]; [constructor|]. cbn [segs_ok] in H. constructor. split; cbn [fst snd]; tauto.
Qed.

(* one segment (and its extrapolation to the right): P(x)/x^3 does not increase from the segment's left end on *)
Lemma line_cubic x0 y0 x1 y1 a b : 0 <= x0 -> 0 < y0 -> x0 < x1 -> y0 < y1 -> (y1 - y0) * x0 <= 3 * y0 * (x1 - x0) ->
  x0 <= a -> a <= b -> 0 < a -> line x0 y0 x1 y1 b * a ^ 3 <= line x0 y0 x1 y1 a * b ^ 3.
Proof.
  intros Hx0 Hy0 Hx Hy Hs Ha Hab Pa. unfold line. set (m := (y1 - y0) / (x1 - x0)).
  assert (Pm : 0 < m) by (unfold m; apply Rdiv_lt_0_compat; lra).
  assert (Hm : m * x0 <= 3 * y0).
  { unfold m. apply (Rmult_le_reg_r (x1 - x0)); [lra|].
    replace ((y1 - y0) / (x1 - x0) * x0 * (x1 - x0)) with ((y1 - y0) * x0) by (field; lra). lra. }
  set (c := y0 - m * x0). assert (Hc : 0 <= 3 * c + 2 * (m * x0)) by (unfold c; lra).
  replace (m * (b - x0) + y0) with (c + m * b) by (unfold c; ring).
  replace (m * (a - x0) + y0) with (c + m * a) by (unfold c; ring).
  (* (c + m a) b^3 - (c + m b) a^3 = (b - a) (c (a^2 + a b + b^2) + m a b (a + b)) *)
  assert (K : 0 <= c * (a * a + a * b + b * b) + m * (a * b * (a + b))).
  { destruct (Rle_lt_dec 0 c) as [P|N].
    - assert (0 <= c * (a * a + a * b + b * b)) by (apply Rmult_le_pos; nra).
      assert (0 <= m * (a * b * (a + b))) by (apply Rmult_le_pos; [lra|]; apply Rmult_le_pos; nra). lra.
    - (* c >= -(2/3) m x0 >= -(2/3) m a *)
      assert (C1 : - (2 / 3) * (m * a) <= c) by nra.
      assert (Q : 0 < a * a + a * b + b * b) by nra.
      assert (C2 : - (2 / 3) * (m * a) * (a * a + a * b + b * b) <= c * (a * a + a * b + b * b)) by (apply Rmult_le_compat_r; lra).
      assert (C3 : 0 <= m * a / 3 * ((b - a) * (b + 2 * a))).
      { apply Rmult_le_pos; [apply Rmult_le_pos; [apply Rmult_le_pos; lra|lra]|apply Rmult_le_pos; lra]. }
      replace (m * a / 3 * ((b - a) * (b + 2 * a))) with (- (2 / 3) * (m * a) * (a * a + a * b + b * b) + m * (a * b * (a + b))) in C3 by field.
      lra. }
  assert (0 <= (b - a) * (c * (a * a + a * b + b * b) + m * (a * b * (a + b)))) by (apply Rmult_le_pos; lra).
  replace ((c + m * a) * b ^ 3) with ((c + m * b) * a ^ 3 + (b - a) * (c * (a * a + a * b + b * b) + m * (a * b * (a + b)))) by ring.
  lra.
Qed.

Lemma pwl_first_key tbl x0 y0 : segs_ok ((x0, y0) :: tbl) -> tbl <> [] -> pwl ((x0, y0) :: tbl) x0 = y0.
Proof. intros H N. apply pwl_at_first; [apply segs_ok_rising; exact H|exact N]. Qed.

Theorem pwl_cubic : forall tbl x0 y0 a b, segs_ok ((x0, y0) :: tbl) -> tbl <> [] -> x0 <= a -> a <= b -> 0 < a ->
  pwl ((x0, y0) :: tbl) b * a ^ 3 <= pwl ((x0, y0) :: tbl) a * b ^ 3.
Proof.
  induction tbl as [|[x1 y1] rest IH]; intros x0 y0 a b Hs Hne Ha Hab Pa; [contradiction|].
  pose proof Hs as Hs'. cbn [segs_ok] in Hs'. destruct Hs' as (Hx0 & Hy0 & Hx & Hy & Hseg & Htl).
  destruct rest as [|p2 rest'].
  - cbn [pwl]. apply line_cubic; assumption.
  - rewrite !pwl_cons3. set (Tl := (x1, y1) :: p2 :: rest') in *.
    assert (E1 : pwl Tl x1 = y1) by (apply pwl_first_key; [exact Htl|discriminate]).
    destruct (Rltb a x1) eqn:Ba; destruct (Rltb b x1) eqn:Bb.
    + apply line_cubic; assumption.
    + apply Rltb_true in Ba. apply Rltb_false in Bb.
      (* chain through the breakpoint x1 *)
      pose proof (line_cubic x0 y0 x1 y1 a x1 Hx0 Hy0 Hx Hy Hseg Ha ltac:(lra) Pa) as L1.
      rewrite line_at_right in L1 by lra.
      pose proof (IH x1 y1 x1 b Htl ltac:(discriminate) ltac:(lra) Bb ltac:(lra)) as L2. fold Tl in L2. rewrite E1 in L2.
      assert (P1 : 0 < x1 ^ 3) by (apply pow_lt; lra). assert (A3 : 0 < a ^ 3) by (apply pow_lt; lra).
      assert (B3 : 0 < b ^ 3) by (apply pow_lt; lra).
      apply (Rmult_le_reg_r (x1 ^ 3)); [exact P1|].
      apply Rle_trans with (y1 * b ^ 3 * a ^ 3).
      * replace (pwl Tl b * a ^ 3 * x1 ^ 3) with (pwl Tl b * x1 ^ 3 * a ^ 3) by ring. apply Rmult_le_compat_r; lra.
      * replace (y1 * b ^ 3 * a ^ 3) with (y1 * a ^ 3 * b ^ 3) by ring.
        replace (line x0 y0 x1 y1 a * b ^ 3 * x1 ^ 3) with (line x0 y0 x1 y1 a * x1 ^ 3 * b ^ 3) by ring.
        apply Rmult_le_compat_r; lra.
    + apply Rltb_false in Ba. apply Rltb_true in Bb. lra.
    + apply Rltb_false in Ba. apply (IH x1 y1 a b Htl); [discriminate|lra|exact Hab|exact Pa].
Qed.

Lemma pwl_pos tbl x0 y0 k : segs_ok ((x0, y0) :: tbl) -> tbl <> [] -> x0 <= k -> 0 < pwl ((x0, y0) :: tbl) k.
Proof.
  intros Hs Hne Hk. pose proof Hs as Hs'. destruct tbl as [|[x1 y1] r]; [contradiction|]. cbn [segs_ok] in Hs'.
  destruct Hs' as (_ & Hy0 & _). pose proof (pwl_first_key _ _ _ Hs Hne) as E.
  destruct Hk as [Hk|<-]; [|lra].
  pose proof (pwl_increasing _ x0 k (segs_ok_rising _ Hs) ltac:(cbn [length]; lia) Hk). lra.
Qed.

Lemma pwl_mono tbl x0 y0 a b : segs_ok ((x0, y0) :: tbl) -> tbl <> [] -> a <= b -> pwl ((x0, y0) :: tbl) a <= pwl ((x0, y0) :: tbl) b.
Proof.
  intros Hs Hne [H|<-]; [|lra]. left. apply pwl_increasing; [apply segs_ok_rising; exact Hs| |exact H].
  destruct tbl; [contradiction|cbn [length]; lia].
Qed.

(* the extrapolate_low flag is immaterial at or above the first key *)
Lemma lookup_xlo (tbl : list (R * R)) x0 y0 xlo tol k : increasing ((x0, y0) :: tbl) -> x0 <= k ->
  lookup RN ((x0, y0) :: tbl) xlo true tol k = lookup RN ((x0, y0) :: tbl) true true tol k.
Proof.
  intros Hi Hk. unfold lookup. destruct (find_exact RN ((x0, y0) :: tbl) k); [reflexivity|].
  pose proof (bisect_pos x0 y0 tbl k Hk) as B.
  destruct (bisect RN ((x0, y0) :: tbl) k) as [|i] eqn:E; [lia|].
  remember (length ((x0, y0) :: tbl)) as n eqn:En. change (Nat.eqb (S i) 0) with false.
  destruct (Nat.eqb (S i) n); reflexivity.
Qed.

(* ---------- the pump ---------- *)
Section ShapedPump.
Variables (p : pump (T:=R)) (Q : R) (w : bool).
Variables (x0 y0 : R) (tl : list (R * R)).
Hypothesis HQP : QP p = (x0, y0) :: tl.
Hypothesis Hx0 : x0 <= 0.
Hypothesis Hne : tl <> [].
Hypothesis Hs : segs_ok (QP p).
Hypothesis Hds : 0 < design_speed p.
Hypothesis Hdi : 0 < design_impeller p.
Hypothesis Hci : 0 < current_impeller p.
Hypothesis Hrho : 0 < rho p w.
Hypothesis HQ : 0 < Q.

Let ds := design_speed p.
Let ir := current_impeller p / design_impeller p.
Let X (n : R) : R := Q / (n / ds * ir ^ 2).
Let g (x : R) : R := pwl (QP p) x.

Lemma ir_pos : 0 < ir.
Proof. unfold ir. apply Rdiv_lt_0_compat; assumption. Qed.

Lemma X_pos n : 0 < n -> 0 < X n.
Proof.
  intro Hn. unfold X. pose proof ir_pos. apply Rdiv_lt_0_compat; [exact HQ|].
  apply Rmult_lt_0_compat; [apply Rdiv_lt_0_compat; [exact Hn|exact Hds]|apply pow_lt; assumption].
Qed.

Lemma X_anti a b : 0 < a -> a <= b -> X b <= X a.
Proof.
  intros Ha Hab. unfold X. pose proof ir_pos as Pi. assert (P2 : 0 < ir ^ 2) by (apply pow_lt; exact Pi).
  unfold Rdiv at 1 3. apply Rmult_le_compat_l; [lra|]. apply Rinv_le_contravar.
  - apply Rmult_lt_0_compat; [apply Rdiv_lt_0_compat; [exact Ha|exact Hds]|exact P2].
  - apply Rmult_le_compat_r; [lra|]. unfold Rdiv. apply Rmult_le_compat_r; [left; apply Rinv_0_lt_compat; exact Hds|exact Hab].
Qed.

Lemma Pw_eq n : 0 < n -> power_required RN p Q n w = g (X n) * (n / ds) ^ 3 * ir ^ 5 * rho p w.
Proof.
  intro Hn. unfold power_required. toR. unfold Reqb. destruct (Req_EM_T n 0) as [E|_]; [lra|]. cbv zeta.
  unfold qp, lookup_or_fail. fold ds ir. fold (X n).
  pose proof (X_pos n Hn) as PX.
  assert (Inc : increasing (QP p)) by (apply rising_increasing; apply segs_ok_rising; exact Hs).
  assert (Len : (2 <= length (QP p))%nat) by (rewrite HQP; destruct tl; [contradiction|cbn [length]; lia]).
  assert (L : lookup RN (QP p) (curves_xlo p) true (tol RN) (X n) = Some (g (X n))).
  { rewrite HQP. rewrite lookup_xlo by (try (rewrite <- HQP; exact Inc); lra). rewrite <- HQP. apply lookup_pwl; assumption. }
  rewrite L. reflexivity.
Qed.

Lemma g_pos x : 0 <= x -> 0 < g x.
Proof. intro H. unfold g. rewrite HQP. apply pwl_pos; [rewrite <- HQP; exact Hs|exact Hne|lra]. Qed.

Lemma g_mono a b : a <= b -> g a <= g b.
Proof. intro H. unfold g. rewrite HQP. apply pwl_mono; [rewrite <- HQP; exact Hs|exact Hne|exact H]. Qed.

Lemma g_cubic a b : 0 < a -> a <= b -> g b * a ^ 3 <= g a * b ^ 3.
Proof. intros Ha Hab. unfold g. rewrite HQP. apply pwl_cubic; [rewrite <- HQP; exact Hs|exact Hne|lra|exact Hab|exact Ha]. Qed.

Lemma X_times n : 0 < n -> X n * n = Q * ds / ir ^ 2.
Proof. intro Hn. unfold X. pose proof ir_pos as Pi. assert (Pds : 0 < ds) by exact Hds. field. repeat split; apply Rgt_not_eq; assumption. Qed.

(* required power does not fall with speed *)
Lemma Pw_mono a b : 0 < a -> a <= b -> power_required RN p Q a w <= power_required RN p Q b w.
Proof.
  intros Ha Hab. rewrite !Pw_eq by lra. pose proof ir_pos as Pi. assert (P5 : 0 < ir ^ 5) by (apply pow_lt; exact Pi).
  pose proof (X_pos a Ha) as Xa. pose proof (X_pos b ltac:(lra)) as Xb.
  pose proof (g_cubic (X b) (X a) Xb (X_anti a b Ha Hab)) as C.
  (* g(Xa) Xb^3 <= g(Xb) Xa^3, with Xa a = Xb b = kappa: multiply by a^3 b^3 / kappa^3 *)
  set (ga := g (X a)) in *. set (gb := g (X b)) in *.
  pose proof (X_times a Ha) as Ea. pose proof (X_times b ltac:(lra)) as Eb. set (kap := Q * ds / ir ^ 2) in *.
  assert (Pk : 0 < kap) by (rewrite <- Ea; apply Rmult_lt_0_compat; lra).
  assert (A3 : 0 < a ^ 3) by (apply pow_lt; lra). assert (B3 : 0 < b ^ 3) by (apply pow_lt; lra).
  assert (K3 : 0 < kap ^ 3) by (apply pow_lt; lra).
  assert (H : ga * a ^ 3 <= gb * b ^ 3).
  { apply (Rmult_le_reg_r (kap ^ 3)); [exact K3|].
    replace (ga * a ^ 3 * kap ^ 3) with (ga * X b ^ 3 * (a ^ 3 * b ^ 3)) by (rewrite <- Eb; ring).
    replace (gb * b ^ 3 * kap ^ 3) with (gb * X a ^ 3 * (a ^ 3 * b ^ 3)) by (rewrite <- Ea; ring).
    apply Rmult_le_compat_r; [left; apply Rmult_lt_0_compat; assumption|exact C]. }
  assert (Pds : 0 < ds) by exact Hds.
  assert (D3 : 0 < / ds ^ 3) by (apply Rinv_0_lt_compat; apply pow_lt; exact Hds).
  replace (ga * (a / ds) ^ 3 * ir ^ 5 * rho p w) with (ga * a ^ 3 * (/ ds ^ 3 * ir ^ 5 * rho p w)) by (field; lra).
  replace (gb * (b / ds) ^ 3 * ir ^ 5 * rho p w) with (gb * b ^ 3 * (/ ds ^ 3 * ir ^ 5 * rho p w)) by (field; lra).
  apply Rmult_le_compat_r; [|exact H]. apply Rmult_le_pos; [apply Rmult_le_pos; lra|lra].
Qed.

(* ... and grows at most like n^4 *)
Lemma Pw_quartic a b : 0 < a -> a <= b -> power_required RN p Q b w * a ^ 4 <= power_required RN p Q a w * b ^ 4.
Proof.
  intros Ha Hab. rewrite !Pw_eq by lra. pose proof ir_pos as Pi. assert (P5 : 0 < ir ^ 5) by (apply pow_lt; exact Pi).
  pose proof (X_pos a Ha) as Xa. pose proof (X_pos b ltac:(lra)) as Xb.
  pose proof (g_mono (X b) (X a) (X_anti a b Ha Hab)) as M. pose proof (g_pos (X a) ltac:(lra)) as Ga. pose proof (g_pos (X b) ltac:(lra)) as Gb.
  set (ga := g (X a)) in *. set (gb := g (X b)) in *.
  assert (H : gb * a <= ga * b) by nra.
  assert (A3 : 0 < a ^ 3) by (apply pow_lt; lra). assert (B3 : 0 < b ^ 3) by (apply pow_lt; lra).
  assert (Pds : 0 < ds) by exact Hds.
  assert (D3 : 0 < / ds ^ 3) by (apply Rinv_0_lt_compat; apply pow_lt; exact Hds).
  replace (gb * (b / ds) ^ 3 * ir ^ 5 * rho p w * a ^ 4) with (gb * a * (a ^ 3 * b ^ 3 * (/ ds ^ 3 * ir ^ 5 * rho p w))) by (field; lra).
  replace (ga * (a / ds) ^ 3 * ir ^ 5 * rho p w * b ^ 4) with (ga * b * (a ^ 3 * b ^ 3 * (/ ds ^ 3 * ir ^ 5 * rho p w))) by (field; lra).
  apply Rmult_le_compat_r; [|exact H].
  apply Rmult_le_pos; [apply Rmult_le_pos; lra|apply Rmult_le_pos; [apply Rmult_le_pos; lra|lra]].
Qed.

Lemma Pw_pos n : 0 < n -> 0 < power_required RN p Q n w.
Proof.
  intro Hn. rewrite Pw_eq by exact Hn. pose proof ir_pos as Pi. pose proof (g_pos (X n) ltac:(pose proof (X_pos n Hn); lra)).
  apply Rmult_lt_0_compat; [|exact Hrho]. apply Rmult_lt_0_compat; [|apply pow_lt; exact Pi].
  apply Rmult_lt_0_compat; [assumption|]. apply pow_lt. apply Rdiv_lt_0_compat; assumption.
Qed.

Theorem power_limited_not_above_shape fuel r : 0 < current_speed p -> 0 < avail_power p ->
  find_power_limited_speed RN fuel p Q w = Some r -> 0 <= r <= current_speed p.
Proof.
  intros Hn0 HA. apply (power_limited_not_above p Q w fuel r Hn0 HA).
  - intros n [Hn _]. apply Pw_pos; exact Hn.
  - intros a b Ha Hab _. apply Pw_mono; assumption.
  - intros a b Ha Hab _. apply Pw_quartic; assumption.
Qed.

End ShapedPump.
