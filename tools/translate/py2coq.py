#!/usr/bin/env python3
"""py2coq: fail-closed translator from the numeric subset of DHLLDV's Python to Gallina.

Every modelled function becomes a definition inside a Section over {T} (N : NumOps T)
(value model, file Gen/<Mod>.v) and a predicate f_ok over R (file Gen/<Mod>Ok.v) collecting
the side conditions of every partial operation in evaluation order.

Anything outside the supported subset raises Unsupported and aborts the run.
"""
import ast
import sys
from decimal import Decimal


class Unsupported(Exception):
    pass


def fail(node, msg):
    line = getattr(node, 'lineno', '?')
    raise Unsupported(f'line {line}: {msg}: {ast.dump(node)[:200] if isinstance(node, ast.AST) else node}')


# ----------------------------------------------------------------------------------------
# IR.  Every node knows its Gallina value term (val) and its side-condition Prop (ok).
# Types: 'num' 'bool' 'nat' 'Z' 'regime' 'str' ('tuple', n) ('rec', recname)
# ----------------------------------------------------------------------------------------

def conj(props):
    ps = [p for p in props if p != 'True']
    if not ps:
        return 'True'
    if len(ps) == 1:
        return ps[0]
    return '(' + ' /\\ '.join(ps) + ')'


class E:
    ty = 'num'

    def val(self):
        raise NotImplementedError

    def ok(self):
        raise NotImplementedError


class Raw(E):
    def __init__(self, s, ty='num', okp='True'):
        self.s, self.ty, self.okp = s, ty, okp

    def val(self):
        return self.s

    def ok(self):
        return self.okp


class Op(E):
    """application of a NumOps primitive"""
    SIDE = {
        'ndiv': lambda a: [f'{a[1]} <> 0'],
        'nln': lambda a: [f'0 < {a[0]}'],
        'nlog10': lambda a: [f'0 < {a[0]}'],
        'nsqrt': lambda a: [f'0 <= {a[0]}'],
        'npow': lambda a: [f'0 < {a[0]}'],
    }

    def __init__(self, name, args, ty='num'):
        self.name, self.args, self.ty = name, args, ty

    def val(self):
        return '(' + self.name + ' N ' + ' '.join(a.val() for a in self.args) + ')'

    def ok(self):
        ps = [a.ok() for a in self.args]
        if self.name in Op.SIDE:
            ps += Op.SIDE[self.name]([a.val() for a in self.args])
        return conj(ps)


class NatLit(E):
    ty = 'nat'

    def __init__(self, n):
        self.n = n

    def val(self):
        return f'{self.n}%nat'

    def ok(self):
        return 'True'


class PowN(E):
    def __init__(self, base, n):
        self.base, self.n = base, n

    def val(self):
        return f'(npown N {self.base.val()} {self.n}%nat)'

    def ok(self):
        return self.base.ok()


class BoolOp(E):
    ty = 'bool'

    def __init__(self, name, args):
        self.name, self.args = name, args

    def val(self):
        return '(' + self.name + ' ' + ' '.join(a.val() for a in self.args) + ')'

    def ok(self):
        # Python and/or short-circuit: the right operand is evaluated only when needed
        if self.name == 'andb' and self.args[1].ok() != 'True':
            return conj([self.args[0].ok(), f'(if {self.args[0].val()} then {self.args[1].ok()} else True)'])
        if self.name == 'orb' and self.args[1].ok() != 'True':
            return conj([self.args[0].ok(), f'(if {self.args[0].val()} then True else {self.args[1].ok()})'])
        return conj([a.ok() for a in self.args])


class Call(E):
    def __init__(self, qual, args, ty, has_ok=True, prefix_args=()):
        self.qual, self.args, self.ty, self.has_ok = qual, args, ty, has_ok
        self.prefix_args = list(prefix_args)

    def val(self):
        return '(' + ' '.join([self.qual, 'N'] + self.prefix_args + [a.val() for a in self.args]) + ')'

    def ok(self):
        ps = [a.ok() for a in self.args]
        if self.has_ok:
            ps.append('(' + ' '.join([ok_name(self.qual)] + self.prefix_args + [a.val() for a in self.args]) + ')')
        return conj(ps)


def ok_name(qual):
    if '.' in qual:
        m, f = qual.rsplit('.', 1)
        return f'{m}Ok.{f}_ok'
    return qual + '_ok'


class Tup(E):
    def __init__(self, items):
        self.items = items
        self.ty = ('tuple', tuple(i.ty for i in items))

    def val(self):
        return '(' + ', '.join(i.val() for i in self.items) + ')'

    def ok(self):
        return conj([i.ok() for i in self.items])


class Let(E):
    def __init__(self, names, e1, e2):
        self.names, self.e1, self.e2 = names, e1, e2
        self.ty = e2.ty

    def pat(self):
        if len(self.names) == 1:
            return self.names[0]
        return "'(" + ', '.join(self.names) + ')'

    def val(self):
        return f'let {self.pat()} := {self.e1.val()} in\n  {self.e2.val()}'

    def ok(self):
        o2 = self.e2.ok()
        if o2 == 'True':
            return self.e1.ok()
        return conj([self.e1.ok(), f'(let {self.pat()} := {self.e1.val()} in\n  {o2})'])


class If(E):
    def __init__(self, c, a, b):
        self.c, self.a, self.b = c, a, b
        self.ty = a.ty

    def val(self):
        return f'(if {self.c.val()} then {self.a.val()} else {self.b.val()})'

    def ok(self):
        oa, ob = self.a.ok(), self.b.ok()
        if oa == 'True' and ob == 'True':
            return self.c.ok()
        return conj([self.c.ok(), f'(if {self.c.val()} then {oa} else {ob})'])


class MatchRegime(E):
    def __init__(self, scrut, cases, ty):
        self.scrut, self.cases, self.ty = scrut, cases, ty  # cases: list of (ctor, E)

    def val(self):
        return '(match ' + self.scrut.val() + ' with ' + ' | '.join(
            f'{c} => {e.val()}' for c, e in self.cases) + ' end)'

    def ok(self):
        if all(e.ok() == 'True' for _, e in self.cases):
            return self.scrut.ok()
        return conj([self.scrut.ok(), '(match ' + self.scrut.val() + ' with ' + ' | '.join(
            f'{c} => {e.ok()}' for c, e in self.cases) + ' end)'])


class Lookup(E):
    def __init__(self, table, key):
        self.table, self.key = table, key

    def val(self):
        return f'(Interp.lookup_or_fail N (Tables.{self.table} N) (Tables.{self.table}_xlo) ' \
               f'(Tables.{self.table}_xhi) (Tables.{self.table}_tol N) {self.key.val()})'

    def ok(self):
        return conj([self.key.ok(),
                     f'(InterpOk.in_range (Tables.{self.table} RN) (Tables.{self.table}_xlo) '
                     f'(Tables.{self.table}_xhi) (Tables.{self.table}_tol RN) {self.key.val()})'])


# ----------------------------------------------------------------------------------------
# module description
# ----------------------------------------------------------------------------------------

MATH_FUNCS = {'log': 'nln', 'exp': 'nexp', 'log10': 'nlog10', 'sin': 'nsin', 'cosh': 'ncosh', 'sqrt': 'nsqrt'}
REGIMES = ['FB', 'SB', 'He', 'Ho']
RECORDS = {  # key set of a dict literal -> generated record
    ('il', 'FB', 'SB', 'He', 'Ho'): 'Erhg5',
    ('il', 'FB', 'SB', 'He', 'Ho', 'regime'): 'Erhg6',
    ('il', 'FB', 'SB', 'He', 'Ho', 'regime', 'Xi'): 'Erhg7',
}
REC_FIELDS = {v: k for k, v in RECORDS.items()}
BOOL_PARAMS = {'use_sf', 'use_sqrtcx'}
NAT_PARAMS = {'max_steps'}
STATIC_BOOL_PARAMS = {'get_dict'}


def lit_of_text(text, node):
    """exact decimal of a numeric literal's source text -> IR"""
    t = text.strip().replace('_', '')
    try:
        d = Decimal(t)
    except Exception:
        fail(node, f'unparsable literal {text!r}')
    sign, digits, exp = d.as_tuple()
    n = int(''.join(map(str, digits)))
    if sign:
        n = -n
    is_int_text = all(ch.isdigit() for ch in t)
    if is_int_text:
        return Raw(f'(nint N ({n})%Z)')
    if exp >= 0:
        n = n * 10 ** exp
        den = 1
    else:
        den = 10 ** (-exp)
    return Raw(f'(nlit N ({n})%Z {den}%positive)')


class FuncInfo:
    def __init__(self, mod, node, src):
        self.mod, self.node, self.src = mod, node, src
        self.name = node.name
        self.cached = any('lru_cache' in ast.dump(d) for d in node.decorator_list)
        self.maxsize = None
        a = node.args
        self.params = [x.arg for x in a.args]
        nd = len(a.defaults)
        self.defaults = dict(zip(self.params[len(self.params) - nd:], a.defaults))
        # static analysis results filled in later
        self.reads_switches = False
        self.needs_fuel = False
        self.calls = set()      # (modkey, fname)
        self.globals_read = set()


class Module:
    def __init__(self, key, coqname, path):
        self.key, self.coqname, self.path = key, coqname, path
        self.src = open(path).read()
        self.tree = ast.parse(self.src)
        self.imports = {}     # local name -> ('mod', modkey) | ('sym', modkey, name) | ('math', name)
        self.consts = {}      # name -> ast expr
        self.mutable_globals = set()
        self.funcs = {}
        self.aliases = {}     # name -> function name
        self.tables = {}
        self.scan()

    def scan(self):
        for st in self.tree.body:
            if isinstance(st, ast.ImportFrom):
                m = (st.module or '')
                base = m.split('.')[-1] if m else ''
                for al in st.names:
                    local = al.asname or al.name
                    if m == 'math':
                        self.imports[local] = ('math', al.name)
                    elif m in ('', None) or (st.level and not m):
                        self.imports[local] = ('mod', al.name)
                    else:
                        self.imports[local] = ('sym', base, al.name)
            elif isinstance(st, ast.Import):
                for al in st.names:
                    self.imports[al.asname or al.name] = ('pymod', al.name)
            elif isinstance(st, ast.FunctionDef):
                self.funcs[st.name] = FuncInfo(self, st, self.src)
            elif isinstance(st, ast.Assign) and len(st.targets) == 1 and isinstance(st.targets[0], ast.Name):
                name = st.targets[0].id
                v = st.value
                if isinstance(v, ast.Name) and v.id in self.funcs:
                    self.aliases[name] = v.id
                elif isinstance(v, ast.Call) and getattr(v.func, 'id', None) == 'interpDict':
                    self.tables[name] = v
                elif isinstance(v, ast.Constant) and isinstance(v.value, bool):
                    self.mutable_globals.add(name)
                    self.consts[name] = v
                else:
                    self.consts[name] = v


class World:
    """all modelled modules; resolution of names across them"""

    def __init__(self, repo):
        s = repo + '/src/'
        self.mods = {}
        for key, coqname, rel in [
            ('DHLLDV_constants', 'Constants', 'DHLLDV/DHLLDV_constants.py'),
            ('homogeneous', 'Homogeneous', 'DHLLDV/homogeneous.py'),
            ('heterogeneous', 'Heterogeneous', 'DHLLDV/heterogeneous.py'),
            ('stratified', 'Stratified', 'DHLLDV/stratified.py'),
            ('DHLLDV_framework', 'Framework', 'DHLLDV/DHLLDV_framework.py'),
            ('Wilson_Stratified', 'WilsonStratified', 'Wilson/Wilson_Stratified.py'),
            ('Wilson_V50', 'WilsonV50', 'Wilson/Wilson_V50.py'),
        ]:
            self.mods[key] = Module(key, coqname, s + rel)

    def resolve_const(self, mod, name, seen=()):
        """-> (modkey, name) of the module that defines constant `name` as seen from mod"""
        if name in mod.consts:
            return mod.key, name
        imp = mod.imports.get(name)
        if imp and imp[0] == 'sym' and imp[1] in self.mods:
            return self.resolve_const(self.mods[imp[1]], imp[2])
        return None

    def resolve_table(self, mod, name):
        if name in mod.tables:
            return mod.key, name
        imp = mod.imports.get(name)
        if imp and imp[0] == 'sym' and imp[1] in self.mods:
            return self.resolve_table(self.mods[imp[1]], imp[2])
        return None

    def resolve_func(self, mod, node):
        """node is the .func of a Call -> FuncInfo or None"""
        if isinstance(node, ast.Name):
            n = node.id
            if n in mod.aliases:
                n = mod.aliases[n]
            if n in mod.funcs:
                return mod.funcs[n]
            imp = mod.imports.get(n)
            if imp and imp[0] == 'sym' and imp[1] in self.mods:
                m2 = self.mods[imp[1]]
                n2 = m2.aliases.get(imp[2], imp[2])
                return m2.funcs.get(n2)
            return None
        if isinstance(node, ast.Attribute) and isinstance(node.value, ast.Name):
            imp = mod.imports.get(node.value.id)
            if imp and imp[0] == 'mod' and imp[1] in self.mods:
                m2 = self.mods[imp[1]]
                n2 = m2.aliases.get(node.attr, node.attr)
                return m2.funcs.get(n2)
        return None


# ----------------------------------------------------------------------------------------
# function translation
# ----------------------------------------------------------------------------------------

class Var:
    """what a Python local name currently denotes"""

    def __init__(self, kind, **kw):
        self.kind = kind     # 'val' | 'static' | 'struct'
        self.__dict__.update(kw)


def vname(n):
    # '__' is reserved by Coq's extraction
    while '__' in n:
        n = n.replace('__', '_u_')
    if n.startswith('_'):
        n = 'u' + n
    return 'v_' + n


class FuncTranslator:
    def __init__(self, world, finfo, static, variant_suffix, skip_funcs):
        self.w, self.f, self.mod = world, finfo, finfo.mod
        self.static = dict(static)      # param name -> python constant (True/False/None) or 'given'
        self.suffix = variant_suffix
        self.loops = []                 # emitted auxiliary Fixpoints: (text_val, text_ok)
        self.loop_count = 0
        self.skip = skip_funcs

    # ---- types of parameters
    def param_ty(self, p):
        if p in BOOL_PARAMS:
            return 'bool'
        if p in NAT_PARAMS:
            return 'nat'
        return 'num'

    def coq_ty(self, ty, T='T'):
        if ty == 'num':
            return T
        if ty == 'bool':
            return 'bool'
        if ty == 'nat':
            return 'nat'
        if ty == 'Z':
            return 'Z'
        if ty == 'regime':
            return 'regime'
        if ty == 'str':
            return 'string'
        if isinstance(ty, tuple) and ty[0] == 'tuple':
            return '(' + ' * '.join(self.coq_ty(t, T) for t in ty[1]) + ')'
        if isinstance(ty, tuple) and ty[0] == 'rec':
            return f'({ty[1]} {T})'
        if isinstance(ty, tuple) and ty[0] == 'option':
            return f'(option {self.coq_ty(ty[1], T)})'
        raise Unsupported(f'type {ty}')

    # ---- expressions
    def expr(self, node, env):
        if isinstance(node, ast.Constant):
            v = node.value
            if isinstance(v, bool):
                return Raw('true' if v else 'false', 'bool')
            if isinstance(v, (int, float)):
                text = ast.get_source_segment(self.mod.src, node)
                return lit_of_text(text, node)
            if isinstance(v, str):
                if v in REGIMES:
                    return Raw('R_' + v, 'regime')
                return Raw('"' + v + '"%string', 'str')
            fail(node, 'constant')
        if isinstance(node, ast.Name):
            return self.name(node, env)
        if isinstance(node, ast.Attribute):
            # module.constant
            if isinstance(node.value, ast.Name):
                imp = self.mod.imports.get(node.value.id)
                if imp and imp[0] == 'mod' and imp[1] in self.w.mods:
                    m2 = self.w.mods[imp[1]]
                    r = self.w.resolve_const(m2, node.attr)
                    if r:
                        return self.const_ref(r)
            fail(node, 'attribute')
        if isinstance(node, ast.UnaryOp):
            if isinstance(node.op, ast.USub):
                if isinstance(node.operand, ast.Constant) and isinstance(node.operand.value, (int, float)):
                    inner = self.expr(node.operand, env)
                    return Op('nneg', [inner])
                return Op('nneg', [self.num(node.operand, env)])
            if isinstance(node.op, ast.Not):
                return BoolOp('negb', [self.boolean(node.operand, env)])
            fail(node, 'unary op')
        if isinstance(node, ast.BinOp):
            return self.binop(node, env)
        if isinstance(node, ast.BoolOp):
            name = 'andb' if isinstance(node.op, ast.And) else 'orb'
            vals = [self.boolean(v, env) for v in node.values]
            r = vals[0]
            for v in vals[1:]:
                r = BoolOp(name, [r, v])
            return r
        if isinstance(node, ast.Compare):
            return self.compare(node, env)
        if isinstance(node, ast.Call):
            return self.call(node, env)
        if isinstance(node, ast.Subscript):
            return self.subscript(node, env)
        if isinstance(node, ast.Tuple):
            return Tup([self.expr(e, env) for e in node.elts])
        if isinstance(node, ast.IfExp):
            return If(self.boolean(node.test, env), self.expr(node.body, env), self.expr(node.orelse, env))
        fail(node, 'expression')

    def const_ref(self, r):
        modkey, name = r
        m = self.w.mods[modkey]
        if name in m.mutable_globals:
            return Raw(vname(name), 'bool')   # explicit leading parameter
        if modkey == self.mod.key:
            return Raw(f'({name} N)')
        return Raw(f'({m.coqname}.{name} N)')

    def name(self, node, env):
        n = node.id
        if n in env:
            v = env[n]
            if v.kind == 'val':
                return Raw(v.coq, v.ty)
            if v.kind == 'static':
                c = v.value
                if isinstance(c, str) and c in REGIMES:
                    return Raw('R_' + c, 'regime')
                if isinstance(c, bool):
                    return Raw('true' if c else 'false', 'bool')
                fail(node, f'use of static {c!r} as value')
            if v.kind == 'struct':
                return self.struct_value(v)
        imp = self.mod.imports.get(n)
        if imp and imp[0] == 'math' and imp[1] == 'pi':
            return Raw('(npi N)')
        r = self.w.resolve_const(self.mod, n)
        if r:
            return self.const_ref(r)
        fail(node, f'unknown name {n}')

    def struct_value(self, v):
        keys = tuple(v.fields.keys())
        if keys not in RECORDS:
            raise Unsupported(f'dict with keys {keys}')
        rec = RECORDS[keys]
        return Raw('(mk' + rec + ' ' + ' '.join(v.fields[k].coq for k in keys) + ')', ('rec', rec))

    def num(self, node, env):
        e = self.expr(node, env)
        if e.ty == 'nat':
            return Raw(f'(nint N (Z.of_nat {e.val()}))', 'num', e.ok())
        if e.ty != 'num':
            fail(node, f'expected number, got {e.ty}')
        return e

    def boolean(self, node, env):
        # truthiness of a static None / given-optional float
        if isinstance(node, ast.Name) and node.id in env and env[node.id].kind == 'static' \
                and env[node.id].value is None:
            return Raw('false', 'bool')
        e = self.expr(node, env)
        if e.ty == 'num' and isinstance(node, ast.Name) and node.id in self.f.params \
                and self.f.defaults.get(node.id) is not None \
                and isinstance(self.f.defaults[node.id], ast.Constant) and self.f.defaults[node.id].value is None:
            # `if f:` on an optional float that was supplied: true iff non-zero
            return BoolOp('negb', [Op('neqb', [e, Raw('(nint N 0%Z)')], 'bool')])
        if e.ty != 'bool':
            fail(node, f'expected bool, got {e.ty}')
        return e

    def static_bool(self, node, env):
        """value of a test decidable at translation time, else None"""
        if isinstance(node, ast.Name) and node.id in env and env[node.id].kind == 'static':
            v = env[node.id].value
            if v is None or isinstance(v, bool):
                return bool(v)
        return None

    def binop(self, node, env):
        op = node.op
        if isinstance(op, ast.Pow):
            base = self.num(node.left, env)
            r = node.right
            if isinstance(r, ast.Constant) and isinstance(r.value, int) and not isinstance(r.value, bool) \
                    and 0 <= r.value <= 8 and ast.get_source_segment(self.mod.src, r).strip().isdigit():
                return PowN(base, r.value)
            return Op('npow', [base, self.num(r, env)])
        names = {ast.Add: 'nadd', ast.Sub: 'nsub', ast.Mult: 'nmul', ast.Div: 'ndiv'}
        for k, v in names.items():
            if isinstance(op, k):
                return Op(v, [self.num(node.left, env), self.num(node.right, env)])
        fail(node, 'binary operator')

    def compare(self, node, env):
        # chained comparisons: each middle operand is evaluated once (they are pure here)
        operands = [node.left] + list(node.comparators)
        parts = []
        for i, op in enumerate(node.ops):
            a, b = self.expr(operands[i], env), self.expr(operands[i + 1], env)
            parts.append(self.cmp1(op, a, b, node))
        r = parts[0]
        for p in parts[1:]:
            r = BoolOp('andb', [r, p])
        return r

    def cmp1(self, op, a, b, node):
        if a.ty == 'nat':
            a = Raw(f'(nint N (Z.of_nat {a.val()}))')
        if b.ty == 'nat':
            b = Raw(f'(nint N (Z.of_nat {b.val()}))')
        if a.ty == 'num' and b.ty == 'num':
            if isinstance(op, ast.Lt):
                return Op('nltb', [a, b], 'bool')
            if isinstance(op, ast.Gt):
                return Op('nltb', [b, a], 'bool')
            if isinstance(op, ast.LtE):
                return Op('nleb', [a, b], 'bool')
            if isinstance(op, ast.GtE):
                return Op('nleb', [b, a], 'bool')
            if isinstance(op, ast.Eq):
                return Op('neqb', [a, b], 'bool')
            if isinstance(op, ast.NotEq):
                return BoolOp('negb', [Op('neqb', [a, b], 'bool')])
        if a.ty == 'Z' and b.ty == 'Z':
            if isinstance(op, ast.Eq):
                return BoolOp('Z.eqb', [a, b])
            if isinstance(op, ast.NotEq):
                return BoolOp('negb', [BoolOp('Z.eqb', [a, b])])
        if a.ty == 'regime' and b.ty == 'regime':
            if isinstance(op, ast.Eq):
                return BoolOp('regime_eqb', [a, b])
            if isinstance(op, ast.NotEq):
                return BoolOp('negb', [BoolOp('regime_eqb', [a, b])])
        fail(node, f'comparison of {a.ty} and {b.ty}')

    def subscript(self, node, env):
        base, idx = node.value, node.slice
        # table lookup
        if isinstance(base, ast.Name) and base.id not in env:
            r = self.w.resolve_table(self.mod, base.id)
            if r:
                return Lookup(r[1], self.num(idx, env))
        # dict literal indexed by a regime:  {'FB': 'fixed bed', ...}[regime]
        if isinstance(base, ast.Dict):
            keys = [k.value for k in base.keys]
            if sorted(keys) != sorted(REGIMES):
                fail(node, 'dict literal subscript')
            scrut = self.expr(idx, env)
            if scrut.ty != 'regime':
                fail(node, 'dict literal indexed by non-regime')
            cases = [('R_' + k.value, self.expr(v, env)) for k, v in zip(base.keys, base.values)]
            return MatchRegime(scrut, cases, cases[0][1].ty)
        # struct variable
        if isinstance(base, ast.Name) and base.id in env and env[base.id].kind == 'struct':
            sv = env[base.id]
            key = self.static_key(idx, env)
            if key is not None:
                if key not in sv.fields:
                    fail(node, f'missing key {key}')
                f = sv.fields[key]
                return Raw(f.coq, f.ty)
            scrut = self.expr(idx, env)
            if scrut.ty != 'regime':
                fail(node, 'dict indexed by non-regime')
            cases = [('R_' + k, Raw(sv.fields[k].coq, sv.fields[k].ty)) for k in REGIMES]
            return MatchRegime(scrut, cases, 'num')
        fail(node, 'subscript')

    def static_key(self, idx, env):
        if isinstance(idx, ast.Constant) and isinstance(idx.value, str):
            return idx.value
        if isinstance(idx, ast.Name) and idx.id in env and env[idx.id].kind == 'static' \
                and isinstance(env[idx.id].value, str):
            return env[idx.id].value
        return None

    def call(self, node, env):
        fn = node.func
        # builtins and math
        if isinstance(fn, ast.Name):
            imp = self.mod.imports.get(fn.id)
            if imp and imp[0] == 'math':
                if imp[1] == 'log' and len(node.args) == 2:
                    x = self.num(node.args[0], env)
                    b = self.num(node.args[1], env)
                    return Op('ndiv', [Op('nln', [x]), Op('nln', [b])])
                if imp[1] in MATH_FUNCS and len(node.args) == 1:
                    return Op(MATH_FUNCS[imp[1]], [self.num(node.args[0], env)])
                fail(node, 'math function')
            if fn.id in ('min', 'max') and len(node.args) == 2 and not node.keywords:
                return Op('n' + fn.id, [self.num(node.args[0], env), self.num(node.args[1], env)])
            if fn.id == 'abs' and len(node.args) == 1:
                return Op('nabs', [self.num(node.args[0], env)])
            if fn.id == 'int' and len(node.args) == 1:
                return Op('ntrunc', [self.num(node.args[0], env)], 'Z')
        target = self.w.resolve_func(self.mod, fn)
        if target is None:
            fail(node, 'call to unmodelled function')
        return self.call_modelled(node, target, env)

    def call_modelled(self, node, target, env):
        # bind arguments
        bound = {}
        for p, a in zip(target.params, node.args):
            bound[p] = a
        for kw in node.keywords:
            if kw.arg is None or kw.arg not in target.params:
                fail(node, 'keyword argument')
            bound[kw.arg] = kw.value
        static = {}
        args = []
        for p in target.params:
            a = bound.get(p)
            if p in STATIC_BOOL_PARAMS:
                if a is None:
                    a = target.defaults[p]
                if not (isinstance(a, ast.Constant) and isinstance(a.value, bool)):
                    sb = self.static_bool(a, env)
                    if sb is None:
                        fail(node, f'{p} must be a literal')
                    static[p] = sb
                else:
                    static[p] = a.value
                continue
            d = target.defaults.get(p)
            is_optional = isinstance(d, ast.Constant) and d.value is None
            if is_optional:
                # omitted, or passed a name that is statically None -> omitted
                if a is None or (isinstance(a, ast.Name) and a.id in env and env[a.id].kind == 'static'
                                 and env[a.id].value is None) or \
                        (isinstance(a, ast.Constant) and a.value is None):
                    static[p] = None
                    continue
                static[p] = 'given'
                args.append(self.typed_arg(a, env, self.param_ty(p), node))
                continue
            if a is None:
                if d is None:
                    fail(node, f'missing argument {p}')
                # default expression is evaluated in the callee's module
                sub = FuncTranslator(self.w, target, {}, '', self.skip)
                args.append(sub.typed_arg(d, {}, self.param_ty(p), node))
            else:
                args.append(self.typed_arg(a, env, self.param_ty(p), node))
        suffix = variant_suffix(static)
        qual = target.name + suffix
        if target.mod.key != self.mod.key:
            qual = target.mod.coqname + '.' + qual
        prefix = []
        if target.needs_fuel:
            prefix.append('fuel')
        if target.reads_switches:
            prefix += [vname('use_sf'), vname('use_sqrtcx')]
        return Call(qual, args, ret_type(self.w, target, static), prefix_args=prefix)

    def typed_arg(self, a, env, ty, node):
        e = self.expr(a, env)
        if ty == 'num' and e.ty == 'nat':
            return Raw(f'(nint N (Z.of_nat {e.val()}))')
        if ty == 'nat' and e.ty == 'num' and isinstance(a, ast.Constant) and isinstance(a.value, int):
            return NatLit(a.value)
        if e.ty != ty:
            fail(node, f'argument type {e.ty}, expected {ty}')
        return e

    # ---- statements.  block(stmts, env, k) -> IR expression; k(env) builds the continuation
    def block(self, stmts, env, k):
        if not stmts:
            return k(env)
        st, rest = stmts[0], stmts[1:]
        if isinstance(st, ast.Expr) and isinstance(st.value, ast.Constant):
            return self.block(rest, env, k)     # docstring
        if isinstance(st, ast.Pass):
            return self.block(rest, env, k)
        if isinstance(st, ast.Return):
            if rest:
                fail(st, 'code after return')
            return self.ret(st, env)
        if isinstance(st, ast.Assign):
            return self.assign(st, rest, env, k)
        if isinstance(st, ast.AugAssign):
            op = st.op
            new = ast.Assign(targets=[st.target], value=ast.BinOp(left=st.target, op=op, right=st.value))
            ast.copy_location(new, st)
            ast.copy_location(new.value, st)
            ast.fix_missing_locations(new)
            return self.assign(new, rest, env, k)
        if isinstance(st, ast.If):
            return self.if_stmt(st, rest, env, k)
        if isinstance(st, ast.While):
            return self.while_stmt(st, rest, env, k)
        if isinstance(st, ast.For):
            return self.for_stmt(st, rest, env, k)
        fail(st, 'statement')

    def ret(self, st, env):
        e = self.expr(st.value, env)
        if getattr(self, 'in_loop_return', None):
            return self.in_loop_return(e)
        return e

    def bind(self, env, pyname, e, body_fn):
        """let v_pyname := e in body(env')"""
        env2 = dict(env)
        if isinstance(e.ty, tuple) and e.ty[0] == 'rec':
            # a record-valued call: explode into a struct variable
            rec = e.ty[1]
            tmp = vname(pyname)
            fields = {}
            for key in REC_FIELDS[rec]:
                fields[key] = Var('val', coq=f'{tmp}_k_{key}', ty='regime' if key == 'regime' else 'num')
            env2[pyname] = Var('struct', fields=fields)
            inner = body_fn(env2)
            for key in reversed(REC_FIELDS[rec]):
                inner = Let([f'{tmp}_k_{key}'], Raw(f'({rec}_{key} {tmp})', fields[key].ty), inner)
            return Let([tmp], e, inner)
        env2[pyname] = Var('val', coq=vname(pyname), ty=e.ty)
        return Let([vname(pyname)], e, body_fn(env2))

    def assign(self, st, rest, env, k):
        if len(st.targets) != 1:
            # a = b = expr
            names = st.targets
            if all(isinstance(t, ast.Name) for t in names):
                e = self.expr(st.value, env)
                first = names[0].id

                def chain(env1, i=1):
                    if i == len(names):
                        return self.block(rest, env1, k)
                    return self.bind(env1, names[i].id, Raw(vname(first), e.ty), lambda e2: chain(e2, i + 1))
                return self.bind(env, first, e, chain)
            fail(st, 'multiple targets')
        t = st.targets[0]
        if isinstance(t, ast.Name):
            # steps = 0 directly before a counted while loop is absorbed by the loop
            if t.id == 'steps':
                if isinstance(st.value, ast.Constant) and st.value.value == 0 and rest \
                        and isinstance(rest[0], ast.While):
                    return self.block(rest, env, k)
                fail(st, 'assignment to steps outside the counted-loop shape')
            if isinstance(st.value, ast.Dict):
                return self.assign_dict(t.id, st.value, rest, env, k)
            e = self.expr(st.value, env)
            return self.bind(env, t.id, e, lambda env2: self.block(rest, env2, k))
        if isinstance(t, ast.Tuple) and all(isinstance(x, ast.Name) for x in t.elts):
            e = self.expr(st.value, env)
            if not (isinstance(e.ty, tuple) and e.ty[0] == 'tuple' and len(e.ty[1]) == len(t.elts)):
                fail(st, 'tuple unpacking of non-tuple')
            env2 = dict(env)
            names = []
            for x, ty in zip(t.elts, e.ty[1]):
                env2[x.id] = Var('val', coq=vname(x.id), ty=ty)
                names.append(vname(x.id))
            return Let(names, e, self.block(rest, env2, k))
        if isinstance(t, ast.Subscript) and isinstance(t.value, ast.Name) and t.value.id in env \
                and env[t.value.id].kind == 'struct':
            sv = env[t.value.id]
            key = self.static_key(t.slice, env)
            if key is None:
                fail(st, 'dict assignment with dynamic key')
            e = self.expr(st.value, env)
            coq = f'{vname(t.value.id)}_k_{key}'
            fields = dict(sv.fields)
            fields[key] = Var('val', coq=coq, ty=e.ty)
            env2 = dict(env)
            env2[t.value.id] = Var('struct', fields=fields)
            return Let([coq], e, self.block(rest, env2, k))
        fail(st, 'assignment target')

    def assign_dict(self, pyname, d, rest, env, k):
        keys = []
        for kn in d.keys:
            if not (isinstance(kn, ast.Constant) and isinstance(kn.value, str)):
                fail(d, 'dict key')
            keys.append(kn.value)
        vals = [self.expr(v, env) for v in d.values]
        fields = {}
        for key, e in zip(keys, vals):
            fields[key] = Var('val', coq=f'{vname(pyname)}_k_{key}', ty=e.ty)
        env2 = dict(env)
        env2[pyname] = Var('struct', fields=fields)
        inner = self.block(rest, env2, k)
        for key, e in reversed(list(zip(keys, vals))):
            inner = Let([fields[key].coq], e, inner)
        return inner

    def assigned_names(self, stmts, env):
        """python-level names (and struct field pseudo-names) assigned anywhere in stmts"""
        out = []

        def add(n):
            if n not in out:
                out.append(n)

        def visit(sts):
            for s in sts:
                if isinstance(s, (ast.Assign, ast.AugAssign)):
                    targets = s.targets if isinstance(s, ast.Assign) else [s.target]
                    for t in targets:
                        if isinstance(t, ast.Name):
                            add(('name', t.id))
                        elif isinstance(t, ast.Tuple):
                            for x in t.elts:
                                add(('name', x.id))
                        elif isinstance(t, ast.Subscript) and isinstance(t.value, ast.Name):
                            key = self.static_key(t.slice, env)
                            add(('field', t.value.id, key))
                        else:
                            fail(s, 'assignment target')
                elif isinstance(s, ast.If):
                    visit(s.body)
                    visit(s.orelse)
                elif isinstance(s, (ast.While, ast.For)):
                    visit(s.body)
                elif isinstance(s, (ast.Return, ast.Expr, ast.Pass)):
                    pass
                else:
                    fail(s, 'statement')
        visit(stmts)
        return out

    def ends_in_return(self, stmts):
        if not stmts:
            return False
        last = stmts[-1]
        if isinstance(last, ast.Return):
            return True
        if isinstance(last, ast.If) and last.orelse:
            return self.ends_in_return(last.body) and self.ends_in_return(last.orelse)
        return False

    def if_stmt(self, st, rest, env, k):
        sb = self.static_bool(st.test, env)
        if sb is None and isinstance(st.test, ast.UnaryOp) and isinstance(st.test.op, ast.Not):
            inner = self.static_bool(st.test.operand, env)
            sb = None if inner is None else (not inner)
        if sb is not None:
            chosen = st.body if sb else st.orelse
            if self.ends_in_return(chosen):
                return self.block(chosen, env, None)
            return self.block(list(chosen) + list(rest), env, k)
        c = self.boolean(st.test, env)
        body_ret = self.ends_in_return(st.body)
        else_ret = self.ends_in_return(st.orelse)
        if body_ret and else_ret:
            if rest:
                fail(st, 'code after if/else that both return')
            return If(c, self.block(st.body, env, None), self.block(st.orelse, env, None))
        if body_ret:
            return If(c, self.block(st.body, env, None), self.block(list(st.orelse) + list(rest), env, k))
        if else_ret:
            return If(c, self.block(list(st.body) + list(rest), env, k), self.block(st.orelse, env, None))
        # join: the variables assigned in either branch
        assigned = self.assigned_names(list(st.body) + list(st.orelse), env)
        join = []   # (tag, coqname, ty)

        def current(env1, item):
            if item[0] == 'name':
                v = env1.get(item[1])
                if v is None or v.kind != 'val':
                    return None
                return v
            v = env1.get(item[1])
            if v is None or v.kind != 'struct' or item[2] not in v.fields:
                return None
            return v.fields[item[2]]

        # types: translate both branches with a probe continuation to learn them
        probe = {}

        def learn(env1):
            for it in assigned:
                v = current(env1, it)
                probe.setdefault(it, []).append(v)
            return Raw('tt')
        saved = (self.loop_count, list(self.loops))
        self.block(st.body, env, learn)
        self.block(st.orelse, env, learn)
        self.loop_count, self.loops = saved
        for it in assigned:
            vs = probe.get(it, [])
            if len(vs) == 2 and all(v is not None for v in vs):
                if vs[0].ty != vs[1].ty:
                    fail(st, f'branches give {it} different types')
                join.append((it, vs[0].ty))
        if not join:
            fail(st, 'if statement with no effect')

        def out(env1):
            items = [Raw(current(env1, it).coq, ty) for it, ty in join]
            return items[0] if len(items) == 1 else Tup(items)
        e_if = If(c, self.block(st.body, env, out), self.block(st.orelse, env, out))
        env2 = dict(env)
        names = []
        for it, ty in join:
            if it[0] == 'name':
                coq = vname(it[1])
                env2[it[1]] = Var('val', coq=coq, ty=ty)
            else:
                coq = f'{vname(it[1])}_k_{it[2]}'
                sv = env2[it[1]]
                fields = dict(sv.fields)
                fields[it[2]] = Var('val', coq=coq, ty=ty)
                env2[it[1]] = Var('struct', fields=fields)
            names.append(coq)
        return Let(names, e_if, self.block(rest, env2, k))

    # ---- loops
    def free_locals(self, nodes, env, exclude):
        seen = []
        for n in nodes:
            for x in ast.walk(n):
                if isinstance(x, ast.Name) and x.id in env and x.id not in exclude and x.id not in seen \
                        and env[x.id].kind == 'val':
                    seen.append(x.id)
        return seen

    def while_stmt(self, st, rest, env, k):
        if st.orelse:
            fail(st, 'while/else')
        test = st.test
        counted = False
        # shape (i):  while <C> and steps < max_steps:  ...; steps += 1
        if isinstance(test, ast.BoolOp) and isinstance(test.op, ast.And) and len(test.values) == 2:
            c2 = test.values[1]
            if isinstance(c2, ast.Compare) and isinstance(c2.left, ast.Name) and c2.left.id == 'steps' \
                    and len(c2.ops) == 1 and isinstance(c2.ops[0], ast.Lt) \
                    and isinstance(c2.comparators[0], ast.Name) and c2.comparators[0].id == 'max_steps':
                last = st.body[-1]
                if isinstance(last, ast.AugAssign) and isinstance(last.target, ast.Name) \
                        and last.target.id == 'steps' and isinstance(last.op, ast.Add) \
                        and isinstance(last.value, ast.Constant) and last.value.value == 1:
                    counted = True
                    cond = test.values[0]
                    body = st.body[:-1]
        if not counted:
            if any(isinstance(x, ast.Name) and x.id == 'steps' for x in ast.walk(st)):
                fail(st, 'while loop mentions steps but is not the counted shape')
            cond, body = test, st.body
        for x in ast.walk(ast.Module(body=body, type_ignores=[])):
            if isinstance(x, (ast.Return, ast.Break, ast.Continue, ast.While, ast.For)):
                fail(st, 'control flow inside while body')
        state = [it[1] for it in self.assigned_names(body, env) if it[0] == 'name']
        for s in state:
            if s not in env or env[s].kind != 'val' or env[s].ty != 'num':
                fail(st, f'loop variable {s} not defined as a number before the loop')
        free = self.free_locals([cond] + body, env, set(state))
        self.loop_count += 1
        lname = f'{self.f.name}{self.suffix}_loop{self.loop_count}'
        # environment inside the loop function
        lenv = {}
        for n in free:
            lenv[n] = Var('val', coq=vname(n), ty=env[n].ty)
        for n in state:
            lenv[n] = Var('val', coq=vname(n), ty='num')
        for n, v in env.items():
            if v.kind == 'static':
                lenv[n] = v
        state_tuple = Tup([Raw(vname(n)) for n in state]) if len(state) > 1 else Raw(vname(state[0]))
        c = self.boolean(cond, lenv)
        rec_args = ' '.join(vname(n) for n in free)

        def recur(env1):
            return Raw('(' + ' '.join([lname, 'N', "fuel'"] + [vname(n) for n in free] +
                                      [env1[n].coq for n in state]) + ')',
                       state_tuple.ty,
                       '(' + ' '.join([lname + '_ok', "fuel'"] + [vname(n) for n in free] +
                                      [env1[n].coq for n in state]) + ')')
        step = self.block(body, lenv, recur)
        binders = ' '.join(f'({vname(n)} : {self.coq_ty(env[n].ty)})' for n in free) + ' ' + \
                  ' '.join(f'({vname(n)} : T)' for n in state)
        binders_R = binders.replace(': T)', ': R)')
        tyname = self.coq_ty(state_tuple.ty)
        if counted:
            val_txt = (f'Fixpoint {lname} (fuel : nat) {binders} {{struct fuel}} : {tyname} :=\n'
                       f'  let c := {c.val()} in\n'
                       f'  match fuel with\n  | O => {state_tuple.val()}\n'
                       f"  | S fuel' => if c then\n  {step.val()}\n  else {state_tuple.val()}\n  end.\n")
            ok_txt = (f'Fixpoint {lname}_ok (fuel : nat) {binders_R} {{struct fuel}} : Prop :=\n'
                      f'  {c.ok()} /\\\n'
                      f'  match fuel with\n  | O => True\n'
                      f"  | S fuel' => if {c.val()} then\n  {step.ok()}\n  else True\n  end.\n")
            call_val = '(' + ' '.join([lname, 'N', vname('max_steps')] + [env[n].coq for n in free] +
                                      [env[n].coq for n in state]) + ')'
            call_ok = '(' + ' '.join([lname + '_ok', vname('max_steps')] + [env[n].coq for n in free] +
                                     [env[n].coq for n in state]) + ')'
            self.loops.append((val_txt, ok_txt, lname))
            e = Raw(call_val, state_tuple.ty, call_ok)
            env2 = dict(env)
            for n in state:
                env2[n] = Var('val', coq=vname(n), ty='num')
            return Let([vname(n) for n in state], e, self.block(rest, env2, k))
        # shape (iii): unbounded while -> explicit fuel, option result
        self.uses_fuel = True
        some_state = f'(Some {state_tuple.val()})'
        val_txt = (f'Fixpoint {lname} (fuel : nat) {binders} {{struct fuel}} : option {tyname} :=\n'
                   f'  match fuel with\n  | O => None\n'
                   f"  | S fuel' => if {c.val()} then\n  {step.val()}\n  else {some_state}\n  end.\n")
        ok_txt = (f'Fixpoint {lname}_ok (fuel : nat) {binders_R} {{struct fuel}} : Prop :=\n'
                  f'  match fuel with\n  | O => False\n'
                  f"  | S fuel' => {c.ok()} /\\ if {c.val()} then\n  {step.ok()}\n  else True\n  end.\n")
        self.loops.append((val_txt, ok_txt, lname))
        call_val = '(' + ' '.join([lname, 'N', 'fuel'] + [env[n].coq for n in free] +
                                  [env[n].coq for n in state]) + ')'
        call_ok = '(' + ' '.join([lname + '_ok', 'fuel'] + [env[n].coq for n in free] +
                                 [env[n].coq for n in state]) + ')'
        env2 = dict(env)
        for n in state:
            env2[n] = Var('val', coq=vname(n), ty='num')
        cont = self.block(rest, env2, k)
        pat = '(' + ', '.join(vname(n) for n in state) + ')' if len(state) > 1 else vname(state[0])
        txt_val = f'(match {call_val} with\n  | None => nfail N E_Fuel\n  | Some {pat} =>\n  {cont.val()}\n  end)'
        okc = cont.ok()
        txt_ok = f'({call_ok} /\\ match {call_val} with\n  | None => False\n  | Some {pat} =>\n  {okc}\n  end)'
        return Raw(txt_val, cont.ty, txt_ok)

    def for_stmt(self, st, rest, env, k):
        if st.orelse:
            fail(st, 'for/else')
        it = st.iter
        # unrolled: for x in [<string constants>]
        if isinstance(it, ast.List) and all(isinstance(e, ast.Constant) and isinstance(e.value, str) for e in it.elts) \
                and isinstance(st.target, ast.Name):
            body_all = []
            env2 = dict(env)

            def unroll(i, env1):
                if i == len(it.elts):
                    env3 = dict(env1)
                    env3.pop(st.target.id, None)
                    return self.block(rest, env3, k)
                env3 = dict(env1)
                env3[st.target.id] = Var('static', value=it.elts[i].value)
                return self.block(st.body, env3, lambda e: unroll(i + 1, e))
            return unroll(0, env2)
        # shape (ii): for n in range(max_steps): ... early return ... ; return x
        if isinstance(it, ast.Call) and getattr(it.func, 'id', None) == 'range' and len(it.args) == 1 \
                and isinstance(it.args[0], ast.Name) and it.args[0].id == 'max_steps' \
                and isinstance(st.target, ast.Name):
            if len(rest) != 1 or not isinstance(rest[0], ast.Return):
                fail(st, 'counted for loop must be followed by a single return')
            if any(isinstance(x, ast.Name) and x.id == st.target.id for b in st.body for x in ast.walk(b)):
                fail(st, 'loop index is used')
            state = [i[1] for i in self.assigned_names(st.body, env) if i[0] == 'name']
            # state carried across iterations = assigned vars already defined before the loop
            carried = [s for s in state if s in env and env[s].kind == 'val']
            free = self.free_locals(list(st.body) + [rest[0]], env, set(state))
            self.loop_count += 1
            lname = f'{self.f.name}{self.suffix}_loop{self.loop_count}'
            lenv = {}
            for n in free:
                lenv[n] = Var('val', coq=vname(n), ty=env[n].ty)
            for n in carried:
                lenv[n] = Var('val', coq=vname(n), ty='num')
            final = self.expr(rest[0].value, lenv)

            def recur(env1):
                return Raw('(' + ' '.join([lname, 'N', "fuel'"] + [vname(n) for n in free] +
                                          [env1[n].coq for n in carried]) + ')', ('tuple', ('num', 'bool')),
                           '(' + ' '.join([lname + '_ok', "fuel'"] + [vname(n) for n in free] +
                                          [env1[n].coq for n in carried]) + ')')
            self.in_loop_return = lambda e: Tup([e, Raw('true', 'bool')])
            step = self.block(st.body, lenv, recur)
            self.in_loop_return = None
            binders = ' '.join(f'({vname(n)} : {self.coq_ty(env[n].ty)})' for n in free) + ' ' + \
                      ' '.join(f'({vname(n)} : T)' for n in carried)
            binders_R = binders.replace(': T)', ': R)')
            val_txt = (f'Fixpoint {lname} (fuel : nat) {binders} {{struct fuel}} : (T * bool) :=\n'
                       f'  match fuel with\n  | O => ({final.val()}, false)\n'
                       f"  | S fuel' =>\n  {step.val()}\n  end.\n")
            ok_txt = (f'Fixpoint {lname}_ok (fuel : nat) {binders_R} {{struct fuel}} : Prop :=\n'
                      f'  match fuel with\n  | O => {final.ok()}\n'
                      f"  | S fuel' =>\n  {step.ok()}\n  end.\n")
            self.loops.append((val_txt, ok_txt, lname))
            call_val = '(' + ' '.join([lname, 'N', vname('max_steps')] + [env[n].coq for n in free] +
                                      [env[n].coq for n in carried]) + ')'
            call_ok = '(' + ' '.join([lname + '_ok', vname('max_steps')] + [env[n].coq for n in free] +
                                     [env[n].coq for n in carried]) + ')'
            self.returns_flag = True
            return Raw(call_val, ('tuple', ('num', 'bool')), call_ok)
        fail(st, 'for loop shape')

    # ---- whole function
    def translate(self):
        f = self.f
        env = {}
        binders = []
        if f.needs_fuel:
            binders.append(('fuel', 'nat'))
        if f.reads_switches:
            for s in ('use_sf', 'use_sqrtcx'):
                binders.append((vname(s), 'bool'))
        for p in f.params:
            if p in self.static:
                sv = self.static[p]
                if sv == 'given':
                    env[p] = Var('val', coq=vname(p), ty=self.param_ty(p))
                    binders.append((vname(p), self.param_ty(p)))
                else:
                    env[p] = Var('static', value=sv)
                continue
            ty = self.param_ty(p)
            env[p] = Var('val', coq=vname(p), ty=ty)
            binders.append((vname(p), ty))
        self.uses_fuel = False
        self.returns_flag = False
        self.in_loop_return = None
        body = self.block(f.node.body, env, None)
        return binders, body


def variant_suffix(static):
    s = ''
    for p, v in sorted(static.items()):
        if p in STATIC_BOOL_PARAMS:
            if v:
                s += '_dict'
        elif v == 'given':
            s += '_' + p
    return s


_ret_cache = {}


def ret_type(world, finfo, static):
    key = (finfo.mod.key, finfo.name, tuple(sorted((k, str(v)) for k, v in static.items())))
    if key not in _ret_cache:
        _ret_cache[key] = 'num'   # recursion guard (there is no recursion in the source)
        tr = FuncTranslator(world, finfo, static, variant_suffix(static), set())
        _, body = tr.translate()
        _ret_cache[key] = 'num' if tr.returns_flag else body.ty
    return _ret_cache[key]


def variants_of(finfo):
    """all static specialisations of a function: get_dict x optional-None parameters"""
    combos = [{}]
    for p in finfo.params:
        d = finfo.defaults.get(p)
        if p in STATIC_BOOL_PARAMS:
            combos = [dict(c, **{p: v}) for c in combos for v in (False, True)]
        elif isinstance(d, ast.Constant) and d.value is None:
            combos = [dict(c, **{p: v}) for c in combos for v in (None, 'given')]
    return combos
