(* C11, torque- and power-limited speed search: TERMINATION.  With the headroom ratio q(n) = Pavail(n)/P(n) as in
   LC11b: if ln q falls by at least delta and by at most 4 - delta per unit of ln n on (0, n0] (0 < delta <= 2: the
   required power grows, relative to the available power, at least like n^delta and at most like n^(4-delta)), then the
   map n -> n sqrt(q n) is a contraction by c = 1 - delta/2 on the logarithmic scale.  Consecutive iterates approach each
   other geometrically, and ln q(n_k) = 2 (ln n_(k+1) - ln n_k): the headroom ratio tends to 1, so the loop test
   |Pavail - P| < 0.1 kW is met after finitely many passes; the iterates never fall below n0 q(n0)^(1/delta), so the
   assertion n > 1/60 does not fire when that bound is above 1/60. *)
From Coq Require Import Reals Lra Lia List Bool.
From DHV Require Import NumOps RInst Pump LC11 LSettle LC11b.
Local Open Scope R_scope.

Lemma ln_le_inv' a b : 0 < a -> 0 < b -> ln a <= ln b -> a <= b.
Proof. intros Ha Hb H. destruct (Rle_lt_dec a b) as [L|L]; [exact L|]. pose proof (ln_increasing b a Hb L). lra. Qed.

Lemma Rabs_le_inv2 x e : Rabs x <= e -> - e <= x <= e.
Proof. intro H. unfold Rabs in H. destruct (Rcase_abs x); lra. Qed.

Lemma ln_sqrt' x : 0 < x -> ln (sqrt x) = / 2 * ln x.
Proof.
  intro H. assert (P : 0 < sqrt x) by (apply sqrt_lt_R0; exact H).
  assert (E : ln x = ln (sqrt x) + ln (sqrt x)) by (rewrite <- ln_mult by assumption; rewrite sqrt_sqrt by lra; reflexivity).
  lra.
Qed.

Lemma exp_sub1 x : Rabs (exp x - 1) <= exp (Rabs x) - 1.
Proof.
  destruct (Rle_lt_dec 0 x) as [P|N].
  - rewrite (Rabs_right x) by lra. assert (1 <= exp x) by (rewrite <- exp_0; destruct P as [P|<-]; [left; apply exp_increasing; exact P|right; reflexivity]).
    rewrite Rabs_right by lra. lra.
  - rewrite (Rabs_left x) by lra. assert (exp x < 1) by (rewrite <- exp_0; apply exp_increasing; exact N).
    rewrite Rabs_left by lra.
    (* 1 - e^x <= e^(-x) - 1  <=>  2 <= e^x + e^-x *)
    pose proof (exp_pos x) as Px. rewrite exp_Ropp. set (e := exp x) in *.
    assert (I : e * / e = 1) by (apply Rinv_r; lra). assert (Q : 0 < / e) by (apply Rinv_0_lt_compat; exact Px).
    set (i := / e) in *. assert (0 <= (e - i) * (e - i)) by apply Rle_0_sqr. nra.
Qed.

Section Contract.
Variable q : R -> R.
Variables n0 delta : R.
Hypothesis Hn0 : 0 < n0.
Hypothesis Hd : 0 < delta <= 2.
Hypothesis Q1 : forall n, 0 < n <= n0 -> 0 < q n.
Hypothesis S2 : forall a b, 0 < a -> a <= b -> b <= n0 -> ln (q b) - ln (q a) <= - delta * (ln b - ln a).
Hypothesis S3 : forall a b, 0 < a -> a <= b -> b <= n0 -> - (4 - delta) * (ln b - ln a) <= ln (q b) - ln (q a).
Hypothesis Hstart : q n0 < 1.

Definition cc : R := 1 - delta / 2.

Lemma ln_mono a b : 0 < a -> a <= b -> 0 <= ln b - ln a.
Proof. intros Ha H. destruct H as [H|<-]; [pose proof (ln_increasing a b Ha H); lra|lra]. Qed.

Lemma Q2' : forall a b, 0 < a -> a <= b -> b <= n0 -> q b <= q a.
Proof.
  intros a b Ha Hab Hb. apply ln_le_inv'; [apply Q1; lra|apply Q1; lra|].
  pose proof (S2 a b Ha Hab Hb). pose proof (ln_mono a b Ha Hab). nra.
Qed.

Lemma Q3' : forall a b, 0 < a -> a <= b -> b <= n0 -> q a * a ^ 4 <= q b * b ^ 4.
Proof.
  intros a b Ha Hab Hb. pose proof (Q1 a ltac:(lra)) as Pa. pose proof (Q1 b ltac:(lra)) as Pb.
  assert (A4 : 0 < a ^ 4) by (apply pow_lt; lra). assert (B4 : 0 < b ^ 4) by (apply pow_lt; lra).
  apply ln_le_inv'; [apply Rmult_lt_0_compat; assumption|apply Rmult_lt_0_compat; assumption|].
  rewrite !ln_mult by assumption. rewrite !ln_pow by lra. cbn [INR]. 
  pose proof (S3 a b Ha Hab Hb). pose proof (ln_mono a b Ha Hab). nra.
Qed.

Notation Tq := (T q).
Notation Jq := (J q n0).

Lemma ln_T n : 0 < n <= n0 -> ln (Tq n) = ln n + / 2 * ln (q n).
Proof.
  intro H. unfold T. pose proof (Q1 n H). rewrite ln_mult; [|lra|apply sqrt_lt_R0; assumption]. rewrite ln_sqrt' by assumption. reflexivity.
Qed.

(* contraction on the logarithmic scale *)
Lemma contract_ord a b : 0 < a -> a <= b -> b <= n0 -> Rabs (ln (Tq b) - ln (Tq a)) <= cc * (ln b - ln a).
Proof.
  intros Ha Hab Hb. rewrite !ln_T by lra. pose proof (S2 a b Ha Hab Hb). pose proof (S3 a b Ha Hab Hb). pose proof (ln_mono a b Ha Hab).
  unfold cc. apply Rabs_le. nra.
Qed.

Lemma contract a b : 0 < a <= n0 -> 0 < b <= n0 -> Rabs (ln (Tq b) - ln (Tq a)) <= cc * Rabs (ln b - ln a).
Proof.
  intros Ha Hb. destruct (Rle_lt_dec a b) as [L|L].
  - rewrite (Rabs_right (ln b - ln a)) by (pose proof (ln_mono a b ltac:(lra) L); lra). apply contract_ord; lra.
  - rewrite Rabs_minus_sym. rewrite (Rabs_minus_sym (ln b)).
    rewrite (Rabs_right (ln a - ln b)) by (pose proof (ln_mono b a ltac:(lra) ltac:(lra)); lra). apply contract_ord; lra.
Qed.

Fixpoint orbit (k : nat) : R := match k with O => n0 | S k' => Tq (orbit k') end.

Lemma orbit_J k : Jq (orbit k).
Proof.
  induction k as [|k IH]; cbn [orbit]; [apply J_start; exact Hn0|].
  apply (step q n0 Hn0 Q1 Q2' Q3' Hstart). exact IH.
Qed.

Lemma orbit_in k : 0 < orbit k <= n0.
Proof. exact (proj1 (orbit_J k)). Qed.

Definition d0 : R := Rabs (ln (Tq n0) - ln n0).

Lemma cc_range : 0 <= cc < 1.
Proof. unfold cc. lra. Qed.

Lemma gaps k : Rabs (ln (orbit (S k)) - ln (orbit k)) <= cc ^ k * d0.
Proof.
  induction k as [|k IH].
  - cbn [orbit pow]. unfold d0. lra.
  - cbn [orbit] in *. pose proof (contract (orbit k) (Tq (orbit k)) (orbit_in k) (orbit_in (S k))) as C. cbn [orbit] in C.
    pose proof cc_range. cbn [pow]. assert (cc * Rabs (ln (Tq (orbit k)) - ln (orbit k)) <= cc * (cc ^ k * d0)) by (apply Rmult_le_compat_l; lra). lra.
Qed.

(* the headroom ratio tends to 1 *)
Lemma ln_q_orbit k : Rabs (ln (q (orbit k))) <= 2 * (cc ^ k * d0).
Proof.
  pose proof (gaps k) as G. cbn [orbit] in G. rewrite ln_T in G by apply orbit_in.
  replace (ln (orbit k) + / 2 * ln (q (orbit k)) - ln (orbit k)) with (/ 2 * ln (q (orbit k))) in G by ring.
  rewrite Rabs_mult, (Rabs_right (/ 2)) in G by lra. lra.
Qed.

(* the iterates stay above n0 exp(-2 d0/delta) *)
Lemma orbit_low k : ln n0 - d0 * (1 - cc ^ k) / (1 - cc) <= ln (orbit k).
Proof.
  pose proof cc_range as Hc. induction k as [|k IH].
  - cbn [orbit pow]. replace (d0 * (1 - 1) / (1 - cc)) with 0 by (field; lra). lra.
  - pose proof (gaps k) as G. apply Rabs_le_inv2 in G. cbn [pow].
    replace (d0 * (1 - cc * cc ^ k) / (1 - cc)) with (d0 * (1 - cc ^ k) / (1 - cc) + cc ^ k * d0) by (field; lra). lra.
Qed.

Lemma d0_nonneg : 0 <= d0.
Proof. unfold d0. apply Rabs_pos. Qed.

Lemma orbit_floor k : n0 * exp (- (2 * d0 / delta)) <= orbit k.
Proof.
  pose proof (orbit_low k) as L. pose proof cc_range as Hc. pose proof d0_nonneg as D. pose proof (orbit_in k) as [P _].
  assert (Pc : 0 <= cc ^ k) by (apply pow_le; lra).
  assert (B : d0 * (1 - cc ^ k) / (1 - cc) <= 2 * d0 / delta).
  { unfold cc in *. replace (1 - (1 - delta / 2)) with (delta / 2) by ring.
    replace (2 * d0 / delta) with (d0 * 1 / (delta / 2)) by (field; lra).
    unfold Rdiv. apply Rmult_le_compat_r; [left; apply Rinv_0_lt_compat; lra|]. apply Rmult_le_compat_l; lra. }
  apply ln_le_inv'; [apply Rmult_lt_0_compat; [lra|apply exp_pos]|exact P|].
  rewrite ln_mult by (try lra; apply exp_pos). rewrite ln_exp. lra.
Qed.

Lemma d0_eq : d0 = - / 2 * ln (q n0).
Proof.
  unfold d0. rewrite ln_T by lra. replace (ln n0 + / 2 * ln (q n0) - ln n0) with (/ 2 * ln (q n0)) by ring.
  pose proof (Q1 n0 ltac:(lra)) as P. assert (ln (q n0) < 0) by (rewrite <- ln_1; apply ln_increasing; assumption).
  rewrite Rabs_left by lra. lra.
Qed.

End Contract.

(* ---------- the loop of PumpObj ends ---------- *)
Section Terminate.
Variables (p : pump (T:=R)) (Q : R) (w tq : bool).
Let n0 := current_speed p.
Let Pw (n : R) : R := power_required RN p Q n w.
Let q (n : R) : R := PA p tq n / Pw n.
Variables delta M : R.
Hypothesis Hn0 : 0 < n0.
Hypothesis Hd : 0 < delta <= 2.
Hypothesis HP : forall n, 0 < n <= n0 -> 0 < Pw n <= M.
Hypothesis Q1 : forall n, 0 < n <= n0 -> 0 < q n.
Hypothesis S2 : forall a b, 0 < a -> a <= b -> b <= n0 -> ln (q b) - ln (q a) <= - delta * (ln b - ln a).
Hypothesis S3 : forall a b, 0 < a -> a <= b -> b <= n0 -> - (4 - delta) * (ln b - ln a) <= ln (q b) - ln (q a).
Hypothesis Hstart : q n0 < 1.
Hypothesis Hfloor : 1 / 60 < n0 * exp (- (2 * d0 q n0 / delta)).

Notation orb := (orbit q n0).
Definition good (j : nat) : Prop := within RN (PA p tq (orb j) - Pw (orb j)) = true.

Lemma orb_in k : 0 < orb k <= n0.
Proof. apply (orbit_in q n0 delta Hn0 Hd Q1 S2 S3 Hstart). Qed.

Lemma gap_bound k : Rabs (PA p tq (orb k) - Pw (orb k)) <= M * (exp (2 * (cc delta ^ k * d0 q n0)) - 1).
Proof.
  pose proof (orb_in k) as In. pose proof (HP _ In) as [P0 PM]. pose proof (Q1 _ In) as Pq.
  assert (E : PA p tq (orb k) - Pw (orb k) = Pw (orb k) * (q (orb k) - 1)) by (unfold q; field; apply Rgt_not_eq; exact P0).
  rewrite E, Rabs_mult, (Rabs_right (Pw (orb k))) by lra.
  pose proof (ln_q_orbit q n0 delta Hn0 Hd Q1 S2 S3 Hstart k) as L.
  assert (A : Rabs (q (orb k) - 1) <= exp (2 * (cc delta ^ k * d0 q n0)) - 1).
  { rewrite <- (exp_ln (q (orb k)) Pq) at 1. eapply Rle_trans; [apply exp_sub1|].
    assert (exp (Rabs (ln (q (orb k)))) <= exp (2 * (cc delta ^ k * d0 q n0))).
    { destruct L as [L|L]; [left; apply exp_increasing; exact L|rewrite L; right; reflexivity]. }
    lra. }
  assert (0 <= Rabs (q (orb k) - 1)) by apply Rabs_pos.
  apply Rmult_le_compat; lra.
Qed.

Lemma eventually_good : exists K : nat, forall k, (K <= k)%nat -> good k.
Proof.
  pose proof (HP n0 ltac:(lra)) as [P0 PM]. assert (HM : 0 < M) by lra.
  set (eps := ln (1 + 1 / (10 * M))).
  assert (He : 0 < eps).
  { unfold eps. rewrite <- ln_1. apply ln_increasing; [lra|]. assert (0 < 1 / (10 * M)) by (apply Rdiv_lt_0_compat; lra). lra. }
  pose proof (d0_nonneg q n0) as D. pose proof (cc_range delta Hd) as Hc.
  destruct (pow_lt_1_zero (cc delta) ltac:(rewrite Rabs_right; lra) (eps / (2 * d0 q n0 + 1)) ltac:(apply Rdiv_lt_0_compat; lra)) as [K HK].
  exists K. intros k Hk. unfold good. apply within_spec.
  pose proof (gap_bound k) as G. pose proof (HK k Hk) as C. rewrite Rabs_right in C by (apply Rle_ge; apply pow_le; lra).
  assert (Pc : 0 <= cc delta ^ k) by (apply pow_le; lra).
  assert (S : 2 * (cc delta ^ k * d0 q n0) < eps).
  { assert (cc delta ^ k * (2 * d0 q n0 + 1) < eps).
    { apply (Rmult_lt_reg_r (/ (2 * d0 q n0 + 1))); [apply Rinv_0_lt_compat; lra|].
      rewrite Rmult_assoc, Rinv_r by lra. unfold Rdiv in C. lra. }
    nra. }
  assert (E : exp (2 * (cc delta ^ k * d0 q n0)) < 1 + 1 / (10 * M)).
  { rewrite <- (exp_ln (1 + 1 / (10 * M))); [apply exp_increasing; exact S|].
    assert (0 < 1 / (10 * M)) by (apply Rdiv_lt_0_compat; lra). lra. }
  assert (B : M * (exp (2 * (cc delta ^ k * d0 q n0)) - 1) < 1 / 10).
  { assert (M * (exp (2 * (cc delta ^ k * d0 q n0)) - 1) < M * (1 / (10 * M))) by (apply Rmult_lt_compat_l; lra).
    replace (M * (1 / (10 * M))) with (1 / 10) in H by (field; lra). exact H. }
  assert (R1 : Rabs (PA p tq (orb k) - Pw (orb k)) < 1 / 10) by lra. apply Rabs_def2 in R1. lra.
Qed.

Lemma damped_runs : forall m k fuel, good (k + m) -> (m < fuel)%nat ->
  exists j, damped RN fuel p Q w tq (orb k) (Pw (orb k)) (PA p tq (orb k)) = Some (orb j) /\ good j.
Proof.
  induction m as [|m IH]; intros k fuel Hg Hf; (destruct fuel as [|fuel]; [lia|]); cbn [damped]; toR.
  - rewrite Nat.add_0_r in Hg. unfold good in Hg. rewrite Hg. exists k. split; [reflexivity|exact Hg].
  - destruct (within RN (PA p tq (orb k) - Pw (orb k))) eqn:W; [exists k; split; [reflexivity|exact W]|].
    cbv zeta. pose proof (orb_in k) as In. pose proof (Q1 _ In) as Pq.
    assert (E : orb k * Rpower (PA p tq (orb k) / Pw (orb k)) (5 / 10) = orb (S k)).
    { cbn [orbit]. unfold T. fold (q (orb k)). rewrite Rpower_half by exact Pq. reflexivity. }
    rewrite E.
    assert (A : Rltb (1 / 60) (orb (S k)) = true).
    { apply Rltb_true. pose proof (orbit_floor q n0 delta Hn0 Hd Q1 S2 S3 Hstart (S k)). lra. }
    rewrite A.
    assert (EA : (if tq then power_available RN p (orb (S k)) else PA p tq (orb k)) = PA p tq (orb (S k))).
    { unfold PA. case tq; reflexivity. }
    rewrite EA. apply (IH (S k) fuel); [|lia]. rewrite Nat.add_succ_comm. exact Hg.
Qed.

Theorem damped_terminates : exists K : nat, forall fuel, (K < fuel)%nat ->
  exists r, damped RN fuel p Q w tq n0 (Pw n0) (PA p tq n0) = Some r /\
            1 / 60 < r <= n0 /\ - (1 / 10) < PA p tq r - Pw r < 1 / 10.
Proof.
  destruct eventually_good as [K HK]. exists K. intros fuel Hf.
  destruct (damped_runs K 0%nat fuel (HK (0 + K)%nat ltac:(lia)) Hf) as (j & E & G). exists (orb j). split; [exact E|]. split.
  - pose proof (orb_in j). pose proof (orbit_floor q n0 delta Hn0 Hd Q1 S2 S3 Hstart j). lra.
  - apply within_spec. exact G.
Qed.

End Terminate.

(* ---------- the two searches of PumpObj, driver-limited case ---------- *)
Theorem limited_search_terminates (p : pump (T:=R)) (Q : R) (w tq : bool) (delta M : R) :
  let n0 := current_speed p in let Pw := fun n => power_required RN p Q n w in let q := fun n => PA p tq n / Pw n in
  0 < n0 -> 0 < delta <= 2 -> (forall n, 0 < n <= n0 -> 0 < Pw n <= M) -> (forall n, 0 < n <= n0 -> 0 < PA p tq n) ->
  (forall a b, 0 < a -> a <= b -> b <= n0 -> ln (q b) - ln (q a) <= - delta * (ln b - ln a)) ->
  (forall a b, 0 < a -> a <= b -> b <= n0 -> - (4 - delta) * (ln b - ln a) <= ln (q b) - ln (q a)) ->
  PA p tq n0 < Pw n0 -> 1 / 60 < n0 * exp (ln (q n0) / delta) ->
  exists K : nat, forall fuel, (K < fuel)%nat ->
    exists r, (if tq then find_torque_limited_speed RN fuel p Q w else find_power_limited_speed RN fuel p Q w) = Some r /\
              1 / 60 < r <= n0 /\ - (1 / 10) < PA p tq r - Pw r < 1 / 10.
Proof.
  cbv zeta. intros Hn0 Hd HP HA S2 S3 Hlim Hfl.
  set (n0 := current_speed p) in *. set (Pw := fun n => power_required RN p Q n w) in *. set (q := fun n => PA p tq n / Pw n) in *.
  assert (Q1 : forall n, 0 < n <= n0 -> 0 < q n).
  { intros n Hn. unfold q. apply Rdiv_lt_0_compat; [apply HA; exact Hn|apply HP; exact Hn]. }
  assert (HS : q n0 < 1).
  { unfold q. destruct (HP n0 ltac:(lra)) as [P0 _]. apply (Rmult_lt_reg_r (Pw n0)); [exact P0|].
    unfold Rdiv. rewrite Rmult_assoc, Rinv_l by (apply Rgt_not_eq; exact P0). lra. }
  assert (HF : 1 / 60 < n0 * exp (- (2 * d0 q n0 / delta))).
  { rewrite (d0_eq q n0 Hn0 Q1 HS). replace (- (2 * (- / 2 * ln (q n0)) / delta)) with (ln (q n0) / delta) by (field; lra). exact Hfl. }
  destruct (damped_terminates p Q w tq delta M Hn0 Hd HP Q1 S2 S3 HS HF) as [K HK].
  exists K. intros fuel Hf. destruct (HK fuel Hf) as (r & E & R1 & R2). exists r. split; [|split; assumption].
  assert (NL : Rleb (Pw n0) (PA p tq n0) = false) by (apply Rleb_false; exact Hlim).
  revert E NL. unfold PA. case tq; intros E NL.
  - unfold find_torque_limited_speed. cbv zeta. toR. fold n0. fold (Pw n0). rewrite NL. exact E.
  - unfold find_power_limited_speed. cbv zeta. toR. fold n0. fold (Pw n0). rewrite NL. exact E.
Qed.

(* the premises of the contraction argument are satisfiable: the headroom ratio of a constant-power driver on a pump
   whose required power follows the pure affinity law P = 2 n^3 (flat QP curve), set speed 1, delta = 1 *)
Example contract_premises_example :
  let q := fun n : R => / (2 * n ^ 3) in
  (forall n, 0 < n <= 1 -> 0 < q n) /\
  (forall a b, 0 < a -> a <= b -> b <= 1 -> ln (q b) - ln (q a) <= - 1 * (ln b - ln a)) /\
  (forall a b, 0 < a -> a <= b -> b <= 1 -> - (4 - 1) * (ln b - ln a) <= ln (q b) - ln (q a)) /\
  q 1 < 1 /\ 1 / 60 < 1 * exp (ln (q 1) / 1).
Proof.
  cbv zeta.
  assert (L : forall n, 0 < n -> ln (/ (2 * n ^ 3)) = - ln 2 - 3 * ln n).
  { intros n Hn. assert (0 < n ^ 3) by (apply pow_lt; exact Hn). rewrite ln_Rinv by lra. rewrite ln_mult by lra. rewrite ln_pow by exact Hn. cbn [INR]. lra. }
  split; [|split; [|split; [|split]]].
  - intros n [Hn _]. apply Rinv_0_lt_compat. assert (0 < n ^ 3) by (apply pow_lt; exact Hn). lra.
  - intros a b Ha Hab Hb. rewrite !L by lra. pose proof (ln_mono a b Ha Hab). lra.
  - intros a b Ha Hab Hb. rewrite !L by lra. pose proof (ln_mono a b Ha Hab). lra.
  - replace (2 * 1 ^ 3) with 2 by ring. lra.
  - replace (2 * 1 ^ 3) with 2 by ring. unfold Rdiv. rewrite Rinv_1, Rmult_1_r, Rmult_1_l. rewrite exp_ln by lra. lra.
Qed.
