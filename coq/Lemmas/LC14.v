(* Proofs for C14: shape of the pressure grade-line on the pipeline model. *)
From Coq Require Import Reals List Bool Lra Arith Lia.
From DHV Require Import NumOps RInst Pipeline.
Import ListNotations.
Local Open Scope R_scope.

Lemma prefixes_length {A} (l : list A) : length (prefixes l) = length l.
Proof. induction l as [|x l IH]; cbn [prefixes length]; [reflexivity|]. rewrite map_length, IH. reflexivity. Qed.

Lemma prefixes_nth {A} : forall (l : list A) k, (k < length l)%nat -> nth_error (prefixes l) k = Some (firstn (S k) l).
Proof.
  induction l as [|x l IH]; intros k H; [inversion H|].
  destruct k as [|k]; cbn [prefixes nth_error firstn]; [reflexivity|].
  rewrite nth_error_map. rewrite IH by (cbn [length] in H; lia). reflexivity.
Qed.

Section G.
Variables (im il : R -> R -> R) (point : nat -> R -> bool -> R) (rhol rhom qimin : R).
Notation sec := (section (T:=R)).
Notation hg := (hydraulic_gradient RN im il point rhol rhom qimin).
Notation csh := (calc_system_head RN im il point rhol rhom).

Definition Qeff (Q : R) : R := if Rleb Q 0 then qimin else Q.
Definition gap (secs : list sec) (Q : R) : R := let '(hm, _, _, hpm) := csh secs Q in hpm - hm.

(* one point per section boundary (n sections -> n + 1 points) *)
Lemma hg_lengths s secs Q : let '(locs, heads, elevs) := hg (s :: secs) Q in
  length locs = S (S (length secs)) /\ length heads = S (S (length secs)) /\ length elevs = S (S (length secs)).
Proof.
  unfold hydraulic_gradient. cbv zeta. cbn [prefixes map]. cbv beta iota.
  cbn [length]. rewrite !map_length, prefixes_length. repeat split; reflexivity.
Qed.

(* the inlet point: location 0, elevation = the suction depth carried by the first section, pressure = its
   hydrostatic submergence *)
Lemma hg_inlet s secs Q : let '(locs, heads, elevs) := hg (s :: secs) Q in
  nth_error locs 0 = Some 0 /\ nth_error elevs 0 = Some (total_lift RN [s]) /\
  nth_error heads 0 = Some (total_lift RN [s] * rhol * - (1)).
Proof. unfold hydraulic_gradient. cbv zeta. cbn [prefixes map]. cbv beta iota. cbn [nth_error]. toR. repeat split; reflexivity. Qed.

(* boundary k (1 <= k <= n): location / elevation = cumulative length / lift of the first k sections; pressure =
   pump head minus system head of the pipeline truncated there, at the effective flow *)
Lemma hg_boundary secs Q k : (k < length secs)%nat ->
  let '(locs, heads, elevs) := hg secs Q in
  nth_error locs (S k) = Some (total_length RN (firstn (S k) secs)) /\
  nth_error elevs (S k) = Some (total_lift RN (firstn (S k) secs)) /\
  nth_error heads (S k) = Some (gap (firstn (S k) secs) (Qeff Q)).
Proof.
  intro H. destruct secs as [|s secs]; [inversion H|].
  pose proof (prefixes_nth (s :: secs) k H) as P.
  unfold hydraulic_gradient. cbv zeta. cbn [prefixes map] in *. cbv beta iota. cbn [nth_error].
  change (total_length RN [s] :: map (total_length RN) (map (cons s) (prefixes secs)))
    with (map (total_length RN) ([s] :: map (cons s) (prefixes secs))).
  change (total_lift RN [s] :: map (total_lift RN) (map (cons s) (prefixes secs)))
    with (map (total_lift RN) ([s] :: map (cons s) (prefixes secs))).
  match goal with |- context [?h :: map ?f (map (cons s) (prefixes secs))] =>
    change (h :: map f (map (cons s) (prefixes secs))) with (map f ([s] :: map (cons s) (prefixes secs))) end.
  rewrite !nth_error_map, P. cbn [option_map]. unfold gap, Qeff. toR. repeat split; reflexivity.
Qed.

(* so the last point is total pump head minus total system head, at the total length / lift *)
Lemma hg_last secs Q : secs <> [] ->
  let '(locs, heads, elevs) := hg secs Q in
  nth_error locs (length secs) = Some (total_length RN secs) /\
  nth_error elevs (length secs) = Some (total_lift RN secs) /\
  nth_error heads (length secs) = Some (gap secs (Qeff Q)).
Proof.
  intro NE. destruct secs as [|s secs]; [contradiction|].
  pose proof (hg_boundary (s :: secs) Q (length secs)) as H.
  change (S (length secs)) with (length (s :: secs)) in H. rewrite firstn_all in H. apply H. cbn [length]. lia.
Qed.
End G.
