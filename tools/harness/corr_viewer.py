#!/venv/bin/python
"""corr_viewer.py: correspondence of Models/Viewer.v (extracted, OCaml floats) with the real DHLLDV_viewer
(main.py + SystemTab.py under tools/fakebokeh) on event sequences.

Every sequence starts from the freshly imported viewer (a forked child per sequence).  After the start and after
every event the two sides are compared on: Dp, rhos, rhoi, Cv, D50, D15, D85 (bit-exact expected), the fluid, the
fluid radio button, and the text of the seven editable boxes (string equality).  If the real callback raises, the
model must raise at the same event.  The model's re-entry fuel must never be exhausted.

usage: corr_viewer.py --out <json> --n N      (N scales the sampled pairs / random sequences; N >= 400: all pairs)"""
import argparse
import concurrent.futures as cf
import multiprocessing as mp
import random
import sys

from common import Driver, Stats, check_repo_import, seed, write_json
import viewer_session as vs
from viewer_events import sequences

NUMS = ['Dp', 'rhos', 'rhoi', 'Cv', 'D50', 'D15', 'D85']
WID = vs.TEXT_WIDGETS


def hexs(s):
    return s.encode().hex() if s else '-'


def unhexs(h):
    return '' if h == '-' else bytes.fromhex(h).decode()


def fnum(x):
    return float(x).hex() if not isinstance(x, str) else {'nan': 'nan', 'inf': 'inf', '-inf': '-inf'}.get(x, 'nan')


def pyparse(t):
    try:
        return float(t).hex()
    except ValueError:
        return 'None'


def real_run(seq):
    return seq, vs.run_sequence([('none',)] + list(seq), light=True, want_fresh=False)


def encode(info, keys, seq, recs):
    """the model request for the events the real viewer processed; copy / nudge events become the text the real
    viewer was given"""
    a = ['1', '1', str(len(info))]          # use_sf, use_sqrtcx: the module defaults
    sel = 0
    for i, p in enumerate(info):
        a += [str(len(p['diams']))] + [fnum(d) for d in p['diams']]
        a += [fnum(p[k]) for k in ('Dp', 'epsilon', 'nu', 'rhol', 'D50', 'Cv', 'rhos', 'rhoi')] + [str(p['max_index'])]
        a += ['1' if p['salt'] else '0', str(len(p['gsd']))]
        for f, d in p['gsd']:
            a += [fnum(f), fnum(d)]
        a += ['1' if p['gsd_dirty'] else '0']
        if p['selected']:
            sel = i
    a.append(str(sel))
    evs, texts = [], []
    for ev, rec in zip(seq, recs[1:]):
        ev = tuple(rec.get('resolved', ev))
        if ev[0] == 'text':
            texts.append(ev[2])
            evs += ['text', ev[1], hexs(ev[2])]
        elif ev[0] == 'click':
            evs.append({'Dp_up_button': 'DpUp', 'Dp_down_button': 'DpDown', 'D50_up_button': 'D50Up', 'D50_down_button': 'D50Down',
                        'Cv_up_button': 'CvUp', 'Cv_down_button': 'CvDown'}[ev[1]])
        elif ev[0] == 'fluid':
            evs += ['fluid', str(ev[1])]
        elif ev[0] == 'units':
            evs += ['units', '1' if ev[1] == 'US' else '0']
        elif ev[0] == 'pipeline':
            evs += ['pipeline', str(keys.index(ev[1]))]
    texts = sorted(set(texts))
    a += [str(len(texts))]
    for t in texts:
        a += [hexs(t), pyparse(t)]
    a += [str(len(recs) - 1)] + evs
    return a


def split_states(toks):
    out, cur = [], []
    for t in toks:
        if t == '|':
            out.append(cur)
            cur = []
        else:
            cur.append(t)
    out.append(cur)
    return out


def compare_state(rec, m):
    """-> 'exact' | 'ulp' | description of the first difference"""
    if len(m) != 17:
        return f'model state has {len(m)} tokens'
    worst = 'exact'
    p = rec['params']
    for name, tok in zip(NUMS, m[:7]):
        a, b = p[name], float.fromhex(tok) if tok not in ('nan', 'inf', '-inf') else float(tok)
        if isinstance(a, str):
            if a != tok and not (a == 'nan' and b != b):
                return f'{name}: real {a} model {tok}'
            continue
        if a != b:
            if abs(a - b) <= 1e-12 * max(abs(a), abs(b)):
                worst = 'ulp'
            else:
                return f'{name}: real {a!r} model {b!r}'
    if (p['fluid'] == 'salt') != (m[7] == '1'):
        return f'fluid: real {p["fluid"]} model salt={m[7]}'
    if rec['fluid_active'] != int(m[8]):
        return f'fluid radio: real {rec["fluid_active"]} model {m[8]}'
    if m[9] != '0':
        return 'model: callback re-entry fuel exhausted'
    for w, tok in zip(WID, m[10:]):
        mt = unhexs(tok[2:])
        if rec['texts'][w] != mt:
            return f'text {w}: real {rec["texts"][w]!r} model {mt!r}'
    return worst


def main():
    ap = argparse.ArgumentParser()
    ap.add_argument('--out', required=True)
    ap.add_argument('--n', type=int, default=60)
    a = ap.parse_args()
    check_repo_import()
    vs.load()
    info = vs.setups_info()
    keys = [p['key'] for p in info]
    rng = random.Random(seed() * 104729 + 5)
    seqs = sequences(rng, keys, a.n >= 400, max(40, a.n), max(4, a.n // 10))
    st = Stats()
    ctx = mp.get_context('fork')
    with cf.ProcessPoolExecutor(max_workers=16, mp_context=ctx) as ex:
        runs = list(ex.map(real_run, seqs, chunksize=4))
    reqs = [('Viewer.run', encode(info, keys, seq, recs)) for seq, recs in runs]
    order = sorted(range(len(reqs)), key=lambda i: -len(runs[i][1]))      # longest first, dealt round-robin
    chunks = [order[i::16] for i in range(16)]
    replies = [None] * len(reqs)
    with cf.ThreadPoolExecutor(max_workers=16) as tp:
        for idx, rs in zip(chunks, tp.map(lambda c: Driver().batch([reqs[i] for i in c]) if c else [], chunks)):
            for i, r in zip(idx, rs):
                replies[i] = r
    nev = 0
    kinds = {}
    for (seq, recs), rep in zip(runs, replies):
        st.evaluations += 1
        key = repr(seq)
        st.distinct.add(key)
        if rep[0] != 'ok':
            st.disagree.append({'sequence': [list(e) for e in seq], 'model': rep})
            continue
        states = split_states(rep[1])
        verdict = 'exact'
        for i, rec in enumerate(recs):
            if i > 0:
                nev += 1
                kinds[rec['event'][0]] = kinds.get(rec['event'][0], 0) + 1
            if i >= len(states):
                verdict = f'event {i}: the model returned {len(states)} states only'
                break
            m = states[i]
            if rec.get('raised'):
                if m and m[0] == 'raised':
                    st.err_kinds[rec['raised'].split(':')[0]] = st.err_kinds.get(rec['raised'].split(':')[0], 0) + 1
                else:
                    verdict = f'event {i} {rec["event"]}: real raised {rec["raised"]}, model did not'
                break
            if m and m[0] == 'raised':
                verdict = f'event {i} {rec["event"]}: model raised {m[1:]}, real did not'
                break
            c = compare_state(rec, m)
            if c == 'ulp':
                verdict = 'ulp' if verdict == 'exact' else verdict
            elif c != 'exact':
                verdict = f'event {i} {rec["event"]}: {c}'
                break
        if verdict == 'exact':
            st.agree += 1
            st.nontrivial.add(key)
        elif verdict == 'ulp':
            st.ulp += 1
            st.nontrivial.add(key)
        else:
            st.disagree.append({'sequence': [list(e) for e in seq], 'difference': verdict})
        if len(st.samples) < 3 and st.evaluations % 53 == 1:
            st.samples.append({'sequence': [list(e) for e in seq], 'final': recs[-1].get('params')})
    res = {'ok': not st.disagree, 'evaluations': st.evaluations, 'events': nev, 'agree_bit_exact': st.agree,
           'ulp_level_differences': st.ulp, 'agree_on_error': sum(st.err_kinds.values()), 'error_kinds': st.err_kinds,
           'distinct': len(st.distinct), 'distinct_nontrivial': len(st.nontrivial), 'disagreements': st.disagree[:8],
           'n_disagreements': len(st.disagree), 'distribution': {'event_kinds': kinds, 'sequences': len(seqs)},
           'samples': st.samples, 'seed': seed(), 'wall_s': st.wall()}
    write_json(a.out, res)
    print(f"corr_viewer: {st.evaluations} sequences ({nev} events), {st.agree} bit-exact, {st.ulp} ulp-level, "
          f"{len(st.disagree)} disagreements, {st.wall()} s")
    sys.exit(0 if not st.disagree else 1)


if __name__ == '__main__':
    main()
