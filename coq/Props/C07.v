(* C07 -- the slurry object never serves stale derived data, whatever the edit history.
   Statements only; proofs in Lemmas/LC07.v; the state machine is Models/SlurryState.v (hand-written,
   executed against the real SlurryObj.Slurry on operation sequences on every run). *)
From Coq Require Import Reals List Bool.
From DHV Require Import NumOps RInst Fracs SlurryCalc SlurryState LC07.
Import ListNotations.

(* For every finite history of setter calls, generate_GSD calls and reads, started from any state that
   refines an abstract state (parameters + the two grading ratios): every value read equals the value
   determined by the CURRENT abstract state alone -- i.e. what an object built directly with the same
   final parameters returns -- and the refinement is kept.  Premise [all_valid]: along the history the
   ratios are non-zero and can be read back from the generated grading (C12; an assumption here, see
   partial clauses). *)
Theorem C07_no_stale : forall (sf sq : bool) (ops : list (op (T:=R))) (s : state (T:=R)) (a : astate),
  Inv sf sq s a -> all_valid a ops ->
  snd (run RN sf sq s ops) = spec_outs sf sq a ops /\ Inv sf sq (fst (run RN sf sq s ops)) (afinal a ops).
Proof. exact LC07.no_stale. Qed.
Print Assumptions C07_no_stale.

(* one operation: the value read is the fresh value, whatever was cached before *)
Theorem C07_step : forall (sf sq : bool) (s : state (T:=R)) (a : astate) (o : op (T:=R)),
  Inv sf sq s a -> valid a -> valid (astep a o) ->
  snd (step RN sf sq s o) = aout sf sq (astep a o) o /\ Inv sf sq (fst (step RN sf sq s o)) (astep a o).
Proof. exact LC07.step_refines. Qed.
Print Assumptions C07_step.

(* the constructor establishes the refinement (ratios 2.0 and 2.72) *)
Theorem C07_init : forall (sf sq : bool) (Dp D50 : R) (is_salt : bool) (Cv : R) (mi : nat),
  valid (a_init Dp D50 is_salt Cv mi) ->
  Inv sf sq (init RN Dp D50 is_salt Cv mi) (a_init Dp D50 is_salt Cv mi).
Proof. exact LC07.init_inv. Qed.
Print Assumptions C07_init.

(* the abstract state forgets the order of edits and the values held earlier: two histories with the
   same final abstract state read the same values *)
Theorem C07_no_trace : forall (sf sq : bool) (ops1 ops2 : list (op (T:=R))) (s1 s2 : state (T:=R)) (a1 a2 : astate) (o : op (T:=R)),
  Inv sf sq s1 a1 -> Inv sf sq s2 a2 -> all_valid a1 ops1 -> all_valid a2 ops2 ->
  afinal a1 ops1 = afinal a2 ops2 -> valid (afinal a1 ops1) -> valid (astep (afinal a1 ops1) o) ->
  snd (step RN sf sq (fst (run RN sf sq s1 ops1)) o) = snd (step RN sf sq (fst (run RN sf sq s2 ops2)) o).
Proof. exact LC07.no_trace. Qed.
Print Assumptions C07_no_trace.

(* the ratio-recovery premise discharged: for grading ratios above 1 and D50 above the pseudo-liquid limit (what the
   viewer enforces; the property's quantifier) every abstract state is valid ... *)
From DHV Require Import LC07b.
Local Open Scope R_scope.
Theorem C07_ratio_recovery : forall a : astate,
  1 < a_r15 a -> 1 < a_r85 a -> 0 < dlim_of (a_p a) < p_D50 (a_p a) -> valid a.
Proof. intros a H1 H2 H3. apply LC07b.phys_valid. exact (conj H1 (conj H2 H3)). Qed.
Print Assumptions C07_ratio_recovery.

(* ... so the no-stale-data theorem holds under physical premises only *)
Theorem C07_no_stale_physical : forall (sf sq : bool) (ops : list (op (T:=R))) (s : state (T:=R)) (a : astate),
  Inv sf sq s a -> all_phys a ops ->
  snd (run RN sf sq s ops) = spec_outs sf sq a ops /\ Inv sf sq (fst (run RN sf sq s ops)) (afinal a ops).
Proof. exact LC07b.no_stale_physical. Qed.
Print Assumptions C07_no_stale_physical.

Theorem C07_init_physical : forall (sf sq : bool) (Dp D50 : R) (is_salt : bool) (Cv : R) (mi : nat),
  phys (a_init Dp D50 is_salt Cv mi) -> Inv sf sq (init RN Dp D50 is_salt Cv mi) (a_init Dp D50 is_salt Cv mi).
Proof. exact LC07b.init_physical. Qed.
Print Assumptions C07_init_physical.
