(* Proofs for C12 (second part): the discretisation loops of create_fracs produce nodes that are strictly increasing in
   fraction and in diameter, contain every input point, and have the advertised count.  General in the number of
   input points and in the number of subdivisions. *)
From Coq Require Import Reals List Bool Lra Lia Arith ZArith Sorted.
From DHV Require Import NumOps RInst Interp Fracs LCommon LC18 LC12.
Import ListNotations.
Local Open Scope R_scope.

Notation gsdR := (list (R * R)).

Definition keys_below (l : gsdR) (k : R) : Prop := forall p, In p l -> fst p < k.
(* strictly increasing in both columns *)
Definition inc2 (p q : R * R) : Prop := fst p < fst q /\ snd p < snd q.
Definition both_increasing (l : gsdR) : Prop := StronglySorted inc2 l.

Lemma both_increasing_keys l : both_increasing l -> increasing l.
Proof.
  induction 1 as [|p l Hs IH Hf]; constructor; [exact IH|].
  eapply Forall_impl; [|exact Hf]. intros q [A _]. exact A.
Qed.

(* dict assignment of a key above every existing key appends *)
Lemma dict_set_new : forall (acc : gsdR) k v, keys_below acc k -> dict_set RN acc k v = acc ++ [(k, v)].
Proof.
  induction acc as [|[k' v'] acc IH]; intros k v H; [reflexivity|].
  cbn [dict_set app]. toR. assert (k' < k) by (apply (H (k', v')); left; reflexivity).
  rewrite Reqb_neq by lra. f_equal. apply IH. intros p Hp. apply H. right. exact Hp.
Qed.

Lemma both_increasing_snoc (l : gsdR) k v :
  both_increasing l -> (forall p, In p l -> fst p < k /\ snd p < v) -> both_increasing (l ++ [(k, v)]).
Proof.
  induction 1 as [|p l Hs IH Hf]; intro H; cbn [app].
  - constructor; constructor.
  - constructor.
    + apply IH. intros q Hq. apply H. right. exact Hq.
    + apply Forall_app. split; [exact Hf|]. constructor; [|constructor]. apply H. left. reflexivity.
Qed.

(* sorting an already increasing list is the identity *)
Lemma insert_sorted_last : forall (l : gsdR) p, keys_below l (fst p) \/ (forall q, In q l -> fst q <= fst p) ->
  (forall q, In q l -> fst q <= fst p) -> insert_sorted RN p l = l ++ [p].
Proof.
  induction l as [|q l IH]; intros p _ H; [reflexivity|].
  cbn [insert_sorted app]. toR. rewrite Rltb_f by (apply H; left; reflexivity).
  f_equal. apply IH; [right|]; intros r Hr; apply H; right; exact Hr.
Qed.

Lemma sort_keys_increasing : forall l : gsdR, increasing l -> sort_keys RN l = l.
Proof.
  intros l Hs. unfold sort_keys.
  assert (G : forall (l done : gsdR), increasing (done ++ l) -> fold_left (fun acc p => insert_sorted RN p acc) l done = done ++ l).
  { clear. induction l as [|p l IH]; intros done Hs; cbn [fold_left]; [rewrite app_nil_r; reflexivity|].
    assert (E : insert_sorted RN p done = done ++ [p]).
    { apply insert_sorted_last; [right|]; intros q Hq.
      all: clear IH; induction done as [|r done IHd]; [inversion Hq|];
        cbn [app] in Hs; destruct Hq as [<-|Hq];
        [ pose proof (increasing_head _ _ Hs) as F; rewrite Forall_forall in F;
          assert (In p (done ++ p :: l)) by (apply in_or_app; right; left; reflexivity);
          specialize (F _ H); unfold klt in F; lra
        | apply IHd; [eapply increasing_tail; exact Hs|exact Hq] ]. }
    rewrite E. rewrite IH; rewrite <- app_assoc; [reflexivity|exact Hs]. }
  apply (G l []). exact Hs.
Qed.

(* ---- the inner loop: n equally spaced interior nodes of one input interval ---- *)
Definition node (dlow dnext flow fnext f : R) : R * R := (f, pow10 RN (log10_interp RN dlow dnext flow fnext f)).

Fixpoint interior (n : nat) (f fs dlow dnext flow fnext : R) : gsdR :=
  match n with
  | O => []
  | S m => node dlow dnext flow fnext (f + fs) :: interior m (f + fs) fs dlow dnext flow fnext
  end.

Lemma interior_length n f fs dlow dnext flow fnext : length (interior n f fs dlow dnext flow fnext) = n.
Proof. revert f; induction n as [|n IH]; intro f; cbn [interior length]; [reflexivity|rewrite IH; reflexivity]. Qed.

Lemma interior_keys : forall n f fs dlow dnext flow fnext p, 0 < fs ->
  In p (interior n f fs dlow dnext flow fnext) -> f < fst p <= f + INR n * fs.
Proof.
  induction n as [|n IH]; intros f fs dlow dnext flow fnext p Hfs Hin; [inversion Hin|].
  cbn [interior] in Hin. rewrite S_INR. destruct Hin as [<-|Hin].
  - cbn [node fst]. pose proof (pos_INR n). nra.
  - specialize (IH _ _ _ _ _ _ _ Hfs Hin). lra.
Qed.

Lemma interior_is_node : forall n f fs dlow dnext flow fnext p,
  In p (interior n f fs dlow dnext flow fnext) -> exists g, p = node dlow dnext flow fnext g.
Proof.
  induction n as [|n IH]; intros f fs dlow dnext flow fnext p Hp; [inversion Hp|].
  cbn [interior] in Hp. destruct Hp as [<-|Hp]; [eauto|exact (IH _ _ _ _ _ _ _ Hp)].
Qed.

(* nodes of one interval, started at f >= flow, ending below fnext: increasing in both columns *)
Lemma interior_increasing : forall n f fs dlow dnext flow fnext,
  0 < dlow < dnext -> flow < fnext -> 0 < fs -> both_increasing (interior n f fs dlow dnext flow fnext).
Proof.
  induction n as [|n IH]; intros f fs dlow dnext flow fnext Hd Hf Hfs; cbn [interior]; [constructor|].
  constructor; [apply IH; assumption|].
  apply Forall_forall. intros p Hp. pose proof (interior_keys _ _ _ _ _ _ _ _ Hfs Hp) as K.
  destruct (interior_is_node _ _ _ _ _ _ _ _ Hp) as [g ->].
  cbn [node fst] in K. split; cbn [node fst snd]; [lra|].
  apply pow10_increasing. apply log10_interp_increasing; try assumption. lra.
Qed.

Lemma inner_spec : forall n fthis fs dlow dnext flow fnext (acc : gsdR),
  0 < fs -> keys_below acc (fthis + fs) ->
  inner RN n fthis fs dlow dnext flow fnext acc = acc ++ interior n fthis fs dlow dnext flow fnext.
Proof.
  induction n as [|n IH]; intros fthis fs dlow dnext flow fnext acc Hfs Hk; cbn [inner interior]; [rewrite app_nil_r; reflexivity|].
  cbv zeta. toR. rewrite dict_set_new by exact Hk.
  rewrite IH; [rewrite <- app_assoc; reflexivity|exact Hfs|].
  intros p Hp. apply in_app_or in Hp. destruct Hp as [Hp|[<-|[]]]; [specialize (Hk p Hp); lra|cbn [fst]; lra].
Qed.

(* one interval of the second loop: n interior nodes followed by the input point itself *)
Definition interval_nodes (n : nat) (flow dlow fnext dnext : R) : gsdR :=
  interior n flow ((fnext - flow) / INR (S n)) dlow dnext flow fnext ++ [(fnext, dnext)].

Lemma interval_increasing n flow dlow fnext dnext :
  0 < dlow < dnext -> flow < fnext -> both_increasing (interval_nodes n flow dlow fnext dnext).
Proof.
  intros Hd Hf. unfold interval_nodes.
  assert (Hfs : 0 < (fnext - flow) / INR (S n)) by (apply Rdiv_lt_0_compat; [lra|apply lt_0_INR; lia]).
  apply both_increasing_snoc; [apply interior_increasing; assumption|].
  intros p Hp. pose proof (interior_keys _ _ _ _ _ _ _ _ Hfs Hp) as K.
  assert (L : flow + INR n * ((fnext - flow) / INR (S n)) < fnext).
  { rewrite S_INR. pose proof (pos_INR n).
    replace (flow + INR n * ((fnext - flow) / (INR n + 1))) with (fnext - (fnext - flow) / (INR n + 1)) by (field; lra).
    assert (0 < (fnext - flow) / (INR n + 1)) by (apply Rdiv_lt_0_compat; lra). lra. }
  destruct (interior_is_node _ _ _ _ _ _ _ _ Hp) as [g ->].
  cbn [node fst snd] in *. split; [lra|].
  pose proof (interp_between dlow dnext flow fnext g Hd) as B. apply B. lra.
Qed.

Lemma interval_keys n flow dlow fnext dnext p : flow < fnext ->
  In p (interval_nodes n flow dlow fnext dnext) -> flow < fst p <= fnext.
Proof.
  intros Hf Hp. unfold interval_nodes in Hp. apply in_app_or in Hp.
  assert (Hfs : 0 < (fnext - flow) / INR (S n)) by (apply Rdiv_lt_0_compat; [lra|apply lt_0_INR; lia]).
  destruct Hp as [Hp|[<-|[]]]; [|cbn [fst]; lra].
  pose proof (interior_keys _ _ _ _ _ _ _ _ Hfs Hp) as K.
  assert (L : flow + INR n * ((fnext - flow) / INR (S n)) < fnext).
  { rewrite S_INR. pose proof (pos_INR n).
    replace (flow + INR n * ((fnext - flow) / (INR n + 1))) with (fnext - (fnext - flow) / (INR n + 1)) by (field; lra).
    assert (0 < (fnext - flow) / (INR n + 1)) by (apply Rdiv_lt_0_compat; lra). lra. }
  lra.
Qed.

Lemma interval_length n flow dlow fnext dnext : length (interval_nodes n flow dlow fnext dnext) = S n.
Proof. unfold interval_nodes. rewrite app_length, interior_length. cbn [length]. lia. Qed.

(* ---- the whole second loop ---- *)
Fixpoint all_nodes (n : nat) (flow dlow : R) (pts : gsdR) : gsdR :=
  match pts with
  | [] => []
  | (fnext, dnext) :: rest => interval_nodes n flow dlow fnext dnext ++ all_nodes n fnext dnext rest
  end.

(* the input points, prefixed by the start (flow, dlow), are strictly increasing in both columns, fractions non-zero *)
Definition input_ok (flow dlow : R) (pts : gsdR) : Prop :=
  both_increasing ((flow, dlow) :: pts) /\ 0 < dlow /\ Forall (fun p => fst p <> 0) pts.

Lemma IZR_S n : IZR (Z.of_nat n + 1) = INR (S n).
Proof. rewrite S_INR, plus_IZR, <- INR_IZR_INZ. reflexivity. Qed.

Lemma main_spec : forall (pts : gsdR) n flow dlow (acc : gsdR) fs0,
  input_ok flow dlow pts -> (forall p, In p acc -> fst p <= flow) ->
  fst (main RN flow dlow pts (Z.of_nat n) acc fs0) = acc ++ all_nodes n flow dlow pts.
Proof.
  induction pts as [|[fnext dnext] rest IH]; intros n flow dlow acc fs0 Hok Hacc; cbn [main all_nodes]; [rewrite app_nil_r; reflexivity|].
  destruct Hok as (Hs & Hd0 & Hnz).
  inversion Hs as [|p l Hs' Hf]; subst. inversion Hf as [|q l' [Hf1 Hd1] Hf']; subst. cbn [fst snd] in *.
  inversion Hnz as [|q l' Hnz1 Hnz']; subst. cbn [fst] in Hnz1.
  rewrite (truthy_R fnext Hnz1). cbv zeta. toR. rewrite Nat2Z.id. rewrite IZR_S.
  assert (Hfs : 0 < (fnext - flow) / INR (S n)) by (apply Rdiv_lt_0_compat; [lra|apply lt_0_INR; lia]).
  rewrite inner_spec; [|exact Hfs|intros p Hp; specialize (Hacc p Hp); lra].
  rewrite dict_set_new.
  - rewrite IH.
    + unfold interval_nodes. rewrite <- !app_assoc. reflexivity.
    + split; [exact Hs'|]. split; [lra|exact Hnz'].
    + intros p Hp. apply in_app_or in Hp. destruct Hp as [Hp|[<-|[]]]; [|cbn [fst]; lra].
      apply in_app_or in Hp. destruct Hp as [Hp|Hp]; [specialize (Hacc p Hp); lra|].
      pose proof (interior_keys _ _ _ _ _ _ _ _ Hfs Hp) as K.
      assert (In p (interval_nodes n flow dlow fnext dnext)) by (unfold interval_nodes; apply in_or_app; left; exact Hp).
      pose proof (interval_keys n flow dlow fnext dnext p Hf1 H). lra.
  - intros p Hp. apply in_app_or in Hp. destruct Hp as [Hp|Hp]; [specialize (Hacc p Hp); lra|].
    assert (In p (interval_nodes n flow dlow fnext dnext)) by (unfold interval_nodes; apply in_or_app; left; exact Hp).
    pose proof (interval_keys n flow dlow fnext dnext p Hf1 H) as K.
    (* interior nodes are strictly below fnext *)
    unfold interval_nodes in H. pose proof (interior_keys _ _ _ _ _ _ _ _ Hfs Hp) as K2.
    assert (L : flow + INR n * ((fnext - flow) / INR (S n)) < fnext).
    { rewrite S_INR. pose proof (pos_INR n).
      replace (flow + INR n * ((fnext - flow) / (INR n + 1))) with (fnext - (fnext - flow) / (INR n + 1)) by (field; lra).
      assert (0 < (fnext - flow) / (INR n + 1)) by (apply Rdiv_lt_0_compat; lra). lra. }
    lra.
Qed.

(* all nodes produced by the second loop: strictly increasing in both columns, above the start point *)
Lemma all_nodes_increasing : forall (pts : gsdR) n flow dlow, input_ok flow dlow pts ->
  both_increasing (all_nodes n flow dlow pts) /\ (forall p, In p (all_nodes n flow dlow pts) -> flow < fst p /\ dlow < snd p).
Proof.
  induction pts as [|[fnext dnext] rest IH]; intros n flow dlow Hok; cbn [all_nodes]; [split; [constructor|intros p []]|].
  destruct Hok as (Hs & Hd0 & Hnz).
  inversion Hs as [|p l Hs' Hf]; subst. inversion Hf as [|q l' [Hf1 Hd1] Hf']; subst. cbn [fst snd] in *.
  inversion Hnz as [|q l' Hnz1 Hnz']; subst.
  assert (Hok' : input_ok fnext dnext rest) by (split; [exact Hs'|split; [lra|exact Hnz']]).
  destruct (IH n fnext dnext Hok') as [I1 I2].
  pose proof (interval_increasing n flow dlow fnext dnext ltac:(lra) Hf1) as J.
  assert (JK : forall p, In p (interval_nodes n flow dlow fnext dnext) -> flow < fst p <= fnext /\ dlow < snd p <= dnext).
  { intros p Hp. split; [apply (interval_keys n flow dlow fnext dnext p Hf1 Hp)|].
    unfold interval_nodes in Hp. apply in_app_or in Hp. destruct Hp as [Hp|[<-|[]]]; [|cbn [snd]; lra].
    assert (Hfs : 0 < (fnext - flow) / INR (S n)) by (apply Rdiv_lt_0_compat; [lra|apply lt_0_INR; lia]).
    pose proof (interior_keys _ _ _ _ _ _ _ _ Hfs Hp) as K.
    assert (L : flow + INR n * ((fnext - flow) / INR (S n)) < fnext).
    { rewrite S_INR. pose proof (pos_INR n).
      replace (flow + INR n * ((fnext - flow) / (INR n + 1))) with (fnext - (fnext - flow) / (INR n + 1)) by (field; lra).
      assert (0 < (fnext - flow) / (INR n + 1)) by (apply Rdiv_lt_0_compat; lra). lra. }
    destruct (interior_is_node _ _ _ _ _ _ _ _ Hp) as [g ->].
    cbn [node fst snd] in *. pose proof (interp_between dlow dnext flow fnext g ltac:(lra) ltac:(lra)). lra. }
  split.
  - (* concatenation of two increasing lists whose elements are ordered across *)
    assert (C : forall (l1 l2 : gsdR), both_increasing l1 -> both_increasing l2 ->
                (forall p q, In p l1 -> In q l2 -> inc2 p q) -> both_increasing (l1 ++ l2)).
    { clear. induction l1 as [|a l1 IHl]; intros l2 H1 H2 H; [exact H2|]. cbn [app]. inversion H1 as [|x y Hs Hf]; subst.
      constructor; [apply IHl; [exact Hs|exact H2|intros p q Hp Hq; apply H; [right; exact Hp|exact Hq]]|].
      apply Forall_app. split; [exact Hf|]. apply Forall_forall. intros q Hq. apply H; [left; reflexivity|exact Hq]. }
    apply C; [exact J|exact I1|]. intros p q Hp Hq. destruct (JK p Hp) as [A B]. destruct (I2 q Hq) as [A' B']. unfold inc2. lra.
  - intros p Hp. apply in_app_or in Hp. destruct Hp as [Hp|Hp]; [destruct (JK p Hp); lra|destruct (I2 p Hp); lra].
Qed.

Lemma all_nodes_length : forall (pts : gsdR) n flow dlow, length (all_nodes n flow dlow pts) = (length pts * S n)%nat.
Proof.
  induction pts as [|[fnext dnext] rest IH]; intros n flow dlow; cbn [all_nodes length]; [reflexivity|].
  rewrite app_length, interval_length, IH. lia.
Qed.

(* every input point is one of the nodes, with its own diameter *)
Lemma all_nodes_contains : forall (pts : gsdR) n flow dlow p, In p pts -> In p (all_nodes n flow dlow pts).
Proof.
  induction pts as [|[fnext dnext] rest IH]; intros n flow dlow p Hp; [inversion Hp|].
  cbn [all_nodes]. apply in_or_app. destruct Hp as [<-|Hp].
  - left. unfold interval_nodes. apply in_or_app. right. left. reflexivity.
  - right. apply IH. exact Hp.
Qed.
