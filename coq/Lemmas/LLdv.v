(* C02 / C06: the limit-deposit-velocity function is defined on the envelope: every iterate of its four fixed-step
   loops is a positive line speed, every friction factor it evaluates is defined and positive (laminar or turbulent
   branch), every fractional power has a positive base. *)
From Coq Require Import Reals Lra.
From DHV Require Import NumOps RInst SwameeJain LIl LSettle LDefined.
From DHV Require Constants Homogeneous HomogeneousOk Heterogeneous HeterogeneousOk Framework FrameworkOk.
Local Open Scope R_scope.

(* the friction factor at ANY positive line speed (the loops start at 1, 4, 4.3 and 2 m/s and average downwards) *)
Lemma sj_any v Dp eps nu : 0 < v -> 1 / 10 <= Dp <= 12 / 10 -> 0 <= eps <= 1 / 10000 -> 0 < nu ->
  HomogeneousOk.swamee_jain_ff_ok (Homogeneous.pipe_reynolds_number RN v Dp nu) Dp eps /\
  0 < Homogeneous.swamee_jain_ff RN (Homogeneous.pipe_reynolds_number RN v Dp nu) Dp eps.
Proof.
  intros Hv HD He Hn. rewrite Re_of_eq.
  assert (RP : 0 < Re_of v Dp nu) by (unfold Re_of; apply Rdiv_lt_0_compat; [apply Rmult_lt_0_compat; lra|lra]).
  assert (Hc : 0 <= c1_of eps Dp <= 3 / 10).
  { unfold c1_of. split; [apply Rmult_le_pos; [lra|left; apply Rinv_0_lt_compat; lra]|].
    apply (Rmult_le_reg_r (37 / 10 * Dp)); [lra|]. replace (eps / (37 / 10 * Dp) * (37 / 10 * Dp)) with eps by (field; lra). nra. }
  destruct (Rle_dec (Re_of v Dp nu) 2320) as [L|T].
  - split.
    + unfold HomogeneousOk.swamee_jain_ff_ok. toR. replace (Rleb (Re_of v Dp nu) 2320) with true by (symmetry; apply Rleb_true; exact L). lra.
    + rewrite sj_laminar by exact L. apply Rdiv_lt_0_compat; lra.
  - assert (T' : 2320 < Re_of v Dp nu) by lra. split.
    + unfold HomogeneousOk.swamee_jain_ff_ok. toR. replace (Rleb (Re_of v Dp nu) 2320) with false by (symmetry; apply Rleb_false; exact T').
      cbv zeta. split; [lra|]. split; [split; [lra|]|].
      * pose proof (Rpower_pos (Re_of v Dp nu) (9 / 10)). lra.
      * pose proof (u_range (c1_of eps Dp) Hc (Re_of v Dp nu)) as U. unfold c1_of, c2 in U.
        assert (HR' : 2320 <= Re_of v Dp nu) by lra. specialize (U HR'). split; [lra|].
        assert (LN : ln (eps / (37 / 10 * Dp) + 575 / 100 / Rpower (Re_of v Dp nu) (9 / 10)) < 0).
        { rewrite <- ln_1. apply ln_increasing; lra. }
        intro Z. apply Rmult_integral in Z. lra.
    + rewrite sj_turbulent by exact T'. apply (lam_pos (c1_of eps Dp) Hc). lra.
Qed.

Section Loops.
Variables Dp nu eps : R.
Hypothesis HD : 1 / 10 <= Dp <= 12 / 10.
Hypothesis He : 0 <= eps <= 1 / 10000.
Hypothesis Hn : 0 < nu.

Lemma loop1_ok fbot Rsd : 0 < fbot -> 0 < Rsd ->
  forall fuel vls Re lam FL vlsldv, 0 < vls -> 0 < vlsldv ->
  FrameworkOk.LDV_loop1_ok fuel Dp nu eps fbot Rsd vls Re lam FL vlsldv.
Proof.
  intros Hf HR. induction fuel as [|fuel IH]; intros vls Re lam FL vlsldv Hv Hl; cbn [FrameworkOk.LDV_loop1_ok].
  - split; [|exact I]. split; [lra|]. destruct (nleb RN _ _); [lra|exact I].
  - split; [split; [lra|destruct (nleb RN _ _); [lra|exact I]]|].
    destruct (negb _); [|exact I]. toR.
    set (v' := (vls + vlsldv) / 2). assert (V' : 0 < v') by (unfold v'; lra).
    destruct (sj_any v' Dp eps nu V' HD He Hn) as (SJ & LP).
    split; [lra|]. cbv zeta. split; [unfold HomogeneousOk.pipe_reynolds_number_ok; lra|]. split; [exact SJ|].
    set (l' := Homogeneous.swamee_jain_ff RN (Homogeneous.pipe_reynolds_number RN v' Dp nu) Dp eps) in *.
    unfold Constants.gravity. toR.
    assert (G : 0 < nu * Rsd * (980665 / 100000)) by (apply Rmult_lt_0_compat; [apply Rmult_lt_0_compat; lra|lra]).
    split.
    + split; [split; [split; [lra|exact G]|split; [lra|apply Rdiv_lt_0_compat; lra]]|lra].
    + apply IH; [exact V'|].
      apply Rmult_lt_0_compat; [|exact Hf]. apply Rdiv_lt_0_compat; [|exact Hf].
      apply Rmult_lt_0_compat; [apply Rmult_lt_0_compat; [lra|apply Rpower_pos]|apply Rpower_pos].
Qed.

Ltac loop_head Hl :=
  split; [split; [lra|destruct (nleb RN _ _); [lra|exact I]]|].

Lemma loop2_ok alphap fbot vt Cvs beta KC : 0 < alphap -> 0 < fbot -> 0 < vt -> 0 < Cvs < KC ->
  forall fuel vls Re lam FL vlsldv, 0 < vls -> 0 < vlsldv ->
  FrameworkOk.LDV_loop2_ok fuel Dp nu eps alphap fbot vt Cvs beta KC vls Re lam FL vlsldv.
Proof.
  intros Ha Hf Hvt HC. induction fuel as [|fuel IH]; intros vls Re lam FL vlsldv Hv Hl; cbn [FrameworkOk.LDV_loop2_ok].
  - split; [|exact I]. split; [lra|]. destruct (nleb RN _ _); [lra|exact I].
  - loop_head Hl. destruct (negb _); [|exact I]. toR. cbv zeta.
    set (v' := (vls + vlsldv) / 2). assert (V' : 0 < v') by (unfold v'; lra).
    destruct (sj_any v' Dp eps nu V' HD He Hn) as (SJ & LP).
    set (l' := Homogeneous.swamee_jain_ff RN (Homogeneous.pipe_reynolds_number RN v' Dp nu) Dp eps) in *.
    assert (B1 : 0 < 1 - Cvs / KC).
    { assert (Cvs / KC < 1); [|lra]. apply (Rmult_lt_reg_r KC); [lra|]. replace (Cvs / KC * KC) with Cvs by (field; lra). lra. }
    assert (LF : 0 < l' * fbot) by (apply Rmult_lt_0_compat; assumption).
    assert (Q : 0 < vt * Cvs * Rpower (1 - Cvs / KC) beta / (l' * fbot)).
    { apply Rdiv_lt_0_compat; [|exact LF]. apply Rmult_lt_0_compat; [apply Rmult_lt_0_compat; lra|apply Rpower_pos]. }
    split; [lra|]. split; [unfold HomogeneousOk.pipe_reynolds_number_ok; lra|]. split; [exact SJ|]. split.
    + split; [split; [split; lra|lra]|split; [lra|exact Q]].
    + apply IH; [exact V'|]. apply Rmult_lt_0_compat; [|exact Hf]. apply Rmult_lt_0_compat; [exact Ha|apply Rpower_pos].
Qed.

Lemma loop3_ok alphap Cvr Cvs beta KC fbot : 0 < alphap -> 0 < fbot -> 0 < Cvr -> 0 < Cvs < KC ->
  forall fuel vls Re lam FL vlsldv, 0 < vls -> 0 < vlsldv ->
  FrameworkOk.LDV_loop3_ok fuel Dp nu eps alphap Cvr Cvs beta KC fbot vls Re lam FL vlsldv.
Proof.
  intros Ha Hf Hr HC. induction fuel as [|fuel IH]; intros vls Re lam FL vlsldv Hv Hl; cbn [FrameworkOk.LDV_loop3_ok].
  - split; [|exact I]. split; [lra|]. destruct (nleb RN _ _); [lra|exact I].
  - loop_head Hl. destruct (negb _); [|exact I]. unfold Constants.musf, Constants.Cvb. toR. cbv zeta.
    set (v' := (vls + vlsldv) / 2). assert (V' : 0 < v') by (unfold v'; lra).
    destruct (sj_any v' Dp eps nu V' HD He Hn) as (SJ & LP).
    set (l' := Homogeneous.swamee_jain_ff RN (Homogeneous.pipe_reynolds_number RN v' Dp nu) Dp eps) in *.
    assert (B1 : 0 < 1 - Cvs / KC).
    { assert (Cvs / KC < 1); [|lra]. apply (Rmult_lt_reg_r KC); [lra|]. replace (Cvs / KC * KC) with Cvs by (field; lra). lra. }
    assert (PI0 : 0 < PI) by apply PI_RGT_0.
    assert (M : 0 < 415 / 1000 * (6 / 10) * PI / 8) by (apply Rdiv_lt_0_compat; [apply Rmult_lt_0_compat; lra|lra]).
    assert (Q : 0 < Rpower (1 - Cvs / KC) beta * Cvs * Rpower (415 / 1000 * (6 / 10) * PI / 8) (5 / 10) * Rpower Cvr (5 / 10) / l').
    { apply Rdiv_lt_0_compat; [|exact LP]. repeat apply Rmult_lt_0_compat; try apply Rpower_pos; lra. }
    split; [lra|]. split; [unfold HomogeneousOk.pipe_reynolds_number_ok; lra|]. split; [exact SJ|]. split.
    + split; [split; [split; [split; [split; lra|split; [lra|exact M]]|exact Hr]|lra]|split; [lra|exact Q]].
    + apply IH; [exact V'|]. apply Rmult_lt_0_compat; [|exact Hf]. apply Rmult_lt_0_compat; [exact Ha|apply Rpower_pos].
Qed.

Lemma loop4_ok vt beta Cvs KC d : 0 < vt -> 0 < d -> 0 < Cvs < KC ->
  forall fuel vls Re lam A B C vlsldv, 0 < vls -> 0 < vlsldv ->
  FrameworkOk.LDV_loop4_ok fuel Dp nu eps vt beta Cvs KC d vls Re lam A B C vlsldv.
Proof.
  intros Hvt Hd HC. induction fuel as [|fuel IH]; intros vls Re lam A B C vlsldv Hv Hl; cbn [FrameworkOk.LDV_loop4_ok].
  - split; [|exact I]. split; [lra|]. destruct (nleb RN _ _); [lra|exact I].
  - loop_head Hl. destruct (negb _); [|exact I]. unfold Constants.musf, Constants.gravity. toR. cbv zeta.
    set (v' := (vls + vlsldv) / 2). assert (V' : 0 < v') by (unfold v'; lra).
    destruct (sj_any v' Dp eps nu V' HD He Hn) as (SJ & LP).
    set (l' := Homogeneous.swamee_jain_ff RN (Homogeneous.pipe_reynolds_number RN v' Dp nu) Dp eps) in *.
    assert (B1 : 0 < 1 - Cvs / KC).
    { assert (Cvs / KC < 1); [|lra]. apply (Rmult_lt_reg_r KC); [lra|]. replace (Cvs / KC * KC) with Cvs by (field; lra). lra. }
    assert (GD : 0 < 980665 / 100000 * d) by (apply Rmult_lt_0_compat; lra).
    assert (PG : 0 < Rpower (980665 / 100000 * d) (5 / 10)) by apply Rpower_pos.
    assert (NG : 0 < nu * (980665 / 100000)) by (apply Rmult_lt_0_compat; lra).
    set (Bv := vt * Rpower (1 - Cvs / KC) beta / (415 / 1000)).
    assert (BP : 0 < Bv) by (unfold Bv; apply Rdiv_lt_0_compat; [apply Rmult_lt_0_compat; [lra|apply Rpower_pos]|lra]).
    set (Cv := (85 / 10) ^ 2 / l' * Rpower (vt / Rpower (980665 / 100000 * d) (5 / 10)) (10 / 1 / 3) * Rpower (nu * (980665 / 100000)) (2 / 1 / 3) / (415 / 1000)).
    assert (CP : 0 < Cv).
    { unfold Cv. apply Rdiv_lt_0_compat; [|lra]. apply Rmult_lt_0_compat; [apply Rmult_lt_0_compat; [|apply Rpower_pos]|apply Rpower_pos].
      apply Rdiv_lt_0_compat; [apply pow_lt; lra|exact LP]. }
    assert (DISC : 0 < Bv ^ 2 - 4 * - (1) * Cv) by (assert (0 <= Bv ^ 2) by (apply pow2_ge_0); lra).
    split; [lra|]. split; [unfold HomogeneousOk.pipe_reynolds_number_ok; lra|]. split; [exact SJ|].
    split; [split; [split; lra|lra]|]. split.
    + split; [split; [split; [lra|split; [split; [exact GD|lra]|split; [lra|apply Rdiv_lt_0_compat; lra]]]|split; [lra|exact NG]]|lra].
    + split; [split; [exact DISC|lra]|]. apply IH; [exact V'|].
      pose proof (Rpower_pos (Bv ^ 2 - 4 * - (1) * Cv) (5 / 10)) as PP.
      replace ((- (1) * Bv - Rpower (Bv ^ 2 - 4 * - (1) * Cv) (5 / 10)) / (2 * - (1))) with ((Bv + Rpower (Bv ^ 2 - 4 * - (1) * Cv) (5 / 10)) / 2) by field.
      lra.
Qed.
End Loops.

Theorem LDV_ok vls Dp d eps nu rhol rhos Cvs (max_steps : nat) :
  1 / 10 <= Dp <= 12 / 10 -> 0 <= eps <= 1 / 10000 -> 0 < nu -> 0 < d -> 0 < rhol < rhos -> 0 < Cvs <= 58 / 100 ->
  FrameworkOk.LDV_ok vls Dp d eps nu rhol rhos Cvs max_steps.
Proof.
  intros HD He Hn Hd Hr HC.
  set (Rsd := (rhos - rhol) / rhol). assert (HR : 0 < Rsd) by (unfold Rsd; apply Rdiv_lt_0_compat; lra).
  pose proof (vt_pos d Rsd nu (26 / 100) Hd HR Hn) as VT. pose proof (Rep_pos d Rsd nu Hd HR Hn) as RP. unfold K26 in RP.
  pose proof (beta_range (Heterogeneous.vt_ruby RN d Rsd nu (26 / 100) * d / nu)) as BR. unfold betaRZ in BR.
  pose proof (vt_ok d Rsd nu (26 / 100) Hd HR Hn) as VTOK.
  unfold FrameworkOk.LDV_ok. split; [lra|]. cbv zeta. unfold Constants.gravity, Constants.musf, Constants.Cvb. toR. fold Rsd.
  set (fb2 := 2 * (980665 / 100000) * Rsd * Dp). assert (FB2 : 0 < fb2) by (unfold fb2; apply Rmult_lt_0_compat; [apply Rmult_lt_0_compat; lra|lra]).
  set (fbot := Rpower fb2 (5 / 10)). assert (FB : 0 < fbot) by apply Rpower_pos.
  set (vt := Heterogeneous.vt_ruby RN d Rsd nu (26 / 100)) in *.
  set (x := Rpower (vt * d / nu) (75 / 100)) in *. assert (X : 0 < x) by apply Rpower_pos.
  set (beta := (47 / 10 + 41 / 100 * x) / (1 / 1 + 175 / 1000 * x)) in *.
  set (KC := 175 / 1000 * (1 + beta)). assert (HK : 58 / 100 < KC) by (unfold KC; lra).
  assert (B1 : 0 < 1 - Cvs / KC).
  { assert (Cvs / KC < 1); [|lra]. apply (Rmult_lt_reg_r KC); [lra|]. replace (Cvs / KC * KC) with Cvs by (field; lra). lra. }
  assert (PI0 : 0 < PI) by apply PI_RGT_0.
  assert (NRG : 0 < nu * Rsd * (980665 / 100000)) by (apply Rmult_lt_0_compat; [apply Rmult_lt_0_compat; lra|lra]).
  assert (GD : 0 < 980665 / 100000 * d) by (apply Rmult_lt_0_compat; lra).
  assert (NG : 0 < nu * (980665 / 100000)) by (apply Rmult_lt_0_compat; lra).
  assert (LP : forall v, 0 < v -> 0 < Homogeneous.swamee_jain_ff RN (Homogeneous.pipe_reynolds_number RN v Dp nu) Dp eps)
    by (intros v Hv; exact (proj2 (sj_any v Dp eps nu Hv HD He Hn))).
  assert (SJ : forall v, 0 < v -> HomogeneousOk.swamee_jain_ff_ok (Homogeneous.pipe_reynolds_number RN v Dp nu) Dp eps)
    by (intros v Hv; exact (proj1 (sj_any v Dp eps nu Hv HD He Hn))).
  assert (L1 : 0 < Homogeneous.swamee_jain_ff RN (Homogeneous.pipe_reynolds_number RN (10 / 10) Dp nu) Dp eps) by (apply LP; lra).
  assert (L4 : 0 < Homogeneous.swamee_jain_ff RN (Homogeneous.pipe_reynolds_number RN (40 / 10) Dp nu) Dp eps) by (apply LP; lra).
  assert (L43 : 0 < Homogeneous.swamee_jain_ff RN (Homogeneous.pipe_reynolds_number RN (43 / 10) Dp nu) Dp eps) by (apply LP; lra).
  assert (L2 : 0 < Homogeneous.swamee_jain_ff RN (Homogeneous.pipe_reynolds_number RN (20 / 10) Dp nu) Dp eps) by (apply LP; lra).
  set (l1 := Homogeneous.swamee_jain_ff RN (Homogeneous.pipe_reynolds_number RN (10 / 10) Dp nu) Dp eps) in *.
  set (l4 := Homogeneous.swamee_jain_ff RN (Homogeneous.pipe_reynolds_number RN (40 / 10) Dp nu) Dp eps) in *.
  set (l43 := Homogeneous.swamee_jain_ff RN (Homogeneous.pipe_reynolds_number RN (43 / 10) Dp nu) Dp eps) in *.
  set (l2 := Homogeneous.swamee_jain_ff RN (Homogeneous.pipe_reynolds_number RN (20 / 10) Dp nu) Dp eps) in *.
  assert (AP : 0 < 34 / 10 * Rpower (165 / 100 / Rsd) (2 / 1 / 9)) by (apply Rmult_lt_0_compat; [lra|apply Rpower_pos]).
  split; [exact FB2|].
  (* ---- very small particles ---- *)
  split; [unfold HomogeneousOk.pipe_reynolds_number_ok; lra|]. split; [apply SJ; lra|].
  split; [split; [split; [split; [lra|exact NRG]|split; [lra|apply Rdiv_lt_0_compat; lra]]|lra]|].
  split.
  { apply loop1_ok; try assumption; try lra.
    apply Rmult_lt_0_compat; [|exact FB]. apply Rdiv_lt_0_compat; [|exact FB].
    apply Rmult_lt_0_compat; [apply Rmult_lt_0_compat; [lra|apply Rpower_pos]|apply Rpower_pos]. }
  destruct (Framework.LDV_loop1 _ _ _ _ _ _ _ _ _ _ _ _) as [[[[vls1 Re1] lam1] FLvs] vl1].
  (* ---- small particles ---- *)
  split; [unfold HomogeneousOk.pipe_reynolds_number_ok; lra|]. split; [apply SJ; lra|].
  split; [split; [lra|split; [lra|apply Rdiv_lt_0_compat; lra]]|].
  split; [exact VTOK|]. split; [lra|]. split; [exact RP|]. split; [exact RP|]. split; [lra|].
  assert (Q2 : 0 < vt * Cvs * Rpower (1 - Cvs / KC) beta / (l4 * fbot)).
  { apply Rdiv_lt_0_compat; [|apply Rmult_lt_0_compat; assumption]. apply Rmult_lt_0_compat; [apply Rmult_lt_0_compat; lra|apply Rpower_pos]. }
  split; [split; [split; [split; lra|apply Rgt_not_eq; apply Rmult_lt_0_compat; assumption]|split; [lra|exact Q2]]|].
  split.
  { apply loop2_ok; try assumption; try lra. apply Rmult_lt_0_compat; [|exact FB]. apply Rmult_lt_0_compat; [exact AP|apply Rpower_pos]. }
  destruct (Framework.LDV_loop2 _ _ _ _ _ _ _ _ _ _ _ _ _ _ _ _) as [[[[vls2 Re2] lam2] FLss] vl2].
  (* ---- rough particles ---- *)
  set (Cvr := if Rleb d (15 / 1000 * Dp) then 65 / 10000 / fb2 else 53 / 1000 * Rpower (d / Dp) (5 / 10) / fb2).
  assert (CR : 0 < Cvr).
  { unfold Cvr. destruct (Rleb d (15 / 1000 * Dp)); apply Rdiv_lt_0_compat; try lra. apply Rmult_lt_0_compat; [lra|apply Rpower_pos]. }
  split.
  { destruct (Rleb d (15 / 1000 * Dp)); [lra|]. split; [split; [lra|apply Rdiv_lt_0_compat; lra]|lra]. }
  split; [unfold HomogeneousOk.pipe_reynolds_number_ok; lra|]. split; [apply SJ; lra|].
  assert (M : 0 < 415 / 1000 * (6 / 10) * PI / 8) by (apply Rdiv_lt_0_compat; [apply Rmult_lt_0_compat; lra|lra]).
  assert (Q3 : 0 < Rpower (1 - Cvs / KC) beta * Cvs * Rpower (415 / 1000 * (6 / 10) * PI / 8) (5 / 10) * Rpower Cvr (5 / 10) / l43).
  { apply Rdiv_lt_0_compat; [|exact L43]. repeat apply Rmult_lt_0_compat; try apply Rpower_pos; lra. }
  split; [split; [split; [split; [split; [split; lra|split; [lra|exact M]]|exact CR]|lra]|split; [lra|exact Q3]]|].
  split.
  { apply loop3_ok; try assumption; try lra. apply Rmult_lt_0_compat; [|exact FB]. apply Rmult_lt_0_compat; [exact AP|apply Rpower_pos]. }
  destruct (Framework.LDV_loop3 _ _ _ _ _ _ _ _ _ _ _ _ _ _ _ _) as [[[[vls3 Re3] lam3] FLr] vl3].
  (* ---- upper limit blend and lower limit ---- *)
  split; [split; [lra|apply Rdiv_lt_0_compat; lra]|]. split; [lra|].
  split.
  { destruct (Rltb (2 / 1 / 1000) d); [exact I|]. destruct (Rleb (Rmax FLvs FLss) FLr); [exact I|].
    assert (0 < 5 / 10000 * Rpower (165 / 100 / Rsd) (5 / 10)) by (apply Rmult_lt_0_compat; [lra|apply Rpower_pos]). split; lra. }
  split; [unfold HomogeneousOk.pipe_reynolds_number_ok; lra|]. split; [apply SJ; lra|].
  split; [split; [split; lra|lra]|].
  assert (PG : 0 < Rpower (980665 / 100000 * d) (5 / 10)) by apply Rpower_pos.
  split; [split; [split; [split; [lra|split; [split; [exact GD|lra]|split; [lra|apply Rdiv_lt_0_compat; lra]]]|split; [lra|exact NG]]|lra]|].
  set (Bv := vt * Rpower (1 - Cvs / KC) beta / (415 / 1000)).
  assert (BP : 0 < Bv) by (unfold Bv; apply Rdiv_lt_0_compat; [apply Rmult_lt_0_compat; [lra|apply Rpower_pos]|lra]).
  set (Cv := (85 / 10) ^ 2 / l2 * Rpower (vt / Rpower (980665 / 100000 * d) (5 / 10)) (10 / 1 / 3) * Rpower (nu * (980665 / 100000)) (2 / 1 / 3) / (415 / 1000)).
  assert (CP : 0 < Cv).
  { unfold Cv. apply Rdiv_lt_0_compat; [|lra]. apply Rmult_lt_0_compat; [apply Rmult_lt_0_compat; [|apply Rpower_pos]|apply Rpower_pos].
    apply Rdiv_lt_0_compat; [apply pow_lt; lra|exact L2]. }
  assert (DISC : 0 < Bv ^ 2 - 4 * - (1) * Cv) by (assert (0 <= Bv ^ 2) by (apply pow2_ge_0); lra).
  split; [split; [exact DISC|lra]|].
  split.
  { apply loop4_ok; try assumption; try lra.
    pose proof (Rpower_pos (Bv ^ 2 - 4 * - (1) * Cv) (5 / 10)) as PP.
    replace ((- (1) * Bv - Rpower (Bv ^ 2 - 4 * - (1) * Cv) (5 / 10)) / (2 * - (1))) with ((Bv + Rpower (Bv ^ 2 - 4 * - (1) * Cv) (5 / 10)) / 2) by field.
    lra. }
  destruct (Framework.LDV_loop4 _ _ _ _ _ _ _ _ _ _ _ _ _ _ _ _ _) as [[[[[[vls4 Re4] lam4] A4] B4] C4] vl4].
  lra.
Qed.
