#!/venv/bin/python
"""corr_oppoint.py: correspondence of Models/OpPoint.v with Pipeline.find_operating_point: the real method is run on
pipelines whose system / pump heads are cheap synthetic curves (so thousands of shapes can be covered: crossing,
tangent, no crossing, jump, flat), every evaluation of the head gap is recorded, and the model is replayed on the
recorded gap table; outcome, root and the sequence of visited flows are compared bit for bit."""
import argparse
import math
import random
import sys
import warnings

from common import Driver, Stats, check_repo_import, hx, py_outcome, seed, write_json
from corr_slurry import compare


def main():
    ap = argparse.ArgumentParser()
    ap.add_argument('--out', required=True)
    ap.add_argument('--n', type=int, default=300)
    a = ap.parse_args()
    check_repo_import()
    from DHLLDV import PipeObj
    warnings.simplefilter('ignore')
    rng = random.Random(seed())
    st = Stats()
    st.ulp = 0
    reqs, expect = [], []
    dist = {}
    for i in range(a.n):
        shape = rng.choice(['crossing', 'crossing', 'steep', 'tangent', 'none', 'jump', 'flat', 'infeasible'])
        A, B = rng.uniform(5, 60), rng.uniform(0.5, 20)
        C, D_ = rng.uniform(20, 120), rng.uniform(0.5, 15)
        qimin = rng.uniform(0.2, 1.5)
        qlast = qimin + rng.uniform(0.5, 6)
        jump_at = rng.uniform(qimin, qlast)

        def sys_head(q):
            if shape == 'flat':
                return A
            return A + B * (q - qimin) ** 2 + (0.3 * B / max(q, 1e-3) if shape == 'steep' else 0.0)

        def pump_head(q):
            if shape == 'none':
                return sys_head(q) + 1.0 + 0.1 * q
            if shape == 'infeasible':
                return sys_head(qimin) - 1.0 - D_ * q
            h = C - D_ * q * q
            if shape == 'tangent':
                h = sys_head(q) + (q - (qimin + qlast) / 2) ** 2 * 3
            if shape == 'jump' and q > jump_at:
                h -= 25.0
            return h
        visited = []
        pl = PipeObj.Pipeline.__new__(PipeObj.Pipeline)
        pl.qimin = lambda flow_list, precision=0.02: qimin

        def csh(q):
            q = float(q)
            hs, hp = sys_head(q), pump_head(q)
            visited.append((q, hs - hp))
            return (hs, 0.0, 0.0, hp)
        pl.calc_system_head = csh
        o = py_outcome(pl.find_operating_point, [0.1, qlast])
        table = visited[1:]          # the first evaluation is the feasibility test at qimin
        hs0, hp0 = sys_head(qimin), pump_head(qimin)
        flat = [str(len(table))]
        for q, g in table:
            flat += [hx(q), hx(g)]
        reqs.append(('OpPoint.find', [hx(qimin), hx(qlast), hx(hs0), hx(hp0)] + flat))
        if o[0] == 'ok':
            want = ['root', float(o[1])]
        else:
            want = [o[1]]
        want += ['@visited', str(len(table))] + [q for q, _ in table]
        expect.append(({'shape': shape, 'qimin': qimin, 'qlast': qlast, 'coeffs': [A, B, C, D_]}, want))
        k = shape + ':' + ('root' if o[0] == 'ok' else o[1])
        dist[k] = dist.get(k, 0) + 1
    replies = Driver().batch(reqs)
    for (inp, want), rep in zip(expect, replies):
        st.evaluations += 1
        key = repr(inp)
        st.distinct.add(key)
        if rep[0] != 'ok':
            st.disagree.append({'input': inp, 'python': [x.hex() if isinstance(x, float) else x for x in want][:10], 'model': rep})
            continue
        c = compare(want, rep[1])
        if c == 'exact':
            st.agree += 1
            st.nontrivial.add(key)
        else:
            st.disagree.append({'input': inp, 'python': [x.hex() if isinstance(x, float) else x for x in want][:12], 'model': rep[1][:12]})
        if len(st.samples) < 3 and st.evaluations % 97 == 1:
            st.samples.append({'input': inp, 'outcome': want[:2]})
    res = {'ok': not st.disagree, 'evaluations': st.evaluations, 'agree_bit_exact': st.agree, 'agree_on_error': 0,
           'distinct': len(st.distinct), 'distinct_nontrivial': len(st.nontrivial), 'disagreements': st.disagree[:8],
           'n_disagreements': len(st.disagree), 'distribution': dist, 'samples': st.samples, 'seed': seed(), 'wall_s': st.wall()}
    write_json(a.out, res)
    print(f"corr_oppoint: {st.evaluations} evaluations, {st.agree} bit-exact, {len(st.disagree)} disagreements")
    sys.exit(0 if not st.disagree else 1)


if __name__ == '__main__':
    main()
