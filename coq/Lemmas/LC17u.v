(* C17, unit displays: the factors of DHLLDV_viewer/unit_conv.py (Gen/Units.v, regenerated from the source) against the
   exact definitions of the US customary units. *)
From Coq Require Import Reals Lra.
From Interval Require Import Tactic.
From DHV Require Import Units.
Local Open Scope R_scope.

(* exact definitions (international foot, avoirdupois pound, standard gravity, US liquid gallon = 231 in^3,
   mechanical horsepower = 550 ft lbf/s) *)
Definition ft : R := 3048 / 10000.            (* m *)
Definition inch : R := 254 / 10000.           (* m *)
Definition yard : R := 9144 / 10000.          (* m *)
Definition lb : R := 45359237 / 100000000.    (* kg *)
Definition g0 : R := 980665 / 100000.         (* m/s^2 *)
Definition gallon : R := 231 * inch ^ 3.      (* m^3 *)
Definition hp : R := 550 * ft * lb * g0.      (* W *)
Definition psi : R := lb * g0 / inch ^ 2.     (* Pa *)

Definition ex_len : R := 1 / ft.                            (* ft per m *)
Definition ex_dia : R := 1 / inch.                          (* in per m *)
Definition ex_vol : R := 1 / yard ^ 3.                      (* cubic yards per m^3 *)
Definition ex_flow : R := 60 / gallon.                      (* US gpm per m^3/s *)
Definition ex_power : R := 1000 / hp.                       (* hp per kW *)
Definition ex_pressure : R := si_pressure * 1000 / psi.     (* psi per metre of water column, given the SI factor kPa/m *)

Definition within (tol a b : R) : Prop := Rabs (a - b) <= tol * b.

Theorem us_factors :
  within (2 / 1000) us_len ex_len /\ within (2 / 1000) us_dia ex_dia /\ within (2 / 1000) us_vol ex_vol /\
  within (2 / 1000) us_flow ex_flow /\ within (2 / 1000) us_power ex_power /\ within (2 / 1000) us_pressure ex_pressure /\
  us_rot_speed = 60.
Proof.
  unfold within, us_len, us_dia, us_vol, us_flow, us_power, us_pressure, us_rot_speed, ex_len, ex_dia, ex_vol, ex_flow, ex_power,
    ex_pressure, si_pressure, ft, inch, yard, lb, g0, gallon, hp, psi.
  repeat split; try interval. 
Qed.

Theorem si_factors :
  si_len = 1 /\ si_dia = 1000 /\ si_vol = 1 /\ si_flow = 1 /\ si_power = 1 /\ si_pressure = 9804139 / 1000000 /\ si_rot_speed = 60.
Proof. unfold si_len, si_dia, si_vol, si_flow, si_power, si_pressure, si_rot_speed. repeat split; reflexivity. Qed.

(* both tables have the seven keys the System tab reads *)
Theorem unit_tables_complete : us_keys = 7%nat /\ si_keys = 7%nat.
Proof. split; reflexivity. Qed.
