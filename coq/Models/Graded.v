(* Graded: hand-written executable model of DHLLDV_framework.Erhg_graded (all keys of its
   get_dict=True result).  Parametrised by the generated Cvs_Erhg_dict / Cvt_Erhg_dict.
   Tied to the code by tools/harness/corr_graded.py.  No proofs here. *)
From Coq Require Import ZArith List Bool.
From DHV Require Import NumOps Interp Fracs.
From DHV Require Homogeneous Framework.
Import ListNotations.

Section Graded.
Context {T : Type} (N : NumOps T).

Record graded_result : Type := mkGraded {
  g_ims : list T; g_im_x : T; g_ds : list T; g_dxs : list T; g_fracs : list T; g_GSD : gsd (T:=T);
  g_dmin : T; g_X : T; g_mu_x : T; g_nu_x : T; g_rhox : T; g_Rsd_x : T; g_Cv_x : T; g_Cv_r : T;
  g_Erhg_x : T; g_Erhg : T; g_il : T }.

(* the pseudo-liquid of Eqns 8.15-3 .. 8.15-7 *)
Definition pseudo_liquid (X nu rhol rhos Cv : T) : T * T * T * T * T * T :=
  let Rsd := ndiv N (nsub N rhos rhol) rhol in
  let one := nint N 1%Z in
  let den := nadd N (nsub N one Cv) (nmul N Cv X) in
  let rhox := nadd N rhol (ndiv N (nmul N rhol (nmul N (nmul N X Cv) Rsd)) den) in
  let Cv_x := ndiv N (nmul N X Cv) den in
  let Cv_r := nmul N (nsub N one X) Cv in
  let mu_l := nmul N nu rhol in
  let mu_x := nmul N mu_l
     (nadd N (nadd N (nadd N one (nmul N (nlit N 25%Z 10%positive) Cv_x))
                     (nmul N (nlit N 1005%Z 100%positive) (npown N Cv_x 2%nat)))
             (nmul N (nlit N 273%Z 100000%positive) (nexp N (nmul N (nlit N 166%Z 10%positive) Cv_x)))) in
  let nu_x := ndiv N mu_x rhox in
  let Rsd_x := ndiv N (nsub N rhos rhox) rhox in
  (rhox, Cv_x, Cv_r, mu_x, nu_x, Rsd_x).

(* one fraction: (central diameter, width, mixture gradient) *)
Definition fraction (sf sq cvt : bool) (vls Dp eps nu_x rhox rhos Cv_r Rsd_x : T)
           (flow dlow fnext dnext : T) : T * T * T :=
  let logdx := ndiv N (nadd N (nlog10 N dlow) (nlog10 N dnext)) (nlit N 20%Z 10%positive) in
  let dx := pow10 N logdx in
  let fracx := nsub N fnext flow in
  let i_mxi :=
    if cvt then
      let o := Framework.Cvt_Erhg_dict N sf sq vls Dp dx eps nu_x rhox rhos Cv_r in
      let e := match Framework.Erhg7_regime o with
               | Framework.R_FB => Framework.Erhg7_FB o | Framework.R_SB => Framework.Erhg7_SB o
               | Framework.R_He => Framework.Erhg7_He o | Framework.R_Ho => Framework.Erhg7_Ho o end in
      nadd N (nmul N (nmul N e Rsd_x) Cv_r) (Framework.Erhg7_il o)
    else
      let o := Framework.Cvs_Erhg_dict N sf sq vls Dp dx eps nu_x rhox rhos Cv_r in
      let e := match Framework.Erhg6_regime o with
               | Framework.R_FB => Framework.Erhg6_FB o | Framework.R_SB => Framework.Erhg6_SB o
               | Framework.R_He => Framework.Erhg6_He o | Framework.R_Ho => Framework.Erhg6_Ho o end in
      nadd N (nmul N (nmul N e Rsd_x) Cv_r) (Framework.Erhg6_il o) in
  (dx, fracx, i_mxi).

(* `while fnext:` over consecutive points of the sorted grading *)
Fixpoint fractions (sf sq cvt : bool) (vls Dp eps nu_x rhox rhos Cv_r Rsd_x : T)
         (flow dlow : T) (pts : gsd (T:=T)) : list (T * T * T * T) :=
  match pts with
  | [] => []
  | (fnext, dnext) :: rest =>
    if truthy N fnext then
      let '(dx, fracx, imx) := fraction sf sq cvt vls Dp eps nu_x rhox rhos Cv_r Rsd_x flow dlow fnext dnext in
      (dnext, dx, fracx, imx) :: fractions sf sq cvt vls Dp eps nu_x rhox rhos Cv_r Rsd_x fnext dnext rest
    else []
  end.

(* Erhg_graded(GSD, vls, Dp, epsilon, nu, rhol, rhos, Cv, Cvt_eq_Cvs, num_fracs, get_dict=True);
   refrac = bool(num_fracs) *)
Definition Erhg_graded_dict (sf sq : bool) (g : gsd (T:=T)) (vls Dp eps nu rhol rhos Cv : T) (cvt refrac : bool)
  : graded_result :=
  let Rsd := ndiv N (nsub N rhos rhol) rhol in
  let g := if refrac then create_fracs N g Dp nu rhol rhos 10%Z else sort_keys N g in
  match g with
  | (X, dlow) :: rest =>
    let '(rhox, Cv_x, Cv_r, mu_x, nu_x, Rsd_x) := pseudo_liquid X nu rhol rhos Cv in
    let fr := fractions sf sq cvt vls Dp eps nu_x rhox rhos Cv_r Rsd_x X dlow rest in
    let ims := map (fun q => snd q) fr in
    let frac_list := map (fun q => snd (fst q)) fr in
    let dxs := map (fun q => snd (fst (fst q))) fr in
    let ds := dlow :: map (fun q => fst (fst (fst q))) fr in
    let im_x := ndiv N (nsum N (map (fun q => nmul N (snd (fst q)) (snd q)) fr)) (nsub N (nint N 1%Z) X) in
    let il_x := Homogeneous.fluid_head_loss N vls Dp eps nu_x rhox in
    let im := ndiv N (nmul N rhox im_x) rhol in
    let il := Homogeneous.fluid_head_loss N vls Dp eps nu rhol in
    let Erhg := ndiv N (nsub N im il) (nmul N Rsd Cv) in
    mkGraded ims im_x ds dxs frac_list g dlow X mu_x nu_x rhox Rsd_x Cv_x Cv_r
             (ndiv N (nsub N im_x il_x) (nmul N Rsd_x Cv_r)) Erhg il
  | [] => mkGraded [] (nfail N E_StopIteration) [] [] [] [] (nfail N E_StopIteration) (nfail N E_StopIteration)
            (nfail N E_StopIteration) (nfail N E_StopIteration) (nfail N E_StopIteration) (nfail N E_StopIteration)
            (nfail N E_StopIteration) (nfail N E_StopIteration) (nfail N E_StopIteration) (nfail N E_StopIteration)
            (nfail N E_StopIteration)
  end.

Definition Erhg_graded (sf sq : bool) (g : gsd (T:=T)) (vls Dp eps nu rhol rhos Cv : T) (cvt refrac : bool) : T :=
  g_Erhg (Erhg_graded_dict sf sq g vls Dp eps nu rhol rhos Cv cvt refrac).

End Graded.
