(* Proofs for C18: interpDict lookups are exact piecewise-linear interpolation.
   The table is the association list sorted by key that Python builds on every miss
   (sorted(self.keys())); keys strictly increasing = a dict's keys are distinct. *)
From Coq Require Import Reals List Bool Lra Arith Sorted Lia.
From DHV Require Import NumOps RInst Interp.
Import ListNotations.
Local Open Scope R_scope.

Definition klt (p q : R * R) : Prop := fst p < fst q.
Definition increasing (tbl : list (R * R)) : Prop := StronglySorted klt tbl.

Definition line (x1 y1 x2 y2 k : R) : R := (y2 - y1) / (x2 - x1) * (k - x1) + y1.

Lemma interp2_line x1 y1 x2 y2 k : interp2 RN (x1, y1) (x2, y2) k = line x1 y1 x2 y2 k.
Proof. reflexivity. Qed.

Lemma Reqb_refl x : Reqb x x = true.
Proof. unfold Reqb. destruct (Req_EM_T x x); [reflexivity|contradiction]. Qed.
Lemma Reqb_neq x y : x <> y -> Reqb x y = false.
Proof. intro H. unfold Reqb. destruct (Req_EM_T x y); [contradiction|reflexivity]. Qed.
Lemma Rltb_t a b : a < b -> Rltb a b = true. Proof. intro; apply Rltb_true; assumption. Qed.
Lemma Rltb_f a b : b <= a -> Rltb a b = false. Proof. intro; apply Rltb_false; assumption. Qed.

Lemma increasing_tail p tbl : increasing (p :: tbl) -> increasing tbl.
Proof. intro H; inversion H; assumption. Qed.
Lemma increasing_head p tbl : increasing (p :: tbl) -> Forall (klt p) tbl.
Proof. intro H; inversion H; assumption. Qed.

(* find_exact *)
Lemma find_exact_hit : forall tbl k v, increasing tbl -> In (k, v) tbl -> find_exact RN tbl k = Some v.
Proof.
  induction tbl as [|[x y] tbl IH]; intros k v Hs Hin; [inversion Hin|].
  cbn [find_exact]. toR. destruct Hin as [E|Hin].
  - injection E as -> ->. rewrite Reqb_refl. reflexivity.
  - assert (x < k).
    { pose proof (increasing_head _ _ Hs) as F. rewrite Forall_forall in F. apply (F (k, v) Hin). }
    rewrite Reqb_neq by lra. apply IH; [eapply increasing_tail; eassumption|exact Hin].
Qed.

Lemma find_exact_miss : forall tbl k, (forall v, ~ In (k, v) tbl) -> find_exact RN tbl k = None.
Proof.
  induction tbl as [|[x y] tbl IH]; intros k Hn; [reflexivity|].
  cbn [find_exact]. toR. rewrite Reqb_neq.
  - apply IH. intros v Hv. apply (Hn v). right; exact Hv.
  - intro E; subst. apply (Hn y). left; reflexivity.
Qed.

Lemma not_in_if_between l1 x1 y1 x2 y2 l2 k :
  increasing (l1 ++ (x1, y1) :: (x2, y2) :: l2) -> x1 < k < x2 -> forall v, ~ In (k, v) (l1 ++ (x1, y1) :: (x2, y2) :: l2).
Proof.
  revert k. induction l1 as [|[a b] l1 IH]; intros k Hs Hk v Hin.
  - cbn [app] in *. destruct Hin as [E|[E|Hin]]; try (injection E as E1 E2; lra).
    pose proof (increasing_head _ _ (increasing_tail _ _ Hs)) as F. rewrite Forall_forall in F.
    specialize (F (k, v) Hin). unfold klt in F; cbn in F. lra.
  - cbn [app] in *. destruct Hin as [E|Hin].
    + injection E as -> ->. pose proof (increasing_head _ _ Hs) as F. rewrite Forall_forall in F.
      assert (In (x1, y1) (l1 ++ (x1, y1) :: (x2, y2) :: l2)) by (apply in_or_app; right; left; reflexivity).
      specialize (F _ H). unfold klt in F; cbn in F. lra.
    + exact (IH k (increasing_tail _ _ Hs) Hk v Hin).
Qed.

(* bisect: position of the first key above k *)
Lemma bisect_between : forall l1 x1 y1 x2 y2 l2 k,
  increasing (l1 ++ (x1, y1) :: (x2, y2) :: l2) -> x1 < k < x2 ->
  bisect RN (l1 ++ (x1, y1) :: (x2, y2) :: l2) k = S (length l1).
Proof.
  induction l1 as [|[a b] l1 IH]; intros x1 y1 x2 y2 l2 k Hs Hk.
  - cbn [app bisect length]. toR. rewrite (Rltb_f k x1) by lra. rewrite (Rltb_t k x2) by lra. reflexivity.
  - cbn [app bisect length]. toR.
    assert (a < x1).
    { pose proof (increasing_head _ _ Hs) as F. rewrite Forall_forall in F.
      assert (In (x1, y1) (l1 ++ (x1, y1) :: (x2, y2) :: l2)) by (apply in_or_app; right; left; reflexivity).
      apply (F _ H). }
    rewrite (Rltb_f k a) by lra. f_equal. apply IH; [eapply increasing_tail; eassumption|exact Hk].
Qed.

Lemma bisect_above : forall (tbl : list (R * R)) k, Forall (fun p => fst p < k) tbl -> bisect RN tbl k = length tbl.
Proof.
  induction tbl as [|[x y] tbl IH]; intros k F; [reflexivity|].
  inversion F as [|p l Hx Hr]; subst. cbn [bisect length fst] in *. toR. rewrite (Rltb_f k x) by lra.
  f_equal. apply IH; assumption.
Qed.

Lemma bisect_below x y tbl k : k < x -> bisect RN ((x, y) :: tbl) k = 0%nat.
Proof. intro H. cbn [bisect]. toR. rewrite (Rltb_t k x) by lra. reflexivity. Qed.

Lemma nth_error_middle {A} (l1 : list A) a b l2 :
  nth_error (l1 ++ a :: b :: l2) (length l1) = Some a /\ nth_error (l1 ++ a :: b :: l2) (S (length l1)) = Some b.
Proof. induction l1 as [|c l1 IH]; cbn; [split; reflexivity|exact IH]. Qed.

(* ---- the four clauses ---- *)
Lemma lookup_hit tbl xlo xhi tol k v :
  increasing tbl -> In (k, v) tbl -> lookup RN tbl xlo xhi tol k = Some v.
Proof. intros Hs Hin. unfold lookup. rewrite (find_exact_hit _ _ _ Hs Hin). reflexivity. Qed.

Lemma lookup_interior l1 x1 y1 x2 y2 l2 xlo xhi tol k :
  increasing (l1 ++ (x1, y1) :: (x2, y2) :: l2) -> x1 < k < x2 ->
  lookup RN (l1 ++ (x1, y1) :: (x2, y2) :: l2) xlo xhi tol k = Some (line x1 y1 x2 y2 k).
Proof.
  intros Hs Hk. unfold lookup.
  rewrite (find_exact_miss _ _ (not_in_if_between _ _ _ _ _ _ _ Hs Hk)).
  rewrite (bisect_between _ _ _ _ _ _ _ Hs Hk). cbv zeta.
  rewrite app_length. cbn [length].
  replace (Nat.eqb (S (length l1)) 0) with false by reflexivity.
  replace (Nat.eqb (S (length l1)) (length l1 + S (S (length l2)))) with false
    by (symmetry; apply Nat.eqb_neq; lia).
  cbn [negb andb]. unfold seg. replace (S (length l1) - 1)%nat with (length l1) by lia.
  destruct (nth_error_middle l1 (x1, y1) (x2, y2) l2) as [E1 E2]. rewrite E1, E2. reflexivity.
Qed.

Lemma all_below_last : forall l1 x1 y1 x2 y2 k,
  increasing (l1 ++ [(x1, y1); (x2, y2)]) -> x2 < k -> Forall (fun p => fst p < k) (l1 ++ [(x1, y1); (x2, y2)]).
Proof.
  induction l1 as [|[a b] l1 IH]; intros x1 y1 x2 y2 k Hs Hk.
  - cbn [app] in *. pose proof (increasing_head _ _ Hs) as F. inversion F as [|p l H1 _]; subst. unfold klt in H1; cbn in H1.
    repeat constructor; cbn; lra.
  - cbn [app] in *. constructor.
    + cbn. pose proof (increasing_head _ _ Hs) as F. rewrite Forall_forall in F.
      assert (In (x2, y2) (l1 ++ [(x1, y1); (x2, y2)])) by (apply in_or_app; right; right; left; reflexivity).
      specialize (F _ H). unfold klt in F; cbn in F. lra.
    + apply IH; [eapply increasing_tail; eassumption|exact Hk].
Qed.

Lemma not_in_above (tbl : list (R * R)) k : Forall (fun p => fst p < k) tbl -> forall v : R, ~ In (k, v) tbl.
Proof. intros F v Hin. rewrite Forall_forall in F. specialize (F _ Hin). cbn in F. lra. Qed.

Lemma lookup_high l1 x1 y1 x2 y2 xlo xhi tol k :
  increasing (l1 ++ [(x1, y1); (x2, y2)]) -> x2 < k ->
  lookup RN (l1 ++ [(x1, y1); (x2, y2)]) xlo xhi tol k =
  if orb xhi (Rleb k (x2 * (1 + tol))) then Some (line x1 y1 x2 y2 k) else None.
Proof.
  intros Hs Hk. unfold lookup.
  pose proof (all_below_last _ _ _ _ _ _ Hs Hk) as F.
  rewrite (find_exact_miss _ _ (not_in_above _ _ F)). rewrite (bisect_above _ _ F). cbv zeta.
  rewrite app_length. cbn [length].
  replace (Nat.eqb (length l1 + 2) 0) with false by (symmetry; apply Nat.eqb_neq; lia).
  cbn [negb andb]. rewrite Nat.eqb_refl.
  replace (length l1 + 2 - 1)%nat with (S (length l1)) by lia.
  replace (length l1 + 2 - 2)%nat with (length l1) by lia.
  destruct (nth_error_middle l1 (x1, y1) (x2, y2) []) as [E1 E2]. rewrite E2. toR.
  destruct (orb xhi (Rleb k (x2 * (1 + tol)))); [|reflexivity].
  unfold seg. rewrite E1, E2. reflexivity.
Qed.

Lemma lookup_low x1 y1 x2 y2 l2 xlo xhi tol k :
  increasing ((x1, y1) :: (x2, y2) :: l2) -> k < x1 ->
  lookup RN ((x1, y1) :: (x2, y2) :: l2) xlo xhi tol k =
  if orb xlo (Rleb (x1 * (1 - tol)) k) then Some (line x1 y1 x2 y2 k) else None.
Proof.
  intros Hs Hk. unfold lookup.
  assert (Hn : forall v, ~ In (k, v) ((x1, y1) :: (x2, y2) :: l2)).
  { intros v [E|Hin]; [injection E as E1 E2; lra|].
    pose proof (increasing_head _ _ Hs) as F. rewrite Forall_forall in F. specialize (F _ Hin). unfold klt in F; cbn in F. lra. }
  rewrite (find_exact_miss _ _ Hn). rewrite (bisect_below _ _ _ _ Hk). cbv zeta.
  cbn [length Nat.eqb negb andb nth_error]. toR.
  destruct (orb xlo (Rleb (x1 * (1 - tol)) k)); reflexivity.
Qed.

(* inside a segment the value lies between the two ordinates *)
Lemma line_between x1 y1 x2 y2 k : x1 < x2 -> x1 <= k <= x2 ->
  Rmin y1 y2 <= line x1 y1 x2 y2 k <= Rmax y1 y2.
Proof.
  intros Hx Hk. unfold line.
  assert (E : (y2 - y1) / (x2 - x1) * (k - x1) + y1 = y1 + (y2 - y1) * ((k - x1) / (x2 - x1))) by (field; lra).
  rewrite E. set (t := (k - x1) / (x2 - x1)).
  assert (0 <= t <= 1).
  { unfold t. split.
    - apply Rmult_le_pos; [lra|left; apply Rinv_0_lt_compat; lra].
    - apply (Rmult_le_reg_r (x2 - x1)); [lra|]. unfold Rdiv. rewrite Rmult_assoc, Rinv_l by lra. lra. }
  unfold Rmin, Rmax. destruct (Rle_dec y1 y2); nra.
Qed.

(* the tolerance clause read as "within 0.1 %" for a positive end key *)
Lemma tolerance_high x2 k : 0 < x2 -> (k <= x2 * (1 + 1 / 1000) <-> (k - x2) / x2 <= 1 / 1000).
Proof.
  intro H. split; intro A.
  - apply (Rmult_le_reg_r x2); [lra|]. unfold Rdiv at 1. rewrite Rmult_assoc, Rinv_l by lra. lra.
  - assert (B : (k - x2) / x2 * x2 <= 1 / 1000 * x2) by (apply Rmult_le_compat_r; lra).
    unfold Rdiv at 1 in B. rewrite Rmult_assoc, Rinv_l in B by lra. lra.
Qed.
Lemma tolerance_low x1 k : 0 < x1 -> (x1 * (1 - 1 / 1000) <= k <-> (x1 - k) / x1 <= 1 / 1000).
Proof.
  intro H. split; intro A.
  - apply (Rmult_le_reg_r x1); [lra|]. unfold Rdiv at 1. rewrite Rmult_assoc, Rinv_l by lra. lra.
  - assert (B : (x1 - k) / x1 * x1 <= 1 / 1000 * x1) by (apply Rmult_le_compat_r; lra).
    unfold Rdiv at 1 in B. rewrite Rmult_assoc, Rinv_l in B by lra. lra.
Qed.

(* item assignment is refused and leaves the table alone *)
Lemma setitem_refused (tbl : list (R * R)) k v : setitem tbl k v = (tbl, Some E_KeyError).
Proof. reflexivity. Qed.

Lemma example_premises : increasing ([] ++ (1, 10) :: (2, 30) :: [(4, 20)]) /\ 1 < 3 / 2 < 2.
Proof.
  split; [|lra]. cbn [app]. unfold increasing.
  repeat (apply SSorted_cons; [|repeat (apply Forall_cons; [unfold klt; cbn [fst]; lra|]); apply Forall_nil]). apply SSorted_nil.
Qed.
