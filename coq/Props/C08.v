(* C08 -- computational functions depend only on their arguments and the two documented switches.
   Statements only; proofs in Lemmas/LC08.v.  Gen/Deps.v is regenerated from the lru_cache decorators and the
   call graph of the Python source on every run. *)
From Coq Require Import List Bool String.
From DHV Require Import Memo LC08.
From DHV Require Deps.
Import ListNotations.

(* generic: a cached function whose result does not depend on the environment (reads no mutable global) is
   indistinguishable from the uncached function for EVERY history of calls, switch assignments and evictions
   (maxsize, cache_clear), as long as no caller can mutate a stored result *)
Theorem C08_memo_transparent : forall (K V E : Type) (K_eqb : K -> K -> bool) (F : K -> E -> V),
  (forall a b, K_eqb a b = true -> a = b) -> (forall k e e', F k e = F k e') ->
  forall (evs : list (event K V E)) (c : cache K V) (e : E),
    good K V E F c -> no_mutation K V E evs ->
    run K V E K_eqb F (c, e) evs = spec K V E F e evs.
Proof. exact LC08.transparent. Qed.
Print Assumptions C08_memo_transparent.

(* instance: in the current source no cached function reads a mutable module global (directly or through the
   functions it calls) and none returns a dict, so the premises above are met by every cache *)
Theorem C08_table_ok : memo_ok Deps.table = true.
Proof. exact LC08.table_ok. Qed.
Print Assumptions C08_table_ok.

Theorem C08_cached_entries : forall x, In x Deps.table -> e_cached x = true -> e_globals x = [] /\ e_returns_mutable x = false.
Proof. intros x. exact (LC08.memo_ok_entry Deps.table x LC08.table_ok). Qed.
Print Assumptions C08_cached_entries.

(* the only mutable module state any modelled function reads is the two documented switches *)
Theorem C08_only_switches : forallb only_switches Deps.table = true.
Proof. exact LC08.globals_are_switches. Qed.
Print Assumptions C08_only_switches.

(* the boundary, stated as theorems: a cache over an environment-reading function goes stale after a toggle;
   a cached mutable result is corrupted by a caller's in-place edit *)
Theorem C08_boundary_toggle :
  run unit bool bool (fun _ _ => true) (fun _ e => e) ([], true) [Call unit bool bool tt; SetEnv unit bool bool false; Call unit bool bool tt]
  <> spec unit bool bool (fun _ e => e) true [Call unit bool bool tt; SetEnv unit bool bool false; Call unit bool bool tt].
Proof. exact LC08.stale_after_toggle. Qed.
Print Assumptions C08_boundary_toggle.
Theorem C08_boundary_mutation :
  run unit bool unit (fun _ _ => true) (fun _ _ => true) ([], tt) [Call unit bool unit tt; Mutate unit bool unit 0 false; Call unit bool unit tt]
  <> spec unit bool unit (fun _ _ => true) tt [Call unit bool unit tt; Mutate unit bool unit 0 false; Call unit bool unit tt].
Proof. exact LC08.corrupted_after_mutation. Qed.
Print Assumptions C08_boundary_mutation.
