(* C09 (second half) and C14 (side effects): after the pipeline-level concentration or slurry is replaced every
   section uses the current slurry at its own diameter; hydraulic_gradient leaves the pipeline alone whenever the
   pipeline slurry's Dp is one of the section diameters, which update_slurries itself establishes. *)
From Coq Require Import Reals List Bool Lra.
From DHV Require Import NumOps RInst Interp Fracs Graded SlurryCalc SlurryState Pipeline PipelineSlurry LCommon LC07.
Import ListNotations.
Local Open Scope R_scope.

Section S.
Variables sf sq : bool.
Notation st := (state (T:=R)).
Notation sec := (section (T:=R)).

Definition diameters (l : list sec) : list R :=
  flat_map (fun s => match s with Pipe d _ _ _ => [d] | PumpRef _ => [] end) l.

Lemma Reqb_refl' x : Reqb x x = true.
Proof. unfold Reqb. destruct (Req_EM_T x x); [reflexivity|contradiction]. Qed.

Lemma lookup_app m1 m2 d : lookup_d RN (m1 ++ m2) d =
  match lookup_d RN m1 d with Some s => Some s | None => lookup_d RN m2 d end.
Proof.
  induction m1 as [|[d' s] m1 IH]; cbn [app lookup_d]; [reflexivity|].
  destruct (neqb RN d' d); [reflexivity|exact IH].
Qed.

(* entries present before the scan are kept; a diameter met by the scan gets the copy with Dp assigned *)
Lemma build_lookup sl : forall l acc d,
  lookup_d RN (build RN sf sq sl l acc) d =
  match lookup_d RN acc d with
  | Some s => Some s
  | None => if existsb (fun d' => Reqb d' d) (diameters l) then Some (set_dp RN sf sq sl d) else None
  end.
Proof.
  induction l as [|[d0 L K z|p] l IH]; intros acc d; cbn [build diameters flat_map existsb app].
  - destruct (lookup_d RN acc d); reflexivity.
  - unfold mem_d. destruct (lookup_d RN acc d0) as [s0|] eqn:E0.
    + rewrite IH. destruct (lookup_d RN acc d) as [s|] eqn:Ed; [reflexivity|].
      destruct (Reqb d0 d) eqn:B; [|reflexivity].
      apply Reqb_true in B. subst. rewrite E0 in Ed. discriminate Ed.
    + rewrite IH, lookup_app. cbn [lookup_d]. toR.
      destruct (lookup_d RN acc d) as [s|] eqn:Ed; [reflexivity|].
      destruct (Reqb d0 d) eqn:B; [apply Reqb_true in B; subst; reflexivity|reflexivity].
  - apply IH.
Qed.

(* C09: after update_slurries every pipe diameter has the pipeline slurry with Dp := that diameter *)
Lemma update_covers (p : pl (T:=R)) d : In d (diameters (secs p)) ->
  lookup_d RN (slurries (update_slurries RN sf sq p)) d = Some (set_dp RN sf sq (slurry p) d).
Proof.
  intro Hin. unfold update_slurries. cbn [slurries]. rewrite build_lookup. cbn [lookup_d].
  assert (E : existsb (fun d' => Reqb d' d) (diameters (secs p)) = true).
  { apply existsb_exists. exists d. split; [exact Hin|apply Reqb_refl']. }
  rewrite E. reflexivity.
Qed.

(* ... and that copy serves the gradients of a freshly built slurry with the current parameters and that
   diameter (C07 applied to the copy) *)
Lemma section_gradients (p : pl (T:=R)) (a : astate) d v :
  Inv sf sq (slurry p) a -> valid a -> valid (astep a (SetDp d)) -> In d (diameters (secs p)) ->
  let a' := astep a (SetDp d) in
  let p' := update_slurries RN sf sq p in
  il_d RN sf sq p' d v = SlurryCalc.il RN (a_p a') v /\
  im_d RN sf sq p' d v = SlurryCalc.im RN sf sq (a_p a') (spec_gsd a') v.
Proof.
  intros HI HV HV' Hin. cbv zeta. unfold il_d, im_d. rewrite (update_covers p d Hin).
  destruct (step_refines sf sq (slurry p) a (SetDp d) HI HV HV') as [_ I1].
  assert (HV2 : valid (astep (astep a (SetDp d)) (ReadPoint v))) by exact HV'.
  destruct (step_refines sf sq _ _ (ReadPoint v) I1 HV' HV2) as [O _].
  unfold point_of, set_dp. rewrite O. cbn [aout astep fst snd]. split; reflexivity.
Qed.

(* the pipeline slurry's own Dp is one of the diameters afterwards (pipelines ending with a pipe section) *)
Definition Dp_in_pipeline (p : pl (T:=R)) : Prop :=
  existsb (fun d' => Reqb d' (p_Dp (sp (slurry p)))) (diameters (secs p)) = true.

Lemma last_diameter_in (l : list sec) d : last_diameter l = Some d -> In d (diameters l).
Proof.
  unfold last_diameter. intro H. destruct (rev l) as [|[d0 L K z|q] r] eqn:E; try discriminate H.
  injection H as <-. assert (In (Pipe d0 L K z) l) by (apply in_rev; rewrite E; left; reflexivity).
  unfold diameters. apply in_flat_map. exists (Pipe d0 L K z). split; [assumption|left; reflexivity].
Qed.

Lemma update_establishes (p : pl (T:=R)) d : last_diameter (secs p) = Some d -> Dp_in_pipeline (update_slurries RN sf sq p).
Proof.
  intro HL. unfold Dp_in_pipeline, update_slurries, fix_dp. cbn [slurry secs].
  unfold mem_d. rewrite build_lookup. cbn [lookup_d].
  destruct (existsb (fun d' => Reqb d' (p_Dp (sp (slurry p)))) (diameters (secs p))) eqn:E; [exact E|].
  rewrite HL. unfold set_dp. cbn [SlurryState.step fst sp with_p mark set_Dp p_Dp].
  apply existsb_exists. exists d. split; [apply last_diameter_in; exact HL|apply Reqb_refl'].
Qed.

(* C14: under that invariant hydraulic_gradient changes nothing *)
Lemma hg_no_side_effect (p : pl (T:=R)) : Dp_in_pipeline p -> after_hydraulic_gradient RN sf sq p = p.
Proof.
  intro H. unfold after_hydraulic_gradient, fix_dp, mem_d. rewrite build_lookup. cbn [lookup_d].
  unfold Dp_in_pipeline in H. rewrite H. destruct p; reflexivity.
Qed.

(* without it the temporary pipeline's constructor DOES reassign the shared slurry's Dp: the boundary *)
Lemma hg_side_effect_without (p : pl (T:=R)) d : ~ Dp_in_pipeline p -> last_diameter (secs p) = Some d ->
  slurry (after_hydraulic_gradient RN sf sq p) = set_dp RN sf sq (slurry p) d.
Proof.
  intros H HL. unfold after_hydraulic_gradient, fix_dp, mem_d. cbn [slurry]. rewrite build_lookup. cbn [lookup_d].
  unfold Dp_in_pipeline in H. destruct (existsb _ _); [exfalso; apply H; reflexivity|]. rewrite HL. reflexivity.
Qed.
End S.
