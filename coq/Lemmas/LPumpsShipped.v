(* the QP curves of the shipped example pumps (regenerated from DHLLDV_viewer/ExamplePumps.py into Gen/ExamplePumps.v on
   every run) have the benign shape of LPumpShape: by computation on the generated rationals *)
From Coq Require Import Reals Lra List.
From DHV Require Import NumOps RInst ExamplePumps LPumpShape.
Import ListNotations.
Local Open Scope R_scope.

Ltac shape := cbn [segs_ok]; toR; repeat split; lra.

Lemma Ladder_Pump_QP_ok : segs_ok (Ladder_Pump_QP RN).
Proof. unfold Ladder_Pump_QP. shape. Qed.
Lemma Main_Pump_QP_ok : segs_ok (Main_Pump_QP RN).
Proof. unfold Main_Pump_QP. shape. Qed.
(* Ladder_Pump600 and Main_Pump500 do NOT have the shape: their tabulated power falls from the shut-off point to the first
   positive flow (149.14 -> 65.27 kW, 596.56 -> 312.83 kW), with an elasticity below -1 there; for them the premise of
   C11_power_limited_not_above_set holds only for design-curve flows beyond the first table interval and the clause is
   searched *)
Example Ladder_Pump600_QP_not_rising : ~ segs_ok (Ladder_Pump600_QP RN).
Proof. unfold Ladder_Pump600_QP. cbn [segs_ok]. toR. intros (_ & _ & _ & H & _). lra. Qed.
Example Main_Pump500_QP_not_rising : ~ segs_ok (Main_Pump500_QP RN).
Proof. unfold Main_Pump500_QP. cbn [segs_ok]. toR. intros (_ & _ & _ & H & _). lra. Qed.

(* every shipped curve starts at flow 0 and has at least two points *)
Theorem shipped_QP_start : Forall (fun t => exists x0 y0 tl, t = (x0, y0) :: tl /\ x0 <= 0 /\ tl <> []) (shipped_QP RN).
Proof.
  unfold shipped_QP, Ladder_Pump_QP, Main_Pump_QP, Ladder_Pump600_QP, Main_Pump500_QP.
  repeat constructor; (eexists; eexists; eexists; split; [reflexivity|split; [toR; lra|discriminate]]).
Qed.

From DHV Require Import Pump.
(* any pump object that carries the QP curve of the shipped ladder pump or main pump -- whatever its speed setting,
   trim, nameplate power, density and the requested flow -- is never driven above its set speed by the power-limited
   search *)
Theorem shipped_power_limited_not_above (p : pump (T:=R)) (Q : R) (w : bool) (fuel : nat) (r : R) :
  QP p = Ladder_Pump_QP RN \/ QP p = Main_Pump_QP RN ->
  0 < design_speed p -> 0 < design_impeller p -> 0 < current_impeller p -> 0 < rho p w -> 0 < Q ->
  0 < current_speed p -> 0 < avail_power p ->
  find_power_limited_speed RN fuel p Q w = Some r -> 0 <= r <= current_speed p.
Proof.
  intros [E|E] H1 H2 H3 H4 H5 H6 H7 H.
  - assert (S : segs_ok (QP p)) by (rewrite E; exact Ladder_Pump_QP_ok).
    unfold Ladder_Pump_QP in E.
    pose proof (power_limited_not_above_shape p Q w _ _ _ E) as K. refine (K _ _ S H1 H2 H3 H4 H5 fuel r H6 H7 H); first [discriminate|toR; lra].
  - assert (S : segs_ok (QP p)) by (rewrite E; exact Main_Pump_QP_ok).
    unfold Main_Pump_QP in E.
    pose proof (power_limited_not_above_shape p Q w _ _ _ E) as K. refine (K _ _ S H1 H2 H3 H4 H5 fuel r H6 H7 H); first [discriminate|toR; lra].
Qed.
