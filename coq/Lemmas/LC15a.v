(* Proofs for C15 (file-name clause): whatever the pipeline name or the requested file name contain, the stored
   base name consists of whitelisted characters followed by ".xlsx". *)
From Coq Require Import ZArith List Bool Lia.
From DHV Require Import FileChars FileName.
Import ListNotations.
Local Open Scope Z_scope.

(* the whitelist is exactly letters, digits, '-' and '_' *)
Definition is_safe (c : Z) : bool :=
  ((65 <=? c) && (c <=? 90)) || ((97 <=? c) && (c <=? 122)) || ((48 <=? c) && (c <=? 57)) || (c =? 45) || (c =? 95).

Lemma whitelist_is_safe : forallb is_safe valid_filename_chars = true.
Proof. vm_compute. reflexivity. Qed.

Lemma whitelist_complete : forall c, is_safe c = true -> mem c valid_filename_chars = true.
Proof.
  intros c H. unfold is_safe in H.
  assert (R : (45 <= c <= 122)) by lia.
  (* finite check over the 78 candidates *)
  assert (G : forallb (fun k => implb (is_safe k) (mem k valid_filename_chars)) (map Z.of_nat (seq 45 78)) = true) by (vm_compute; reflexivity).
  rewrite forallb_forall in G. specialize (G c).
  assert (I : In c (map Z.of_nat (seq 45 78))).
  { apply in_map_iff. exists (Z.to_nat c). split; [lia|]. apply in_seq. lia. }
  specialize (G I). unfold is_safe. destruct (mem c valid_filename_chars); [reflexivity|].
  unfold is_safe in G. rewrite H in G. discriminate G.
Qed.

Lemma mem_safe c : mem c valid_filename_chars = true -> is_safe c = true.
Proof.
  intro H. unfold mem in H. apply existsb_exists in H. destruct H as (x & Hx & E). apply Z.eqb_eq in E. subst x.
  pose proof whitelist_is_safe as W. rewrite forallb_forall in W. exact (W c Hx).
Qed.

(* every character of the cleaned stem is safe *)
Lemma clean_stem_safe s : Forall (fun c => is_safe c = true) (filter (fun c => mem c valid_filename_chars) (replace_all s)).
Proof. apply Forall_forall. intros c H. apply filter_In in H. apply mem_safe. apply H. Qed.

Lemma clean_shape s ext : clean s ext = filter (fun c => mem c valid_filename_chars) (replace_all s) ++ ext.
Proof. reflexivity. Qed.

(* the result is <safe characters> ++ ".xlsx", for every request *)
Lemma stored_shape fname pl ts : exists stem, stored_basename fname pl ts = stem ++ extension /\ Forall (fun c => is_safe c = true) stem.
Proof.
  unfold stored_basename. destruct fname as [f|].
  - destruct (ends_with extension f); eexists; (split; [apply clean_shape|apply clean_stem_safe]).
  - eexists. split; [apply clean_shape|apply clean_stem_safe].
Qed.

(* safe characters are not path separators, not dots, not drive colons, not NUL *)
Lemma safe_not_separator c : is_safe c = true -> c <> 47 /\ c <> 92 /\ c <> 46 /\ c <> 58 /\ c <> 0.
Proof. unfold is_safe. intro H. repeat split; intro E; subst c; discriminate H. Qed.

(* the stored name contains no path separator anywhere (so joining it to the folder yields a direct child) *)
Lemma stored_no_separator fname pl ts : Forall (fun c => c <> 47 /\ c <> 92) (stored_basename fname pl ts).
Proof.
  destruct (stored_shape fname pl ts) as (stem & E & S). rewrite E. apply Forall_app. split.
  - eapply Forall_impl; [|exact S]. intros c H. destruct (safe_not_separator c H) as (A & B & _). split; assumption.
  - unfold extension. repeat constructor; lia.
Qed.

Lemma skipn_len_app {A} (f e : list A) : skipn (length f) (f ++ e) = e.
Proof. induction f as [|x f IH]; [reflexivity|exact IH]. Qed.
Lemma firstn_len_app {A} (f e : list A) : firstn (length f) (f ++ e) = f.
Proof. induction f as [|x f IH]; [destruct e; reflexivity|cbn; rewrite IH; reflexivity]. Qed.

(* a trailing ".xlsx" in the request is not doubled *)
Lemma ends_with_app f : ends_with extension (f ++ extension) = true.
Proof.
  unfold ends_with. rewrite app_length.
  assert (L : length extension = 5%nat) by reflexivity. rewrite L.
  replace (Nat.ltb (length f + 5) 5) with false by (symmetry; apply Nat.ltb_ge; lia).
  replace (length f + 5 - 5)%nat with (length f) by lia.
  rewrite skipn_len_app.
  destruct (list_eq_dec Z.eq_dec extension extension); [reflexivity|contradiction].
Qed.

Lemma extension_not_doubled f pl ts :
  stored_basename (Some (f ++ extension)) pl ts = stored_basename (Some f) pl ts \/ ends_with extension f = true.
Proof.
  destruct (ends_with extension f) eqn:E; [right; reflexivity|left].
  unfold stored_basename. rewrite ends_with_app, E, app_length.
  assert (L : length extension = 5%nat) by reflexivity. rewrite L.
  replace (length f + 5 - 5)%nat with (length f) by lia. rewrite firstn_len_app. reflexivity.
Qed.

(* ---- the grading survives the workbook: the slurry sheet stores D15/D50/D85 (read with get_dx) and the loader
   regenerates the grading from D50 and the two ratios of the stored values ---- *)
From Coq Require Import Reals Lra.
From DHV Require Import NumOps RInst Interp Fracs SlurryCalc LC07 LC07b LC12e.
Local Open Scope R_scope.

Lemma grading_roundtrip (a : astate) : phys a ->
  let g := spec_gsd a in
  let p := a_p a in
  let d15 := get_dx RN g (15 / 100) * 1000 in
  let d50 := get_dx RN g (5 / 10) * 1000 in
  let d85 := get_dx RN g (85 / 100) * 1000 in
  (* what load_slurry_from_workbook computes from the three stored cells *)
  d50 / 1000 = p_D50 p /\ d50 / d15 = a_r15 a /\ d85 / d50 = a_r85 a /\
  generate_GSD RN [] (d50 / 1000) (p_Dp p) (p_nu p) (p_rhol p) (p_rhos p) (Some (d50 / d15)) (Some (d85 / d50)) = g.
Proof.
  intros (H15 & H85 & Hl). cbv zeta.
  set (D50 := p_D50 (a_p a)) in *. set (r15 := a_r15 a) in *. set (r85 := a_r85 a) in *.
  assert (Hd : 0 < D50 / r15 < D50 /\ D50 < D50 * r85).
  { assert (0 < D50) by lra. assert (0 < / r15 < 1).
    { split; [apply Rinv_0_lt_compat; lra|]. rewrite <- Rinv_1. apply Rinv_lt_contravar; lra. }
    unfold Rdiv. split; [split|]; nra. }
  unfold dlim_of in Hl.
  assert (G : spec_gsd a = create_fracs RN [(15 / 100, D50 / r15); (50 / 100, D50); (85 / 100, D50 * r85)]
                             (p_Dp (a_p a)) (p_nu (a_p a)) (p_rhol (a_p a)) (p_rhos (a_p a)) 10).
  { unfold spec_gsd, generate_GSD. cbv zeta. fold D50 r15 r85. rewrite (LCommon.truthy_R r15) by lra. rewrite (LCommon.truthy_R r85) by lra.
    toR. reflexivity. }
  rewrite G.
  rewrite (get_dx_15 (D50 / r15) D50 (D50 * r85) _ _ _ _ Hd Hl).
  rewrite (get_dx_50 (D50 / r15) D50 (D50 * r85) _ _ _ _ Hd Hl).
  rewrite (get_dx_85 (D50 / r15) D50 (D50 * r85) _ _ _ _ Hd Hl).
  assert (E1 : D50 * 1000 / 1000 = D50) by (field).
  assert (E2 : D50 * 1000 / (D50 / r15 * 1000) = r15) by (field; lra).
  assert (E3 : D50 * r85 * 1000 / (D50 * 1000) = r85) by (field; lra).
  rewrite E1, E2, E3. repeat split; try reflexivity.
  unfold generate_GSD. rewrite (LCommon.truthy_R r15) by lra. rewrite (LCommon.truthy_R r85) by lra. toR. reflexivity.
Qed.
