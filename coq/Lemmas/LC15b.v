(* C15, whole-workbook round trip: load (store p) = Ok p for every well-formed abstract pipeline -- for ANY numeric
   instance (nothing here depends on real-number arithmetic: the cells are carried, not computed with).
   store = Models/ExcelStore.v (layout written by store_to_excel), load = Models/Excel.v (validate_excel + loaders). *)
From Coq Require Import ZArith List Bool String Ascii Arith Lia.
From DHV Require Import NumOps Excel ExcelStore.
Import ListNotations.
Local Open Scope string_scope.

Section RoundTrip.
Context {T : Type} (N : NumOps T).
Variables ptitle dtitle key : nat -> string.
Variable kmax : nat.

Definition hasT (w t : string) : bool := containsb w (lower t).

(* what the round trip needs from the tab names of pumps 1 .. kmax *)
Hypothesis HP : forall k, (1 <= k <= kmax)%nat ->
  hasT "pipeline" (ptitle k) = false /\ hasT "slurry" (ptitle k) = false /\ hasT "pump" (ptitle k) = true /\ hasT "driver" (ptitle k) = false.
Hypothesis HDt : forall k, (1 <= k <= kmax)%nat ->
  hasT "pipeline" (dtitle k) = false /\ hasT "slurry" (dtitle k) = false /\ hasT "pump" (dtitle k) = false /\ hasT "driver" (dtitle k) = true.
Hypothesis HKp : forall k, (1 <= k <= kmax)%nat -> remove_suffix "pump" (lower (ptitle k)) = key k.
Hypothesis HKd : forall k, (1 <= k <= kmax)%nat -> remove_suffix "driver" (lower (dtitle k)) = key k.
Hypothesis Hinj : forall i j, (1 <= i <= kmax)%nat -> (1 <= j <= kmax)%nat -> key i = key j -> i = j.

Notation cellT := (cell (T:=T)).
Notation sheetT := (sheet (T:=T)).
Notation Store := (store N ptitle dtitle).

(* ---------- well-formed pipelines (what the documented workbook format can express) ---------- *)
Definition nonzero_row (r : T * T * T) : Prop := neqb N (nsum N [fst (fst r); snd (fst r); snd r]) (nint N 0%Z) = false.
Definition wf_pump (p : apump (T:=T)) : Prop :=
  pu_curve p <> [] /\ Forall nonzero_row (pu_curve p) /\
  match pu_driver p with Some d => pu_limited p = "curve" /\ snd d <> [] | None => True end.
Definition wf_sec (s : asec (T:=T)) : Prop :=
  match s with APipe p => containsb "pump" (lower (pp_name p)) = false | APump p => wf_pump p end.
Definition wf_slurry (s : aslurry (T:=T)) : Prop :=
  neqb N (sl_d15 s) (nint N 0%Z) = false /\ neqb N (sl_d50 s) (nint N 0%Z) = false.
Fixpoint npumps (secs : list (asec (T:=T))) : nat :=
  match secs with [] => 0 | APump _ :: r => S (npumps r) | _ :: r => npumps r end.
Definition wf (p : apipeline (T:=T)) : Prop :=
  Forall wf_sec (pl_secs p) /\ wf_slurry (pl_slurry p) /\ (npumps (pl_secs p) <= kmax)%nat.

(* ---------- the curve tables read back ---------- *)
Lemma pump_rows_back (cv : list (T * T * T)) : Forall nonzero_row cv ->
  pump_rows N (map (fun r => [CNum (fst (fst r)); CNum (snd (fst r)); CNum (snd r)]) cv) 0 1 2 = ROk cv.
Proof.
  induction cv as [|[[q h] pw] r IH]; intro F; [reflexivity|].
  inversion F as [|? ? Hn Hr]; subst. cbn [map pump_rows nth_cell nth to_float bind fst snd].
  rewrite (IH Hr). cbn [bind]. unfold nonzero_row in Hn. cbn [fst snd] in Hn. rewrite Hn. reflexivity.
Qed.

Lemma driver_rows_back (dv : list (T * T)) :
  driver_rows (map (fun sp => [CNum (fst sp); CNum (snd sp)]) dv) 0 1 = ROk dv.
Proof.
  induction dv as [|[a b] r IH]; [reflexivity|].
  cbn [map driver_rows nth_cell nth to_float bind fst snd]. rewrite IH. reflexivity.
Qed.

(* assoc on literal keys, with the table contents left alone *)
Ltac fld := cbv beta iota zeta delta [fstr fnum get_range_value table_rows s_names s_title assoc String.eqb Ascii.eqb Bool.eqb bind
                                       to_float to_str fst snd driver_sheet slurry_sheet num str].

Lemma hdr_driver : header_of (driver_header (T:=T)) = ROk ["speed hz"; "power kw"].
Proof. vm_compute. reflexivity. Qed.
Lemma hdr_pump : header_of (pump_header (T:=T)) = ROk ["flow m3/sec"; "head m"; "power kw"].
Proof. vm_compute. reflexivity. Qed.
Lemma hdr_pipe : header_of (pipe_header (T:=T)) =
  ROk ["pipe name"; "diameter (m)"; "length (m)"; "total k (-)"; "elev change (m)"; "final elev (m)"].
Proof. vm_compute. reflexivity. Qed.
Lemma cols_driver : find_col ["speed"] ["speed hz"; "power kw"] 0 = ROk 0%nat /\ find_col ["power"] ["speed hz"; "power kw"] 0 = ROk 1%nat.
Proof. split; vm_compute; reflexivity. Qed.
Lemma cols_pump : let h := ["flow m3/sec"; "head m"; "power kw"] in
  find_col ["flow"] h 0 = ROk 0%nat /\ find_col ["head"] h 0 = ROk 1%nat /\ find_col ["power"] h 0 = ROk 2%nat.
Proof. repeat split; vm_compute; reflexivity. Qed.
Lemma cols_pipe : let h := ["pipe name"; "diameter (m)"; "length (m)"; "total k (-)"; "elev change (m)"; "final elev (m)"] in
  find_col ["name"] h 0 = ROk 0%nat /\ find_col ["dia"] h 0 = ROk 1%nat /\ find_col ["length"] h 0 = ROk 2%nat /\
  find_col ["total"; "k"] h 0 = ROk 3%nat /\ find_col ["elev"; "change"] h 0 = ROk 4%nat.
Proof. repeat split; vm_compute; reflexivity. Qed.

Lemma load_driver_back k (d : string * list (T * T)) : snd d <> [] -> load_driver (driver_sheet dtitle k d) = ROk d.
Proof.
  intro Hne. destruct d as [nm dv]. cbn [snd] in Hne.
  unfold load_driver. fld. rewrite hdr_driver. cbv beta iota delta [bind]. destruct cols_driver as (C1 & C2). rewrite C1, C2.
  cbv beta iota delta [bind]. rewrite driver_rows_back. destruct dv; [contradiction|reflexivity].
Qed.


(* the pump tab and the driver tab(s) that follow it *)
Definition psheet (k : nat) (p : apump (T:=T)) : sheetT :=
  mkSheet (ptitle k)
          [("name", Single (CStr (pu_name p))); ("design_impeller", Single (CNum (pu_impeller p)));
           ("suction_dia", Single (CNum (pu_suction p))); ("disch_dia", Single (CNum (pu_disch p)));
           ("design_speed", Single (CNum (pu_speed p))); ("limited", Single (CStr (pu_limited p)));
           ("gear_ratio", Single (CNum (pu_gear p))); ("avail_power", Single (CNum (pu_avail p)));
           ("pump_curve", Range (pump_header :: map (fun r => [CNum (fst (fst r)); CNum (snd (fst r)); CNum (snd r)]) (pu_curve p)))].
Definition dsheets (k : nat) (p : apump (T:=T)) : list sheetT :=
  match pu_driver p with
  | Some d => if String.eqb (pu_limited p) "curve" then [driver_sheet dtitle k d] else []
  | None => []
  end.
Lemma pump_sheets_eq k p : pump_sheets ptitle dtitle k p = psheet k p :: dsheets k p.
Proof. reflexivity. Qed.

Lemma dsheets_wf k p : wf_pump p -> dsheets k p = match pu_driver p with Some d => [driver_sheet dtitle k d] | None => [] end.
Proof.
  intros (_ & _ & H). unfold dsheets. destruct (pu_driver p) as [d|]; [|reflexivity]. destruct H as (E & _). rewrite E. reflexivity.
Qed.

Lemma load_pump_back k p : wf_pump p ->
  load_pump N (psheet k p) (match pu_driver p with Some d => Some (driver_sheet dtitle k d) | None => None end) = ROk p.
Proof.
  intros (Hne & Hnz & Hd). unfold load_pump.
  cbv beta iota zeta delta [fstr fnum get_range_value table_rows s_names s_title assoc String.eqb Ascii.eqb Bool.eqb bind
                            to_float to_str psheet].
  rewrite hdr_pump. cbv beta iota delta [bind]. destruct cols_pump as (C1 & C2 & C3). cbv zeta in C1, C2, C3. rewrite C1, C2, C3.
  cbv beta iota delta [bind]. rewrite (pump_rows_back _ Hnz). cbv beta iota delta [bind].
  destruct (pu_curve p) as [|r0 rs] eqn:EC; [contradiction|].
  destruct p as [nm di sd dd ds lim gr av cv drv]. cbn [pu_driver pu_curve pu_name pu_impeller pu_suction pu_disch pu_speed pu_limited pu_gear pu_avail] in *.
  destruct drv as [d|].
  - destruct Hd as (_ & Hdn). rewrite (load_driver_back k d Hdn). cbv beta iota delta [bind]. rewrite <- EC. reflexivity.
  - cbv beta iota delta [bind]. rewrite <- EC. reflexivity.
Qed.

Lemma load_slurry_back (s : aslurry (T:=T)) : wf_slurry s -> load_slurry N (slurry_sheet s) = ROk s.
Proof.
  intros (H1 & H2). unfold load_slurry. fld. rewrite H1, H2. destruct s. reflexivity.
Qed.


(* ---------- the tabs written for the pumps, in section order ---------- *)
Fixpoint pumps_of (secs : list (asec (T:=T))) (k : nat) : list (nat * apump (T:=T)) :=
  match secs with
  | [] => []
  | APipe _ :: r => pumps_of r k
  | APump p :: r => (k, p) :: pumps_of r (S k)
  end.
Definition tabs_of (l : list (nat * apump (T:=T))) : list sheetT :=
  flat_map (fun ip => psheet (fst ip) (snd ip) :: dsheets (fst ip) (snd ip)) l.

Lemma sec_rows_tabs : forall secs e k, snd (sec_rows N ptitle dtitle secs e k) = tabs_of (pumps_of secs k).
Proof.
  induction secs as [|[p|p] r IH]; intros e k; cbn [sec_rows pumps_of]; [reflexivity| |].
  - specialize (IH (nadd N e (pp_z p)) k). destruct (sec_rows N ptitle dtitle r (nadd N e (pp_z p)) k) as [rows sh]. exact IH.
  - specialize (IH e (S k)). destruct (sec_rows N ptitle dtitle r e (S k)) as [rows sh]. cbn [snd] in *. rewrite IH.
    unfold tabs_of. cbn [flat_map fst snd]. rewrite pump_sheets_eq. reflexivity.
Qed.

Definition in_range (l : list (nat * apump (T:=T))) : Prop := Forall (fun ip => (1 <= fst ip <= kmax)%nat) l.
Definition all_wf (l : list (nat * apump (T:=T))) : Prop := Forall (fun ip => wf_pump (snd ip)) l.

Lemma pumps_of_bounds : forall secs k i p, In (i, p) (pumps_of secs k) -> (k <= i < k + npumps secs)%nat.
Proof.
  induction secs as [|[q|q] r IH]; intros k i p H; cbn [pumps_of npumps] in *; [contradiction| |].
  - apply IH in H. lia.
  - destruct H as [E|H]; [inversion E; lia|]. apply IH in H. lia.
Qed.

Lemma pumps_of_in_range secs : (npumps secs <= kmax)%nat -> in_range (pumps_of secs 1).
Proof.
  intro H. unfold in_range. rewrite Forall_forall. intros [i p] Hin. apply pumps_of_bounds in Hin. cbn [fst]. lia.
Qed.

Lemma pumps_of_nodup : forall secs k, NoDup (map fst (pumps_of secs k)).
Proof.
  induction secs as [|[q|q] r IH]; intro k; cbn [pumps_of map fst]; [constructor|apply IH|].
  constructor; [|apply IH]. intro H. rewrite in_map_iff in H. destruct H as ([i p] & E & Hin). cbn [fst] in E. subst i.
  apply pumps_of_bounds in Hin. lia.
Qed.

Lemma pumps_of_wf : forall secs k, Forall wf_sec secs -> all_wf (pumps_of secs k).
Proof.
  induction secs as [|[q|q] r IH]; intros k H; cbn [pumps_of]; [constructor| |]; inversion H as [|? ? H1 H2]; subst.
  - apply IH. exact H2.
  - constructor; [exact H1|apply IH; exact H2].
Qed.

(* ---------- classification of the sheets ---------- *)
Lemma class_psheet k p : (1 <= k <= kmax)%nat ->
  has "pipeline" (psheet k p) = false /\ is_pump_sheet (psheet k p) = true /\ is_driver_sheet (psheet k p) = false /\
  is_slurry_sheet (psheet k p) = false /\ pump_key (psheet k p) = key k /\ types_of (s_title (psheet k p)) = [TPump].
Proof.
  intro Hk. destruct (HP k Hk) as (a & b & c & d). unfold hasT in *.
  unfold is_pump_sheet, is_driver_sheet, is_slurry_sheet, has, pump_key, types_of, all_types, stype_word. cbn [s_title psheet filter].
  rewrite a, b, c, d, (HKp k Hk). cbn [negb andb]. repeat split; reflexivity.
Qed.

Lemma class_dsheet k (d : string * list (T * T)) : (1 <= k <= kmax)%nat ->
  has "pipeline" (driver_sheet dtitle k d) = false /\ is_pump_sheet (driver_sheet dtitle k d) = false /\
  is_driver_sheet (driver_sheet dtitle k d) = true /\ is_slurry_sheet (driver_sheet dtitle k d) = false /\
  driver_key (driver_sheet dtitle k d) = key k /\ types_of (s_title (driver_sheet dtitle k d)) = [TDriver].
Proof.
  intro Hk. destruct (HDt k Hk) as (a & b & c & e). unfold hasT in *.
  unfold is_pump_sheet, is_driver_sheet, is_slurry_sheet, has, driver_key, types_of, all_types, stype_word. cbn [s_title driver_sheet filter].
  rewrite a, b, c, e, (HKd k Hk). cbn [negb andb]. repeat split; reflexivity.
Qed.

Definition drivers_of (l : list (nat * apump (T:=T))) : list sheetT :=
  flat_map (fun ip => match pu_driver (snd ip) with Some d => [driver_sheet dtitle (fst ip) d] | None => [] end) l.

Lemma tabs_filters l : in_range l -> all_wf l ->
  filter (has "pipeline") (tabs_of l) = [] /\ filter is_slurry_sheet (tabs_of l) = [] /\
  filter is_pump_sheet (tabs_of l) = map (fun ip => psheet (fst ip) (snd ip)) l /\
  filter is_driver_sheet (tabs_of l) = drivers_of l.
Proof.
  induction l as [|[i p] r IH]; intros HR HW; [repeat split; reflexivity|].
  inversion HR as [|? ? R1 R2]; inversion HW as [|? ? W1 W2]; subst. cbn [fst snd] in *.
  destruct (IH R2 W2) as (F1 & F2 & F3 & F4). destruct (class_psheet i p R1) as (a & b & c & d & _).
  unfold tabs_of, drivers_of in *. cbn [flat_map fst snd map]. rewrite (dsheets_wf i p W1).
  destruct (pu_driver p) as [dv|].
  - destruct (class_dsheet i dv R1) as (a' & b' & c' & d' & _).
    cbn [app filter]. rewrite a, b, c, d, a', b', c', d'. cbn [app]. rewrite F1, F2, F3, F4. repeat split; reflexivity.
  - cbn [app filter]. rewrite a, b, c, d. rewrite F1, F2, F3, F4. repeat split; reflexivity.
Qed.


(* ---------- looking a driver tab up by its pump's key ---------- *)
Lemma last_with_absent : forall l i cur, in_range l -> (1 <= i <= kmax)%nat -> ~ In i (map fst l) ->
  last_with driver_key (key i) (drivers_of l) (fun x => x) cur = cur.
Proof.
  induction l as [|[j q] r IH]; intros i cur HR Hi Hn; [reflexivity|].
  inversion HR as [|? ? R1 R2]; subst. cbn [fst snd map] in *.
  assert (ji : j <> i) by (intro E; apply Hn; left; exact E).
  assert (Hn' : ~ In i (map fst r)) by (intro E; apply Hn; right; exact E).
  unfold drivers_of. cbn [flat_map fst snd]. fold (drivers_of r).
  destruct (pu_driver q) as [d|]; cbn [app last_with]; [|apply IH; assumption].
  destruct (class_dsheet j d R1) as (_ & _ & _ & _ & K & _). rewrite K.
  replace (String.eqb (key j) (key i)) with false; [apply IH; assumption|].
  symmetry. apply String.eqb_neq. intro E. apply ji. apply Hinj; assumption.
Qed.

Lemma drivers_lookup : forall l i p cur, in_range l -> NoDup (map fst l) -> In (i, p) l ->
  last_with driver_key (key i) (drivers_of l) (fun x => x) cur =
  match pu_driver p with Some d => Some (driver_sheet dtitle i d) | None => cur end.
Proof.
  induction l as [|[j q] r IH]; intros i p cur HR ND Hin; [contradiction|].
  inversion HR as [|? ? R1 R2]; inversion ND as [|? ? N1 N2]; subst. cbn [fst snd map] in *.
  unfold drivers_of. cbn [flat_map fst snd]. fold (drivers_of r).
  destruct Hin as [E|Hin].
  - inversion E; subst j q. destruct (pu_driver p) as [d|]; cbn [app last_with].
    + destruct (class_dsheet i d R1) as (_ & _ & _ & _ & K & _). rewrite K, String.eqb_refl. apply last_with_absent; assumption.
    + apply last_with_absent; assumption.
  - assert (Ri : (1 <= i <= kmax)%nat).
    { unfold in_range in R2. rewrite Forall_forall in R2. exact (R2 _ Hin). }
    assert (ji : j <> i). { intro E. subst j. apply N1. rewrite in_map_iff. exists (i, p). split; [reflexivity|exact Hin]. }
    destruct (pu_driver q) as [d|]; cbn [app last_with]; [|apply IH; assumption].
    destruct (class_dsheet j d R1) as (_ & _ & _ & _ & K & _). rewrite K.
    replace (String.eqb (key j) (key i)) with false; [apply IH; assumption|].
    symmetry. apply String.eqb_neq. intro E. apply ji. apply Hinj; assumption.
Qed.

(* ---------- association lists with distinct keys ---------- *)
Lemma assoc_in_nodup {A} : forall (l : list (string * A)) k v, NoDup (map fst l) -> In (k, v) l -> assoc k l = Some v.
Proof.
  induction l as [|[k' v'] r IH]; intros k v ND Hin; [contradiction|].
  inversion ND as [|? ? N1 N2]; subst. cbn [assoc]. destruct Hin as [E|Hin].
  - inversion E; subst. rewrite String.eqb_refl. reflexivity.
  - destruct (String.eqb k' k) eqn:Q.
    + apply String.eqb_eq in Q. subst k'. exfalso. apply N1. rewrite in_map_iff. exists (k, v). split; [reflexivity|exact Hin].
    + apply IH; assumption.
Qed.

Lemma assoc_rev_nodup {A} (l : list (string * A)) k v : NoDup (map fst l) -> In (k, v) l -> assoc k (rev l) = Some v.
Proof.
  intros ND Hin. apply assoc_in_nodup; [rewrite map_rev; apply NoDup_rev; exact ND|]. apply -> in_rev. exact Hin.
Qed.

Definition keyed (l : list (nat * apump (T:=T))) : list (string * apump (T:=T)) := map (fun ip => (key (fst ip), snd ip)) l.

Lemma keyed_nodup l : in_range l -> NoDup (map fst l) -> NoDup (map fst (keyed l)).
Proof.
  unfold keyed. rewrite map_map. cbn [fst]. induction l as [|[i p] r IH]; intros HR ND; [constructor|].
  inversion HR as [|? ? R1 R2]; inversion ND as [|? ? N1 N2]; subst. cbn [map fst] in *. constructor; [|apply IH; assumption].
  intro H. rewrite in_map_iff in H. destruct H as ([j q] & E & Hin). cbn [fst] in E.
  assert (Rj : (1 <= j <= kmax)%nat). { unfold in_range in R2. rewrite Forall_forall in R2. exact (R2 _ Hin). }
  apply Hinj in E; [|assumption|assumption]. subst j. apply N1. rewrite in_map_iff. exists (i, q). split; [reflexivity|exact Hin].
Qed.


(* ---------- all pump tabs read back ---------- *)
Lemma load_pumps_back (W : workbook (T:=T)) L : filter is_driver_sheet W = drivers_of L ->
  in_range L -> NoDup (map fst L) -> all_wf L ->
  forall l, incl l L -> load_pumps N W (map (fun ip => psheet (fst ip) (snd ip)) l) = ROk (keyed l).
Proof.
  intros FD HR ND HW. induction l as [|[i p] r IH]; intro Hincl; [reflexivity|].
  assert (Hin : In (i, p) L) by (apply Hincl; left; reflexivity).
  assert (Ri : (1 <= i <= kmax)%nat). { unfold in_range in HR. rewrite Forall_forall in HR. exact (HR _ Hin). }
  assert (Wp : wf_pump p). { unfold all_wf in HW. rewrite Forall_forall in HW. exact (HW _ Hin). }
  cbn [map load_pumps fst snd]. destruct (class_psheet i p Ri) as (_ & _ & _ & _ & K & _). rewrite K, FD.
  rewrite (drivers_lookup L i p None HR ND Hin). rewrite (load_pump_back i p Wp). cbv beta iota delta [bind].
  rewrite IH by (intros x Hx; apply Hincl; right; exact Hx). reflexivity.
Qed.

(* ---------- the pipe table reads back ---------- *)
Lemma pipe_rows_back (AL : list (string * apump (T:=T))) : forall secs e k, Forall wf_sec secs ->
  (forall i p, In (i, p) (pumps_of secs k) -> (1 <= i <= kmax)%nat /\ assoc (key i) (rev AL) = Some p) ->
  pipe_rows (fst (sec_rows N ptitle dtitle secs e k)) AL 0 1 2 3 4 = ROk secs.
Proof.
  induction secs as [|[q|q] r IH]; intros e k HW HA; [reflexivity| |]; inversion HW as [|? ? W1 W2]; subst; cbn [sec_rows].
  - specialize (IH (nadd N e (pp_z q)) k W2). destruct (sec_rows N ptitle dtitle r (nadd N e (pp_z q)) k) as [rows sh] eqn:ES.
    cbn [fst] in *. cbn [pipe_rows nth_cell nth str num]. cbn [wf_sec] in W1. rewrite W1.
    cbv beta iota delta [to_float bind]. rewrite IH by (intros i p Hin; apply HA; cbn [pumps_of]; exact Hin).
    destruct q. reflexivity.
  - specialize (IH e (S k) W2). destruct (sec_rows N ptitle dtitle r e (S k)) as [rows sh] eqn:ES.
    cbn [fst] in *. cbn [pipe_rows nth_cell nth str num].
    destruct (HA k q (or_introl eq_refl)) as (Rk & Ak). destruct (HP k Rk) as (_ & _ & c & _). unfold hasT in c. rewrite c.
    rewrite (HKp k Rk), Ak. rewrite IH by (intros i p Hin; apply HA; cbn [pumps_of]; right; exact Hin). reflexivity.
Qed.

(* ---------- validation passes ---------- *)
Lemma validate_sheets_app (a b : workbook (T:=T)) : validate_sheets a = ROk tt -> validate_sheets (a ++ b)%list = validate_sheets b.
Proof.
  induction a as [|s r IH]; intro H; [reflexivity|]. cbn [app validate_sheets] in *.
  destruct (match types_of (s_title s) with [t] => validate_fields s (fields t) | _ => ROk tt end) as [[]| |e]; cbn [bind] in *; try discriminate.
  apply IH. exact H.
Qed.

Lemma validate_psheet k p : validate_fields (psheet k p) (fields TPump) = ROk tt.
Proof. vm_compute. reflexivity. Qed.
Lemma validate_dsheet k (d : string * list (T * T)) : validate_fields (driver_sheet dtitle k d) (fields TDriver) = ROk tt.
Proof. vm_compute. reflexivity. Qed.
Lemma validate_slurry_sheet (s : aslurry (T:=T)) : validate_fields (slurry_sheet s) (fields TSlurry) = ROk tt.
Proof. vm_compute. reflexivity. Qed.

Lemma validate_tabs l : in_range l -> all_wf l -> validate_sheets (tabs_of l) = ROk tt.
Proof.
  induction l as [|[i p] r IH]; intros HR HW; [reflexivity|].
  inversion HR as [|? ? R1 R2]; inversion HW as [|? ? W1 W2]; subst. cbn [fst snd] in *.
  unfold tabs_of. cbn [flat_map fst snd]. fold (tabs_of r). rewrite (dsheets_wf i p W1).
  destruct (class_psheet i p R1) as (_ & _ & _ & _ & _ & Tp).
  cbn [app validate_sheets]. rewrite Tp, validate_psheet. cbn [bind].
  destruct (pu_driver p) as [d|]; cbn [app validate_sheets].
  - destruct (class_dsheet i d R1) as (_ & _ & _ & _ & _ & Td). rewrite Td, validate_dsheet. cbn [bind]. apply IH; assumption.
  - apply IH; assumption.
Qed.

Lemma tabs_no_slurry_word l : in_range l -> all_wf l -> filter (has "slurry") (tabs_of l) = [].
Proof.
  induction l as [|[i p] r IH]; intros HR HW; [reflexivity|].
  inversion HR as [|? ? R1 R2]; inversion HW as [|? ? W1 W2]; subst. cbn [fst snd] in *.
  unfold tabs_of. cbn [flat_map fst snd]. fold (tabs_of r). rewrite (dsheets_wf i p W1).
  destruct (HP i R1) as (_ & b & _). unfold hasT in b.
  assert (E1 : has "slurry" (psheet i p) = false) by (unfold has; cbn [s_title psheet]; exact b).
  destruct (pu_driver p) as [d|]; cbn [app filter]; rewrite E1.
  - destruct (HDt i R1) as (_ & b' & _). unfold hasT in b'.
    assert (E2 : has "slurry" (driver_sheet dtitle i d) = false) by (unfold has; cbn [s_title driver_sheet]; exact b').
    rewrite E2. apply IH; assumption.
  - apply IH; assumption.
Qed.


(* ---------- the round trip ---------- *)
Definition doc_sheet : sheetT := mkSheet "documentation" [].
Definition pipe_sheet (nm : string) (rows : list (list cellT)) : sheetT :=
  mkSheet "pipeline" [("name", Single (CStr nm)); ("pipe_table", Range (pipe_header :: rows))].

Lemma fixed_sheets_class nm rows (sl : aslurry (T:=T)) :
  (has "pipeline" doc_sheet = false /\ has "slurry" doc_sheet = false /\ is_pump_sheet doc_sheet = false /\
   is_driver_sheet doc_sheet = false /\ is_slurry_sheet doc_sheet = false /\ types_of (s_title doc_sheet) = []) /\
  (has "pipeline" (pipe_sheet nm rows) = true /\ has "slurry" (pipe_sheet nm rows) = false /\ is_pump_sheet (pipe_sheet nm rows) = false /\
   is_driver_sheet (pipe_sheet nm rows) = false /\ is_slurry_sheet (pipe_sheet nm rows) = false /\
   types_of (s_title (pipe_sheet nm rows)) = [TPipeline]) /\
  (has "pipeline" (slurry_sheet sl) = false /\ has "slurry" (slurry_sheet sl) = true /\ is_pump_sheet (slurry_sheet sl) = false /\
   is_driver_sheet (slurry_sheet sl) = false /\ is_slurry_sheet (slurry_sheet sl) = true /\
   types_of (s_title (slurry_sheet sl)) = [TSlurry]).
Proof. repeat split; vm_compute; reflexivity. Qed.

Lemma validate_pipe_sheet nm rows : validate_fields (pipe_sheet nm rows) (fields TPipeline) = ROk tt.
Proof. vm_compute. reflexivity. Qed.

Theorem roundtrip (p : apipeline (T:=T)) : wf p -> load N (Store p) = ROk p.
Proof.
  destruct p as [nm secs sl]. intros (HW & HS & HN). cbn [pl_secs pl_slurry pl_name] in *.
  set (L := pumps_of secs 1).
  assert (HR : in_range L) by (apply pumps_of_in_range; exact HN).
  assert (ND : NoDup (map fst L)) by apply pumps_of_nodup.
  assert (WL : all_wf L) by (apply pumps_of_wf; exact HW).
  pose proof (sec_rows_tabs secs (nint N 0%Z) 1) as ET. fold L in ET.
  pose proof (pipe_rows_back (keyed L) secs (nint N 0%Z) 1 HW) as PR.
  unfold store. cbn [pl_secs pl_slurry pl_name].
  destruct (sec_rows N ptitle dtitle secs (nint N 0%Z) 1) as [rows tabs] eqn:ES. cbn [fst snd] in ET, PR. subst tabs.
  fold doc_sheet. fold (pipe_sheet nm rows).
  destruct (fixed_sheets_class nm rows sl) as ((d1 & d2 & d3 & d4 & d5 & d6) & (p1 & p2 & p3 & p4 & p5 & p6) & (s1 & s2 & s3 & s4 & s5 & s6)).
  destruct (tabs_filters L HR WL) as (F1 & F2 & F3 & F4). pose proof (tabs_no_slurry_word L HR WL) as F5.
  set (W := doc_sheet :: pipe_sheet nm rows :: (tabs_of L ++ [slurry_sheet sl])%list).
  assert (C1 : filter (has "pipeline") W = [pipe_sheet nm rows]).
  { unfold W. cbn [filter]. rewrite d1, p1, filter_app, F1. cbn [filter app]. rewrite s1. reflexivity. }
  assert (C2 : filter (has "slurry") W = [slurry_sheet sl]).
  { unfold W. cbn [filter]. rewrite d2, p2, filter_app, F5. cbn [filter app]. rewrite s2. reflexivity. }
  assert (C3 : filter is_slurry_sheet W = [slurry_sheet sl]).
  { unfold W. cbn [filter]. rewrite d5, p5, filter_app, F2. cbn [filter app]. rewrite s5. reflexivity. }
  assert (C4 : filter is_pump_sheet W = map (fun ip => psheet (fst ip) (snd ip)) L).
  { unfold W. cbn [filter]. rewrite d3, p3, filter_app, F3. cbn [filter]. rewrite s3. apply app_nil_r. }
  assert (C5 : filter is_driver_sheet W = drivers_of L).
  { unfold W. cbn [filter]. rewrite d4, p4, filter_app, F4. cbn [filter]. rewrite s4. apply app_nil_r. }
  assert (V : validate W = ROk tt).
  { unfold validate. unfold all_types. cbn [forallb required negb orb stype_word].
    change (fun s : sheet => containsb "pipeline" (lower (s_title s))) with (has (T:=T) "pipeline").
    change (fun s : sheet => containsb "slurry" (lower (s_title s))) with (has (T:=T) "slurry").
    rewrite C1, C2. cbn [List.length Nat.eqb andb].
    unfold W. cbn [validate_sheets]. rewrite d6, p6, validate_pipe_sheet. cbn [bind].
    rewrite (validate_sheets_app _ _ (validate_tabs L HR WL)). cbn [validate_sheets]. rewrite s6, validate_slurry_sheet. reflexivity. }
  change (load N W = ROk {| pl_name := nm; pl_secs := secs; pl_slurry := sl |}).
  unfold load. rewrite V. cbv beta iota delta [bind]. unfold load_raw.
  rewrite C1. cbn [last_with String.eqb]. 
  assert (G1 : get_range_value (pipe_sheet nm rows) "name" = ROk (CStr nm)) by (vm_compute; reflexivity).
  rewrite G1. cbv beta iota delta [bind]. rewrite C3. cbn [last_with String.eqb]. rewrite (load_slurry_back sl HS). cbv beta iota delta [bind].
  rewrite C4. rewrite (load_pumps_back W L C5 HR ND WL L (incl_refl L)). cbv beta iota delta [bind].
  assert (G2 : table_rows (pipe_sheet nm rows) "pipe_table" = ROk (pipe_header :: rows)) by (vm_compute; reflexivity).
  rewrite G2. cbv beta iota delta [bind]. rewrite hdr_pipe. cbv beta iota delta [bind].
  destruct cols_pipe as (c1 & c2 & c3 & c4 & c5). cbv zeta in c1, c2, c3, c4, c5. rewrite c1, c2, c3, c4, c5. cbv beta iota delta [bind].
  rewrite PR; [reflexivity|].
  intros i q Hin. fold L in Hin.
  assert (Ri : (1 <= i <= kmax)%nat). { unfold in_range in HR. rewrite Forall_forall in HR. exact (HR _ Hin). }
  split; [exact Ri|]. apply assoc_rev_nodup; [apply keyed_nodup; assumption|].
  unfold keyed. rewrite in_map_iff. exists (i, q). split; [reflexivity|exact Hin].
Qed.

End RoundTrip.

(* ---------- the tab names store_to_excel actually uses: Number<k>Pump / Number<k>Driver, k = 1 .. 40 ---------- *)
Definition ckey (k : nat) : string := "number" ++ nat_str k.
Definition kmax0 : nat := 40.

Definition title_check (k : nat) : bool :=
  negb (hasT "pipeline" (pump_title k)) && negb (hasT "slurry" (pump_title k)) && hasT "pump" (pump_title k) && negb (hasT "driver" (pump_title k)) &&
  negb (hasT "pipeline" (driver_title k)) && negb (hasT "slurry" (driver_title k)) && negb (hasT "pump" (driver_title k)) && hasT "driver" (driver_title k) &&
  String.eqb (remove_suffix "pump" (lower (pump_title k))) (ckey k) && String.eqb (remove_suffix "driver" (lower (driver_title k))) (ckey k).

Lemma titles_checked : forallb title_check (seq 1 kmax0) = true.
Proof. vm_compute. reflexivity. Qed.

Lemma keys_checked : forallb (fun i => forallb (fun j => implb (String.eqb (ckey i) (ckey j)) (Nat.eqb i j)) (seq 1 kmax0)) (seq 1 kmax0) = true.
Proof. vm_compute. reflexivity. Qed.

Lemma in_seq_range k : (1 <= k <= kmax0)%nat -> In k (seq 1 kmax0).
Proof. intro H. apply in_seq. unfold kmax0 in *. lia. Qed.

Lemma title_facts k : (1 <= k <= kmax0)%nat -> title_check k = true.
Proof. intro H. pose proof titles_checked as F. rewrite forallb_forall in F. apply F. apply in_seq_range. exact H. Qed.

Theorem roundtrip_concrete {T : Type} (N : NumOps T) (p : apipeline (T:=T)) : wf N kmax0 p ->
  load N (store N pump_title driver_title p) = ROk p.
Proof.
  apply (roundtrip N pump_title driver_title ckey kmax0).
  - intros k Hk. pose proof (title_facts k Hk) as F. unfold title_check in F.
    repeat (apply andb_true_iff in F; destruct F as [F ?]). repeat match goal with H : negb _ = true |- _ => apply negb_true_iff in H end. auto.
  - intros k Hk. pose proof (title_facts k Hk) as F. unfold title_check in F.
    repeat (apply andb_true_iff in F; destruct F as [F ?]). repeat match goal with H : negb _ = true |- _ => apply negb_true_iff in H end. auto.
  - intros k Hk. pose proof (title_facts k Hk) as F. unfold title_check in F.
    repeat (apply andb_true_iff in F; destruct F as [F ?]). apply String.eqb_eq. assumption.
  - intros k Hk. pose proof (title_facts k Hk) as F. unfold title_check in F.
    repeat (apply andb_true_iff in F; destruct F as [F ?]). apply String.eqb_eq. assumption.
  - intros i j Hi Hj E. pose proof keys_checked as F. rewrite forallb_forall in F. specialize (F i (in_seq_range i Hi)).
    rewrite forallb_forall in F. specialize (F j (in_seq_range j Hj)). rewrite E, String.eqb_refl in F. cbn [implb] in F.
    apply Nat.eqb_eq. exact F.
Qed.

(* ---------- non-vacuity: a two-pipe, one-pump (driver-limited) pipeline over the reals is well-formed ---------- *)
From Coq Require Import Reals Lra.
From DHV Require Import RInst.
Local Open Scope R_scope.
Definition example_pipeline : apipeline (T:=R) :=
  mkPipeline "demo"%string
    [APipe (mkPipe "suction"%string (6 / 10) 10 (1 / 10) 2);
     APump (mkPumpA "main"%string 1 (6 / 10) (5 / 10) 5 "curve"%string 1 1000
                    [(0, 60, 400); (1, 50, 800)] (Some ("diesel"%string, [(3, 500); (5, 1000)])));
     APipe (mkPipe "discharge"%string (5 / 10) 1000 1 3)]
    (mkSlurryA "sand"%string (5 / 10) (5 / 10) 1 (272 / 100) "salt"%string (175 / 1000) (265 / 100) (192 / 100)).

Lemma Reqb_false_of a : a <> 0 -> Reqb a 0 = false.
Proof. intro H. apply Bool.not_true_is_false. rewrite Reqb_true. exact H. Qed.

Example example_wf : wf RN kmax0 example_pipeline.
Proof.
  unfold wf, example_pipeline. cbn [pl_secs pl_slurry npumps]. split; [|split].
  - constructor; [vm_compute; reflexivity|]. constructor; [|constructor; [vm_compute; reflexivity|constructor]].
    unfold wf_sec, wf_pump. cbn [pu_curve pu_driver pu_limited snd]. split; [discriminate|]. split.
    + constructor; [|constructor; [|constructor]]; unfold nonzero_row; cbn [fst snd]; toR; unfold Rsum; cbn [fold_left]; apply Reqb_false_of; lra.
    + split; [reflexivity|discriminate].
  - unfold wf_slurry. cbn [sl_d15 sl_d50]. toR. split; apply Reqb_false_of; lra.
  - unfold kmax0. repeat constructor.
Qed.
