#!/venv/bin/python
"""C20 failing-input search on the real Wilson models: 0 <= Vsm <= Vsm_max; Vsm(Cvr_max) = Vsm_max (0.2 %);
0.25 <= M <= 1.7; V50 terminates and satisfies its implicit equation (0.5 %); gradients exceed the water
gradient; excess gradients do not rise with line speed."""
import math
import random
import signal
from scommon import Search, sample_E, seed
from DHLLDV.homogeneous import fluid_head_loss, swamee_jain_ff, pipe_reynolds_number
from Wilson import Wilson_Stratified as ws, Wilson_V50 as wv

S = Search('C20', 'random envelope points with d <= 0.1 Dp, musf in {0.31,0.4,0.415}, vls 0.5-10 m/s, both Cvr_max branches and both clamps of M '
                  'are counted in the distribution; distinct = distinct input point')
rng = random.Random(seed())


class TO(Exception):
    pass


def alarm(*a):
    raise TO()


signal.signal(signal.SIGALRM, alarm)
for i in range(S.budget):
    b = sample_E(rng)
    Dp, nu, rhol, rhos, Cv, eps = b['Dp'], b['nu'], b['rhol'], b['rhos'], b['Cv'], b['epsilon']
    d = min(b['d'], 0.1 * Dp)
    vls = max(b['vls'], 0.5)
    musf = rng.choice([0.31, 0.4, 0.415])
    inp = dict(Dp=Dp, d=d, nu=nu, rhol=rhol, rhos=rhos, Cv=Cv, vls=vls, musf=musf)
    try:
        cm = ws.Cvr_max(Dp, d, rhol, rhos)
        vm = ws.Vsm_max(Dp, d, rhol, rhos, musf)
        v = ws.Vsm(Dp, d, rhol, rhos, musf, Cv)
        if not (0 <= v <= vm * (1 + 1e-12)):
            S.violation('C20:Vsm-range', f'Vsm={v} outside [0, Vsm_max={vm}]', input=inp)
        vat = ws.Vsm(Dp, d, rhol, rhos, musf, 0.6 * cm)
        S.track_worst('|Vsm(Cvr_max)/Vsm_max - 1|', abs(vat / vm - 1), inp)
        if abs(vat - vm) > 0.002 * vm:
            S.violation('C20:Vsm-at-max', f'Vsm at Cvr_max={cm:.4f} is {vat}, Vsm_max is {vm}', input=inp)
        f = swamee_jain_ff(pipe_reynolds_number(vls, Dp, nu), Dp, eps)
        vf = ws.Vsm(Dp, d, rhol, rhos, musf, Cv, f=f)
        vmf = ws.Vsm_max(Dp, d, rhol, rhos, musf, f=f)
        if not (0 <= vf <= vmf * (1 + 1e-12)):
            S.violation('C20:Vsm-range', f'Vsm(f)={vf} outside [0, Vsm_max(f)={vmf}]', input=inp)
        il = fluid_head_loss(vls, Dp, eps, nu, rhol)
        h = ws.stratified_head_loss(vls, Dp, d, eps, nu, rhol, rhos, musf, Cv)
        if not h > il:
            S.violation('C20:ws-exceeds-water', f'Wilson stratified head loss {h} <= il {il}', input=inp)
        e1 = ws.Erhg(vls, Dp, d, eps, nu, rhol, rhos, musf, Cv)
        e2 = ws.Erhg(vls * 1.05, Dp, d, eps, nu, rhol, rhos, musf, Cv)
        if e2 > e1 * (1 + 1e-12):
            S.violation('C20:ws-nonincreasing', f'Wilson stratified Erhg rises from {e1} to {e2} when vls goes {vls} -> {vls * 1.05}', input=inp)
        d85 = d * rng.uniform(1.05, 3.0)
        M = wv.M(Dp, d, d85, nu, rhol, rhos)
        if not 0.25 <= M <= 1.7:
            S.violation('C20:M', f'M={M} outside [0.25, 1.7]', input=dict(inp, d85=d85))
        signal.alarm(10)
        try:
            v50 = wv.V50(Dp, d, d85, eps, nu, rhol, rhos)
        except TO:
            S.violation('C20:V50-terminates', 'V50 iteration did not terminate within 10 s', input=dict(inp, d85=d85))
            continue
        finally:
            signal.alarm(0)
        w50 = wv.w(d, nu, rhol, rhos)
        rhs = w50 * math.sqrt(8 / swamee_jain_ff(pipe_reynolds_number(v50, Dp, nu), Dp, eps)) * math.cosh(60 * d / Dp)
        S.track_worst('|V50/F(V50) - 1|', abs(v50 / rhs - 1), dict(inp, d85=d85))
        if abs(v50 - rhs) > 0.005 * rhs:
            S.violation('C20:V50-equation', f'V50={v50} but w*sqrt(8/lambda(V50))*cosh = {rhs}', input=dict(inp, d85=d85))
        hv = wv.heterogeneous_head_loss(vls, Dp, d, d85, eps, nu, rhol, rhos, Cv, musf)
        if not hv > il:
            S.violation('C20:v50-exceeds-water', f'V50 head loss {hv} <= il {il}', input=inp)
        if wv.Erhg(vls * 1.05, Dp, d, d85, eps, nu, rhol, rhos, musf) > wv.Erhg(vls, Dp, d, d85, eps, nu, rhol, rhos, musf) * (1 + 1e-12):
            S.violation('C20:v50-nonincreasing', 'V50 Erhg rises with line speed', input=dict(inp, d85=d85))
    except Exception as e:
        S.count(None, 'exception:' + type(e).__name__)
        continue
    S.count(tuple(sorted(inp.items())), ('branch1' if cm <= 0.33 else 'branch2') + (',Mclamp' if M in (0.25, 1.7) else ''))
    if i == 0:
        S.sample(inp)
S.finish()
