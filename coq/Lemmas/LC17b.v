(* C17, plotted data: the curve tables the viewer pushes to its data sources are always the tables of the CURRENT
   parameters and the CURRENT stored grading -- the slurry object's cache is coherent after every event, whatever the
   history (the grading itself being the fresh one is C07). *)
From Coq Require Import Reals List Bool String ZArith Lra.
From DHV Require Import NumOps RInst Interp Fracs SlurryCalc SlurryState Viewer LC17.
Import ListNotations.
Local Open Scope R_scope.

Section Coh.
Variables sf sq : bool.

(* cache coherence of one slurry object *)
Definition coh (s : state (T:=R)) : Prop :=
  curves_dirty s = false -> gsd_dirty s = false /\ s_curves s = Some (generate_curves RN sf sq (sp s) (s_gsd s)).

Lemma curves_ignore_rhoi (p : sparams (T:=R)) x g : generate_curves RN sf sq (set_rhoi p x) g = generate_curves RN sf sq p g.
Proof. destruct p. reflexivity. Qed.

Lemma ensure_gsd_coh s : coh s -> coh (ensure_gsd RN s).
Proof. intro H. unfold ensure_gsd. destruct (gsd_dirty s); [|exact H]. unfold coh, do_gen_gsd. cbn [curves_dirty]. intro C. discriminate C. Qed.

Lemma do_gen_curves_current s : let s' := do_gen_curves RN sf sq s in
  curves_dirty s' = false /\ gsd_dirty s' = false /\ s_curves s' = Some (generate_curves RN sf sq (sp s') (s_gsd s')).
Proof.
  unfold do_gen_curves. cbv zeta. cbn [curves_dirty gsd_dirty s_curves sp s_gsd]. split; [reflexivity|]. split; [|reflexivity].
  unfold ensure_gsd. destruct (gsd_dirty s) eqn:E; [reflexivity|exact E].
Qed.

Lemma step_coh s o : coh s -> coh (fst (step RN sf sq s o)).
Proof.
  intro H. destruct o; cbn [step fst];
    first [ solve [unfold coh, with_p, do_gen_gsd; cbv zeta; unfold mark; cbn [curves_dirty orb]; intro C; discriminate C]
          | solve [apply ensure_gsd_coh; exact H]
          | solve [exact H]
          | idtac ].
  (* ReadCurves *)
  unfold ensure_curves. destruct (s_curves s) eqn:E.
  - destruct (curves_dirty s) eqn:D; [|exact H]. intro C. destruct (do_gen_curves_current s) as (_ & A & B). split; assumption.
  - intro C. destruct (do_gen_curves_current s) as (_ & A & B). split; assumption.
Qed.

(* after a read of the curves the cache is current *)
Definition current (s : state (T:=R)) : Prop :=
  curves_dirty s = false /\ gsd_dirty s = false /\ s_curves s = Some (generate_curves RN sf sq (sp s) (s_gsd s)).

Lemma read_curves_current s : coh s -> current (fst (step RN sf sq s ReadCurves)).
Proof.
  intro H. cbn [step fst]. unfold ensure_curves, current. destruct (s_curves s) eqn:E.
  - destruct (curves_dirty s) eqn:D; [apply do_gen_curves_current|]. destruct (H D) as (A & B). split; [exact D|]. split; [exact A|]. exact B.
  - apply do_gen_curves_current.
Qed.

End Coh.

(* ---------- transporting an invariant of the slurry object's operations along the viewer's events ---------- *)
Section Transport.
Variables sf sq : bool.
Variables fmt3 fmt0 : R -> string.
Variable fmtZ : Z -> string.
Variable parse : string -> option R.
Variable Q : state (T:=R) -> Prop.
Hypothesis HQ : forall s o, Q s -> Q (fst (step RN sf sq s o)).

Notation vst := (vstate (T:=R)).
Definition Qv (v : vst) : Prop := Q (slurry v) /\ Forall (fun q => Q (sl q)) (pipes v).

Lemma Qv_sdo (v : vst) o : Qv v -> Qv (sdo RN sf sq v o).
Proof. intros (A & B). split; [apply HQ; exact A|exact B]. Qed.

Lemma Qv_rdx (v : vst) f : Qv v -> Qv (fst (rdx RN sf sq v f)).
Proof. intros (A & B). rewrite rdx_spec. cbn [fst]. split; [exact (HQ (slurry v) (ReadDx f) A)|exact B]. Qed.

Lemma Qv_text (v : vst) w s : Qv v -> Qv (with_text v w s).
Proof. intros (A & B). destruct w; split; assumption. Qed.

Lemma Qv_upd_inputs (v : vst) : Qv v -> Qv (update_inputs RN sf sq fmt3 fmtZ v).
Proof.
  intro H. unfold update_inputs.
  pose proof (Qv_rdx v (f15 RN) H) as H1. destruct (rdx RN sf sq v (f15 RN)) as [v1 d15]. cbn [fst] in H1.
  pose proof (Qv_rdx v1 (f50 RN) H1) as H2. destruct (rdx RN sf sq v1 (f50 RN)) as [v2 d50]. cbn [fst] in H2.
  pose proof (Qv_rdx v2 (f85 RN) H2) as H3. destruct (rdx RN sf sq v2 (f85 RN)) as [v3 d85]. cbn [fst] in H3.
  exact H3.
Qed.

Lemma Qv_upd_slurries (v : vst) : Qv v -> Qv (update_slurries RN sf sq v).
Proof. intro H. unfold update_slurries. destruct (memb RN _ _); [exact H|apply Qv_sdo; exact H]. Qed.

Lemma Qv_usd (v : vst) : Qv v -> Qv (update_source_data RN sf sq fmt3 fmtZ v).
Proof. intro H. unfold update_source_data. apply Qv_upd_slurries, Qv_upd_inputs, Qv_sdo, Qv_sdo. exact H. Qed.

Lemma reach_Qv (v v' : vst) : reach sf sq fmt3 fmtZ v v' -> Qv v -> Qv v'.
Proof.
  induction 1 as [v|v o|v f|v w s|v|v|v b|a b c R1 IH1 R2 IH2]; intro HQv; auto using Qv_sdo, Qv_rdx, Qv_text, Qv_usd, Qv_upd_slurries.
Qed.

End Transport.

(* ---------- what is plotted after every event ---------- *)
Section Plots.
Variables sf sq : bool.
Variables fmt3 fmt0 : R -> string.
Variable fmtZ : Z -> string.
Variable parse : string -> option R.

Notation vst := (vstate (T:=R)).
Notation Usd := (update_source_data RN sf sq fmt3 fmtZ).
Notation Fire := (fire RN sf sq fmt3 fmt0 fmtZ parse).
Notation CohAll := (Qv (coh sf sq)).

Lemma upd_inputs_slurry (v : vst) : clean v -> slurry (update_inputs RN sf sq fmt3 fmtZ v) = slurry v.
Proof.
  intro C. unfold update_inputs. rewrite (rdx_of_clean sf sq v (f15 RN) C), (rdx_of_clean sf sq v (f50 RN) C), (rdx_of_clean sf sq v (f85 RN) C).
  reflexivity.
Qed.

(* a refresh leaves the cache current: the tables are those of the current parameters and the current grading *)
Lemma usd_current (u : vst) : K u -> coh sf sq (slurry u) -> current sf sq (slurry (Usd u)).
Proof.
  intros HK HC. pose proof (read_curves_current sf sq (slurry u) HC) as CU.
  unfold update_source_data.
  set (v1 := sdo RN sf sq u ReadCurves). set (v2 := sdo RN sf sq v1 ReadGSD).
  assert (S1 : slurry v1 = fst (step RN sf sq (slurry u) ReadCurves)) by reflexivity.
  destruct CU as (C1 & C2 & C3). rewrite <- S1 in C1, C2, C3.
  assert (S2 : slurry v2 = slurry v1).
  { change (slurry v2) with (ensure_gsd RN (slurry v1)). unfold ensure_gsd. rewrite C2. reflexivity. }
  assert (CL : clean v2) by (unfold clean; rewrite S2; exact C2).
  pose proof (upd_inputs_slurry v2 CL) as S3.
  (* the System tab's update_slurries does nothing: Dp is a section diameter *)
  destruct (sdo_frame sf sq u ReadCurves) as (A1 & B1 & _). destruct (sdo_frame sf sq v1 ReadGSD) as (A2 & B2 & _).
  destruct (update_inputs_frame sf sq fmt3 fmtZ v2) as (A3 & B3). fold v1 in A1, B1. fold v2 in A2, B2. cbn [sp_after] in B1, B2.
  destruct (shell_eq _ _ A1) as (E1 & _). destruct (shell_eq _ _ A2) as (E2 & _). destruct (shell_eq _ _ A3) as (E3 & _).
  destruct (update_slurries_cases sf sq (update_inputs RN sf sq fmt3 fmtZ v2)) as [(_ & E)|(M & E)].
  - rewrite E, S3, S2. repeat split; assumption.
  - exfalso. rewrite B3, B2, B1, E3, E2, E1 in M. rewrite (K_in u HK) in M. discriminate.
Qed.

Theorem fire_current (v : vst) e : G v -> CohAll v -> current sf sq (slurry v) ->
  current sf sq (slurry (Fire v e)) /\ CohAll (Fire v e).
Proof.
  intros HG HC HCur. pose proof HG as (HK & HF). pose proof HC as (C1 & CF).
  assert (SV : forall w s, current sf sq (slurry (set_value RN sf sq fmt3 fmt0 fmtZ parse w s v)) /\ CohAll (set_value RN sf sq fmt3 fmt0 fmtZ parse w s v)).
  { intros w s. unfold set_value. destruct (String.eqb s (text v w)); [split; assumption|].
    assert (K1 : K (with_text v w s)) by (destruct (rel_text sf sq fmt3 fmtZ w v v w s (rel_refl sf sq fmt3 fmtZ w v HK)) as (X & _); exact X).
    unfold fuel0. destruct (callback_usd sf sq fmt3 fmt0 fmtZ parse 3 w (with_text v w s) K1) as (u & E & (Ku & _ & _ & _ & _ & _ & _ & Re)).
    assert (Cu : CohAll u) by (apply (reach_Qv sf sq fmt3 fmtZ (coh sf sq) (step_coh sf sq) _ _ Re); apply Qv_text; exact HC).
    rewrite E. split; [apply usd_current; [exact Ku|exact (proj1 Cu)]|].
    apply (Qv_usd sf sq fmt3 fmtZ (coh sf sq) (step_coh sf sq)). exact Cu. }
  assert (DA : forall d, current sf sq (slurry (d50_adjust RN sf sq fmt3 fmtZ v d)) /\ CohAll (d50_adjust RN sf sq fmt3 fmtZ v d)).
  { intro d. destruct (d50_adjust_usd sf sq fmt3 fmt0 fmtZ parse d v HK) as [E|(u & E & (Ku & _ & _ & _ & _ & _ & _ & Re))]; rewrite E; [split; assumption|].
    assert (Cu : CohAll u) by (apply (reach_Qv sf sq fmt3 fmtZ (coh sf sq) (step_coh sf sq) _ _ Re); exact HC).
    split; [apply usd_current; [exact Ku|exact (proj1 Cu)]|apply (Qv_usd sf sq fmt3 fmtZ (coh sf sq) (step_coh sf sq)); exact Cu]. }
  destruct e as [w s| | | | | | |b|u|k]; cbn [fire]; auto.
  - (* fluid *)
    destruct (Bool.eqb b (radio v)); [split; assumption|].
    match goal with |- context [sdo RN sf sq ?a (SetFluid b)] => set (v0 := a) end.
    assert (K0 : K v0) by exact HK. assert (C0 : CohAll v0) by exact HC.
    set (v1 := sdo RN sf sq v0 (SetFluid b)).
    assert (C1' : CohAll v1) by (apply (Qv_sdo sf sq (coh sf sq) (step_coh sf sq)); exact C0).
    assert (K1 : K v1).
    { destruct (sdo_frame sf sq v0 (SetFluid b)) as (A & B & _). fold v1 in A, B. destruct (shell_eq _ _ A) as (E1 & _).
      unfold K, Kpl. fold (slurry v1). fold (par v1). rewrite B, E1.
      destruct K0 as ((c1 & c2 & c3 & c4) & cI & cF). fold (slurry v0) in c1, c2, c3, c4, cI. fold (par v0) in c1, c2, c3, c4, cI.
      cbn [sp_after]. unfold Bd. cbn [set_fluid p_Dp p_rhos p_Cv p_rhol]. pose proof (rhol_range b). tauto. }
    split; [apply usd_current; [exact K1|exact (proj1 C1')]|apply (Qv_usd sf sq fmt3 fmtZ (coh sf sq) (step_coh sf sq)); exact C1'].
  - (* units *)
    match goal with |- context [update_slurries RN sf sq ?a] => set (v0 := a) end.
    assert (K0 : K v0) by exact HK.
    destruct (update_slurries_cases sf sq v0) as [(M & E)|(M & E)].
    + rewrite E. split; assumption.
    + exfalso. rewrite (K_in v0 K0) in M. discriminate.
  - (* pipeline *)
    set (saved := set_nth (sel v) (cur v) (pipes v)).
    assert (FK : Forall Kpl saved) by (apply Forall_set_nth; assumption).
    assert (FC : Forall (fun q => coh sf sq (sl q)) saved) by (apply Forall_set_nth; assumption).
    match goal with |- context [Usd ?a] => set (v0 := a) end.
    assert (K0 : K v0) by (unfold K, v0; cbn [cur]; apply Forall_nth_or; [exact HK|exact FK]).
    assert (C0 : CohAll v0).
    { split; [|exact FC]. unfold v0, slurry. cbn [cur]. apply (Forall_nth_or (fun q => coh sf sq (sl q))); [exact C1|exact FC]. }
    split; [apply usd_current; [exact K0|exact (proj1 C0)]|apply (Qv_usd sf sq fmt3 fmtZ (coh sf sq) (step_coh sf sq)); exact C0].
Qed.

End Plots.

Section Runs.
Variables sf sq : bool.
Variables fmt3 fmt0 : R -> string.
Variable fmtZ : Z -> string.
Variable parse : string -> option R.
Notation vst := (vstate (T:=R)).

(* a freshly constructed Slurry has an empty, dirty cache: coherent *)
Lemma init_coh Dp D50 salt Cv n : coh sf sq (init RN Dp D50 salt Cv n).
Proof. unfold coh, init. cbn [curves_dirty]. intro C. discriminate C. Qed.

(* every state of a session after the first refreshing event shows current tables; stated for the whole run:
   coherence is an invariant, and from a state showing current tables every later state shows current tables *)
Theorem run_current : forall es (v : vst), G v -> Qv (coh sf sq) v -> current sf sq (slurry v) ->
  Forall (fun v' => current sf sq (slurry v') /\ Qv (coh sf sq) v') (run_events RN sf sq fmt3 fmt0 fmtZ parse v es).
Proof.
  induction es as [|e r IH]; intros v HG HC HCur; cbn [run_events]; [constructor|].
  destruct (fire_current sf sq fmt3 fmt0 fmtZ parse v e HG HC HCur) as (A & B).
  constructor; [split; assumption|]. apply IH; [apply fire_G; exact HG|exact B|exact A].
Qed.

(* the first display: main.py builds the figures from slurry.curves (a ReadCurves) *)
Lemma first_display (v : vst) : Qv (coh sf sq) v ->
  current sf sq (slurry (sdo RN sf sq v ReadCurves)) /\ Qv (coh sf sq) (sdo RN sf sq v ReadCurves).
Proof.
  intro HC. split; [apply read_curves_current; exact (proj1 HC)|apply (Qv_sdo sf sq (coh sf sq) (step_coh sf sq)); exact HC].
Qed.

(* a whole session: main.py reads slurry.curves once at import to build the figures; from then on, after every event
   of any sequence, the cached tables are those of the current parameters and grading *)
Theorem session_current (v : vst) es : G v -> Qv (coh sf sq) v ->
  Forall (fun v' => current sf sq (slurry v') /\ Qv (coh sf sq) v')
         (run_events RN sf sq fmt3 fmt0 fmtZ parse (sdo RN sf sq v ReadCurves) es).
Proof.
  intros HG HC. destruct (first_display v HC) as (A & B).
  apply run_current; [|exact B|exact A].
  apply (rel_G sf sq fmt3 fmtZ WDp v); [exact HG|].
  apply rel_read; [apply rel_refl; exact (proj1 HG)|reflexivity].
Qed.

End Runs.

(* non-vacuity: the shipped start-up state (see G_example) is coherent *)
Example coh_example sf sq : exists v : vstate (T:=R), G v /\ Qv (coh sf sq) v.
Proof.
  set (q := mkPl [6 / 10; 5 / 10] (init RN (5 / 10) (1 / 1000) true (175 / 1000) 100)).
  exists (mkV q 0%nat [q] EmptyString EmptyString EmptyString EmptyString EmptyString EmptyString EmptyString true false false).
  assert (KQ : Kpl q).
  { unfold Kpl, q. cbn [sl diams init sp p_Dp p_rhos p_Cv p_rhol]. split; [|split].
    - unfold Bd. cbn [p_Dp p_rhos p_Cv p_rhol]. pose proof (rhol_range true). toR. lra.
    - right. left. reflexivity.
    - constructor; [unfold dOK; lra|constructor; [unfold dOK; lra|constructor]]. }
  split; [split; [exact KQ|constructor; [exact KQ|constructor]]|].
  split; [apply init_coh|constructor; [apply init_coh|constructor]].
Qed.
