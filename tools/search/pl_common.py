"""pl_common.py: helpers shared by the pipeline searches (C09, C10, C14): random real pipelines and an independent
sum-of-parts evaluation that uses FRESHLY BUILT slurries (one per section diameter)."""
import copy
import math
import random
import sys, os
sys.path.insert(0, os.path.join(os.path.dirname(os.path.dirname(os.path.abspath(__file__))), 'harness'))
import pipeline_gen as pg
from DHLLDV import PipeObj, PumpObj, SlurryObj
from DHLLDV.DHLLDV_constants import gravity
import ExamplePumps

PUMPS = [ExamplePumps.Ladder_Pump, ExamplePumps.Main_Pump] + [getattr(ExamplePumps, n) for n in dir(ExamplePumps)
                                                              if isinstance(getattr(ExamplePumps, n), PumpObj.Pump) and n not in ('Ladder_Pump', 'Main_Pump')]


def random_slurry_params(rng):
    return dict(D50=math.exp(rng.uniform(math.log(1.2e-4), math.log(3e-3))), fluid=rng.choice(['salt', 'fresh']),
                Cv=rng.uniform(0.03, 0.4), rhos=rng.choice([2.65, 2.65, rng.uniform(2.2, 3.6)]),
                r15=rng.uniform(1.2, 4.0), r85=rng.uniform(1.2, 4.0))


def make_slurry(sp, Dp, max_index=100):
    s = SlurryObj.Slurry(Dp=Dp, D50=sp['D50'], fluid=sp['fluid'], Cv=sp['Cv'], max_index=max_index)
    s.rhos = sp['rhos']
    s.generate_GSD(sp['r15'], sp['r85'])
    return s


def make_pipeline(rng, secs, sp, limited=None, record=None, offdesign=False):
    """record: a dict that receives the random choices made here (pump of every 'U' section, the slurry's own Dp), so
    that a reported input replays exactly; when it already holds them (a replay) they are used instead of the rng"""
    lst = []
    names = list(record.get('pumps', [])) if record is not None else []
    chosen = []
    for s in secs:
        if s[0] == 'P':
            lst.append(PipeObj.Pipe(f'pipe{len(lst)}', s[1], s[2], s[3], s[4]))
        else:
            if len(chosen) < len(names):
                src = next(x for x in PUMPS if x.name == names[len(chosen)])
            else:
                src = rng.choice(PUMPS)
            chosen.append(src.name)
            p = copy.copy(src)
            if limited:
                p.limited = limited
            if offdesign:
                # pumps away from their design state (reduced speed, trimmed impeller); recorded so an input replays
                states = record.setdefault('pump_states', []) if record is not None else []
                k = len(chosen) - 1
                if k < len(states):
                    fs, fi = states[k]
                else:
                    fs = rng.choice([1.0, rng.uniform(0.7, 1.0)])
                    fi = rng.choice([1.0, rng.uniform(0.85, 1.0)])
                    states.append([fs, fi])
                if fs != 1.0:
                    p.current_speed = fs * p.design_speed
                if fi != 1.0:
                    p.current_impeller = fi * p.design_impeller
            lst.append(p)
    if record is not None and 'slurry_Dp' in record:
        dp = record['slurry_Dp']
    else:
        dp = rng.choice([x[1] for x in secs if x[0] == 'P'])
    if record is not None:
        record['pumps'] = chosen
        record['slurry_Dp'] = dp
    slurry = make_slurry(sp, dp)
    return PipeObj.Pipeline(pipe_list=lst, slurry=slurry)


def sum_of_parts(pl, sp, Q):
    """(slurry system head, water system head, water pump head, slurry pump head) from first principles"""
    fresh = {}
    rl = pl.slurry.rhol
    rm = pl.slurry.Cv * (pl.slurry.rhos - rl) + rl
    Hm = Hl = 0.0
    Pm = Pl = 0.0
    secs = pl.pipesections
    first = secs[0]
    if isinstance(first, PipeObj.Pipe) and first.length == 0:
        Hm += first.elev_change * rl
        Hl += first.elev_change * rl
    hv = None
    for p in secs:
        if isinstance(p, PipeObj.Pipe):
            v = Q / (math.pi * (p.diameter / 2) ** 2)
            hv = v * v / (2 * gravity)
            Hm += p.total_K * hv * rm
            Hl += p.total_K * hv * rl
            if p.length > 0:
                if p.diameter not in fresh:
                    cur = dict(sp, Cv=pl.slurry.Cv)
                    fresh[p.diameter] = make_slurry(cur, p.diameter, max_index=3)
                f = fresh[p.diameter]
                Hm += f.im(v) * p.length + p.elev_change * rm
                Hl += f.il(v) * p.length + p.elev_change * rl
        else:
            q = copy.copy(p)
            q.slurry = pl.slurry
            Pl += q.point(Q, water=True)[1]
            Pm += q.point(Q)[1]
    Hm += hv * rm
    Hl += hv * rl
    return Hm, Hl, Pl, Pm


def close(a, b, rel=1e-9):
    return a == b or abs(a - b) <= rel * max(abs(a), abs(b), 1e-12)
