(* C07, discharging the ratio-recovery premise: for grading ratios above 1 and a D50 above the pseudo-liquid limit
   (what the viewer enforces and the property's quantifier states) the two ratios are read back exactly from the
   generated grading, so every abstract state is [valid]. *)
From Coq Require Import Reals List Bool Lra.
From DHV Require Import NumOps RInst Interp Fracs Graded SlurryCalc SlurryState LCommon LC07 LC12e.
From DHV Require Framework.
Import ListNotations.
Local Open Scope R_scope.

Definition dlim_of (p : sparams (T:=R)) : R := Framework.pseudo_dlim RN (p_Dp p) (p_nu p) (p_rhol p) (p_rhos p).

(* the physical side conditions on an abstract state *)
Definition phys (a : astate) : Prop :=
  1 < a_r15 a /\ 1 < a_r85 a /\ 0 < dlim_of (a_p a) < p_D50 (a_p a).

Lemma phys_valid a : phys a -> valid a.
Proof.
  intros (H15 & H85 & Hl). unfold valid. split; [lra|]. split; [lra|].
  unfold recovers, r15_of, r85_of, spec_gsd. cbv zeta.
  set (D50 := p_D50 (a_p a)) in *. set (r15 := a_r15 a) in *. set (r85 := a_r85 a) in *.
  unfold generate_GSD. rewrite (truthy_R r15) by lra. rewrite (truthy_R r85) by lra. toR.
  assert (Hd : 0 < D50 / r15 < D50 /\ D50 < D50 * r85).
  { assert (0 < D50) by lra. assert (0 < / r15 < 1).
    { split; [apply Rinv_0_lt_compat; lra|]. rewrite <- Rinv_1. apply Rinv_lt_contravar; lra. }
    unfold Rdiv. split; [split|]; nra. }
  unfold dlim_of in Hl.
  rewrite (get_dx_15 (D50 / r15) D50 (D50 * r85) _ _ _ _ Hd Hl).
  rewrite (get_dx_50 (D50 / r15) D50 (D50 * r85) _ _ _ _ Hd Hl).
  rewrite (get_dx_85 (D50 / r15) D50 (D50 * r85) _ _ _ _ Hd Hl).
  split; field; lra.
Qed.

Fixpoint all_phys (a : astate) (ops : list (op (T:=R))) : Prop :=
  phys a /\ match ops with [] => True | o :: r => all_phys (astep a o) r end.

Lemma all_phys_valid : forall ops a, all_phys a ops -> all_valid a ops.
Proof.
  induction ops as [|o r IH]; intros a [H Hr]; cbn [all_valid].
  - split; [apply phys_valid; exact H|exact I].
  - split; [apply phys_valid; exact H|apply IH; exact Hr].
Qed.

(* C07 with physical premises only *)
Theorem no_stale_physical (sf sq : bool) : forall ops s a,
  Inv sf sq s a -> all_phys a ops ->
  snd (run RN sf sq s ops) = spec_outs sf sq a ops /\ Inv sf sq (fst (run RN sf sq s ops)) (afinal a ops).
Proof. intros ops s a HI HP. apply no_stale; [exact HI|apply all_phys_valid; exact HP]. Qed.

Lemma init_physical (sf sq : bool) Dp D50 is_salt Cv mi :
  phys (a_init Dp D50 is_salt Cv mi) -> Inv sf sq (init RN Dp D50 is_salt Cv mi) (a_init Dp D50 is_salt Cv mi).
Proof. intro H. apply init_inv. apply phys_valid. exact H. Qed.
