#!/venv/bin/python
"""C01 failing-input search on the real code: all 75 weak orderings of the four regime values
(sub-models patched to constants), then envelope points under both switch settings."""
import itertools
import random
from scommon import Search, E_args, sample_E, seed
from DHLLDV import DHLLDV_framework as fw, homogeneous, heterogeneous, stratified

S = Search('C01', 'all 75 weak orderings of (FB,SB,He,Ho) forced by patching the sub-models to constants, then random '
                  'envelope points x 4 switch settings; non-trivial = distinct ordering pattern or distinct envelope point')
NAMES = {'FB': 'fixed bed', 'SB': 'sliding bed', 'He': 'heterogeneous', 'Ho': 'homogeneous'}


def law(obj, value, name, where):
    req = max(min(obj['FB'], obj['SB'], obj['He']), obj['Ho'])
    if value != req:
        S.violation('C01:value', f'reported gradient {value} is not max(min(FB,SB,He),Ho) = {req}', input=where, observed=value, required=req)
    if obj['regime'] not in NAMES or obj[obj['regime']] != value:
        S.violation('C01:attains', f"reported regime {obj['regime']} does not attain the reported value", input=where)
    elif name != NAMES[obj['regime']]:
        S.violation('C01:name', f"long name {name!r} is not the name of regime {obj['regime']}", input=where)


# (a) all weak orderings
orig = (stratified.fb_Erhg, stratified.Erhg, heterogeneous.Erhg, homogeneous.Erhg)
patterns = sorted({tuple(sorted(set(p)).index(x) for x in p) for p in itertools.product(range(4), repeat=4)})
assert len(patterns) == 75
a = (3.0, 0.762, 0.001, 4.5e-5, 1.0508e-6, 1.0248103, 2.65, 0.175)
try:
    for p in patterns:
        vals = [0.1 + 0.1 * x for x in p]
        stratified.fb_Erhg = lambda *x, v=vals[0], **k: v
        stratified.Erhg = lambda *x, v=vals[1], **k: v
        heterogeneous.Erhg = lambda *x, v=vals[2], **k: v
        homogeneous.Erhg = lambda *x, v=vals[3], **k: v
        obj = fw.Cvs_Erhg(*a, get_dict=True)
        law(obj, fw.Cvs_Erhg(*a), fw.Cvs_regime(*a), {'ordering': p})
        S.count(('ord', p), 'ordering')
finally:
    stratified.fb_Erhg, stratified.Erhg, heterogeneous.Erhg, homogeneous.Erhg = orig
S.sample({'ordering_pattern': patterns[37]})

# (b) envelope
rng = random.Random(seed())
for i in range(S.budget):
    b = sample_E(rng)
    args = E_args(b)
    for sf, sq in [(True, True), (True, False), (False, True), (False, False)]:
        fw.use_sf, fw.use_sqrtcx = sf, sq
        try:
            obj = fw.Cvs_Erhg(*args, get_dict=True)
            val = fw.Cvs_Erhg(*args)
            name = fw.Cvs_regime(*args)
            comp = {'il': homogeneous.fluid_head_loss(args[0], args[1], args[3], args[4], args[5]),
                    'FB': stratified.fb_Erhg(*args), 'SB': stratified.Erhg(*args),
                    'He': heterogeneous.Erhg(*args, sf, sq), 'Ho': homogeneous.Erhg(*args)}
        except Exception as e:   # finiteness is C02's business
            S.count(None, 'exception:' + type(e).__name__)
            continue
        finally:
            fw.use_sf, fw.use_sqrtcx = True, True
        where = {'args': args, 'use_sf': sf, 'use_sqrtcx': sq}
        for k, v in comp.items():
            if obj[k] != v:
                S.violation('C01:component:' + k, f'detailed result {k}={obj[k]} differs from the standalone model {v}', input=where)
        law(obj, val, name, where)
        S.count((args, sf, sq), 'envelope:' + obj['regime'])
    if i == 0:
        S.sample({'args': args, 'regime': obj['regime']})
S.finish()
