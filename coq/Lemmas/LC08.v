(* Proofs for C08: a cached function whose body reads no mutable module state and hands out no mutable container
   is indistinguishable from the uncached function, for every history of calls, switch assignments and evictions. *)
From Coq Require Import List Bool String.
From DHV Require Import Memo.
From DHV Require Deps.
Import ListNotations.

Section Sound.
Variables (K V E : Type) (K_eqb : K -> K -> bool) (F : K -> E -> V).
Hypothesis K_eqb_eq : forall a b, K_eqb a b = true -> a = b.
(* what "the function reads no mutable global" means: its result does not depend on the environment *)
Hypothesis F_indep : forall k e e', F k e = F k e'.

Definition good (c : cache K V) : Prop := forall k v e, In (k, v) c -> v = F k e.

Lemma find_good c k v : good c -> find K V K_eqb c k = Some v -> forall e, v = F k e.
Proof.
  induction c as [|[k' v'] c IH]; intros G H e; [discriminate H|].
  cbn [find] in H. destruct (K_eqb k' k) eqn:B.
  - injection H as <-. apply K_eqb_eq in B. subst. apply G. left. reflexivity.
  - apply IH; [|exact H]. intros k0 v0 e0 Hin. apply G. right. exact Hin.
Qed.

Lemma remove_nth_In {A} : forall n (l : list A) x, In x (remove_nth n l) -> In x l.
Proof.
  induction n as [|n IH]; intros [|y l] x H; cbn [remove_nth] in H; try contradiction.
  - right. exact H.
  - destruct H as [H|H]; [left; exact H|right; apply IH; exact H].
Qed.

Theorem transparent : forall evs c e, good c -> no_mutation K V E evs ->
  run K V E K_eqb F (c, e) evs = spec K V E F e evs.
Proof.
  induction evs as [|ev evs IH]; intros c e G NM; [reflexivity|].
  inversion NM as [|x l Hev Hrest]; subst.
  destruct ev as [k|e'|n|n v]; cbn [run step spec].
  - unfold call. destruct (find K V K_eqb c k) as [v|] eqn:Fd.
    + rewrite (find_good c k v G Fd e). f_equal. apply IH; assumption.
    + f_equal. apply IH; [|assumption].
      intros k0 v0 e0 [Hin|Hin]; [injection Hin as <- <-; apply F_indep|apply G; exact Hin].
  - f_equal. apply IH; assumption.
  - f_equal. apply IH; [|assumption]. intros k0 v0 e0 Hin. apply G. eapply remove_nth_In. exact Hin.
  - contradiction.
Qed.
End Sound.

(* the two ways it goes wrong, as theorems about the same model (so the boundary is explicit) *)
Section Unsound.
(* (a) a cached function that reads the environment returns a stale value after the environment changes *)
Lemma stale_after_toggle :
  run unit bool bool (fun _ _ => true) (fun _ e => e) ([], true) [Call unit bool bool tt; SetEnv unit bool bool false; Call unit bool bool tt]
  <> spec unit bool bool (fun _ e => e) true [Call unit bool bool tt; SetEnv unit bool bool false; Call unit bool bool tt].
Proof. cbn. discriminate. Qed.
(* (b) a cached mutable result that a caller mutates corrupts later calls *)
Lemma corrupted_after_mutation :
  run unit bool unit (fun _ _ => true) (fun _ _ => true) ([], tt) [Call unit bool unit tt; Mutate unit bool unit 0 false; Call unit bool unit tt]
  <> spec unit bool unit (fun _ _ => true) tt [Call unit bool unit tt; Mutate unit bool unit 0 false; Call unit bool unit tt].
Proof. cbn. discriminate. Qed.
End Unsound.

(* the regenerated table passes the checker: no cached function reads a mutable global or returns a dict *)
Lemma table_ok : memo_ok Deps.table = true.
Proof. vm_compute. reflexivity. Qed.

Lemma memo_ok_entry t x : memo_ok t = true -> In x t -> e_cached x = true -> e_globals x = [] /\ e_returns_mutable x = false.
Proof.
  unfold memo_ok. rewrite forallb_forall. intros H Hin Hc. specialize (H x Hin). unfold entry_ok in H. rewrite Hc in H.
  cbn [negb orb] in H. apply andb_true_iff in H. destruct H as [H1 H2].
  split; [destruct (e_globals x); [reflexivity|discriminate H1]|destruct (e_returns_mutable x); [discriminate H2|reflexivity]].
Qed.

(* the only mutable globals any modelled function reads are the two documented switches *)
Definition only_switches (x : entry) : bool :=
  forallb (fun g => String.eqb g "use_sf" || String.eqb g "use_sqrtcx")%bool (e_globals x).
Lemma globals_are_switches : forallb only_switches Deps.table = true.
Proof. vm_compute. reflexivity. Qed.
