#!/venv/bin/python
"""corr_pipeline_slurry.py: correspondence of Models/PipelineSlurry.v (update_slurries, Cv / slurry setters, system
head from the per-diameter REAL slurries, state after hydraulic_gradient) with PipeObj.Pipeline on operation
sequences.  Pump.point is a synthetic closed form on both sides; everything else is the real code."""
import argparse
import random
import sys

from common import Driver, Stats, check_repo_import, hx, py_outcome, seed, write_json
from corr_slurry import compare
import pipeline_gen as pg


def main():
    ap = argparse.ArgumentParser()
    ap.add_argument('--out', required=True)
    ap.add_argument('--n', type=int, default=40)
    a = ap.parse_args()
    check_repo_import()
    from DHLLDV import PipeObj, PumpObj, SlurryObj
    import ExamplePumps
    rng = random.Random(seed())
    st = Stats()
    st.ulp = 0
    orig = PumpObj.Pump.point
    PumpObj.Pump.point = lambda self, Q, water=False: (Q, pg.synthetic_point(self._vid, Q, water, self.slurry.rhol, self.slurry.rhom), 0.0, 1.0)
    reqs, expect = [], []
    nops = 0
    try:
        for i in range(a.n):
            secs = pg.gen_sections(rng)
            dias = sorted({s[1] for s in secs if s[0] == 'P'})
            init = dict(Dp=rng.choice(dias + [0.762]), D50=rng.choice([0.2e-3, 0.5e-3, 1.5e-3]), fluid=rng.choice(['salt', 'fresh']),
                        Cv=rng.uniform(0.05, 0.35), max_index=5)
            s = SlurryObj.Slurry(**init)
            pl = pg.build_real(secs, s, PipeObj, PumpObj, ExamplePumps.Ladder_Pump)
            args = [hx(init['Dp']), hx(init['D50']), '1' if init['fluid'] == 'salt' else '0', hx(init['Cv']), str(init['max_index'])] + pg.encode_sections(secs)
            ops, toks = [], []
            enc = []
            err = None
            for _ in range(rng.randint(2, 6)):
                k = rng.choice(['cv', 'slurry', 'sD50', 'srhos', 'sfluid', 'sgen', 'head', 'head', 'hg', 'update'])
                if k == 'cv':
                    v = rng.uniform(0.05, 0.35)
                    f = lambda v=v: setattr(pl, 'Cv', v)
                    e = ['cv', hx(v)]
                elif k == 'slurry':
                    ni = dict(Dp=rng.choice(dias + [0.5]), D50=rng.choice([0.3e-3, 1.0e-3]), fluid=rng.choice(['salt', 'fresh']), Cv=rng.uniform(0.05, 0.35), max_index=5)
                    f = lambda ni=ni: setattr(pl, 'slurry', SlurryObj.Slurry(**ni))
                    e = ['slurry', hx(ni['Dp']), hx(ni['D50']), '1' if ni['fluid'] == 'salt' else '0', hx(ni['Cv']), '5']
                elif k == 'sD50':
                    v = rng.choice([0.25e-3, 0.8e-3])
                    f = lambda v=v: setattr(pl.slurry, 'D50', v)
                    e = ['sD50', hx(v)]
                elif k == 'srhos':
                    v = rng.choice([2.65, 3.1])
                    f = lambda v=v: setattr(pl.slurry, 'rhos', v)
                    e = ['srhos', hx(v)]
                elif k == 'sfluid':
                    v = rng.choice(['salt', 'fresh'])
                    f = lambda v=v: setattr(pl.slurry, 'fluid', v)
                    e = ['sfluid', '1' if v == 'salt' else '0']
                elif k == 'sgen':
                    r = rng.choice([(2.5, 2.0), (None, None)])
                    f = lambda r=r: pl.slurry.generate_GSD(*r)
                    e = ['sgen'] + ['None' if x is None else hx(x) for x in r]
                elif k == 'update':
                    f = pl.update_slurries
                    e = ['update']
                elif k == 'head':
                    Q = PipeObj.Pipe(diameter=secs[-1][1]).flow(rng.uniform(0.5, 8.0))
                    f = lambda Q=Q: [float(x) for x in pl.calc_system_head(Q)]
                    e = ['head', hx(Q)]
                else:
                    # only the state left behind is compared here (values are covered by corr_pipeline.py); qimin is patched away
                    def f():
                        oq = PipeObj.Pipeline.qimin
                        PipeObj.Pipeline.qimin = lambda self, fl, precision=0.02: 0.4
                        try:
                            pl.hydraulic_gradient(0.3)
                        finally:
                            PipeObj.Pipeline.qimin = oq
                    e = ['hg']
                o = py_outcome(f)
                if o[0] == 'err':
                    err = o[1]
                    enc += e
                    ops.append(k)
                    break
                enc += e
                ops.append(k)
                if k == 'head':
                    toks += ['|'] + o[1]
                toks += ['D' + float(pl.slurry.Dp).hex(), 'n' + str(len(pl.slurries))]
            nops += len(ops)
            reqs.append(('PL.run', args + [str(len(ops))] + enc))
            expect.append(({'init': init, 'sections': secs, 'ops': enc}, toks, err))
    finally:
        PumpObj.Pump.point = orig
    replies = Driver().batch(reqs)
    for (inp, toks, err), rep in zip(expect, replies):
        st.evaluations += 1
        key = repr(inp)
        st.distinct.add(key)
        if err:
            st.err_kinds[err] = st.err_kinds.get(err, 0) + 1
            if rep[0] == 'err':
                st.agree_err += 1
            else:
                st.disagree.append({'input': inp, 'python_error': err, 'model': 'ok'})
            continue
        if rep[0] != 'ok':
            st.disagree.append({'input': inp, 'python': 'ok', 'model': rep})
            continue
        # the model prints D<hex> tokens with OCaml %h; normalise both sides to floats
        def norm(ts):
            out = []
            for t in ts:
                if isinstance(t, str) and t.startswith('D'):
                    out += ['D', float.fromhex(t[1:])]
                else:
                    out.append(t)
            return out
        pt = norm(toks)
        mt = []
        for t in rep[1]:
            if t.startswith('D'):
                mt += ['D', t[1:]]
            else:
                mt.append(t)
        c = compare(pt, mt)
        if c == 'exact':
            st.agree += 1
            st.nontrivial.add(key)
        elif c == 'ulp':
            st.ulp += 1
            st.nontrivial.add(key)
        else:
            st.disagree.append({'input': inp, 'python': [x.hex() if isinstance(x, float) else x for x in pt][:24], 'model': mt[:24]})
        if len(st.samples) < 2 and st.evaluations % 17 == 1:
            st.samples.append(inp)
    res = {'ok': not st.disagree, 'evaluations': st.evaluations, 'operations': nops, 'agree_bit_exact': st.agree, 'agree_on_error': st.agree_err,
           'ulp_level_differences': st.ulp, 'distinct': len(st.distinct), 'distinct_nontrivial': len(st.nontrivial),
           'disagreements': st.disagree[:6], 'n_disagreements': len(st.disagree), 'error_kinds': st.err_kinds,
           'samples': st.samples, 'seed': seed(), 'wall_s': st.wall()}
    write_json(a.out, res)
    print(f"corr_pipeline_slurry: {st.evaluations} sequences ({nops} ops), {st.agree} bit-exact, {st.ulp} ulp-level, {st.agree_err} agree-on-error, {len(st.disagree)} disagreements")
    sys.exit(0 if not st.disagree else 1)


if __name__ == '__main__':
    main()
