#!/venv/bin/python
"""C14 failing-input search on the real code: the grade-line has one point per section boundary with cumulative
lengths / elevation changes, inlet pressure = hydrostatic submergence, pressure at boundary k = pump head - system
head of the pipeline truncated there; computing it leaves sections, per-diameter slurries and slurry parameters
unchanged.  Pipelines start with the zero-length entrance carrying the suction depth."""
import copy
import random
from scommon import Search, seed
import pl_common as pc
from pl_common import pg, PipeObj, close

S = Search('C14', 'random pipelines as in C09 that start with the zero-length entrance, half of the pumps away from their design state (speed 70-100 %, impeller 85-100 %), positive flows and the non-positive-flow convention '
                  '(qimin from the real minimiser); deep snapshot of sections / slurries / slurry parameters before and after; '
                  'distinct = distinct pipeline+flow')
rng = random.Random(seed())


def snapshot(pl):
    def sl(s):
        return (s.Dp, s.epsilon, s.fluid, s.nu, s.rhol, s.D50, s.Cv, s.rhos, s.rhoi, s.max_index, tuple(sorted(s.GSD.items())))
    return ([(type(p).__name__, getattr(p, 'name', None), getattr(p, 'diameter', None), getattr(p, 'length', None),
              getattr(p, 'total_K', None), getattr(p, 'elev_change', None)) for p in pl.pipesections],
            sorted((d, sl(s)) for d, s in pl.slurries.items()), sl(pl.slurry))


for i in range(S.budget):
    secs = pg.gen_sections(rng, with_entrance=True)
    sp = pc.random_slurry_params(rng)
    try:
        rec = {}
        pl = pc.make_pipeline(rng, secs, sp, record=rec, offdesign=True)
        Q = PipeObj.Pipe(diameter=secs[-1][1]).flow(rng.uniform(0.5, 8.0))
        mode = 'positive'
        if rng.random() < 0.12:
            mode = 'nonpositive'
        before = snapshot(pl)
        q_in = Q if mode == 'positive' else rng.choice([0.0, -1.0])
        loc, head, elev = pl.hydraulic_gradient(q_in)
        after = snapshot(pl)
        if mode == 'nonpositive':
            Q = pl.qimin([PipeObj.Pipe(diameter=pl.slurry.Dp).flow(v) for v in pl.slurry.vls_list])
    except Exception as e:
        S.count(None, 'exception:' + type(e).__name__)
        continue
    where = {'sections': secs, 'slurry': sp, 'Q': q_in, **rec}
    n = len(pl.pipesections)
    if not (len(loc) == len(head) == len(elev) == n + 1):
        S.violation('C14:shape', f'{n} sections but {len(loc)}/{len(head)}/{len(elev)} grade-line points', input=where)
        continue
    cumL, cumZ = 0.0, 0.0
    depth = pl.pipesections[0].elev_change
    ok = close(loc[0], 0.0) and close(elev[0], depth) and close(head[0], -depth * pl.slurry.rhol)
    if not ok:
        S.violation('C14:inlet', f'inlet point ({loc[0]}, {head[0]}, {elev[0]}) is not (0, {-depth * pl.slurry.rhol}, {depth})', input=where)
    for k in range(1, n + 1):
        p = pl.pipesections[k - 1]
        if isinstance(p, PipeObj.Pipe):
            cumL += p.length
            cumZ += p.elev_change
        if not close(loc[k], cumL, 1e-9) or not close(elev[k], cumZ, 1e-9):
            S.violation('C14:cumulative', f'boundary {k}: location/elevation ({loc[k]}, {elev[k]}) != cumulative ({cumL}, {cumZ})', input=where)
            break
        try:
            sl_ = copy.copy(pl.slurry)
            sl_.Dp = pl.pipesections[0].diameter   # keep the reconstruction's own update_slurries away from a trailing pump
            tr = PipeObj.Pipeline(pipe_list=[copy.copy(x) for x in pl.pipesections[:k]], slurry=sl_)
            hm, hl, pl_, pm = tr.calc_system_head(Q)
        except Exception as e:
            S.count(None, 'exception:' + type(e).__name__)
            break
        if not close(head[k], pm - hm, 1e-7):
            S.violation('C14:pressure', f'boundary {k}: pressure {head[k]} != pump head - system head of the truncated pipeline = {pm - hm}', input=where)
            break
    if before != after:
        what = [nm for nm, a_, b_ in zip(['sections', 'per-diameter slurries', 'slurry parameters'], before, after) if a_ != b_]
        S.violation('C14:side-effect', f'hydraulic_gradient changed the pipeline: {what}', input=where)
    S.count(repr((secs, q_in)), mode)
    if i == 0:
        S.sample(where)
S.finish()
