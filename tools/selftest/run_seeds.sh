#!/bin/bash
# run_seeds.sh: run every independently seeded property-breaking change (seeded/<id>/) through its check, one after
# the other, and write seeded/RESULTS.md (what the check printed, what broke, which failing input it found).
cd /verif
ROOT=${1:-seeded}            # seeded (round 1) or seeded/r2 (round 2)
OUT=$ROOT/RESULTS.md
echo "# Seeded changes ($ROOT) against their checks ($(date -u +%F))" > $OUT
echo >> $OUT
echo "| property | check result | what no longer checked | failing input found (key) | wall s |" >> $OUT
echo "|---|---|---|---|---|" >> $OUT
for d in $ROOT/C*/; do
  p=$(basename $d)
  s=$(date +%s)
  log=$(tools/selftest/try_seed.sh $p /verif/$ROOT/$p 2>&1)
  e=$(( $(date +%s) - s ))
  line=$(echo "$log" | grep -m1 "^VIOLATION" || echo "$log" | tail -2 | head -1)
  rp=$(echo "$line" | sed -n 's/.*replay=\([^ ]*\).*/\1/p')
  info=$(python3 - "$rp" <<'PY'
import json,sys
try:
    d=json.load(open(sys.argv[1]))
    br=sorted({(b[0] if isinstance(b,(list,tuple)) else str(b)[:20]) for b in d.get('broken',[])})
    print((', '.join(br) or 'nothing (search only)') + ' | ' + str((d.get('violation') or {}).get('key') or d.get('kind')))
except Exception as e:
    print('? | ?')
PY
)
  tests=$(echo "$log" | grep -A1 "== tests" | tail -1)
  echo "| $p | $(echo $line | cut -c1-60) | $info | $e |" >> $OUT
  echo "[$p] $line ($e s) tests: $tests"
done
echo >> $OUT
echo "Every change passes the repository's 122 baseline tests (7 fail for missing fixtures, as on the unchanged tree) and is applied in a scratch worktree outside /repo and /verif, removed after the run." >> $OUT
