"""excel_gen.py: random pipelines expressible in the documented workbook format, and equivalence of two pipelines."""
import copy
import math


def gen_pipeline(rng, mods):
    PipeObj, PumpObj, SlurryObj, Driver, interpDict, ExamplePumps = mods
    bases = [getattr(ExamplePumps, n) for n in dir(ExamplePumps) if isinstance(getattr(ExamplePumps, n), PumpObj.Pump)]
    d = rng.choice([0.5, 0.6, 0.762, 0.8636])
    D50 = math.exp(rng.uniform(math.log(1.5e-4), math.log(3e-3)))
    s = SlurryObj.Slurry(name=rng.choice(['sand', 'Slurry A', 'x']), Dp=d, D50=D50, fluid=rng.choice(['salt', 'fresh']),
                         Cv=round(rng.uniform(0.05, 0.35), 4))
    s.rhos = rng.choice([2.65, 2.65, round(rng.uniform(2.2, 3.6), 3)])
    s.rhoi = rng.choice([1.92, 1.85])
    s.generate_GSD(round(rng.uniform(1.3, 4.0), 3), round(rng.uniform(1.3, 4.0), 3))
    npumps = rng.randint(0, 3)
    pumps = []
    for k in range(npumps):
        if pumps and rng.random() < 0.3:
            pumps.append(pumps[-1])          # the same pump listed twice
            continue
        b = rng.choice(bases)
        keys = sorted(b.design_QH_curve.keys())
        qh = interpDict(*[(q, dict.__getitem__(b.design_QH_curve, q)) for q in keys])
        qp_vals = [dict.__getitem__(b.design_QP_curve, q) for q in sorted(b.design_QP_curve.keys())]
        qp = interpDict(*zip(keys, qp_vals))  # one flow list shared by head and power curve
        mode = rng.choice(['torque', 'power', 'curve'])
        kw = dict(name=f'{b.name} #{k}' if rng.random() < 0.7 else b.name, design_speed=b.design_speed, design_impeller=b.design_impeller,
                  suction_dia=b.suction_dia, disch_dia=b.disch_dia, design_QH_curve=qh, design_QP_curve=qp,
                  avail_power=round(b.avail_power * rng.uniform(0.5, 1.5), 2), limited=mode, gear_ratio=rng.choice([1.0, 2.5, 0.4]))
        if mode == 'curve':
            top = b.design_speed * kw['gear_ratio']
            kw['driver'] = Driver(f'driver {k}', interpDict(*[(x * top, y * kw['avail_power']) for x, y in
                                                             [(0.5, 0.5), (0.6, 0.62), (0.75, 0.8), (0.85, 0.9), (0.95, 0.95), (1.0, 1.0)]]))
            kw['driver_name'] = kw['driver'].name
        pumps.append(PumpObj.Pump(slurry=s, **kw))
    npipes = rng.randint(1, 6)
    secs = [PipeObj.Pipe('Entrance', d * rng.choice([1.0, 1.13]), 0.0, 0.5, -round(rng.uniform(2, 12), 2))]
    slots = sorted(rng.randrange(1, npipes + 1) for _ in pumps)
    for i in range(1, npipes + 1):
        while slots and slots[0] == i:
            secs.append(pumps[len(pumps) - len(slots)])
            slots.pop(0)
        secs.append(PipeObj.Pipe(rng.choice(['Line', 'Float hose', 'Riser', 'shore pipe']) + f' {i}', rng.choice([d, d * 0.9]),
                                 round(rng.uniform(10, 2000), 1), round(rng.uniform(0, 2), 2), round(rng.uniform(-3, 5), 2)))
    name = rng.choice(['Test pipeline', 'My/Line: 1', 'P', 'Dredge "A" 24in', 'x.y'])
    return PipeObj.Pipeline(name=name, pipe_list=secs, slurry=s)


def equivalent(a, b, PipeObj, PumpObj, rel=1e-13):
    """-> list of differences between two pipelines (names, sections, pumps, slurry, grading)"""
    diffs = []

    def close(x, y):
        return x == y or (isinstance(x, float) and isinstance(y, (int, float)) and abs(x - y) <= rel * max(abs(x), abs(y)))
    def curves_close(c1, c2):
        i1, i2 = sorted(dict.items(c1)), sorted(dict.items(c2))
        return len(i1) == len(i2) and all(close(x1, x2) and close(y1, y2) for (x1, y1), (x2, y2) in zip(i1, i2))
    if a.name != b.name:
        diffs.append(f'name {a.name!r} != {b.name!r}')
    if len(a.pipesections) != len(b.pipesections):
        return diffs + [f'{len(a.pipesections)} sections != {len(b.pipesections)}']
    for i, (p, q) in enumerate(zip(a.pipesections, b.pipesections)):
        if type(p) is not type(q):
            diffs.append(f'section {i}: {type(p).__name__} != {type(q).__name__}')
            continue
        if isinstance(p, PipeObj.Pipe):
            for f in ('name', 'diameter', 'length', 'total_K', 'elev_change'):
                if not close(getattr(p, f), getattr(q, f)):
                    diffs.append(f'section {i}.{f}: {getattr(p, f)!r} != {getattr(q, f)!r}')
        else:
            for f in ('name', 'design_speed', 'design_impeller', 'suction_dia', 'disch_dia', 'avail_power', 'limited', 'gear_ratio'):
                if not close(getattr(p, f), getattr(q, f)):
                    diffs.append(f'pump {i}.{f}: {getattr(p, f)!r} != {getattr(q, f)!r}')
            for cn in ('design_QH_curve', 'design_QP_curve'):
                if not curves_close(getattr(p, cn), getattr(q, cn)):
                    diffs.append(f'pump {i}.{cn} differs')
            if (p.driver is None) != (q.driver is None):
                diffs.append(f'pump {i}: driver presence differs')
            elif p.driver is not None:
                if p.driver.name != q.driver.name or not curves_close(p.driver.design_power_curve, q.driver.design_power_curve):
                    diffs.append(f'pump {i}: driver differs')
    s, t = a.slurry, b.slurry
    # the workbook stores D15/D50/D85 in mm with 16 significant digits; the grading is regenerated from them
    rel = 1e-9
    for f in ('name', 'Dp', 'D50', 'fluid', 'Cv', 'rhos', 'rhoi'):
        if not close(getattr(s, f), getattr(t, f)):
            diffs.append(f'slurry.{f}: {getattr(s, f)!r} != {getattr(t, f)!r}')
    ga, gb = s.GSD, t.GSD
    if len(ga) != len(gb) or any(not (close(x, y) and close(ga[x], gb[y])) for x, y in zip(sorted(ga), sorted(gb))):
        diffs.append('slurry grading differs')
    return diffs
