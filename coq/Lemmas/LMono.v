(* Global monotonicity of an interpolating table read with extrapolation on at both ends (C18), and of the
   diameter-at-fraction lookup of a grading (C12): the piecewise-linear reading of a table whose keys and values both
   increase is strictly increasing over the whole real line -- across nodes and in the two extrapolated ends. *)
From Coq Require Import Reals List Bool Arith Lra Lia Sorted.
From DHV Require Import NumOps RInst Interp Fracs LC18 LC12 LC12b.
Import ListNotations.
Local Open Scope R_scope.

(* the piecewise-linear function a table denotes when both extrapolation flags are on *)
Fixpoint pwl (tbl : list (R * R)) (k : R) : R :=
  match tbl with
  | (x0, y0) :: (((x1, y1) :: rest) as tl) =>
    match rest with
    | [] => line x0 y0 x1 y1 k
    | _ => if Rltb k x1 then line x0 y0 x1 y1 k else pwl tl k
    end
  | _ => 0
  end.

Lemma line_at_left x1 y1 x2 y2 : x1 <> x2 -> line x1 y1 x2 y2 x1 = y1.
Proof. intro H. unfold line. field. lra. Qed.
Lemma line_at_right x1 y1 x2 y2 : x1 <> x2 -> line x1 y1 x2 y2 x2 = y2.
Proof. intro H. unfold line. field. lra. Qed.

Lemma head_lt x0 y0 x1 y1 tl : increasing ((x0, y0) :: (x1, y1) :: tl) -> x0 < x1.
Proof. intro H. pose proof (increasing_head _ _ H) as F. inversion F as [|? ? H1 _]; subst. exact H1. Qed.

(* two rows: the line through them, everywhere *)
Lemma lookup_two x0 y0 x1 y1 tol k : x0 < x1 ->
  lookup RN [(x0, y0); (x1, y1)] true true tol k = Some (line x0 y0 x1 y1 k).
Proof.
  intro H.
  assert (Hs : increasing [(x0, y0); (x1, y1)]).
  { repeat constructor. exact H. }
  destruct (Rtotal_order k x0) as [L|[E|G]].
  - pose proof (lookup_low x0 y0 x1 y1 [] true true tol k Hs L) as E. cbn [orb] in E. exact E.
  - subst k. rewrite (lookup_hit _ true true tol x0 y0 Hs (or_introl eq_refl)). rewrite line_at_left by lra. reflexivity.
  - destruct (Rtotal_order k x1) as [L|[E|G']].
    + exact (lookup_interior [] x0 y0 x1 y1 [] true true tol k Hs (conj G L)).
    + subst k. rewrite (lookup_hit _ true true tol x1 y1 Hs (or_intror (or_introl eq_refl))). rewrite line_at_right by lra. reflexivity.
    + pose proof (lookup_high [] x0 y0 x1 y1 true true tol k Hs G') as E. cbn [app orb] in E. exact E.
Qed.

(* left of the second key: the first segment *)
Lemma lookup_first x0 y0 x1 y1 tl tol k : increasing ((x0, y0) :: (x1, y1) :: tl) -> k < x1 ->
  lookup RN ((x0, y0) :: (x1, y1) :: tl) true true tol k = Some (line x0 y0 x1 y1 k).
Proof.
  intros Hs Hk. pose proof (head_lt _ _ _ _ _ Hs) as H01.
  destruct (Rtotal_order k x0) as [L|[E|G]].
  - pose proof (lookup_low x0 y0 x1 y1 tl true true tol k Hs L) as E. cbn [orb] in E. exact E.
  - subst k. rewrite (lookup_hit _ true true tol x0 y0 Hs (or_introl eq_refl)). rewrite line_at_left by lra. reflexivity.
  - exact (lookup_interior [] x0 y0 x1 y1 tl true true tol k Hs (conj G Hk)).
Qed.

(* at or right of the second key the first row plays no role (three or more rows) *)
Lemma find_exact_skip x0 y0 tl k : x0 < k -> find_exact RN ((x0, y0) :: tl) k = find_exact RN tl k.
Proof. intro H. cbn [find_exact]. toR. rewrite Reqb_neq by lra. reflexivity. Qed.

Lemma bisect_skip x0 y0 (tl : list (R * R)) k : x0 <= k -> bisect RN ((x0, y0) :: tl) k = S (bisect RN tl k).
Proof. intro H. cbn [bisect]. toR. rewrite Rltb_f by lra. reflexivity. Qed.

Lemma bisect_pos x1 y1 (tl : list (R * R)) k : x1 <= k -> (1 <= bisect RN ((x1, y1) :: tl) k)%nat.
Proof. intro H. rewrite bisect_skip by exact H. lia. Qed.

Lemma bisect_le_length : forall (tbl : list (R * R)) k, (bisect RN tbl k <= length tbl)%nat.
Proof. induction tbl as [|[x y] r IH]; intro k; cbn [bisect length]; [lia|]. destruct (nltb RN k x); [lia|]. specialize (IH k). lia. Qed.

Lemma seg_skip (p : R * R) (tl : list (R * R)) i k : seg RN (p :: tl) (S i) k = seg RN tl i k.
Proof. reflexivity. Qed.

Lemma lookup_skip x0 y0 x1 y1 p2 rest tol k : increasing ((x0, y0) :: (x1, y1) :: p2 :: rest) -> x1 <= k ->
  lookup RN ((x0, y0) :: (x1, y1) :: p2 :: rest) true true tol k = lookup RN ((x1, y1) :: p2 :: rest) true true tol k.
Proof.
  intros Hs Hk. pose proof (head_lt _ _ _ _ _ Hs) as H01.
  set (tl := (x1, y1) :: p2 :: rest) in *.
  unfold lookup. rewrite find_exact_skip by lra. destruct (find_exact RN tl k) as [v|]; [reflexivity|].
  rewrite bisect_skip by lra. cbv zeta.
  pose proof (bisect_pos x1 y1 (p2 :: rest) k Hk) as B1. fold tl in B1.
  pose proof (bisect_le_length tl k) as B2.
  set (i := bisect RN tl k) in *. cbn [length]. set (n := length tl).
  assert (N2 : (2 <= n)%nat) by (unfold n, tl; cbn [length]; lia).
  replace (Nat.eqb (S i) 0) with false by reflexivity.
  replace (Nat.eqb i 0) with false by (symmetry; apply Nat.eqb_neq; lia).
  cbn [negb andb orb].
  change (Nat.eqb (S i) (S n)) with (Nat.eqb i n).
  destruct (Nat.eqb i n) eqn:E; cbn [negb].
  - (* above the last key *)
    replace (S n - 1)%nat with (S (n - 1)) by lia. replace (S n - 2)%nat with (S (n - 2)) by lia.
    cbn [nth_error]. rewrite seg_skip. reflexivity.
  - replace (S i - 1)%nat with (S (i - 1)) by lia. rewrite seg_skip. reflexivity.
Qed.

Theorem lookup_pwl : forall tbl tol k, increasing tbl -> (2 <= length tbl)%nat ->
  lookup RN tbl true true tol k = Some (pwl tbl k).
Proof.
  induction tbl as [|[x0 y0] tl IH]; intros tol k Hs Hn; [cbn in Hn; lia|].
  destruct tl as [|[x1 y1] rest]; [cbn in Hn; lia|].
  pose proof (head_lt _ _ _ _ _ Hs) as H01.
  destruct rest as [|p2 rest'].
  - cbn [pwl]. apply lookup_two. exact H01.
  - cbn [pwl]. destruct (Rltb k x1) eqn:B.
    + apply Rltb_true in B. apply lookup_first; assumption.
    + apply Rltb_false in B. rewrite lookup_skip by assumption. apply IH; [eapply increasing_tail; eassumption|cbn [length]; lia].
Qed.

(* ---------- monotonicity ---------- *)
Definition vlt (p q : R * R) : Prop := fst p < fst q /\ snd p < snd q.
Definition rising (tbl : list (R * R)) : Prop := StronglySorted vlt tbl.

Lemma rising_increasing tbl : rising tbl -> increasing tbl.
Proof.
  unfold rising, increasing. induction 1 as [|p l Hs IH F]; constructor; [exact IH|].
  rewrite Forall_forall in *. intros q Hq. exact (proj1 (F q Hq)).
Qed.

Lemma rising_tail p tbl : rising (p :: tbl) -> rising tbl.
Proof. intro H. inversion H; assumption. Qed.
Lemma rising_head x0 y0 x1 y1 tl : rising ((x0, y0) :: (x1, y1) :: tl) -> x0 < x1 /\ y0 < y1.
Proof. intro H. inversion H as [|? ? _ F]; subst. inversion F as [|? ? H1 _]; subst. exact H1. Qed.

Lemma line_incr x1 y1 x2 y2 a b : x1 < x2 -> y1 < y2 -> a < b -> line x1 y1 x2 y2 a < line x1 y1 x2 y2 b.
Proof.
  intros Hx Hy Hab. unfold line. assert (0 < / (x2 - x1)) by (apply Rinv_0_lt_compat; lra).
  assert (0 < (y2 - y1) / (x2 - x1)) by (unfold Rdiv; nra). nra.
Qed.

(* from the first key on, the function stays at or above the first value *)
Lemma pwl_at_first : forall tbl x0 y0, rising ((x0, y0) :: tbl) -> tbl <> [] -> pwl ((x0, y0) :: tbl) x0 = y0.
Proof.
  intros tbl x0 y0 H Hne. destruct tbl as [|[x1 y1] rest]; [contradiction|].
  destruct (rising_head _ _ _ _ _ H) as (Hx & Hy). cbn [pwl]. destruct rest.
  - apply line_at_left. lra.
  - rewrite Rltb_t by exact Hx. apply line_at_left. lra.
Qed.

Lemma pwl_cons3 x0 y0 x1 y1 p2 r k :
  pwl ((x0, y0) :: (x1, y1) :: p2 :: r) k = if Rltb k x1 then line x0 y0 x1 y1 k else pwl ((x1, y1) :: p2 :: r) k.
Proof. reflexivity. Qed.

Theorem pwl_increasing : forall tbl a b, rising tbl -> (2 <= length tbl)%nat -> a < b -> pwl tbl a < pwl tbl b.
Proof.
  induction tbl as [|[x0 y0] tl IH]; intros a b Hr Hn Hab; [cbn in Hn; lia|].
  destruct tl as [|[x1 y1] rest]; [cbn in Hn; lia|].
  destruct (rising_head _ _ _ _ _ Hr) as (Hx & Hy).
  destruct rest as [|p2 rest'].
  - cbn [pwl]. apply line_incr; assumption.
  - assert (Hr' : rising ((x1, y1) :: p2 :: rest')) by (eapply rising_tail; eassumption).
    assert (Hn' : (2 <= length ((x1, y1) :: p2 :: rest'))%nat) by (cbn [length]; lia).
    assert (E1 : pwl ((x1, y1) :: p2 :: rest') x1 = y1) by (apply pwl_at_first; [exact Hr'|discriminate]).
    rewrite !pwl_cons3. set (T := (x1, y1) :: p2 :: rest') in *.
    destruct (Rltb a x1) eqn:Ba; destruct (Rltb b x1) eqn:Bb.
    + apply line_incr; assumption.
    + apply Rltb_true in Ba. apply Rltb_false in Bb.
      apply Rlt_le_trans with y1.
      * pose proof (line_incr x0 y0 x1 y1 a x1 Hx Hy Ba) as L. rewrite line_at_right in L by lra. exact L.
      * destruct Bb as [Bb|Bb].
        -- left. rewrite <- E1. apply IH; assumption.
        -- subst b. right. symmetry. exact E1.
    + apply Rltb_false in Ba. apply Rltb_true in Bb. lra.
    + apply IH; assumption.
Qed.

(* C18: an interpolating table with both extrapolation flags on, keys and values increasing: strictly increasing lookup *)
Theorem lookup_increasing tbl tol a b : rising tbl -> (2 <= length tbl)%nat -> a < b ->
  exists va vb, lookup RN tbl true true tol a = Some va /\ lookup RN tbl true true tol b = Some vb /\ va < vb.
Proof.
  intros Hr Hn Hab. exists (pwl tbl a), (pwl tbl b).
  split; [apply lookup_pwl; [apply rising_increasing; exact Hr|exact Hn]|].
  split; [apply lookup_pwl; [apply rising_increasing; exact Hr|exact Hn]|]. apply pwl_increasing; assumption.
Qed.

(* ---------- C12: the diameter-at-fraction lookup is increasing over the whole of (0, 1) ---------- *)
Definition logs (g : list (R * R)) : list (R * R) := map (fun p : R * R => (fst p, Rlog10 (snd p))) g.

Lemma find_exact_in : forall (tbl : list (R * R)) k v, find_exact RN tbl k = Some v -> In (k, v) tbl.
Proof.
  induction tbl as [|[x y] r IH]; intros k v H; [discriminate|]. cbn [find_exact] in H. toR_in H.
  destruct (Reqb x k) eqn:E.
  - apply Reqb_true in E. injection H as <-. subst x. left. reflexivity.
  - right. apply IH. exact H.
Qed.

Lemma logs_rising g : both_increasing g -> Forall (fun p => 0 < snd p) g -> rising (logs g).
Proof.
  intros H. induction H as [|[f d] l Hs IH Hf]; intro Hp; [constructor|].
  inversion Hp as [|? ? P1 P2]; subst. cbn [logs map]. constructor; [apply IH; exact P2|].
  fold (logs l). unfold logs. rewrite Forall_map. rewrite Forall_forall in *. intros [f' d'] Hin.
  specialize (Hf _ Hin). specialize (P2 _ Hin). destruct Hf as (A & B). cbn [fst snd] in *. split; [exact A|].
  apply Rlog10_increasing. lra.
Qed.

Lemma get_dx_pwl g f : both_increasing g -> Forall (fun p => 0 < snd p) g -> (2 <= length g)%nat -> 0 < f < 1 ->
  get_dx RN g f = pow10 RN (pwl (logs g) f).
Proof.
  intros Hb Hp Hn Hf. pose proof (both_increasing_keys g Hb) as Hk. pose proof (logs_rising g Hb Hp) as Hr.
  assert (Hl : (2 <= length (logs g))%nat) by (unfold logs; rewrite map_length; exact Hn).
  unfold get_dx. toR.
  assert (E : orb (Rleb f 0) (Rleb (10 / 10) f) = false) by (apply orb_false_iff; split; apply Rleb_false; lra).
  rewrite E. rewrite (sort_keys_increasing g Hk). fold (logs g).
  destruct (find_exact RN g f) as [d|] eqn:F.
  - apply find_exact_in in F.
    assert (Dp : 0 < d). { rewrite Forall_forall in Hp. exact (Hp _ F). }
    assert (Hin : In (f, Rlog10 d) (logs g)). { unfold logs. rewrite in_map_iff. exists (f, d). split; [reflexivity|exact F]. }
    pose proof (lookup_hit (logs g) true true (1 / 1000) f (Rlog10 d) (rising_increasing _ Hr) Hin) as H1.
    rewrite (lookup_pwl (logs g) (1 / 1000) f (rising_increasing _ Hr) Hl) in H1. injection H1 as H1. rewrite H1.
    symmetry. apply pow10_log10. exact Dp.
  - unfold lookup_or_fail. rewrite (lookup_pwl (logs g) _ f (rising_increasing _ Hr) Hl). reflexivity.
Qed.

Theorem get_dx_increasing g f1 f2 : both_increasing g -> Forall (fun p => 0 < snd p) g -> (2 <= length g)%nat ->
  0 < f1 -> f1 < f2 -> f2 < 1 -> get_dx RN g f1 < get_dx RN g f2.
Proof.
  intros Hb Hp Hn H0 H12 H1. rewrite !get_dx_pwl by (assumption || lra).
  apply pow10_increasing. apply pwl_increasing; [apply logs_rising; assumption|unfold logs; rewrite map_length; exact Hn|exact H12].
Qed.
