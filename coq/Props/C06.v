(* C06 -- the limit deposit velocity is positive, converged and ignores its dummy argument.
   Statements only; proofs in Lemmas/LC06.v; model regenerated from DHLLDV_framework.LDV (four counted loops). *)
From Coq Require Import Reals.
From DHV Require Import NumOps RInst LC06 LLdv.
From DHV Require Framework FrameworkOk.
Local Open Scope R_scope.

(* the line-speed argument is documented as unused: the result does not depend on it, for any iteration budget *)
Theorem C06_dummy : forall (v v' Dp d eps nu rhol rhos Cvs : R) (max_steps : nat),
  Framework.LDV RN v Dp d eps nu rhol rhos Cvs max_steps = Framework.LDV RN v' Dp d eps nu rhol rhos Cvs max_steps.
Proof. exact LC06.dummy. Qed.
Print Assumptions C06_dummy.

(* positive: LDV = max(FL_ul, FL_ll) * sqrt(2 g Rsd Dp) with FL_ul one of FL_r, FL_s or a convex blend of both, each a
   positive product of powers -- for every iteration budget.  (Over R a power with a non-positive base is a junk
   positive value; that the bases ARE positive on the envelope is the finiteness obligation LDV_ok of C02.) *)
Theorem C06_positive : forall (v Dp d eps nu rhol rhos Cvs : R) (max_steps : nat), 0 <= d ->
  0 < Framework.LDV RN v Dp d eps nu rhol rhos Cvs max_steps.
Proof. exact LC06.positive. Qed.
Print Assumptions C06_positive.

(* ... and the bases ARE positive: on the envelope (and beyond: any grain, any concentration up to 0.58, any iteration
   budget) LDV is defined -- every iterate of the four loops is a positive line speed at which the friction factor is
   defined and positive (laminar or turbulent branch), every fractional power has a positive base, the discriminant of
   the lower-limit quadratic is positive.  With C06_positive: finite and positive *)
Theorem C06_defined : forall (vls Dp d eps nu rhol rhos Cvs : R) (max_steps : nat),
  1 / 10 <= Dp <= 12 / 10 -> 0 <= eps <= 1 / 10000 -> 0 < nu -> 0 < d -> 0 < rhol < rhos -> 0 < Cvs <= 58 / 100 ->
  FrameworkOk.LDV_ok vls Dp d eps nu rhol rhos Cvs max_steps.
Proof. exact LLdv.LDV_ok. Qed.
Print Assumptions C06_defined.
