(* Viewer: the slurry tab and top bar of DHLLDV_viewer/main.py as a state machine over events.

   What is logic is modelled literally: check_value, every update_* callback, the up/down buttons,
   D50_adjust_proportionate, update_inputs / update_value_wo_callback, choose_pipeline, choose_units, and
   Pipeline.update_slurries' "reset Dp to the last section diameter" rule.  The slurry object is the state machine
   of Models/SlurryState.v.  What is bokeh is reduced to the one behaviour the callbacks rely on: assigning a
   widget attribute fires the registered callback only when the value CHANGES -- so a callback that restores a text
   re-enters itself (one nested level; the recursion is on explicit fuel, exhaustion is recorded in [overflow]).
   Text formatting (f"{x:0.3f}", f"{x:0.0f}", str(int)) and float() parsing are parameters.

   Hand-written; tied to the code by tools/harness/corr_viewer.py, which replays event sequences on the real
   modules under tools/fakebokeh and on this model (extracted) and compares parameters and text boxes after
   every event.  No proofs here (see Lemmas/LC17.v). *)
From Coq Require Import ZArith List Bool String.
From DHV Require Import NumOps Interp Fracs SlurryCalc SlurryState.
From DHV Require Framework.
Import ListNotations.

Inductive widget : Type := WDp | WD15 | WD50 | WD85 | WRhos | WRhom | WCv.

Inductive event : Type :=
| EText (w : widget) (s : string)     (* the user commits a text into a box *)
| EDpUp | EDpDown | ED50Up | ED50Down | ECvUp | ECvDown
| EFluid (salt : bool)                (* radio button: 0 fresh, 1 salt *)
| EUnits (us : bool)
| EPipeline (k : nat).                (* menu entry k of the pipeline drop-down *)

Section Viewer.
Context {T : Type} (N : NumOps T).
Variables sf sq : bool.
Variable fmt3 : T -> string.          (* f"{x:0.3f}" *)
Variable fmt0 : T -> string.          (* f"{x:0.0f}" *)
Variable fmtZ : Z -> string.          (* str(n) *)
Variable parse : string -> option T.  (* float(s); None = ValueError *)

Record pl : Type := mkPl { diams : list T;            (* the Pipe diameters, in section order *)
                           sl : state (T:=T) }.       (* pipeline.slurry *)

Record vstate : Type := mkV {
  cur : pl;                 (* the selected pipeline *)
  sel : nat;
  pipes : list pl;          (* SystemTab.setups in menu order (entry [sel] is stale while selected) *)
  tDp : string; tD15 : string; tD50 : string; tD85 : string; tRhos : string; tRhom : string; tCv : string;
  radio : bool;             (* fluid_radio.active = 1 *)
  us_units : bool;
  overflow : bool }.

Definition text (v : vstate) (w : widget) : string :=
  match w with WDp => tDp v | WD15 => tD15 v | WD50 => tD50 v | WD85 => tD85 v | WRhos => tRhos v | WRhom => tRhom v
             | WCv => tCv v end.

Definition with_text (v : vstate) (w : widget) (s : string) : vstate :=
  match w with
  | WDp => mkV (cur v) (sel v) (pipes v) s (tD15 v) (tD50 v) (tD85 v) (tRhos v) (tRhom v) (tCv v) (radio v) (us_units v) (overflow v)
  | WD15 => mkV (cur v) (sel v) (pipes v) (tDp v) s (tD50 v) (tD85 v) (tRhos v) (tRhom v) (tCv v) (radio v) (us_units v) (overflow v)
  | WD50 => mkV (cur v) (sel v) (pipes v) (tDp v) (tD15 v) s (tD85 v) (tRhos v) (tRhom v) (tCv v) (radio v) (us_units v) (overflow v)
  | WD85 => mkV (cur v) (sel v) (pipes v) (tDp v) (tD15 v) (tD50 v) s (tRhos v) (tRhom v) (tCv v) (radio v) (us_units v) (overflow v)
  | WRhos => mkV (cur v) (sel v) (pipes v) (tDp v) (tD15 v) (tD50 v) (tD85 v) s (tRhom v) (tCv v) (radio v) (us_units v) (overflow v)
  | WRhom => mkV (cur v) (sel v) (pipes v) (tDp v) (tD15 v) (tD50 v) (tD85 v) (tRhos v) s (tCv v) (radio v) (us_units v) (overflow v)
  | WCv => mkV (cur v) (sel v) (pipes v) (tDp v) (tD15 v) (tD50 v) (tD85 v) (tRhos v) (tRhom v) s (radio v) (us_units v) (overflow v)
  end.

Definition with_slurry (v : vstate) (s : state (T:=T)) : vstate :=
  mkV (mkPl (diams (cur v)) s) (sel v) (pipes v) (tDp v) (tD15 v) (tD50 v) (tD85 v) (tRhos v) (tRhom v) (tCv v)
      (radio v) (us_units v) (overflow v).

Definition slurry (v : vstate) : state (T:=T) := sl (cur v).
Definition par (v : vstate) : sparams (T:=T) := sp (slurry v).

(* one operation on the slurry object; a read returns the number *)
Definition sdo (v : vstate) (o : op (T:=T)) : vstate := with_slurry v (fst (step N sf sq (slurry v) o)).
Definition rdx (v : vstate) (f : T) : vstate * T :=
  let '(s, o) := step N sf sq (slurry v) (ReadDx f) in
  (with_slurry v s, match o with ONum x => x | _ => nfail N E_ValueError end).

Definition c1000 : T := nint N 1000%Z.
Definition f15 : T := nlit N 15%Z 100%positive.
Definition f50 : T := nlit N 50%Z 100%positive.
Definition f85 : T := nlit N 85%Z 100%positive.
Definition dlim_mm (p : sparams (T:=T)) : T :=
  nmul N (Framework.pseudo_dlim N (p_Dp p) (p_nu p) (p_rhol p) (p_rhos p)) c1000.

Fixpoint last_or (d : T) (l : list T) : T := match l with [] => d | x :: r => last_or x r end.
Definition memb (x : T) (l : list T) : bool := existsb (fun y => neqb N y x) l.

(* Pipeline.update_slurries, as far as the shared slurry is concerned: a Dp that is not a section diameter is reset
   to the last section's (the per-diameter copies are Models/PipelineSlurry.v, property C09) *)
Definition update_slurries (v : vstate) : vstate :=
  if memb (p_Dp (par v)) (diams (cur v)) then v else sdo v (SetDp (last_or (p_Dp (par v)) (diams (cur v)))).

(* update_inputs: every box is rewritten through update_value_wo_callback (no callback fires) *)
Definition update_inputs (v : vstate) : vstate :=
  let '(v, d15) := rdx v f15 in
  let '(v, d50) := rdx v f50 in
  let '(v, d85) := rdx v f85 in
  let p := par v in
  mkV (cur v) (sel v) (pipes v)
      (fmtZ (ntrunc N (nmul N (p_Dp p) c1000)))
      (fmt3 (nmul N d15 c1000)) (fmt3 (nmul N d50 c1000)) (fmt3 (nmul N d85 c1000))
      (fmt3 (p_rhos p)) (fmt3 (rhom N p)) (fmt3 (p_Cv p))
      (salt (slurry v)) (us_units v) (overflow v).

(* update_source_data: read the curves (regenerating what is dirty), rewrite the boxes, then the System tab's
   update_all, which starts with pipeline.update_slurries() *)
Definition update_source_data (v : vstate) : vstate :=
  let v := sdo v ReadCurves in
  let v := sdo v ReadGSD in
  let v := update_inputs v in
  update_slurries v.

(* check_value, given how to assign the widget's text (which may fire the callback) *)
Definition check_value (setv : widget -> string -> vstate -> vstate) (v : vstate) (w : widget) (lo hi prev : T)
           (fmt : T -> string) : vstate * T :=
  match parse (text v w) with
  | None => (setv w (fmt prev) v, prev)
  | Some x => if andb (nleb N lo x) (nleb N x hi) then (v, x) else (setv w (fmt prev) v, prev)
  end.

Definition tenth : T := nlit N 1%Z 10%positive.
Definition min_d15 : T := ndiv N (nlit N 4%Z 100%positive) (nint N 1000%Z).     (* 0.04/1000 *)

(* D50_adjust_proportionate(delta) *)
Definition d50_adjust (v : vstate) (delta : T) : vstate :=
  let p := par v in
  let x := nadd N (nmul N (p_D50 p) c1000) delta in
  if andb (nltb N (dlim_mm p) x) (nleb N x (nmul N (nmul N (p_Dp p) c1000) (nlit N 25%Z 100%positive))) then
    let v := sdo v (SetD50 (nadd N (p_D50 p) (ndiv N delta c1000))) in
    let '(v, d50) := rdx v f50 in
    let '(v, d15) := rdx v f15 in
    let r := ndiv N d50 d15 in
    let D50 := p_D50 (par v) in
    let r := if nltb N (ndiv N D50 r) min_d15 then ndiv N D50 min_d15 else r in
    update_source_data (sdo v (GenGSD (Some r) None))
  else v.

(* the on_change callback of a text box; [fuel] bounds the re-entry through a restored text *)
Fixpoint callback (fuel : nat) (w : widget) (v : vstate) : vstate :=
  match fuel with
  | O => mkV (cur v) (sel v) (pipes v) (tDp v) (tD15 v) (tD50 v) (tD85 v) (tRhos v) (tRhom v) (tCv v) (radio v) (us_units v) true
  | S fuel' =>
    let setv := fun (w' : widget) (s : string) (v' : vstate) =>
                  if String.eqb s (text v' w') then v' else callback fuel' w' (with_text v' w' s) in
    match w with
    | WDp =>      (* update_Dp *)
      let prev := nmul N (p_Dp (par v)) c1000 in
      let '(v, x) := check_value setv v WDp (nint N 25%Z) (nint N 1500%Z) prev fmt0 in
      let v := sdo v (SetDp (ndiv N x c1000)) in
      update_source_data (update_slurries v)
    | WD15 =>     (* update_D15 *)
      let hi := nsub N (nmul N (p_D50 (par v)) c1000) (nlit N 1%Z 100%positive) in
      let '(v, d) := rdx v f15 in
      let prev := nmul N d c1000 in
      let '(v, x) := check_value setv v WD15 (nlit N 4%Z 100%positive) hi prev fmt3 in
      let d15 := ndiv N x c1000 in
      update_source_data (sdo v (GenGSD (Some (ndiv N (p_D50 (par v)) d15)) None))
    | WD50 =>     (* update_D50 *)
      let '(v, d15) := rdx v f15 in
      let lo := nmax N (nadd N (nmul N d15 c1000) (nlit N 1%Z 100%positive)) (dlim_mm (par v)) in
      let '(v, d85) := rdx v f85 in
      let hi := nmin N (nsub N (nmul N d85 c1000) (nlit N 1%Z 100%positive))
                       (nmul N (nmul N (p_Dp (par v)) c1000) (nlit N 25%Z 100%positive)) in
      let prev := nmul N (p_D50 (par v)) c1000 in
      let '(v, x) := check_value setv v WD50 lo hi prev fmt3 in
      let v := sdo v (SetD50 (ndiv N x c1000)) in
      update_source_data (sdo v (GenGSD None None))
    | WD85 =>     (* update_D85 *)
      let lo := nadd N (nmul N (p_D50 (par v)) c1000) (nlit N 1%Z 100%positive) in
      let hi := nmul N (nmul N (p_Dp (par v)) c1000) (nlit N 50%Z 100%positive) in
      let '(v, d) := rdx v f85 in
      let prev := nmul N d c1000 in
      let '(v, x) := check_value setv v WD85 lo hi prev fmt3 in
      let d85 := ndiv N x c1000 in
      update_source_data (sdo v (GenGSD None (Some (ndiv N d85 (p_D50 (par v))))))
    | WRhos =>    (* update_rhos *)
      let p := par v in
      let cvi := ndiv N (nsub N (p_rhoi p) (p_rhol p)) (nsub N (p_rhos p) (p_rhol p)) in
      let '(v, x) := check_value setv v WRhos (nlit N 15%Z 10%positive) (nlit N 70%Z 10%positive) (p_rhos p) fmt3 in
      let v := sdo v (SetRhos x) in
      let p := par v in
      let v := sdo v (SetRhoi (nadd N (nmul N cvi (nsub N (p_rhos p) (p_rhol p))) (p_rhol p))) in
      update_source_data v
    | WRhom =>    (* update_rhom *)
      let p := par v in
      let hi := nadd N (nmul N (nlit N 5%Z 10%positive) (nsub N (p_rhos p) (p_rhol p))) (p_rhol p) in
      let '(v, x) := check_value setv v WRhom (nlit N 105%Z 100%positive) hi (rhom N p) fmt3 in
      update_source_data (sdo v (SetRhom x))
    | WCv =>      (* update_Cv *)
      let '(v, x) := check_value setv v WCv (nlit N 1%Z 100%positive) (nlit N 5%Z 10%positive) (p_Cv (par v)) fmt3 in
      update_source_data (sdo v (SetCv x))
    end
  end.

Definition fuel0 : nat := 4.

(* assigning widget.value from the outside (the user, or an up/down button) *)
Definition set_value (w : widget) (s : string) (v : vstate) : vstate :=
  if String.eqb s (text v w) then v else callback fuel0 w (with_text v w s).

Fixpoint set_nth {A} (k : nat) (x : A) (l : list A) : list A :=
  match l, k with
  | [], _ => []
  | _ :: r, O => x :: r
  | y :: r, S k' => y :: set_nth k' x r
  end.

Definition fire (v : vstate) (e : event) : vstate :=
  match e with
  | EText w s => set_value w s v
  | EDpUp => set_value WDp (fmtZ (ntrunc N (nmul N (p_Dp (par v)) c1000) + 25)%Z) v
  | EDpDown => set_value WDp (fmtZ (ntrunc N (nmul N (p_Dp (par v)) c1000) - 25)%Z) v
  | ED50Up => d50_adjust v tenth
  | ED50Down => d50_adjust v (nneg N tenth)
  | ECvUp => set_value WCv (fmt3 (nadd N (p_Cv (par v)) (nlit N 5%Z 1000%positive))) v
  | ECvDown => set_value WCv (fmt3 (nsub N (p_Cv (par v)) (nlit N 5%Z 1000%positive))) v
  | EFluid b =>
    if Bool.eqb b (radio v) then v
    else let v := mkV (cur v) (sel v) (pipes v) (tDp v) (tD15 v) (tD50 v) (tD85 v) (tRhos v) (tRhom v) (tCv v) b
                      (us_units v) (overflow v) in
         update_source_data (sdo v (SetFluid b))
  | EUnits u =>
    (* choose_units: only the System tab's display factors change; sys_update starts with update_slurries *)
    update_slurries (mkV (cur v) (sel v) (pipes v) (tDp v) (tD15 v) (tD50 v) (tD85 v) (tRhos v) (tRhom v) (tCv v)
                         (radio v) u (overflow v))
  | EPipeline k =>
    let saved := set_nth (sel v) (cur v) (pipes v) in
    let v := mkV (nth k saved (cur v)) k saved (tDp v) (tD15 v) (tD50 v) (tD85 v) (tRhos v) (tRhom v) (tCv v)
                 (radio v) (us_units v) (overflow v) in
    update_source_data v
  end.

Fixpoint run_events (v : vstate) (es : list event) : list vstate :=
  match es with
  | [] => []
  | e :: r => let v' := fire v e in v' :: run_events v' r
  end.

(* the state main.py builds at import: SystemTab sets Dp to the last diameter, the boxes show the slurry *)
Definition start (ps : list pl) (k : nat) (p0 : pl) : vstate :=
  let v := mkV (nth k ps p0) k ps EmptyString EmptyString EmptyString EmptyString EmptyString EmptyString EmptyString
               (salt (sl (nth k ps p0))) false false in
  update_inputs v.

End Viewer.
