#!/venv/bin/python
"""corr_qimin.py --out FILE [--n N]: correspondence of Models/OpPoint.v: qimin with Pipeline.qimin (after its repair): the
real method is run on pipelines whose system head is a cheap synthetic curve (one well, two wells of different depth,
monotone, flat, a well left of the search range, noisy), with flow lists that start at zero or above it; scipy's
minimize_scalar is called for real and its answers are recorded (they are oracles of the model); the model is replayed
on the tabulated heads and must select, bit for bit, the flow the real method returned."""
import argparse
import math
import random
import sys
import warnings

from common import Driver, Stats, check_repo_import, hx, py_outcome, seed, write_json


def main():
    ap = argparse.ArgumentParser()
    ap.add_argument('--out', required=True)
    ap.add_argument('--n', type=int, default=200)
    a = ap.parse_args()
    check_repo_import()
    from DHLLDV import PipeObj
    import scipy.optimize as so
    warnings.simplefilter('ignore')
    rng = random.Random(seed() * 31 + 7)
    st = Stats()
    reqs, expect, dist = [], [], {}
    orig = so.minimize_scalar
    for i in range(a.n):
        shape = rng.choice(['well', 'two-wells', 'two-wells', 'two-wells', 'monotone-up', 'monotone-down', 'flat', 'left-well', 'ripple'])
        n = rng.randint(3, 40)
        q0 = rng.choice([0.0, 0.0, rng.uniform(0.01, 0.5)])
        qmax = rng.uniform(1.0, 8.0)
        flows = [q0 + (qmax - q0) * k / (n - 1) for k in range(n)]
        c1, c2 = rng.uniform(0.1, 0.9) * qmax, rng.uniform(0.1, 0.9) * qmax
        d1, d2 = rng.uniform(0.5, 10), rng.uniform(0.5, 10)
        w1, w2 = rng.uniform(0.05, 0.4) * qmax, rng.uniform(0.05, 0.4) * qmax
        base, slope = rng.uniform(-10, 40), rng.uniform(0.2, 5)

        def head(q):
            q = float(q)
            if shape == 'flat':
                return base
            if shape == 'monotone-up':
                return base + slope * q
            if shape == 'monotone-down':
                return base - slope * q
            h = base + slope * 0.2 * q * q - d1 * math.exp(-((q - c1) / w1) ** 2)
            if shape == 'two-wells':
                h -= d2 * math.exp(-((q - c2) / w2) ** 2)
            if shape == 'left-well':
                h = base + slope * q * q - d1 * math.exp(-((q + 0.2) / 0.3) ** 2)
            if shape == 'ripple':
                h += 0.3 * math.sin(9 * q)
            return h
        calls = []

        def ms(f, *args, **kw):
            r = orig(f, *args, **kw)
            calls.append((float(r.x), float(r.fun)))
            return r
        pl = PipeObj.Pipeline.__new__(PipeObj.Pipeline)
        pl.calc_system_head = lambda q: (head(q), 0.0, 0.0, 0.0)
        so.minimize_scalar = ms
        try:
            o = py_outcome(pl.qimin, flows)
        finally:
            so.minimize_scalar = orig
        if o[0] != 'ok' or not calls:
            dist[shape + ':' + str(o[1])] = dist.get(shape + ':' + str(o[1]), 0) + 1
            continue
        rx, rf = calls[0]
        fx, ff = calls[1] if len(calls) > 1 else (0.0, 0.0)
        flat = [str(len(flows))] + [hx(q) for q in flows] + [str(len(flows))]
        for q in flows:
            flat += [hx(q), hx(head(q))]
        flat += [hx(rx), hx(rf), hx(fx), hx(ff)]
        reqs.append(('OpPoint.qimin', flat))
        got = float(o[1])
        path = 'whole-range' if got == rx else ('refined' if len(calls) > 1 and got == fx else 'tabulated')
        lower = (flows[1] if flows[0] <= 0 else flows[0]) * 0.1
        better = [q for q in flows if q >= lower and head(q) < head(got)]       # evaluated now: head() closes over this iteration's curve
        expect.append(({'shape': shape, 'n': n, 'q0': q0, 'qmax': qmax, 'wells': [c1, d1, w1, c2, d2, w2], 'base': base, 'slope': slope}, got, better))
        k = shape + ':' + path
        dist[k] = dist.get(k, 0) + 1
    replies = Driver().batch(reqs)
    for (inp, got, better), rep in zip(expect, replies):
        st.evaluations += 1
        key = repr(inp)
        st.distinct.add(key)
        if rep[0] != 'ok':
            st.disagree.append({'input': inp, 'python': got.hex(), 'model': rep})
            continue
        mq = rep[1][0]
        mq = mq if isinstance(mq, float) else float.fromhex(mq)
        if mq.hex() == got.hex():
            st.agree += 1
            st.nontrivial.add(key)
        else:
            st.disagree.append({'input': inp, 'python': got.hex(), 'model': [x.hex() if isinstance(x, float) else x for x in rep[1]][:3]})
        # the clause itself, on the real result: no tabulated flow at or above the lower bound has a lower head
        if better:
            st.disagree.append({'input': inp, 'clause': 'a tabulated flow has a lower head than the reported minimum-friction flow', 'python': got.hex(), 'better': better[:3]})
        if len(st.samples) < 3 and st.evaluations % 53 == 1:
            st.samples.append({'input': inp, 'qimin': got})
    res = {'ok': not st.disagree, 'evaluations': st.evaluations, 'agree_bit_exact': st.agree, 'agree_on_error': 0, 'ulp_level_differences': 0,
           'distinct': len(st.distinct), 'distinct_nontrivial': len(st.nontrivial), 'disagreements': st.disagree[:8],
           'n_disagreements': len(st.disagree), 'error_kinds': {}, 'distribution': dist, 'samples': st.samples, 'seed': seed(), 'wall_s': st.wall()}
    write_json(a.out, res)
    print(f"corr_qimin: {st.evaluations} evaluations, {st.agree} bit-exact, {len(st.disagree)} disagreements")
    sys.exit(0 if not st.disagree else 1)


if __name__ == '__main__':
    main()
