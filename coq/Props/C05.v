(* C05 -- slip ratio keeps the spatial concentration between delivered and bed concentration.
   Statements only; proofs in Lemmas/LC05.v; model regenerated from DHLLDV_framework.py. *)
From Coq Require Import Reals List Bool String.
From DHV Require Import NumOps RInst LC05.
From DHV Require Constants Framework.
Import Framework.
Local Open Scope R_scope.

(* the delivered-concentration result = the spatial-concentration result at Cvs = Cvt/(1-Xi), divided by (1-Xi),
   for every regime; it reports the slip it used *)
Theorem C05_structure : forall (sf sq : bool) (vls Dp d eps nu rhol rhos Cvt : R),
  let Xi := slip_ratio RN vls Dp d eps nu rhol rhos Cvt in
  let Cvs := Cvs_from_Cvt RN vls Dp d eps nu rhol rhos Cvt in
  let inner := Cvs_Erhg_dict RN sf sq vls Dp d eps nu rhol rhos Cvs in
  let r := Cvt_Erhg_dict RN sf sq vls Dp d eps nu rhol rhos Cvt in
  Cvs = 1 / (1 - Xi) * Cvt /\
  Erhg7_FB r = Erhg6_FB inner * 1 / (1 - Xi) /\ Erhg7_SB r = Erhg6_SB inner * 1 / (1 - Xi) /\
  Erhg7_He r = Erhg6_He inner * 1 / (1 - Xi) /\ Erhg7_Ho r = Erhg6_Ho inner * 1 / (1 - Xi) /\
  Erhg7_Xi r = Xi /\ Erhg7_il r = Erhg6_il inner.
Proof. intros. split; [reflexivity|]. exact (LC05.dict_components sf sq vls Dp d eps nu rhol rhos Cvt). Qed.
Print Assumptions C05_structure.

(* never the fixed-bed regime (code or long name); the value returned is that of the reported regime *)
Theorem C05_never_fixed_bed : forall (sf sq : bool) (vls Dp d eps nu rhol rhos Cvt : R),
  let r := Cvt_Erhg_dict RN sf sq vls Dp d eps nu rhol rhos Cvt in
  Erhg7_regime r <> R_FB /\ Cvt_regime RN sf sq vls Dp d eps nu rhol rhos Cvt <> "fixed bed"%string /\
  Cvt_Erhg RN sf sq vls Dp d eps nu rhol rhos Cvt =
    match Erhg7_regime r with R_FB => Erhg7_FB r | R_SB => Erhg7_SB r | R_He => Erhg7_He r | R_Ho => Erhg7_Ho r end.
Proof.
  intros. split; [apply LC05.never_FB|]. split; [apply LC05.never_fixed_bed_name|reflexivity].
Qed.
Print Assumptions C05_never_fixed_bed.

(* lower half of the range, for ALL inputs with Cvt < Cvb (no envelope needed): the slip is positive and not
   below the three-layer-model slip, which itself is strictly below 1 - Cvt/Cvb *)
Theorem C05_lower : forall vls Dp d eps nu rhol rhos Cvt : R, 0 <= Dp -> Cvt / Constants.Cvb RN < 1 ->
  0 < slip_ratio RN vls Dp d eps nu rhol rhos Cvt /\
  exists L, 0 < L < 1 - Cvt / Constants.Cvb RN /\ L <= slip_ratio RN vls Dp d eps nu rhol rhos Cvt.
Proof.
  intros vls Dp d eps nu rhol rhos Cvt HD HC. pose proof (LC05.slip_ratio_shape vls Dp d eps nu rhol rhos Cvt HD) as S.
  split; [exact (LC05.slip_lower _ _ HC S)|exact (LC05.slip_floor _ _ HC S)].
Qed.
Print Assumptions C05_lower.

Theorem C05_Cvs_above_Cvt : forall vls Dp d eps nu rhol rhos Cvt : R,
  0 <= Dp -> 0 < Cvt < Constants.Cvb RN -> slip_ratio RN vls Dp d eps nu rhol rhos Cvt < 1 ->
  Cvt < Cvs_from_Cvt RN vls Dp d eps nu rhol rhos Cvt.
Proof. exact LC05.Cvs_above_Cvt. Qed.
Print Assumptions C05_Cvs_above_Cvt.

(* upper half: Cvs <= Cvb is exactly the upper bound Xi <= 1 - Cvt/Cvb on the slip.  That bound itself is only
   searched (partial clause C05_upper), not proved. *)
Theorem C05_upper_equiv_partial : forall Xi Cvt Cvb : R, 0 < Cvb -> 0 < Cvt -> Xi < 1 ->
  (1 / (1 - Xi) * Cvt <= Cvb <-> Xi <= 1 - Cvt / Cvb).
Proof. exact LC05.Cvs_below_Cvb_iff. Qed.
Print Assumptions C05_upper_equiv_partial.
