(* Interp: executable model of DHLLDV_Utils.interpDict.__getitem__ on a table kept as an
   association list sorted by key (Python sorts the keys on every miss).  Hand-written;
   tied to the code by the correspondence check (tools/harness/interp_*.py). *)
From Coq Require Import ZArith List Bool Arith.
From DHV Require Import NumOps.
Import ListNotations.

Section Interp.
Context {T : Type} (N : NumOps T).

Definition table := list (T * T).

Fixpoint find_exact (tbl : table) (k : T) : option T :=
  match tbl with
  | [] => None
  | (x, y) :: r => if neqb N x k then Some y else find_exact r k
  end.

(* bisect.bisect(sorted keys, k): index of the first key strictly above k *)
Fixpoint bisect (tbl : table) (k : T) : nat :=
  match tbl with
  | [] => 0
  | (x, _) :: r => if nltb N k x then 0 else S (bisect r k)
  end.

Definition interp2 (p1 p2 : T * T) (k : T) : T :=
  let '(x1, y1) := p1 in
  let '(x2, y2) := p2 in
  nadd N (nmul N (ndiv N (nsub N y2 y1) (nsub N x2 x1)) (nsub N k x1)) y1.

Definition seg (tbl : table) (i : nat) (k : T) : option T :=
  match nth_error tbl i, nth_error tbl (S i) with
  | Some p1, Some p2 => Some (interp2 p1 p2 k)
  | _, _ => None
  end.

Definition lookup (tbl : table) (xlo xhi : bool) (tol : T) (k : T) : option T :=
  match find_exact tbl k with
  | Some v => Some v
  | None =>
    let n := length tbl in
    let i := bisect tbl k in
    if andb (negb (Nat.eqb i 0)) (negb (Nat.eqb i n)) then seg tbl (i - 1) k
    else if Nat.eqb i n then
      match nth_error tbl (n - 1) with
      | Some (xmax, _) =>
        if orb xhi (nleb N k (nmul N xmax (nadd N (nint N 1%Z) tol)))
        then seg tbl (n - 2) k else None
      | None => None
      end
    else
      match nth_error tbl 0 with
      | Some (xmin, _) =>
        if orb xlo (nleb N (nmul N xmin (nsub N (nint N 1%Z) tol)) k)
        then seg tbl 0 k else None
      | None => None
      end
  end.

Definition lookup_or_fail (tbl : table) (xlo xhi : bool) (tol : T) (k : T) : T :=
  match lookup tbl xlo xhi tol k with
  | Some v => v
  | None => nfail N E_IndexError
  end.

(* interpDict.__setitem__: always KeyError, table unchanged *)
Definition setitem (tbl : table) (k v : T) : table * option nat := (tbl, Some E_KeyError).

End Interp.
