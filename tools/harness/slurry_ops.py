"""slurry_ops.py: operation sequences on a SlurryObj.Slurry -- generation, execution on the real
object, encoding for the model driver, and the fresh-object reference of property C07."""
import copy
import itertools
import math

from common import hx

SETTERS = {
    'Dp': [0.5, 0.8], 'eps': [4.5e-5, 1.0e-4], 'fluid': ['salt', 'fresh'], 'D50': [0.4e-3, 1.2e-3],
    'Cv': [0.1, 0.3], 'rhos': [2.65, 3.2], 'rhom': [1.2, 1.4], 'max_index': [5, 8],
    'gen': [(None, None), (2.5, 2.0)],
}
EXTRA_GEN = [(None, 3.0), (1.8, None), (0, 0)]
READS = [('rGSD',), ('rdx', 0.15), ('rdx', 0.3), ('rcurves',), ('rpoint', 3.0), ('rscalars',)]


def alphabet():
    ops = []
    for k, vs in SETTERS.items():
        for v in vs:
            ops.append((k, v))
    return ops


def random_ops(rng, depth, p_read=0.35):
    ops = []
    alpha = alphabet() + [('gen', g) for g in EXTRA_GEN] + [('rhoi', 1.85)]
    for _ in range(depth):
        if rng.random() < p_read:
            r = rng.choice(READS)
            if r[0] == 'rdx':
                r = ('rdx', rng.choice([0.15, 0.5, 0.85, round(rng.uniform(0.02, 0.98), 3)]))
            if r[0] == 'rpoint':
                r = ('rpoint', rng.choice([0.5, 3.0, 7.5]))
            ops.append(r)
        else:
            k, v = rng.choice(alpha)
            if k in ('Dp', 'D50', 'Cv', 'rhos') and rng.random() < 0.4:
                v = {'Dp': rng.uniform(0.3, 1.0), 'D50': math.exp(rng.uniform(math.log(3e-4), math.log(5e-3))),
                     'Cv': rng.uniform(0.05, 0.4), 'rhos': rng.uniform(2.2, 3.8)}[k]
            ops.append((k, v))
    return ops


def encode(init, ops, sw=(True, True)):
    """-> argument tokens of the driver entry Slurry.run"""
    a = ['1' if sw[0] else '0', '1' if sw[1] else '0', hx(init['Dp']), hx(init['D50']),
         '1' if init['fluid'] == 'salt' else '0', hx(init['Cv']), str(init['max_index']), str(len(ops))]
    for o in ops:
        k = o[0]
        if k in ('Dp', 'eps', 'D50', 'Cv', 'rhos', 'rhom', 'rhoi'):
            a += [k, hx(o[1])]
        elif k == 'fluid':
            a += [k, '1' if o[1] == 'salt' else '0']
        elif k == 'max_index':
            a += [k, str(o[1])]
        elif k == 'gen':
            a += [k] + ['None' if r is None else hx(r) for r in o[1]]
        elif k in ('rdx', 'rpoint'):
            a += [k, hx(o[1])]
        else:
            a += [k]
    return a


def tok_list(name, l):
    return ['@' + name, str(len(l))] + [float(x) for x in l]


def curves_tokens(s):
    e, im, l1, l2 = s.Erhg_curves, s.im_curves, s.LDV_curves, s.LDV85_curves
    t = tok_list('vls', s.vls_list)
    for k in ('il', 'Cvs_Erhg', 'FB', 'SB', 'He', 'Ho'):
        t += tok_list('E.' + k, e[k])
    t += ['@E.Cvs_regime', str(len(e['Cvs_regime']))] + list(e['Cvs_regime'])
    for k in ('Cvs_from_Cvt', 'Cvt_Erhg', 'graded_Cvs_Erhg', 'graded_Cvt_Erhg'):
        t += tok_list('E.' + k, e[k])
    for k in ('il', 'Cvs_im', 'FB', 'SB', 'He', 'ELM', 'Ho', 'Cvt_im', 'graded_Cvs_im', 'graded_Cvt_im'):
        t += tok_list('I.' + k, im[k])
    for nm, l in (('LDV', l1), ('LDV85', l2)):
        for k in ('Cv', 'vls', 'il', 'Erhg', 'im'):
            t += tok_list(nm + '.' + k, l[k])
    return t


def gsd_tokens(g):
    out = ['@GSD', str(len(g))]
    for k in sorted(g):
        out += [float(k), float(g[k])]
    return out


def flags(s):
    return 'F' + ('1' if s.GSD_curves_dirty else '0') + ('1' if s.curves_dirty else '0')


def apply_op(s, o):
    """run one op on a real Slurry; -> list of tokens read (may raise)"""
    k = o[0]
    if k == 'Dp':
        s.Dp = o[1]
    elif k == 'eps':
        s.epsilon = o[1]
    elif k == 'fluid':
        s.fluid = o[1]
    elif k == 'D50':
        s.D50 = o[1]
    elif k == 'Cv':
        s.Cv = o[1]
    elif k == 'rhos':
        s.rhos = o[1]
    elif k == 'rhom':
        s.rhom = o[1]
    elif k == 'rhoi':
        s.rhoi = o[1]
    elif k == 'max_index':
        s.max_index = o[1]
    elif k == 'gen':
        s.generate_GSD(o[1][0], o[1][1])
    elif k == 'rGSD':
        return gsd_tokens(s.GSD)
    elif k == 'rdx':
        return [float(s.get_dx(o[1]))]
    elif k == 'rcurves':
        return curves_tokens(s)
    elif k == 'rpoint':
        return [float(s.il(o[1])), float(s.Erhg(o[1])), float(s.im(o[1]))]
    elif k == 'rscalars':
        return [float(s.Rsd), float(s.rhom), float(s.Cvi)]
    else:
        raise ValueError(k)
    return []


class Ghost:
    """the final parameters an equivalent freshly built object needs (incl. the grading ratios)"""

    def __init__(self, init):
        self.Dp, self.D50, self.fluid, self.Cv, self.max_index = init['Dp'], init['D50'], init['fluid'], init['Cv'], init['max_index']
        self.eps, self.rhos, self.rhoi = 4.5e-05, 2.65, 1.92
        self.r15, self.r85 = 2.0, 2.72

    def apply(self, o, rhol_of):
        k = o[0]
        if k == 'Dp':
            self.Dp = o[1]
        elif k == 'eps':
            self.eps = o[1]
        elif k == 'fluid':
            self.fluid = o[1]
        elif k == 'D50':
            self.D50 = o[1]
        elif k == 'Cv':
            self.Cv = o[1]
        elif k == 'rhos':
            self.rhos = o[1]
        elif k == 'rhoi':
            self.rhoi = o[1]
        elif k == 'rhom':
            rhol = rhol_of(self.fluid)
            self.Cv = (o[1] - rhol) / (self.rhos - rhol)
        elif k == 'max_index':
            self.max_index = o[1]
        elif k == 'gen':
            if o[1][0]:
                self.r15 = o[1][0]
            if o[1][1]:
                self.r85 = o[1][1]

    def build(self, SlurryObj):
        f = SlurryObj.Slurry(Dp=self.Dp, D50=self.D50, fluid=self.fluid, Cv=self.Cv, max_index=self.max_index)
        f.epsilon = self.eps
        f.rhos = self.rhos
        f.rhoi = self.rhoi
        f.generate_GSD(self.r15, self.r85)
        return f


def close_tokens(a, b, rel):
    if len(a) != len(b):
        return False, 'length'
    for i, (x, y) in enumerate(zip(a, b)):
        if isinstance(x, float) and isinstance(y, float):
            if x == y or (math.isnan(x) and math.isnan(y)):
                continue
            if not (math.isfinite(x) and math.isfinite(y)) or abs(x - y) > rel * max(abs(x), abs(y)):
                return False, i
        elif x != y:
            return False, i
    return True, None
