#!/venv/bin/python
"""C03 failing-input search on the real code: im = Erhg*Rsd*Cv + il and dp = im*g*rhol for the six regime
models; the Slurry tables point by point (every key, every index) and the pointwise methods; Erhg_graded
against an independent re-computation (pseudo-liquid, geometric-mean diameters, weighted sum)."""
import math
import random
from scommon import Search, E_args, sample_E, seed, pseudo_dlim
from DHLLDV import DHLLDV_framework as fw, homogeneous as ho, heterogeneous as he, stratified as st, SlurryObj
from DHLLDV.DHLLDV_constants import gravity
from Wilson import Wilson_Stratified as ws, Wilson_V50 as wv

S = Search('C03', 'random envelope points: six regime models (head vs Erhg, pressure vs head); random Slurry objects (40 % of them edited -- rhom or Cv -- after a first read of their tables): all curve keys x all '
                  'indices, pointwise il/Erhg/im vs tables; Erhg_graded (Cvs and Cvt input) vs independent weighted-sum recomputation; '
                  'distinct = distinct input point / object')
REL = 1e-9


def close(a, b, rel=REL):
    return a == b or abs(a - b) <= rel * max(abs(a), abs(b), 1e-300)


rng = random.Random(seed())
for i in range(S.budget):
    b = sample_E(rng)
    a = E_args(b)
    vls, Dp, d, eps, nu, rhol, rhos, Cv = a
    Rsd = (rhos - rhol) / rhol
    try:
        il = ho.fluid_head_loss(vls, Dp, eps, nu, rhol)
        musf = rng.choice([0.31, 0.4, 0.415])
        d85 = d * rng.uniform(1.1, 2.5)
        models = [
            ('homogeneous', ho.homogeneous_head_loss(*a), ho.Erhg(*a), ho.homogeneous_pressure_loss(*a)),
            ('heterogeneous', he.heterogeneous_head_loss(*a), he.Erhg(*a), he.heterogeneous_pressure_loss(*a)),
            ('sliding bed', st.sliding_bed_head_loss(*a), st.Erhg(*a), st.sliding_bed_pressure_loss(*a)),
            ('fixed bed', st.fb_head_loss(*a), st.fb_Erhg(*a), st.fb_pressure_loss(*a)),
            ('Wilson stratified', ws.stratified_head_loss(vls, Dp, d, eps, nu, rhol, rhos, musf, Cv),
             ws.Erhg(vls, Dp, d, eps, nu, rhol, rhos, musf, Cv), ws.stratified_pressure_loss(vls, Dp, d, eps, nu, rhol, rhos, musf, Cv)),
            ('Wilson V50', wv.heterogeneous_head_loss(vls, Dp, d, d85, eps, nu, rhol, rhos, Cv, musf),
             wv.Erhg(vls, Dp, d, d85, eps, nu, rhol, rhos, musf), wv.heterogeneous_pressure_loss(vls, Dp, d, d85, eps, nu, rhol, rhos, Cv, musf)),
        ]
        pl = ho.fluid_pressure_loss(vls, Dp, eps, nu, rhol)
    except Exception as e:
        S.count(None, 'exception:' + type(e).__name__)
        continue
    for name, head, erhg, pres in models:
        if not close(head, erhg * Rsd * Cv + il):
            S.violation('C03:head:' + name, f'{name}: head loss {head} != Erhg*Rsd*Cv + il = {erhg * Rsd * Cv + il}', input=a)
        if not close(pres, head * gravity * rhol):
            S.violation('C03:pressure:' + name, f'{name}: pressure loss {pres} != head*g*rhol = {head * gravity * rhol}', input=a)
    if not close(pl, il * gravity * rhol):
        S.violation('C03:pressure:liquid', f'liquid pressure loss {pl} != il*g*rhol', input=a)
    S.count(a, 'regime-models')
    if i == 0:
        S.sample({'args': a})


def graded_spec(GSD, vls, Dp, eps, nu, rhol, rhos, Cv, cvt):
    fr = sorted(GSD)
    X = fr[0]
    Rsd = (rhos - rhol) / rhol
    rhox = rhol + rhol * (X * Cv * Rsd) / (1 - Cv + Cv * X)
    Cv_x = X * Cv / (1 - Cv + Cv * X)
    Cv_r = (1 - X) * Cv
    nu_x = nu * rhol * (1 + 2.5 * Cv_x + 10.05 * Cv_x ** 2 + 0.00273 * math.exp(16.6 * Cv_x)) / rhox
    Rsd_x = (rhos - rhox) / rhox
    tot = 0.0
    for k in range(len(fr) - 1):
        dm = math.sqrt(GSD[fr[k]] * GSD[fr[k + 1]])
        f = fw.Cvt_Erhg if cvt else fw.Cvs_Erhg
        imx = f(vls, Dp, dm, eps, nu_x, rhox, rhos, Cv_r) * Rsd_x * Cv_r + ho.fluid_head_loss(vls, Dp, eps, nu_x, rhox)
        tot += (fr[k + 1] - fr[k]) * imx
    im = rhox * (tot / (1 - X)) / rhol
    return (im - ho.fluid_head_loss(vls, Dp, eps, nu, rhol)) / (Rsd * Cv)


nobj = max(4, S.budget // 12)
for j in range(nobj):
    b = sample_E(rng)
    dl = max(pseudo_dlim(b['Dp'], b['nu'], b['rhol'], b['rhos']), 5e-5)
    D50 = math.exp(rng.uniform(math.log(dl * 1.001), math.log(0.25 * b['Dp'])))
    try:
        s = SlurryObj.Slurry(Dp=b['Dp'], D50=D50, fluid=rng.choice(['salt', 'fresh']), Cv=b['Cv'], max_index=rng.choice([100, 40, 12]))
        s.rhos = b['rhos']
        s.generate_GSD(rng.uniform(1.05, 5.0), min(rng.uniform(1.05, 5.0), 0.5 * b['Dp'] / D50))
        e, m = s.Erhg_curves, s.im_curves
        edited = None
        if rng.random() < 0.4:
            # an object that has served its tables once and is then edited is still a slurry object in E: the tables
            # it serves next must satisfy the relation with its CURRENT concentration
            cv2 = rng.uniform(0.02, 0.45)
            if rng.random() < 0.5:
                edited = {'rhom': s.rhol + cv2 * (s.rhos - s.rhol)}
                s.rhom = edited['rhom']
            else:
                edited = {'Cv': cv2}
                s.Cv = cv2
            e, m = s.Erhg_curves, s.im_curves
        GSD = dict(s.GSD)
    except Exception as ex:
        S.count(None, 'exception:' + type(ex).__name__)
        continue
    where = {'Dp': s.Dp, 'D50': D50, 'fluid': s.fluid, 'rhos': s.rhos, 'Cv': s.Cv, 'max_index': s.max_index, 'edited_after_first_read': edited}
    pairs = [('Cvs_im', 'Cvs_Erhg'), ('FB', 'FB'), ('SB', 'SB'), ('He', 'He'), ('Ho', 'Ho'), ('Cvt_im', 'Cvt_Erhg'),
             ('graded_Cvs_im', 'graded_Cvs_Erhg'), ('graded_Cvt_im', 'graded_Cvt_Erhg')]
    ok = True
    for idx, v in enumerate(s.vls_list):
        il = e['il'][idx]
        if m['il'][idx] != il or not close(s.il(v), il):
            S.violation('C03:curves:il', f'il tables / il({v}) disagree at index {idx}', input=where); ok = False
        for ik, ek in pairs:
            if not close(m[ik][idx], e[ek][idx] * s.Rsd * s.Cv + il):
                S.violation('C03:curves:' + ik, f'im_curves[{ik}][{idx}] != Erhg_curves[{ek}][{idx}]*Rsd*Cv + il', input=where); ok = False
        if not close(m['ELM'][idx], il * s.rhom):
            S.violation('C03:curves:ELM', f'ELM[{idx}] != il*rhom', input=where); ok = False
        if idx % 9 == 0:
            if not close(s.Erhg(v), e['graded_Cvt_Erhg'][idx]) or not close(s.im(v), m['graded_Cvt_im'][idx]):
                S.violation('C03:curves:pointwise', f'Erhg({v})/im({v}) differ from the graded_Cvt tables at index {idx}', input=where); ok = False
        if not ok:
            break
    for cvt in (False, True):
        v = rng.choice(s.vls_list)
        try:
            got = fw.Erhg_graded(GSD, v, s.Dp, s.epsilon, s.nu, s.rhol, s.rhos, s.Cv, Cvt_eq_Cvs=cvt, num_fracs=None)
            want = graded_spec(GSD, v, s.Dp, s.epsilon, s.nu, s.rhol, s.rhos, s.Cv, cvt)
        except Exception as ex:
            S.count(None, 'exception:' + type(ex).__name__)
            continue
        if not close(got, want, 1e-8):
            S.violation(f'C03:graded:cvt={cvt}', f'Erhg_graded={got} but the weighted sum of the fractions gives {want}',
                        input=dict(where, vls=v, cvt=cvt))
    S.count(repr(where), 'slurry-object')
    if j == 0:
        S.sample(where)
S.finish()
