(* Proofs for C19: stratified-flow cross-section geometry. *)
From Coq Require Import Reals List Bool Lra Sorted.
From Interval Require Import Tactic.
From DHV Require Import NumOps RInst Interp LC18 LC18b.
From DHV Require Constants Tables Stratified.
Import ListNotations.
Local Open Scope R_scope.

(* areas: bed + free = pipe area; bed area = pipe area * Cvs/Cvb  (all Dp, all Cvs) *)
Lemma areas_sum Dp Cvs : let '(Ap, A1, A2) := Stratified.areas RN Dp Cvs in
  A1 + A2 = Ap /\ A2 = Ap * (Cvs / Constants.Cvb RN) /\ Ap = PI * (Dp / 2) ^ 2.
Proof. unfold Stratified.areas. cbv zeta. toR. repeat split; ring. Qed.

(* perimeters: above + below the bed = circumference; bed width = Dp sin(beta) *)
Lemma perimeters_sum Dp Cvs : let '(Op, O1, O12, O2) := Stratified.perimeters RN Dp Cvs in
  O1 + O2 = Op /\ Op = PI * Dp /\ O12 = Dp * sin (Stratified.beta RN Cvs) /\ O1 = (PI - Stratified.beta RN Cvs) * Dp.
Proof. unfold Stratified.perimeters. cbv zeta. toR. repeat split; ring. Qed.

(* the tabulated half-angle reproduces the area fraction of a circular segment *)
Definition seg_area (b : R) : R := (b - sin b * cos b) / PI.

Lemma nodes_accurate : Forall (fun p => Rabs (seg_area (snd p) - fst p) <= 1 / 100000) (Tables.Arel_to_beta RN).
Proof.
  unfold Tables.Arel_to_beta, seg_area. toR.
  repeat (apply Forall_cons; [cbn [fst snd]; interval with (i_prec 60)|]). apply Forall_nil.
Qed.

Fixpoint segs (l : list (R * R)) : list ((R * R) * (R * R)) :=
  match l with
  | p :: r => match r with q :: _ => (p, q) :: segs r | [] => [] end
  | [] => []
  end.

Definition seg_ok (pq : (R * R) * (R * R)) : Prop :=
  forall x, fst (fst pq) <= x <= fst (snd pq) ->
  Rabs (seg_area (line (fst (fst pq)) (snd (fst pq)) (fst (snd pq)) (snd (snd pq)) x) - x) <= 75 / 10000.

Lemma between_accurate : Forall seg_ok (segs (Tables.Arel_to_beta RN)).
Proof.
  unfold Tables.Arel_to_beta. cbn [segs]. toR.
  repeat (apply Forall_cons;
          [unfold seg_ok, seg_area, line; cbn [fst snd]; intros x Hx; interval with (i_bisect x, i_depth 30, i_prec 50)|]).
  apply Forall_nil.
Qed.

(* ---- locating a key in an increasing table ---- *)
Lemma last_key_default (tbl : list (R * R)) d d' : tbl <> [] -> last tbl d = last tbl d'.
Proof. induction tbl as [|p [|q r] IH]; intro H; [contradiction|reflexivity|]. cbn [last] in *. apply IH. discriminate. Qed.

Lemma locate : forall (tbl : list (R * R)) x0 y0 x,
  increasing ((x0, y0) :: tbl) -> x0 <= x <= fst (last ((x0, y0) :: tbl) (x0, y0)) ->
  (exists v, In (x, v) ((x0, y0) :: tbl)) \/
  (exists l1 x1 y1 x2 y2 l2, (x0, y0) :: tbl = l1 ++ (x1, y1) :: (x2, y2) :: l2 /\ x1 < x < x2).
Proof.
  induction tbl as [|[x1 y1] tbl IH]; intros x0 y0 x Hs Hx.
  - cbn [last fst] in Hx. left. exists y0. left. f_equal. lra.
  - destruct (Rlt_le_dec x x1) as [L|G].
    + destruct (Req_EM_T x x0) as [E|N].
      * left. exists y0. left. subst; reflexivity.
      * right. exists [], x0, y0, x1, y1, tbl. split; [reflexivity|lra].
    + assert (Hl : last ((x0, y0) :: (x1, y1) :: tbl) (x0, y0) = last ((x1, y1) :: tbl) (x1, y1)).
      { cbn [last]. destruct tbl; [reflexivity|]. apply last_key_default. discriminate. }
      rewrite Hl in Hx.
      destruct (IH x1 y1 x (increasing_tail _ _ Hs) (conj G (proj2 Hx))) as [[v Hin]|(l1 & a & b & c & e & l2 & E & Hk)].
      * left. exists v. right. exact Hin.
      * right. exists ((x0, y0) :: l1), a, b, c, e, l2. split; [cbn [app]; rewrite E; reflexivity|exact Hk].
Qed.

Lemma in_segs : forall (l1 : list (R * R)) p q l2, In (p, q) (segs (l1 ++ p :: q :: l2)).
Proof.
  induction l1 as [|a l1 IH]; intros p q l2.
  - cbn [app segs]. left. reflexivity.
  - cbn [app]. destruct l1 as [|b l1]; cbn [app segs]; right; [left; reflexivity|exact (IH p q l2)].
Qed.

(* every area fraction from 0 to 1 is inside the table, and the tabulated angle reproduces it *)
Lemma beta_accurate x : 0 <= x <= 1 ->
  exists b, lookup RN (Tables.Arel_to_beta RN) Tables.Arel_to_beta_xlo Tables.Arel_to_beta_xhi (Tables.Arel_to_beta_tol RN) x = Some b
            /\ Rabs (seg_area b - x) <= 75 / 10000.
Proof.
  intro Hx. pose proof beta_keys as Hs.
  remember (Tables.Arel_to_beta RN) as tbl eqn:Et.
  assert (Hd : exists x0 y0 r, tbl = (x0, y0) :: r /\ x0 = 0 /\ fst (last tbl (x0, y0)) = 1).
  { rewrite Et. unfold Tables.Arel_to_beta. toR. eexists _, _, _. split; [reflexivity|]. cbn [last fst]. split; lra. }
  destruct Hd as (x0 & y0 & r & E & E0 & E1). rewrite E in Hs, E1.
  assert (Hx' : x0 <= x <= fst (last ((x0, y0) :: r) (x0, y0))) by (rewrite E1; lra).
  destruct (locate r x0 y0 x Hs Hx') as [[v Hin]|(l1 & x1 & y1 & x2 & y2 & l2 & D & Hk)].
  - exists v. rewrite E. split; [apply lookup_hit; assumption|].
    pose proof nodes_accurate as F. rewrite <- Et, E in F. rewrite Forall_forall in F. specialize (F _ Hin). cbn [fst snd] in F.
    lra.
  - exists (line x1 y1 x2 y2 x). rewrite E, D. rewrite D in Hs. split; [apply lookup_interior; assumption|].
    pose proof between_accurate as F. rewrite <- Et, E, D in F. rewrite Forall_forall in F.
    specialize (F _ (in_segs l1 (x1, y1) (x2, y2) l2)). unfold seg_ok in F. cbn [fst snd] in F. apply F. lra.
Qed.

(* monotone: rows strictly increasing in both columns, from (0, 0) to (1, 3.1415927), |3.1415927 - pi| < 1e-7 *)
Definition both_inc (p q : R * R) : Prop := fst p < fst q /\ snd p < snd q.
Lemma rows_monotone : StronglySorted both_inc (Tables.Arel_to_beta RN).
Proof.
  unfold Tables.Arel_to_beta. toR.
  repeat (apply SSorted_cons; [|repeat (apply Forall_cons; [unfold both_inc; cbn [fst snd]; split; lra|]); apply Forall_nil]).
  apply SSorted_nil.
Qed.
Lemma rows_ends : hd (1, 1) (Tables.Arel_to_beta RN) = (0 / 100000, 0 / 10000000) /\
                  fst (last (Tables.Arel_to_beta RN) (0, 0)) = 100000 / 100000 /\
                  Rabs (snd (last (Tables.Arel_to_beta RN) (0, 0)) - PI) < 1 / 10000000.
Proof.
  unfold Tables.Arel_to_beta. toR. cbn [hd last fst snd]. split; [reflexivity|]. split; [reflexivity|].
  interval with (i_prec 60).
Qed.
Lemma line_increasing x1 y1 x2 y2 a b : x1 < x2 -> y1 < y2 -> a < b -> line x1 y1 x2 y2 a < line x1 y1 x2 y2 b.
Proof.
  intros Hx Hy Hab. unfold line.
  assert (0 < / (x2 - x1)) by (apply Rinv_0_lt_compat; lra).
  assert (0 < (y2 - y1) / (x2 - x1)) by (unfold Rdiv; nra). nra.
Qed.
